#!/bin/bash
# Full build of the Coq development (.vo, never -vos), extraction and the OCaml driver. Offline.
set -e
cd "$(dirname "$0")/coq"
[ -f Makefile ] || coq_makefile -f _CoqProject -o Makefile >/dev/null
timeout 3000 make -j16 2>&1 | grep -v '^COQ\|^make\|^CAMLOPT\|^Closed under\|^Axioms:\|^ClassicalDedekind\|^FunctionalExt\|^Classical_Prop\|^  ' || true
test ${PIPESTATUS[0]} -eq 0
cd Extract
if [ ! -f driver ] || [ Extract.v -nt driver ] || [ driver.ml -nt driver ] || [ -n "$(find ../Model ../Base -name '*.vo' -newer driver 2>/dev/null)" ]; then
  timeout 600 coqc -Q .. MV Extract.v 2>&1 | grep -v -i 'warning\|^$\|unknown-option\|^File\|"Extraction Output' || true
  timeout 600 ocamlfind ocamlopt -O2 -w -a model.mli model.ml driver.ml -o driver
fi
echo build-ok
