#!/usr/bin/env python3
"""Runs every audit patch (seeded/audit/<name>/patch.diff: one-line changes that slipped past the checks when the audit
was made) against the checks named for it; each must raise an alarm now.  Writes seeded/audit/RESULTS.md."""
import json
import os
import subprocess

MAP = {
    "g1-a_split_meta": ["C02"], "g1-b_copy_squash": ["C05"], "g1-c_copy_cutout": ["C03"], "g1-d_idx_float": ["C01"],
    "g1-e_default_ign": ["C02"], "g1-f_index_eq": ["C05"],
    "g2-pA": ["C06", "C02"], "g2-pB": ["C06"], "g2-pC": ["C06"], "g2-pD": ["C06"], "g2-pE1": ["C07"], "g2-pE2": ["C07"],
    "g2-pF1": ["C08"], "g2-pG1": ["C09"], "g2-pH": ["C07"], "g2-pK": ["C09"],
    "g3-c11-value-to-parameter": ["C11"], "g3-c12-tempo-extend-no-copy": ["C12"], "g3-c15-prolong-default": ["C15"],
    "g3-c15-extend-default-min": ["C15"],
    "g4-c16a": ["C16"], "g4-c16b": ["C16"], "g4-c16c": ["C16"], "g4-c16d": ["C16"], "g4-c17a": ["C17"], "g4-c17b": ["C17"],
    "g4-c18a": ["C18"], "g4-c18b": ["C18"], "g4-c18c": ["C18"], "g4-c19a": ["C19"], "g4-c19b": ["C19"], "g4-c19c": ["C19"],
    "revert-D12": ["C12"],
    "g4-c19d": ["C19"], "g4-c19e": ["C19"], "g4-c20a": ["C20"], "g4-c20b": ["C20"], "g4-c20c": ["C20"], "g4-c20d": ["C20"],
}
rows = []
for name, ids in sorted(MAP.items()):
    d = f"/verif/seeded/audit/{name}"
    if not os.path.exists(d + "/patch.diff"):
        continue
    subprocess.run(["python3", "/verif/tools/try_harmless.py", d] + ids, stdout=subprocess.DEVNULL, stderr=subprocess.DEVNULL)
    r = json.load(open(d + "/result.json"))
    caught = [i for i in ids if r["checks"].get(i, {}).get("exit") == 1 and r["checks"][i]["violation"]]
    what = next((r["checks"][i]["what"] for i in caught), "")
    rows.append((name, ",".join(ids), "suite: " + r["suite_tail"].split(" in ")[0], "caught by " + ",".join(caught) if caught else "NOT CAUGHT", what[:140]))
    print(rows[-1])
with open("/verif/seeded/audit/RESULTS.md", "w") as f:
    f.write("| patch | checks run | the repository's own suite with the patch | result | first message |\n|---|---|---|---|---|\n")
    for r in rows:
        f.write("| " + " | ".join(x.replace("|", "/") for x in r) + " |\n")
