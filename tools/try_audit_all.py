#!/usr/bin/env python3
"""Runs every audit patch (seeded/audit/<name>/patch.diff: one-line changes that slipped past the checks when the audit
was made) against the checks named for it; each must raise an alarm now.  Writes seeded/audit/RESULTS.md."""
import json
import os
import subprocess

MAP = {
    "g1-a_split_meta": ["C02"], "g1-b_copy_squash": ["C05"], "g1-c_copy_cutout": ["C03"], "g1-d_idx_float": ["C01"],
    "g1-e_default_ign": ["C02"], "g1-f_index_eq": ["C05"],
    "g2-pA": ["C06", "C02"], "g2-pB": ["C06"], "g2-pC": ["C06"], "g2-pD": ["C06"], "g2-pE1": ["C07"], "g2-pE2": ["C07"],
    "g2-pF1": ["C08"], "g2-pG1": ["C09"], "g2-pH": ["C07"], "g2-pK": ["C09"],
    "g3-c11-value-to-parameter": ["C11"], "g3-c12-tempo-extend-no-copy": ["C12"], "g3-c15-prolong-default": ["C15"],
    "g3-c15-extend-default-min": ["C15"],
    "g4-c16a": ["C16"], "g4-c16b": ["C16"], "g4-c16c": ["C16"], "g4-c16d": ["C16"], "g4-c17a": ["C17"], "g4-c17b": ["C17"],
    "g4-c18a": ["C18"], "g4-c18b": ["C18"], "g4-c18c": ["C18"], "g4-c19a": ["C19"], "g4-c19b": ["C19"], "g4-c19c": ["C19"],
    "revert-D12": ["C12"],
    "g4-c19d": ["C19"], "g4-c19e": ["C19"], "g4-c20a": ["C20"], "g4-c20b": ["C20"], "g4-c20c": ["C20"], "g4-c20d": ["C20"],
}
MAP2 = {
    "g1-c01-shared-child-lookup": ["C01"], "g1-c02-concurrence-subclass-hook": ["C02"], "g1-c02-copy-fallback-typeerror": ["C02"],
    "g1-c02-leaf-payload-shared": ["C02"], "g1-c02-shared-container-split": ["C02"], "g1-c03-c04-c05-voices-replaced-by-copies": ["C03", "C04", "C05"],
    "g2-constant-tempo-object": ["C07"], "g2-converter-option-false": ["C07"], "g2-empty-flex-read-writes": ["C10"], "g2-long-envelope": ["C08"],
    "g2-shared-container": ["C02", "C06"], "g2-side-attribute-lost": ["C06"],
    "g3-c12-new-voice-loses-tempo-masked-by-F9": ["C12"], "g3-c12-padded-voice-tempo-seam": ["C12"], "g3-c13-converter-reuse-stale-tempo": ["C13"],
    "g3-c13-zero-length-keeps-tempo": ["C13"], "g3-c14-neutral-fastpath-no-copy": ["C14"], "g3-c15-concurrence-subclass-hook": ["C15"],
    "g4-c16-mutate-shared-value": ["C16"], "g4-c17-tempo-coarse-compare": ["C17"], "g4-c18-parse-existing-subclass": ["C18"],
    "g4-c18-resolution-bound-at-import": ["C18"], "g4-c19-repetition-joins-trajectory": ["C19"], "g4-c19-tag-index-memo": ["C19"],
    "g4-c20-closest-item-key": ["C20"], "g4-c20-dict-to-duration-names": ["C20"],
}
import sys
ROUND = "audit2" if "--audit2" in sys.argv else "audit"
if ROUND == "audit2":
    MAP = MAP2
rows = []
for name, ids in sorted(MAP.items()):
    d = f"/verif/seeded/{ROUND}/{name}"
    if not os.path.exists(d + "/patch.diff"):
        continue
    subprocess.run(["python3", "/verif/tools/try_harmless.py", d] + ids, stdout=subprocess.DEVNULL, stderr=subprocess.DEVNULL)
    r = json.load(open(d + "/result.json"))
    caught = [i for i in ids if r["checks"].get(i, {}).get("exit") == 1 and r["checks"][i]["violation"]]
    what = next((r["checks"][i]["what"] for i in caught), "")
    rows.append((name, ",".join(ids), "suite: " + r["suite_tail"].split(" in ")[0], "caught by " + ",".join(caught) if caught else "NOT CAUGHT", what[:140]))
    print(rows[-1])
with open(f"/verif/seeded/{ROUND}/RESULTS.md", "w") as f:
    f.write("| patch | checks run | the repository's own suite with the patch | result | first message |\n|---|---|---|---|---|\n")
    for r in rows:
        f.write("| " + " | ".join(x.replace("|", "/") for x in r) + " |\n")
