TITLE = "Copies and converted events are independent of their source"
IMPORTS = ["From Coq Require Import List Bool Arith.",
           "From MV Require Import Model.Heap Proofs.HeapP.",
           "Import ListNotations."]
ENTRIES = [
 ("C14_destructive_copy_fresh", "dcopy_fresh", "a destructive copy (and every conversion, which starts from one and only attaches freshly created objects) shares no object with its source"),
 ("C14_destructive_copy_no_object_twice", "dcopy_nodup", "and contains no object twice"),
 ("C14_destructive_copy_all_distinct", "dcopy_pattern", ""),
 ("C14_destructive_copy_same_structure", "dcopy_shape", ""),
 ("C14_destructive_copy_identities", "dcopy_gids", ""),
 ("C14_copy_fresh", "pcopy_fresh", "a copy shares no object with its source"),
 ("C14_copy_keeps_sharing", "pcopy_sharing", "and keeps exactly the sharing of the source"),
 ("C14_copy_same_pattern", "pcopy_pattern", ""),
 ("C14_copy_same_structure", "pcopy_shape", ""),
 ("C14_frame", "copies_independent", "frame: any mutation confined to the objects of one event leaves every observation of an event with disjoint objects unchanged -- this covers every subsequent change of durations, parameters, tags, tempo values or children"),
 ("C14_destructive_copy_source_unaffected", "dcopy_independent", "changing the copy is never visible in the source"),
 ("C14_destructive_copy_copy_unaffected", "dcopy_independent_rev", "and vice versa"),
 ("C14_copy_source_unaffected", "pcopy_independent", ""),
 ("C14_copy_copy_unaffected", "pcopy_independent_rev", ""),
]
EXTRA = """Print obs. Print pattern.
(* "Producing the copy or the conversion leaves the source observably unchanged" is, in this model, the fact that
   the operations are functions of the source; on the implementation it is decided by the oracle of every run
   (structural snapshot of the source before/after, aliasing walk with id(), two mutation runs). *)
"""
