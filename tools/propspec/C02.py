TITLE = "split_at tiles the event: parts partition the timeline and keep its content"
IMPORTS = ["From Coq Require Import ZArith List Bool Permutation.",
           "From MV Require Import Base.Res Model.EventTree Model.TreeOps Proofs.TreeLemmas Proofs.Split.",
           "Import ListNotations.", "Open Scope Z_scope."]
ENTRIES = [
 ("C02_total", "split_total", "splitting at distinct times 0 <= t <= duration succeeds"),
 ("C02_tiles", "split_tiles", "the parts, played one after the other, are exactly the original timeline: durations sum to the original duration and what is active at every time -- at every level of nesting, in the original order -- is what was active in the original (nothing lost, nothing duplicated); every part has the kind, tag and tempo of the original"),
 ("C02_boundaries", "split_boundaries", "every requested time strictly inside the event is the start of a part"),
 ("C02_durations", "split_durations", "the parts' durations are exactly the gaps between consecutive cut times (0 and the duration included); only a final zero-length gap may have no part"),
 ("C02_single_cut", "split_at_single", "one cut strictly inside: exactly two parts; offset x inside part i shows what was active at (start of part i) + x"),
 ("C02_order_irrelevant", "split_perm", "the order in which the times are passed is irrelevant"),
 ("C02_no_time_rejected", "split_no_time", "no time at all is rejected"),
 ("C02_negative_time_rejected", "split_negative", "a negative time is rejected"),
 ("C02_time_beyond_duration_rejected", "split_beyond", "a time beyond the duration is rejected (unless explicitly ignored)"),
 ("C02_beyond_ignored", "split_tiles_ignore", "... and when ignored the parts still tile the event"),
]
EXTRA = """Print same_shape. Print gaps. Print times.
(* The event that was split is left unchanged: the model is a pure function; on the implementation this is
   checked by the correspondence (receiver snapshot before/after every call). *)

Example C02_example :
  let e := Seq meta0 [Seq meta0 [Leaf 10 1; Leaf 20 2]; Sim meta0 [Leaf 15 3; Seq meta0 [Leaf 5 4; Leaf 10 5]]; Leaf 10 6] in
  wf e /\\ NoDup [35; 5; 50] /\\
  split_at e [35; 5; 50] false =
    Ok [Seq meta0 [Seq meta0 [Leaf 5 1]];
        Seq meta0 [Seq meta0 [Leaf 5 1; Leaf 20 2]; Sim meta0 [Leaf 5 3; Seq meta0 [Leaf 5 4]]];
        Seq meta0 [Sim meta0 [Leaf 10 3; Seq meta0 [Leaf 10 5]]; Leaf 5 6];
        Seq meta0 [Leaf 5 6]].
Proof. vm_compute. split; [repeat split; discriminate|]. split; [|reflexivity]. repeat constructor; simpl; intuition discriminate. Qed.
"""
