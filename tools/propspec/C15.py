TITLE = "Refining structure does not move content in time"
IMPORTS = ["From Coq Require Import ZArith List Bool.",
           "From MV Require Import Base.Res Model.EventTree Model.TreeOps Proofs.TreeLemmas Proofs.Split Proofs.Extend Proofs.Refine Proofs.RefineSeq Proofs.RefineFinal Proofs.NoAttr.",
           "Import ListNotations.", "Open Scope Z_scope."]
ENTRIES = [
 ("C15_split_child_sequence", "split_child_at_seq", "dividing the child of a sequence under time t: what is active at every time and the total duration stay the same, a boundary exists at t afterwards"),
 ("C15_split_child_same_content", "split_child_at_same", "for every container (simultaneities: every voice, nested arbitrarily): only the nesting changes"),
 ("C15_split_child_boundary", "split_child_at_boundary", "a boundary exists at the requested time afterwards, in every voice"),
 ("C15_split_child_structure", "split_child_at_divided", "exactly what is divided: the order of content within each voice is kept"),
 ("C15_split_child_beyond_rejected", "split_child_at_seq_beyond", "no child under t: rejected"),
 ("C15_split_child_negative_rejected", "split_child_at_negative", ""),
 ("C15_split_child_succeeds_iff", "split_child_at_ok_iff", ""),
 ("C15_sequentialize_total_and_same", "sequentialize_ok_final", "turning a simultaneity into a sequence of simultaneous slices always succeeds, keeps the tag, the duration, what is active at every time, and yields rectangular slices (all voices of a slice equally long, except zero-length entries: finding F3)"),
 ("C15_sequentialize_same_content", "sequentialize_at_final", ""),
 ("C15_sequentialize_rectangular", "sequentialize_rectangular_final", ""),
 ("C15_sequentialize_shape", "sequentialize_shape", ""),
 ("C15_extend_duration", "extend_dur", "extending until d makes the duration max(old, d)"),
 ("C15_extend_sequence", "extend_seq_spec", "... by adding rest at the end, without touching earlier content"),
 ("C15_extend_exact", "extend_iff", "exactly what happens to every voice (a leaf that is itself a voice is prolonged)"),
 ("C15_extend_content", "extend_content_full", ""),
 ("C15_extend_idempotent", "extend_idempotent", "doing it twice equals doing it once"),
 ("C15_extend_empty_simultaneity_rejected", "extend_empty_sim", ""),
 ("C15_attribute_error_only_from_leaf", "split_child_at_attribute_error_only_from_leaf", "the error protocol Concurrence.split_child_at relies on when it catches AttributeError around the call on a child: in the model that error is the answer of a leaf and of nothing else"),
 ("C15_extend_until_attribute_error_only_from_leaf", "extend_until_attribute_error_only_from_leaf", "the same for Concurrence.extend_until, whose handler prolongs the child: the model's extend_until answers AttributeError for a leaf and for nothing else"),
]
EXTRA = """Print na. Print is_leaf.
Print divided. Print has_boundary. Print rect_row. Print extended.

Example C15_example :
  let e := Sim (mkMeta 7 0) [Seq meta0 [Leaf 2 1; Leaf 1 2]; Seq meta0 [Leaf 3 3]] in
  sequentialize e = Ok (Seq (mkMeta 7 0) [Sim meta0 [Seq meta0 [Leaf 2 1]; Seq meta0 [Leaf 2 3]];
                                          Sim meta0 [Seq meta0 [Leaf 1 2]; Seq meta0 [Leaf 1 3]]]).
Proof. vm_compute. reflexivity. Qed.
"""
