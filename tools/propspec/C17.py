TITLE = "Equality is an equivalence that sees every observable difference"
IMPORTS = ["From Coq Require Import ZArith List Bool.",
           "From MV Require Import Base.Res Model.Equality Proofs.EqualityP.",
           "Import ListNotations.", "Open Scope Z_scope."]
ENTRIES = [
 ("C17_reflexive", "ev_eqb_refl", "event equality is reflexive (events whose descendants are all events)"),
 ("C17_symmetric", "ev_eqb_sym", "symmetric"),
 ("C17_transitive", "ev_eqb_trans", "transitive"),
 ("C17_ne_is_negation", "ev_neqb_spec", "!= is its negation"),
 ("C17_non_event_false", "ev_eqb_non_event", "comparison with a non-event is False, both ways"),
 ("C17_leaf_equality_exact", "ev_eqb_leaf_iff", "exact characterisation for leaves: duration, tag, tempo (bpm), every additional parameter"),
 ("C17_container_equality_exact", "ev_eqb_cont_iff", "exact characterisation for containers: kind, tag, tempo (bpm), children pairwise equal in order"),
 ("C17_leaf_vs_container", "ev_eqb_kinds", "a leaf never equals a container"),
 ("C17_differs_container_kind", "neq_container_kind_gen", "sequence vs simultaneity"),
 ("C17_differs_child_count", "neq_child_count", "number of children"),
 ("C17_differs_child", "neq_child_at", "a differing child at some position (order changes, differences at any depth by iteration)"),
 ("C17_differs_leaf_duration", "neq_leaf_duration", "a leaf's duration (in ticks = beyond the 10-digit resolution)"),
 ("C17_differs_tag", "neq_tag", "any tag"),
 ("C17_differs_extra_parameter", "neq_extra", "any additional parameter on a leaf"),
 ("C17_differs_extra_parameter_missing", "neq_extra_missing", ""),
 ("C17_differs_tempo_bpm", "neq_tempo_bpm", "their tempo (bpm at time 0)"),
 ("C17_tempo_after_time0_refuted", "tempo_after_time0_refuted", "refutation of the full tempo clause: trajectories that differ only after time 0 compare equal (known finding F1)"),
]
EXTRA = """Print all_events.
(* "every copy equals its source": a copy is the same value in this model (eq_refl); on the implementation
   copy() == source and destructive_copy() == source are checked by the oracle of every run. *)
"""
