TITLE = "squash_in overwrites: the new event occupies [start, start+d), the rest stays"
IMPORTS = ["From Coquelicot Require Import Coquelicot.", "From Coq Require Import ZArith List Bool.",
           "From MV Require Import Base.Res Model.EventTree Model.TreeOps Model.Num Model.Envelope Proofs.TreeLemmas Proofs.SplitBase Proofs.Squash Proofs.RNum Proofs.Resample Proofs.EnvSquash Proofs.NoAttr.",
           "Import ListNotations.", "Open Scope Z_scope."]
ENTRIES = [
 ("C05_sequence", "squash_in_seq", "into a sequence at 0 <= start <= duration: duration max(old, start+d); the new event occupies [start, start+d) and begins exactly at start (it is the i-th child and the children before it sum to start); everything before start and after start+d stays at its old time (at_seq of the result equals at_seq of the original there); same tag and tempo"),
 ("C05_any_nesting", "squash_in_spec", "the general statement for every accepted event (sq_ok: no leaf as a voice, every innermost sequence reaches start, no empty simultaneity), at every nesting depth; sq_post = duration, well-formedness, same kind/tag/tempo, content"),
 ("C05_simultaneity_of_sequences", "squash_in_sim_seq_voices", "into a simultaneity of sequences: the same happens in every child"),
 ("C05_negative_start_rejected", "squash_in_negative", "a start below 0 is rejected"),
 ("C05_start_beyond_duration_rejected", "squash_in_beyond", "a start beyond the duration is rejected"),
 ("C05_leaf_child_rejected", "squash_in_leaf_voice", "squashing into a simultaneity is rejected if a child is a leaf"),
 ("C05_envelope_receiver_behind_end_rejected", "p_squash_rejects_behind_end", "with an envelope (a sequence of control points, any number type) as the receiver: a start behind its end is rejected - the envelope is not prolonged"),
 ("C05_envelope_receiver_negative_rejected", "p_squash_rejects_negative", ""),
 ("C05_envelope_receiver_at_end", "squash_at_end", "a new control point at the end is appended"),
 ("C05_envelope_receiver_inside_a_point", "squash_mid", "a new control point that begins inside a control point and reaches exactly to the next one: the point is divided, the rest of the envelope stays"),
 ("C05_envelope_receiver_inside_last_point", "squash_last_short", "inside the last control point: the point is divided around the new one"),
 ("C05_attribute_error_only_from_leaf", "squash_in_attribute_error_only_from_leaf", "the error protocol Concurrence.squash_in relies on when it catches AttributeError around the call on a child: in the model that error is the answer of a leaf and of nothing else (no sequence, no simultaneity, at no depth, for no argument)"),
]
EXTRA = """Print na. Print is_leaf.
(* what the general statement says about one event *)
Print sq_ok. Print sq_post. Print emb.

Example C05_example :
  let e := Seq meta0 [Leaf 10 1; Sim meta0 [Seq meta0 [Leaf 5 2; Leaf 10 3]; Seq meta0 [Leaf 15 4]]; Leaf 10 5] in
  wf e /\\ squash_in e 12 (Leaf 6 9) = Ok (Seq meta0 [Leaf 10 1; Sim meta0 [Seq meta0 [Leaf 2 2]; Seq meta0 [Leaf 2 4]]; Leaf 6 9;
                                                       Sim meta0 [Seq meta0 [Leaf 7 3]; Seq meta0 [Leaf 7 4]]; Leaf 10 5]).
Proof. vm_compute. split; [repeat split; discriminate|reflexivity]. Qed.
"""
