TITLE = "Asking an envelope a question never changes it"
IMPORTS = ["From Coq Require Import ZArith List Bool Permutation.",
           "From MV Require Import Base.Res Model.EventTree Model.TreeOps Model.Num Model.Envelope Proofs.Purity.",
           "Import ListNotations."]
ENTRIES = [
 ("C10_read_leaves_envelope", "query_pure", "one read (value, parameter, curve shape, point, points in a range, integral, average, is-static, control points) leaves every control point as it was"),
 ("C10_history_pure", "queries_pure", "any sequence of reads returns the envelope unchanged and the same answers as the same reads asked of untouched copies"),
 ("C10_any_order", "queries_order_independent", "in any order"),
 ("C10_no_influence", "queries_independent_of_prefix", "earlier reads do not influence later answers"),
]
EXTRA = """(* Honest limit (DESIGN.md 6 C10): these theorems say the model of the fixed tree has no writes; that the
   implementation's reads have an empty write set is decided by the correspondence of every run
   (snapshot of the live object after every read of a generated history). *)
Print ask. Print step.
"""
