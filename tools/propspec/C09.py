TITLE = "Envelope integrals agree with the interpolated curve and are additive"
IMPORTS = ["From Coquelicot Require Import Coquelicot.", "From Coq Require Import ZArith List Bool Reals.",
           "From MV Require Import Base.Res Model.EventTree Model.TreeOps Model.Num Model.Envelope Proofs.RNum Proofs.IntegralSeg Proofs.Integral.",
           "Import ListNotations.", "Open Scope R_scope."]
ENTRIES = [
 ("C09_integral_is_area_under_curve", "integrate_is_RInt", "the integral the envelope reports over [a, b] is the Riemann integral of its own interpolated curve (clamped parts outside the points and interval ends strictly inside curved segments included)"),
 ("C09_total", "integrate_total", "defined for every non-empty envelope and a <= b"),
 ("C09_zero_for_equal_ends", "integrate_same", "0 for a = b"),
 ("C09_additive", "integrate_additive", "additive over adjacent intervals"),
 ("C09_bounds", "integrate_bounds", "bounded by (b - a) times the smallest and largest control value"),
 ("C09_average_is_integral_over_length", "average_spec", "the reported average over [a, b] is that integral divided by b - a"),
 ("C09_average_is_mean", "average_is_mean", ""),
 ("C09_segment_area_closed_form", "seg_area_correct", "the per-segment closed form (trapezoid for shape 0, exponential antiderivative otherwise) is the integral of the segment curve"),
 ("C09_segment_splitting_law", "segR_split", "the splitting law of the exponential segment that justifies ad-hoc points with partial curve shapes"),
]
EXTRA = """Print vmin. Print vmax.
"""
