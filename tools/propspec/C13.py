TITLE = "metrize bakes tempi into durations, once, and leaves neutral tempo behind"
IMPORTS = ["From Coquelicot Require Import Coquelicot.", "From Coq Require Import ZArith List Bool Reals.",
           "From MV Require Import Base.Res Model.EventTree Model.TreeOps Model.Num Model.Envelope Model.Convert Model.MetrizeSteps Proofs.RNum Proofs.Interp Proofs.Integral Proofs.ConvertCache Proofs.ConvertP Proofs.MetrizeStepsP Proofs.MetrizeStepsAdd Proofs.MetrizeStepsInt.",
           "Import ListNotations."]
ENTRIES = [
 ("C13_constant_tempi_multiply", "metrize_constant", "constant tempi multiply: a leaf of length d under tempi b1..bk on its path, its own included, lasts d * (60/b1) * ... * (60/bk)"),
 ("C13_constant_tempi_model_order", "metrize_constant_acc", ""),
 ("C13_single_tempo_node_is_conversion", "metrize_single_node", "for a single tempo-carrying node the result equals tempo conversion with that node's tempo"),
 ("C13_single_tempo_node_integrals", "metrize_single_node_integrals", ""),
 ("C13_neutral_event_unchanged", "metrize_neutral_identity", "an event whose nodes all carry the neutral tempo (60) is not changed: metrizing again changes nothing"),
 ("C13_nested_trajectories_outside_model", "metrize_nested_traj_rejected", "boundary of the one-trajectory model: a trajectory below a trajectory is rejected there ..."),
 ("C13_step_model_is_conservative", "metrize2_conservative", "... and decided by the step model (metrize2 = the one-trajectory model wherever that decides, else the step model), which changes no answer of the former"),
 ("C13_step_model_only_adds", "metrize2_only_adds", ""),
 ("C13_step_model_agrees_on_constants", "metrize_steps_constant", "on trees with constant tempi only, the step model gives the same products"),
 ("C13_locally_constant_tempi_multiply", "integ_steps_one_piece", "the clause the step model adds: a stretch of beats inside which no tempo of any level changes lasts its length times the product of 60 / bpm of all levels (prod_at = one factor per trajectory on the path)"),
 ("C13_stretches_add_up", "integ_steps_first_piece", "and a leaf lasts the first stretch plus the rest"),
 ("C13_one_factor_per_level", "prod_at_cons", ""),
 ("C13_step_model_independent_of_subdivision", "integ_steps_additive", "the seconds of the beats [x, b) are those of [x, m) plus those of [m, b), whatever tempo changes of whatever level lie inside (with the fuel the model gives itself)"),
 ("C13_leaf_subdivision", "leaf_subdivision", "hence a leaf of d1 + d2 beats lasts what a leaf of d1 beats followed by a leaf of d2 beats lasts, under any stack of step trajectories"),
 ("C13_step_model_is_the_integral_under_one_trajectory", "integ_steps_is_integrate", "the two models agree where both apply, not only by construction: under ONE step trajectory the step model's seconds of [x, b) are what `integrate` - the routine of the one-trajectory model, proved to be the Riemann integral of the curve - computes"),
 ("C13_curved_trajectories_outside_step_model", "metrize_steps_rejects_curves", "a curved trajectory below a trajectory stays undecided (model and property alike)"),
 ("C13_nested_steps_example", "nested_steps_example", "2 beats under 240 | 120 bpm (change after 1 beat) and 60 | 30 bpm (change after 1.5 beats) last 1 second"),
]
EXTRA = """Print leaf_products. Print path_factor. Print single_traj. Print metrize2. Print integ_steps. Print next_bp. Print prod_at. Print step_value. Print is_step.
(* "Afterwards every node carries the neutral tempo", "in-place form = converter form" and "the converter form leaves
   its input unchanged" are statements about object state; they are decided on the implementation by the oracle of
   every run (flags not-neutral-after / inplace-differs / not-idempotent / input-changed). *)
"""
