TITLE = "metrize bakes tempi into durations, once, and leaves neutral tempo behind"
IMPORTS = ["From Coquelicot Require Import Coquelicot.", "From Coq Require Import ZArith List Bool Reals.",
           "From MV Require Import Base.Res Model.EventTree Model.TreeOps Model.Num Model.Envelope Model.Convert Proofs.RNum Proofs.Interp Proofs.Integral Proofs.ConvertCache Proofs.ConvertP.",
           "Import ListNotations."]
ENTRIES = [
 ("C13_constant_tempi_multiply", "metrize_constant", "constant tempi multiply: a leaf of length d under tempi b1..bk on its path, its own included, lasts d * (60/b1) * ... * (60/bk)"),
 ("C13_constant_tempi_model_order", "metrize_constant_acc", ""),
 ("C13_single_tempo_node_is_conversion", "metrize_single_node", "for a single tempo-carrying node the result equals tempo conversion with that node's tempo"),
 ("C13_single_tempo_node_integrals", "metrize_single_node_integrals", ""),
 ("C13_neutral_event_unchanged", "metrize_neutral_identity", "an event whose nodes all carry the neutral tempo (60) is not changed: metrizing again changes nothing"),
 ("C13_nested_trajectories_outside_model", "metrize_nested_traj_rejected", "model boundary: a trajectory below a trajectory is not modelled (those cases are decided by the implementation-side oracle only)"),
]
EXTRA = """Print leaf_products. Print path_factor. Print single_traj.
(* "Afterwards every node carries the neutral tempo", "in-place form = converter form" and "the converter form leaves
   its input unchanged" are statements about object state; they are decided on the implementation by the oracle of
   every run (flags not-neutral-after / inplace-differs / not-idempotent / input-changed). *)
"""
