TITLE = "Joining on the time axis appends content and tempo; operands survive"
IMPORTS = ["From Coquelicot Require Import Coquelicot.", "From Coq Require Import ZArith List Bool Reals.",
           "From MV Require Import Base.Res Model.EventTree Model.TreeOps Model.Num Model.Envelope Model.Convert Proofs.TreeLemmas Proofs.Extend Proofs.Access Proofs.RNum Proofs.Join Proofs.JoinTempo Proofs.JoinHistory.",
           "Import ListNotations."]
ENTRIES = [
 ("C12_add_sequences", "seq_add_spec", "adding two sequences: the first operand's children followed by the second's, same kind / tag / tempo"),
 ("C12_add_content", "seq_add_content", "the first operand's content plays unchanged, followed -- starting exactly at its duration -- by the second's, in order"),
 ("C12_add_durations_add", "seq_add_dur", "so durations add"),
 ("C12_concat_by_index", "concat_index_spec", "concatenating two simultaneities of sequences voice by voice (by position): matched voices = first voice, rest up to the first operand's duration D, then the second voice; shorter voices are padded with rest; new voices get a rest of length D in front"),
 ("C12_concat_by_index_list", "concat_index_list", ""),
 ("C12_concat_by_index_durations_add", "concat_index_dur", ""),
 ("C12_concat_voice_content", "joined_voice_at", "what is active in a joined voice: first operand below its length, rest up to D, the second operand's content shifted by D"),
 ("C12_concat_by_tag", "concat_tag_spec", "by tag: the partner is the first voice carrying the tag"),
 ("C12_concat_by_tag_general", "concat_tag_fold", "(general form, repeated tags included)"),
 ("C12_concat_by_tag_durations_add", "concat_tag_dur", ""),
 ("C12_concat_no_tag_rejected", "concat_tag_no_tag_ex", "a voice without tag is rejected when joining by tag"),
 ("C12_concat_leaf_voice_rejected", "concat_leaf_voice_rejected", "a leaf as partner voice is rejected"),
 ("C12_padding", "pre_extend_spec", ""),
 ("C12_tempo_join_total", "join_total", "tempo: the join is defined for every pair of tempi"),
 ("C12_join_keeps_invariant", "concat_index_inv", "a join by index of simultaneities of sequences succeeds and yields again a well-formed simultaneity of sequences whose duration is the sum"),
 ("C12_join_history", "join_history", "hence any number of joins on one receiver (the history stream of the correspondence): always succeeds, the total is the sum of all operands' durations"),
 ("C12_tempo_follows_first_then_second", "join_spec", "the result's tempo follows the first operand's tempo up to its duration and the second's, shifted, afterwards (the joint itself is a jump)"),
 ("C12_tempo_at_joint", "join_at_joint", ""),
 ("C12_tempo_equal_constants", "join_trivial", "two equal constant tempi: nothing changes"),
 ("C12_tempo_tail_at_seam", "join_tail_at_seam", "a first tempo whose last point has a length of its own and ends exactly at the seam (the case of defect D12): the hypotheses of the theorem above are met and its tail keeps its value up to the seam"),
]
EXTRA = """Print seqs. Print join_all. Print operand_ok. Print dur_sum.
Print nontrivial. Print tail_positive. Print zipjoin. Print padv. Print newv.
(* "the second operand (and for '+', the first) still has its original content and tempo values": the model's
   operations are functions of their operands; on the implementation this is decided by the oracle of every
   run (snapshots of both operands before/after). Known findings: F7 (the tempo of a simultaneity itself is not
   joined), F8 (a new voice that is a simultaneity gets the padding rest inserted into children it shares with
   the second operand). *)
"""
