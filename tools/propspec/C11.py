TITLE = "Re-sampling, cutting, splitting or extending an envelope keeps its curve"
IMPORTS = ["From Coquelicot Require Import Coquelicot.", "From Coq Require Import ZArith List Bool Reals.",
           "From MV Require Import Base.Res Model.EventTree Model.TreeOps Model.Num Model.Envelope Proofs.RNum Proofs.Resample Proofs.ResampleCut Proofs.ResampleSplit Proofs.ResampleHistory.",
           "Import ListNotations."]
ENTRIES = [
 ("C11_sample_keeps_curve", "sample_curve", "adding a control point at any time leaves the value at every time unchanged and creates a point exactly there"),
 ("C11_sample_total", "sample_total", ""),
 ("C11_extend_keeps_curve", "extend_curve", "extending an envelope to a later time: the same"),
 ("C11_history_keeps_curve", "history_keeps_curve", "any history of sample_at / extend_until edits on one envelope (the result of an edit is an envelope like any other): the curve is unchanged at every time"),
 ("C11_history_last_point", "history_last_point", "and the point asked for last is a control point at the end"),
 ("C11_cut_out_reproduces", "cut_out_curve", "cutting out [a, b]: value at offset x of the piece equals the original value at a + x, including the new end and the final control point; at offset 0 under `nojump` (finding F6 otherwise)"),
 ("C11_cut_out_total", "cut_out_total", ""),
 ("C11_cut_out_on_jump_refuted", "cut_out_jump_refuted", "the refutation at offset 0 when the piece starts exactly on a jump (known finding F6)"),
 ("C11_nojump_when_not_a_point", "nojump_notin", "`nojump` holds when the time is no control point, is 0, or no two points share a time"),
 ("C11_nojump_at_zero", "nojump_0", ""),
 ("C11_nojump_strict", "nojump_strict", ""),
 ("C11_cut_off_reproduces", "cut_off_curve", "cutting off [a, b): everything before a unchanged, everything behind shifted by b - a (the instant a itself is the cut)"),
 ("C11_cut_off_total", "cut_off_total", ""),
 ("C11_split_reproduces", "split_curve", "splitting at given times: every part reproduces the original on its span"),
 ("C11_segment_division", "curve_divide", "the mathematical core: dividing a segment with the partial curve shapes q*c and c - q*c leaves the curve unchanged"),
 ("C11_segment_split_left", "segR_split_left", ""),
 ("C11_segment_split_right", "segR_split_right", ""),
]
EXTRA = """Print eop. Print run_eop. Print run_eops. Print eop_ok. Print eop_time.
Print nojump. Print mid_ok. Print last_ok. Print cuts_of.
(* splitting leaves the original untouched: the model is a pure function; checked on the implementation by the
   correspondence (receiver snapshot before/after). *)
"""
