TITLE = "slide_in inserts without overwriting: later content shifts by its length"
IMPORTS = ["From Coq Require Import ZArith List Bool.",
           "From MV Require Import Base.Res Model.EventTree Model.TreeOps Proofs.TreeLemmas Proofs.SplitBase Proofs.Squash Proofs.Slide Proofs.NoAttr.",
           "Import ListNotations.", "Open Scope Z_scope."]
ENTRIES = [
 ("C06_sequence", "slide_in_seq", "into a sequence at 0 <= start <= duration: the duration grows by exactly d; everything before start unchanged, the new event exactly at start, everything from start onwards later by d with content and order intact (a child under start is divided, not shortened: at_seq (x - d) of the original)"),
 ("C06_any_nesting", "slide_in_spec", "the general statement for every accepted event, at every nesting depth"),
 ("C06_simultaneity_of_sequences", "slide_in_sim_seq_voices", "on a simultaneity this happens in every child"),
 ("C06_negative_start_rejected", "slide_in_negative", "a negative start is rejected"),
 ("C06_start_beyond_duration_rejected", "slide_in_beyond", "a start beyond the duration is rejected"),
 ("C06_leaf_child_rejected", "slide_in_leaf_voice", "leaves as children are rejected"),
 ("C06_attribute_error_only_from_leaf", "slide_in_attribute_error_only_from_leaf", "the error protocol Concurrence.slide_in relies on when it catches AttributeError around the call on a child: in the model that error is the answer of a leaf and of nothing else"),
]
EXTRA = """Print na. Print is_leaf.
Print sl_post.

Example C06_example :
  let e := Seq meta0 [Leaf 10 1; Seq meta0 [Leaf 5 2; Leaf 10 3]; Leaf 10 5] in
  wf e /\\ slide_in e 12 (Leaf 6 9) = Ok (Seq meta0 [Leaf 10 1; Seq meta0 [Leaf 2 2]; Leaf 6 9; Seq meta0 [Leaf 3 2; Leaf 10 3]; Leaf 10 5]).
Proof. vm_compute. split; [repeat split; discriminate|reflexivity]. Qed.
"""
