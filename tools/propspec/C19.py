TITLE = "Children are addressed and pruned faithfully: tags, slices, remove_by, tie_by"
IMPORTS = ["From Coq Require Import ZArith List Bool.",
           "From MV Require Import Base.Res Model.EventTree Model.TreeOps Proofs.TreeLemmas Proofs.Access.",
           "Import ListNotations.", "Open Scope Z_scope."]
ENTRIES = [
 ("C19_tag_read_first", "get_by_tag_first", "indexing by a tag reads the first child carrying that tag"),
 ("C19_tag_read_keyerror", "get_by_tag_keyerror", "and fails with a key error iff none does"),
 ("C19_tag_replace_first", "set_by_tag_spec", "replacing by tag replaces the first child carrying the tag"),
 ("C19_tag_replace_effect", "set_by_tag_effect", "... same length, every other child untouched"),
 ("C19_tag_replace_keyerror", "set_by_tag_keyerror", ""),
 ("C19_tag_delete_first", "del_by_tag_spec", "deleting by tag deletes the first child carrying the tag"),
 ("C19_tag_delete_effect", "del_by_tag_effect", ""),
 ("C19_tag_delete_keyerror", "del_by_tag_keyerror", ""),
 ("C19_slice_is_sublist", "lslice_sublist", "slice access behaves as for a list"),
 ("C19_slice_keeps_kind_tag_tempo", "slice_keeps_meta", "slices are containers of the same kind with the same tag and tempo"),
 ("C19_sum_spec", "seq_add_spec", "sums: children of the first followed by children of the second, same kind/tag/tempo"),
 ("C19_sum_duration", "seq_add_dur", ""),
 ("C19_sum_content", "seq_add_content", ""),
 ("C19_remove_by_keeps_exactly", "remove_by_in", "pruning keeps exactly the children satisfying the condition"),
 ("C19_remove_by_is_filter", "remove_by_spec", ""),
 ("C19_remove_by_order", "remove_by_order", "... in order"),
 ("C19_remove_by_shape", "remove_by_shape", ""),
 ("C19_tie_total_unchanged", "tie_flat_dsum", "tying never changes the total duration of a sequence, for every condition"),
 ("C19_tie_duration_unchanged", "tie_by_dur", "the container's duration is unchanged (trees without simultaneities: known finding F4 otherwise)"),
 ("C19_tie_in_simultaneity_refuted", "tie_by_sim_refuted", "refutation of the full statement inside simultaneities (finding F4): simultaneous neighbours are summed"),
 ("C19_tie_runs", "tie_flat_runs", "tying by a key condition merges each maximal run of neighbouring leaves into the surviving one (first or last), whose duration becomes the run's total"),
 ("C19_tie_runs_properties", "tie_flat_runs_props", ""),
 ("C19_runs_are_the_maximal_runs", "runs_unique", "`runs` is characterised independently: the unique partition into non-empty, key-homogeneous, maximal blocks"),
 ("C19_tie_nested_sequence", "tie_by_nested_seq", "restricted to leaves, tying is done inside every nested container as well"),
 ("C19_tie_nested_simultaneity", "tie_by_nested_sim", ""),
 ("C19_tie_wellformed", "tie_by_wf", ""),
]
EXTRA = """Print group_runs. Print runs. Print collapse.
"""
