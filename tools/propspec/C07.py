TITLE = "Tempo conversion gives every leaf the integral of beat length over its span"
IMPORTS = ["From Coquelicot Require Import Coquelicot.", "From Coq Require Import ZArith List Bool Reals.",
           "From MV Require Import Base.Res Model.EventTree Model.TreeOps Model.Num Model.Envelope Model.Convert Proofs.RNum Proofs.Interp Proofs.Integral Proofs.ConvertCache Proofs.ConvertP.",
           "Import ListNotations."]
ENTRIES = [
 ("C07_leaf_durations_are_integrals", "convert_leaf_integrals", "converting returns, for the identical structure (same leaves in the same order), each leaf's duration = the integral over the beats that leaf occupied of the seconds-per-beat curve"),
 ("C07_total", "convert_total", ""),
 ("C07_same_number_of_leaves", "convert_length", ""),
 ("C07_seconds_per_beat_points", "seconds_env_points", "the seconds-per-beat curve takes the value 60/bpm at every tempo point, with the same times and curve shapes"),
 ("C07_seconds_per_beat_at_point", "seconds_env_at_point", ""),
 ("C07_seconds_per_beat_curve", "seconds_env_curve", "... interpolated with the points' curve shapes and held constant outside (it is the envelope curve of C08 of those points)"),
 ("C07_subdivision_independent", "convert_subdivision_independent", "the converted total is the integral over the whole span: it does not depend on how the span is subdivided into events"),
 ("C07_subdivision_totals_equal", "convert_subdivision_total", ""),
 ("C07_constant_tempo_scales", "convert_constant", "a constant tempo scales every duration by 60/bpm"),
 ("C07_tempo_60_changes_nothing", "convert_60_identity", "tempo 60 changes nothing"),
 ("C07_history_independent", "convert_history_independent", "a converter gives the same answer no matter how many events it has converted before (memo table invariant; any number type)"),
 ("C07_history_independent_converse", "convert_history_independent_conv", ""),
 ("C07_memo_table_sound", "convert_c_ok", ""),
 ("C07_memo_table_complete", "convert_c_complete", ""),
]
EXTRA = """Print spans. Print cache_ok.
"""
