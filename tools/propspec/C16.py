TITLE = "Bulk edits touch every distinct child exactly once and rescale proportionally"
IMPORTS = ["From Coq Require Import ZArith QArith List Bool.",
           "From MV Require Import Base.Res Model.Numbers Model.IdTree Proofs.IdTreeP Proofs.ServedOnce.",
           "Import ListNotations.", "Open Scope Z_scope."]
ENTRIES = [
 ("C16_set_exactly_once", "set_once", "setting a parameter through a container applies the value or function exactly once to the ORIGINAL value of every distinct leaf below it, however often and wherever that leaf object is referenced; nothing else is touched"),
 ("C16_traversal_any_edit", "apply_once_spec", "the same for any per-leaf edit (mutate_parameter)"),
 ("C16_without_sharing", "set_once_nodup", ""),
 ("C16_served_once_per_distinct_leaf", "served_once_per_distinct_leaf", "how often the function is called: a call counter per leaf object shows 1 on every distinct leaf and 0 elsewhere - whatever the leaves hold (one parameter object shared by several leaves is served once per leaf)"),
 ("C16_read_flat_per_position", "get_flat_nth", "reading a parameter returns one entry per leaf POSITION in order (flat)"),
 ("C16_read_flat_length", "get_flat_length", ""),
 ("C16_read_flat_filtered", "get_parameter_flat_in", ""),
 ("C16_read_nested_mirrors_tree", "get_nested_node", "or the same entries nested like the tree"),
 ("C16_read_nested_same_entries", "get_nested_mirror", ""),
 ("C16_read_nested_unfiltered", "get_parameter_nested_false", ""),
 ("C16_duration_leaves_rescaled", "set_duration_leaves", "assigning a duration to a container of non-zero duration rescales every distinct leaf once by new/old (ratios kept, up to the 10-digit rounding)"),
 ("C16_duration_becomes_value", "set_duration_total", "and makes its duration that value: within half a tick of rounding per leaf position"),
 ("C16_duration_rounding_bound", "rescale_near", ""),
 ("C16_empty_container_rejects", "set_duration_empty", "an empty container rejects the assignment"),
]
EXTRA = """Print consistent. Print leaf_set. Print rescale.
"""
