#!/usr/bin/env python3
"""Runs the checks against a semantics-preserving rewrite of /repo (seeded/harmless/<name>/patch.diff): no check may
raise an alarm.  The patch is applied in a scratch worktree (VERIF_REPO), evidence goes to a scratch directory.
usage: try_harmless.py <dir> [ids...]   (default: all checks)"""
import json
import os
import shutil
import subprocess
import sys
import tempfile

d = os.path.abspath(sys.argv[1])
ids = sys.argv[2:] or [c["property_id"] for c in json.load(open("/verif/MANIFEST.json"))["checks"]]


def sh(cmd, cwd=None, env=None):
    p = subprocess.run(cmd, cwd=cwd, env=env, stdout=subprocess.PIPE, stderr=subprocess.STDOUT, text=True, timeout=3000)
    return p.returncode, p.stdout


wt = tempfile.mkdtemp(prefix="harmwt-", dir="/tmp")
os.rmdir(wt)
out = tempfile.mkdtemp(prefix="harmout-", dir="/tmp")
sh(["git", "-C", "/repo", "worktree", "add", "-q", "--detach", wt, "HEAD"])
res = {"dir": d, "checks": {}}
try:
    rc, o = sh(["git", "-C", wt, "apply", os.path.join(d, "patch.diff")])
    res["patch_applies"] = rc == 0
    if rc != 0:
        print("PATCH DOES NOT APPLY:", d, o[:200])
    rc, o = sh(["/venv/bin/python", "-m", "pytest", "-q", "-p", "no:cacheprovider", "--timeout=900"], cwd=wt,
               env=dict(os.environ, PYTHONPATH=wt, PYTHONDONTWRITEBYTECODE="1"))
    res["suite_tail"] = o.strip().split("\n")[-1]
    env = dict(os.environ, VERIF_REPO=wt, VERIF_OUT=out, PYTHONDONTWRITEBYTECODE="1")
    for i in ids:
        rc, o = sh(["./check", i], cwd="/verif", env=env)
        lines = [l.replace(out, "<scratch>") for l in o.split("\n") if l.startswith("VIOLATION")]
        what = ""
        for l in lines:
            try:
                r = json.load(open(l.split("replay=")[1].split()[0].replace("<scratch>", out)))
                what = (r.get("what") or "; ".join(r.get("broken_obligations", [])) or "; ".join(b["what"] for b in r.get("broken_correspondence", [])[:2]))[:300]
            except Exception:
                pass
        res["checks"][i] = {"exit": rc, "violation": lines, "what": what}
finally:
    sh(["git", "-C", "/repo", "worktree", "remove", "--force", wt])
    shutil.rmtree(wt, ignore_errors=True)
    shutil.rmtree(out, ignore_errors=True)
alarms = {k: v for k, v in res["checks"].items() if v["exit"] != 0}
# a run over some of the checks updates those entries of an earlier result and keeps the others
try:
    earlier = json.load(open(os.path.join(d, "result.json")))["checks"]
except (OSError, ValueError, KeyError):
    earlier = {}
earlier.update(res["checks"])
res["checks"] = dict(sorted(earlier.items()))
res["alarms"] = sorted(k for k, v in res["checks"].items() if v["exit"] != 0)
json.dump(res, open(os.path.join(d, "result.json"), "w"), indent=1)
print(os.path.basename(d), res["suite_tail"], "| alarms:", alarms if alarms else "none")
