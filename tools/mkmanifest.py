#!/usr/bin/env python3
"""Regenerates MANIFEST.json from the table below (keeps it schema-valid at all times)."""
import json
import os

VERIF = os.path.dirname(os.path.dirname(os.path.abspath(__file__)))
ids = [json.loads(l)["id"] for l in open(os.path.join(VERIF, "properties.jsonl"))]

NOTE_M1 = ("Theorems are about the hand-written Gallina model coq/Model/{EventTree,TreeOps}.v (times in integer ticks of 1e-10 beat); "
           "the model is tied to /repo's working tree on every run by the differential correspondence (extracted OCaml model vs the "
           "public Python API on the same seeded cases) and the Python re-statement of the theorems is evaluated on the implementation's "
           "observations. Assumed: no shared references inside the input tree, durations exact multiples of 1e-10 beat below 1e4 beats. "
           "Trusted: Coq kernel, extraction (ExtrOcamlBasic only), driver.ml, harness. Axioms: none.")

CLAIMED = {
    "C01": dict(text="Machine-checked theorems (Coq, closed under the global context) that durations compose (sum / max / 0), start times are "
                     "running sums, ranges tile [0, duration) and the lookup by time returns exactly the child whose half-open range contains "
                     "t, for every list of children; correspondence on edited live objects after random edit histories.",
                ref="6 C01", technique="Coq proof over a Gallina model + differential correspondence (extracted model vs implementation)", note=NOTE_M1),
    "C03": dict(text="Machine-checked theorems for every nested tree and every window: duration of the result, content (what is active at "
                     "every offset, at every nesting level), well-formedness, the documented rejections; correspondence + oracle on the implementation.",
                ref="6 C03", technique="Coq proof over a Gallina model + differential correspondence (extracted model vs implementation)", note=NOTE_M1),
    "C04": dict(text="Machine-checked theorems for every nested tree and every range: totality with valid arguments, duration, content shift, "
                     "no-op beyond the end, rejection of a negative start; correspondence + oracle on the implementation.",
                ref="6 C04", technique="Coq proof over a Gallina model + differential correspondence (extracted model vs implementation)", note=NOTE_M1),
}
# later entries are merged from tools/manifest_extra.json if present
extra = os.path.join(VERIF, "tools", "manifest_extra.json")
if os.path.exists(extra):
    for k, v in json.load(open(extra)).items():
        if v.get('note') == 'NOTE_M1':
            v['note'] = NOTE_M1
        CLAIMED[k] = v

checks = []
for pid in ids:
    if pid not in CLAIMED:
        continue
    c = CLAIMED[pid]
    checks.append({
        "property_id": pid,
        "quick_cmd": f"./check {pid} --tier quick",
        "thorough_cmd": f"./check {pid} --tier thorough",
        "evidence_file": f"/verif/evidence/{pid}.json",
        "replay_cmd_template": f"./check {pid} --replay {{path}}",
        "engine": "coq-model-correspondence",
        "level_claimed": {"category": "proof", "text": c["text"], "design_ref": "DESIGN.md section " + c["ref"]},
        "level_note": c["note"],
        "technique": c["technique"],
    })
m = {
    "version": 1,
    "setup_cmd": "./build.sh",
    "hooks": {
        "guard": "MUTWO_CORE_VERIF",
        "enable": "no hooks are needed: everything observed is reachable through the public API; checks run /venv/bin/python with PYTHONPATH=/repo",
        "baseline_off_cmd": "cd /repo && /venv/bin/python -m pytest -q -p no:cacheprovider --timeout=900",
        "source_commits": [],
        "add_only": True,
    },
    "engines": [{
        "name": "coq-model-correspondence", "path": "/verif/check",
        "serves_properties": [c["property_id"] for c in checks],
        "kind_free_text": "Coq 8.16 theorems over hand-written executable Gallina models; extracted OCaml driver vs the Python implementation on seeded cases; Python oracles for the failing-input search; for fifty-one kernels (straight-line functions, loop bodies, pipelines of generator expressions, whole methods statement by statement, two compositions of translated methods; table in DESIGN.md section 3.1) a fail-closed Python-ast -> Gallina translator (harness/translate.py, translate_px.py) regenerates coq/Gen/K_*.v from /repo on every run and hand-written lemmas tie the translation to the model",
    }],
    "checks": checks,
    "not_applicable": [{"property_id": i, "reason": "check under construction in this round (see DESIGN.md section 6); not claimed yet"}
                       for i in ids if i not in CLAIMED],
    "notes": "fix: commits made in /repo are recorded in known_findings.json (fixed entries suppress nothing).",
}
json.dump(m, open(os.path.join(VERIF, "MANIFEST.json"), "w"), indent=1)
print("claimed:", [c["property_id"] for c in checks])
