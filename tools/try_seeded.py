#!/usr/bin/env python3
"""Confirms a seeded change (patch.diff + demo.py + meta.json) and runs the checks against it.

usage: try_seeded.py <dir with patch.diff/demo.py/meta.json> [--all]
 1. in a scratch worktree of /repo (under /tmp, removed afterwards): the patch applies, the unedited
    suite passes, demo.py fails with the patch and passes without it;
 2. the check of the property (or all checks with --all) is run against that patched scratch worktree
    (VERIF_REPO=<worktree>, evidence and replays to a scratch directory VERIF_OUT): /repo is never modified.
Prints one summary line per check."""
import json
import os
import subprocess
import sys
import tempfile
import shutil

d = os.path.abspath(sys.argv[1])
run_all = "--all" in sys.argv
meta = json.load(open(os.path.join(d, "meta.json")))
pid = meta["property"]
patch = os.path.join(d, "patch.diff")
demo = os.path.join(d, "demo.py")
PY = "/venv/bin/python"


def sh(cmd, cwd=None, env=None, timeout=1800):
    p = subprocess.run(cmd, cwd=cwd, env=env, shell=isinstance(cmd, str), stdout=subprocess.PIPE, stderr=subprocess.STDOUT, text=True, timeout=timeout)
    return p.returncode, p.stdout


wt = tempfile.mkdtemp(prefix="seedwt-", dir="/tmp")
os.rmdir(wt)
outdir = tempfile.mkdtemp(prefix="seedout-", dir="/tmp")
rc, out = sh(["git", "-C", "/repo", "worktree", "add", "-q", "--detach", wt, "HEAD"])
res = {"property": pid, "dir": d}
detect = {}
try:
    env = dict(os.environ, PYTHONPATH=wt, PYTHONDONTWRITEBYTECODE="1")
    rc, out = sh([PY, demo], cwd=wt, env=env)
    res["demo_unpatched_passes"] = rc == 0
    rc, out = sh(["git", "-C", wt, "apply", patch])
    res["patch_applies"] = rc == 0
    rc, out = sh([PY, "-m", "pytest", "-q", "-p", "no:cacheprovider", "--timeout=900"], cwd=wt, env=env)
    res["suite_tail"] = out.strip().split("\n")[-1]
    res["suite_passes"] = rc == 0
    rc, out = sh([PY, demo], cwd=wt, env=env)
    res["demo_patched_fails"] = rc != 0
    res["demo_tail"] = out.strip().split("\n")[-1][:200] if out.strip() else ""
    print(json.dumps(res, indent=1))
    # the checks run against the patched scratch worktree (VERIF_REPO), evidence and replays go to a scratch
    # directory (VERIF_OUT): /repo and the committed evidence are never touched
    ids = [pid]
    if run_all:
        ids = [c["property_id"] for c in json.load(open("/verif/MANIFEST.json"))["checks"]]
    cenv = dict(os.environ, VERIF_REPO=wt, VERIF_OUT=outdir, PYTHONDONTWRITEBYTECODE="1")
    for i in ids:
        rc, out = sh(["./check", i], cwd="/verif", env=cenv)
        lines = [l for l in out.split("\n") if l.startswith("VIOLATION") or l.startswith(i + ":")]
        what = ""
        for l in lines:
            if l.startswith("VIOLATION") and "replay=" in l:
                rp = l.split("replay=")[1].split()[0]
                try:
                    r = json.load(open(rp))
                    what = (r.get("what") or "; ".join(r.get("broken_obligations", []))[:300] or
                            "; ".join(b["what"] for b in r.get("broken_correspondence", [])[:2]))[:400]
                except Exception:
                    pass
        detect[i] = {"exit": rc, "lines": [l.replace(outdir, "<scratch>") for l in lines], "what": what}
        print(i, "exit", rc, " | ".join(l[:160].replace(outdir, "<scratch>") for l in lines))
        if what:
            print("   ", what[:300])
finally:
    sh(["git", "-C", "/repo", "worktree", "remove", "--force", wt])
    shutil.rmtree(wt, ignore_errors=True)
    shutil.rmtree(outdir, ignore_errors=True)
res["checks"] = detect
json.dump(res, open(os.path.join(d, "confirmation.json"), "w"), indent=1)
