#!/usr/bin/env python3
"""Confirms a seeded change (patch.diff + demo.py + meta.json) and runs the checks against it.

usage: try_seeded.py <dir with patch.diff/demo.py/meta.json> [--all]
 1. in a scratch worktree of /repo (under /tmp, removed afterwards): the patch applies, the unedited
    suite passes, demo.py fails with the patch and passes without it;
 2. the patch is applied to /repo, the check of the property (or all checks with --all) is run,
    and the patch is undone straight afterwards (git -C /repo checkout -- .).
Prints one summary line per check."""
import json
import os
import subprocess
import sys
import tempfile
import shutil

d = os.path.abspath(sys.argv[1])
run_all = "--all" in sys.argv
meta = json.load(open(os.path.join(d, "meta.json")))
pid = meta["property"]
patch = os.path.join(d, "patch.diff")
demo = os.path.join(d, "demo.py")
PY = "/venv/bin/python"


def sh(cmd, cwd=None, env=None, timeout=1800):
    p = subprocess.run(cmd, cwd=cwd, env=env, shell=isinstance(cmd, str), stdout=subprocess.PIPE, stderr=subprocess.STDOUT, text=True, timeout=timeout)
    return p.returncode, p.stdout


wt = tempfile.mkdtemp(prefix="seedwt-", dir="/tmp")
os.rmdir(wt)
rc, out = sh(["git", "-C", "/repo", "worktree", "add", "-q", "--detach", wt, "HEAD"])
res = {"property": pid, "dir": d}
try:
    env = dict(os.environ, PYTHONPATH=wt, PYTHONDONTWRITEBYTECODE="1")
    rc, out = sh([PY, demo], cwd=wt, env=env)
    res["demo_unpatched_passes"] = rc == 0
    rc, out = sh(["git", "-C", wt, "apply", patch])
    res["patch_applies"] = rc == 0
    rc, out = sh([PY, "-m", "pytest", "-q", "-p", "no:cacheprovider", "--timeout=900"], cwd=wt, env=env)
    res["suite_tail"] = out.strip().split("\n")[-1]
    res["suite_passes"] = rc == 0
    rc, out = sh([PY, demo], cwd=wt, env=env)
    res["demo_patched_fails"] = rc != 0
    res["demo_tail"] = out.strip().split("\n")[-1][:200] if out.strip() else ""
finally:
    sh(["git", "-C", "/repo", "worktree", "remove", "--force", wt])
    shutil.rmtree(wt, ignore_errors=True)
print(json.dumps(res, indent=1))

ids = [pid]
if run_all:
    ids = [c["property_id"] for c in json.load(open("/verif/MANIFEST.json"))["checks"]]
rc, out = sh(["git", "-C", "/repo", "status", "--short"])
if out.strip():
    sys.exit("refusing: /repo has uncommitted changes:\n" + out)
sh(["git", "-C", "/repo", "apply", patch])
detect = {}
try:
    for i in ids:
        rc, out = sh(["./check", i], cwd="/verif")
        lines = [l for l in out.split("\n") if l.startswith("VIOLATION") or l.startswith(i + ":")]
        detect[i] = {"exit": rc, "lines": lines}
        print(i, "exit", rc, " | ".join(l[:160] for l in lines))
finally:
    sh(["git", "-C", "/repo", "checkout", "--", "."])
res["checks"] = detect
json.dump(res, open(os.path.join(d, "confirmation.json"), "w"), indent=1)
