(* Extraction of the executable models for the correspondence driver.
   ExtrOcamlBasic only: bool, option, unit, list, prod, sumbool, sumor are mapped to OCaml's
   native types; Z, positive, nat stay extracted datatypes; no Extract Constant. *)
From Coq Require Import ZArith List.
From Coq Require Extraction ExtrOcamlBasic.
From MV Require Import Base.Res Model.EventTree Model.TreeOps Model.Num Model.Envelope Model.Convert Model.Equality Model.Numbers Model.Tools Model.IdTree Model.Heap Model.TieAll Model.ListOps Model.LazyExn Model.MetrizeSteps.
Extraction Language OCaml.

Extraction "model.ml"
  dur dsum height wfb starts index_at ranges at_ flat
  cut_out cut_off split_at split_child_at squash_in slide_in extend_until extend_until_default
  sequentialize concatenate seq_add get_by_tag set_by_tag del_by_tag remove_by tie_by tie_all set_dur get_int set_int del_int py_slice ev_mul generic_add lslice with_children children
  value_at curve_shape_at point_at points_in_range integrate average is_static sample_at env_extend_until
  env_cut_out env_cut_off env_split_at of_points to_points pdur pstarts
  seconds_env convert convert_history metrize metrize2 metrize_steps join_tempo
  ev_eqb ev_neqb
  d_eq d_lt d_le d_gt d_ge d_ne arith arith_r st_run st_beat st_read parse_duration parse_tempo seconds_of western_bpm qval to_ticks round_digits
  scale scale_sequence_to_sum accumulate_from_n cyclic_permutations find_closest_index uniqify nget nset ndel
  find_sums default_numbers default_counts chronon_to_attribute dict_to_keyword_argument dict_to_chronon lazy_run lazy_call lazy_run_x lazy_call_x
  set_parameter get_parameter_flat get_parameter_nested set_duration idur leaf_positions all_ids
  dcopy pcopy pattern gids.
