(* Correspondence driver: reads one s-expression case per line on stdin, evaluates the
   extracted Gallina model (Model), prints one s-expression observation per line.
   Hand-written and trusted: parsing/printing and int<->Z conversion only. *)
open Model

type sx = A of string | L of sx list

let parse (s : string) : sx =
  let n = String.length s in
  let pos = ref 0 in
  let rec skip () = if !pos < n && (s.[!pos] = ' ' || s.[!pos] = '\t' || s.[!pos] = '\r') then (incr pos; skip ()) in
  let rec item () : sx =
    skip ();
    if !pos >= n then failwith "eof"
    else if s.[!pos] = '(' then begin
      incr pos;
      let acc = ref [] in
      let rec loop () =
        skip ();
        if !pos >= n then failwith "unbalanced"
        else if s.[!pos] = ')' then incr pos
        else (acc := item () :: !acc; loop ()) in
      loop (); L (List.rev !acc)
    end else begin
      let st = !pos in
      while !pos < n && s.[!pos] <> ' ' && s.[!pos] <> '(' && s.[!pos] <> ')' do incr pos done;
      A (String.sub s st (!pos - st))
    end in
  item ()

let rec show (x : sx) : string =
  match x with
  | A a -> a
  | L l -> "(" ^ String.concat " " (List.map show l) ^ ")"

(* ---- numbers *)
let rec pos_of_int n = if n = 1 then XH else if n land 1 = 0 then XO (pos_of_int (n lsr 1)) else XI (pos_of_int (n lsr 1))
let z_of_int n = if n = 0 then Z0 else if n > 0 then Zpos (pos_of_int n) else Zneg (pos_of_int (-n))
let rec int_of_pos = function XH -> 1 | XO p -> 2 * int_of_pos p | XI p -> 2 * int_of_pos p + 1
let int_of_z = function Z0 -> 0 | Zpos p -> int_of_pos p | Zneg p -> - (int_of_pos p)
let rec nat_of_int n = if n <= 0 then O else S (nat_of_int (n - 1))
let rec int_of_nat = function O -> 0 | S n -> 1 + int_of_nat n

(* arbitrary precision: decimal strings <-> Z through the extracted Z arithmetic, 15 digits at a time
   (OCaml's 63-bit int is only used for the chunks) *)
let chunk = z_of_int 1000000000000000
let z_of_string (a : string) : z =
  let neg = String.length a > 0 && a.[0] = '-' in
  let digits = if neg || (String.length a > 0 && a.[0] = '+') then String.sub a 1 (String.length a - 1) else a in
  let n = String.length digits in
  if n = 0 then failwith "int expected";
  String.iter (fun c -> if c < '0' || c > '9' then failwith ("int expected: " ^ a)) digits;
  let rec go (acc : z) (i : int) : z =
    if i >= n then acc
    else
      let len = if (n - i) mod 15 = 0 then 15 else (n - i) mod 15 in
      let part = int_of_string (String.sub digits i len) in
      go (Z.add (Z.mul acc chunk) (z_of_int part)) (i + len) in
  let v = go Z0 0 in
  if neg then Z.opp v else v
let string_of_z (v : z) : string =
  let neg = (match v with Zneg _ -> true | _ -> false) in
  let rec go (v : z) (acc : string list) : string list =
    match v with
    | Z0 -> acc
    | _ ->
      let (q, r) = Z.div_eucl v chunk in
      (match q with
       | Z0 -> string_of_int (int_of_z r) :: acc
       | _ -> go q (Printf.sprintf "%015d" (int_of_z r) :: acc)) in
  match v with
  | Z0 -> "0"
  | _ -> (if neg then "-" else "") ^ String.concat "" (go (Z.abs v) [])
let zi (x : sx) : z = match x with A a -> z_of_string a | _ -> failwith "int expected"
let ni (x : sx) : nat = match x with A a -> nat_of_int (int_of_string a) | _ -> failwith "nat expected"
let bi (x : sx) : bool = match x with A "1" | A "true" -> true | A _ -> false | _ -> failwith "bool expected"
let sz (v : z) : sx = A (string_of_z v)
let sn (v : nat) : sx = A (string_of_int (int_of_nat v))

(* ---- trees *)
let rec tree (x : sx) : ev =
  match x with
  | L [A "L"; d; l] -> Leaf (zi d, zi l)
  | L (A "S" :: tg :: tp :: kids) -> Seq ({ tag = zi tg; tempo = zi tp }, List.map tree kids)
  | L (A "P" :: tg :: tp :: kids) -> Sim ({ tag = zi tg; tempo = zi tp }, List.map tree kids)
  | _ -> failwith ("tree expected: " ^ show x)
let rec stree (e : ev) : sx =
  match e with
  | Leaf (d, l) -> L [A "L"; sz d; sz l]
  | Seq (m, cs) -> L (A "S" :: sz m.tag :: sz m.tempo :: List.map stree cs)
  | Sim (m, cs) -> L (A "P" :: sz m.tag :: sz m.tempo :: List.map stree cs)

let err_name (e : err) : string =
  match e with
  | EInvalidAbsoluteTime -> "InvalidAbsoluteTime" | EInvalidStartAndEnd -> "InvalidStartAndEndValueError"
  | EInvalidCutOut -> "InvalidCutOutStartAndEndValuesError" | EInvalidStartValue -> "InvalidStartValueError"
  | ESplitError -> "SplitError" | ESplitUnavailableChild -> "SplitUnavailableChildError"
  | ENoSplitTime -> "NoSplitTimeError" | EImpossibleToSquashIn -> "ImpossibleToSquashInError"
  | EImpossibleToSlideIn -> "ImpossibleToSlideInError" | EIneffectiveExtendUntil -> "IneffectiveExtendUntilError"
  | EImpossibleToExtendUntil -> "ImpossibleToExtendUntilError" | EConcatenation -> "ConcatenationError"
  | ENoTag -> "NoTagError" | EKeyError -> "KeyError" | EIndexError -> "IndexError" | ERuntimeError -> "RuntimeError"
  | ETypeError -> "TypeError" | EAttributeError -> "AttributeError" | EEmptyEnvelope -> "EmptyEnvelopeError"
  | ECannotSetDurationOfEmpty -> "CannotSetDurationOfEmptyCompound" | ECannotParse -> "CannotParseError"
  | EValueError -> "ValueError" | EZeroDivision -> "ZeroDivisionError" | EFuel -> "MODEL-OUT-OF-FUEL"

let rtree (r : ev res) : sx = match r with Ok e -> L [A "ok"; stree e] | Err k -> L [A "err"; A (err_name k)]
let rtrees (r : ev list res) : sx =
  match r with Ok es -> L [A "ok"; L (A "parts" :: List.map stree es)] | Err k -> L [A "err"; A (err_name k)]

(* ---- named conditions for remove_by / tie_by *)
let zmod a k = let r = a mod k in if r < 0 then r + k else r
let keep_of (x : sx) : ev -> bool =
  match x with
  | L [A "durgt"; n] -> let n = int_of_z (zi n) in fun e -> int_of_z (dur e) > n
  | L [A "labmod"; k; r] ->
      let k = int_of_z (zi k) and r = int_of_z (zi r) in
      (fun e -> match e with Leaf (_, l) -> zmod (int_of_z l) k = r | _ -> true)
  | L [A "leafonly"] -> (fun e -> match e with Leaf _ -> true | _ -> false)
  | _ -> failwith "keep condition"
let tie_of (x : sx) : ev -> ev -> bool =
  match x with
  | L [A "samekey"; k] ->
      let k = int_of_z (zi k) in
      (fun a b -> match a, b with Leaf (_, l1), Leaf (_, l2) -> zmod (int_of_z l1) k = zmod (int_of_z l2) k | _ -> false)
  | L [A "always"] -> (fun _ _ -> true)
  | L [A "samekind"] -> (fun a b -> (match a with Leaf _ -> true | _ -> false) = (match b with Leaf _ -> true | _ -> false))
  | L [A "samedur"] -> (fun a b -> int_of_z (dur a) = int_of_z (dur b))
  | _ -> failwith "tie condition"

(* ---- one operation on a tree (used directly and inside histories) *)
let rec apply_op (t : ev) (op : sx) : ev res =
  match op with
  | L [A "child"; i; op'] ->
      (* edit the i-th child in place *)
      let i = int_of_z (zi i) in
      let cs = children t in
      if (match t with Leaf _ -> true | _ -> false) then Err ETypeError
      else if i < 0 || i >= List.length cs then Err EIndexError
      else (match apply_op (List.nth cs i) op' with
            | Ok c' -> Ok (with_children t (List.mapi (fun j c -> if j = i then c' else c) cs))
            | Err k -> Err k)
  | L [A "set_dur"; d] ->
      (match t with Leaf (_, l) -> Ok (Leaf (zi d, l)) | _ -> Err EAttributeError)
  | L [A "cut_out"; s; e] -> cut_out t (zi s) (zi e)
  | L [A "cut_off"; s; e] -> cut_off t (zi s) (zi e)
  | L [A "split_child_at"; x] -> split_child_at t (zi x)
  | L [A "squash_in"; s; n] -> squash_in t (zi s) (tree n)
  | L [A "slide_in"; s; n] -> slide_in t (zi s) (tree n)
  | L [A "extend_until"; p; A "none"] -> ignore p; extend_until_default t
  | L [A "extend_until"; p; d] -> extend_until (bi p) t (zi d)
  | L [A "sequentialize"] -> sequentialize t
  | L [A "concat"; bt; o] -> concatenate (bi bt) t (tree o)
  | L [A "add"; o] -> seq_add t (tree o)
  | L [A "remove_by"; c] -> (match t with Leaf _ -> Err EAttributeError | _ -> Ok (remove_by (keep_of c) t))
  | L [A "tie_by"; c; rm] -> (match t with Leaf _ -> Err EAttributeError | _ -> Ok (tie_by (tie_of c) (bi rm) t))
  | L [A "tie_all"; c; rm] -> tie_all (tie_of c) (bi rm) t
  | L [A "geti"; i] -> get_int t (zi i)
  | L [A "seti"; i; x] -> (match t with Leaf _ -> Err ETypeError | _ -> set_int t (zi i) (tree x))
  | L [A "deli"; i] -> (match t with Leaf _ -> Err ETypeError | _ -> del_int t (zi i))
  | L [A "pyslice"; a; b] ->
      let ob (x : sx) = (match x with A "none" -> None | _ -> Some (zi x)) in
      (match t with Leaf _ -> Err ETypeError | _ -> Ok (py_slice t (ob a) (ob b)))
  | L [A "mul"; n] -> (match t with Leaf _ -> Err ETypeError | _ -> Ok (ev_mul t (zi n)))
  | L [A "gadd"; o] -> generic_add t (tree o)
  | L [A "set_tag"; tg; n] ->
      (match set_by_tag (children t) (zi tg) (tree n) with Ok cs -> Ok (with_children t cs) | Err k -> Err k)
  | L [A "del_tag"; tg] ->
      (match del_by_tag (children t) (zi tg) with Ok cs -> Ok (with_children t cs) | Err k -> Err k)
  | L [A "slice"; i0; i1] -> Ok (with_children t (lslice (ni i0) (ni i1) (children t)))
  | _ -> failwith ("unknown op " ^ show op)

let seqinfo (t : ev) (ts : sx list) : sx =
  let cs = children t in
  L [A "ok";
     L [A "dur"; sz (dur t)];
     L (A "starts" :: List.map sz (starts cs));
     L (A "ranges" :: List.map (fun (a, b) -> L [sz a; sz b]) (ranges cs));
     L (A "index" :: List.map (fun x -> match index_at cs (zi x) with None -> A "none" | Some i -> sn i) ts)]

(* C01: every container of the tree reports its derived time data; the query times for the
   lookup are derived from the node by a fixed rule (each start -1/+0/+1, -1, dur-1, dur, dur+1) *)
let query_times (cs : ev list) : int list =
  let st = List.map int_of_z (starts cs) in
  let d = int_of_z (dsum cs) in
  List.sort_uniq compare (List.concat_map (fun s -> [s - 1; s; s + 1]) st @ [-1; d - 1; d; d + 1])
let rec deep (e : ev) : sx list =
  match e with
  | Leaf _ -> []
  | Seq (_, cs) ->
      L [A "s"; sz (dur e);
         L (List.map sz (starts cs));
         L (List.map (fun (a, b) -> L [sz a; sz b]) (ranges cs));
         L (List.map (fun t -> match index_at cs (z_of_int t) with None -> A "none" | Some i -> sn i) (query_times cs))]
      :: List.concat_map deep cs
  | Sim (_, cs) -> L [A "p"; sz (dur e)] :: List.concat_map deep cs

(* ---- M2: envelopes over OCaml floats (the Num record is passed here; no Extract Constant) *)
let rec float_of_pos = function XH -> 1.0 | XO p -> 2.0 *. float_of_pos p | XI p -> 2.0 *. float_of_pos p +. 1.0
let float_of_z = function Z0 -> 0.0 | Zpos p -> float_of_pos p | Zneg p -> -. (float_of_pos p)
(* Python's round(x, 10) on a quotient of durations *)
let round10 (x : float) : float =
  if Float.is_integer x || Float.is_nan x || Float.abs x > 1e5 then x
  else float_of_string (Printf.sprintf "%.10f" x)
let fnum : float num = {
  n0 = 0.0; n1 = 1.0; nadd = ( +. ); nsub = ( -. ); nmul = ( *. ); ndiv = ( /. ); nexp = exp;
  nleb = (fun a b -> a <= b); nltb = (fun a b -> a < b); neqb = (fun a b -> a = b);
  nint = float_of_z; tround = round10 }

let fl (x : sx) : float = match x with A a -> float_of_string a | _ -> failwith "float expected"
let sf (v : float) : sx = A (Printf.sprintf "%h" v)
let penv (x : sx) : float env =
  match x with
  | L (A _ :: pts) -> List.map (fun p -> match p with L [d; v; c] -> { pd = zi d; pv = fl v; pc = fl c } | _ -> failwith "point") pts
  | _ -> failwith "env expected"
let senv (e : float env) : sx = L (A "E" :: List.map (fun p -> L [sz p.pd; sf p.pv; sf p.pc]) e)
let spoint (((t, v), c) : float point) : sx = L [sz t; sf v; sf c]
let rerr k = L [A "err"; A (err_name k)]
let rfloat (r : float res) : sx = match r with Ok v -> L [A "ok"; sf v] | Err k -> rerr k
let renv (r : float env res) : sx = match r with Ok e -> L [A "ok"; senv e] | Err k -> rerr k

let env_query (e : float env) (q : sx) : sx =
  match q with
  | L [A "value_at"; t] -> rfloat (value_at fnum e (zi t))
  | L [A "parameter_at"; t] -> rfloat (value_at fnum e (zi t))
  | L [A "curve_shape_at"; t] -> rfloat (curve_shape_at fnum e (zi t))
  | L [A "point_at"; t] -> (match point_at fnum e (zi t) with Ok p -> L [A "ok"; spoint p] | Err k -> rerr k)
  | L [A "range"; s; en] ->
      (match points_in_range fnum e (zi s) (zi en) with Ok pl -> L [A "ok"; L (List.map spoint pl)] | Err k -> rerr k)
  | L [A "integrate"; s; en] -> rfloat (integrate fnum e (zi s) (zi en))
  | L [A "average"; s; en] -> rfloat (average fnum e (zi s) (zi en))
  | L [A "average_all"] -> rfloat (average fnum e Z0 (pdur e))
  | L [A "average_from"; s] -> rfloat (average fnum e (zi s) (pdur e))
  | L [A "average_to"; en] -> rfloat (average fnum e Z0 (zi en))
  | L [A "is_static"] -> L [A "ok"; A (if is_static fnum e then "1" else "0")]
  | L [A "points"] -> L [A "ok"; L (List.map spoint (to_points e))]
  | _ -> failwith ("unknown query " ^ show q)

let env_op (e : float env) (op : sx) : sx =
  match op with
  | L [A "sample_at"; t; ap] -> renv (sample_at fnum e (zi t) (zi ap))
  | L [A "squash_in"; s; d; v] ->
      (* Consecution.squash_in with an envelope as the receiver: the new child is a control point (shape 0) *)
      renv (p_squash e (zi s) { pd = zi d; pv = fl v; pc = 0.0 })
  | L [A "extend_until"; d] -> renv (env_extend_until fnum e (zi d))
  | L [A "cut_out"; s; en] -> renv (env_cut_out fnum e (zi s) (zi en))
  | L [A "cut_off"; s; en] -> renv (env_cut_off fnum e (zi s) (zi en))
  | L (A "split_at" :: ign :: ts) ->
      (match env_split_at fnum e (List.map zi ts) (bi ign) with
       | Ok ps -> L [A "ok"; L (A "parts" :: List.map senv ps)]
       | Err k -> rerr k)
  | _ -> failwith ("unknown env op " ^ show op)

(* ---- tempo conversion / metrize *)
let rfloats (r : float list res) : sx = match r with Ok l -> L [A "ok"; L (List.map sf l)] | Err k -> rerr k
let tempo_of (x : sx) : float ntempo =
  match x with
  | L [A "C"; b] -> TConst (fl b)
  | L (A "J" :: _) -> TTraj (penv x)
  | _ -> failwith "tempo expected"
let rec ttree (x : sx) : float tev =
  match x with
  | L [A "L"; d; tp] -> TLeaf (zi d, tempo_of tp)
  | L (A "S" :: tp :: kids) -> TSeq (tempo_of tp, List.map ttree kids)
  | L (A "P" :: tp :: kids) -> TSim (tempo_of tp, List.map ttree kids)
  | _ -> failwith "tempo tree expected"

(* ---- M4: equality *)
let tempo_e (x : sx) : tempoE =
  match x with
  | L (b :: pts) -> { bpm0 = zi b; rest = List.map (fun p -> match p with L [t; v; c] -> ((zi t, zi v), zi c) | _ -> failwith "tempo point") pts }
  | _ -> failwith "tempoE"
let rec ev_e (x : sx) : evE =
  match x with
  | L [A "L"; d; tg; tp; L ex] ->
      ELeaf { ldur = zi d; ltag = zi tg; ltempo = tempo_e tp;
              lextra = List.map (fun p -> match p with L [n; v] -> (zi n, zi v) | _ -> failwith "extra") ex }
  | L (A "S" :: tg :: tp :: kids) -> ECont (KSeqE, zi tg, tempo_e tp, List.map ev_e kids)
  | L (A "P" :: tg :: tp :: kids) -> ECont (KSimE, zi tg, tempo_e tp, List.map ev_e kids)
  | L [A "N"; v] -> ENonEvent (zi v)
  | _ -> failwith ("evE expected: " ^ show x)
let sb (b : bool) : sx = A (if b then "1" else "0")

(* ---- M5: numbers. Rationals travel as (q num den) with den > 0 *)
let qq (x : sx) : q =
  match x with
  | L [A "q"; n; d] -> { qnum = zi n; qden = (match zi d with Zpos p -> p | _ -> failwith "den") }
  | _ -> failwith "rational expected"
let kind_of (x : sx) = match x with A "D" -> KDirect | A "R" -> KRatio | _ -> failwith "kind"
let skind_s k = A (match k with KDirect -> "D" | KRatio -> "R")
let durv_of (x : sx) : durv = match x with L [k; t] -> { dk = kind_of k; dt = zi t } | _ -> failwith "durv"
let aop_of (x : sx) = match x with A "add" -> OAdd | A "sub" -> OSub | A "mul" -> OMul | A "div" -> ODiv | _ -> failwith "aop"
let pin_of (x : sx) : pin =
  match x with
  | L [A "same"] -> PSame
  | L [A "int"; z] -> PInt (zi z)
  | L [A "float"; r] -> PFloat (qq r)
  | L [A "frac"; r] -> PFrac (qq r)
  | L [A "str-int"; z] -> PStr (SInt (zi z))
  | L [A "str-float"; r] -> PStr (SFloat (qq r))
  | L [A "str-frac"; n; d] -> PStr (SFrac (zi n, zi d))
  | L [A "str-list"] -> PStr SList
  | L [A "str-junk"; _] -> PStr SJunk
  | L [A "points"] -> PPoints
  | L [A "other"; _] -> POther
  | _ -> failwith ("pin " ^ show x)
let pout_s (r : pout res) : sx =
  match r with
  | Err k -> rerr k
  | Ok OSame -> L [A "ok"; A "same"]
  | Ok (ODirect v) -> L [A "ok"; A "direct"; sz (to_ticks v)]
  | Ok (ORatio v) -> L [A "ok"; A "ratio"; sz (to_ticks v)]
  | Ok OFlex -> L [A "ok"; A "flex"]
let upd_of (x : sx) : upd =
  match x with
  | L [A "set"; r] -> USet (qq r)
  | L [A "read"] -> URead
  | L [o; r] -> UArith (aop_of o, qq r)
  | _ -> failwith "upd"

(* ---- M6: helpers *)
let sq (v : q) : sx = L [A "q"; sz v.qnum; sz (Zpos v.qden)]
let rec nest_of (x : sx) : nest =
  match x with
  | A _ -> NAtom (zi x)
  | L (A "l" :: items) -> NList (List.map nest_of items)
  | _ -> failwith "nest"
let rec snest (n : nest) : sx = match n with NAtom z -> sz z | NList l -> L (A "l" :: List.map snest l)
let pairs_of (x : sx) : (z * z) list =
  match x with L ps -> List.map (fun p -> match p with L [a; b] -> (zi a, zi b) | _ -> failwith "pair") ps | _ -> failwith "pairs"
let rnest (r : nest res) : sx = match r with Ok n -> L [A "ok"; snest n] | Err k -> rerr k
let zlist (xs : sx list) : z list = List.map zi xs

(* ---- M3: identity trees *)
let rec itree (x : sx) : iev =
  match x with
  | L [A "l"; i] -> ILeaf (ni i)
  | L (A "s" :: i :: kids) -> INode (ni i, IKSeq, List.map itree kids)
  | L (A "p" :: i :: kids) -> INode (ni i, IKSim, List.map itree kids)
  | _ -> failwith "id tree expected"
let oz (x : sx) : z option = match x with A "none" -> None | _ -> Some (zi x)
let soz (v : z option) : sx = match v with None -> A "none" | Some z -> sz z
let heap_of (x : sx) (dflt : 'a) (conv : sx -> 'a) : nat -> 'a =
  match x with
  | L ps ->
      let tbl = List.map (fun p -> match p with L [i; v] -> (int_of_string (show i), conv v) | _ -> failwith "heap entry") ps in
      (fun n -> match List.assoc_opt (int_of_nat n) tbl with Some v -> v | None -> dflt)
  | _ -> failwith "heap"
let gfun (x : sx) : z option -> z =
  match x with
  | L [A "const"; c] -> (fun _ -> zi c)
  | L [A "addc"; c] -> (fun o -> match o with Some v -> z_of_int (int_of_z v + int_of_z (zi c)) | None -> zi c)
  | L [A "mul"; c] -> (fun o -> match o with Some v -> z_of_int (int_of_z v * int_of_z (zi c)) | None -> Z0)
  | _ -> failwith "g"
let rec spval (p : pval) : sx = match p with PV v -> soz v | PT l -> L (A "t" :: List.map spval l)
let uniq_ids (l : nat list) : int list = List.sort_uniq compare (List.map int_of_nat l)

(* ---- M3: object graphs (copies) *)
let rec gtree (x : sx) : gev =
  match x with
  | L [A "l"; i; d; t] -> GLeaf (ni i, ni d, ni t)
  | L (A "s" :: i :: t :: kids) -> GNode (ni i, GSeq, ni t, List.map gtree kids)
  | L (A "p" :: i :: t :: kids) -> GNode (ni i, GSim, ni t, List.map gtree kids)
  | _ -> failwith "object graph expected"
let rec max_id (e : gev) : int =
  List.fold_left max 0 (List.map int_of_nat (gids e))

let eval (x : sx) : sx =
  match x with
  | L [A "dur"; t] -> L [A "ok"; sz (dur (tree t))]
  | L (A "seqinfo" :: t :: ts) -> seqinfo (tree t) ts
  | L (A "split_at" :: t :: ign :: ts) -> rtrees (split_at (tree t) (List.map zi ts) (bi ign))
  | L [A "get_tag"; t; tg] -> rtree (get_by_tag (children (tree t)) (zi tg))
  | L (A "hist" :: t :: ops) ->
      (* apply the operations one after the other; stop at the first error *)
      let rec go (cur : ev) (ops : sx list) (acc : sx list) : sx list =
        match ops with
        | [] -> List.rev acc
        | op :: r ->
          (match apply_op cur op with
           | Ok e -> go e r (L [A "ok"; stree e] :: acc)
           | Err k -> List.rev (L [A "err"; A (err_name k)] :: acc)) in
      L (A "hist" :: go (tree t) ops [])
  | L (A "chist" :: t :: ops) ->
      (* a history of tag / index operations on ONE container: a read (get_tag) is answered and the container stays, an
         edit replaces it, a rejected operation (KeyError, IndexError) leaves it as it was *)
      let rec go (cur : ev) (ops : sx list) (acc : sx list) : sx list =
        match ops with
        | [] -> List.rev acc
        | L [A "get_tag"; tg] :: r -> go cur r (rtree (get_by_tag (children cur) (zi tg)) :: acc)
        | op :: r ->
          (match apply_op cur op with
           | Ok e -> go e r (L [A "ok"; stree e] :: acc)
           | Err k -> go cur r (L [A "err"; A (err_name k)] :: acc)) in
      L (A "chist" :: go (tree t) ops [])
  | L [A "copyop"; A op; t] ->
      (* aliasing pattern of the result and the identities it shares with the source *)
      let t = gtree t in
      let n0 = nat_of_int (max_id t + 1) in
      let r = (match op with
               | "copy" -> fst (pcopy t (n0, []))
               | _ -> fst (dcopy t n0)) in
      let src = List.map int_of_nat (gids t) in
      let shared = List.filter (fun i -> List.mem i src) (List.map int_of_nat (gids r)) in
      L [A "ok"; L (A "pattern" :: List.map sn (pattern r)); L (A "shared" :: List.map (fun i -> A (string_of_int i)) shared)]
  | L [A "setp"; t; su; g; hp] ->
      let t = itree t in
      let h = set_parameter (bi su) (gfun g) t (heap_of hp None oz) in
      L (A "ok" :: List.map (fun i -> L [A (string_of_int i); soz (h (nat_of_int i))]) (uniq_ids (leaf_positions t)))
  | L [A "getp"; t; flat; filt; hp] ->
      let t = itree t and h = heap_of hp None oz in
      if bi flat then L (A "ok" :: List.map soz (get_parameter_flat (bi filt) t h))
      else L (A "ok" :: List.map spval (get_parameter_nested (bi filt) t h))
  | L [A "setdur"; t; nw; hp] ->
      let t = itree t in
      (match set_duration t (zi nw) (heap_of hp Z0 zi) with
       | Ok h -> L (A "ok" :: sz (idur t h) :: List.map (fun i -> L [A (string_of_int i); sz (h (nat_of_int i))]) (uniq_ids (leaf_positions t)))
       | Err k -> rerr k)
  | L (A "sss" :: target :: xs) -> L (A "ok" :: List.map sq (scale_sequence_to_sum (List.map qq xs) (qq target)))
  | L (A "acc" :: n :: xs) -> L (A "ok" :: List.map sz (accumulate_from_n (zlist xs) (zi n)))
  | L (A "cyc" :: xs) -> L (A "ok" :: List.map (fun l -> L (List.map sz l)) (cyclic_permutations (zlist xs)))
  | L (A "closest" :: item :: xs) ->
      (match find_closest_index (zi item) (zlist xs) with Ok i -> L [A "ok"; sn i] | Err k -> rerr k)
  | L [A "round"; x; n] -> L [A "ok"; sz (round_digits (qq x) (ni n))]
  | L (A "uniq" :: xs) -> L (A "ok" :: List.map sz (uniqify (zlist xs)))
  | L (A "nget" :: n :: path) -> rnest (nget (List.map ni path) (nest_of n))
  | L (A "nset" :: n :: item :: path) -> rnest (nset (List.map ni path) (nest_of item) (nest_of n))
  | L (A "ndel" :: n :: path) -> rnest (ndel (List.map ni path) (nest_of n))
  | L [A "sums"; t] ->
      let t = zi t in L (A "ok" :: List.map (fun l -> L (List.map sz l)) (find_sums t (default_numbers t) (default_counts t)))
  | L [A "sums"; t; L nums; L cnts] ->
      L (A "ok" :: List.map (fun l -> L (List.map sz l)) (find_sums (zi t) (zlist nums) (List.map ni cnts)))
  | L [A "attr"; ps; name; dflt] -> L [A "ok"; sz (chronon_to_attribute (pairs_of ps) (zi name) (zi dflt))]
  | L [A "kwarg"; ps; search; kw] ->
      (match dict_to_keyword_argument (pairs_of ps) (zi search) (zi kw) with
       | Some (k, v) -> L [A "ok"; sz k; sz v] | None -> L [A "ok"; A "none"])
  | L [A "chronon"; ps; convs] ->
      L (A "ok" :: List.map (fun (k, v) -> L [sz k; sz v]) (dict_to_chronon (pairs_of ps) (pairs_of convs)))
  | L (A "lazy2" :: force :: ops) ->
      (* histories with a second wrapper on the same file (c2), in-place mutation of the argument object (m = a call
         with the mutated object) and removal of the cache file (del): the file is the only state *)
      let f (a : z) : z = z_of_int (int_of_z a * int_of_z a + 1) in
      let eqb (a : z) (b : z) = int_of_z a = int_of_z b in
      let rec go st ops acc =
        match ops with
        | [] -> List.rev acc
        | L [A "del"] :: r -> go None r (A "del" :: acc)
        | L [A _; a] :: r ->
            let ((v, st'), ran) = lazy_call eqb f (bi force) st (zi a) in
            go st' r (L [sz v; sb ran] :: acc)
        | _ -> failwith "lazy op" in
      L (A "ok" :: go None ops [])
  | L (A "lazy" :: force :: calls) ->
      (* wrapped function: a -> a * a + 1; it raises (ValueError) for the argument 99 *)
      let f (a : z) : z option = if int_of_z a = 99 then None else Some (z_of_int (int_of_z a * int_of_z a + 1)) in
      let eqb (a : z) (b : z) = int_of_z a = int_of_z b in
      L (A "ok" :: List.map (fun (v, ran) -> match v with Some v -> L [sz v; sb ran] | None -> L [A "raised"; A "ValueError"])
                     (lazy_run_x eqb f (bi force) None (zlist calls)))
  | L (A "scale" :: a :: b :: c :: d :: sh :: vs) ->
      L (A "ok" :: List.map (fun v -> sf (scale fnum (fl v) (fl a) (fl b) (fl c) (fl d) (fl sh))) vs)
  | L [A "cmp"; d; r] ->
      let d = durv_of d and r = qq r in
      L [A "ok"; sb (d_lt d r); sb (d_le d r); sb (d_eq d r); sb (d_ne d r); sb (d_ge d r); sb (d_gt d r)]
  | L [A "arith"; o; d; r] ->
      (match arith (aop_of o) (durv_of d) (qq r) with
       | Ok v -> L [A "ok"; skind_s v.dk; sz v.dt]
       | Err k -> rerr k)
  | L [A "rarith"; o; d; r] ->
      (* the plain number on the left: r op d *)
      (match arith_r (aop_of o) (qq r) (durv_of d) with
       | Ok v -> L [A "ok"; skind_s v.dk; sz v.dt]
       | Err k -> rerr k)
  | L (A "durhist" :: k :: r0 :: us) ->
      (* a history of updates and reads on one duration object: the reported beat counts *)
      let rec go (s : dstate) (us : sx list) (acc : sx list) : sx list =
        match us with
        | [] -> List.rev (sz (st_beat s) :: acc)
        | u :: r ->
          (match st_run s [upd_of u] with
           | Ok s' -> go s' r (sz (st_beat s') :: acc)
           | Err k -> List.rev (rerr k :: acc)) in
      let s0 = { skind = kind_of k; sratio = qq r0; scache = None } in
      L (A "ok" :: go s0 us [])
  | L [A "parse_d"; p] -> pout_s (parse_duration (pin_of p))
  | L [A "parse_t"; p] -> pout_s (parse_tempo (pin_of p))
  | L [A "eq"; a; b] ->
      let a = ev_e a and b = ev_e b in
      L [A "ok"; sb (ev_eqb a b); sb (ev_eqb b a); sb (ev_neqb a b); sb (ev_neqb b a)]
  | L (A "convert" :: tp :: trees) ->
      (* a history of conversions on one converter *)
      let senv = seconds_env fnum (penv tp) in
      (match convert_history fnum senv [] (List.map tree trees) with
       | Ok ls -> L (A "ok" :: List.map (fun l -> L (List.map sf l)) ls)
       | Err k -> rerr k)
  | L [A "convert1"; tp; t] -> rfloats (convert fnum (seconds_env fnum (penv tp)) Z0 (tree t))
  | L [A "metrize"; t] ->
      (* the one-trajectory model, else the step model; where both decide (constants, one step trajectory per path) they
         must agree (theorems metrize_steps_constant / integ_steps_is_integrate over the reals; here in floats) *)
      let tt = ttree t in
      let close a b = Float.abs (a -. b) <= 1e-9 *. Float.max 1.0 (Float.abs a) in
      (match metrize fnum tt, metrize_steps fnum tt with
       | Ok a, Ok b when not (List.length a = List.length b && List.for_all2 close a b) ->
           L [A "driver-error"; A "the-step-model-disagrees-with-the-one-trajectory-model"]
       | _ -> rfloats (metrize2 fnum tt))
  | L [A "jointempo"; _; ta; da; tb; _] ->
      let flex x = (match x with L (A "T" :: _) -> true | _ -> false) in
      renv (join_tempo fnum (flex ta) (flex tb) (penv ta) (zi da) (penv tb))
  | L (A "envq" :: e :: qs) -> let e = penv e in L (A "envq" :: List.map (env_query e) qs)
  | L [A "envop"; e; op] -> env_op (penv e) op
  | L (A "envhist" :: e :: ops) ->
      (* a history of in-place edits on one envelope: the control points after every step *)
      let rec go (cur : float env) (ops : sx list) (acc : sx list) : sx list =
        match ops with
        | [] -> List.rev acc
        | op :: r ->
          let res = (match op with
            | L [A "sample_at"; t; ap] -> sample_at fnum cur (zi t) (zi ap)
            | L [A "extend_until"; d] -> env_extend_until fnum cur (zi d)
            | L [A "cut_out"; s; en] -> env_cut_out fnum cur (zi s) (zi en)
            | L [A "cut_off"; s; en] -> env_cut_off fnum cur (zi s) (zi en)
            | _ -> failwith ("unknown env op " ^ show op)) in
          (match res with Ok e' -> go e' r (renv res :: acc) | Err k -> List.rev (rerr k :: acc)) in
      L (A "envhist" :: go (penv e) ops [])
  | L [A "of_points"; L pts] ->
      senv (of_points (List.map (fun p -> match p with L [t; v; c] -> ((zi t, fl v), fl c) | _ -> failwith "point") pts))
  | L (A "op" :: t :: [op]) -> rtree (apply_op (tree t) op)
  | L (A "c01" :: t :: ops) ->
      let t0 = tree t in
      let rec go (cur : ev) (ops : sx list) : (ev, err) result =
        match ops with
        | [] -> Stdlib.Ok cur
        | op :: r -> (match apply_op cur op with Ok e -> go e r | Err k -> Stdlib.Error k) in
      (match go t0 ops with
       | Stdlib.Ok e -> L [A "c01"; L (A "pre" :: deep t0); L (A "post" :: deep e); stree e]
       | Stdlib.Error k -> L [A "c01"; L (A "pre" :: deep t0); L [A "err"; A (err_name k)]])
  | _ -> failwith ("unknown case " ^ show x)

let () =
  try
    while true do
      let line = input_line stdin in
      if String.length line > 0 then begin
        let out = try show (eval (parse line)) with Failure m -> "(driver-error " ^ m ^ ")" | Stack_overflow -> "(driver-error stack)" in
        print_string out; print_char '\n'
      end else print_char '\n'
    done
  with End_of_file -> ()
