(* C08 — Envelope interpolation: through its points, clamped outside, bounded between.
   Statements only; proofs in Proofs/Interp.v. Real-number instance of the generic model. *)
From Coquelicot Require Import Coquelicot.
From Coq Require Import ZArith List Bool Reals.
From MV Require Import Base.Res Model.EventTree Model.TreeOps Model.Num Model.Envelope Proofs.RNum Proofs.Interp.
Import ListNotations.
Open Scope R_scope.

(* the executable model's value_at is the real-time curve of the envelope *)
Theorem C08_model_is_curve : forall (e : envR) t, e <> [] -> value_at R RNum e t = Ok (curve e (tofR t)).
Proof. exact value_at_curve. Qed.
Print Assumptions C08_model_is_curve.

(* value at the time of a control point = that point's value (last of the points sharing a time; first at time 0) *)
Theorem C08_through_points : forall front p back, pwf (front ++ p :: back) -> 0 < startR front ->
  (back = [] \/ (0 < pd p)%Z) -> curve (front ++ p :: back) (startR front) = pv p.
Proof. exact curve_at_point. Qed.
Print Assumptions C08_through_points.

Theorem C08_through_first_point : forall (p : ptR) r, curve (p :: r) 0 = pv p.
Proof. exact curve_at_first. Qed.
Print Assumptions C08_through_first_point.

(* clamped outside *)
Theorem C08_clamped_left : forall (p : ptR) r x, x <= 0 -> curve (p :: r) x = pv p.
Proof. exact curve_clamped_left. Qed.
Print Assumptions C08_clamped_left.

Theorem C08_clamped_right : forall front (l : ptR) x, pwf (front ++ [l]) -> 0 < x -> startR front <= x ->
  curve (front ++ [l]) x = pv l.
Proof. exact curve_clamped_right. Qed.
Print Assumptions C08_clamped_right.

(* between two consecutive points: the documented curve (linear for shape 0, exponential easing otherwise) *)
Theorem C08_segment : forall front (p q : ptR) back x, pwf (front ++ p :: q :: back) -> (0 < pd p)%Z -> 0 < x ->
  startR front <= x < startR front + tofR (pd p) ->
  curve (front ++ p :: q :: back) x = segR (pv p) (pv q) (pc p) ((x - startR front) / tofR (pd p)).
Proof. exact curve_segment. Qed.
Print Assumptions C08_segment.

Theorem C08_segment_ends : forall v0 v1 c, segR v0 v1 c 0 = v0 /\ segR v0 v1 c 1 = v1.
Proof. intros; split; [apply segR_0|apply segR_1]. Qed.
Print Assumptions C08_segment_ends.

(* hence between the two neighbouring values, for every curve shape *)
Theorem C08_between : forall v0 v1 c p, 0 <= p <= 1 -> Rmin v0 v1 <= segR v0 v1 c p <= Rmax v0 v1.
Proof. exact segR_between. Qed.
Print Assumptions C08_between.

Theorem C08_bounds : forall (e : envR), pwf e -> e <> [] -> forall x, vmin e <= curve e x <= vmax e.
Proof. exact curve_bounds. Qed.
Print Assumptions C08_bounds.

(* moves monotonically from one value to the other *)
Theorem C08_monotone_up : forall v0 v1 c p1 p2, v0 <= v1 -> 0 <= p1 <= p2 -> p2 <= 1 -> segR v0 v1 c p1 <= segR v0 v1 c p2.
Proof. exact segR_monotone_up. Qed.
Print Assumptions C08_monotone_up.

Theorem C08_monotone_down : forall v0 v1 c p1 p2, v1 <= v0 -> 0 <= p1 <= p2 -> p2 <= 1 -> segR v0 v1 c p1 >= segR v0 v1 c p2.
Proof. exact segR_monotone_down. Qed.
Print Assumptions C08_monotone_down.

(* continuous except where two points share a time *)
Theorem C08_continuous : forall (e : envR), pwf e -> e <> [] -> forall x, ~ jump e x -> continuous (curve e) x.
Proof. exact curve_continuous. Qed.
Print Assumptions C08_continuous.

(* an envelope built from a list of points reports exactly those times, values and shapes back
   (any number type); refuted when the first time is not 0 -- known finding F2 *)
Theorem C08_points_roundtrip : forall F (pl : list (point F)),
  (match pl with [] => True | (t0, _, _) :: _ => t0 = 0%Z end) -> to_points F (of_points F pl) = pl.
Proof. exact points_roundtrip. Qed.
Print Assumptions C08_points_roundtrip.

Theorem C08_points_roundtrip_first_time_refuted : exists pl : list (point R), to_points R (of_points R pl) <> pl.
Proof. exact points_roundtrip_refuted. Qed.
Print Assumptions C08_points_roundtrip_first_time_refuted.
