(* C03 — cut_out keeps exactly the window [start, end) of the timeline. Statements only. *)
From Coq Require Import ZArith List Bool Lia ZifyBool.
From MV Require Import Base.Res Model.EventTree Model.TreeOps Proofs.TreeLemmas Proofs.CutOut.
Import ListNotations.
Open Scope Z_scope.

(* duration: min(end, duration) - start, 0 if the window starts at or after the end of the event *)
Theorem C03_duration : forall e s en e', wf e -> 0 <= s -> s <= en ->
  cut_out e s en = Ok e' -> dur e' = Z.max 0 (Z.min en (dur e) - s) /\ wf e'.
Proof. exact cutout_dur. Qed.
Print Assumptions C03_duration.

(* content: what is active at offset x is exactly what was active at start + x, at every nesting
   level (at_ descends through sequences and lists the active voices of simultaneities in order);
   outside [0, new duration) nothing is active *)
Theorem C03_content : forall e s en e', wf e -> 0 <= s -> s <= en ->
  cut_out e s en = Ok e' ->
  forall x, at_ e' x = if (0 <=? x) && (x <? Z.max 0 (Z.min en (dur e) - s)) then at_ e (s + x) else None.
Proof. exact cutout_at. Qed.
Print Assumptions C03_content.

(* documented rejections of the arguments *)
Theorem C03_negative_start : forall e s en, s < 0 -> cut_out e s en = Err EInvalidAbsoluteTime.
Proof. exact cutout_negative_start. Qed.
Print Assumptions C03_negative_start.

Theorem C03_end_before_start : forall e s en, 0 <= s -> en < s -> cut_out e s en = Err EInvalidStartAndEnd.
Proof. exact cutout_end_before_start. Qed.
Print Assumptions C03_end_before_start.

(* a window that misses a leaf: rejected when the leaf is the event itself or a direct voice of a
   simultaneity, removed when it is a child of a sequence *)
Theorem C03_leaf_missed_rejected : forall d l s en, 0 <= d -> 0 <= s -> s < en -> d <= s ->
  cut_out (Leaf d l) s en = Err EInvalidCutOut /\
  forall m, cut_out (Sim m [Leaf d l]) s en = Err EInvalidCutOut.
Proof. exact cutout_leaf_missed_rejected. Qed.
Print Assumptions C03_leaf_missed_rejected.

Theorem C03_leaf_missed_in_sequence_removed : forall m d l d2 l2 s en, 0 < d -> 0 < d2 -> d <= s -> s < en -> en <= d + d2 ->
  cut_out (Seq m [Leaf d l; Leaf d2 l2]) s en = Ok (Seq m [Leaf (en - s) l2]).
Proof. exact cutout_leaf_missed_in_sequence_removed. Qed.
Print Assumptions C03_leaf_missed_in_sequence_removed.

Example C03_example :
  let e := Seq meta0 [Leaf 20 1; Sim meta0 [Seq meta0 [Leaf 30 2; Leaf 0 3; Leaf 40 4]; Leaf 50 5]; Leaf 30 6] in
  wf e /\ cut_out e 30 75 = Ok (Seq meta0 [Sim meta0 [Seq meta0 [Leaf 20 2; Leaf 0 3; Leaf 25 4]; Leaf 40 5]]).
Proof. vm_compute. split; [repeat split; discriminate|reflexivity]. Qed.
