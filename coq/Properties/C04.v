(* C04 — cut_off removes exactly [start, end) and closes the gap. Statements only. *)
From Coq Require Import ZArith List Bool.
From MV Require Import Base.Res Model.EventTree Model.TreeOps Proofs.TreeLemmas Proofs.CutOff.
Import ListNotations.
Open Scope Z_scope.

(* with valid arguments the operation never fails *)
Theorem C04_total : forall e s en, wf e -> 0 <= s -> s <= en -> exists e', cut_off e s en = Ok e'.
Proof. exact cutoff_total. Qed.
Print Assumptions C04_total.

(* the duration shrinks by the part of the range that lay inside the event *)
Theorem C04_duration : forall e s en e', wf e -> 0 <= s -> s <= en -> cut_off e s en = Ok e' ->
  dur e' = dur e - (Z.min en (dur e) - Z.min s (dur e)) /\ wf e'.
Proof. exact cutoff_dur. Qed.
Print Assumptions C04_duration.

(* everything before start is unchanged, everything from end onwards is moved earlier by end - start,
   everything inside the range is gone -- at every nesting level *)
Theorem C04_content : forall e s en e', wf e -> 0 <= s -> s <= en -> cut_off e s en = Ok e' ->
  forall x, at_ e' x = at_ e (if x <? s then x else x + (en - s)).
Proof. exact cutoff_at. Qed.
Print Assumptions C04_content.

(* a range that starts at or after the end of the event changes nothing *)
Theorem C04_noop : forall e s en e', wf e -> 0 <= s -> s <= en -> dur e <= s ->
  cut_off e s en = Ok e' -> dur e' = dur e /\ forall x, at_ e' x = at_ e x.
Proof. exact cutoff_noop. Qed.
Print Assumptions C04_noop.

(* a negative start is rejected *)
Theorem C04_negative_start : forall e s en, s < 0 -> cut_off e s en = Err EInvalidAbsoluteTime.
Proof. exact cutoff_negative_start. Qed.
Print Assumptions C04_negative_start.

Example C04_example :
  let e := Seq meta0 [Leaf 2 1; Sim meta0 [Seq meta0 [Leaf 3 2; Leaf 0 3; Leaf 4 4]; Leaf 5 5]; Leaf 3 6] in
  wf e /\ cut_off e 3 7 = Ok (Seq meta0 [Leaf 2 1; Sim meta0 [Seq meta0 [Leaf 1 2; Leaf 2 4]; Leaf 1 5]; Leaf 3 6]).
Proof. vm_compute. split; [repeat split; discriminate|reflexivity]. Qed.
