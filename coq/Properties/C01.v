(* C01 — Durations and start times compose: sum in sequence, max in parallel.
   Only statements; every proof is a lemma of Proofs/. *)
From Coq Require Import ZArith List.
From MV Require Import Base.Res Model.EventTree Model.TreeOps Proofs.TreeLemmas Proofs.Lookup Proofs.History Proofs.History2.
Import ListNotations.
Open Scope Z_scope.

(* the duration of a sequence is the sum, of a simultaneity the maximum, of an empty container 0 *)
Theorem C01_dur_sequence : forall m cs, dur (Seq m cs) = fold_right Z.add 0 (map dur cs).
Proof. intros m cs. rewrite dur_seq. induction cs as [|c r IH]; [reflexivity|]. rewrite dsum_cons, IH. reflexivity. Qed.
Print Assumptions C01_dur_sequence.

Theorem C01_dur_simultaneity : forall m cs, dur (Sim m cs) = fold_right Z.max 0 (map dur cs).
Proof. intros m cs. rewrite dur_sim. induction cs as [|c r IH]; [reflexivity|]. rewrite dmax_cons, IH. reflexivity. Qed.
Print Assumptions C01_dur_simultaneity.

Theorem C01_dur_empty : forall m, dur (Seq m []) = 0 /\ dur (Sim m []) = 0.
Proof. intros m. split; reflexivity. Qed.
Print Assumptions C01_dur_empty.

(* start times are the running sums of the preceding durations *)
Theorem C01_starts_running_sum : forall cs i, (i < length cs)%nat ->
  nth_error (starts cs) i = Some (dsum (firstn i cs)).
Proof. exact starts_nth. Qed.
Print Assumptions C01_starts_running_sum.

(* the reported ranges are (start_i, start_i + dur_i) and tile [0, duration) without gap or overlap *)
Theorem C01_ranges : forall cs i c, nth_error cs i = Some c ->
  nth_error (ranges cs) i = Some (dsum (firstn i cs), dsum (firstn i cs) + dur c).
Proof. exact ranges_nth. Qed.
Print Assumptions C01_ranges.

Theorem C01_ranges_tile : forall cs, tiles 0 (dsum cs) (ranges cs).
Proof. exact ranges_tile. Qed.
Print Assumptions C01_ranges_tile.

(* the lookup returns exactly the child whose half-open range contains t *)
Theorem C01_lookup : forall cs t i, wfs cs ->
  (index_at cs t = Some i <->
   exists c, nth_error cs i = Some c /\ dsum (firstn i cs) <= t < dsum (firstn i cs) + dur c).
Proof. exact index_at_spec. Qed.
Print Assumptions C01_lookup.

Theorem C01_lookup_none_outside : forall cs t, wfs cs -> (t < 0 \/ dsum cs <= t) -> index_at cs t = None.
Proof. exact index_at_none_outside. Qed.
Print Assumptions C01_lookup_none_outside.

Theorem C01_lookup_never_zero_length : forall cs t i c, wfs cs ->
  index_at cs t = Some i -> nth_error cs i = Some c -> 0 < dur c.
Proof. exact index_at_never_zero_length. Qed.
Print Assumptions C01_lookup_never_zero_length.

Theorem C01_lookup_unique : forall cs t i j c c', wfs cs ->
  nth_error cs i = Some c -> nth_error cs j = Some c' ->
  dsum (firstn i cs) <= t < dsum (firstn i cs) + dur c ->
  dsum (firstn j cs) <= t < dsum (firstn j cs) + dur c' -> i = j.
Proof. exact index_at_unique. Qed.
Print Assumptions C01_lookup_unique.

(* the lookup agrees with the denotation: what is active at t in a sequence is what is active in the
   child found by the lookup, at the time relative to that child's start *)
Theorem C01_lookup_denotation : forall cs t, wfs cs ->
  at_seq cs t = match index_at cs t with
                | Some i => match nth_error cs i with
                            | Some c => at_ c (t - dsum (firstn i cs))
                            | None => None end
                | None => None end.
Proof. exact at_seq_index. Qed.
Print Assumptions C01_lookup_denotation.

(* ... "and this stays true after any sequence of edits": every edit of the model (the time-axis operations, also on nested
   children, and the assignment of a leaf duration) keeps the tree well formed, so every state reached by a history of
   edits satisfies the theorems above; spelled out for the lookup *)
Theorem C01_history_preserves_wellformedness : forall e eds e', wf e -> reaches e eds e' -> wf e'.
Proof. exact history_preserves_wf. Qed.
Print Assumptions C01_history_preserves_wellformedness.

Theorem C01_lookup_after_any_history : forall e eds m cs t i, wf e -> reaches e eds (Seq m cs) ->
  (index_at cs t = Some i <->
   exists c, nth_error cs i = Some c /\ dsum (firstn i cs) <= t < dsum (firstn i cs) + dur c).
Proof. exact history_lookup. Qed.
Print Assumptions C01_lookup_after_any_history.
Print edit. Print apply_edit. Print edit_ok. Print reaches.

(* the same for histories that also use the operations modelled later: integer set / delete (ListOps.v), the container
   duration setter and the unrestricted tie (TieAll.v) *)
Theorem C01_history_all_edits_preserve_wellformedness : forall e eds e', wf e -> reaches2 e eds e' -> wf e'.
Proof. exact history2_preserves_wf. Qed.
Print Assumptions C01_history_all_edits_preserve_wellformedness.

Theorem C01_lookup_after_any_history_of_all_edits : forall e eds m cs t i, wf e -> reaches2 e eds (Seq m cs) ->
  (index_at cs t = Some i <->
   exists c, nth_error cs i = Some c /\ dsum (firstn i cs) <= t < dsum (firstn i cs) + dur c).
Proof. exact history2_lookup. Qed.
Print Assumptions C01_lookup_after_any_history_of_all_edits.
Print edit2. Print apply_edit2. Print edit2_ok. Print reaches2.

(* non-vacuity: a nested list with zero-length children *)
Example C01_example :
  let cs := [Leaf 2 1; Seq meta0 []; Sim meta0 [Leaf 3 2; Seq meta0 [Leaf 1 3; Leaf 0 7; Leaf 1 4]]; Leaf 0 5; Leaf 1 6] in
  starts cs = [0; 2; 2; 5; 5] /\ dsum cs = 6 /\
  map (index_at cs) [-1; 0; 2; 5; 6] = [None; Some 0%nat; Some 2%nat; Some 4%nat; None].
Proof. vm_compute. repeat split; reflexivity. Qed.
