(* Properties of the helper functions modelled in Model/Tools.v (mutwo core_utilities/tools.py,
   core_converters/parsers.py, core_utilities/decorators.py).  Everything here is over Z, Q, nat and
   lists and is closed under the global context. (`scale` over the reals is in ToolsScale.v.) *)
From Coq Require Import ZArith QArith List Bool Lia ZifyBool Arith Permutation Sorted Lqa.
From MV Require Import Base.Res Model.EventTree Model.TreeOps Model.Tools Proofs.SplitSort.
Import ListNotations.
Open Scope Z_scope.

(* ================================================================ 9. the on-disk lazy cache *)
Section LazyP.
  Variables A B : Type.
  Variable aeqb : A -> A -> bool.
  Hypothesis aeqb_spec : forall x y, aeqb x y = true <-> x = y.
  Variable f : A -> B.

  (* the file is either absent or holds the result of the wrapped function on the stored arguments *)
  Definition consistent (st : lstate A B) : Prop := st = None \/ exists a, st = Some (f a, a).

  Lemma lazy_call_returns force st a : consistent st ->
    fst (fst (lazy_call A B aeqb f force st a)) = f a /\
    consistent (snd (fst (lazy_call A B aeqb f force st a))).
  Proof.
    intros [->|[p ->]]; simpl.
    - split; [reflexivity|]. right. exists a. reflexivity.
    - destruct (aeqb p a) eqn:E; simpl; destruct force; simpl;
        try (split; [reflexivity|right; exists a; reflexivity]).
      apply aeqb_spec in E. subst p. split; [reflexivity|]. right. exists a. reflexivity.
  Qed.

  (* every call of every sequence of calls returns what the bare function returns *)
  Theorem lazy_returns_f : forall force st calls, consistent st ->
    map fst (lazy_run A B aeqb f force st calls) = map f calls.
  Proof.
    intros force st calls. revert st. induction calls as [|a r IH]; intros st C; [reflexivity|].
    pose proof (lazy_call_returns force st a C) as [Hv Hc].
    cbn [lazy_run]. destruct (lazy_call A B aeqb f force st a) as [[v st'] ran]. simpl in Hv, Hc.
    cbn [map fst]. rewrite Hv, (IH st' Hc). reflexivity.
  Qed.

  (* the state after a call always stores the arguments of that call *)
  Lemma lazy_call_state force st a :
    option_map snd (snd (fst (lazy_call A B aeqb f force st a))) = Some a.
  Proof.
    destruct st as [[r p]|]; simpl; [|reflexivity].
    destruct (aeqb p a) eqn:E; simpl; destruct force; simpl; try reflexivity.
    apply aeqb_spec in E. subst. reflexivity.
  Qed.

  (* the wrapped function runs on the first call and whenever the arguments differ from those of
     the previous call *)
  Fixpoint rflags (prev : option A) (calls : list A) : list bool :=
    match calls with
    | [] => []
    | a :: r => (match prev with None => true | Some p => negb (aeqb p a) end) :: rflags (Some a) r
    end.
  Definition recompute_flags (calls : list A) : list bool := rflags None calls.

  Lemma lazy_recompute_from st calls :
    map snd (lazy_run A B aeqb f false st calls) = rflags (option_map snd st) calls.
  Proof.
    revert st. induction calls as [|a r IH]; intros st; [reflexivity|].
    pose proof (lazy_call_state false st a) as Hs.
    cbn [lazy_run rflags].
    assert (Hr : snd (lazy_call A B aeqb f false st a) =
                 match option_map snd st with None => true | Some p => negb (aeqb p a) end).
    { destruct st as [[v p]|]; simpl; [|reflexivity]. rewrite orb_false_r. destruct (aeqb p a); reflexivity. }
    destruct (lazy_call A B aeqb f false st a) as [[v st'] ran]. simpl in Hs, Hr.
    cbn [map snd]. rewrite Hr, IH, Hs. reflexivity.
  Qed.

  Theorem lazy_recompute_exactly calls :
    map snd (lazy_run A B aeqb f false None calls) = recompute_flags calls.
  Proof. apply lazy_recompute_from. Qed.

  (* the flags in words: position 0 is true; position i+1 is true iff the two consecutive arguments differ *)
  Lemma rflags_nth prev calls i a b :
    nth_error calls i = Some a -> nth_error calls (S i) = Some b ->
    nth_error (rflags prev calls) (S i) = Some (negb (aeqb a b)).
  Proof.
    revert prev calls. induction i as [|i IH]; intros prev calls Ha Hb.
    - destruct calls as [|x [|y r]]; simpl in *; try discriminate. injection Ha as ->. injection Hb as ->. reflexivity.
    - destruct calls as [|x r]; [discriminate|]. cbn [rflags]. cbn [nth_error] in Ha, Hb |- *.
      apply IH; assumption.
  Qed.
  Theorem recompute_flags_spec calls :
    (forall a, nth_error calls 0 = Some a -> nth_error (recompute_flags calls) 0 = Some true) /\
    (forall i a b, nth_error calls i = Some a -> nth_error calls (S i) = Some b ->
       exists fl, nth_error (recompute_flags calls) (S i) = Some fl /\ (fl = true <-> a <> b)) /\
    length (recompute_flags calls) = length calls.
  Proof.
    split; [|split].
    - intros a H. destruct calls; [discriminate|reflexivity].
    - intros i a b Ha Hb. eexists. split; [apply rflags_nth; eassumption|].
      rewrite negb_true_iff. split.
      + intros E <-. assert (aeqb a a = true) by (apply aeqb_spec; reflexivity). congruence.
      + intros N. destruct (aeqb a b) eqn:E; [|reflexivity]. apply aeqb_spec in E. contradiction.
    - unfold recompute_flags. generalize (@None A). induction calls; intros o; simpl; [reflexivity|]. f_equal. apply IHcalls.
  Qed.

  Theorem lazy_force_always : forall st calls,
    map snd (lazy_run A B aeqb f true st calls) = map (fun _ => true) calls.
  Proof.
    intros st calls. revert st. induction calls as [|a r IH]; intros st; [reflexivity|].
    cbn [lazy_run].
    assert (Hr : snd (lazy_call A B aeqb f true st a) = true).
    { destruct st as [[v p]|]; simpl; [|reflexivity]. rewrite orb_true_r. reflexivity. }
    destruct (lazy_call A B aeqb f true st a) as [[v st'] ran]. simpl in Hr.
    cbn [map snd]. rewrite Hr, IH. reflexivity.
  Qed.
End LazyP.

Example lazy_ex :
  lazy_run Z Z Z.eqb (fun x => x * x) false None [3; 3; 4; 4; 4; 3] =
  [(9, true); (9, false); (16, true); (16, false); (16, false); (9, true)] /\
  recompute_flags Z Z.eqb [3; 3; 4; 4; 4; 3] = [true; false; true; false; false; true] /\
  map snd (lazy_run Z Z Z.eqb (fun x => x * x) true None [3; 3; 4]) = [true; true; true].
Proof. vm_compute. repeat split. Qed.
(* an inconsistent file (edited by hand) is returned as is: consistency is a necessary hypothesis *)
Example lazy_ex_inconsistent : lazy_run Z Z Z.eqb (fun x => x * x) false (Some (0, 3)) [3] = [(0, false)].
Proof. reflexivity. Qed.

(* ================================================================ 1. scale_sequence_to_sum *)
Lemma qsum_scale (l : list Q) (c : Q) : (qsum (map (fun x => x * c) l) == qsum l * c)%Q.
Proof.
  induction l as [|x l IH]; simpl; [ring|]. rewrite IH. ring.
Qed.

Lemma qsum_const {X} (l : list X) (c : Q) :
  (qsum (map (fun _ => c) l) == inject_Z (Z.of_nat (length l)) * c)%Q.
Proof.
  induction l as [|x l IH]; [simpl; ring|].
  cbn [map qsum fold_right length]. fold (qsum (map (fun _ => c) l)). rewrite IH.
  rewrite Nat2Z.inj_succ. unfold Z.succ. rewrite inject_Z_plus. ring.
Qed.

Lemma sss_nil t : scale_sequence_to_sum [] t = [].
Proof. reflexivity. Qed.

Lemma sss_length l t : length (scale_sequence_to_sum l t) = length l.
Proof.
  destruct l as [|x l]; [reflexivity|]. unfold scale_sequence_to_sum.
  destruct (Qeq_bool (qsum (x :: l)) 0); apply map_length.
Qed.

Lemma sss_nonzero l t : l <> [] -> ~ (qsum l == 0)%Q ->
  scale_sequence_to_sum l t = map (fun x => (x * (t / qsum l))%Q) l.
Proof.
  intros Hl Hs. destruct l as [|x l]; [congruence|]. unfold scale_sequence_to_sum.
  destruct (Qeq_bool (qsum (x :: l)) 0) eqn:E; [|reflexivity].
  apply Qeq_bool_iff in E. contradiction.
Qed.

Lemma sss_zero l t : l <> [] -> (qsum l == 0)%Q ->
  scale_sequence_to_sum l t = map (fun _ => (t / inject_Z (Z.of_nat (length l)))%Q) l.
Proof.
  intros Hl Hs. destruct l as [|x l]; [congruence|]. unfold scale_sequence_to_sum.
  destruct (Qeq_bool (qsum (x :: l)) 0) eqn:E; [reflexivity|].
  apply Qeq_bool_neq in E. contradiction.
Qed.

Theorem sss_total l t : l <> [] -> ~ (qsum l == 0)%Q -> (qsum (scale_sequence_to_sum l t) == t)%Q.
Proof.
  intros Hl Hs. rewrite sss_nonzero by assumption. rewrite qsum_scale. field. exact Hs.
Qed.

(* every element is multiplied by the same factor target / sum: ratios are unchanged *)
Theorem sss_ratios l t : ~ (qsum l == 0)%Q ->
  Forall2 (fun x y => (y * qsum l == x * t)%Q) l (scale_sequence_to_sum l t).
Proof.
  intros Hs. destruct l as [|x0 l0]; [constructor|]. rewrite sss_nonzero by (assumption || congruence).
  set (s := qsum (x0 :: l0)) in *. clearbody s. generalize (x0 :: l0). intros l.
  induction l as [|x l IH]; simpl; constructor; [|exact IH]. field. exact Hs.
Qed.

Lemma length_inject_nz {X} (l : list X) : l <> [] -> ~ (inject_Z (Z.of_nat (length l)) == 0)%Q.
Proof.
  intros Hl. destruct l; [congruence|]. unfold Qeq, inject_Z. cbn [Qnum Qden length]. lia.
Qed.

Theorem sss_zero_sum l t : l <> [] -> (qsum l == 0)%Q ->
  Forall (fun y => y = (t / inject_Z (Z.of_nat (length l)))%Q) (scale_sequence_to_sum l t) /\
  (qsum (scale_sequence_to_sum l t) == t)%Q.
Proof.
  intros Hl Hs. rewrite sss_zero by assumption. split.
  - apply Forall_forall. intros y Hy. apply in_map_iff in Hy. destruct Hy as [? [<- _]]. reflexivity.
  - rewrite qsum_const. field. apply length_inject_nz. exact Hl.
Qed.

Example sss_ex :
  (map Qred (scale_sequence_to_sum [1#2; 3#2; 2#1] (8#1)) = [1#1; 3#1; 4#1] /\
   map Qred (scale_sequence_to_sum [1#1; -1#1; 0#1] (6#1)) = [2#1; 2#1; 2#1] /\
   map Qred (scale_sequence_to_sum [1#1; -3#1] (6#1)) = [-3#1; 9#1])%Q.
Proof. vm_compute. repeat split. Qed.

(* ================================================================ 2. accumulate_from_n *)
Theorem accumulate_spec : forall l n,
  accumulate_from_n l n = map (fun k => n + zsum (firstn k l)) (seq 0 (S (length l))).
Proof.
  induction l as [|x r IH]; intros n.
  - simpl. f_equal. lia.
  - cbn [accumulate_from_n length]. rewrite IH.
    change (seq 0 (S (S (length r)))) with (0%nat :: seq 1 (S (length r))).
    rewrite <- seq_shift, map_cons, map_map. f_equal.
    + simpl. lia.
    + apply map_ext. intros k. simpl. lia.
Qed.

Example accumulate_ex : accumulate_from_n [4; 2; 3] 0 = [0; 4; 6; 9] /\ accumulate_from_n [] 5 = [5].
Proof. split; reflexivity. Qed.

(* ================================================================ 3. cyclic_permutations *)
Lemma nth_error_seq start len i : (i < len)%nat -> nth_error (seq start len) i = Some (start + i)%nat.
Proof.
  revert start i. induction len as [|len IH]; intros start i H; [lia|].
  destruct i as [|i]; simpl; [f_equal; lia|]. rewrite IH by lia. f_equal. lia.
Qed.

Theorem cyclic_perms_length {X} (l : list X) : length (cyclic_permutations l) = length l.
Proof. unfold cyclic_permutations. rewrite map_length, seq_length. reflexivity. Qed.

Theorem cyclic_perms_nth {X} (l : list X) i : (i < length l)%nat ->
  nth_error (cyclic_permutations l) i = Some (skipn i l ++ firstn i l).
Proof.
  intros H. unfold cyclic_permutations. rewrite nth_error_map, nth_error_seq by exact H. reflexivity.
Qed.

Theorem rotate_perm {X} i (l : list X) : Permutation (rotate i l) l.
Proof.
  unfold rotate. rewrite Permutation_app_comm, firstn_skipn. reflexivity.
Qed.

Theorem cyclic_perms_exact {X} (l p : list X) :
  In p (cyclic_permutations l) <-> exists i, (i < length l)%nat /\ p = rotate i l.
Proof.
  unfold cyclic_permutations. rewrite in_map_iff. split.
  - intros [i [<- Hi]]. apply in_seq in Hi. exists i. split; [lia|reflexivity].
  - intros [i [Hi ->]]. exists i. split; [reflexivity|]. apply in_seq. lia.
Qed.

Corollary cyclic_perms_are_perms {X} (l p : list X) : In p (cyclic_permutations l) -> Permutation p l.
Proof. intros H. apply cyclic_perms_exact in H. destruct H as [i [_ ->]]. apply rotate_perm. Qed.

Example cyclic_ex : cyclic_permutations [1; 2; 3] = [[1; 2; 3]; [2; 3; 1]; [3; 1; 2]] /\
  cyclic_permutations (@nil Z) = [].
Proof. split; reflexivity. Qed.

(* ================================================================ 5. uniqify *)
Lemma ssorted_Sorted l : ssorted l <-> Sorted Z.lt l.
Proof.
  split.
  - induction l as [|x l IH]; simpl; intros H; [constructor|]. destruct H as [H1 H2].
    constructor; [apply IH; exact H2|]. destruct l as [|y l]; constructor. apply H1. left. reflexivity.
  - intros H. apply Sorted_StronglySorted in H; [|intros a b c; lia].
    induction H as [|x l Hs IH Hf]; simpl; [exact I|]. split; [|exact IH].
    intros y Hy. rewrite Forall_forall in Hf. apply Hf. exact Hy.
Qed.
Lemma sorted_Sorted l : sorted l <-> Sorted Z.le l.
Proof.
  split.
  - induction l as [|x l IH]; simpl; intros H; [constructor|]. destruct H as [H1 H2].
    constructor; [apply IH; exact H2|]. destruct l as [|y l]; constructor. apply H1. left. reflexivity.
  - intros H. apply Sorted_StronglySorted in H; [|intros a b c; lia].
    induction H as [|x l Hs IH Hf]; simpl; [exact I|]. split; [|exact IH].
    intros y Hy. rewrite Forall_forall in Hf. apply Hf. exact Hy.
Qed.

Lemma dedup_cons2 x y r : dedup (x :: y :: r) = if x =? y then dedup (y :: r) else x :: dedup (y :: r).
Proof. reflexivity. Qed.

Lemma dedup_In l x : In x (dedup l) <-> In x l.
Proof.
  induction l as [|a l IH]; [reflexivity|]. destruct l as [|b l]; [reflexivity|].
  rewrite dedup_cons2. destruct (a =? b) eqn:E.
  - rewrite IH. assert (a = b) by lia. subst. simpl. tauto.
  - cbn [In] in *. rewrite IH. tauto.
Qed.

Lemma dedup_ssorted l : sorted l -> ssorted (dedup l).
Proof.
  induction l as [|a l IH]; intros H; [exact I|]. destruct l as [|b l]; [simpl; tauto|].
  rewrite dedup_cons2. destruct H as [H1 H2]. destruct (a =? b) eqn:E; [apply IH; exact H2|].
  split; [|apply IH; exact H2]. intros z Hz. apply -> dedup_In in Hz.
  assert (a <= b) by (apply H1; left; reflexivity).
  cbn [In] in Hz. destruct Hz as [<-|Hz]; [lia|]. cbn [sorted] in H2. destruct H2 as [H2 _]. specialize (H2 z Hz). lia.
Qed.

Theorem uniqify_spec l : Sorted Z.lt (uniqify l) /\ forall x, In x (uniqify l) <-> In x l.
Proof.
  unfold uniqify. split.
  - apply ssorted_Sorted, dedup_ssorted, sortZ_sorted.
  - intros x. rewrite dedup_In. apply sortZ_In.
Qed.
Corollary uniqify_NoDup l : NoDup (uniqify l).
Proof. apply ssorted_NoDup, ssorted_Sorted, uniqify_spec. Qed.

Example uniqify_ex : uniqify [3; 1; 3; 2; 1; 1; -4] = [-4; 1; 2; 3].
Proof. reflexivity. Qed.

(* ================================================================ 8. parser converters *)
Lemma assoc_In k d v : assoc k d = Some v -> In (k, v) d.
Proof.
  induction d as [|[k' v'] r IH]; simpl; [discriminate|]. destruct (k =? k') eqn:E.
  - intros H. injection H as ->. left. f_equal. lia.
  - intros H. right. apply IH. exact H.
Qed.
Lemma assoc_None k d : assoc k d = None <-> forall v, ~ In (k, v) d.
Proof.
  induction d as [|[k' v'] r IH]; simpl; [tauto|]. destruct (k =? k') eqn:E.
  - split; [discriminate|]. intros H. exfalso. apply (H v'). left. f_equal. lia.
  - rewrite IH. split.
    + intros H v [Heq|Hin]; [injection Heq as ? ?; lia|exact (H v Hin)].
    + intros H v Hin. apply (H v). right. exact Hin.
Qed.

(* ChrononToAttribute: the value if the attribute exists, else the default *)
Theorem chronon_to_attribute_spec attrs name default :
  (forall v, assoc name attrs = Some v -> chronon_to_attribute attrs name default = v) /\
  (assoc name attrs = None -> chronon_to_attribute attrs name default = default) /\
  (chronon_to_attribute attrs name default = default \/ In (name, chronon_to_attribute attrs name default) attrs).
Proof.
  unfold chronon_to_attribute. split; [|split].
  - intros v ->. reflexivity.
  - intros ->. reflexivity.
  - destruct (assoc name attrs) as [v|] eqn:E; [right; apply assoc_In; exact E|left; reflexivity].
Qed.

(* MutwoParameterDictToKeywordArgument: (keyword, d[search]) if the search key is present, else nothing *)
Theorem dict_to_keyword_argument_spec d search keyword :
  (forall v, assoc search d = Some v -> dict_to_keyword_argument d search keyword = Some (keyword, v)) /\
  (assoc search d = None -> dict_to_keyword_argument d search keyword = None).
Proof.
  unfold dict_to_keyword_argument. split; [intros v ->|intros ->]; reflexivity.
Qed.

Lemma assoc_update k' k v d : assoc k' (update k v d) = if k' =? k then Some v else assoc k' d.
Proof.
  induction d as [|[a b] r IH]; simpl.
  - destruct (k' =? k); reflexivity.
  - destruct (k =? a) eqn:E; simpl.
    + destruct (k' =? k) eqn:E1; [reflexivity|]. destruct (k' =? a) eqn:E2; [lia|reflexivity].
    + destruct (k' =? a) eqn:E2.
      * destruct (k' =? k) eqn:E1; [lia|reflexivity].
      * exact IH.
Qed.

Definition dtc_step (d : list (Z * Z)) (acc : list (Z * Z)) (c : Z * Z) : list (Z * Z) :=
  let '(search, keyword) := c in
  match dict_to_keyword_argument d search keyword with
  | Some (k, v) => update k v acc
  | None => acc
  end.
Lemma dict_to_chronon_fold d convs : dict_to_chronon d convs = fold_left (dtc_step d) convs [].
Proof. reflexivity. Qed.

(* a converter is active for keyword kw when it produces kw and its search key is in the dictionary *)
Definition active (d : list (Z * Z)) (kw : Z) (c : Z * Z) : bool :=
  (snd c =? kw) && match assoc (fst c) d with Some _ => true | None => false end.

(* the value under a keyword is the one found by the LAST active converter for it *)
Theorem dict_to_chronon_spec d convs kw :
  assoc kw (dict_to_chronon d convs) =
  match find (active d kw) (rev convs) with
  | Some (s, _) => assoc s d
  | None => None
  end.
Proof.
  rewrite dict_to_chronon_fold. induction convs as [|[s k] cs IH] using rev_ind; [reflexivity|].
  rewrite fold_left_app, rev_app_distr. cbn [fold_left rev app find].
  unfold dtc_step at 1, dict_to_keyword_argument, active at 1. cbn [fst snd].
  destruct (assoc s d) as [v|] eqn:E.
  - rewrite assoc_update. rewrite (Z.eqb_sym kw k). destruct (k =? kw); simpl; [symmetry; exact E|exact IH].
  - rewrite andb_false_r. exact IH.
Qed.

Corollary dict_to_chronon_sound d convs kw v :
  assoc kw (dict_to_chronon d convs) = Some v -> exists s, In (s, kw) convs /\ assoc s d = Some v.
Proof.
  rewrite dict_to_chronon_spec. destruct (find (active d kw) (rev convs)) as [[s k]|] eqn:F; [|discriminate].
  intros H. apply find_some in F. destruct F as [Hin Ha]. unfold active in Ha. cbn [fst snd] in Ha.
  exists s. split; [|exact H]. apply in_rev in Hin. assert (k = kw) by lia. subst. exact Hin.
Qed.

Corollary dict_to_chronon_unique d convs kw s v :
  In (s, kw) convs -> (forall s', In (s', kw) convs -> s' = s) -> assoc s d = Some v ->
  assoc kw (dict_to_chronon d convs) = Some v.
Proof.
  intros Hin Hu Hv. rewrite dict_to_chronon_spec.
  destruct (find (active d kw) (rev convs)) as [[s' k]|] eqn:F.
  - apply find_some in F. destruct F as [Hin' Ha]. unfold active in Ha. cbn [fst snd] in Ha.
    apply in_rev in Hin'. assert (k = kw) by lia. subst. rewrite (Hu s' Hin'). exact Hv.
  - exfalso. assert (Hn : active d kw (s, kw) = false) by (apply (find_none _ _ F); apply -> in_rev; exact Hin).
    unfold active in Hn. cbn [fst snd] in Hn. rewrite Hv, Z.eqb_refl in Hn. discriminate.
Qed.

Corollary dict_to_chronon_absent d convs kw :
  (forall s, In (s, kw) convs -> assoc s d = None) -> assoc kw (dict_to_chronon d convs) = None.
Proof.
  intros H. destruct (assoc kw (dict_to_chronon d convs)) as [v|] eqn:E; [|reflexivity].
  apply dict_to_chronon_sound in E. destruct E as [s [Hin Hv]]. rewrite (H s Hin) in Hv. discriminate.
Qed.

Example parsers_ex :
  chronon_to_attribute [(1, 10); (2, 20)] 2 99 = 20 /\ chronon_to_attribute [(1, 10); (2, 20)] 3 99 = 99 /\
  dict_to_keyword_argument [(1, 10); (2, 20)] 2 7 = Some (7, 20) /\
  dict_to_keyword_argument [(1, 10); (2, 20)] 5 7 = None /\
  (* converters (search key, keyword): 1->7, 5->8 (absent), 2->7 (overrides), 2->9 *)
  dict_to_chronon [(1, 10); (2, 20)] [(1, 7); (5, 8); (2, 7); (2, 9)] = [(7, 20); (9, 20)].
Proof. repeat split. Qed.

(* ================================================================ 4. find_closest_index *)
Lemma bisect_le_length l t : (bisect_leftZ l t <= length l)%nat.
Proof. induction l as [|x r IH]; simpl; [lia|]. destruct (x <? t); simpl; lia. Qed.

(* everything before the bisection point is smaller than the item (any list) ... *)
Lemma bisect_lt l t : forall j, (j < bisect_leftZ l t)%nat -> nth j l 0 < t.
Proof.
  induction l as [|x r IH]; simpl; intros j H; [lia|]. destruct (x <? t) eqn:E; [|lia].
  destruct j as [|j]; [lia|]. apply IH. lia.
Qed.
(* ... and on an ascending list everything from the bisection point on is at least the item *)
Lemma bisect_ge l t : sorted l -> forall j, (bisect_leftZ l t <= j < length l)%nat -> t <= nth j l 0.
Proof.
  induction l as [|x r IH]; intros H j Hj; [simpl in Hj; lia|]. destruct H as [H1 H2]. simpl in Hj |- *.
  destruct (x <? t) eqn:E.
  - destruct j as [|j]; [lia|]. apply IH; [exact H2|lia].
  - destruct j as [|j]; [lia|]. assert (x <= nth j r 0) by (apply H1, nth_In; lia). lia.
Qed.
Lemma sorted_nth_le l : sorted l -> forall i j, (i <= j < length l)%nat -> nth i l 0 <= nth j l 0.
Proof.
  induction l as [|x r IH]; intros H i j Hij; [simpl in Hij; lia|]. destruct H as [H1 H2]. simpl in Hij |- *.
  destruct i as [|i], j as [|j]; try lia.
  - apply H1, nth_In. lia.
  - apply IH; [exact H2|lia].
Qed.

Lemma index_of_spec x l i : index_of x l = Some i ->
  nth_error l i = Some x /\ forall j, (j < i)%nat -> nth_error l j <> Some x.
Proof.
  revert i. induction l as [|y r IH]; simpl; intros i H; [discriminate|]. destruct (x =? y) eqn:E.
  - injection H as <-. split; [simpl; f_equal; lia|]. intros j Hj. lia.
  - destruct (index_of x r) as [i'|]; [|discriminate]. simpl in H. injection H as <-.
    destruct (IH i' eq_refl) as [Ha Hb]. split; [exact Ha|].
    intros [|j] Hj; simpl; [intros HH; injection HH as HH; lia|apply Hb; lia].
Qed.
Lemma index_of_In x l : In x l -> exists i, index_of x l = Some i.
Proof.
  induction l as [|y r IH]; simpl; [tauto|]. intros H. destruct (x =? y) eqn:E; [eexists; reflexivity|].
  destruct H as [H|H]; [lia|]. destruct (IH H) as [i ->]. eexists. reflexivity.
Qed.

(* the position chosen in the sorted copy *)
Definition fci_idx (item : Z) (data : list Z) : nat :=
  let sorted := sortZ data in
  let sol := bisect_leftZ sorted item in
  let n := length data in
  if Nat.eqb sol n then Nat.pred sol
  else if Nat.eqb sol 0 then 0%nat
  else
    let d1 := Z.abs (- nth sol sorted 0 + item) in
    let d0 := Z.abs (- nth (Nat.pred sol) sorted 0 + item) in
    if d1 <=? d0 then sol else Nat.pred sol.

Lemma fci_unfold item data : data <> [] ->
  find_closest_index item data =
  match index_of (nth (fci_idx item data) (sortZ data) 0) data with Some i => Ok i | None => Err EValueError end.
Proof. destruct data; [congruence|reflexivity]. Qed.

Lemma fci_idx_argmin item data : data <> [] ->
  (fci_idx item data < length (sortZ data))%nat /\
  forall j, (j < length (sortZ data))%nat ->
    Z.abs (nth (fci_idx item data) (sortZ data) 0 - item) <= Z.abs (nth j (sortZ data) 0 - item) /\
    (Z.abs (nth j (sortZ data) 0 - item) = Z.abs (nth (fci_idx item data) (sortZ data) 0 - item) ->
     nth j (sortZ data) 0 <= nth (fci_idx item data) (sortZ data) 0).
Proof.
  intros Hd. unfold fci_idx. rewrite <- (sortZ_length data).
  assert (Hn : (0 < length (sortZ data))%nat).
  { rewrite sortZ_length. destruct data; [congruence|simpl; lia]. }
  pose proof (sortZ_sorted data) as Hs.
  pose proof (bisect_le_length (sortZ data) item) as Hsol.
  pose proof (bisect_lt (sortZ data) item) as Hlt.
  pose proof (bisect_ge (sortZ data) item Hs) as Hge.
  pose proof (sorted_nth_le (sortZ data) Hs) as Hmono.
  set (s := sortZ data) in *. set (sol := bisect_leftZ s item) in *. set (n := length s) in *.
  cbv zeta.
  destruct (Nat.eqb_spec sol n) as [E1|E1]; [|destruct (Nat.eqb_spec sol 0) as [E2|E2]].
  - split; [lia|]. intros j Hj.
    assert (nth j s 0 <= nth (Nat.pred sol) s 0) by (apply Hmono; lia).
    assert (nth (Nat.pred sol) s 0 < item) by (apply Hlt; lia). lia.
  - split; [lia|]. intros j Hj.
    assert (nth 0 s 0 <= nth j s 0) by (apply Hmono; lia).
    assert (item <= nth 0 s 0) by (apply Hge; lia). lia.
  - assert (Hp : nth (Nat.pred sol) s 0 < item) by (apply Hlt; lia).
    assert (Hq : item <= nth sol s 0) by (apply Hge; lia).
    destruct (Z.leb_spec (Z.abs (- nth sol s 0 + item)) (Z.abs (- nth (Nat.pred sol) s 0 + item))) as [E3|E3].
    + split; [lia|]. intros j Hj. destruct (lt_dec j sol) as [L|L].
      * assert (nth j s 0 <= nth (Nat.pred sol) s 0) by (apply Hmono; lia). lia.
      * assert (nth sol s 0 <= nth j s 0) by (apply Hmono; lia). lia.
    + split; [lia|]. intros j Hj. destruct (lt_dec j sol) as [L|L].
      * assert (nth j s 0 <= nth (Nat.pred sol) s 0) by (apply Hmono; lia). lia.
      * assert (nth sol s 0 <= nth j s 0) by (apply Hmono; lia). lia.
Qed.

(* the returned position holds an element at minimal distance from the item (unsorted data, duplicates
   allowed); it is the first position of that value; of two equidistant values the larger one wins *)
Theorem find_closest_is_argmin item data i : find_closest_index item data = Ok i ->
  exists x, nth_error data i = Some x /\
    forall y, In y data -> Z.abs (x - item) <= Z.abs (y - item).
Proof.
  intros H. assert (Hd : data <> []) by (intros ->; discriminate).
  rewrite fci_unfold in H by exact Hd. destruct (fci_idx_argmin item data Hd) as [Hi Hmin].
  set (x := nth (fci_idx item data) (sortZ data) 0) in *.
  destruct (index_of x data) as [i'|] eqn:E; [|discriminate]. injection H as ->.
  exists x. split; [apply index_of_spec in E; tauto|].
  intros y Hy. apply sortZ_In in Hy. destruct (In_nth _ _ 0 Hy) as [j [Hj <-]]. apply Hmin. exact Hj.
Qed.

Theorem find_closest_first_occurrence item data i x : find_closest_index item data = Ok i ->
  nth_error data i = Some x -> forall j, (j < i)%nat -> nth_error data j <> Some x.
Proof.
  intros H Hx. assert (Hd : data <> []) by (intros ->; discriminate).
  rewrite fci_unfold in H by exact Hd.
  destruct (index_of (nth (fci_idx item data) (sortZ data) 0) data) as [i'|] eqn:E; [|discriminate].
  injection H as ->. apply index_of_spec in E. destruct E as [E1 E2]. rewrite E1 in Hx. injection Hx as <-. exact E2.
Qed.

Theorem find_closest_tie_right item data i x : find_closest_index item data = Ok i ->
  nth_error data i = Some x -> forall y, In y data -> Z.abs (y - item) = Z.abs (x - item) -> y <= x.
Proof.
  intros H Hx. assert (Hd : data <> []) by (intros ->; discriminate).
  rewrite fci_unfold in H by exact Hd. destruct (fci_idx_argmin item data Hd) as [Hi Hmin].
  destruct (index_of (nth (fci_idx item data) (sortZ data) 0) data) as [i'|] eqn:E; [|discriminate].
  injection H as ->. apply index_of_spec in E. destruct E as [E1 _]. rewrite E1 in Hx. injection Hx as <-.
  intros y Hy. apply sortZ_In in Hy. destruct (In_nth _ _ 0 Hy) as [j [Hj <-]]. apply Hmin. exact Hj.
Qed.

Theorem find_closest_total item data : data <> [] -> exists i, find_closest_index item data = Ok i.
Proof.
  intros Hd. rewrite fci_unfold by exact Hd. destruct (fci_idx_argmin item data Hd) as [Hi _].
  assert (Hin : In (nth (fci_idx item data) (sortZ data) 0) data) by (apply sortZ_In, nth_In; exact Hi).
  destruct (index_of_In _ _ Hin) as [i ->]. exists i. reflexivity.
Qed.
Lemma find_closest_empty item : find_closest_index item [] = Err EIndexError.
Proof. reflexivity. Qed.

Example find_closest_ex :
  find_closest_index 5 [9; 3; 7; 3; 1] = Ok 2%nat /\      (* 3 and 7 are equidistant: the larger wins *)
  find_closest_index 4 [9; 3; 7; 3; 1] = Ok 1%nat /\      (* first occurrence of 3 *)
  find_closest_index 100 [9; 3; 7] = Ok 0%nat /\ find_closest_index (-100) [9; 3; 7] = Ok 1%nat.
Proof. repeat split. Qed.

(* ================================================================ 6. nested get / set / delete *)
(* chained indexing x[i0][i1]...[ik] *)
Definition child (x : nest) (i : nat) : option nest :=
  match x with NAtom _ => None | NList l => nth_error l i end.
Definition chain (path : list nat) (x : nest) : option nest :=
  fold_left (fun acc i => match acc with Some y => child y i | None => None end) path (Some x).

Lemma chain_none path :
  fold_left (fun acc i => match acc with Some y => child y i | None => None end) path None = None.
Proof. induction path; simpl; auto. Qed.

Theorem nget_chain path : forall x y, nget path x = Ok y <-> chain path x = Some y.
Proof.
  unfold chain. induction path as [|i r IH]; intros x y; simpl.
  - split; intros H; injection H as ->; reflexivity.
  - destruct x as [z|l]; simpl.
    + rewrite chain_none. split; discriminate.
    + destruct (nth_error l i) as [c|]; [apply IH|]. rewrite chain_none. split; discriminate.
Qed.
(* nget fails exactly when chained indexing fails: with a TypeError at an atom, an IndexError out of range *)
Corollary nget_err_chain path x : (exists k, nget path x = Err k) <-> chain path x = None.
Proof.
  split.
  - intros [k H]. destruct (chain path x) as [y|] eqn:E; [|reflexivity]. apply nget_chain in E. congruence.
  - intros H. destruct (nget path x) as [y|k] eqn:E; [|exists k; reflexivity]. apply nget_chain in E. congruence.
Qed.

Lemma nget_app p q x : nget (p ++ q) x = (y <- nget p x ; nget q y).
Proof.
  revert x. induction p as [|i r IH]; intros x; [reflexivity|]. simpl.
  destruct x as [z|l]; [reflexivity|]. destruct (nth_error l i); [apply IH|reflexivity].
Qed.

Lemma replace_at_cons {X} i (c a : X) t : replace_at (S i) c (a :: t) = a :: replace_at i c t.
Proof. reflexivity. Qed.
Lemma nth_error_replace_same {X} i (c : X) l : (i < length l)%nat -> nth_error (replace_at i c l) i = Some c.
Proof.
  revert l. induction i as [|i IH]; intros [|a t] H; simpl in H; try lia; [reflexivity|].
  rewrite replace_at_cons. cbn [nth_error]. apply IH. lia.
Qed.
Lemma nth_error_replace_other {X} i j (c : X) l : (i < length l)%nat -> j <> i ->
  nth_error (replace_at i c l) j = nth_error l j.
Proof.
  revert l j. induction i as [|i IH]; intros [|a t] j H N; simpl in H; try lia.
  - destruct j as [|j]; [lia|reflexivity].
  - rewrite replace_at_cons. destruct j as [|j]; [reflexivity|]. cbn [nth_error]. apply IH; lia.
Qed.
Lemma replace_at_length {X} i (c : X) l : (i < length l)%nat -> length (replace_at i c l) = length l.
Proof.
  intros H. unfold replace_at. rewrite app_length, firstn_length_le by lia. cbn [length]. rewrite skipn_length. lia.
Qed.

Lemma nset_cons2 b j r item x : nset (b :: j :: r) item x =
  match x with
  | NAtom _ => Err ETypeError
  | NList l => match nth_error l b with
               | Some c => c' <- nset (j :: r) item c ; Ok (NList (replace_at b c' l))
               | None => Err EIndexError
               end
  end.
Proof. reflexivity. Qed.
Lemma ndel_cons2 b j r x : ndel (b :: j :: r) x =
  match x with
  | NAtom _ => Err ETypeError
  | NList l => match nth_error l b with
               | Some c => c' <- ndel (j :: r) c ; Ok (NList (replace_at b c' l))
               | None => Err EIndexError
               end
  end.
Proof. reflexivity. Qed.

Lemma nset_cons_inv b p item x x' : nset (b :: p) item x = Ok x' ->
  exists l c', x = NList l /\ (b < length l)%nat /\ x' = NList (replace_at b c' l) /\
    ((p = [] /\ c' = item) \/ (p <> [] /\ exists c, nth_error l b = Some c /\ nset p item c = Ok c')).
Proof.
  destruct p as [|j r]; [simpl|rewrite nset_cons2]; intros H; destruct x as [z|l]; try discriminate.
  - destruct (Nat.ltb_spec b (length l)) as [L|L]; [|discriminate]. injection H as <-.
    exists l, item. repeat split; auto.
  - destruct (nth_error l b) as [c|] eqn:E; [|discriminate].
    assert (L : (b < length l)%nat) by (apply nth_error_Some; congruence).
    destruct (nset (j :: r) item c) as [c'|k] eqn:Ec; [|discriminate]. simpl in H. injection H as <-.
    exists l, c'. repeat split; auto. right. split; [discriminate|]. exists c. split; [exact E|exact Ec].
Qed.

(* two paths diverge: they agree on a common prefix and then take different indices *)
Definition diverge (q p : list nat) : Prop :=
  exists pre a b q' p', q = pre ++ a :: q' /\ p = pre ++ b :: p' /\ a <> b.

Theorem nset_get path : forall item x x', nset path item x = Ok x' -> nget path x' = Ok item.
Proof.
  induction path as [|b p IH]; intros item x x' H; [discriminate|].
  apply nset_cons_inv in H. destruct H as [l [c' [-> [L [-> [[-> ->]|[Hp [c [Hc Hs]]]]]]]]].
  - simpl. rewrite nth_error_replace_same by exact L. reflexivity.
  - cbn [nget]. rewrite nth_error_replace_same by exact L. eapply IH. exact Hs.
Qed.

Theorem nset_diverge : forall pre a b q' p' item x x', a <> b ->
  nset (pre ++ b :: p') item x = Ok x' -> nget (pre ++ a :: q') x' = nget (pre ++ a :: q') x.
Proof.
  induction pre as [|k pre IH]; intros a b q' p' item x x' N H.
  - cbn [app] in *. apply nset_cons_inv in H. destruct H as [l [c' [-> [L [-> _]]]]].
    cbn [nget]. rewrite nth_error_replace_other by assumption. reflexivity.
  - cbn [app] in *. apply nset_cons_inv in H. destruct H as [l [c' [-> [L [-> [[Hp _]|[_ [c [Hc Hs]]]]]]]]].
    + destruct pre; discriminate.
    + cbn [nget]. rewrite nth_error_replace_same by exact L. rewrite Hc. eapply IH; eassumption.
Qed.

Theorem nset_spec path item x x' : nset path item x = Ok x' ->
  nget path x' = Ok item /\ forall q, diverge q path -> nget q x' = nget q x.
Proof.
  intros H. split; [eapply nset_get; exact H|].
  intros q [pre [a [b [q' [p' [-> [-> N]]]]]]]. eapply nset_diverge; eassumption.
Qed.

(* nset succeeds exactly when the path is non-empty and can be read *)
Theorem nset_ok_iff path item : forall x, (exists x', nset path item x = Ok x') <-> (path <> [] /\ exists y, nget path x = Ok y).
Proof.
  induction path as [|b p IH]; intros x.
  - split; [intros [x' H]; discriminate|intros [H _]; congruence].
  - split.
    + intros [x' H]. split; [discriminate|]. apply nset_cons_inv in H.
      destruct H as [l [c' [-> [L [-> [[-> ->]|[Hp [c [Hc Hs]]]]]]]]].
      * cbn [nget]. destruct (nth_error l b) as [c|] eqn:E; [exists c; reflexivity|]. apply nth_error_None in E. lia.
      * cbn [nget]. rewrite Hc. apply IH. exists c'. exact Hs.
    + intros [_ [y H]]. destruct x as [z|l]; [discriminate|]. cbn [nget] in H.
      destruct (nth_error l b) as [c|] eqn:E; [|discriminate].
      assert (L : (b < length l)%nat) by (apply nth_error_Some; congruence).
      destruct p as [|j r].
      * simpl. destruct (Nat.ltb_spec b (length l)); [eexists; reflexivity|lia].
      * destruct (proj2 (IH c)) as [c' Hc']; [split; [discriminate|exists y; exact H]|].
        exists (NList (replace_at b c' l)). rewrite nset_cons2, E, Hc'. reflexivity.
Qed.

Lemma ndel_cons_inv b p x x' : ndel (b :: p) x = Ok x' ->
  exists l, x = NList l /\ (b < length l)%nat /\
    ((p = [] /\ x' = NList (firstn b l ++ skipn (S b) l)) \/
     (p <> [] /\ exists c c', nth_error l b = Some c /\ ndel p c = Ok c' /\ x' = NList (replace_at b c' l))).
Proof.
  destruct p as [|j r]; [simpl|rewrite ndel_cons2]; intros H; destruct x as [z|l]; try discriminate.
  - destruct (Nat.ltb_spec b (length l)) as [L|L]; [|discriminate]. injection H as <-.
    exists l. repeat split; auto.
  - destruct (nth_error l b) as [c|] eqn:E; [|discriminate].
    assert (L : (b < length l)%nat) by (apply nth_error_Some; congruence).
    destruct (ndel (j :: r) c) as [c'|k] eqn:Ec; [|discriminate]. simpl in H. injection H as <-.
    exists l. repeat split; auto. right. split; [discriminate|]. exists c, c'. repeat split; auto.
Qed.

(* deleting position i of the list found at path p: that list loses exactly its i-th element, and
   everything reached by a path diverging from p is unchanged *)
Theorem ndel_spec : forall p i x x', ndel (p ++ [i]) x = Ok x' ->
  exists l, nget p x = Ok (NList l) /\ (i < length l)%nat /\
    nget p x' = Ok (NList (firstn i l ++ skipn (S i) l)) /\
    forall q, diverge q p -> nget q x' = nget q x.
Proof.
  induction p as [|k p IH]; intros i x x' H.
  - cbn [app] in H. apply ndel_cons_inv in H. destruct H as [l [-> [L [[_ ->]|[Hp _]]]]]; [|congruence].
    exists l. repeat split; auto. intros q [pre [a [b [q' [p' [_ [Hp _]]]]]]]. destruct pre; discriminate.
  - cbn [app] in H. apply ndel_cons_inv in H. destruct H as [l [-> [L [[Hp _]|[_ [c [c' [Hc [Hd ->]]]]]]]]].
    + destruct p; discriminate.
    + destruct (IH i c c' Hd) as [l' [G1 [G2 [G3 G4]]]]. exists l'. cbn [nget].
      rewrite nth_error_replace_same by exact L. rewrite Hc. repeat split; auto.
      intros q [pre [a [b [q' [p' [-> [Hp N]]]]]]]. destruct pre as [|k' pre].
      * cbn [app] in *. injection Hp as <- ->. cbn [nget]. rewrite nth_error_replace_other by auto. reflexivity.
      * cbn [app] in *. injection Hp as <- ->. cbn [nget]. rewrite nth_error_replace_same by exact L. rewrite Hc.
        apply G4. exists pre, a, b, q', p'. auto.
Qed.

(* ndel succeeds exactly when the path is non-empty and can be read *)
Theorem ndel_total p i x l : nget p x = Ok (NList l) -> (i < length l)%nat -> exists x', ndel (p ++ [i]) x = Ok x'.
Proof.
  revert x. induction p as [|k p IH]; intros x H L.
  - simpl in H. injection H as ->. simpl. destruct (Nat.ltb_spec i (length l)); [eexists; reflexivity|lia].
  - destruct x as [z|l0]; [discriminate|]. cbn [nget] in H. destruct (nth_error l0 k) as [c|] eqn:E; [|discriminate].
    destruct (IH c H L) as [c' Hc']. exists (NList (replace_at k c' l0)).
    cbn [app]. destruct (p ++ [i]) as [|j r] eqn:Ep; [destruct p; discriminate|].
    rewrite ndel_cons2, E, Hc'. reflexivity.
Qed.

(* error kinds at the last step *)
Lemma nset_index_error p i item x l : nget p x = Ok (NList l) -> (length l <= i)%nat ->
  nset (p ++ [i]) item x = Err EIndexError /\ ndel (p ++ [i]) x = Err EIndexError.
Proof.
  revert x. induction p as [|k p IH]; intros x H L.
  - simpl in H. injection H as ->. simpl. destruct (Nat.ltb_spec i (length l)); [lia|split; reflexivity].
  - destruct x as [z|l0]; [discriminate|]. cbn [nget] in H. destruct (nth_error l0 k) as [c|] eqn:E; [|discriminate].
    destruct (IH c H L) as [H1 H2]. cbn [app]. destruct (p ++ [i]) as [|j r] eqn:Ep; [destruct p; discriminate|].
    rewrite nset_cons2, ndel_cons2, E, H1, H2. split; reflexivity.
Qed.
Lemma nset_empty_path item x : nset [] item x = Err EIndexError /\ ndel [] x = Err EIndexError.
Proof. split; reflexivity. Qed.

Definition nex : nest := NList [NAtom 1; NList [NAtom 2; NList [NAtom 3; NAtom 4]; NAtom 5]; NAtom 6].
Example nested_ex :
  nget [1; 1; 0]%nat nex = Ok (NAtom 3) /\ chain [1; 1; 0]%nat nex = Some (NAtom 3) /\
  nget [0; 0]%nat nex = Err ETypeError /\ nget [1; 3]%nat nex = Err EIndexError /\
  nset [1; 1; 0]%nat (NAtom 9) nex = Ok (NList [NAtom 1; NList [NAtom 2; NList [NAtom 9; NAtom 4]; NAtom 5]; NAtom 6]) /\
  ndel [1; 1]%nat nex = Ok (NList [NAtom 1; NList [NAtom 2; NAtom 5]; NAtom 6]) /\
  nset [1; 3]%nat (NAtom 9) nex = Err EIndexError /\ ndel [0; 0]%nat nex = Err EAttributeError.
Proof. repeat split. Qed.

(* ================================================================ 7. combinations with replacement, find_sums *)
Lemma cwr_0 l : cwr l 0 = [[]].
Proof. destruct l; reflexivity. Qed.
Lemma cwr_nil k : cwr [] (S k) = [].
Proof. reflexivity. Qed.
Lemma cwr_cons x r k : cwr (x :: r) (S k) = map (fun c => x :: c) (cwr (x :: r) k) ++ cwr r (S k).
Proof. reflexivity. Qed.

(* c is a subsequence-with-repetition of the numbers: it is read off left to right, every position may
   be used any number of times *)
Inductive swr : list Z -> list Z -> Prop :=
| swr_nil l : swr l []
| swr_take x r c : swr (x :: r) c -> swr (x :: r) (x :: c)
| swr_skip x r c : swr r c -> swr (x :: r) c.

Lemma swr_nil_inv c : swr [] c -> c = [].
Proof. intros H. inversion H. reflexivity. Qed.

(* general characterisation (any numbers, duplicates allowed) *)
Theorem cwr_swr : forall k l c, In c (cwr l k) <-> length c = k /\ swr l c.
Proof.
  induction k as [|k IHk]; intros l c.
  - rewrite cwr_0. simpl. split.
    + intros [<-|[]]. split; [reflexivity|constructor].
    + intros [H _]. left. destruct c; [reflexivity|discriminate].
  - induction l as [|x r IHl].
    + rewrite cwr_nil. simpl. split; [tauto|]. intros [H1 H2]. apply swr_nil_inv in H2. subst. discriminate.
    + rewrite cwr_cons, in_app_iff, in_map_iff. split.
      * intros [[c0 [<- H]]|H].
        -- apply IHk in H. destruct H as [H1 H2]. split; [simpl; lia|]. constructor. exact H2.
        -- apply IHl in H. destruct H as [H1 H2]. split; [exact H1|]. apply swr_skip. exact H2.
      * intros [H1 H2]. inversion H2 as [? E1|? ? c0 H3 E1 E2|? ? ? H3 E1 E2]; subst.
        -- discriminate.
        -- left. exists c0. split; [reflexivity|]. apply IHk. split; [simpl in H1; lia|exact H3].
        -- right. apply IHl. split; assumption.
Qed.

Lemma swr_incl l c : swr l c -> forall z, In z c -> In z l.
Proof.
  induction 1 as [l|x r c H IH|x r c H IH]; intros z Hz.
  - destruct Hz.
  - destruct Hz as [<-|Hz]; [left; reflexivity|apply IH; exact Hz].
  - right. apply IH. exact Hz.
Qed.

Lemma swr_sorted l c : ssorted l -> swr l c -> sorted c.
Proof.
  intros Hl H. induction H as [l|x r c H IH|x r c H IH].
  - exact I.
  - split; [|apply IH; exact Hl]. intros y Hy. apply (swr_incl _ _ H) in Hy.
    destruct Hy as [<-|Hy]; [lia|]. destruct Hl as [Hl _]. specialize (Hl y Hy). lia.
  - apply IH. destruct Hl as [_ Hl]. exact Hl.
Qed.

Lemma sorted_incl_swr : forall l, ssorted l -> forall c, sorted c -> (forall z, In z c -> In z l) -> swr l c.
Proof.
  induction l as [|x r IHl]; intros Hl c.
  - intros _ Hi. destruct c as [|y c]; [constructor|]. destruct (Hi y (or_introl eq_refl)).
  - induction c as [|y c IHc]; intros Hc Hi; [constructor|].
    destruct Hc as [Hc1 Hc2]. destruct Hl as [Hl1 Hl2].
    destruct (Hi y (or_introl eq_refl)) as [<-|Hy].
    + apply swr_take. apply IHc; [exact Hc2|]. intros z Hz. apply Hi. right. exact Hz.
    + apply swr_skip. apply IHl; [exact Hl2|split; assumption|].
      intros z Hz. assert (Hxz : x < z).
      { specialize (Hl1 y Hy). destruct Hz as [<-|Hz]; [lia|]. specialize (Hc1 z Hz). lia. }
      destruct (Hi z Hz) as [<-|Hr]; [lia|exact Hr].
Qed.

(* for strictly ascending numbers: exactly the ascending lists of length k over the numbers *)
Theorem cwr_spec numbers k c : Sorted Z.lt numbers ->
  (In c (cwr numbers k) <-> length c = k /\ Sorted Z.le c /\ forall x, In x c -> In x numbers).
Proof.
  intros Hn. apply ssorted_Sorted in Hn. rewrite cwr_swr, <- sorted_Sorted. split.
  - intros [H1 H2]. split; [exact H1|]. split; [eapply swr_sorted; eassumption|apply swr_incl; exact H2].
  - intros [H1 [H2 H3]]. split; [exact H1|]. apply sorted_incl_swr; assumption.
Qed.

Lemma NoDup_app_intro {X} (l1 l2 : list X) :
  NoDup l1 -> NoDup l2 -> (forall x, In x l1 -> ~ In x l2) -> NoDup (l1 ++ l2).
Proof.
  induction l1 as [|a l1 IH]; intros H1 H2 Hd; [exact H2|]. inversion H1 as [|? ? Ha Hl1]; subst.
  simpl. constructor.
  - rewrite in_app_iff. intros [H|H]; [contradiction|]. apply (Hd a); [left; reflexivity|exact H].
  - apply IH; [exact Hl1|exact H2|]. intros x Hx. apply Hd. right. exact Hx.
Qed.
Lemma NoDup_map_cons (x : Z) (l : list (list Z)) : NoDup l -> NoDup (map (fun c => x :: c) l).
Proof.
  induction 1 as [|c l Hc Hl IH]; simpl; constructor; [|exact IH].
  rewrite in_map_iff. intros [c0 [E Hin]]. injection E as ->. contradiction.
Qed.

(* no combination is listed twice as soon as the numbers are pairwise different *)
Theorem cwr_NoDup : forall k numbers, NoDup numbers -> NoDup (cwr numbers k).
Proof.
  induction k as [|k IHk]; intros l Hl.
  - rewrite cwr_0. constructor; [simpl; tauto|constructor].
  - induction l as [|x r IHl]; [rewrite cwr_nil; constructor|].
    rewrite cwr_cons. inversion Hl as [|? ? Hx Hr]; subst. apply NoDup_app_intro.
    + apply NoDup_map_cons. apply IHk. exact Hl.
    + apply IHl. exact Hr.
    + intros c Hc Hc'. apply in_map_iff in Hc. destruct Hc as [c0 [<- _]].
      apply cwr_swr in Hc'. destruct Hc' as [_ Hs]. apply Hx. apply (swr_incl _ _ Hs). left. reflexivity.
Qed.
Corollary cwr_NoDup_sorted k numbers : Sorted Z.lt numbers -> NoDup (cwr numbers k).
Proof. intros H. apply cwr_NoDup, ssorted_NoDup, ssorted_Sorted. exact H. Qed.

(* find_numbers_which_sums_up_to: exactly the multisets (as ascending lists) of the allowed sizes over
   the allowed numbers with the given sum *)
Theorem find_sums_spec t numbers counts c : Sorted Z.lt numbers ->
  (In c (find_sums t numbers counts) <->
   In (length c) counts /\ Sorted Z.le c /\ (forall x, In x c -> In x numbers) /\ zsum c = t).
Proof.
  intros Hn. unfold find_sums. rewrite in_flat_map. split.
  - intros [k [Hk Hc]]. apply filter_In in Hc. destruct Hc as [Hc Hs].
    apply (cwr_spec numbers k c Hn) in Hc. destruct Hc as [<- [H2 H3]]. repeat split; auto. lia.
  - intros [H1 [H2 [H3 H4]]]. exists (length c). split; [exact H1|]. apply filter_In. split; [|lia].
    apply (cwr_spec numbers (length c) c Hn). auto.
Qed.

(* each solution is listed once per occurrence of its size in `counts` *)
Theorem find_sums_NoDup t numbers counts : Sorted Z.lt numbers -> NoDup counts -> NoDup (find_sums t numbers counts).
Proof.
  intros Hn. unfold find_sums. induction counts as [|k ks IH]; intros Hc; [constructor|].
  inversion Hc as [|? ? Hk Hks]; subst. cbn [flat_map]. apply NoDup_app_intro.
  - apply NoDup_filter, cwr_NoDup_sorted. exact Hn.
  - apply IH. exact Hks.
  - intros c H1 H2. apply filter_In in H1. destruct H1 as [H1 _]. apply cwr_swr in H1. destruct H1 as [H1 _].
    apply in_flat_map in H2. destruct H2 as [k' [Hk' H2]]. apply filter_In in H2. destruct H2 as [H2 _].
    apply cwr_swr in H2. destruct H2 as [H2 _]. subst. contradiction.
Qed.

Lemma default_numbers_sorted t : Sorted Z.lt (default_numbers t).
Proof.
  unfold default_numbers. generalize 1%nat. induction (Z.to_nat t) as [|n IH]; intros s; simpl; [constructor|].
  constructor; [apply IH|]. destruct n; simpl; constructor. lia.
Qed.

Example cwr_ex :
  cwr [1; 2; 3] 2 = [[1; 1]; [1; 2]; [1; 3]; [2; 2]; [2; 3]; [3; 3]] /\
  find_sums 4 (default_numbers 4) (default_counts 4) = [[4]; [1; 3]; [2; 2]; [1; 1; 2]; [1; 1; 1; 1]] /\
  find_sums 5 [1; 2; 4] [2; 3]%nat = [[1; 4]; [1; 2; 2]] /\
  (* duplicate numbers are distinct positions for itertools: the same multiset is then listed more than once *)
  cwr [1; 1] 2 = [[1; 1]; [1; 1]; [1; 1]].
Proof. vm_compute. repeat split. Qed.

(* ================================================================ assumptions *)
Print Assumptions lazy_returns_f.
Print Assumptions lazy_recompute_exactly.
Print Assumptions lazy_force_always.
Print Assumptions sss_total.
Print Assumptions sss_ratios.
Print Assumptions sss_zero_sum.
Print Assumptions accumulate_spec.
Print Assumptions cyclic_perms_exact.
Print Assumptions cyclic_perms_nth.
Print Assumptions rotate_perm.
Print Assumptions uniqify_spec.
Print Assumptions chronon_to_attribute_spec.
Print Assumptions dict_to_keyword_argument_spec.
Print Assumptions dict_to_chronon_spec.
Print Assumptions dict_to_chronon_unique.
Print Assumptions find_closest_is_argmin.
Print Assumptions find_closest_first_occurrence.
Print Assumptions find_closest_tie_right.
Print Assumptions find_closest_total.
Print Assumptions nget_chain.
Print Assumptions nset_spec.
Print Assumptions nset_ok_iff.
Print Assumptions ndel_spec.
Print Assumptions ndel_total.
Print Assumptions cwr_swr.
Print Assumptions cwr_spec.
Print Assumptions cwr_NoDup.
Print Assumptions find_sums_spec.
Print Assumptions find_sums_NoDup.
