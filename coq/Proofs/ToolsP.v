(* Properties of the helper functions modelled in Model/Tools.v (mutwo core_utilities/tools.py,
   core_converters/parsers.py, core_utilities/decorators.py).  Everything here is over Z, Q, nat and
   lists and is closed under the global context. (`scale` over the reals is in ToolsScale.v.) *)
From Coq Require Import ZArith QArith List Bool Lia ZifyBool Arith Permutation Sorted Lqa.
From MV Require Import Base.Res Model.EventTree Model.TreeOps Model.Tools Proofs.SplitSort.
Import ListNotations.
Open Scope Z_scope.

(* ================================================================ 9. the on-disk lazy cache *)
Section LazyP.
  Variables A B : Type.
  Variable aeqb : A -> A -> bool.
  Hypothesis aeqb_spec : forall x y, aeqb x y = true <-> x = y.
  Variable f : A -> B.

  (* the file is either absent or holds the result of the wrapped function on the stored arguments *)
  Definition consistent (st : lstate A B) : Prop := st = None \/ exists a, st = Some (f a, a).

  Lemma lazy_call_returns force st a : consistent st ->
    fst (fst (lazy_call A B aeqb f force st a)) = f a /\
    consistent (snd (fst (lazy_call A B aeqb f force st a))).
  Proof.
    intros [->|[p ->]]; simpl.
    - split; [reflexivity|]. right. exists a. reflexivity.
    - destruct (aeqb p a) eqn:E; simpl; destruct force; simpl;
        try (split; [reflexivity|right; exists a; reflexivity]).
      apply aeqb_spec in E. subst p. split; [reflexivity|]. right. exists a. reflexivity.
  Qed.

  (* every call of every sequence of calls returns what the bare function returns *)
  Theorem lazy_returns_f : forall force st calls, consistent st ->
    map fst (lazy_run A B aeqb f force st calls) = map f calls.
  Proof.
    intros force st calls. revert st. induction calls as [|a r IH]; intros st C; [reflexivity|].
    pose proof (lazy_call_returns force st a C) as [Hv Hc].
    cbn [lazy_run]. destruct (lazy_call A B aeqb f force st a) as [[v st'] ran]. simpl in Hv, Hc.
    cbn [map fst]. rewrite Hv, (IH st' Hc). reflexivity.
  Qed.

  (* the state after a call always stores the arguments of that call *)
  Lemma lazy_call_state force st a :
    option_map snd (snd (fst (lazy_call A B aeqb f force st a))) = Some a.
  Proof.
    destruct st as [[r p]|]; simpl; [|reflexivity].
    destruct (aeqb p a) eqn:E; simpl; destruct force; simpl; try reflexivity.
    apply aeqb_spec in E. subst. reflexivity.
  Qed.

  (* the wrapped function runs on the first call and whenever the arguments differ from those of
     the previous call *)
  Fixpoint rflags (prev : option A) (calls : list A) : list bool :=
    match calls with
    | [] => []
    | a :: r => (match prev with None => true | Some p => negb (aeqb p a) end) :: rflags (Some a) r
    end.
  Definition recompute_flags (calls : list A) : list bool := rflags None calls.

  Lemma lazy_recompute_from st calls :
    map snd (lazy_run A B aeqb f false st calls) = rflags (option_map snd st) calls.
  Proof.
    revert st. induction calls as [|a r IH]; intros st; [reflexivity|].
    pose proof (lazy_call_state false st a) as Hs.
    cbn [lazy_run rflags].
    assert (Hr : snd (lazy_call A B aeqb f false st a) =
                 match option_map snd st with None => true | Some p => negb (aeqb p a) end).
    { destruct st as [[v p]|]; simpl; [|reflexivity]. rewrite orb_false_r. destruct (aeqb p a); reflexivity. }
    destruct (lazy_call A B aeqb f false st a) as [[v st'] ran]. simpl in Hs, Hr.
    cbn [map snd]. rewrite Hr, IH, Hs. reflexivity.
  Qed.

  Theorem lazy_recompute_exactly calls :
    map snd (lazy_run A B aeqb f false None calls) = recompute_flags calls.
  Proof. apply lazy_recompute_from. Qed.

  (* the flags in words: position 0 is true; position i+1 is true iff the two consecutive arguments differ *)
  Lemma rflags_nth prev calls i a b :
    nth_error calls i = Some a -> nth_error calls (S i) = Some b ->
    nth_error (rflags prev calls) (S i) = Some (negb (aeqb a b)).
  Proof.
    revert prev calls. induction i as [|i IH]; intros prev calls Ha Hb.
    - destruct calls as [|x [|y r]]; simpl in *; try discriminate. injection Ha as ->. injection Hb as ->. reflexivity.
    - destruct calls as [|x r]; [discriminate|]. cbn [rflags]. cbn [nth_error] in Ha, Hb |- *.
      apply IH; assumption.
  Qed.
  Theorem recompute_flags_spec calls :
    (forall a, nth_error calls 0 = Some a -> nth_error (recompute_flags calls) 0 = Some true) /\
    (forall i a b, nth_error calls i = Some a -> nth_error calls (S i) = Some b ->
       exists fl, nth_error (recompute_flags calls) (S i) = Some fl /\ (fl = true <-> a <> b)) /\
    length (recompute_flags calls) = length calls.
  Proof.
    split; [|split].
    - intros a H. destruct calls; [discriminate|reflexivity].
    - intros i a b Ha Hb. eexists. split; [apply rflags_nth; eassumption|].
      rewrite negb_true_iff. split.
      + intros E <-. assert (aeqb a a = true) by (apply aeqb_spec; reflexivity). congruence.
      + intros N. destruct (aeqb a b) eqn:E; [|reflexivity]. apply aeqb_spec in E. contradiction.
    - unfold recompute_flags. generalize (@None A). induction calls; intros o; simpl; [reflexivity|]. f_equal. apply IHcalls.
  Qed.

  Theorem lazy_force_always : forall st calls,
    map snd (lazy_run A B aeqb f true st calls) = map (fun _ => true) calls.
  Proof.
    intros st calls. revert st. induction calls as [|a r IH]; intros st; [reflexivity|].
    cbn [lazy_run].
    assert (Hr : snd (lazy_call A B aeqb f true st a) = true).
    { destruct st as [[v p]|]; simpl; [|reflexivity]. rewrite orb_true_r. reflexivity. }
    destruct (lazy_call A B aeqb f true st a) as [[v st'] ran]. simpl in Hr.
    cbn [map snd]. rewrite Hr, IH. reflexivity.
  Qed.
End LazyP.

Example lazy_ex :
  lazy_run Z Z Z.eqb (fun x => x * x) false None [3; 3; 4; 4; 4; 3] =
  [(9, true); (9, false); (16, true); (16, false); (16, false); (9, true)] /\
  recompute_flags Z Z.eqb [3; 3; 4; 4; 4; 3] = [true; false; true; false; false; true] /\
  map snd (lazy_run Z Z Z.eqb (fun x => x * x) true None [3; 3; 4]) = [true; true; true].
Proof. vm_compute. repeat split. Qed.
(* an inconsistent file (edited by hand) is returned as is: consistency is a necessary hypothesis *)
Example lazy_ex_inconsistent : lazy_run Z Z Z.eqb (fun x => x * x) false (Some (0, 3)) [3] = [(0, false)].
Proof. reflexivity. Qed.

(* ================================================================ 1. scale_sequence_to_sum *)
Lemma qsum_scale (l : list Q) (c : Q) : (qsum (map (fun x => x * c) l) == qsum l * c)%Q.
Proof.
  induction l as [|x l IH]; simpl; [ring|]. rewrite IH. ring.
Qed.

Lemma qsum_const {X} (l : list X) (c : Q) :
  (qsum (map (fun _ => c) l) == inject_Z (Z.of_nat (length l)) * c)%Q.
Proof.
  induction l as [|x l IH]; [simpl; ring|].
  cbn [map qsum fold_right length]. fold (qsum (map (fun _ => c) l)). rewrite IH.
  rewrite Nat2Z.inj_succ. unfold Z.succ. rewrite inject_Z_plus. ring.
Qed.

Lemma sss_nil t : scale_sequence_to_sum [] t = [].
Proof. reflexivity. Qed.

Lemma sss_length l t : length (scale_sequence_to_sum l t) = length l.
Proof.
  destruct l as [|x l]; [reflexivity|]. unfold scale_sequence_to_sum.
  destruct (Qeq_bool (qsum (x :: l)) 0); apply map_length.
Qed.

Lemma sss_nonzero l t : l <> [] -> ~ (qsum l == 0)%Q ->
  scale_sequence_to_sum l t = map (fun x => (x * (t / qsum l))%Q) l.
Proof.
  intros Hl Hs. destruct l as [|x l]; [congruence|]. unfold scale_sequence_to_sum.
  destruct (Qeq_bool (qsum (x :: l)) 0) eqn:E; [|reflexivity].
  apply Qeq_bool_iff in E. contradiction.
Qed.

Lemma sss_zero l t : l <> [] -> (qsum l == 0)%Q ->
  scale_sequence_to_sum l t = map (fun _ => (t / inject_Z (Z.of_nat (length l)))%Q) l.
Proof.
  intros Hl Hs. destruct l as [|x l]; [congruence|]. unfold scale_sequence_to_sum.
  destruct (Qeq_bool (qsum (x :: l)) 0) eqn:E; [reflexivity|].
  apply Qeq_bool_neq in E. contradiction.
Qed.

Theorem sss_total l t : l <> [] -> ~ (qsum l == 0)%Q -> (qsum (scale_sequence_to_sum l t) == t)%Q.
Proof.
  intros Hl Hs. rewrite sss_nonzero by assumption. rewrite qsum_scale. field. exact Hs.
Qed.

(* every element is multiplied by the same factor target / sum: ratios are unchanged *)
Theorem sss_ratios l t : ~ (qsum l == 0)%Q ->
  Forall2 (fun x y => (y * qsum l == x * t)%Q) l (scale_sequence_to_sum l t).
Proof.
  intros Hs. destruct l as [|x0 l0]; [constructor|]. rewrite sss_nonzero by (assumption || congruence).
  set (s := qsum (x0 :: l0)) in *. clearbody s. generalize (x0 :: l0). intros l.
  induction l as [|x l IH]; simpl; constructor; [|exact IH]. field. exact Hs.
Qed.

Lemma length_inject_nz {X} (l : list X) : l <> [] -> ~ (inject_Z (Z.of_nat (length l)) == 0)%Q.
Proof.
  intros Hl. destruct l; [congruence|]. unfold Qeq, inject_Z. cbn [Qnum Qden length]. lia.
Qed.

Theorem sss_zero_sum l t : l <> [] -> (qsum l == 0)%Q ->
  Forall (fun y => y = (t / inject_Z (Z.of_nat (length l)))%Q) (scale_sequence_to_sum l t) /\
  (qsum (scale_sequence_to_sum l t) == t)%Q.
Proof.
  intros Hl Hs. rewrite sss_zero by assumption. split.
  - apply Forall_forall. intros y Hy. apply in_map_iff in Hy. destruct Hy as [? [<- _]]. reflexivity.
  - rewrite qsum_const. field. apply length_inject_nz. exact Hl.
Qed.

Example sss_ex :
  (map Qred (scale_sequence_to_sum [1#2; 3#2; 2#1] (8#1)) = [1#1; 3#1; 4#1] /\
   map Qred (scale_sequence_to_sum [1#1; -1#1; 0#1] (6#1)) = [2#1; 2#1; 2#1] /\
   map Qred (scale_sequence_to_sum [1#1; -3#1] (6#1)) = [-3#1; 9#1])%Q.
Proof. vm_compute. repeat split. Qed.

(* ================================================================ 2. accumulate_from_n *)
Theorem accumulate_spec : forall l n,
  accumulate_from_n l n = map (fun k => n + zsum (firstn k l)) (seq 0 (S (length l))).
Proof.
  induction l as [|x r IH]; intros n.
  - simpl. f_equal. lia.
  - cbn [accumulate_from_n length]. rewrite IH.
    change (seq 0 (S (S (length r)))) with (0%nat :: seq 1 (S (length r))).
    rewrite <- seq_shift, map_cons, map_map. f_equal.
    + simpl. lia.
    + apply map_ext. intros k. simpl. lia.
Qed.

Example accumulate_ex : accumulate_from_n [4; 2; 3] 0 = [0; 4; 6; 9] /\ accumulate_from_n [] 5 = [5].
Proof. split; reflexivity. Qed.

(* ================================================================ 3. cyclic_permutations *)
Lemma nth_error_seq start len i : (i < len)%nat -> nth_error (seq start len) i = Some (start + i)%nat.
Proof.
  revert start i. induction len as [|len IH]; intros start i H; [lia|].
  destruct i as [|i]; simpl; [f_equal; lia|]. rewrite IH by lia. f_equal. lia.
Qed.

Theorem cyclic_perms_length {X} (l : list X) : length (cyclic_permutations l) = length l.
Proof. unfold cyclic_permutations. rewrite map_length, seq_length. reflexivity. Qed.

Theorem cyclic_perms_nth {X} (l : list X) i : (i < length l)%nat ->
  nth_error (cyclic_permutations l) i = Some (skipn i l ++ firstn i l).
Proof.
  intros H. unfold cyclic_permutations. rewrite nth_error_map, nth_error_seq by exact H. reflexivity.
Qed.

Theorem rotate_perm {X} i (l : list X) : Permutation (rotate i l) l.
Proof.
  unfold rotate. rewrite Permutation_app_comm, firstn_skipn. reflexivity.
Qed.

Theorem cyclic_perms_exact {X} (l p : list X) :
  In p (cyclic_permutations l) <-> exists i, (i < length l)%nat /\ p = rotate i l.
Proof.
  unfold cyclic_permutations. rewrite in_map_iff. split.
  - intros [i [<- Hi]]. apply in_seq in Hi. exists i. split; [lia|reflexivity].
  - intros [i [Hi ->]]. exists i. split; [reflexivity|]. apply in_seq. lia.
Qed.

Corollary cyclic_perms_are_perms {X} (l p : list X) : In p (cyclic_permutations l) -> Permutation p l.
Proof. intros H. apply cyclic_perms_exact in H. destruct H as [i [_ ->]]. apply rotate_perm. Qed.

Example cyclic_ex : cyclic_permutations [1; 2; 3] = [[1; 2; 3]; [2; 3; 1]; [3; 1; 2]] /\
  cyclic_permutations (@nil Z) = [].
Proof. split; reflexivity. Qed.

(* ================================================================ 5. uniqify *)
Lemma ssorted_Sorted l : ssorted l <-> Sorted Z.lt l.
Proof.
  split.
  - induction l as [|x l IH]; simpl; intros H; [constructor|]. destruct H as [H1 H2].
    constructor; [apply IH; exact H2|]. destruct l as [|y l]; constructor. apply H1. left. reflexivity.
  - intros H. apply Sorted_StronglySorted in H; [|intros a b c; lia].
    induction H as [|x l Hs IH Hf]; simpl; [exact I|]. split; [|exact IH].
    intros y Hy. rewrite Forall_forall in Hf. apply Hf. exact Hy.
Qed.
Lemma sorted_Sorted l : sorted l <-> Sorted Z.le l.
Proof.
  split.
  - induction l as [|x l IH]; simpl; intros H; [constructor|]. destruct H as [H1 H2].
    constructor; [apply IH; exact H2|]. destruct l as [|y l]; constructor. apply H1. left. reflexivity.
  - intros H. apply Sorted_StronglySorted in H; [|intros a b c; lia].
    induction H as [|x l Hs IH Hf]; simpl; [exact I|]. split; [|exact IH].
    intros y Hy. rewrite Forall_forall in Hf. apply Hf. exact Hy.
Qed.

Lemma dedup_cons2 x y r : dedup (x :: y :: r) = if x =? y then dedup (y :: r) else x :: dedup (y :: r).
Proof. reflexivity. Qed.

Lemma dedup_In l x : In x (dedup l) <-> In x l.
Proof.
  induction l as [|a l IH]; [reflexivity|]. destruct l as [|b l]; [reflexivity|].
  rewrite dedup_cons2. destruct (a =? b) eqn:E.
  - rewrite IH. assert (a = b) by lia. subst. simpl. tauto.
  - cbn [In] in *. rewrite IH. tauto.
Qed.

Lemma dedup_ssorted l : sorted l -> ssorted (dedup l).
Proof.
  induction l as [|a l IH]; intros H; [exact I|]. destruct l as [|b l]; [simpl; tauto|].
  rewrite dedup_cons2. destruct H as [H1 H2]. destruct (a =? b) eqn:E; [apply IH; exact H2|].
  split; [|apply IH; exact H2]. intros z Hz. apply -> dedup_In in Hz.
  assert (a <= b) by (apply H1; left; reflexivity).
  cbn [In] in Hz. destruct Hz as [<-|Hz]; [lia|]. cbn [sorted] in H2. destruct H2 as [H2 _]. specialize (H2 z Hz). lia.
Qed.

Theorem uniqify_spec l : Sorted Z.lt (uniqify l) /\ forall x, In x (uniqify l) <-> In x l.
Proof.
  unfold uniqify. split.
  - apply ssorted_Sorted, dedup_ssorted, sortZ_sorted.
  - intros x. rewrite dedup_In. apply sortZ_In.
Qed.
Corollary uniqify_NoDup l : NoDup (uniqify l).
Proof. apply ssorted_NoDup, ssorted_Sorted, uniqify_spec. Qed.

Example uniqify_ex : uniqify [3; 1; 3; 2; 1; 1; -4] = [-4; 1; 2; 3].
Proof. reflexivity. Qed.

(* ================================================================ 8. parser converters *)
Lemma assoc_In k d v : assoc k d = Some v -> In (k, v) d.
Proof.
  induction d as [|[k' v'] r IH]; simpl; [discriminate|]. destruct (k =? k') eqn:E.
  - intros H. injection H as ->. left. f_equal. lia.
  - intros H. right. apply IH. exact H.
Qed.
Lemma assoc_None k d : assoc k d = None <-> forall v, ~ In (k, v) d.
Proof.
  induction d as [|[k' v'] r IH]; simpl; [tauto|]. destruct (k =? k') eqn:E.
  - split; [discriminate|]. intros H. exfalso. apply (H v'). left. f_equal. lia.
  - rewrite IH. split.
    + intros H v [Heq|Hin]; [injection Heq as ? ?; lia|exact (H v Hin)].
    + intros H v Hin. apply (H v). right. exact Hin.
Qed.

(* ChrononToAttribute: the value if the attribute exists, else the default *)
Theorem chronon_to_attribute_spec attrs name default :
  (forall v, assoc name attrs = Some v -> chronon_to_attribute attrs name default = v) /\
  (assoc name attrs = None -> chronon_to_attribute attrs name default = default) /\
  (chronon_to_attribute attrs name default = default \/ In (name, chronon_to_attribute attrs name default) attrs).
Proof.
  unfold chronon_to_attribute. split; [|split].
  - intros v ->. reflexivity.
  - intros ->. reflexivity.
  - destruct (assoc name attrs) as [v|] eqn:E; [right; apply assoc_In; exact E|left; reflexivity].
Qed.

(* MutwoParameterDictToKeywordArgument: (keyword, d[search]) if the search key is present, else nothing *)
Theorem dict_to_keyword_argument_spec d search keyword :
  (forall v, assoc search d = Some v -> dict_to_keyword_argument d search keyword = Some (keyword, v)) /\
  (assoc search d = None -> dict_to_keyword_argument d search keyword = None).
Proof.
  unfold dict_to_keyword_argument. split; [intros v ->|intros ->]; reflexivity.
Qed.

Lemma assoc_update k' k v d : assoc k' (update k v d) = if k' =? k then Some v else assoc k' d.
Proof.
  induction d as [|[a b] r IH]; simpl.
  - destruct (k' =? k); reflexivity.
  - destruct (k =? a) eqn:E; simpl.
    + destruct (k' =? k) eqn:E1; [reflexivity|]. destruct (k' =? a) eqn:E2; [lia|reflexivity].
    + destruct (k' =? a) eqn:E2.
      * destruct (k' =? k) eqn:E1; [lia|reflexivity].
      * exact IH.
Qed.

Definition dtc_step (d : list (Z * Z)) (acc : list (Z * Z)) (c : Z * Z) : list (Z * Z) :=
  let '(search, keyword) := c in
  match dict_to_keyword_argument d search keyword with
  | Some (k, v) => update k v acc
  | None => acc
  end.
Lemma dict_to_chronon_fold d convs : dict_to_chronon d convs = fold_left (dtc_step d) convs [].
Proof. reflexivity. Qed.

(* a converter is active for keyword kw when it produces kw and its search key is in the dictionary *)
Definition active (d : list (Z * Z)) (kw : Z) (c : Z * Z) : bool :=
  (snd c =? kw) && match assoc (fst c) d with Some _ => true | None => false end.

(* the value under a keyword is the one found by the LAST active converter for it *)
Theorem dict_to_chronon_spec d convs kw :
  assoc kw (dict_to_chronon d convs) =
  match find (active d kw) (rev convs) with
  | Some (s, _) => assoc s d
  | None => None
  end.
Proof.
  rewrite dict_to_chronon_fold. induction convs as [|[s k] cs IH] using rev_ind; [reflexivity|].
  rewrite fold_left_app, rev_app_distr. cbn [fold_left rev app find].
  unfold dtc_step at 1, dict_to_keyword_argument, active at 1. cbn [fst snd].
  destruct (assoc s d) as [v|] eqn:E.
  - rewrite assoc_update. rewrite (Z.eqb_sym kw k). destruct (k =? kw); simpl; [symmetry; exact E|exact IH].
  - rewrite andb_false_r. exact IH.
Qed.

Corollary dict_to_chronon_sound d convs kw v :
  assoc kw (dict_to_chronon d convs) = Some v -> exists s, In (s, kw) convs /\ assoc s d = Some v.
Proof.
  rewrite dict_to_chronon_spec. destruct (find (active d kw) (rev convs)) as [[s k]|] eqn:F; [|discriminate].
  intros H. apply find_some in F. destruct F as [Hin Ha]. unfold active in Ha. cbn [fst snd] in Ha.
  exists s. split; [|exact H]. apply in_rev in Hin. assert (k = kw) by lia. subst. exact Hin.
Qed.

Corollary dict_to_chronon_unique d convs kw s v :
  In (s, kw) convs -> (forall s', In (s', kw) convs -> s' = s) -> assoc s d = Some v ->
  assoc kw (dict_to_chronon d convs) = Some v.
Proof.
  intros Hin Hu Hv. rewrite dict_to_chronon_spec.
  destruct (find (active d kw) (rev convs)) as [[s' k]|] eqn:F.
  - apply find_some in F. destruct F as [Hin' Ha]. unfold active in Ha. cbn [fst snd] in Ha.
    apply in_rev in Hin'. assert (k = kw) by lia. subst. rewrite (Hu s' Hin'). exact Hv.
  - exfalso. assert (Hn : active d kw (s, kw) = false) by (apply (find_none _ _ F); apply -> in_rev; exact Hin).
    unfold active in Hn. cbn [fst snd] in Hn. rewrite Hv, Z.eqb_refl in Hn. discriminate.
Qed.

Corollary dict_to_chronon_absent d convs kw :
  (forall s, In (s, kw) convs -> assoc s d = None) -> assoc kw (dict_to_chronon d convs) = None.
Proof.
  intros H. destruct (assoc kw (dict_to_chronon d convs)) as [v|] eqn:E; [|reflexivity].
  apply dict_to_chronon_sound in E. destruct E as [s [Hin Hv]]. rewrite (H s Hin) in Hv. discriminate.
Qed.

Example parsers_ex :
  chronon_to_attribute [(1, 10); (2, 20)] 2 99 = 20 /\ chronon_to_attribute [(1, 10); (2, 20)] 3 99 = 99 /\
  dict_to_keyword_argument [(1, 10); (2, 20)] 2 7 = Some (7, 20) /\
  dict_to_keyword_argument [(1, 10); (2, 20)] 5 7 = None /\
  (* converters (search key, keyword): 1->7, 5->8 (absent), 2->7 (overrides), 2->9 *)
  dict_to_chronon [(1, 10); (2, 20)] [(1, 7); (5, 8); (2, 7); (2, 9)] = [(7, 20); (9, 20)].
Proof. repeat split. Qed.
