(* C14: copies of object graphs (Model/Heap.v).
   1. destructive copy: every slot of the result carries a fresh identity, each exactly once;
   2. pickle copy: the result is the source renamed by an injective memo (sharing kept exactly);
   3. frame: a mutation confined to the objects of one graph is invisible through a disjoint one;
   4. examples. *)
From Coq Require Import List Bool Arith Lia.
From MV Require Import Model.Heap.
Import ListNotations.

(* ------------------------------------------------------------------ *)
(* induction principle and unfolding equations                          *)
(* ------------------------------------------------------------------ *)

Lemma gev_ind' (P : gev -> Prop)
  (Hl : forall i d t, P (GLeaf i d t))
  (Hn : forall i k t cs, Forall P cs -> P (GNode i k t cs)) : forall e, P e.
Proof.
  fix IH 1. intros [i d t|i k t cs]; [apply Hl|apply Hn].
  induction cs as [|c r IHr]; constructor; [apply IH|exact IHr].
Qed.

Definition shape_list := fix go (l : list gev) : list shape :=
  match l with [] => [] | c :: r => shape_of c :: go r end.

Lemma gids_leaf i d t : gids (GLeaf i d t) = [i; d; t].
Proof. reflexivity. Qed.
Lemma gids_node i k t cs : gids (GNode i k t cs) = i :: t :: gids_list cs.
Proof. reflexivity. Qed.
Lemma gids_list_nil : gids_list [] = [].
Proof. reflexivity. Qed.
Lemma gids_list_cons c r : gids_list (c :: r) = gids c ++ gids_list r.
Proof. reflexivity. Qed.
Lemma shape_node i k t cs : shape_of (GNode i k t cs) = SNode k (shape_list cs).
Proof. reflexivity. Qed.
Lemma shape_list_cons c r : shape_list (c :: r) = shape_of c :: shape_list r.
Proof. reflexivity. Qed.
Lemma dcopy_leaf i d t n : dcopy (GLeaf i d t) n = (GLeaf n (S n) (S (S n)), S (S (S n))).
Proof. reflexivity. Qed.
Lemma dcopy_node i k t cs n :
  dcopy (GNode i k t cs) n =
  let '(cs', n') := dcopy_list cs (S (S n)) in (GNode n k (S n) cs', n').
Proof. reflexivity. Qed.
Lemma dcopy_list_nil n : dcopy_list [] n = ([], n).
Proof. reflexivity. Qed.
Lemma dcopy_list_cons c r n :
  dcopy_list (c :: r) n =
  let '(c', n1) := dcopy c n in let '(r', n2) := dcopy_list r n1 in (c' :: r', n2).
Proof. reflexivity. Qed.
Lemma pcopy_leaf i d t st :
  pcopy (GLeaf i d t) st =
  let '(i', st1) := rename i st in
  let '(d', st2) := rename d st1 in
  let '(t', st3) := rename t st2 in
  (GLeaf i' d' t', st3).
Proof. reflexivity. Qed.
Lemma pcopy_node i k t cs st :
  pcopy (GNode i k t cs) st =
  let '(i', st1) := rename i st in
  let '(t', st2) := rename t st1 in
  let '(cs', st3) := pcopy_list cs st2 in
  (GNode i' k t' cs', st3).
Proof. reflexivity. Qed.
Lemma pcopy_list_nil st : pcopy_list [] st = ([], st).
Proof. reflexivity. Qed.
Lemma pcopy_list_cons c r st :
  pcopy_list (c :: r) st =
  let '(c', s1) := pcopy c st in let '(r', s2) := pcopy_list r s1 in (c' :: r', s2).
Proof. reflexivity. Qed.

(* ------------------------------------------------------------------ *)
(* canon_go                                                            *)
(* ------------------------------------------------------------------ *)

Lemma index_in_none i l : ~ In i l -> index_in i l = None.
Proof.
  induction l as [|a l IHl]; simpl; intros H; [reflexivity|].
  destruct (Nat.eqb_spec a i) as [E|E].
  - exfalso. apply H. left. exact E.
  - rewrite IHl; [reflexivity|]. intros Hin. apply H. right. exact Hin.
Qed.

Lemma canon_go_nodup : forall l seen,
  NoDup l -> (forall i, In i l -> ~ In i seen) ->
  canon_go seen l = seq (length seen) (length l).
Proof.
  induction l as [|a l IHl]; intros seen Hnd Hdis; simpl; [reflexivity|].
  rewrite index_in_none by (apply Hdis; left; reflexivity).
  inversion Hnd as [|? ? Hna Hnd']; subst.
  rewrite IHl.
  - rewrite app_length. simpl. rewrite Nat.add_1_r. reflexivity.
  - exact Hnd'.
  - intros j Hj Hin. apply in_app_or in Hin. destruct Hin as [Hin|[Hin|[]]].
    + apply (Hdis j); [right; exact Hj|exact Hin].
    + subst j. contradiction.
Qed.

Lemma index_in_map (f : nat -> nat) : forall seen i,
  (forall x, In x seen -> f x = f i -> x = i) ->
  index_in (f i) (map f seen) = index_in i seen.
Proof.
  induction seen as [|a seen IHs]; simpl; intros i H; [reflexivity|].
  destruct (Nat.eqb_spec a i) as [E|E].
  - subst a. rewrite Nat.eqb_refl. reflexivity.
  - destruct (Nat.eqb_spec (f a) (f i)) as [E'|E'].
    + exfalso. apply E. apply H; [left; reflexivity|exact E'].
    + rewrite IHs; [reflexivity|]. intros x Hx. apply H. right. exact Hx.
Qed.

Lemma canon_go_map (f : nat -> nat) : forall l seen,
  (forall x y, In x (seen ++ l) -> In y (seen ++ l) -> f x = f y -> x = y) ->
  canon_go (map f seen) (map f l) = canon_go seen l.
Proof.
  induction l as [|a l IHl]; intros seen H; simpl; [reflexivity|].
  rewrite index_in_map.
  2:{ intros x Hx. apply H; apply in_or_app; [left; exact Hx|right; left; reflexivity]. }
  destruct (index_in a seen) as [k|].
  - f_equal. apply IHl. intros x y Hx Hy. apply H.
    + apply in_app_or in Hx. apply in_or_app. destruct Hx as [Hx|Hx]; [left; exact Hx|right; right; exact Hx].
    + apply in_app_or in Hy. apply in_or_app. destruct Hy as [Hy|Hy]; [left; exact Hy|right; right; exact Hy].
  - rewrite map_length. f_equal.
    replace (map f seen ++ [f a]) with (map f (seen ++ [a])) by (rewrite map_app; reflexivity).
    apply IHl. intros x y Hx Hy. apply H.
    + rewrite <- app_assoc in Hx. exact Hx.
    + rewrite <- app_assoc in Hy. exact Hy.
Qed.

(* ------------------------------------------------------------------ *)
(* 1. destructive copy                                                 *)
(* ------------------------------------------------------------------ *)

Lemma dcopy_spec e : forall n e' n',
  dcopy e n = (e', n') ->
  n' = n + length (gids e) /\ gids e' = seq n (length (gids e)) /\ shape_of e' = shape_of e.
Proof.
  induction e as [i d t|i k t cs IH] using gev_ind'; intros n e' n' H.
  - rewrite dcopy_leaf in H. inversion H; subst. rewrite !gids_leaf. simpl.
    repeat split; lia.
  - assert (G : forall n l' n', dcopy_list cs n = (l', n') ->
        n' = n + length (gids_list cs) /\ gids_list l' = seq n (length (gids_list cs))
        /\ shape_list l' = shape_list cs).
    { clear H. induction cs as [|c r IHr]; intros m l' m' H.
      - rewrite dcopy_list_nil in H. inversion H; subst. simpl. repeat split; lia.
      - inversion IH as [|? ? Hc Hrest]; subst.
        rewrite dcopy_list_cons in H.
        destruct (dcopy c m) as [c' n1] eqn:Ec.
        destruct (dcopy_list r n1) as [r' n2] eqn:Er.
        inversion H; subst.
        destruct (Hc _ _ _ Ec) as (A1 & A2 & A3).
        destruct (IHr Hrest _ _ _ Er) as (B1 & B2 & B3).
        rewrite !gids_list_cons, !shape_list_cons, app_length, seq_app.
        rewrite A2, B2, A3, B3. subst n1. repeat split. lia. }
    rewrite dcopy_node in H.
    destruct (dcopy_list cs (S (S n))) as [cs' n2] eqn:E.
    inversion H; subst.
    destruct (G _ _ _ E) as (B1 & B2 & B3).
    rewrite !gids_node, !shape_node, B2, B3. simpl.
    repeat split. lia.
Qed.

Theorem dcopy_gids e n e' n' : dcopy e n = (e', n') -> gids e' = seq n (n' - n).
Proof.
  intros H. destruct (dcopy_spec _ _ _ _ H) as (A1 & A2 & _).
  rewrite A2. f_equal. lia.
Qed.

Theorem dcopy_range e n e' n' :
  dcopy e n = (e', n') ->
  n <= n' /\ (forall i, In i (gids e') -> n <= i < n') /\ length (gids e') = n' - n.
Proof.
  intros H. pose proof (dcopy_gids _ _ _ _ H) as Hg.
  destruct (dcopy_spec _ _ _ _ H) as (A1 & _ & _).
  split; [lia|]. split.
  - intros i Hi. rewrite Hg in Hi. apply in_seq in Hi. lia.
  - rewrite Hg. apply seq_length.
Qed.

Theorem dcopy_nodup e n : NoDup (gids (fst (dcopy e n))).
Proof.
  destruct (dcopy e n) as [e' n'] eqn:E. simpl.
  rewrite (dcopy_gids _ _ _ _ E). apply seq_NoDup.
Qed.

Theorem dcopy_fresh e n :
  (forall i, In i (gids e) -> i < n) ->
  forall i, In i (gids (fst (dcopy e n))) -> ~ In i (gids e).
Proof.
  intros Hb i Hi Hin.
  destruct (dcopy e n) as [e' n'] eqn:E. simpl in Hi.
  destruct (dcopy_range _ _ _ _ E) as (_ & R & _).
  specialize (R i Hi). specialize (Hb i Hin). lia.
Qed.

Theorem dcopy_shape e n : shape_of (fst (dcopy e n)) = shape_of e.
Proof.
  destruct (dcopy e n) as [e' n'] eqn:E. simpl.
  apply (dcopy_spec _ _ _ _ E).
Qed.

Theorem dcopy_length e n : length (gids (fst (dcopy e n))) = length (gids e).
Proof.
  destruct (dcopy e n) as [e' n'] eqn:E. simpl.
  destruct (dcopy_spec _ _ _ _ E) as (_ & A2 & _).
  rewrite A2. apply seq_length.
Qed.

Theorem dcopy_pattern e n : pattern (fst (dcopy e n)) = seq 0 (length (gids e)).
Proof.
  unfold pattern. rewrite canon_go_nodup.
  - simpl. rewrite dcopy_length. reflexivity.
  - apply dcopy_nodup.
  - intros i _ [].
Qed.

(* ------------------------------------------------------------------ *)
(* 2. pickle copy                                                      *)
(* ------------------------------------------------------------------ *)

Definition mren (m : memo) (i : nat) : nat :=
  match mfind i m with Some j => j | None => 0 end.

(* targets below the counter, memo injective, sources pairwise distinct *)
Definition mwf (st : nat * memo) : Prop :=
  (forall i j, In (i, j) (snd st) -> j < fst st)
  /\ NoDup (map snd (snd st))
  /\ NoDup (map fst (snd st)).

Definition mgrows (m m' : memo) : Prop :=
  forall i j, mfind i m = Some j -> mfind i m' = Some j.

Definition mbound (m : memo) (i : nat) : Prop := exists j, mfind i m = Some j.

Lemma mgrows_refl m : mgrows m m.
Proof. intros i j H. exact H. Qed.
Lemma mgrows_trans a b c : mgrows a b -> mgrows b c -> mgrows a c.
Proof. intros H1 H2 i j H. apply H2, H1, H. Qed.

Lemma mfind_in : forall m i j, mfind i m = Some j -> In (i, j) m.
Proof.
  induction m as [|[a b] m IHm]; simpl; intros i j H; [discriminate|].
  destruct (Nat.eqb_spec a i) as [E|E].
  - inversion H; subst. left. reflexivity.
  - right. apply IHm. exact H.
Qed.

Lemma mfind_none_notin : forall (m : memo) i, mfind i m = None -> ~ In i (map fst m).
Proof.
  induction m as [|[a b] m IHm]; simpl; intros i H; [tauto|].
  destruct (Nat.eqb_spec a i) as [E|E]; [discriminate|].
  intros [Hin|Hin]; [contradiction|]. exact (IHm _ H Hin).
Qed.

Lemma memo_inj : forall (m : memo) i j x,
  NoDup (map snd m) -> In (i, x) m -> In (j, x) m -> i = j.
Proof.
  induction m as [|[a b] m IHm]; simpl; intros i j x Hnd H1 H2; [contradiction|].
  inversion Hnd as [|? ? Hnb Hnd']; subst.
  destruct H1 as [H1|H1], H2 as [H2|H2].
  - congruence.
  - exfalso. inversion H1; subst. apply Hnb.
    change x with (snd (j, x)). apply in_map. exact H2.
  - exfalso. inversion H2; subst. apply Hnb.
    change x with (snd (i, x)). apply in_map. exact H1.
  - exact (IHm _ _ _ Hnd' H1 H2).
Qed.

Lemma mren_of m i j : mfind i m = Some j -> mren m i = j.
Proof. unfold mren. intros ->. reflexivity. Qed.

Lemma mren_grows m m' i : mgrows m m' -> mbound m i -> mren m' i = mren m i.
Proof.
  intros G [j H]. rewrite (mren_of _ _ _ H). apply mren_of. apply G. exact H.
Qed.

Lemma mbound_grows m m' i : mgrows m m' -> mbound m i -> mbound m' i.
Proof. intros G [j H]. exists j. apply G. exact H. Qed.

Lemma mren_inj st i j :
  mwf st -> mbound (snd st) i -> mbound (snd st) j ->
  mren (snd st) i = mren (snd st) j -> i = j.
Proof.
  intros (_ & Hinj & _) [x Hx] [y Hy] E.
  rewrite (mren_of _ _ _ Hx), (mren_of _ _ _ Hy) in E. subst y.
  apply (memo_inj (snd st) i j x Hinj); apply mfind_in; assumption.
Qed.

Lemma rename_spec i st j st' :
  mwf st -> rename i st = (j, st') ->
  mwf st' /\ fst st <= fst st' /\ mgrows (snd st) (snd st') /\ mfind i (snd st') = Some j.
Proof.
  intros (W1 & W2 & W3) H. unfold rename in H.
  destruct (mfind i (snd st)) as [x|] eqn:E; inversion H; subst; clear H.
  - split; [exact (conj W1 (conj W2 W3))|]. split; [lia|]. split; [apply mgrows_refl|exact E].
  - unfold mwf. simpl. split; [split; [|split]|split; [|split]].
    + intros a b [Hab|Hab].
      * inversion Hab; subst. lia.
      * specialize (W1 _ _ Hab). lia.
    + constructor; [|exact W2]. intros Hin. apply in_map_iff in Hin.
      destruct Hin as [[a b] [Hb Hab]]. simpl in Hb. subst b.
      specialize (W1 _ _ Hab). lia.
    + constructor; [|exact W3]. apply mfind_none_notin. exact E.
    + lia.
    + intros a b Hab. simpl. destruct (Nat.eqb_spec i a) as [Ea|Ea]; [|exact Hab].
      subst a. congruence.
    + rewrite Nat.eqb_refl. reflexivity.
Qed.

Lemma mwf_init n : mwf (n, []).
Proof. repeat split; simpl; [intros ? ? []|constructor|constructor]. Qed.

Lemma pcopy_spec e : forall st e' st',
  mwf st -> pcopy e st = (e', st') ->
  mwf st' /\ fst st <= fst st' /\ mgrows (snd st) (snd st')
  /\ gids e' = map (mren (snd st')) (gids e)
  /\ (forall i, In i (gids e) -> mbound (snd st') i).
Proof.
  induction e as [i d t|i k t cs IH] using gev_ind'; intros st e' st' W H.
  - rewrite pcopy_leaf in H.
    destruct (rename i st) as [i' st1] eqn:E1.
    destruct (rename d st1) as [d' st2] eqn:E2.
    destruct (rename t st2) as [t' st3] eqn:E3.
    inversion H; subst; clear H.
    destruct (rename_spec _ _ _ _ W E1) as (W1 & L1 & G1 & F1).
    destruct (rename_spec _ _ _ _ W1 E2) as (W2 & L2 & G2 & F2).
    destruct (rename_spec _ _ _ _ W2 E3) as (W3 & L3 & G3 & F3).
    pose proof (G3 _ _ (G2 _ _ F1)) as F1'.
    pose proof (G3 _ _ F2) as F2'.
    split; [exact W3|]. split; [lia|].
    split; [exact (mgrows_trans _ _ _ (mgrows_trans _ _ _ G1 G2) G3)|].
    split.
    + rewrite !gids_leaf. simpl.
      rewrite (mren_of _ _ _ F1'), (mren_of _ _ _ F2'), (mren_of _ _ _ F3). reflexivity.
    + rewrite gids_leaf. intros a [Ha|[Ha|[Ha|[]]]]; subst a; eexists; eassumption.
  - assert (G : forall st l' st', mwf st -> pcopy_list cs st = (l', st') ->
        mwf st' /\ fst st <= fst st' /\ mgrows (snd st) (snd st')
        /\ gids_list l' = map (mren (snd st')) (gids_list cs)
        /\ (forall i, In i (gids_list cs) -> mbound (snd st') i)).
    { clear H W st st' e'. induction cs as [|c r IHr]; intros st l' st' W H.
      - rewrite pcopy_list_nil in H. inversion H; subst.
        split; [exact W|]. split; [lia|]. split; [apply mgrows_refl|]. split; [reflexivity|intros ? []].
      - inversion IH as [|? ? Hc Hrest]; subst.
        rewrite pcopy_list_cons in H.
        destruct (pcopy c st) as [c' s1] eqn:Ec.
        destruct (pcopy_list r s1) as [r' s2] eqn:Er.
        inversion H; subst; clear H.
        destruct (Hc _ _ _ W Ec) as (W1 & L1 & G1 & A1 & B1).
        destruct (IHr Hrest _ _ _ W1 Er) as (W2 & L2 & G2 & A2 & B2).
        split; [exact W2|]. split; [lia|].
        split; [exact (mgrows_trans _ _ _ G1 G2)|].
        split.
        + rewrite !gids_list_cons, map_app, A1, A2. f_equal.
          apply map_ext_in. intros a Ha. symmetry. apply mren_grows; [exact G2|].
          apply B1. exact Ha.
        + rewrite gids_list_cons. intros a Ha. apply in_app_or in Ha.
          destruct Ha as [Ha|Ha].
          * apply (mbound_grows _ _ _ G2). apply B1. exact Ha.
          * apply B2. exact Ha. }
    rewrite pcopy_node in H.
    destruct (rename i st) as [i' st1] eqn:E1.
    destruct (rename t st1) as [t' st2] eqn:E2.
    destruct (pcopy_list cs st2) as [cs' st3] eqn:E3.
    inversion H; subst; clear H.
    destruct (rename_spec _ _ _ _ W E1) as (W1 & L1 & G1 & F1).
    destruct (rename_spec _ _ _ _ W1 E2) as (W2 & L2 & G2 & F2).
    destruct (G _ _ _ W2 E3) as (W3 & L3 & G3 & A3 & B3).
    pose proof (G3 _ _ (G2 _ _ F1)) as F1'.
    pose proof (G3 _ _ F2) as F2'.
    split; [exact W3|]. split; [lia|].
    split; [exact (mgrows_trans _ _ _ (mgrows_trans _ _ _ G1 G2) G3)|].
    split.
    + rewrite !gids_node, A3. simpl.
      rewrite (mren_of _ _ _ F1'), (mren_of _ _ _ F2'). reflexivity.
    + rewrite gids_node. intros a [Ha|[Ha|Ha]].
      * subst a. eexists; eassumption.
      * subst a. eexists; eassumption.
      * apply B3. exact Ha.
Qed.

(* the statement with the renaming written out *)
Theorem pcopy_renames e st e' st' :
  mwf st -> pcopy e st = (e', st') ->
  mwf st'
  /\ fst st <= fst st'
  /\ (forall i j, mfind i (snd st) = Some j -> mfind i (snd st') = Some j)
  /\ gids e' = map (fun i => match mfind i (snd st') with Some j => j | None => 0 end) (gids e)
  /\ (forall i, In i (gids e) -> exists j, mfind i (snd st') = Some j).
Proof. exact (pcopy_spec e st e' st'). Qed.

(* any state invariant preserved by rename is preserved by pcopy *)
Lemma pcopy_inv (I : nat * memo -> Prop)
  (HI : forall i st, I st -> I (snd (rename i st))) :
  forall e st, I st -> I (snd (pcopy e st)).
Proof.
  induction e as [i d t|i k t cs IH] using gev_ind'; intros st H.
  - rewrite pcopy_leaf.
    pose proof (HI i st H) as H1. destruct (rename i st) as [i' st1]. simpl in H1.
    pose proof (HI d st1 H1) as H2. destruct (rename d st1) as [d' st2]. simpl in H2.
    pose proof (HI t st2 H2) as H3. destruct (rename t st2) as [t' st3]. simpl in H3.
    exact H3.
  - assert (G : forall st, I st -> I (snd (pcopy_list cs st))).
    { clear H st. induction cs as [|c r IHr]; intros st H.
      - exact H.
      - inversion IH as [|? ? Hc Hrest]; subst.
        rewrite pcopy_list_cons.
        pose proof (Hc st H) as H1. destruct (pcopy c st) as [c' s1]. simpl in H1.
        pose proof (IHr Hrest s1 H1) as H2. destruct (pcopy_list r s1) as [r' s2]. simpl in H2.
        exact H2. }
    rewrite pcopy_node.
    pose proof (HI i st H) as H1. destruct (rename i st) as [i' st1]. simpl in H1.
    pose proof (HI t st1 H1) as H2. destruct (rename t st1) as [t' st2]. simpl in H2.
    pose proof (G st2 H2) as H3. destruct (pcopy_list cs st2) as [cs' st3]. simpl in H3.
    exact H3.
Qed.

Definition mlow (n0 : nat) (st : nat * memo) : Prop :=
  n0 <= fst st /\ forall i j, In (i, j) (snd st) -> n0 <= j.

Lemma rename_mlow n0 i st : mlow n0 st -> mlow n0 (snd (rename i st)).
Proof.
  intros [L1 L2]. unfold rename, mlow. destruct (mfind i (snd st)); simpl.
  - split; assumption.
  - split; [lia|]. intros a b [Hab|Hab].
    + inversion Hab; subst. exact L1.
    + exact (L2 _ _ Hab).
Qed.

Lemma pcopy_mlow n0 e st : mlow n0 st -> mlow n0 (snd (pcopy e st)).
Proof. apply pcopy_inv. intros i s. apply rename_mlow. Qed.

(* every identity of a top-level pickle copy is a new one *)
Theorem pcopy_fresh e n :
  (forall i, In i (gids e) -> i < n) ->
  forall i, In i (gids (fst (pcopy e (n, [])))) -> n <= i /\ ~ In i (gids e).
Proof.
  intros Hb i Hi.
  assert (L : mlow n (snd (pcopy e (n, [])))).
  { apply pcopy_mlow. split; simpl; [lia|intros ? ? []]. }
  destruct (pcopy e (n, [])) as [e' st'] eqn:E. simpl in Hi, L.
  destruct (pcopy_spec _ _ _ _ (mwf_init n) E) as (_ & _ & _ & A & B).
  rewrite A in Hi. apply in_map_iff in Hi. destruct Hi as [a [Ea Ha]].
  destruct (B a Ha) as [j Hj]. rewrite (mren_of _ _ _ Hj) in Ea. subst j.
  assert (n <= i) by (apply (proj2 L a i), mfind_in, Hj).
  split; [assumption|]. intros Hin. specialize (Hb i Hin). lia.
Qed.

(* the copy keeps exactly the sharing of the source (any well-formed start state) *)
Theorem pcopy_sharing_gen e st a b i j :
  mwf st ->
  nth_error (gids e) a = Some i -> nth_error (gids e) b = Some j ->
  (i = j <-> nth_error (gids (fst (pcopy e st))) a = nth_error (gids (fst (pcopy e st))) b).
Proof.
  intros W Ha Hb.
  destruct (pcopy e st) as [e' st'] eqn:E. simpl.
  destruct (pcopy_spec _ _ _ _ W E) as (W' & _ & _ & A & B).
  rewrite A, !nth_error_map, Ha, Hb. simpl.
  split.
  - intros ->. reflexivity.
  - intros Heq. inversion Heq as [Heq'].
    apply (mren_inj st'); try assumption; apply B; eapply nth_error_In; eassumption.
Qed.

Theorem pcopy_sharing e n a b i j :
  nth_error (gids e) a = Some i -> nth_error (gids e) b = Some j ->
  (i = j <-> nth_error (gids (fst (pcopy e (n, [])))) a
             = nth_error (gids (fst (pcopy e (n, [])))) b).
Proof. apply pcopy_sharing_gen, mwf_init. Qed.

Theorem pcopy_shape e : forall st, shape_of (fst (pcopy e st)) = shape_of e.
Proof.
  induction e as [i d t|i k t cs IH] using gev_ind'; intros st.
  - rewrite pcopy_leaf.
    destruct (rename i st) as [i' st1]. destruct (rename d st1) as [d' st2].
    destruct (rename t st2) as [t' st3]. reflexivity.
  - assert (G : forall st, shape_list (fst (pcopy_list cs st)) = shape_list cs).
    { induction cs as [|c r IHr]; intros s.
      - reflexivity.
      - inversion IH as [|? ? Hc Hrest]; subst.
        rewrite pcopy_list_cons.
        specialize (Hc s). destruct (pcopy c s) as [c' s1]. simpl in Hc.
        specialize (IHr Hrest s1). destruct (pcopy_list r s1) as [r' s2]. simpl in IHr.
        simpl fst. rewrite !shape_list_cons, Hc, IHr. reflexivity. }
    rewrite pcopy_node.
    destruct (rename i st) as [i' st1]. destruct (rename t st1) as [t' st2].
    specialize (G st2). destruct (pcopy_list cs st2) as [cs' st3]. simpl in G.
    simpl fst. rewrite !shape_node, G. reflexivity.
Qed.

Theorem pcopy_pattern_gen e st : mwf st -> pattern (fst (pcopy e st)) = pattern e.
Proof.
  intros W. unfold pattern.
  destruct (pcopy e st) as [e' st'] eqn:E. simpl.
  destruct (pcopy_spec _ _ _ _ W E) as (W' & _ & _ & A & B).
  rewrite A.
  change (canon_go [] (map (mren (snd st')) (gids e)))
    with (canon_go (map (mren (snd st')) []) (map (mren (snd st')) (gids e))).
  apply canon_go_map. simpl. intros x y Hx Hy Heq.
  apply (mren_inj st'); try assumption; apply B; assumption.
Qed.

Theorem pcopy_pattern e n : pattern (fst (pcopy e (n, []))) = pattern e.
Proof. apply pcopy_pattern_gen, mwf_init. Qed.

Theorem pcopy_length e n : length (gids (fst (pcopy e (n, [])))) = length (gids e).
Proof.
  destruct (pcopy e (n, [])) as [e' st'] eqn:E. simpl.
  destruct (pcopy_spec _ _ _ _ (mwf_init n) E) as (_ & _ & _ & A & _).
  rewrite A. apply map_length.
Qed.

(* ------------------------------------------------------------------ *)
(* 3. frame                                                            *)
(* ------------------------------------------------------------------ *)

Theorem obs_frame {V} (h h' : nat -> V) e :
  (forall i, In i (gids e) -> h' i = h i) -> obs h' e = obs h e.
Proof. intros H. unfold obs. apply map_ext_in. exact H. Qed.

(* a mutation confined to the objects of b is invisible through a *)
Theorem copies_independent a b :
  (forall i, In i (gids a) -> ~ In i (gids b)) ->
  forall V (h h' : nat -> V),
  (forall i, ~ In i (gids b) -> h' i = h i) -> obs h' a = obs h a.
Proof.
  intros D V h h' H. apply obs_frame. intros i Hi. apply H. apply D. exact Hi.
Qed.

(* mutating the destructive copy does not change the source ... *)
Theorem dcopy_independent e n :
  (forall i, In i (gids e) -> i < n) ->
  forall V (h h' : nat -> V),
  (forall i, ~ In i (gids (fst (dcopy e n))) -> h' i = h i) -> obs h' e = obs h e.
Proof.
  intros Hb. apply copies_independent. intros i Hi Hc.
  exact (dcopy_fresh e n Hb i Hc Hi).
Qed.

(* ... and mutating the source does not change the destructive copy *)
Theorem dcopy_independent_rev e n :
  (forall i, In i (gids e) -> i < n) ->
  forall V (h h' : nat -> V),
  (forall i, ~ In i (gids e) -> h' i = h i) ->
  obs h' (fst (dcopy e n)) = obs h (fst (dcopy e n)).
Proof.
  intros Hb. apply copies_independent. exact (dcopy_fresh e n Hb).
Qed.

Theorem pcopy_independent e n :
  (forall i, In i (gids e) -> i < n) ->
  forall V (h h' : nat -> V),
  (forall i, ~ In i (gids (fst (pcopy e (n, [])))) -> h' i = h i) -> obs h' e = obs h e.
Proof.
  intros Hb. apply copies_independent. intros i Hi Hc.
  exact (proj2 (pcopy_fresh e n Hb i Hc) Hi).
Qed.

Theorem pcopy_independent_rev e n :
  (forall i, In i (gids e) -> i < n) ->
  forall V (h h' : nat -> V),
  (forall i, ~ In i (gids e) -> h' i = h i) ->
  obs h' (fst (pcopy e (n, []))) = obs h (fst (pcopy e (n, []))).
Proof.
  intros Hb. apply copies_independent. intros i Hi.
  exact (proj2 (pcopy_fresh e n Hb i Hi)).
Qed.

(* ------------------------------------------------------------------ *)
(* 4. examples                                                         *)
(* ------------------------------------------------------------------ *)

(* a sequence whose first two children are the same leaf object (event 2, duration 3), a nested
   simultaneity, and one tempo object (1) shared by every event *)
Definition ex_g : gev :=
  GNode 0 GSeq 1 [GLeaf 2 3 1; GLeaf 2 3 1; GNode 4 GSim 1 [GLeaf 5 6 1; GLeaf 7 6 1]].

Example ex_gids : gids ex_g = [0; 1; 2; 3; 1; 2; 3; 1; 4; 1; 5; 6; 1; 7; 6; 1].
Proof. vm_compute. reflexivity. Qed.

Example ex_bound : forall i, In i (gids ex_g) -> i < 8.
Proof. intros i Hi. vm_compute in Hi. repeat (destruct Hi as [Hi|Hi]; [subst i; lia|]). contradiction. Qed.

Example ex_pattern_src : pattern ex_g = [0; 1; 2; 3; 1; 2; 3; 1; 4; 1; 5; 6; 1; 7; 6; 1].
Proof. vm_compute. reflexivity. Qed.

Example ex_pcopy_gids :
  gids (fst (pcopy ex_g (8, []))) = [8; 9; 10; 11; 9; 10; 11; 9; 12; 9; 13; 14; 9; 15; 14; 9].
Proof. vm_compute. reflexivity. Qed.

Example ex_pattern_pcopy : pattern (fst (pcopy ex_g (8, []))) = pattern ex_g.
Proof. vm_compute. reflexivity. Qed.

Example ex_dcopy_gids : gids (fst (dcopy ex_g 8)) = seq 8 16.
Proof. vm_compute. reflexivity. Qed.

Example ex_pattern_dcopy : pattern (fst (dcopy ex_g 8)) = seq 0 16.
Proof. vm_compute. reflexivity. Qed.

Example ex_pattern_differs : pattern (fst (dcopy ex_g 8)) <> pattern ex_g.
Proof. vm_compute. discriminate. Qed.

Example ex_shapes :
  shape_of (fst (dcopy ex_g 8)) = shape_of ex_g /\ shape_of (fst (pcopy ex_g (8, []))) = shape_of ex_g.
Proof. vm_compute. split; reflexivity. Qed.

(* a well-formed non-empty start state (hypothesis of pcopy_renames is satisfiable) *)
Example ex_mwf : mwf (snd (pcopy ex_g (8, []))).
Proof.
  pose proof (pcopy_spec ex_g (8, []) (fst (pcopy ex_g (8, []))) (snd (pcopy ex_g (8, [])))
                (mwf_init 8)) as H.
  apply H. destruct (pcopy ex_g (8, [])); reflexivity.
Qed.

(* mutating object 3 (the shared duration) through the source is seen twice in the source,
   never in either copy *)
Example ex_mutation :
  let h := fun _ : nat => 0 in
  let h' := fun i => if Nat.eqb i 3 then 1 else 0 in
  obs h' ex_g = [0; 0; 0; 1; 0; 0; 1; 0; 0; 0; 0; 0; 0; 0; 0; 0]
  /\ obs h' (fst (pcopy ex_g (8, []))) = obs h (fst (pcopy ex_g (8, [])))
  /\ obs h' (fst (dcopy ex_g 8)) = obs h (fst (dcopy ex_g 8)).
Proof. vm_compute. repeat split; reflexivity. Qed.

Print Assumptions dcopy_range.
Print Assumptions dcopy_gids.
Print Assumptions dcopy_nodup.
Print Assumptions dcopy_fresh.
Print Assumptions dcopy_shape.
Print Assumptions dcopy_pattern.
Print Assumptions dcopy_length.
Print Assumptions pcopy_renames.
Print Assumptions pcopy_fresh.
Print Assumptions pcopy_sharing.
Print Assumptions pcopy_sharing_gen.
Print Assumptions pcopy_shape.
Print Assumptions pcopy_pattern.
Print Assumptions pcopy_pattern_gen.
Print Assumptions obs_frame.
Print Assumptions copies_independent.
Print Assumptions dcopy_independent.
Print Assumptions dcopy_independent_rev.
Print Assumptions pcopy_independent.
Print Assumptions pcopy_independent_rev.
