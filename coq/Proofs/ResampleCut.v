(* Cutting an envelope over the reals: Envelope.cut_out and Envelope.cut_off reproduce the original
   curve on the kept spans (Stage 3), built on the sampling relation of Proofs/Resample.v. *)
From Coq Require Import ZArith List Bool Reals Lra Lia.
From MV Require Import Base.Res Model.EventTree Model.TreeOps Model.Num Model.Envelope Proofs.RNum
  Proofs.Resample.
Import ListNotations.
Local Open Scope Z_scope.

(* ================================================================ 1. list surgery (any F) *)
Section GenCut.
  Context {F : Type}.
  Implicit Types (e X Y : env F) (p q : pt F).

  (* the first control point at time s *)
  Lemma split_at_start s : forall e t0, gwf e -> In s (pstarts_from F t0 e) ->
    exists A R, e = A ++ R /\ R <> [] /\ t0 + pdur F A = s /\ Forall (fun z => z < s) (pstarts_from F t0 A).
  Proof.
    induction e as [|a e IH]; intros t0 W H; simpl in H; [tauto|].
    apply gwf_cons in W. destruct W as [Wa We].
    destruct (Z.eq_dec t0 s) as [E|E].
    - exists [], (a :: e). simpl. repeat split; [discriminate|lia|constructor].
    - destruct H as [H|H]; [congruence|].
      pose proof (starts_bounds e _ _ We H) as Bd.
      destruct (IH _ We H) as (A & R & E1 & E2 & E3 & E4).
      exists (a :: A), R. simpl. subst e. repeat split; [exact E2|lia|]. constructor; [lia|exact E4].
  Qed.

  (* everything up to the last zero-length point at time en *)
  Lemma split_at_end en : forall e t0, gwf e -> In en (pstarts_from F t0 e) ->
    exists B C, e = B ++ C /\ t0 + pdur F B = en /\
      (C = [] \/ exists c C', C = c :: C' /\ 0 < pd c).
  Proof.
    induction e as [|a e IH]; intros t0 W H; [simpl in H; tauto|].
    apply gwf_cons in W. destruct W as [Wa We].
    destruct (in_dec Z.eq_dec en (pstarts_from F (t0 + pd a) e)) as [I|I].
    - destruct (IH _ We I) as (B & C & E1 & E2 & E3).
      exists (a :: B), C. simpl. subst e. repeat split; [lia|exact E3].
    - simpl in H. destruct H as [H|H]; [|tauto].
      destruct (Z_lt_le_dec 0 (pd a)) as [P|P].
      + exists [], (a :: e). simpl. repeat split; [lia|]. right. exists a, e. auto.
      + destruct e as [|b e].
        * exists [a], []. simpl. repeat split; [lia|]. left; reflexivity.
        * exfalso. apply I. simpl. left. lia.
  Qed.

  (* ---- p_cut_out *)
  Lemma p_cut_out_app s en X : forall t0 Y,
    p_cut_out F s en t0 (X ++ Y) = p_cut_out F s en t0 X ++ p_cut_out F s en (t0 + pdur F X) Y.
  Proof.
    induction X as [|a X IH]; intros t0 Y.
    - simpl. f_equal. lia.
    - simpl app. simpl pdur. cbn [p_cut_out]. cbv zeta. rewrite !IH.
      replace (t0 + (pd a + pdur F X)) with (t0 + pd a + pdur F X) by lia.
      repeat match goal with |- context [if ?c then _ else _] => destruct c end; reflexivity.
  Qed.

  Lemma p_cut_out_before s en X : forall t0, gwf X -> t0 + pdur F X <= s ->
    Forall (fun z => z < s) (pstarts_from F t0 X) -> p_cut_out F s en t0 X = [].
  Proof.
    induction X as [|a X IH]; intros t0 W H S; [reflexivity|].
    apply gwf_cons in W. destruct W as [Wa WX]. pose proof (gdur_nonneg X WX).
    simpl in H, S. inversion S as [|? ? S1 S2]; subst.
    cbn [p_cut_out]. cbv zeta. rewrite IH; [|exact WX|lia|exact S2].
    repeat match goal with |- context [if ?c then _ else _] => destruct c eqn:? end;
      try reflexivity; try lia.
  Qed.

  Lemma p_cut_out_mid s en X : forall t0, gwf X -> s <= t0 -> t0 + pdur F X <= en ->
    p_cut_out F s en t0 X = X.
  Proof.
    induction X as [|a X IH]; intros t0 W H S; [reflexivity|].
    apply gwf_cons in W. destruct W as [Wa WX]. pose proof (gdur_nonneg X WX).
    simpl in S. cbn [p_cut_out]. cbv zeta. rewrite IH; [|exact WX|lia|lia].
    destruct a as [d v c]; cbn [pd pv pc] in *.
    destruct (Z.ltb_spec t0 s); [lia|]. destruct (Z.ltb_spec en (t0 + d)); [lia|].
    repeat match goal with |- context [if ?c then _ else _] => destruct c eqn:? end;
      try reflexivity; try lia; try (apply cons_eq; [apply mkPt_eq; [lia|reflexivity|reflexivity]|reflexivity]).
  Qed.

  Lemma p_cut_out_after_strict s en X : forall t0, gwf X -> s <= en -> en < t0 ->
    p_cut_out F s en t0 X = [].
  Proof.
    induction X as [|a X IH]; intros t0 W H S; [reflexivity|].
    apply gwf_cons in W. destruct W as [Wa WX].
    cbn [p_cut_out]. cbv zeta. rewrite IH; [|exact WX|lia|lia].
    repeat match goal with |- context [if ?c then _ else _] => destruct c eqn:? end;
      try reflexivity; try lia.
  Qed.

  Lemma p_cut_out_after s en c C' t0 : gwf (c :: C') -> s <= en -> en <= t0 -> 0 < pd c ->
    p_cut_out F s en t0 (c :: C') = [].
  Proof.
    intros W H S P. apply gwf_cons in W. destruct W as [Wa WX].
    cbn [p_cut_out]. cbv zeta. rewrite p_cut_out_after_strict; [|exact WX|lia|lia].
    repeat match goal with |- context [if ?c then _ else _] => destruct c eqn:? end;
      try reflexivity; try lia.
  Qed.

  (* ---- p_cut_off, the removed span *)
  Lemma p_cut_off_mid s en X : forall t0, gwf X -> s <= t0 -> t0 + pdur F X <= en ->
    Forall (fun z => z < en) (pstarts_from F t0 X) -> p_cut_off F s en t0 X = [].
  Proof.
    induction X as [|a X IH]; intros t0 W H S L; [reflexivity|].
    apply gwf_cons in W. destruct W as [Wa WX]. pose proof (gdur_nonneg X WX).
    simpl in S, L. inversion L as [|? ? L1 L2]; subst.
    cbn [p_cut_off]. cbv zeta. rewrite IH; [|exact WX|lia|lia|exact L2].
    repeat match goal with |- context [if ?c then _ else _] => destruct c eqn:? end;
      try reflexivity; try lia.
  Qed.

  (* squashing a zero-length event in at an existing control-point time *)
  Lemma squash_at_point A C1 new : gwf (A ++ C1) -> C1 <> [] -> pd new = 0 ->
    Forall (fun z => z < pdur F A) (pstarts_from F 0 A) ->
    p_squash F (A ++ C1) (pdur F A) new = Ok (A ++ new :: C1).
  Proof.
    intros W Hc Hn S. apply gwf_app in W. destruct W as [WA WC].
    pose proof (gdur_nonneg _ WA). pose proof (gdur_nonneg _ WC).
    unfold p_squash, check_time. destruct (Z.ltb_spec (pdur F A) 0); [lia|]. cbn [bind]. cbv zeta.
    rewrite pdur_app. destruct (Z.ltb_spec (pdur F A + pdur F C1) (pdur F A)); [lia|].
    rewrite Hn. cbn [Z.ltb Z.compare].
    destruct C1 as [|c C1]; [congruence|].
    unfold pstarts. rewrite pstarts_from_app. cbn [pstarts_from].
    rewrite index_of_first'; [|lia|apply notin_lt; exact S].
    rewrite pstarts_from_length, insert_at_app. reflexivity.
  Qed.
End GenCut.

(* ================================================================ 2. more on the curve *)

(* before the end of a non-empty prefix only the prefix and the next value matter *)
Lemma cg_prefix : forall (X : envR) t0 y Y y' Y' x, X <> [] -> pv y = pv y' ->
  (x < t0 + tofR (pdur R X))%R ->
  cg t0 (X ++ y :: Y) x = cg t0 (X ++ y' :: Y') x.
Proof.
  induction X as [|a X IH]; intros t0 y Y y' Y' x Hn Hv H; [congruence|].
  change (cg t0 ((a :: X) ++ y :: Y) x) with (curve_go t0 a (X ++ y :: Y) x).
  change (cg t0 ((a :: X) ++ y' :: Y') x) with (curve_go t0 a (X ++ y' :: Y') x).
  simpl pdur in H. rewrite tofR_plus in H.
  destruct X as [|b X].
  - simpl app. rewrite !curve_go_cons. rewrite Hv. simpl pdur in H. rewrite tofR_0 in H.
    destruct (Rlt_dec x (t0 + tofR (pd a))); [reflexivity|lra].
  - assert (Hrec : cg (t0 + tofR (pd a)) ((b :: X) ++ y :: Y) x = cg (t0 + tofR (pd a)) ((b :: X) ++ y' :: Y') x).
    { apply IH; [discriminate|exact Hv|lra]. }
    simpl app in *. rewrite !curve_go_cons.
    destruct (Rlt_dec x (t0 + tofR (pd a))); [reflexivity|exact Hrec].
Qed.

(* at the start of a point that lasts, or of the last point, the curve takes the point's value *)
Lemma curve_go_at_start t0 (c : ptR) C' : 0 < pd c \/ C' = [] -> curve_go t0 c C' t0 = pv c.
Proof.
  intros [H|H]; [|subst; reflexivity]. destruct C' as [|q C']; [reflexivity|].
  rewrite curve_go_cons. pose proof (tofR_pos _ H).
  destruct (Rlt_dec t0 (t0 + tofR (pd c))); [|lra].
  replace ((t0 - t0) / (t0 + tofR (pd c) - t0))%R with 0%R by (unfold Rdiv; ring).
  apply segR_0.
Qed.

Lemma curve_pos (e : envR) x : (0 < x)%R -> curve e x = cg 0 e x.
Proof. intros H. destruct e as [|p r]; [reflexivity|]. rewrite curve_cg. destruct (Rle_dec x 0); [lra|reflexivity]. Qed.

Lemma curve_nonpos (p : ptR) r x : (x <= 0)%R -> curve (p :: r) x = pv p.
Proof. intros H. rewrite curve_cg. destruct (Rle_dec x 0); [reflexivity|lra]. Qed.

(* the curve after a prefix, shifted to the prefix' end *)
Lemma cg_skip_shift (X : envR) y Y x : pwf X -> (0 <= x)%R ->
  cg 0 (X ++ y :: Y) (tofR (pdur R X) + x) = curve_go 0 y Y x.
Proof.
  intros W H. rewrite cg_skip; [|exact W|lra].
  rewrite <- (curve_go_shift Y y 0 x (0 + tofR (pdur R X))). f_equal; ring.
Qed.

(* ================================================================ 3. sampling keeps control points *)

Lemma samp_starts_mono t e e' z : samp t e e' -> In z (pstarts R e) -> In z (pstarts R e').
Proof.
  intros S. destruct S as [e I|front p q back d1 d2 H1 H2 Hd Ht|front p d1 c1 tail H1 Ht Hn Hf]; [auto| |].
  - unfold pstarts. rewrite !pstarts_from_app. cbn [pstarts_from pd]. intros H.
    apply in_app_or in H. apply in_or_app. destruct H as [H|H]; [left; exact H|right].
    destruct H as [H|H]; [left; exact H|right; right].
    replace (0 + pdur R front + d1 + d2) with (0 + pdur R front + pd p) by lia. exact H.
  - unfold pstarts. rewrite !pstarts_from_app. cbn [pstarts_from pd]. intros H.
    apply in_app_or in H. apply in_or_app. destruct H as [H|H]; [left; exact H|right].
    destruct H as [H|[]]. left; exact H.
Qed.

(* the value of the first control point at time s, if any *)
Fixpoint fv (t0 : Z) (e : envR) (s : Z) : option R :=
  match e with [] => None | p :: r => if t0 =? s then Some (pv p) else fv (t0 + pd p) r s end.

(* no jump at s: if s is a control-point time, the first point there carries the value of the curve
   (sufficient: the first point at s has a positive duration or is the last point) *)
Definition nojump (e : envR) (s : Z) : Prop := forall v, fv 0 e s = Some v -> v = curve e (tofR s).

Lemma fv_app (X : envR) : forall t0 Y s,
  fv t0 (X ++ Y) s = match fv t0 X s with Some v => Some v | None => fv (t0 + pdur R X) Y s end.
Proof.
  induction X as [|a X IH]; intros t0 Y s; simpl.
  - f_equal. lia.
  - destruct (t0 =? s); [reflexivity|]. rewrite IH. replace (t0 + (pd a + pdur R X)) with (t0 + pd a + pdur R X) by lia. reflexivity.
Qed.

Lemma fv_notin (X : envR) : forall t0 s, ~ In s (pstarts_from R t0 X) -> fv t0 X s = None.
Proof.
  induction X as [|a X IH]; intros t0 s H; simpl in *; [reflexivity|].
  destruct (Z.eqb_spec t0 s); [exfalso; auto|]. apply IH. tauto.
Qed.

Lemma fv_first (A : envR) r R' s : ~ In s (pstarts_from R 0 A) -> pdur R A = s ->
  fv 0 (A ++ r :: R') s = Some (pv r).
Proof.
  intros H E. rewrite fv_app, fv_notin by exact H. simpl. rewrite E, Z.eqb_refl. reflexivity.
Qed.

Lemma fv_const (tail : envR) v0 : forall t0 s v,
  Forall (fun r : ptR => pv r = v0 /\ 0 <= pd r) tail -> fv t0 tail s = Some v -> v = v0 /\ t0 <= s.
Proof.
  induction tail as [|a tail IH]; intros t0 s v H E; simpl in E; [discriminate|].
  inversion H as [|? ? [Ha1 Ha2] Ht]; subst.
  destruct (Z.eqb_spec t0 s).
  - inversion E; subst. split; [reflexivity|lia].
  - apply IH in E; [|exact Ht]. split; [tauto|lia].
Qed.

Lemma samp_fv t e e' s v : pwf e -> samp t e e' -> fv 0 e' s = Some v ->
  fv 0 e s = Some v \/ v = curve e (tofR s).
Proof.
  intros W S. destruct S as [e I|front p q back d1 d2 H1 H2 Hd Ht|front p d1 c1 tail H1 Ht Hn Hf]; [auto| |].
  - apply pwf_app in W. destruct W as [Wf W]. apply pwf_cons in W. destruct W as [Wp Wb].
    rewrite !fv_app. destruct (fv 0 front s) as [v'|]; [auto|].
    cbn [fv pd pv]. destruct (Z.eqb_spec (0 + pdur R front) s) as [E|E]; [auto|].
    destruct (Z.eqb_spec (0 + pdur R front + d1) s) as [E1|E1].
    + intros V; inversion V; subst v. right.
      assert (0 < tofR s)%R by (apply tofR_pos; pose proof (pdur_nonneg _ Wf); lia).
      rewrite curve_in_segment; [|exact Wf|apply tofR_le; lia|rewrite <- tofR_plus; apply tofR_lt; lia|assumption].
      f_equal. rewrite <- tofR_minus. f_equal. f_equal. lia.
    + replace (0 + pdur R front + d1 + d2) with (0 + pdur R front + pd p) by lia. auto.
  - apply pwf_app in W. destruct W as [Wf W].
    rewrite !fv_app. destruct (fv 0 front s) as [v'|]; [auto|].
    cbn [fv pd pv]. destruct (Z.eqb_spec (0 + pdur R front) s) as [E|E]; [auto|].
    intros V. apply (fv_const tail (pv p)) in V; [|exact Hf]. destruct V as [V1 V2]. right. subst v.
    pose proof (pdur_nonneg _ Wf).
    symmetry. apply curve_after_last; [exact Wf|apply tofR_le; lia|apply tofR_pos; lia].
Qed.

Lemma samp_nojump t e e' s : pwf e -> samp t e e' -> nojump e s -> nojump e' s.
Proof.
  intros W S J v V. rewrite (samp_curve t e e' S).
  destruct (samp_fv t e e' s v W S V) as [V'|V']; [apply J; exact V'|exact V'].
Qed.
