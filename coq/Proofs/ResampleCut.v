(* Cutting an envelope over the reals: Envelope.cut_out and Envelope.cut_off reproduce the original
   curve on the kept spans (Stage 3), built on the sampling relation of Proofs/Resample.v. *)
From Coq Require Import ZArith List Bool Reals Lra Lia.
From MV Require Import Base.Res Model.EventTree Model.TreeOps Model.Num Model.Envelope Proofs.RNum
  Proofs.Resample.
Import ListNotations.
Local Open Scope Z_scope.

(* ================================================================ 1. list surgery (any F) *)
Section GenCut.
  Context {F : Type}.
  Implicit Types (e X Y : env F) (p q : pt F).

  (* the first control point at time s *)
  Lemma split_at_start s : forall e t0, gwf e -> In s (pstarts_from F t0 e) ->
    exists A R, e = A ++ R /\ R <> [] /\ t0 + pdur F A = s /\ Forall (fun z => z < s) (pstarts_from F t0 A).
  Proof.
    induction e as [|a e IH]; intros t0 W H; simpl in H; [tauto|].
    apply gwf_cons in W. destruct W as [Wa We].
    destruct (Z.eq_dec t0 s) as [E|E].
    - exists [], (a :: e). simpl. repeat split; [discriminate|lia|constructor].
    - destruct H as [H|H]; [congruence|].
      pose proof (starts_bounds e _ _ We H) as Bd.
      destruct (IH _ We H) as (A & R & E1 & E2 & E3 & E4).
      exists (a :: A), R. simpl. subst e. repeat split; [exact E2|lia|]. constructor; [lia|exact E4].
  Qed.

  (* everything up to the last zero-length point at time en *)
  Lemma split_at_end en : forall e t0, gwf e -> In en (pstarts_from F t0 e) ->
    exists B C, e = B ++ C /\ t0 + pdur F B = en /\
      (C = [] \/ exists c C', C = c :: C' /\ 0 < pd c).
  Proof.
    induction e as [|a e IH]; intros t0 W H; [simpl in H; tauto|].
    apply gwf_cons in W. destruct W as [Wa We].
    destruct (in_dec Z.eq_dec en (pstarts_from F (t0 + pd a) e)) as [I|I].
    - destruct (IH _ We I) as (B & C & E1 & E2 & E3).
      exists (a :: B), C. simpl. subst e. repeat split; [lia|exact E3].
    - simpl in H. destruct H as [H|H]; [|tauto].
      destruct (Z_lt_le_dec 0 (pd a)) as [P|P].
      + exists [], (a :: e). simpl. repeat split; [lia|]. right. exists a, e. auto.
      + destruct e as [|b e].
        * exists [a], []. simpl. repeat split; [lia|]. left; reflexivity.
        * exfalso. apply I. simpl. left. lia.
  Qed.

  (* ---- p_cut_out *)
  Lemma p_cut_out_app s en X : forall t0 Y,
    p_cut_out F s en t0 (X ++ Y) = p_cut_out F s en t0 X ++ p_cut_out F s en (t0 + pdur F X) Y.
  Proof.
    induction X as [|a X IH]; intros t0 Y.
    - simpl. f_equal. lia.
    - simpl app. simpl pdur. cbn [p_cut_out]. cbv zeta. rewrite !IH.
      replace (t0 + (pd a + pdur F X)) with (t0 + pd a + pdur F X) by lia.
      repeat match goal with |- context [if ?c then _ else _] => destruct c end; reflexivity.
  Qed.

  Lemma p_cut_out_before s en X : forall t0, gwf X -> t0 + pdur F X <= s ->
    Forall (fun z => z < s) (pstarts_from F t0 X) -> p_cut_out F s en t0 X = [].
  Proof.
    induction X as [|a X IH]; intros t0 W H S; [reflexivity|].
    apply gwf_cons in W. destruct W as [Wa WX]. pose proof (gdur_nonneg X WX).
    simpl in H, S. inversion S as [|? ? S1 S2]; subst.
    cbn [p_cut_out]. cbv zeta. rewrite IH; [|exact WX|lia|exact S2].
    repeat match goal with |- context [if ?c then _ else _] => destruct c eqn:? end;
      try reflexivity; try lia.
  Qed.

  Lemma p_cut_out_mid s en X : forall t0, gwf X -> s <= t0 -> t0 + pdur F X <= en ->
    p_cut_out F s en t0 X = X.
  Proof.
    induction X as [|a X IH]; intros t0 W H S; [reflexivity|].
    apply gwf_cons in W. destruct W as [Wa WX]. pose proof (gdur_nonneg X WX).
    simpl in S. cbn [p_cut_out]. cbv zeta. rewrite IH; [|exact WX|lia|lia].
    destruct a as [d v c]; cbn [pd pv pc] in *.
    destruct (Z.ltb_spec t0 s); [lia|]. destruct (Z.ltb_spec en (t0 + d)); [lia|].
    repeat match goal with |- context [if ?c then _ else _] => destruct c eqn:? end;
      try reflexivity; try lia; try (apply cons_eq; [apply mkPt_eq; [lia|reflexivity|reflexivity]|reflexivity]).
  Qed.

  Lemma p_cut_out_after_strict s en X : forall t0, gwf X -> s <= en -> en < t0 ->
    p_cut_out F s en t0 X = [].
  Proof.
    induction X as [|a X IH]; intros t0 W H S; [reflexivity|].
    apply gwf_cons in W. destruct W as [Wa WX].
    cbn [p_cut_out]. cbv zeta. rewrite IH; [|exact WX|lia|lia].
    repeat match goal with |- context [if ?c then _ else _] => destruct c eqn:? end;
      try reflexivity; try lia.
  Qed.

  Lemma p_cut_out_after s en c C' t0 : gwf (c :: C') -> s <= en -> en <= t0 -> 0 < pd c ->
    p_cut_out F s en t0 (c :: C') = [].
  Proof.
    intros W H S P. apply gwf_cons in W. destruct W as [Wa WX].
    cbn [p_cut_out]. cbv zeta. rewrite p_cut_out_after_strict; [|exact WX|lia|lia].
    repeat match goal with |- context [if ?c then _ else _] => destruct c eqn:? end;
      try reflexivity; try lia.
  Qed.

  (* ---- p_cut_off, the removed span *)
  Lemma p_cut_off_mid s en X : forall t0, gwf X -> s <= t0 -> t0 + pdur F X <= en ->
    Forall (fun z => z < en) (pstarts_from F t0 X) -> p_cut_off F s en t0 X = [].
  Proof.
    induction X as [|a X IH]; intros t0 W H S L; [reflexivity|].
    apply gwf_cons in W. destruct W as [Wa WX]. pose proof (gdur_nonneg X WX).
    simpl in S, L. inversion L as [|? ? L1 L2]; subst.
    cbn [p_cut_off]. cbv zeta. rewrite IH; [|exact WX|lia|lia|exact L2].
    repeat match goal with |- context [if ?c then _ else _] => destruct c eqn:? end;
      try reflexivity; try lia.
  Qed.

  (* squashing a zero-length event in at an existing control-point time *)
  Lemma squash_at_point A C1 new : gwf (A ++ C1) -> C1 <> [] -> pd new = 0 ->
    Forall (fun z => z < pdur F A) (pstarts_from F 0 A) ->
    p_squash F (A ++ C1) (pdur F A) new = Ok (A ++ new :: C1).
  Proof.
    intros W Hc Hn S. apply gwf_app in W. destruct W as [WA WC].
    pose proof (gdur_nonneg _ WA). pose proof (gdur_nonneg _ WC).
    unfold p_squash, check_time. destruct (Z.ltb_spec (pdur F A) 0); [lia|]. cbn [bind]. cbv zeta.
    rewrite pdur_app. destruct (Z.ltb_spec (pdur F A + pdur F C1) (pdur F A)); [lia|].
    rewrite Hn. cbn [Z.ltb Z.compare].
    destruct C1 as [|c C1]; [congruence|].
    unfold pstarts. rewrite pstarts_from_app. cbn [pstarts_from].
    rewrite index_of_first'; [|lia|apply notin_lt; exact S].
    rewrite pstarts_from_length, insert_at_app. reflexivity.
  Qed.
End GenCut.

(* ================================================================ 2. more on the curve *)

(* before the end of a non-empty prefix only the prefix and the next value matter *)
Lemma cg_prefix : forall (X : envR) t0 y Y y' Y' x, X <> [] -> pv y = pv y' ->
  (x < t0 + tofR (pdur R X))%R ->
  cg t0 (X ++ y :: Y) x = cg t0 (X ++ y' :: Y') x.
Proof.
  induction X as [|a X IH]; intros t0 y Y y' Y' x Hn Hv H; [congruence|].
  change (cg t0 ((a :: X) ++ y :: Y) x) with (curve_go t0 a (X ++ y :: Y) x).
  change (cg t0 ((a :: X) ++ y' :: Y') x) with (curve_go t0 a (X ++ y' :: Y') x).
  simpl pdur in H. rewrite tofR_plus in H.
  destruct X as [|b X].
  - simpl app. rewrite !curve_go_cons. rewrite Hv. simpl pdur in H. rewrite tofR_0 in H.
    destruct (Rlt_dec x (t0 + tofR (pd a))); [reflexivity|lra].
  - assert (Hrec : cg (t0 + tofR (pd a)) ((b :: X) ++ y :: Y) x = cg (t0 + tofR (pd a)) ((b :: X) ++ y' :: Y') x).
    { apply IH; [discriminate|exact Hv|lra]. }
    simpl app in *. rewrite !curve_go_cons.
    destruct (Rlt_dec x (t0 + tofR (pd a))); [reflexivity|exact Hrec].
Qed.

(* at the start of a point that lasts, or of the last point, the curve takes the point's value *)
Lemma curve_go_at_start t0 (c : ptR) C' : 0 < pd c \/ C' = [] -> curve_go t0 c C' t0 = pv c.
Proof.
  intros [H|H]; [|subst; reflexivity]. destruct C' as [|q C']; [reflexivity|].
  rewrite curve_go_cons. pose proof (tofR_pos _ H).
  destruct (Rlt_dec t0 (t0 + tofR (pd c))); [|lra].
  replace ((t0 - t0) / (t0 + tofR (pd c) - t0))%R with 0%R by (unfold Rdiv; ring).
  apply segR_0.
Qed.

Lemma curve_pos (e : envR) x : (0 < x)%R -> curve e x = cg 0 e x.
Proof. intros H. destruct e as [|p r]; [reflexivity|]. rewrite curve_cg. destruct (Rle_dec x 0); [lra|reflexivity]. Qed.

Lemma curve_nonpos (p : ptR) r x : (x <= 0)%R -> curve (p :: r) x = pv p.
Proof. intros H. rewrite curve_cg. destruct (Rle_dec x 0); [reflexivity|lra]. Qed.

(* the curve after a prefix, shifted to the prefix' end *)
Lemma cg_skip_shift (X : envR) y Y x : pwf X -> (0 <= x)%R ->
  cg 0 (X ++ y :: Y) (tofR (pdur R X) + x) = curve_go 0 y Y x.
Proof.
  intros W H. rewrite cg_skip; [|exact W|lra].
  rewrite <- (curve_go_shift Y y 0 x (0 + tofR (pdur R X))). f_equal; ring.
Qed.

(* ================================================================ 3. sampling keeps control points *)

Lemma samp_starts_mono t e e' z : samp t e e' -> In z (pstarts R e) -> In z (pstarts R e').
Proof.
  intros S. destruct S as [e I|front p q back d1 d2 H1 H2 Hd Ht|front p d1 c1 tail H1 Ht Hn Hf]; [auto| |].
  - unfold pstarts. rewrite !pstarts_from_app. cbn [pstarts_from pd]. intros H.
    apply in_app_or in H. apply in_or_app. destruct H as [H|H]; [left; exact H|right].
    destruct H as [H|H]; [left; exact H|right; right].
    replace (0 + pdur R front + d1 + d2) with (0 + pdur R front + pd p) by lia. exact H.
  - unfold pstarts. rewrite !pstarts_from_app. cbn [pstarts_from pd]. intros H.
    apply in_app_or in H. apply in_or_app. destruct H as [H|H]; [left; exact H|right].
    destruct H as [H|[]]. left; exact H.
Qed.

(* the value of the first control point at time s, if any *)
Fixpoint fv (t0 : Z) (e : envR) (s : Z) : option R :=
  match e with [] => None | p :: r => if t0 =? s then Some (pv p) else fv (t0 + pd p) r s end.

(* no jump at s: if s is a control-point time, the first point there carries the value of the curve
   (sufficient: the first point at s has a positive duration or is the last point) *)
Definition nojump (e : envR) (s : Z) : Prop := forall v, fv 0 e s = Some v -> v = curve e (tofR s).

Lemma fv_app (X : envR) : forall t0 Y s,
  fv t0 (X ++ Y) s = match fv t0 X s with Some v => Some v | None => fv (t0 + pdur R X) Y s end.
Proof.
  induction X as [|a X IH]; intros t0 Y s; simpl.
  - f_equal. lia.
  - destruct (t0 =? s); [reflexivity|]. rewrite IH. replace (t0 + (pd a + pdur R X)) with (t0 + pd a + pdur R X) by lia. reflexivity.
Qed.

Lemma fv_notin (X : envR) : forall t0 s, ~ In s (pstarts_from R t0 X) -> fv t0 X s = None.
Proof.
  induction X as [|a X IH]; intros t0 s H; simpl in *; [reflexivity|].
  destruct (Z.eqb_spec t0 s); [exfalso; auto|]. apply IH. tauto.
Qed.

Lemma fv_first (A : envR) r R' s : ~ In s (pstarts_from R 0 A) -> pdur R A = s ->
  fv 0 (A ++ r :: R') s = Some (pv r).
Proof.
  intros H E. rewrite fv_app, fv_notin by exact H. simpl. rewrite E, Z.eqb_refl. reflexivity.
Qed.

Lemma fv_const (tail : envR) v0 : forall t0 s v,
  Forall (fun r : ptR => pv r = v0 /\ 0 <= pd r) tail -> fv t0 tail s = Some v -> v = v0 /\ t0 <= s.
Proof.
  induction tail as [|a tail IH]; intros t0 s v H E; simpl in E; [discriminate|].
  inversion H as [|? ? [Ha1 Ha2] Ht]; subst.
  destruct (Z.eqb_spec t0 s).
  - inversion E; subst. split; [reflexivity|lia].
  - apply IH in E; [|exact Ht]. split; [tauto|lia].
Qed.

Lemma samp_fv t e e' s v : pwf e -> samp t e e' -> fv 0 e' s = Some v ->
  fv 0 e s = Some v \/ v = curve e (tofR s).
Proof.
  intros W S. destruct S as [e I|front p q back d1 d2 H1 H2 Hd Ht|front p d1 c1 tail H1 Ht Hn Hf]; [auto| |].
  - apply pwf_app in W. destruct W as [Wf W]. apply pwf_cons in W. destruct W as [Wp Wb].
    rewrite !fv_app. destruct (fv 0 front s) as [v'|]; [auto|].
    cbn [fv pd pv]. destruct (Z.eqb_spec (0 + pdur R front) s) as [E|E]; [auto|].
    destruct (Z.eqb_spec (0 + pdur R front + d1) s) as [E1|E1].
    + intros V; inversion V; subst v. right.
      assert (0 < tofR s)%R by (apply tofR_pos; pose proof (pdur_nonneg _ Wf); lia).
      rewrite curve_in_segment; [|exact Wf|apply tofR_le; lia|rewrite <- tofR_plus; apply tofR_lt; lia|assumption].
      f_equal. rewrite <- tofR_minus. f_equal. f_equal. lia.
    + replace (0 + pdur R front + d1 + d2) with (0 + pdur R front + pd p) by lia. auto.
  - apply pwf_app in W. destruct W as [Wf W].
    rewrite !fv_app. destruct (fv 0 front s) as [v'|]; [auto|].
    cbn [fv pd pv]. destruct (Z.eqb_spec (0 + pdur R front) s) as [E|E]; [auto|].
    intros V. apply (fv_const tail (pv p)) in V; [|exact Hf]. destruct V as [V1 V2]. right. subst v.
    pose proof (pdur_nonneg _ Wf).
    symmetry. apply curve_after_last; [exact Wf|apply tofR_le; lia|apply tofR_pos; lia].
Qed.

Lemma samp_nojump t e e' s : pwf e -> samp t e e' -> nojump e s -> nojump e' s.
Proof.
  intros W S J v V. rewrite (samp_curve t e e' S).
  destruct (samp_fv t e e' s v W S V) as [V'|V']; [apply J; exact V'|exact V'].
Qed.

Lemma fv_some' (e : envR) : forall t0 s v, fv t0 e s = Some v ->
  exists A r R', e = A ++ r :: R' /\ t0 + pdur R A = s /\ v = pv r.
Proof.
  induction e as [|a e IH]; intros t0 s v H; simpl in H; [discriminate|].
  destruct (Z.eqb_spec t0 s) as [E|E].
  - inversion H; subst. exists [], a, e. simpl. repeat split. lia.
  - destruct (IH _ _ _ H) as (A & r & R' & E1 & E2 & E3). subst e.
    exists (a :: A), r, R'. simpl. repeat split; [lia|exact E3].
Qed.

Lemma fv_ge (e : envR) t0 s v : pwf e -> fv t0 e s = Some v -> t0 <= s.
Proof.
  intros W H. apply fv_some' in H. destruct H as (A & r & R' & E & Ed & _). subst e.
  apply pwf_app in W. destruct W as [WA _]. pose proof (pdur_nonneg _ WA). lia.
Qed.

(* sampling keeps the first point at every existing control-point time *)
Lemma samp_fv_keep t e e' s v : pwf e -> samp t e e' -> fv 0 e s = Some v -> fv 0 e' s = Some v.
Proof.
  intros W S. destruct S as [e I|front p q back d1 d2 H1 H2 Hd Ht|front p d1 c1 tail H1 Ht Hn Hf]; [auto| |].
  - apply pwf_app in W. destruct W as [Wf W]. apply pwf_cons in W. destruct W as [Wp Wb].
    rewrite !fv_app. destruct (fv 0 front s) as [v'|]; [auto|].
    cbn [fv pd pv]. destruct (Z.eqb_spec (0 + pdur R front) s) as [E|E]; [auto|].
    intros V. pose proof (fv_ge _ _ _ _ Wb V).
    destruct (Z.eqb_spec (0 + pdur R front + d1) s) as [E1|E1]; [lia|].
    replace (0 + pdur R front + d1 + d2) with (0 + pdur R front + pd p) by lia. exact V.
  - rewrite !fv_app. destruct (fv 0 front s) as [v'|]; [auto|].
    cbn [fv pd pv]. destruct (Z.eqb_spec (0 + pdur R front) s) as [E|E]; [auto|discriminate].
Qed.

Lemma fv_index (e : envR) : forall t0 s k p, index_of s (pstarts_from R t0 e) = Some k ->
  nth_error e k = Some p -> fv t0 e s = Some (pv p).
Proof.
  induction e as [|a e IH]; intros t0 s k p H Hn; simpl in H; [discriminate|]. simpl.
  destruct (Z.eqb_spec s t0) as [E|E]; destruct (Z.eqb_spec t0 s) as [E'|E']; try lia.
  - inversion H; subst k. simpl in Hn. inversion Hn; subst. reflexivity.
  - destruct (index_of s (pstarts_from R (t0 + pd a) e)) as [k'|] eqn:Ek; [|discriminate].
    simpl in H. inversion H; subst k. simpl in Hn. apply (IH _ _ _ _ Ek Hn).
Qed.

Lemma nojump_notin (e : envR) s : ~ In s (pstarts R e) -> nojump e s.
Proof. intros H v V. unfold pstarts in H. rewrite fv_notin in V by exact H. discriminate. Qed.

Lemma nojump_0 (e : envR) : nojump e 0.
Proof.
  intros v V. destruct e as [|p r]; [discriminate|]. simpl in V. inversion V; subst.
  rewrite tofR_0. rewrite curve_nonpos; [reflexivity|lra].
Qed.

(* ================================================================ 4. cut_out *)

Lemma at_bisect {F} (front : env F) p back t : gwf (front ++ p :: back) ->
  pdur F front <= t < pdur F front + pd p ->
  bisect_right (pstarts F (front ++ p :: back)) t = S (length front).
Proof.
  intros W B. apply gwf_app in W. destruct W as [Wf W]. apply gwf_cons in W. destruct W as [Wp Wb].
  unfold pstarts. rewrite pstarts_from_app. cbn [pstarts_from].
  rewrite bisect_right_app by (apply starts_le; [exact Wf|lia]).
  rewrite pstarts_from_length. cbn [bisect_right].
  destruct (Z.leb_spec (0 + pdur F front) t); [|lia].
  rewrite bisect_right_none; [lia|]. apply starts_gt; [exact Wb|lia].
Qed.

Definition lastp_of (e2 : envR) (en : Z) : res ptR :=
  match pindex_at R e2 en with
  | Some i => match nth_error e2 i with Some p => Ok p | None => Err EIndexError end
  | None => match rev e2 with l :: _ => Ok l | [] => Err EIndexError end
  end.

Lemma lastp_spec (AB C : envR) en lastp : pwf (AB ++ C) -> 0 <= en -> pdur R AB = en ->
  (C = [] \/ exists c C', C = c :: C' /\ 0 < pd c) ->
  lastp_of (AB ++ C) en = Ok lastp ->
  (exists C', C = lastp :: C' /\ 0 < pd lastp) \/ (C = [] /\ exists init, AB = init ++ [lastp]).
Proof.
  intros W H0 Hd HC H. unfold lastp_of in H.
  destruct HC as [HC|(c & C' & HC & Pc)]; subst C.
  - right. split; [reflexivity|]. rewrite app_nil_r in *.
    unfold pindex_at, index_at_from in H. destruct (Z.ltb_spec en (pdur R AB)); [lia|]. cbn [andb] in H.
    destruct AB as [|a AB'] using rev_ind; [discriminate|]. rewrite rev_unit in H. inversion H; subst.
    exists AB'. reflexivity.
  - left. pose proof W as W'. apply pwf_app in W'. destruct W' as [W1 W2].
    apply pwf_cons in W2. destruct W2 as [Wc W2]. pose proof (pdur_nonneg _ W2).
    unfold pindex_at, index_at_from in H. rewrite pdur_app in H. cbn [pdur] in H.
    destruct (Z.ltb_spec en (pdur R AB + (pd c + pdur R C'))); [|lia].
    destruct (Z.leb_spec 0 en); [|lia]. cbn [andb] in H.
    rewrite (at_bisect AB c C' en W) in H by lia. cbn [Nat.pred] in H.
    rewrite nth_error_app_length in H. inversion H; subst. exists C'. auto.
Qed.

Lemma cut_shape (e2 : envR) s en : pwf e2 -> 0 <= s -> s <= en ->
  In s (pstarts R e2) -> In en (pstarts R e2) ->
  exists A B C, e2 = A ++ B ++ C /\ pdur R A = s /\ Forall (fun z => z < s) (pstarts_from R 0 A) /\
    pdur R B = en - s /\ B ++ C <> [] /\ (C = [] \/ exists c C', C = c :: C' /\ 0 < pd c).
Proof.
  intros W H0 H1 Is Ien.
  destruct (split_at_start s e2 0 W Is) as (A & R0 & E & Rn & Ed & Es). subst e2.
  rewrite Z.add_0_l in Ed.
  apply pwf_app in W. destruct W as [WA WR].
  unfold pstarts in Ien. rewrite pstarts_from_app in Ien. apply in_app_or in Ien.
  destruct Ien as [Ien|Ien].
  { exfalso. rewrite Forall_forall in Es. apply Es in Ien. lia. }
  destruct (split_at_end en R0 _ WR Ien) as (B & C & E1 & E2 & E3). subst R0.
  exists A, B, C. repeat split; try assumption. lia.
Qed.

Lemma cut_out_core (e2 : envR) s en lastp : pwf e2 -> 0 <= s -> s <= en ->
  In s (pstarts R e2) -> In en (pstarts R e2) -> lastp_of e2 en = Ok lastp ->
  let e' := p_cut_out R s en 0 e2 ++ [mkPt 0 (pv lastp) (pc lastp)] in
  (forall x, (0 < x <= tofR (en - s))%R -> curve e' x = curve e2 (tofR s + x)%R) /\
  (nojump e2 s -> curve e' 0%R = curve e2 (tofR s)).
Proof.
  intros W H0 H1 Is Ien HL.
  destruct (cut_shape e2 s en W H0 H1 Is Ien) as (A & B & C & E & EA & SA & EB & NBC & HC). subst e2.
  pose proof W as W'. apply pwf_app in W'. destruct W' as [WA W']. apply pwf_app in W'. destruct W' as [WB WC].
  assert (Ecut : p_cut_out R s en 0 (A ++ B ++ C) = B).
  { rewrite !p_cut_out_app. rewrite p_cut_out_before; [|exact WA|lia|exact SA].
    rewrite p_cut_out_mid; [|exact WB|lia|lia]. cbn [app].
    destruct HC as [HC|(c & C' & HC & Pc)]; subst C; [simpl; apply app_nil_r|].
    rewrite p_cut_out_after; [apply app_nil_r|exact WC|lia|lia|exact Pc]. }
  cbv zeta. rewrite Ecut. set (L := mkPt 0 (pv lastp) (pc lastp)).
  rewrite app_assoc in HL, W.
  assert (HAB : pdur R (A ++ B) = en) by (rewrite pdur_app; lia).
  destruct (lastp_spec (A ++ B) C en lastp W ltac:(lia) HAB HC HL) as [(C' & EC & Pc)|(EC & init & Ei)].
  - (* a point that lasts starts at en *)
    subst C. split.
    + intros x [Hx1 Hx2].
      assert (PB : 0 < pdur R B).
      { apply tofR_lt_inv. rewrite tofR_0. rewrite EB. lra. }
      assert (NB : B <> []) by (intros ->; simpl in PB; lia).
      rewrite curve_pos by exact Hx1.
      rewrite curve_pos by (pose proof (tofR_nonneg s H0); lra).
      rewrite <- EA.
      destruct B as [|b B]; [congruence|]. cbn [app].
      change (A ++ b :: B ++ lastp :: C') with (A ++ b :: (B ++ lastp :: C')).
      rewrite cg_skip_shift; [|exact WA|lra].
      change (curve_go 0 b (B ++ lastp :: C') x) with (cg 0 ((b :: B) ++ lastp :: C') x).
      change (b :: B ++ [L]) with ((b :: B) ++ [L]).
      destruct (Rlt_dec x (tofR (pdur R (b :: B)))) as [Lx|Lx].
      * apply cg_prefix; [discriminate|reflexivity|lra].
      * assert (Ex : x = (0 + tofR (pdur R (b :: B)))%R) by (rewrite EB in *; lra).
        rewrite !cg_skip; [|exact WB|lra|exact WB|lra]. rewrite Ex.
        rewrite (curve_go_at_start _ lastp C') by (left; exact Pc). reflexivity.
    + intros J. assert (V : fv 0 (A ++ B ++ lastp :: C') s = Some (pv (hd lastp B))).
      { destruct B as [|b B]; cbn [app hd]; apply fv_first; try assumption; apply notin_lt; exact SA. }
      apply J in V. rewrite <- V.
      destruct B as [|b B]; cbn [app hd]; [change (pv lastp) with (pv L)|]; apply curve_nonpos; lra.
  - (* en is the end of the envelope *)
    subst C. rewrite app_nil_r in *. split.
    + intros x [Hx1 Hx2].
      assert (PB : 0 < pdur R B).
      { apply tofR_lt_inv. rewrite tofR_0. rewrite EB. lra. }
      destruct B as [|l B'] using rev_ind; [simpl in PB; lia|]. clear IHB'.
      rewrite app_assoc in Ei. apply app_inj_tail in Ei. destruct Ei as [_ El]. subst l.
      rewrite curve_pos by exact Hx1.
      rewrite curve_pos by (pose proof (tofR_nonneg s H0); lra).
      rewrite <- EA.
      destruct (B' ++ [lastp]) as [|b B] eqn:EB'; [destruct B'; discriminate|].
      rewrite cg_skip_shift; [|exact WA|lra].
      change (curve_go 0 b B x) with (cg 0 (b :: B) x). rewrite <- EB'.
      rewrite <- app_assoc. cbn [app].
      apply cg_congr; [reflexivity|]. intros x'.
      rewrite curve_go_const; [reflexivity|]. constructor; [reflexivity|constructor].
    + intros J. destruct B as [|b B]; [congruence|].
      assert (V : fv 0 (A ++ b :: B) s = Some (pv b)).
      { apply fv_first; [apply notin_lt; exact SA|exact EA]. }
      apply J in V. rewrite <- V. cbn [app]. apply curve_nonpos; lra.
Qed.

(* STAGE 3a: the piece cut out reproduces the original from the piece's start on *)
Theorem cut_out_curve (e : envR) s en e' : pwf e -> 0 <= s -> s <= en ->
  env_cut_out R RNum e s en = Ok e' ->
  (forall x, (0 < x <= tofR (en - s))%R -> curve e' x = curve e (tofR s + x)%R) /\
  (nojump e s -> curve e' 0%R = curve e (tofR s)).
Proof.
  intros W H0 H1 H. unfold env_cut_out in H.
  destruct (sample_at R RNum e s (en - s)) as [e1|] eqn:E1; [|discriminate]. cbn [bind] in H.
  destruct (sample_at R RNum e1 en 0) as [e2|] eqn:E2; [|discriminate]. cbn [bind] in H.
  fold (lastp_of e2 en) in H.
  destruct (lastp_of e2 en) as [lastp|] eqn:EL; [|discriminate]. cbn [bind] in H.
  unfold check_time, check_start_end in H.
  destruct (Z.ltb_spec s 0); [discriminate|]. destruct (Z.ltb_spec en s); [discriminate|].
  cbn [bind] in H. inversion H; subst e'. clear H.
  pose proof (sample_samp e s (en - s) e1 W ltac:(lia) E1) as S1.
  pose proof (samp_pwf _ _ _ W S1) as W1.
  pose proof (sample_samp e1 en 0 e2 W1 ltac:(lia) E2) as S2.
  pose proof (samp_pwf _ _ _ W1 S2) as W2.
  assert (EC : forall x, curve e2 x = curve e x).
  { intros x. rewrite (samp_curve _ _ _ S2), (samp_curve _ _ _ S1). reflexivity. }
  assert (Is : In s (pstarts R e2)) by (apply (samp_starts_mono _ _ _ _ S2), (samp_in _ _ _ S1)).
  assert (Ien : In en (pstarts R e2)) by apply (samp_in _ _ _ S2).
  destruct (cut_out_core e2 s en lastp W2 H0 H1 Is Ien EL) as [P1 P2]. split.
  - intros x Hx. rewrite P1 by exact Hx. apply EC.
  - intros J. rewrite P2; [apply EC|]. apply (samp_nojump _ _ _ _ W1 S2), (samp_nojump _ _ _ _ W S1), J.
Qed.

(* ================================================================ 5. cut_off *)

Lemma cut_off_shape (e2 : envR) s en : pwf e2 -> 0 <= s -> s < en ->
  In s (pstarts R e2) -> In en (pstarts R e2) ->
  exists A B1 C1, e2 = A ++ B1 ++ C1 /\ pdur R A = s /\ Forall (fun z => z < s) (pstarts_from R 0 A) /\
    s + pdur R B1 = en /\ Forall (fun z => z < en) (pstarts_from R s B1) /\ B1 <> [] /\ C1 <> [].
Proof.
  intros W H0 H1 Is Ien.
  destruct (split_at_start s e2 0 W Is) as (A & R0 & E & Rn & Ed & Es). subst e2.
  rewrite Z.add_0_l in Ed.
  apply pwf_app in W. destruct W as [WA WR].
  unfold pstarts in Ien. rewrite pstarts_from_app in Ien. apply in_app_or in Ien.
  destruct Ien as [Ien|Ien].
  { exfalso. rewrite Forall_forall in Es. apply Es in Ien. lia. }
  rewrite Z.add_0_l, Ed in Ien.
  destruct (split_at_start en R0 s WR Ien) as (B1 & C1 & E1 & E2 & E3 & E4). subst R0.
  exists A, B1, C1. repeat split; try assumption.
  intros ->. simpl in E3. lia.
Qed.

Lemma cut_off_core (e2 : envR) s en v0 e' : pwf e2 -> 0 <= s -> s < en ->
  In s (pstarts R e2) -> In en (pstarts R e2) -> fv 0 e2 s = Some v0 ->
  p_squash R (p_cut_off R s en 0 e2) s (mkPt 0 v0 0%R) = Ok e' ->
  (forall x, (x < tofR s)%R -> curve e' x = curve e2 x) /\
  (forall x, (tofR s < x)%R -> curve e' x = curve e2 (x + tofR (en - s))%R).
Proof.
  intros W H0 H1 Is Ien Hv H.
  destruct (cut_off_shape e2 s en W H0 H1 Is Ien) as (A & B1 & C1 & E & EA & SA & EB & SB & NB & NC).
  subst e2.
  pose proof W as W'. apply pwf_app in W'. destruct W' as [WA W']. apply pwf_app in W'. destruct W' as [WB WC].
  assert (Ecut : p_cut_off R s en 0 (A ++ B1 ++ C1) = A ++ C1).
  { rewrite !p_cut_off_app. rewrite p_cut_off_before; [|exact WA|lia|lia|exact SA].
    rewrite Z.add_0_l, EA.
    rewrite p_cut_off_mid; [|exact WB|lia|lia|exact SB].
    rewrite p_cut_off_after; [reflexivity|exact WC|lia|lia]. }
  rewrite Ecut in H. set (N := mkPt 0 v0 0%R) in *.
  rewrite <- EA in H. rewrite squash_at_point in H;
    [|apply gwf_app; split; assumption|exact NC|reflexivity|rewrite EA; exact SA].
  inversion H; subst e'. clear H.
  pose proof (tofR_nonneg s H0) as S0.
  destruct B1 as [|b B1]; [congruence|]. destruct C1 as [|c1 C1]; [congruence|].
  assert (V : v0 = pv b).
  { assert (V : fv 0 (A ++ (b :: B1) ++ c1 :: C1) s = Some (pv b)).
    { cbn [app]. apply fv_first; [apply notin_lt; exact SA|exact EA]. }
    congruence. }
  split.
  - intros x Hx.
    destruct (Rle_dec x 0) as [Lx|Lx].
    + destruct A as [|a A].
      * cbn [app]. rewrite !curve_nonpos by exact Lx. cbn [pv N]. exact V.
      * cbn [app]. rewrite !curve_nonpos by exact Lx. reflexivity.
    + rewrite !curve_pos by lra. cbn [app].
      apply cg_prefix; [|cbn [pv N]; exact V|rewrite EA; lra].
      intros ->. simpl in EA. rewrite <- EA, tofR_0 in Hx. lra.
  - intros x Hx.
    rewrite !curve_pos by (pose proof (tofR_pos (en - s) ltac:(lia)); lra).
    rewrite cg_skip; [|exact WA|rewrite EA; lra].
    rewrite curve_go_ge; [|cbn [pd N]; rewrite tofR_0, EA; lra|discriminate].
    rewrite app_assoc. rewrite cg_skip; [|apply pwf_app; split; assumption|].
    2:{ rewrite pdur_app, tofR_plus, EA. replace (pdur R (b :: B1)) with (en - s) by lia. lra. }
    cbn [cg pd N].
    rewrite <- (curve_go_shift C1 c1 (0 + tofR (pdur R A) + tofR 0) x (tofR (en - s))).
    apply curve_go_t0. rewrite pdur_app, tofR_plus, tofR_0.
    replace (pdur R (b :: B1)) with (en - s) by lia. ring.
Qed.

(* STAGE 3b: cutting off [s, en) keeps what precedes s and shifts what follows en; the time s itself
   is a jump of the result (from the value of the first point at s to the value at en) *)
Theorem cut_off_curve (e : envR) s en e' : pwf e -> 0 <= s < en ->
  env_cut_off R RNum e s en = Ok e' ->
  (forall x, (x < tofR s)%R -> curve e' x = curve e x) /\
  (forall x, (tofR s < x)%R -> curve e' x = curve e (x + tofR (en - s))%R).
Proof.
  intros W [H0 H1] H. unfold env_cut_off in H.
  unfold check_time, check_start_end_strict in H.
  destruct (Z.ltb_spec s 0); [discriminate|]. destruct (Z.ltb_spec s en); [|discriminate].
  cbn [bind] in H.
  destruct (sample_at R RNum e s 0) as [e1|] eqn:E1; [|discriminate]. cbn [bind] in H.
  pose proof (sample_samp e s 0 e1 W ltac:(lia) E1) as S1.
  pose proof (samp_pwf _ _ _ W S1) as W1.
  destruct (index_of s (pstarts R e1)) as [k|] eqn:Ek; [|discriminate].
  destruct (nth_error e1 k) as [pk|] eqn:Enk; [|discriminate]. cbn [bind] in H.
  pose proof (fv_index e1 0 s k pk Ek Enk) as V1.
  destruct (sample_at R RNum e1 en 0) as [e2|] eqn:E2; [|discriminate]. cbn [bind] in H.
  pose proof (sample_samp e1 en 0 e2 W1 ltac:(lia) E2) as S2.
  pose proof (samp_pwf _ _ _ W1 S2) as W2.
  assert (EC : forall x, curve e2 x = curve e x).
  { intros x. rewrite (samp_curve _ _ _ S2), (samp_curve _ _ _ S1). reflexivity. }
  assert (Is : In s (pstarts R e2)) by (apply (samp_starts_mono _ _ _ _ S2), (samp_in _ _ _ S1)).
  assert (Ien : In en (pstarts R e2)) by apply (samp_in _ _ _ S2).
  pose proof (samp_fv_keep _ _ _ _ _ W1 S2 V1) as V2.
  destruct (cut_off_core e2 s en _ e' W2 H0 H1 Is Ien V2 H) as [P1 P2]. split.
  - intros x Hx. rewrite P1 by exact Hx. apply EC.
  - intros x Hx. rewrite P2 by exact Hx. apply EC.
Qed.

(* ================================================================ 6. the jump at s is necessary *)

Lemma sample_at_same (e : envR) t ap : 0 <= t -> In t (pstarts R e) -> sample_at R RNum e t ap = Ok e.
Proof.
  intros H0 I. assert (Ne : e <> []) by (intros ->; exact I).
  rewrite sample_at_body by exact Ne. unfold sample_body, check_time.
  destruct (Z.ltb_spec t 0); [lia|]. cbn [bind]. cbv zeta.
  apply memZ_In in I. rewrite I. reflexivity.
Qed.

(* control points 0 -> 1 at time 1 tick, a jump to 2 there, then 2 -> 3 *)
Definition jump_env : envR := [mkPt 1 0 0; mkPt 0 1 0; mkPt 1 2 0; mkPt 0 3 0]%R.

Lemma jump_env_wf : pwf jump_env.
Proof. repeat constructor; cbn; lia. Qed.

Lemma jump_env_at_1 : curve jump_env (tofR 1) = 2%R.
Proof.
  pose proof (tofR_pos 1 ltac:(lia)) as P.
  rewrite curve_pos by exact P.
  change jump_env with ([mkPt 1 0 0; mkPt 0 1 0]%R ++ mkPt 1 2 0 :: [mkPt 0 3 0])%R.
  rewrite cg_skip; [|repeat constructor; cbn; lia|cbn [pdur pd]; rewrite Z.add_0_r; lra].
  cbn [pdur pd]. rewrite Z.add_0_r. rewrite (curve_go_t0 (0 + tofR 1) (tofR 1)) by ring.
  rewrite curve_go_at_start by (left; cbn; lia). reflexivity.
Qed.

Theorem cut_out_jump_refuted : exists e s en e', pwf e /\ 0 <= s /\ s <= en /\
  env_cut_out R RNum e s en = Ok e' /\ curve e' 0%R <> curve e (tofR s).
Proof.
  exists jump_env, 1, 2, [mkPt 0 1 0; mkPt 1 2 0; mkPt 0 3 0; mkPt 0 3 0]%R.
  split; [exact jump_env_wf|]. split; [lia|]. split; [lia|]. split.
  - unfold env_cut_out.
    rewrite (sample_at_same jump_env 1) by (cbn; lia || tauto). cbn [bind].
    rewrite (sample_at_same jump_env 2) by (cbn; lia || tauto). cbn [bind].
    reflexivity.
  - rewrite jump_env_at_1. rewrite curve_nonpos by lra. cbn [pv]. lra.
Qed.

(* ================================================================ 7. envelopes without doubled points *)

(* every point but the last lasts: no jumps anywhere *)
Definition strict (e : envR) : Prop := forall A r R', e = A ++ r :: R' -> R' <> [] -> 0 < pd r.

Lemma nojump_strict (e : envR) s : pwf e -> strict e -> nojump e s.
Proof.
  intros W St v V. apply fv_some' in V. destruct V as (A & r & R' & E & Ed & Ev). subst e v.
  rewrite Z.add_0_l in Ed.
  pose proof W as W'. apply pwf_app in W'. destruct W' as [WA WR].
  assert (Hr : 0 < pd r \/ R' = []).
  { destruct R' as [|q R']; [right; reflexivity|left]. apply (St A r (q :: R')); [reflexivity|discriminate]. }
  destruct A as [|a A].
  - simpl in Ed. subst s. rewrite tofR_0. cbn [app]. rewrite curve_nonpos; [reflexivity|lra].
  - assert (Pa : 0 < pd a).
    { apply (St [] a (A ++ r :: R')); [reflexivity|destruct A; discriminate]. }
    apply pwf_cons in WA. destruct WA as [_ WA']. pose proof (pdur_nonneg _ WA').
    simpl in Ed.
    rewrite curve_pos by (apply tofR_pos; lia).
    rewrite cg_skip; [|apply pwf_cons; split; [lia|exact WA']|simpl pdur; rewrite Ed; lra].
    simpl pdur. rewrite Ed. rewrite (curve_go_t0 (0 + tofR s) (tofR s)) by ring.
    rewrite curve_go_at_start by exact Hr. reflexivity.
Qed.

(* ================================================================ 8. the operations do not fail *)

Lemma index_of_in' t l : In t l -> exists i, index_of t l = Some i /\ (i < length l)%nat.
Proof.
  induction l as [|y l IH]; simpl; intros H; [tauto|].
  destruct (Z.eqb_spec t y).
  - exists 0%nat. split; [reflexivity|lia].
  - destruct H as [H|H]; [congruence|]. destruct (IH H) as (i & E & L). rewrite E. simpl.
    exists (S i). split; [reflexivity|lia].
Qed.

Lemma lastp_total (e2 : envR) en : pwf e2 -> 0 <= en -> In en (pstarts R e2) ->
  exists lp, lastp_of e2 en = Ok lp.
Proof.
  intros W H0 I. destruct (split_at_end en e2 0 W I) as (B & C & E & Ed & HC). subst e2.
  rewrite Z.add_0_l in Ed. unfold lastp_of.
  destruct HC as [HC|(c & C' & HC & Pc)]; subst C.
  - rewrite app_nil_r in *. unfold pindex_at, index_at_from.
    destruct (Z.ltb_spec en (pdur R B)); [lia|]. cbn [andb].
    destruct B as [|a B'] using rev_ind; [simpl in I; tauto|]. rewrite rev_unit. eexists; reflexivity.
  - pose proof W as W'. apply pwf_app in W'. destruct W' as [W1 W2].
    apply pwf_cons in W2. destruct W2 as [Wc W2]. pose proof (pdur_nonneg _ W2).
    unfold pindex_at, index_at_from. rewrite pdur_app. cbn [pdur].
    destruct (Z.ltb_spec en (pdur R B + (pd c + pdur R C'))); [|lia].
    destruct (Z.leb_spec 0 en); [|lia]. cbn [andb].
    rewrite (at_bisect B c C' en W) by lia. cbn [Nat.pred].
    rewrite nth_error_app_length. eexists; reflexivity.
Qed.

Theorem cut_out_total (e : envR) s en : pwf e -> e <> [] -> 0 <= s -> s <= en ->
  exists e', env_cut_out R RNum e s en = Ok e'.
Proof.
  intros W Ne H0 H1. unfold env_cut_out.
  destruct (sample_total e s (en - s) W Ne H0 ltac:(lia)) as [e1 E1]. rewrite E1. cbn [bind].
  pose proof (sample_samp e s (en - s) e1 W ltac:(lia) E1) as S1.
  pose proof (samp_pwf _ _ _ W S1) as W1.
  assert (N1 : e1 <> []). { pose proof (samp_in _ _ _ S1) as I. intros ->. exact I. }
  destruct (sample_total e1 en 0 W1 N1 ltac:(lia) ltac:(lia)) as [e2 E2]. rewrite E2. cbn [bind].
  pose proof (sample_samp e1 en 0 e2 W1 ltac:(lia) E2) as S2.
  pose proof (samp_pwf _ _ _ W1 S2) as W2.
  fold (lastp_of e2 en).
  destruct (lastp_total e2 en W2 ltac:(lia) (samp_in _ _ _ S2)) as [lp El]. rewrite El. cbn [bind].
  unfold check_time, check_start_end.
  destruct (Z.ltb_spec s 0); [lia|]. destruct (Z.ltb_spec en s); [lia|]. cbn [bind].
  eexists; reflexivity.
Qed.

Theorem cut_off_total (e : envR) s en : pwf e -> e <> [] -> 0 <= s < en ->
  exists e', env_cut_off R RNum e s en = Ok e'.
Proof.
  intros W Ne [H0 H1]. unfold env_cut_off, check_time, check_start_end_strict.
  destruct (Z.ltb_spec s 0); [lia|]. destruct (Z.ltb_spec s en); [|lia]. cbn [bind].
  destruct (sample_total e s 0 W Ne H0 ltac:(lia)) as [e1 E1]. rewrite E1. cbn [bind].
  pose proof (sample_samp e s 0 e1 W ltac:(lia) E1) as S1.
  pose proof (samp_pwf _ _ _ W S1) as W1.
  pose proof (samp_in _ _ _ S1) as I1.
  assert (N1 : e1 <> []) by (intros ->; exact I1).
  destruct (index_of_in' s (pstarts R e1) I1) as (k & Ek & Lk). rewrite Ek.
  unfold pstarts in Lk. rewrite pstarts_from_length in Lk.
  destruct (nth_error e1 k) as [pk|] eqn:Enk; [|apply nth_error_None in Enk; lia]. cbn [bind].
  destruct (sample_total e1 en 0 W1 N1 ltac:(lia) ltac:(lia)) as [e2 E2]. rewrite E2. cbn [bind].
  pose proof (sample_samp e1 en 0 e2 W1 ltac:(lia) E2) as S2.
  pose proof (samp_pwf _ _ _ W1 S2) as W2.
  assert (Is : In s (pstarts R e2)) by (apply (samp_starts_mono _ _ _ _ S2), I1).
  assert (Ien : In en (pstarts R e2)) by apply (samp_in _ _ _ S2).
  destruct (cut_off_shape e2 s en W2 H0 H1 Is Ien) as (A & B1 & C1 & E & EA & SA & EB & SB & NB & NC).
  subst e2.
  pose proof W2 as W'. apply pwf_app in W'. destruct W' as [WA W']. apply pwf_app in W'. destruct W' as [WB WC].
  assert (Ecut : p_cut_off R s en 0 (A ++ B1 ++ C1) = A ++ C1).
  { rewrite !p_cut_off_app. rewrite p_cut_off_before; [|exact WA|lia|lia|exact SA].
    rewrite Z.add_0_l, EA.
    rewrite p_cut_off_mid; [|exact WB|lia|lia|exact SB].
    rewrite p_cut_off_after; [reflexivity|exact WC|lia|lia]. }
  rewrite Ecut. rewrite <- EA. rewrite squash_at_point;
    [eexists; reflexivity|apply gwf_app; split; assumption|exact NC|reflexivity|rewrite EA; exact SA].
Qed.

Print Assumptions cut_out_curve.
Print Assumptions cut_off_curve.
Print Assumptions cut_out_jump_refuted.
Print Assumptions cut_out_total.
Print Assumptions cut_off_total.
