(* The loop of Consecution.split_at: one iteration, and runs over times inside the event. *)
From Coq Require Import ZArith List Bool Lia ZifyBool Arith Permutation.
From MV Require Import Base.Res Model.EventTree Model.TreeOps Proofs.TreeLemmas Proofs.CutOut
  Proofs.SplitBase Proofs.SplitSingle Proofs.SplitSort.
Import ListNotations.
Open Scope Z_scope.

(* the start-time list after replacing a child by its two parts is the old one with t inserted *)
Lemma insert_starts A ch B p0 p1 t : forall t0, wfs (A ++ ch :: B) ->
  t0 + dsum A < t < t0 + dsum A + dur ch -> dur p0 = t - (t0 + dsum A) -> dur p0 + dur p1 = dur ch ->
  starts_from t0 (A ++ p0 :: p1 :: B) = insert_sorted t (starts_from t0 (A ++ ch :: B)).
Proof.
  induction A as [|a A IH]; intros t0 Hwf Ht D0 D1.
  - simpl app in *. change (dsum []) with 0 in *. destruct Hwf as [Wc WB]. cbn [starts_from].
    cbn [insert_sorted]. destruct (t <? t0) eqn:E; [lia|]. f_equal.
    rewrite insert_sorted_front.
    + f_equal; [lia|]. f_equal. lia.
    + intros y Hy. apply starts_from_ge in Hy; [lia|assumption].
  - simpl app in *. destruct Hwf as [Wa Hwf]. rewrite dsum_cons in *. pose proof (dur_nonneg a Wa).
    pose proof (dsum_nonneg A (proj1 (proj1 (wfs_app _ _) Hwf))).
    cbn [starts_from insert_sorted]. destruct (t <? t0) eqn:E; [lia|]. f_equal. apply IH; auto; lia.
Qed.

Section Loop.
  Variable rec : ev -> list Z -> bool -> res (list ev).
  Variable n : nat.
  Hypothesis Hrec : rec_ok n rec.

  Definition good (durf : Z) (c : list ev) : Prop := wfs c /\ (hmax c <= n)%nat /\ dsum c = durf.

  Lemma core_step durf c t : good durf c -> 0 <= t -> t < durf -> ~ In t (starts c) ->
    exists c' i, split_child_core rec c t (starts c) durf = Ok (c', i) /\ core_ok c t c' i /\ good durf c' /\
                 starts c' = insert_sorted t (starts c).
  Proof.
    intros (Hw & Hh & Hd) Ht Hlt Hnin. subst durf.
    destruct (split_child_core_spec rec n Hrec c t Hh Hw Ht) as [_ H2].
    destruct (H2 Hlt) as (c' & i & E & Hok). exists c', i. split; [exact E|]. split; [exact Hok|].
    destruct (split_child_core_struct rec n Hrec c t Hh Hw Ht) as [_ H3].
    destruct (H3 Hlt) as (c'' & i' & E' & Hst). rewrite E in E'. inversion E'; subst c'' i'; clear E'.
    pose proof Hok as (G1 & G2 & G3 & G4 & _).
    split; [repeat split; auto; lia|].
    destruct Hst as [[-> Hn]|(A & ch & B & p0 & p1 & -> & -> & -> & Hr & Hins)].
    - exfalso. apply Hnin. eapply nth_error_In; eauto.
    - destruct Hins as (D0 & D1 & _). unfold starts. apply insert_starts; auto; lia.
  Qed.

  (* one iteration of the loop *)
  Lemma loop_step ign durf t r c idx : good durf c -> 0 <= t ->
    (exists i, nth_error (starts c) i = Some t /\
        seq_split_loop rec ign false durf (t :: r) c (starts c) idx = seq_split_loop rec ign false durf r c (starts c) (idx ++ [i]))
    \/ (~ In t (starts c) /\ t = durf /\
        seq_split_loop rec ign false durf (t :: r) c (starts c) idx = seq_split_loop rec ign false durf r c (starts c) idx)
    \/ (~ In t (starts c) /\ t < durf /\ exists c' i, core_ok c t c' i /\ good durf c' /\
        seq_split_loop rec ign false durf (t :: r) c (starts c) idx = seq_split_loop rec ign false durf r c' (starts c') (idx ++ [i]))
    \/ (durf < t /\ seq_split_loop rec ign false durf (t :: r) c (starts c) idx = if ign then Ok (c, idx) else Err ESplitError).
  Proof.
    intros Hg Ht. rewrite seq_loop_cons. cbn [bind].
    destruct (index_of t (starts c)) as [i|] eqn:Eidx.
    - left. exists i. split; [apply index_of_some; assumption|reflexivity].
    - right. pose proof (index_of_none _ _ Eidx) as Hnin.
      destruct (t =? durf) eqn:Etd; [left; repeat split; auto; lia|]. right.
      destruct (t <? durf) eqn:Elt.
      + left. destruct (core_step durf c t Hg Ht ltac:(lia) Hnin) as (c' & i & E & Hok & Hg' & Hst).
        split; [assumption|]. split; [lia|]. exists c', i. rewrite E, Hst. auto.
      + right. split; [lia|]. destruct Hg as (Hw & Hh & Hd). subst durf.
        destruct (split_child_core_spec rec n Hrec c t Hh Hw Ht) as [H1 _]. rewrite (H1 ltac:(lia)). reflexivity.
  Qed.

  Lemma loop_first ign durf t r c abl idx : 0 <= t ->
    seq_split_loop rec ign true durf (t :: r) c abl idx = seq_split_loop rec ign false durf (t :: r) c abl idx.
  Proof. intros Ht. rewrite !seq_loop_cons. rewrite check_time_ok by assumption. reflexivity. Qed.
  Lemma loop_first' ign durf sl c abl idx : (forall t, In t sl -> 0 <= t) ->
    seq_split_loop rec ign true durf sl c abl idx = seq_split_loop rec ign false durf sl c abl idx.
  Proof. destruct sl as [|t r]; [reflexivity|]. intros H. apply loop_first. apply H. left. reflexivity. Qed.

  (* times inside the event never make the loop fail *)
  Lemma loop_inrange ign durf sl : forall rest c idx, good durf c -> (forall t, In t sl -> 0 <= t <= durf) ->
    exists c' idx', good durf c' /\
      seq_split_loop rec ign false durf (sl ++ rest) c (starts c) idx = seq_split_loop rec ign false durf rest c' (starts c') idx'.
  Proof.
    induction sl as [|t r IH]; intros rest c idx Hg Hin; [exists c, idx; auto|].
    assert (Ht : 0 <= t <= durf) by (apply Hin; left; reflexivity).
    assert (Hr : forall t', In t' r -> 0 <= t' <= durf) by (intros; apply Hin; right; assumption).
    simpl app.
    destruct (loop_step ign durf t (r ++ rest) c idx Hg ltac:(lia)) as [(i & _ & E)|[(_ & _ & E)|[(_ & _ & c' & i & _ & Hg' & E)|(Hlt & _)]]].
    - rewrite E. apply IH; assumption.
    - rewrite E. apply IH; assumption.
    - rewrite E. apply IH; assumption.
    - lia.
  Qed.

  Lemma first_beyond (D : Z) (sl : list Z) : (exists t, In t sl /\ D < t) ->
    exists sl1 t sl2, sl = sl1 ++ t :: sl2 /\ (forall x, In x sl1 -> x <= D) /\ D < t.
  Proof.
    induction sl as [|y sl IH]; intros (t & Hin & Ht); [destruct Hin|].
    destruct (D <? y) eqn:E.
    - exists [], y, sl. split; [reflexivity|]. split; [intros x []|lia].
    - destruct Hin as [->|Hin]; [lia|]. destruct (IH (ex_intro _ t (conj Hin Ht))) as (sl1 & t' & sl2 & -> & H1 & H2).
      exists (y :: sl1), t', sl2. split; [reflexivity|]. split; [|assumption]. intros x [<-|Hx]; [lia|auto].
  Qed.

  Lemma seq_beyond m cs ts : (hmax cs <= n)%nat -> wfs cs -> (forall t, In t ts -> 0 <= t) ->
    (exists t, In t ts /\ dsum cs < t) -> seq_split rec m cs ts false = Err ESplitError.
  Proof.
    intros Hh Hw Hnn Hex. assert (ts <> []) by (destruct Hex as (t & Hin & _); destruct ts; [destruct Hin|congruence]).
    rewrite seq_split_unfold by assumption.
    assert (Hnn' : forall t, In t (sortZ ts) -> 0 <= t) by (intros t Ht; apply Hnn, sortZ_In; assumption).
    rewrite loop_first' by assumption.
    destruct (first_beyond (dsum cs) (sortZ ts)) as (sl1 & t & sl2 & Esl & H1 & H2).
    { destruct Hex as (t & Hin & Ht). exists t. split; [apply sortZ_In; assumption|assumption]. }
    rewrite Esl in *.
    assert (Hg : good (dsum cs) cs) by (repeat split; auto).
    destruct (loop_inrange false (dsum cs) sl1 (t :: sl2) cs [] Hg) as (c' & idx' & Hg' & E).
    { intros x Hx. split; [apply Hnn', in_or_app; left; assumption|apply H1; assumption]. }
    rewrite E.
    destruct (loop_step false (dsum cs) t sl2 c' idx' Hg' ltac:(apply Hnn', in_or_app; right; left; reflexivity))
      as [(i & Hn & _)|[(_ & Ht & _)|[(_ & Ht & _)|(_ & E2)]]]; try lia.
    - apply starts_nth_inv in Hn. destruct Hn as [_ Hn]. destruct Hg' as (Hw' & _ & Hd').
      pose proof (dsum_firstn_le i c' Hw'). lia.
    - rewrite E2. reflexivity.
  Qed.
End Loop.
