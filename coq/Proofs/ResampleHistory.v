(* Histories of point insertions: any sequence of sample_at / extend_until edits on one envelope leaves the curve
   unchanged at every time, keeps it well formed, and the last edit's time is a control point afterwards. *)
From Coq Require Import ZArith List Bool Reals Lia.
From MV Require Import Base.Res Model.EventTree Model.TreeOps Model.Num Model.Envelope Proofs.RNum Proofs.Resample.
Import ListNotations.
Open Scope Z_scope.

Inductive eop := OSample (t ap : Z) | OExtend (d : Z).
Definition run_eop (e : envR) (o : eop) : res envR :=
  match o with
  | OSample t ap => sample_at R RNum e t ap
  | OExtend d => env_extend_until R RNum e d
  end.
Fixpoint run_eops (e : envR) (l : list eop) : res envR :=
  match l with [] => Ok e | o :: r => match run_eop e o with Ok e' => run_eops e' r | Err k => Err k end end.
Definition eop_ok (o : eop) : Prop := match o with OSample _ ap => 0 <= ap | OExtend _ => True end.
Definition eop_time (o : eop) : Z := match o with OSample t _ => t | OExtend d => d end.

Lemma run_eop_curve e o e' : pwf e -> eop_ok o -> run_eop e o = Ok e' ->
  pwf e' /\ (forall x : R, curve e' x = curve e x) /\ In (eop_time o) (pstarts R e').
Proof.
  destruct o as [t ap|d]; cbn [run_eop eop_ok eop_time]; intros Hwf Hok H.
  - exact (sample_curve e t ap e' Hwf Hok H).
  - exact (extend_curve e d e' Hwf H).
Qed.

Theorem history_keeps_curve : forall (l : list eop) (e e' : envR),
  pwf e -> Forall eop_ok l -> run_eops e l = Ok e' ->
  pwf e' /\ (forall x : R, curve e' x = curve e x).
Proof.
  induction l as [|o r IH]; intros e e' Hwf Hok H; cbn [run_eops] in H.
  - injection H as <-. split; [exact Hwf|reflexivity].
  - destruct (run_eop e o) as [e1|k] eqn:E; [|discriminate].
    inversion Hok as [|? ? Ho Hr]; subst.
    destruct (run_eop_curve e o e1 Hwf Ho E) as (Hwf1 & Hc1 & _).
    destruct (IH e1 e' Hwf1 Hr H) as (Hwf' & Hc').
    split; [exact Hwf'|]. intro x. rewrite Hc'. apply Hc1.
Qed.

(* the point asked for last is there at the end *)
Theorem history_last_point : forall (l : list eop) (o : eop) (e e' : envR),
  pwf e -> Forall eop_ok (l ++ [o]) -> run_eops e (l ++ [o]) = Ok e' -> In (eop_time o) (pstarts R e').
Proof.
  induction l as [|o1 r IH]; intros o e e' Hwf Hok H; cbn [app run_eops] in H.
  - destruct (run_eop e o) as [e1|k] eqn:E; [|discriminate]. injection H as <-.
    inversion Hok as [|? ? Ho Hr]; subst.
    exact (proj2 (proj2 (run_eop_curve e o e1 Hwf Ho E))).
  - destruct (run_eop e o1) as [e1|k] eqn:E; [|discriminate].
    cbn [app] in Hok. inversion Hok as [|? ? Ho Hr]; subst.
    destruct (run_eop_curve e o1 e1 Hwf Ho E) as (Hwf1 & _ & _).
    exact (IH o e1 e' Hwf1 Hr H).
Qed.
