(* The real-number instance of the abstract number type, and the real-time curve of an envelope
   (the specification the envelope theorems are stated against). *)
From Coq Require Import ZArith List Bool Reals Lra Lia.
From MV Require Import Base.Res Model.EventTree Model.TreeOps Model.Num Model.Envelope.
Import ListNotations.

Definition RNum : Num R := {|
  n0 := 0%R; n1 := 1%R;
  nadd := Rplus; nsub := Rminus; nmul := Rmult; ndiv := Rdiv; nexp := exp;
  nleb := fun a b => if Rle_dec a b then true else false;
  nltb := fun a b => if Rlt_dec a b then true else false;
  neqb := fun a b => if Req_EM_T a b then true else false;
  nint := IZR;
  tround := fun x => x |}.

Notation envR := (env R).
Notation ptR := (pt R).

(* ticks as beats over the reals *)
Definition tofR (z : Z) : R := (IZR z / IZR ticks_per_beat)%R.

(* the documented segment curve over normalised time p in [0, 1] *)
Definition segR (v0 v1 c p : R) : R :=
  if Req_EM_T c 0 then (v0 + (v1 - v0) * p)%R
  else (v0 + (v1 - v0) / (exp c - 1) * (exp (c * p) - 1))%R.

(* the curve of an envelope over real time x (in beats): first value up to time 0, last value from
   the start of the last event on, the segment curve in between *)
Fixpoint curve_go (t0 : R) (p : ptR) (rest : envR) (x : R) : R :=
  match rest with
  | [] => pv p
  | q :: rest' =>
    let t1 := (t0 + tofR (pd p))%R in
    if Rlt_dec x t1 then segR (pv p) (pv q) (pc p) ((x - t0) / (t1 - t0))
    else curve_go t1 q rest' x
  end.
Definition curve (e : envR) (x : R) : R :=
  match e with
  | [] => 0%R
  | p :: rest => if Rle_dec x 0 then pv p else curve_go 0 p rest x
  end.

(* well-formed envelope: no negative duration *)
Definition pwf (e : envR) : Prop := Forall (fun p : ptR => (0 <= pd p)%Z) e.

Lemma tofR_ticks_pos : (0 < IZR ticks_per_beat)%R.
Proof. unfold ticks_per_beat. apply IZR_lt. lia. Qed.
Lemma tofR_0 : tofR 0 = 0%R.
Proof. unfold tofR. unfold Rdiv. rewrite Rmult_0_l. reflexivity. Qed.
Lemma tofR_plus a b : tofR (a + b) = (tofR a + tofR b)%R.
Proof. unfold tofR. rewrite plus_IZR. pose proof tofR_ticks_pos. field. lra. Qed.
Lemma tofR_minus a b : tofR (a - b) = (tofR a - tofR b)%R.
Proof. unfold tofR. rewrite minus_IZR. pose proof tofR_ticks_pos. field. lra. Qed.
Lemma tofR_le a b : (a <= b)%Z -> (tofR a <= tofR b)%R.
Proof. intros H. unfold tofR. pose proof tofR_ticks_pos. apply Rmult_le_compat_r; [left; apply Rinv_0_lt_compat; lra|apply IZR_le; exact H]. Qed.
Lemma tofR_lt a b : (a < b)%Z -> (tofR a < tofR b)%R.
Proof. intros H. unfold tofR. pose proof tofR_ticks_pos. apply Rmult_lt_compat_r; [apply Rinv_0_lt_compat; lra|apply IZR_lt; exact H]. Qed.
Lemma tofR_lt_inv a b : (tofR a < tofR b)%R -> (a < b)%Z.
Proof. intros H. destruct (Z_lt_le_dec a b) as [L|L]; [exact L|]. apply tofR_le in L. lra. Qed.
Lemma tofR_le_inv a b : (tofR a <= tofR b)%R -> (a <= b)%Z.
Proof. intros H. destruct (Z_le_gt_dec a b) as [L|L]; [exact L|]. apply Z.gt_lt in L. apply tofR_lt in L. lra. Qed.
Lemma tof_RNum z : tof R RNum z = tofR z.
Proof. reflexivity. Qed.
