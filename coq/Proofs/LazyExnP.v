(* The lazy cache around a partial function: every call returns (or raises) what the bare function does, a raising call
   leaves no trace, and the answers to the other calls are those of the history without the raising calls. *)
From Coq Require Import List Bool.
From MV Require Import Model.Tools Model.LazyExn.
Import ListNotations.

Section LazyExnP.
  Variables A B : Type.
  Variable aeqb : A -> A -> bool.
  Hypothesis aeqb_spec : forall x y, aeqb x y = true <-> x = y.
  Variable f : A -> option B.

  (* the file is absent or holds the value of a call that returned *)
  Definition consistent_x (st : lstate A B) : Prop := st = None \/ exists a v, f a = Some v /\ st = Some (v, a).

  Lemma lazy_call_x_spec force st a : consistent_x st ->
    fst (fst (lazy_call_x A B aeqb f force st a)) = f a /\
    consistent_x (snd (fst (lazy_call_x A B aeqb f force st a))) /\
    (f a = None -> snd (fst (lazy_call_x A B aeqb f force st a)) = st).
  Proof.
    intros C. unfold lazy_call_x. destruct C as [->|(p & v & Hp & ->)].
    - destruct (f a) as [w|] eqn:E; cbn [fst snd].
      + split; [reflexivity|]. split; [right; exists a, w; split; [exact E|reflexivity]|discriminate].
      + split; [reflexivity|]. split; [left; reflexivity|reflexivity].
    - destruct (negb (aeqb p a) || force) eqn:G.
      + destruct (f a) as [w|] eqn:E; cbn [fst snd].
        * split; [reflexivity|]. split; [right; exists a, w; split; [exact E|reflexivity]|discriminate].
        * split; [reflexivity|]. split; [right; exists p, v; split; [exact Hp|reflexivity]|reflexivity].
      + apply orb_false_iff in G. destruct G as [G _]. apply negb_false_iff in G. apply aeqb_spec in G. subst p.
        cbn [fst snd]. split; [symmetry; exact Hp|]. split; [right; exists a, v; split; [exact Hp|reflexivity]|reflexivity].
  Qed.

  (* every call of every history returns - or raises - what the bare function does for its arguments *)
  Theorem lazy_x_returns_f : forall force st calls, consistent_x st ->
    map fst (lazy_run_x A B aeqb f force st calls) = map f calls.
  Proof.
    intros force st calls. revert st. induction calls as [|a r IH]; intros st C; [reflexivity|].
    destruct (lazy_call_x_spec force st a C) as (Hv & Hc & _).
    cbn [lazy_run_x]. destruct (lazy_call_x A B aeqb f force st a) as [[v st'] ran]. cbn [fst snd] in Hv, Hc.
    cbn [map fst]. rewrite Hv, (IH st' Hc). reflexivity.
  Qed.

  (* a call in which the function raises leaves the file as it was *)
  Theorem lazy_x_raise_keeps_file force st a : consistent_x st -> f a = None ->
    snd (fst (lazy_call_x A B aeqb f force st a)) = st.
  Proof. intros C E. destruct (lazy_call_x_spec force st a C) as (_ & _ & H). exact (H E). Qed.

  (* ---- the history without the raising calls *)
  Variable g : A -> B.
  Hypothesis f_g : forall a v, f a = Some v -> v = g a.
  Definition returns (a : A) : bool := match f a with Some _ => true | None => false end.
  Definition answered (l : list (option B * bool)) : list (B * bool) :=
    flat_map (fun x => match fst x with Some v => [(v, snd x)] | None => [] end) l.

  Theorem lazy_x_as_without_raising_calls : forall force st calls, consistent_x st ->
    answered (lazy_run_x A B aeqb f force st calls) = lazy_run A B aeqb g force st (filter returns calls).
  Proof.
    intros force st calls. revert st. induction calls as [|a r IH]; intros st C; [reflexivity|].
    destruct (lazy_call_x_spec force st a C) as (Hv & Hc & Hk).
    cbn [lazy_run_x filter]. unfold returns at 1.
    destruct (f a) as [w|] eqn:E.
    - (* the call returns: same step as the total cache *)
      assert (Ew : w = g a) by (apply f_g; exact E).
      assert (Step : lazy_call_x A B aeqb f force st a =
                     (let '(v, st', ran) := lazy_call A B aeqb g force st a in (Some v, st', ran))).
      { unfold lazy_call_x, lazy_call. rewrite E, <- Ew.
        destruct st as [[r0 p]|]; [|reflexivity]. destruct (negb (aeqb p a) || force); reflexivity. }
      rewrite Step. cbn [lazy_run].
      destruct (lazy_call A B aeqb g force st a) as [[v st'] ran] eqn:L.
      cbn [answered flat_map fst snd app]. f_equal.
      apply IH. rewrite Step in Hc. cbn [fst snd] in Hc. exact Hc.
    - (* the call raises: no answer, the file is untouched *)
      specialize (Hk eq_refl).
      destruct (lazy_call_x A B aeqb f force st a) as [[v st'] ran]. cbn [fst snd] in Hv, Hk. subst v st'.
      cbn [answered flat_map fst app]. apply IH. exact C.
  Qed.
End LazyExnP.

Example lazy_x_ex :
  lazy_run_x nat nat Nat.eqb (fun x => if Nat.eqb x 9 then None else Some (x * x)) false None [2; 9; 2; 3; 9; 3] =
  [(Some 4, true); (None, true); (Some 4, false); (Some 9, true); (None, true); (Some 9, false)].
Proof. reflexivity. Qed.

Print Assumptions lazy_x_returns_f.
Print Assumptions lazy_x_raise_keeps_file.
Print Assumptions lazy_x_as_without_raising_calls.
