(* Concurrence.concatenate_by_index / concatenate_by_tag (content part):
   voice by voice joining of two simultaneities on the time axis.
   Common well-behaved case: every voice of both operands is a sequence. *)
From Coq Require Import ZArith List Bool Lia ZifyBool Arith.
From MV Require Import Base.Res Model.EventTree Model.TreeOps Proofs.TreeLemmas Proofs.Extend Proofs.Access.
Import ListNotations.
Open Scope Z_scope.

Definition is_seq (e : ev) : bool := match e with Seq _ _ => true | _ => false end.

(* ================================================================ unfolding *)
(* the inner loop of concat_fuel with identical binder structure; n' is the fuel of the recursive calls,
   d the duration of the receiver before the call *)
Definition cat_go (n' : nat) (by_tag : bool) (d : Z) :=
  fix go (i : nat) (cur : list ev) (os : list ev) : (list ev * option err) :=
         match os with
         | [] => (cur, None)
         | e :: r =>
           if by_tag && (tag (meta_of e) =? 0) then (cur, Some ENoTag) else
           let anc_i := if by_tag then first_with_tag (tag (meta_of e)) 0%nat cur
                        else (if Nat.ltb i (length cur) then Some i else None) in
           match anc_i with
           | None =>
             match (if 0 <? d then pad_front e d else Ok e) with
             | Err k => (cur, Some k)
             | Ok e' => go (S i) (cur ++ [e']) r
             end
           | Some j =>
             match nth_error cur j with
             | None => (cur, Some EIndexError)
             | Some (Leaf _ _) => (cur, Some EConcatenation)
             | Some (Seq ma acs) =>
               match e with
               | Leaf _ _ => (cur, Some ETypeError)
               | _ => go (S i) (replace_at j (Seq ma (acs ++ children e)) cur) r
               end
             | Some (Sim ma acs) =>
               match e with
               | Leaf _ _ => (cur, Some ETypeError)
               | _ =>
                 let '(acs1, er1) := concat_fuel n' true ma acs (children e) in
                 match er1 with
                 | None => go (S i) (replace_at j (Sim ma acs1) cur) r
                 | Some ENoTag =>
                   let '(acs2, er2) := concat_fuel n' false ma acs1 (children e) in
                   match er2 with
                   | None => go (S i) (replace_at j (Sim ma acs2) cur) r
                   | Some k => (replace_at j (Sim ma acs2) cur, Some k)
                   end
                 | Some k => (replace_at j (Sim ma acs1) cur, Some k)
                 end
               end
             end
           end
         end.

Lemma concat_fuel_S n' bt m cs os : concat_fuel (S n') bt m cs os =
  match pre_extend m cs with
  | Err k => (cs, Some k)
  | Ok cs0 => cat_go n' bt (dmax cs) 0%nat cs0 os
  end.
Proof. reflexivity. Qed.

Lemma cat_go_nil n' bt d i cur : cat_go n' bt d i cur [] = (cur, None).
Proof. reflexivity. Qed.

Lemma concatenate_sim bt m cs m2 os : concatenate bt (Sim m cs) (Sim m2 os) =
  match concat_fuel (S (height (Sim m cs))) bt m cs os with
  | (r, None) => Ok (Sim m r)
  | (_, Some k) => Err k
  end.
Proof. reflexivity. Qed.

Lemma pad_front_seq mo lo d : pad_front (Seq mo lo) d = Ok (Seq mo (Leaf d rest_label :: lo)).
Proof. reflexivity. Qed.

(* ================================================================ A1. pre_extend *)
(* a sequence voice padded with rest up to d *)
Definition padv (d : Z) (e : ev) : ev := match e with Seq m l => Seq m (padded l d) | _ => e end.

Lemma padded_short l d : wfs l -> d <= 0 -> padded l d = l.
Proof. intros H Hd. pose proof (dsum_nonneg l H). unfold padded. destruct (dsum l <? d) eqn:E; [lia|reflexivity]. Qed.

Lemma ext_sim_seqs d cs : Forall (fun e => is_seq e = true) cs -> ext_sim true d cs = Ok (map (padv d) cs).
Proof.
  induction 1 as [|c r Hc Hr IH]; [reflexivity|]. rewrite ext_sim_cons, IH.
  destruct c as [|mc l|]; try discriminate. cbn [ext_child]. rewrite extend_seq_padded. reflexivity.
Qed.

Lemma padv_short cs d : wfs cs -> d <= 0 -> map (padv d) cs = cs.
Proof.
  intros H Hd. induction cs as [|c r IH]; [reflexivity|]. destruct H as [Hc Hr]. cbn [map]. rewrite IH by exact Hr.
  f_equal. destruct c as [|mc l|]; try reflexivity. cbn [padv]. rewrite padded_short; auto.
Qed.

Theorem pre_extend_map m cs : wfs cs -> Forall (fun e => is_seq e = true) cs ->
  pre_extend m cs = Ok (map (padv (dmax cs)) cs).
Proof.
  intros Hw Hs. unfold pre_extend. destruct (0 <? dmax cs) eqn:E.
  - rewrite extend_sim_unfold. destruct cs as [|c r]; [cbn [dmax] in E; lia|].
    rewrite ext_sim_seqs by exact Hs. reflexivity.
  - rewrite padv_short; auto. lia.
Qed.

Lemma map_padv_Forall2 d cs : Forall (fun e => is_seq e = true) cs ->
  Forall2 (fun c c0 => exists mc l, c = Seq mc l /\ c0 = Seq mc (padded l d)) cs (map (padv d) cs).
Proof.
  induction 1 as [|c r Hc Hr IH]; [constructor|]. cbn [map]. constructor; [|exact IH].
  destruct c as [|mc l|]; try discriminate. exists mc, l. split; reflexivity.
Qed.

Theorem pre_extend_spec m cs : wfs cs -> Forall (fun e => is_seq e = true) cs ->
  exists cs0, pre_extend m cs = Ok cs0 /\
    Forall2 (fun c c0 => exists mc l, c = Seq mc l /\ c0 = Seq mc (padded l (dmax cs))) cs cs0.
Proof.
  intros Hw Hs. exists (map (padv (dmax cs)) cs). split; [apply pre_extend_map; assumption|].
  apply map_padv_Forall2. exact Hs.
Qed.

(* ================================================================ A2. by index *)
(* appending the other voice's children to a receiver voice *)
Definition joinv (c o : ev) : ev := match c with Seq ma acs => Seq ma (acs ++ children o) | _ => c end.
(* a voice of the other operand without partner *)
Definition newv (d : Z) (o : ev) : ev :=
  match o with Seq mo lo => if 0 <? d then Seq mo (Leaf d rest_label :: lo) else o | _ => o end.
(* position by position *)
Fixpoint zipjoin (d : Z) (cs os : list ev) : list ev :=
  match os with
  | [] => cs
  | o :: or => match cs with
               | [] => newv d o :: zipjoin d [] or
               | c :: cr => joinv c o :: zipjoin d cr or
               end
  end.

Lemma replace_at_app {A} (pre : list A) c sr x : replace_at (length pre) x (pre ++ c :: sr) = pre ++ x :: sr.
Proof.
  unfold replace_at. rewrite firstn_app, firstn_all, Nat.sub_diag. cbn [firstn]. rewrite app_nil_r.
  f_equal. f_equal. induction pre as [|a p IH]; [reflexivity|exact IH].
Qed.
Lemma nth_error_app_mid {A} (pre : list A) c sr : nth_error (pre ++ c :: sr) (length pre) = Some c.
Proof. induction pre as [|a p IH]; [reflexivity|exact IH]. Qed.

Lemma cat_go_index n' d : forall os pre suf,
  Forall (fun e => is_seq e = true) suf -> Forall (fun e => is_seq e = true) os ->
  cat_go n' false d (length pre) (pre ++ suf) os = (pre ++ zipjoin d suf os, None).
Proof.
  induction os as [|o or IH]; intros pre suf Hs Ho; [reflexivity|].
  inversion Ho as [|? ? Ho1 Ho2]; subst. destruct o as [|mo lo|]; try discriminate.
  destruct suf as [|c sr].
  - cbn [cat_go zipjoin newv andb]. rewrite app_nil_r, Nat.ltb_irrefl.
    destruct (0 <? d) eqn:E.
    + rewrite pad_front_seq.
      replace (S (length pre)) with (length (pre ++ [Seq mo (Leaf d rest_label :: lo)])) by (rewrite app_length; simpl; lia).
      rewrite <- (app_nil_r (pre ++ [Seq mo (Leaf d rest_label :: lo)])) at 2.
      rewrite (IH _ [] Hs Ho2). rewrite <- app_assoc. reflexivity.
    + replace (S (length pre)) with (length (pre ++ [Seq mo lo])) by (rewrite app_length; simpl; lia).
      rewrite <- (app_nil_r (pre ++ [Seq mo lo])) at 2.
      rewrite (IH _ [] Hs Ho2). rewrite <- app_assoc. reflexivity.
  - inversion Hs as [|? ? Hc Hsr]; subst. destruct c as [|ma acs|]; try discriminate.
    cbn [cat_go zipjoin joinv andb].
    assert (L : Nat.ltb (length pre) (length (pre ++ Seq ma acs :: sr)) = true)
      by (apply Nat.ltb_lt; rewrite app_length; simpl; lia).
    rewrite L, nth_error_app_mid, replace_at_app. cbn [children].
    replace (S (length pre)) with (length (pre ++ [Seq ma (acs ++ lo)])) by (rewrite app_length; simpl; lia).
    replace (pre ++ Seq ma (acs ++ lo) :: sr) with ((pre ++ [Seq ma (acs ++ lo)]) ++ sr) by (rewrite <- app_assoc; reflexivity).
    rewrite (IH _ sr Hsr Ho2). rewrite <- app_assoc. reflexivity.
Qed.

Lemma padv_is_seq d cs : Forall (fun e => is_seq e = true) cs -> Forall (fun e => is_seq e = true) (map (padv d) cs).
Proof. induction 1 as [|c r Hc Hr IH]; constructor; [|exact IH]. destruct c; try discriminate. reflexivity. Qed.

(* the result as a list *)
Theorem concat_index_list m cs m2 os : wfs cs -> Forall (fun e => is_seq e = true) cs ->
  Forall (fun e => is_seq e = true) os ->
  concatenate false (Sim m cs) (Sim m2 os) = Ok (Sim m (zipjoin (dmax cs) (map (padv (dmax cs)) cs) os)).
Proof.
  intros Hw Hs Ho. rewrite concatenate_sim, concat_fuel_S, pre_extend_map by assumption.
  pose proof (cat_go_index (height (Sim m cs)) (dmax cs) os [] (map (padv (dmax cs)) cs)
                (padv_is_seq _ _ Hs) Ho) as G.
  cbn [length app] in G. rewrite G. reflexivity.
Qed.

(* ---------------------------------------------------------------- reading zipjoin *)
Lemma zipjoin_length d : forall os cs, length (zipjoin d cs os) = Nat.max (length cs) (length os).
Proof.
  induction os as [|o or IH]; intros cs; cbn [zipjoin].
  - cbn [length]. lia.
  - destruct cs as [|c cr]; cbn [length]; rewrite IH; cbn [length]; lia.
Qed.

Lemma zipjoin_nth d : forall os cs j,
  nth_error (zipjoin d cs os) j =
  match nth_error cs j, nth_error os j with
  | Some c, Some o => Some (joinv c o)
  | Some c, None => Some c
  | None, Some o => Some (newv d o)
  | None, None => None
  end.
Proof.
  induction os as [|o or IH]; intros cs j; cbn [zipjoin].
  - destruct (nth_error cs j); destruct j; reflexivity.
  - destruct cs as [|c cr]; destruct j as [|j]; cbn [nth_error]; try reflexivity.
    + rewrite IH. destruct j; reflexivity.
    + rewrite IH. reflexivity.
Qed.

(* the per-voice statement *)
Theorem concat_index_spec m cs m2 os : wfs cs -> Forall (fun e => is_seq e = true) cs ->
  Forall (fun e => is_seq e = true) os ->
  let D := dmax cs in
  exists r, concatenate false (Sim m cs) (Sim m2 os) = Ok (Sim m r) /\
    length r = Nat.max (length cs) (length os) /\
    (* matched voices: the receiver's content, rest up to D, the other voice's content *)
    (forall j mc l mo lo, nth_error cs j = Some (Seq mc l) -> nth_error os j = Some (Seq mo lo) ->
       nth_error r j = Some (Seq mc (padded l D ++ lo))) /\
    (* receiver voices without partner: padded *)
    (forall j mc l, nth_error cs j = Some (Seq mc l) -> nth_error os j = None ->
       nth_error r j = Some (Seq mc (padded l D))) /\
    (* voices of the other operand without partner: new voices starting with a rest of length D *)
    (forall j mo lo, nth_error cs j = None -> nth_error os j = Some (Seq mo lo) ->
       nth_error r j = Some (if 0 <? D then Seq mo (Leaf D rest_label :: lo) else Seq mo lo)).
Proof.
  intros Hw Hs Ho D. exists (zipjoin D (map (padv D) cs) os).
  split; [apply concat_index_list; assumption|].
  split; [rewrite zipjoin_length, map_length; reflexivity|].
  split; [|split].
  - intros j mc l mo lo Hc Hoj. rewrite zipjoin_nth, nth_error_map, Hc, Hoj. reflexivity.
  - intros j mc l Hc Hoj. rewrite zipjoin_nth, nth_error_map, Hc, Hoj. reflexivity.
  - intros j mo lo Hc Hoj. rewrite zipjoin_nth, nth_error_map, Hc, Hoj. cbn [option_map newv].
    destruct (0 <? D); reflexivity.
Qed.

(* ---------------------------------------------------------------- durations add *)
Lemma dmax_le_all D cs : 0 <= D -> Forall (fun c => dur c = D) cs -> 0 <= dmax cs <= D.
Proof. intros HD H. induction H as [|c r Hc Hr IH]; cbn [dmax]; [lia|]. fold (dmax r). lia. Qed.

Lemma zipjoin_dmax D : 0 <= D -> forall os cs, wfs os ->
  Forall (fun c => dur c = D) cs -> Forall (fun e => is_seq e = true) cs -> Forall (fun e => is_seq e = true) os ->
  dmax (zipjoin D cs os) = match os with [] => dmax cs | _ => D + dmax os end.
Proof.
  intros HD. induction os as [|o or IH]; intros cs Hwo Hd Hs Ho; [reflexivity|].
  inversion Ho as [|? ? Ho1 Ho2]; subst. destruct o as [|mo lo|]; try discriminate.
  destruct Hwo as [Hwo1 Hwo2]. rewrite wf_seq in Hwo1. pose proof (dsum_nonneg lo Hwo1) as Hlo.
  pose proof (dmax_nonneg or) as Hor.
  destruct cs as [|c cr]; cbn [zipjoin].
  - rewrite !dmax_cons, (IH [] Hwo2 Hd Hs Ho2). rewrite dur_seq.
    assert (E : dur (newv D (Seq mo lo)) = D + dsum lo).
    { cbn [newv]. destruct (0 <? D) eqn:E; rewrite dur_seq; [rewrite dsum_cons; reflexivity|lia]. }
    rewrite E. destruct or as [|o1 or1]; [cbn [dmax]; lia|lia].
  - inversion Hd as [|? ? Hd1 Hd2]; subst. inversion Hs as [|? ? Hs1 Hs2]; subst.
    destruct c as [|ma acs|]; try discriminate. rewrite !dmax_cons, (IH cr Hwo2 Hd2 Hs2 Ho2).
    cbn [joinv children]. rewrite !dur_seq, dsum_app. rewrite dur_seq in HD.
    pose proof (dmax_le_all _ cr HD Hd2) as Hcr.
    destruct or as [|o1 or1]; [cbn [dmax]; lia|lia].
Qed.

Lemma padv_dur cs : wfs cs -> Forall (fun e => is_seq e = true) cs ->
  Forall (fun c => dur c = dmax cs) (map (padv (dmax cs)) cs).
Proof.
  intros Hw Hs. assert (G : forall D, (forall c, In c cs -> dur c <= D) -> Forall (fun c => dur c = D) (map (padv D) cs)).
  { intros D HD. induction Hs as [|c r Hc Hr IH]; [constructor|]. cbn [map]. constructor.
    - destruct c as [|mc l|]; try discriminate. cbn [padv]. rewrite dur_seq, padded_dsum.
      specialize (HD _ (or_introl eq_refl)). rewrite dur_seq in HD. lia.
    - apply IH; [apply Hw|]. intros c0 H0. apply HD. right. exact H0. }
  apply G. intros c Hc. apply dur_le_dmax. exact Hc.
Qed.

Lemma dmax_all D cs : cs <> [] -> Forall (fun c => dur c = D) cs -> 0 <= D -> dmax cs = D.
Proof.
  intros Hne H HD. induction H as [|c r Hc Hr IH]; [congruence|]. rewrite dmax_cons.
  destruct r as [|c1 r1]; [cbn [dmax]; lia|]. rewrite IH by discriminate. lia.
Qed.

(* the duration of the result is the sum of the durations of the operands
   (the requested hypothesis os <> [] is not needed) *)
Theorem concat_index_dur m cs m2 os e' : wfs cs -> wfs os -> Forall (fun e => is_seq e = true) cs ->
  Forall (fun e => is_seq e = true) os ->
  concatenate false (Sim m cs) (Sim m2 os) = Ok e' ->
  dur e' = dur (Sim m cs) + dur (Sim m2 os).
Proof.
  intros Hw Hwo Hs Ho H. rewrite concat_index_list in H by assumption. inversion H; subst e'. clear H.
  rewrite !dur_sim. pose proof (dmax_nonneg cs) as HD.
  rewrite (zipjoin_dmax (dmax cs) HD os _ Hwo (padv_dur cs Hw Hs) (padv_is_seq _ _ Hs) Ho).
  destruct os as [|o or]; [|reflexivity]. cbn [dmax]. destruct cs as [|c r]; [reflexivity|].
  rewrite (dmax_all (dmax (c :: r))); [lia|discriminate|apply padv_dur; assumption|exact HD].
Qed.

(* ---------------------------------------------------------------- what plays in a matched voice *)
Theorem joined_voice_at l lo D x : wfs l -> wfs lo -> dsum l <= D ->
  at_seq (padded l D ++ lo) x =
    if x <? dsum l then at_seq l x else if x <? D then Some (SL rest_label) else at_seq lo (x - D).
Proof.
  intros Hl Hlo HD. rewrite at_seq_app; [|apply padded_wfs; exact Hl|exact Hlo].
  rewrite padded_dsum, padded_at by exact Hl. replace (Z.max (dsum l) D) with D by lia.
  destruct (x <? D) eqn:E1; destruct (x <? dsum l) eqn:E2; try reflexivity. lia.
Qed.

(* in the result of concatenate, with D the receiver's duration *)
Corollary concat_index_at m cs m2 os r j mc l mo lo x : wfs cs -> wfs os ->
  Forall (fun e => is_seq e = true) cs -> Forall (fun e => is_seq e = true) os ->
  concatenate false (Sim m cs) (Sim m2 os) = Ok (Sim m r) ->
  nth_error cs j = Some (Seq mc l) -> nth_error os j = Some (Seq mo lo) ->
  exists v, nth_error r j = Some v /\
    at_ v x = if x <? dsum l then at_seq l x else if x <? dmax cs then Some (SL rest_label) else at_seq lo (x - dmax cs).
Proof.
  intros Hw Hwo Hs Ho H Hc Hoj.
  destruct (concat_index_spec m cs m2 os Hw Hs Ho) as (r0 & E & _ & Hm & _).
  rewrite E in H. inversion H; subst r0. exists (Seq mc (padded l (dmax cs) ++ lo)).
  split; [exact (Hm j mc l mo lo Hc Hoj)|]. rewrite at_seq_eq.
  assert (Wl : wf (Seq mc l)).
  { clear - Hw Hc. revert j Hc. induction cs as [|c r IH]; intros [|j] Hj; try discriminate.
    - inversion Hj; subst. apply Hw.
    - apply (IH (proj2 Hw) j Hj). }
  assert (Wlo : wf (Seq mo lo)).
  { clear - Hwo Hoj. revert j Hoj. induction os as [|c r IH]; intros [|j] Hj; try discriminate.
    - inversion Hj; subst. apply Hwo.
    - apply (IH (proj2 Hwo) j Hj). }
  apply joined_voice_at; [exact Wl|exact Wlo|].
  pose proof (dur_le_dmax _ _ (nth_error_In _ _ Hc)) as G. rewrite dur_seq in G. exact G.
Qed.

(* ================================================================ A3. by tag *)
Definition tgof (e : ev) : Z := tag (meta_of e).

(* one voice of the other operand: appended to the first voice carrying its tag, or a new voice *)
Definition tag_step (d : Z) (cur : list ev) (o : ev) : list ev :=
  match first_with_tag (tgof o) 0%nat cur with
  | Some j => match nth_error cur j with Some c => replace_at j (joinv c o) cur | None => cur end
  | None => cur ++ [newv d o]
  end.

Lemma fwt_split t : forall cur i j, first_with_tag t i cur = Some j ->
  exists pre c suf, cur = pre ++ c :: suf /\ j = (i + length pre)%nat /\ tgof c = t /\
    Forall (fun x => tgof x <> t) pre.
Proof.
  induction cur as [|a r IH]; intros i j H; [discriminate|]. rewrite first_with_tag_cons in H.
  destruct (t =? tag (meta_of a)) eqn:E.
  - inversion H; subst j. exists [], a, r. split; [reflexivity|]. split; [simpl; lia|].
    split; [unfold tgof; lia|constructor].
  - destruct (IH _ _ H) as (pre & c & suf & E1 & E2 & E3 & E4). exists (a :: pre), c, suf.
    split; [subst r; reflexivity|]. split; [simpl; lia|]. split; [exact E3|].
    constructor; [unfold tgof; lia|exact E4].
Qed.

Lemma tgof_joinv c o : tgof (joinv c o) = tgof c.
Proof. destruct c; reflexivity. Qed.
Lemma tgof_newv d o : tgof (newv d o) = tgof o.
Proof. destruct o as [| mo lo|]; try reflexivity. cbn [newv]. destruct (0 <? d); reflexivity. Qed.
Lemma is_seq_joinv c o : is_seq c = true -> is_seq (joinv c o) = true.
Proof. destruct c; try discriminate. reflexivity. Qed.
Lemma is_seq_newv d o : is_seq o = true -> is_seq (newv d o) = true.
Proof. destruct o; try discriminate. cbn [newv]. destruct (0 <? d); reflexivity. Qed.

Lemma tag_step_seqs d cur o : Forall (fun e => is_seq e = true) cur -> is_seq o = true ->
  Forall (fun e => is_seq e = true) (tag_step d cur o).
Proof.
  intros Hc Ho. unfold tag_step. destruct (first_with_tag (tgof o) 0%nat cur) as [j|] eqn:E.
  - destruct (fwt_split _ _ _ _ E) as (pre & c & suf & -> & -> & _ & _). cbn [Nat.add].
    rewrite nth_error_app_mid, replace_at_app. apply Forall_app in Hc. destruct Hc as [H1 H2].
    inversion H2 as [|? ? H3 H4]; subst. apply Forall_app. split; [exact H1|].
    constructor; [apply is_seq_joinv; exact H3|exact H4].
  - apply Forall_app. split; [exact Hc|]. constructor; [apply is_seq_newv; exact Ho|constructor].
Qed.

(* the loop by tag is the fold of tag_step, as long as the voices of the other operand carry tags *)
Lemma cat_go_tag_app n' d : forall os1 i cur rest,
  Forall (fun e => is_seq e = true) cur -> Forall (fun e => is_seq e = true) os1 ->
  Forall (fun e => tgof e <> 0) os1 ->
  cat_go n' true d i cur (os1 ++ rest) =
  cat_go n' true d (i + length os1)%nat (fold_left (tag_step d) os1 cur) rest.
Proof.
  induction os1 as [|o or IH]; intros i cur rest Hc Ho Ht.
  - cbn [app length fold_left]. rewrite Nat.add_0_r. reflexivity.
  - inversion Ho as [|? ? Ho1 Ho2]; subst. inversion Ht as [|? ? Ht1 Ht2]; subst.
    pose proof (tag_step_seqs d cur o Hc Ho1) as Hstep.
    cbn [app length fold_left]. replace (i + S (length or))%nat with (S i + length or)%nat by lia.
    rewrite <- (IH (S i) (tag_step d cur o) rest Hstep Ho2 Ht2). clear IH.
    destruct o as [|mo lo|]; try discriminate.
    cbn [cat_go andb]. unfold tgof in Ht1. cbn [meta_of] in *.
    destruct (tag mo =? 0) eqn:E0; [lia|].
    unfold tag_step, tgof. cbn [meta_of].
    destruct (first_with_tag (tag mo) 0%nat cur) as [j|] eqn:E.
    + destruct (fwt_split _ _ _ _ E) as (pre & c & suf & -> & -> & _ & _). cbn [Nat.add].
      rewrite nth_error_app_mid. apply Forall_app in Hc. destruct Hc as [_ H2].
      inversion H2 as [|? ? H3 H4]; subst. destruct c as [|ma acs|]; try discriminate. reflexivity.
    + cbn [newv]. destruct (0 <? d); [rewrite pad_front_seq|]; reflexivity.
Qed.

Lemma cat_go_tag n' d os i cur :
  Forall (fun e => is_seq e = true) cur -> Forall (fun e => is_seq e = true) os ->
  Forall (fun e => tgof e <> 0) os ->
  cat_go n' true d i cur os = (fold_left (tag_step d) os cur, None).
Proof.
  intros Hc Ho Ht. rewrite <- (app_nil_r os) at 1. rewrite cat_go_tag_app by assumption. reflexivity.
Qed.

(* the fully general statement (repeated tags allowed): the result is the fold *)
Theorem concat_tag_fold m cs m2 os : wfs cs -> Forall (fun e => is_seq e = true) cs ->
  Forall (fun e => is_seq e = true) os -> Forall (fun e => tgof e <> 0) os ->
  concatenate true (Sim m cs) (Sim m2 os) =
  Ok (Sim m (fold_left (tag_step (dmax cs)) os (map (padv (dmax cs)) cs))).
Proof.
  intros Hw Hs Ho Ht. rewrite concatenate_sim, concat_fuel_S, pre_extend_map by assumption.
  rewrite cat_go_tag; [reflexivity|apply padv_is_seq; exact Hs|exact Ho|exact Ht].
Qed.

(* a voice without tag in the other operand: NoTagError; the voices before it have been joined
   (the model returns the partially updated children; the Python object is mutated up to that point) *)
Theorem concat_tag_no_tag m cs m2 os1 e os2 : wfs cs -> Forall (fun e => is_seq e = true) cs ->
  Forall (fun e => is_seq e = true) os1 -> Forall (fun e => tgof e <> 0) os1 -> tgof e = 0 ->
  concatenate true (Sim m cs) (Sim m2 (os1 ++ e :: os2)) = Err ENoTag /\
  concat_fuel (S (height (Sim m cs))) true m cs (os1 ++ e :: os2) =
    (fold_left (tag_step (dmax cs)) os1 (map (padv (dmax cs)) cs), Some ENoTag).
Proof.
  intros Hw Hs Ho Ht He.
  assert (G : concat_fuel (S (height (Sim m cs))) true m cs (os1 ++ e :: os2) =
    (fold_left (tag_step (dmax cs)) os1 (map (padv (dmax cs)) cs), Some ENoTag)).
  { rewrite concat_fuel_S, pre_extend_map by assumption.
    rewrite cat_go_tag_app; [|apply padv_is_seq; exact Hs|exact Ho|exact Ht].
    cbn [cat_go andb]. unfold tgof in He. rewrite He. reflexivity. }
  split; [|exact G]. rewrite concatenate_sim, G. reflexivity.
Qed.

(* the statement as requested: some voice of the other operand has no tag *)
Corollary concat_tag_no_tag_ex m cs m2 os : wfs cs -> Forall (fun e => is_seq e = true) cs ->
  Forall (fun e => is_seq e = true) os -> (exists e, In e os /\ tgof e = 0) ->
  concatenate true (Sim m cs) (Sim m2 os) = Err ENoTag.
Proof.
  intros Hw Hs Ho (e & Hin & He).
  assert (G : exists os1 e1 os2, os = os1 ++ e1 :: os2 /\ Forall (fun e => tgof e <> 0) os1 /\ tgof e1 = 0).
  { clear - Hin He. induction os as [|a r IH]; [destruct Hin|].
    destruct (Z.eq_dec (tgof a) 0) as [Ea|Ea].
    - exists [], a, r. split; [reflexivity|]. split; [constructor|exact Ea].
    - destruct Hin as [->|Hin]; [contradiction|]. destruct (IH Hin) as (os1 & e1 & os2 & -> & H1 & H2).
      exists (a :: os1), e1, os2. split; [reflexivity|]. split; [constructor; assumption|exact H2]. }
  destruct G as (os1 & e1 & os2 & -> & H1 & H2). apply Forall_app in Ho. destruct Ho as [Ho1 _].
  apply (concat_tag_no_tag m cs m2 os1 e1 os2 Hw Hs Ho1 H1 H2).
Qed.

(* ---------------------------------------------------------------- pairwise distinct tags: closed form *)
(* no later voice repeats the (non-zero) tag of an earlier one; untagged voices are unconstrained *)
Fixpoint uniqZ (l : list Z) : Prop :=
  match l with [] => True | t :: r => (t <> 0 -> ~ In t r) /\ uniqZ r end.

Lemma NoDup_uniqZ l : NoDup l -> uniqZ l.
Proof. induction 1 as [|t r Hn Hr IH]; [exact I|]. split; [intros _; exact Hn|exact IH]. Qed.
Lemma uniqZ_snoc l t : uniqZ l -> ~ In t l -> uniqZ (l ++ [t]).
Proof.
  induction l as [|a r IH]; intros H Hn; [split; [intros _ []|exact I]|]. destruct H as [H1 H2].
  cbn [app]. split.
  - intros Ha Hin. apply in_app_or in Hin. destruct Hin as [Hin|[Hin|[]]]; [exact (H1 Ha Hin)|].
    apply Hn. left. symmetry. exact Hin.
  - apply IH; [exact H2|]. intros Hin. apply Hn. right. exact Hin.
Qed.
Lemma uniqZ_mid a t b : uniqZ (a ++ t :: b) -> t <> 0 -> ~ In t b.
Proof. induction a as [|x a IH]; intros H Ht; [exact (proj1 H Ht)|exact (IH (proj2 H) Ht)]. Qed.

Definition findtag (t : Z) (os : list ev) : option ev := find (fun o => tgof o =? t) os.
Definition hastag (t : Z) (cur : list ev) : bool := existsb (fun c => tgof c =? t) cur.
(* a receiver voice after the call: joined with the voice of the other operand carrying its tag *)
Definition upd (os : list ev) (c : ev) : ev :=
  match findtag (tgof c) os with Some o => joinv c o | None => c end.
Definition tagres (d : Z) (cur os : list ev) : list ev :=
  map (upd os) cur ++ map (newv d) (filter (fun o => negb (hastag (tgof o) cur)) os).

Lemma findtag_none t os : ~ In t (map tgof os) -> findtag t os = None.
Proof.
  induction os as [|o r IH]; intros H; [reflexivity|]. unfold findtag. cbn [find].
  destruct (tgof o =? t) eqn:E; [exfalso; apply H; left; lia|]. apply IH. intros Hin. apply H. right. exact Hin.
Qed.
Lemma upd_skip o or x : tgof x <> tgof o -> upd (o :: or) x = upd or x.
Proof. intros H. unfold upd, findtag. cbn [find]. destruct (tgof o =? tgof x) eqn:E; [lia|reflexivity]. Qed.
Lemma upd_none os x : ~ In (tgof x) (map tgof os) -> upd os x = x.
Proof. intros H. unfold upd. rewrite findtag_none by exact H. reflexivity. Qed.
Lemma map_upd_skip o or l : Forall (fun x => tgof x <> tgof o) l -> map (upd (o :: or)) l = map (upd or) l.
Proof. induction 1 as [|x r Hx Hr IH]; [reflexivity|]. cbn [map]. rewrite IH, upd_skip by exact Hx. reflexivity. Qed.
Lemma hastag_false t cur : hastag t cur = false <-> Forall (fun x => tgof x <> t) cur.
Proof.
  induction cur as [|c r IH]; [split; [constructor|reflexivity]|]. unfold hastag in *. cbn [existsb].
  rewrite orb_false_iff, IH. split.
  - intros [H1 H2]. constructor; [lia|exact H2].
  - intros H. inversion H; subst. split; [lia|assumption].
Qed.
Lemma hastag_map_eq t a b : map tgof a = map tgof b -> hastag t a = hastag t b.
Proof.
  revert b. induction a as [|x a IH]; intros [|y b] H; try discriminate; [reflexivity|].
  inversion H. unfold hastag in *. cbn [existsb]. rewrite (IH b) by assumption. congruence.
Qed.
Lemma hastag_app t a b : hastag t (a ++ b) = hastag t a || hastag t b.
Proof. unfold hastag. apply existsb_app. Qed.

Lemma fold_tag_step_tagres d : forall os cur,
  Forall (fun e => is_seq e = true) cur -> Forall (fun e => is_seq e = true) os ->
  Forall (fun e => tgof e <> 0) os -> NoDup (map tgof os) -> uniqZ (map tgof cur) ->
  fold_left (tag_step d) os cur = tagres d cur os.
Proof.
  induction os as [|o or IH]; intros cur Hc Ho Ht Hn Hu.
  - unfold tagres. cbn [fold_left filter map]. rewrite app_nil_r.
    symmetry. rewrite <- (map_id cur) at 2. apply map_ext. intros x. reflexivity.
  - inversion Ho as [|? ? Ho1 Ho2]; subst. inversion Ht as [|? ? Ht1 Ht2]; subst.
    cbn [map] in Hn. inversion Hn as [|? ? Hn1 Hn2]; subst.
    cbn [fold_left]. pose proof (tag_step_seqs d cur o Hc Ho1) as Hstep.
    unfold tag_step in *. destruct (first_with_tag (tgof o) 0%nat cur) as [j|] eqn:E.
    + destruct (fwt_split _ _ _ _ E) as (pre & c & suf & -> & -> & Hc1 & Hpre). cbn [Nat.add] in *.
      rewrite nth_error_app_mid, replace_at_app in *.
      assert (Hc' : Forall (fun e => is_seq e = true) (pre ++ c :: suf)) by exact Hc.
      apply Forall_app in Hc'. destruct Hc' as [_ Hc']. inversion Hc' as [|? ? Hcs _]; subst.
      assert (Etags : map tgof (pre ++ joinv c o :: suf) = map tgof (pre ++ c :: suf)).
      { rewrite !map_app. cbn [map]. rewrite tgof_joinv. reflexivity. }
      rewrite IH; [|exact Hstep|exact Ho2|exact Ht2|exact Hn2|rewrite Etags; exact Hu].
      assert (Hsuf : Forall (fun x => tgof x <> tgof o) suf).
      { rewrite map_app in Hu. cbn [map] in Hu. apply uniqZ_mid in Hu; [|lia].
        apply Forall_forall. intros x Hx Hx'. apply Hu. rewrite Hc1, <- Hx'. apply in_map. exact Hx. }
      unfold tagres. f_equal.
      * rewrite !map_app. cbn [map]. rewrite !map_upd_skip by assumption. f_equal. f_equal.
        rewrite upd_none by (rewrite tgof_joinv, Hc1; exact Hn1).
        unfold upd, findtag. cbn [find]. rewrite Hc1, Z.eqb_refl. reflexivity.
      * cbn [filter]. assert (Hh : hastag (tgof o) (pre ++ c :: suf) = true).
        { rewrite hastag_app. unfold hastag at 2. cbn [existsb]. rewrite Hc1, Z.eqb_refl.
          cbn [orb]. apply orb_true_r. }
        rewrite Hh. cbn [negb]. f_equal. apply filter_ext. intros x.
        rewrite (hastag_map_eq _ _ _ Etags). reflexivity.
    + pose proof (proj1 (first_with_tag_none (tgof o) cur 0%nat) E) as Hnone.
      assert (Hall : Forall (fun x => tgof x <> tgof o) cur) by (apply Forall_forall; exact Hnone).
      assert (Hnin : ~ In (tgof o) (map tgof cur)).
      { intros Hin. apply in_map_iff in Hin. destruct Hin as (x & Hx1 & Hx2). exact (Hnone x Hx2 Hx1). }
      rewrite IH; [|exact Hstep|exact Ho2|exact Ht2|exact Hn2|].
      2:{ rewrite map_app. cbn [map]. rewrite tgof_newv. apply uniqZ_snoc; assumption. }
      unfold tagres. rewrite map_app. cbn [map filter].
      assert (Hh : hastag (tgof o) cur = false) by (apply hastag_false; exact Hall).
      rewrite Hh. cbn [negb map]. rewrite <- app_assoc. cbn [app]. f_equal.
      * symmetry. apply map_upd_skip. exact Hall.
      * f_equal; [apply upd_none; rewrite tgof_newv; exact Hn1|]. f_equal.
        apply filter_ext_in. intros x Hx. rewrite hastag_app. unfold hastag at 2. cbn [existsb].
        rewrite tgof_newv. destruct (tgof o =? tgof x) eqn:Ex; [|rewrite !orb_false_r; reflexivity].
        exfalso. apply Hn1. replace (tgof o) with (tgof x) by lia. apply in_map. exact Hx.
Qed.

Lemma map_tgof_padv d cs : map tgof (map (padv d) cs) = map tgof cs.
Proof. rewrite map_map. apply map_ext. intros [|m l|]; reflexivity. Qed.

(* the result by tag, for tagged voices with pairwise distinct tags in the other operand and
   pairwise distinct non-zero tags in the receiver (weaker than NoDup (map tgof cs): several untagged
   receiver voices are allowed) *)
Theorem concat_tag_list m cs m2 os : wfs cs -> Forall (fun e => is_seq e = true) cs ->
  Forall (fun e => is_seq e = true) os -> Forall (fun e => tgof e <> 0) os ->
  NoDup (map tgof os) -> uniqZ (map tgof cs) ->
  concatenate true (Sim m cs) (Sim m2 os) = Ok (Sim m (tagres (dmax cs) (map (padv (dmax cs)) cs) os)).
Proof.
  intros Hw Hs Ho Ht Hn Hu. rewrite concat_tag_fold by assumption.
  rewrite fold_tag_step_tagres; [reflexivity|apply padv_is_seq; exact Hs|exact Ho|exact Ht|exact Hn|].
  rewrite map_tgof_padv. exact Hu.
Qed.

(* per voice *)
Theorem concat_tag_spec m cs m2 os : wfs cs -> Forall (fun e => is_seq e = true) cs ->
  Forall (fun e => is_seq e = true) os -> Forall (fun e => tgof e <> 0) os ->
  NoDup (map tgof os) -> NoDup (map tgof cs) ->
  let D := dmax cs in
  exists r, concatenate true (Sim m cs) (Sim m2 os) = Ok (Sim m r) /\
    (* the receiver's voices keep their positions ... *)
    (forall j mc l mo lo, nth_error cs j = Some (Seq mc l) -> findtag (tag mc) os = Some (Seq mo lo) ->
       nth_error r j = Some (Seq mc (padded l D ++ lo))) /\
    (forall j mc l, nth_error cs j = Some (Seq mc l) -> findtag (tag mc) os = None ->
       nth_error r j = Some (Seq mc (padded l D))) /\
    (* ... the other operand's voices without partner follow in their order, after a rest of length D *)
    skipn (length cs) r = map (newv D) (filter (fun o => negb (hastag (tgof o) cs)) os) /\
    length r = (length cs + length (filter (fun o => negb (hastag (tgof o) cs)) os))%nat.
Proof.
  intros Hw Hs Ho Ht Hn Hc D. exists (tagres D (map (padv D) cs) os).
  split; [apply concat_tag_list; try assumption; apply NoDup_uniqZ; exact Hc|].
  assert (Ef : filter (fun o => negb (hastag (tgof o) (map (padv D) cs))) os =
               filter (fun o => negb (hastag (tgof o) cs)) os).
  { apply filter_ext. intros x. rewrite (hastag_map_eq _ _ cs (map_tgof_padv D cs)). reflexivity. }
  unfold tagres. rewrite Ef.
  assert (Hnth : forall j c, nth_error cs j = Some c ->
            nth_error (map (upd os) (map (padv D) cs) ++ map (newv D) (filter (fun o => negb (hastag (tgof o) cs)) os)) j
            = Some (upd os (padv D c))).
  { intros j c Hj. rewrite nth_error_app1.
    - rewrite !nth_error_map, Hj. reflexivity.
    - rewrite !map_length. apply nth_error_Some. congruence. }
  split; [|split; [|split]].
  - intros j mc l mo lo Hj Hf. rewrite (Hnth _ _ Hj). unfold upd. cbn [padv]. unfold tgof at 1. cbn [meta_of].
    rewrite Hf. reflexivity.
  - intros j mc l Hj Hf. rewrite (Hnth _ _ Hj). unfold upd. cbn [padv]. unfold tgof at 1. cbn [meta_of].
    rewrite Hf. reflexivity.
  - rewrite skipn_app. rewrite !map_length, Nat.sub_diag. cbn [skipn].
    rewrite skipn_all2 by (rewrite !map_length; lia). reflexivity.
  - rewrite app_length, !map_length. reflexivity.
Qed.

(* ---------------------------------------------------------------- by tag: durations add, content *)
Lemma wfs_In l x : wfs l -> In x l -> wf x.
Proof. induction l as [|a r IH]; intros H []; [subst; apply H|apply IH; [apply H|assumption]]. Qed.
Lemma dmax_le_bound l M : (forall x, In x l -> dur x <= M) -> 0 <= M -> dmax l <= M.
Proof.
  induction l as [|a r IH]; intros H HM; [exact HM|]. rewrite dmax_cons.
  pose proof (H a (or_introl eq_refl)). assert (dmax r <= M) by (apply IH; [intros x Hx; apply H; right; exact Hx|exact HM]). lia.
Qed.
Lemma dmax_attained l : wfs l -> l <> [] -> exists o, In o l /\ dur o = dmax l.
Proof.
  induction l as [|a r IH]; intros Hw Hne; [congruence|]. destruct Hw as [Ha Hr]. rewrite dmax_cons.
  pose proof (dur_nonneg a Ha). destruct r as [|b r].
  - exists a. split; [left; reflexivity|]. cbn [dmax]. lia.
  - destruct (IH Hr ltac:(discriminate)) as (o & Ho1 & Ho2).
    destruct (Z_le_gt_dec (dmax (b :: r)) (dur a)).
    + exists a. split; [left; reflexivity|lia].
    + exists o. split; [right; exact Ho1|lia].
Qed.
Lemma NoDup_map_inj {A B} (f : A -> B) l a b : NoDup (map f l) -> In a l -> In b l -> f a = f b -> a = b.
Proof.
  induction l as [|x r IH]; intros Hn Ha Hb E; [destruct Ha|]. cbn [map] in Hn. inversion Hn as [|? ? Hn1 Hn2]; subst.
  destruct Ha as [->|Ha]; destruct Hb as [->|Hb]; [reflexivity| | |apply IH; assumption].
  - exfalso. apply Hn1. rewrite E. apply in_map. exact Hb.
  - exfalso. apply Hn1. rewrite <- E. apply in_map. exact Ha.
Qed.
Lemma dur_newv D o : 0 <= D -> is_seq o = true -> dur (newv D o) = D + dur o.
Proof.
  intros HD Ho. destruct o as [|mo lo|]; try discriminate. cbn [newv].
  destruct (0 <? D) eqn:E; rewrite !dur_seq; [rewrite dsum_cons; reflexivity|lia].
Qed.
Lemma dur_joinv D c o : dur c = D -> is_seq c = true -> is_seq o = true -> dur (joinv c o) = D + dur o.
Proof.
  intros HD Hc Ho. destruct c as [|ma acs|]; try discriminate. destruct o as [|mo lo|]; try discriminate.
  cbn [joinv children]. rewrite !dur_seq, dsum_app in *. lia.
Qed.

Lemma tagres_dmax D cs0 os : 0 <= D -> wfs os -> os <> [] ->
  Forall (fun c => dur c = D) cs0 -> Forall (fun e => is_seq e = true) cs0 ->
  Forall (fun e => is_seq e = true) os -> NoDup (map tgof os) ->
  dmax (tagres D cs0 os) = D + dmax os.
Proof.
  intros HD Hwo Hne Hd Hs Ho Hn. rewrite Forall_forall in Hd, Hs, Ho.
  pose proof (dmax_nonneg os) as Hos.
  assert (Upper : dmax (tagres D cs0 os) <= D + dmax os).
  { apply dmax_le_bound; [|lia]. intros x Hx. unfold tagres in Hx. apply in_app_or in Hx.
    destruct Hx as [Hx|Hx]; apply in_map_iff in Hx; destruct Hx as (y & <- & Hy).
    - unfold upd. destruct (findtag (tgof y) os) as [o|] eqn:Ef.
      + apply find_some in Ef. destruct Ef as [Ef _].
        rewrite (dur_joinv D) by auto. pose proof (dur_le_dmax _ _ Ef). lia.
      + rewrite (Hd _ Hy). lia.
    - apply filter_In in Hy. destruct Hy as [Hy _]. rewrite dur_newv by auto.
      pose proof (dur_le_dmax _ _ Hy). lia. }
  destruct (dmax_attained os Hwo Hne) as (o & Hin & Hdo).
  assert (Lower : exists v, In v (tagres D cs0 os) /\ dur v = D + dur o).
  { destruct (hastag (tgof o) cs0) eqn:Eh.
    - unfold hastag in Eh. apply existsb_exists in Eh. destruct Eh as (c & Hc & Ec).
      exists (upd os c). split; [unfold tagres; apply in_or_app; left; apply in_map; exact Hc|].
      unfold upd. destruct (findtag (tgof c) os) as [o'|] eqn:Ef.
      + apply find_some in Ef. destruct Ef as [Ef1 Ef2].
        assert (o' = o) by (apply (NoDup_map_inj tgof os); auto; lia). subst o'.
        apply dur_joinv; auto.
      + exfalso. pose proof (find_none _ _ Ef o Hin) as Hf. cbv beta in Hf. lia.
    - exists (newv D o). split; [|apply dur_newv; auto].
      unfold tagres. apply in_or_app. right. apply in_map. apply filter_In. split; [exact Hin|].
      rewrite Eh. reflexivity. }
  destruct Lower as (v & Hv1 & Hv2). pose proof (dur_le_dmax _ _ Hv1). lia.
Qed.

Theorem concat_tag_dur m cs m2 os e' : wfs cs -> wfs os -> Forall (fun e => is_seq e = true) cs ->
  Forall (fun e => is_seq e = true) os -> Forall (fun e => tgof e <> 0) os ->
  NoDup (map tgof os) -> uniqZ (map tgof cs) ->
  concatenate true (Sim m cs) (Sim m2 os) = Ok e' ->
  dur e' = dur (Sim m cs) + dur (Sim m2 os).
Proof.
  intros Hw Hwo Hs Ho Ht Hn Hu H. pose proof (dmax_nonneg cs) as HD. rewrite !dur_sim.
  destruct os as [|o or].
  - rewrite concat_tag_fold in H by assumption. cbn [fold_left] in H. inversion H; subst e'.
    rewrite dur_sim. cbn [dmax]. destruct cs as [|c r]; [reflexivity|].
    rewrite (dmax_all (dmax (c :: r))); [lia|discriminate|apply padv_dur; assumption|exact HD].
  - rewrite concat_tag_list in H by assumption. inversion H; subst e'. rewrite dur_sim.
    apply tagres_dmax; try assumption; [discriminate|apply padv_dur; assumption|apply padv_is_seq; exact Hs].
Qed.

Corollary concat_tag_at m cs m2 os r j mc l mo lo x : wfs cs -> wfs os ->
  Forall (fun e => is_seq e = true) cs -> Forall (fun e => is_seq e = true) os ->
  Forall (fun e => tgof e <> 0) os -> NoDup (map tgof os) -> NoDup (map tgof cs) ->
  concatenate true (Sim m cs) (Sim m2 os) = Ok (Sim m r) ->
  nth_error cs j = Some (Seq mc l) -> findtag (tag mc) os = Some (Seq mo lo) ->
  exists v, nth_error r j = Some v /\
    at_ v x = if x <? dsum l then at_seq l x else if x <? dmax cs then Some (SL rest_label) else at_seq lo (x - dmax cs).
Proof.
  intros Hw Hwo Hs Ho Ht Hn Hc H Hj Hf.
  destruct (concat_tag_spec m cs m2 os Hw Hs Ho Ht Hn Hc) as (r0 & E & Hm & _).
  rewrite E in H. inversion H; subst r0. exists (Seq mc (padded l (dmax cs) ++ lo)).
  split; [exact (Hm j mc l mo lo Hj Hf)|]. rewrite at_seq_eq.
  pose proof (wfs_In _ _ Hw (nth_error_In _ _ Hj)) as Wl.
  apply find_some in Hf. pose proof (wfs_In _ _ Hwo (proj1 Hf)) as Wlo.
  apply joined_voice_at; [exact Wl|exact Wlo|].
  pose proof (dur_le_dmax _ _ (nth_error_In _ _ Hj)) as G. rewrite dur_seq in G. exact G.
Qed.

(* ================================================================ A4. a leaf as partner voice *)
(* Only by index: by tag a leaf is never a partner, because a leaf carries no tag and a voice of the
   other operand without tag raises NoTagError before any partner is looked up.
   `concatenate` is pure by construction: it is a function, the second operand is an argument that is
   only read, and the result is a new tree. *)
Theorem concat_leaf_voice_rejected_gen m d l r m2 mo lo ro cs0 :
  pre_extend m (Leaf d l :: r) = Ok cs0 ->
  concatenate false (Sim m (Leaf d l :: r)) (Sim m2 (Seq mo lo :: ro)) = Err EConcatenation.
Proof.
  intros H. rewrite concatenate_sim, concat_fuel_S, H.
  assert (G : exists d' r', cs0 = Leaf d' l :: r').
  { unfold pre_extend in H. destruct (0 <? dmax (Leaf d l :: r)).
    - rewrite extend_sim_unfold, ext_sim_cons in H. cbn [ext_child bind] in H.
      destruct (ext_sim true (dmax (Leaf d l :: r)) r) as [r'|]; [|discriminate]. cbn [bind children] in H.
      inversion H. eauto.
    - inversion H. eauto. }
  destruct G as (d' & r' & ->). reflexivity.
Qed.

Theorem concat_leaf_voice_rejected m d l r m2 mo lo ro : Forall (fun e => is_seq e = true) r ->
  concatenate false (Sim m (Leaf d l :: r)) (Sim m2 (Seq mo lo :: ro)) = Err EConcatenation.
Proof.
  intros Hr. unfold concatenate. rewrite concat_fuel_S.
  assert (G : exists d' r', pre_extend m (Leaf d l :: r) = Ok (Leaf d' l :: r')).
  { unfold pre_extend. destruct (0 <? dmax (Leaf d l :: r)); [|eauto].
    rewrite extend_sim_unfold, ext_sim_cons. cbn [ext_child bind]. rewrite ext_sim_seqs by exact Hr.
    cbn [bind children]. eauto. }
  destruct G as (d' & r' & ->). reflexivity.
Qed.

(* ================================================================ A5. examples *)
Definition tg (t : Z) : meta := mkMeta t 0.

(* by index, the receiver has more voices; a simultaneity below a sequence is just content *)
Example ex_index_receiver_longer :
  concatenate false (Sim (tg 9) [Seq (tg 1) [Leaf 2 1]; Seq (tg 2) [Leaf 3 2]; Seq meta0 []])
                    (Sim meta0 [Seq (tg 5) [Leaf 1 7; Sim meta0 [Leaf 1 8; Leaf 2 9]]]) =
  Ok (Sim (tg 9) [Seq (tg 1) [Leaf 2 1; Leaf 1 rest_label; Leaf 1 7; Sim meta0 [Leaf 1 8; Leaf 2 9]];
                  Seq (tg 2) [Leaf 3 2]; Seq meta0 [Leaf 3 rest_label]]).
Proof. vm_compute. reflexivity. Qed.
(* by index, the other operand has more voices: new voices begin with a rest of the receiver's duration *)
Example ex_index_other_longer :
  concatenate false (Sim (tg 9) [Seq (tg 1) [Leaf 2 1]])
                    (Sim meta0 [Seq (tg 5) [Leaf 1 7]; Seq (tg 6) [Leaf 4 8]; Seq meta0 []]) =
  Ok (Sim (tg 9) [Seq (tg 1) [Leaf 2 1; Leaf 1 7]; Seq (tg 6) [Leaf 2 rest_label; Leaf 4 8];
                  Seq meta0 [Leaf 2 rest_label]]).
Proof. vm_compute. reflexivity. Qed.
(* an empty receiver (duration 0): no rests *)
Example ex_index_empty_receiver :
  concatenate false (Sim (tg 9) [Seq (tg 1) []]) (Sim meta0 [Seq (tg 5) [Leaf 1 7]; Seq (tg 6) [Leaf 4 8]]) =
  Ok (Sim (tg 9) [Seq (tg 1) [Leaf 1 7]; Seq (tg 6) [Leaf 4 8]]).
Proof. vm_compute. reflexivity. Qed.
(* by tag: partners found by tag whatever the order, an untagged receiver voice is only padded,
   a voice with an unknown tag becomes a new voice *)
Example ex_tag_new_voice :
  concatenate true (Sim (tg 9) [Seq (tg 1) [Leaf 2 1]; Seq (tg 2) [Leaf 3 2]; Seq meta0 [Leaf 1 3]])
                   (Sim meta0 [Seq (tg 2) [Leaf 1 7]; Seq (tg 7) [Leaf 4 8]; Seq (tg 1) [Leaf 1 9]]) =
  Ok (Sim (tg 9) [Seq (tg 1) [Leaf 2 1; Leaf 1 rest_label; Leaf 1 9]; Seq (tg 2) [Leaf 3 2; Leaf 1 7];
                  Seq meta0 [Leaf 1 3; Leaf 2 rest_label]; Seq (tg 7) [Leaf 3 rest_label; Leaf 4 8]]).
Proof. vm_compute. reflexivity. Qed.
(* the hypotheses of concat_tag_spec / concat_tag_dur hold for this example *)
Example ex_tag_hyps :
  let cs := [Seq (tg 1) [Leaf 2 1]; Seq (tg 2) [Leaf 3 2; Sim meta0 [Leaf 1 4; Leaf 1 5]]; Seq meta0 [Leaf 1 3]] in
  let os := [Seq (tg 2) [Leaf 1 7]; Seq (tg 7) [Leaf 4 8]; Seq (tg 1) [Leaf 1 9]] in
  wfs cs /\ wfs os /\ Forall (fun e => is_seq e = true) cs /\ Forall (fun e => is_seq e = true) os /\
  Forall (fun e => tgof e <> 0) os /\ NoDup (map tgof os) /\ NoDup (map tgof cs).
Proof.
  cbv zeta. split; [simpl; lia|]. split; [simpl; lia|]. split; [repeat constructor|]. split; [repeat constructor|].
  split; [repeat constructor; vm_compute; discriminate|].
  split; vm_compute; repeat constructor; simpl; intuition discriminate.
Qed.
(* outside the distinct-tag case: a repeated tag in the other operand is joined to the voice that the
   first occurrence created (covered by concat_tag_fold) *)
Example ex_tag_repeated :
  concatenate true (Sim (tg 9) [Seq (tg 1) [Leaf 2 1]]) (Sim meta0 [Seq (tg 7) [Leaf 1 7]; Seq (tg 7) [Leaf 4 8]]) =
  Ok (Sim (tg 9) [Seq (tg 1) [Leaf 2 1]; Seq (tg 7) [Leaf 2 rest_label; Leaf 1 7; Leaf 4 8]]).
Proof. vm_compute. reflexivity. Qed.
(* a simultaneity as partner voice: it is first extended to the receiver's duration, then the
   operation recurses, by tag *)
Example ex_nested_by_tag :
  concatenate false (Sim (tg 9) [Sim (tg 1) [Seq (tg 3) [Leaf 2 1]; Seq (tg 4) [Leaf 1 2]]; Seq (tg 2) [Leaf 3 2]])
                    (Sim meta0 [Sim (tg 5) [Seq (tg 4) [Leaf 1 7]; Seq (tg 3) [Leaf 1 8]]; Seq meta0 [Leaf 1 5]]) =
  Ok (Sim (tg 9) [Sim (tg 1) [Seq (tg 3) [Leaf 2 1; Leaf 1 rest_label; Leaf 1 8];
                              Seq (tg 4) [Leaf 1 2; Leaf 2 rest_label; Leaf 1 7]];
                  Seq (tg 2) [Leaf 3 2; Leaf 1 5]]).
Proof. vm_compute. reflexivity. Qed.
(* NoTagError inside: fallback to by index *)
Example ex_nested_fallback :
  concatenate false (Sim (tg 9) [Sim (tg 1) [Seq (tg 3) [Leaf 2 1]; Seq (tg 4) [Leaf 1 2]]; Seq (tg 2) [Leaf 3 2]])
                    (Sim meta0 [Sim (tg 5) [Seq meta0 [Leaf 1 7]; Seq (tg 3) [Leaf 1 8]]; Seq meta0 [Leaf 1 5]]) =
  Ok (Sim (tg 9) [Sim (tg 1) [Seq (tg 3) [Leaf 2 1; Leaf 1 rest_label; Leaf 1 7];
                              Seq (tg 4) [Leaf 1 2; Leaf 2 rest_label; Leaf 1 8]];
                  Seq (tg 2) [Leaf 3 2; Leaf 1 5]]).
Proof. vm_compute. reflexivity. Qed.
(* FINDING (mirrors `_extend_ancestor`: try concatenate_by_tag, except NoTagError: concatenate_by_index
   on the receiver that the failed attempt has already changed): when a tagged voice precedes an
   untagged one in the inner other operand, the tagged voice's content is joined twice (Leaf 1 7 below,
   once by tag to voice 4 and once by index to voice 3), and the durations do not add
   (2 + 1 expected, 4 obtained). *)
Example ex_nested_fallback_duplicates :
  concatenate false (Sim (tg 9) [Sim (tg 1) [Seq (tg 3) [Leaf 2 1]; Seq (tg 4) [Leaf 1 2]]])
                    (Sim meta0 [Sim (tg 5) [Seq (tg 4) [Leaf 1 7]; Seq meta0 [Leaf 1 8]]]) =
  Ok (Sim (tg 9) [Sim (tg 1) [Seq (tg 3) [Leaf 2 1; Leaf 1 rest_label; Leaf 1 7];
                              Seq (tg 4) [Leaf 1 2; Leaf 1 rest_label; Leaf 1 7; Leaf 1 8]]]).
Proof. vm_compute. reflexivity. Qed.
Example ex_nested_fallback_duplicates_dur :
  (e <- concatenate false (Sim (tg 9) [Sim (tg 1) [Seq (tg 3) [Leaf 2 1]; Seq (tg 4) [Leaf 1 2]]])
                          (Sim meta0 [Sim (tg 5) [Seq (tg 4) [Leaf 1 7]; Seq meta0 [Leaf 1 8]]]) ; Ok (dur e)) = Ok 4.
Proof. vm_compute. reflexivity. Qed.
(* NoTagError at the top level *)
Example ex_tag_no_tag :
  concatenate true (Sim (tg 9) [Seq (tg 1) [Leaf 2 1]]) (Sim meta0 [Seq (tg 1) [Leaf 1 7]; Seq meta0 [Leaf 4 8]]) = Err ENoTag.
Proof. vm_compute. reflexivity. Qed.
(* a leaf as partner voice by index; if the preceding extension fails, that error comes first;
   by tag a leaf is never a partner *)
Example ex_leaf_voice :
  concatenate false (Sim (tg 9) [Leaf 2 1; Seq meta0 []]) (Sim meta0 [Seq (tg 1) [Leaf 1 7]]) = Err EConcatenation /\
  concatenate false (Sim (tg 9) [Leaf 2 1; Sim meta0 []]) (Sim meta0 [Seq (tg 1) [Leaf 1 7]]) = Err EIneffectiveExtendUntil /\
  concatenate true (Sim (tg 9) [Leaf 2 1]) (Sim meta0 [Seq (tg 1) [Leaf 1 7]]) =
    Ok (Sim (tg 9) [Leaf 2 1; Seq (tg 1) [Leaf 2 rest_label; Leaf 1 7]]).
Proof. vm_compute. repeat split. Qed.
(* the hypotheses of concat_index_spec on a tree with a simultaneity inside a voice *)
Example ex_index_hyps :
  let cs := [Seq (tg 1) [Leaf 2 1; Sim meta0 [Leaf 1 4; Leaf 2 5]]; Seq meta0 []] in
  let os := [Seq (tg 5) [Leaf 1 7]] in
  wfs cs /\ wfs os /\ Forall (fun e => is_seq e = true) cs /\ Forall (fun e => is_seq e = true) os.
Proof. cbv zeta. split; [simpl; lia|]. split; [simpl; lia|]. split; repeat constructor. Qed.

Print Assumptions pre_extend_spec.
Print Assumptions concat_index_spec.
Print Assumptions concat_index_dur.
Print Assumptions concat_index_at.
Print Assumptions concat_tag_fold.
Print Assumptions concat_tag_no_tag.
Print Assumptions concat_tag_no_tag_ex.
Print Assumptions concat_tag_list.
Print Assumptions concat_tag_spec.
Print Assumptions concat_tag_dur.
Print Assumptions concat_tag_at.
Print Assumptions concat_leaf_voice_rejected.
Print Assumptions concat_leaf_voice_rejected_gen.
