(* Stage C: split_at with several cuts.  Part j of the result is exactly the j-th window between
   consecutive (positive) split times; this per-index alignment is what the rows of a Concurrence need. *)
From Coq Require Import ZArith List Bool Lia ZifyBool Arith Permutation.
From MV Require Import Base.Res Model.EventTree Model.TreeOps Proofs.TreeLemmas Proofs.CutOut
  Proofs.SplitBase Proofs.SplitSingle Proofs.SplitSort Proofs.SplitLoop Proofs.SplitErrors.
Import ListNotations.
Open Scope Z_scope.

(* ------------------------------------------------------------ windows *)
Definition hi_lt (x : Z) (hi : option Z) : bool := match hi with Some h => x <? h | None => true end.
Definition win_at (e : ev) (lo : Z) (hi : option Z) (x : Z) : option slice :=
  if (0 <=? x) && hi_lt (lo + x) hi then at_ e (lo + x) else None.
Definition win_dur (e : ev) (lo : Z) (hi : option Z) : Z :=
  Z.max 0 (match hi with Some h => Z.min h (dur e) | None => dur e end - lo).
(* p is the window [lo, hi) of e (hi = None: no upper bound) *)
Definition is_win (e : ev) (lo : Z) (hi : option Z) (p : ev) : Prop :=
  wf p /\ (height p <= height e)%nat /\ same_shape e p /\ dur p = win_dur e lo hi /\ forall x, at_ p x = win_at e lo hi x.

(* the parts ps are, in order, the windows [lo,b0), [b0,b1), ..., [bk,oo) of e; trailing windows may be
   missing only when nothing of e is left *)
Fixpoint aligned (e : ev) (lo : Z) (bs : list Z) (ps : list ev) {struct ps} : Prop :=
  match ps with
  | [] => dur e <= lo
  | p :: ps' => match bs with
                | [] => ps' = [] /\ is_win e lo None p
                | b :: bs' => is_win e lo (Some b) p /\ aligned e b bs' ps'
                end
  end.

Definition hi_ok (lo : Z) (hi : option Z) : Prop := match hi with Some h => lo < h | None => True end.

Lemma win_at_empty e lo hi x : wf e -> dur e <= lo -> win_at e lo hi x = None.
Proof.
  intros We H. unfold win_at. destruct ((0 <=? x) && hi_lt (lo + x) hi) eqn:E; [|reflexivity].
  apply at_outside; [assumption|lia].
Qed.
Lemma win_dur_empty e lo hi : wf e -> dur e <= lo -> win_dur e lo hi = 0.
Proof. intros We H. unfold win_dur. destruct hi; lia. Qed.
Lemma win_dur_zero e lo hi : hi_ok lo hi -> win_dur e lo hi = 0 -> dur e <= lo.
Proof. unfold win_dur, hi_ok. destruct hi; lia. Qed.

Lemma is_win_empty e lo hi lo' hi' p : wf e -> dur e <= lo -> dur e <= lo' -> is_win e lo hi p -> is_win e lo' hi' p.
Proof.
  intros We H H' (W & Hh & S & D & A). unfold is_win. rewrite win_dur_empty in * by assumption.
  repeat split; auto. intros x. rewrite A, !win_at_empty by assumption. reflexivity.
Qed.

Lemma aligned_shift e : wf e -> forall ps lo b bs, dur e <= lo -> lo <= b -> sorted (b :: bs) ->
  aligned e b bs ps -> aligned e lo (b :: bs) ps.
Proof.
  intros We. induction ps as [|p ps IH]; intros lo b bs Hlo Hb Hs H; [simpl; lia|].
  destruct bs as [|b' bs'].
  - destruct H as [-> Hw]. cbn [aligned]. split; [|lia].
    apply (is_win_empty e b None); auto; lia.
  - destruct H as [Hw Ha]. cbn [aligned]. cbn [aligned] in IH. split.
    + apply (is_win_empty e b (Some b')); auto; lia.
    + destruct Hs as [Hs1 Hs2]. apply IH; auto; try lia. apply Hs1. left. reflexivity.
Qed.

Lemma aligned_length e lo bs ps : aligned e lo bs ps -> (length ps <= S (length bs))%nat.
Proof.
  revert lo bs. induction ps as [|p ps IH]; intros lo bs H; [simpl; lia|].
  destruct bs as [|b bs'].
  - destruct H as [-> _]. cbn [length]. lia.
  - destruct H as [_ H]. apply IH in H. cbn [length]. lia.
Qed.

Lemma aligned_transfer e e' lo bs ps : aligned e' lo bs ps ->
  (forall x, at_ e' x = at_ e x) -> dur e' = dur e -> (height e' <= height e)%nat ->
  (forall p, same_shape e' p -> same_shape e p) -> aligned e lo bs ps.
Proof.
  intros H Ha Hd Hh Hs.
  assert (G : forall lo hi p, is_win e' lo hi p -> is_win e lo hi p).
  { intros lo0 hi p (W & H1 & S & D & A). unfold is_win, win_dur, win_at in *. rewrite Hd in D.
    repeat split; auto; [lia|]. intros x. rewrite A, Ha. reflexivity. }
  revert lo bs H. induction ps as [|p ps IH]; intros lo bs H; [simpl in *; lia|].
  destruct bs as [|b bs']; cbn [aligned] in *.
  - destruct H as [-> Hw]. auto.
  - destruct H as [Hw H]. auto.
Qed.

(* C1 from alignment: the parts tile e from lo on *)
Lemma aligned_tiles e : wf e -> forall ps lo bs, 0 <= lo -> ssorted (lo :: bs) -> aligned e lo bs ps ->
  dsum ps = Z.max 0 (dur e - lo) /\ (forall x, at_seq ps x = if 0 <=? x then at_ e (lo + x) else None) /\
  wfs ps /\ Forall (same_shape e) ps /\ (hmax ps <= height e)%nat.
Proof.
  intros We. pose proof (dur_nonneg e We) as Hnn.
  induction ps as [|p ps IH]; intros lo bs Hlo Hs H.
  - simpl in H. split; [simpl; lia|]. split; [|split; [exact I|split; [constructor|simpl; lia]]].
    intros x. rewrite at_seq_nil. destruct (0 <=? x) eqn:E; [|reflexivity]. symmetry. apply at_outside; [assumption|lia].
  - destruct bs as [|b bs']; cbn [aligned] in H.
    + destruct H as [-> (W & Hh & S & D & A)]. unfold win_dur in D.
      split; [rewrite dsum_cons; simpl; lia|]. split; [|split; [exact (conj W I)|split; [repeat constructor; assumption|simpl; lia]]].
      intros x. rewrite at_seq_single, A by assumption. unfold win_at. simpl hi_lt. rewrite andb_true_r. reflexivity.
    + destruct H as [(W & Hh & S & D & A) H]. destruct Hs as [Hs1 Hs2].
      assert (Hb : lo < b) by (apply Hs1; left; reflexivity).
      destruct (IH b bs' ltac:(lia) Hs2 H) as (I1 & I2 & I3 & I4 & I5). unfold win_dur in D.
      split; [rewrite dsum_cons; lia|].
      split; [|split; [exact (conj W I3)|split; [constructor; assumption|rewrite hmax_cons; lia]]].
      intros x. rewrite at_seq_cons, A, I2, D. unfold win_at. cbn [hi_lt].
      destruct (0 <=? x) eqn:E0; cbn [andb].
      * destruct (x <? Z.max 0 (Z.min b (dur e) - lo)) eqn:E1.
        -- destruct (lo + x <? b) eqn:E2; [reflexivity|lia].
        -- destruct (0 <=? x - Z.max 0 (Z.min b (dur e) - lo)) eqn:E2; [|lia].
           destruct (b <=? dur e) eqn:E3; [f_equal; lia|].
           rewrite !at_outside; auto; lia.
      * destruct (0 <=? x - Z.max 0 (Z.min b (dur e) - lo)) eqn:E2; [lia|reflexivity].
Qed.

(* ------------------------------------------------------------ times: a strictly ascending list of positive times, possibly preceded by 0 *)
Lemma sortZ_ssorted_id l : ssorted l -> sortZ l = l.
Proof.
  induction l as [|x l IH]; [reflexivity|]. intros [H1 H2]. simpl. rewrite IH by assumption.
  apply insert_sorted_front. assumption.
Qed.

Definition times (z : bool) (bs : list Z) : list Z := if z then 0 :: bs else bs.
Definition pos_sorted (bs : list Z) : Prop := ssorted bs /\ forall b, In b bs -> 0 < b.

Lemma pos_sorted_cons0 bs : pos_sorted bs -> ssorted (0 :: bs).
Proof. intros [H1 H2]. split; assumption. Qed.
Lemma times_ssorted z bs : pos_sorted bs -> ssorted (times z bs).
Proof. intros H. destruct z; [apply pos_sorted_cons0; assumption|apply H]. Qed.
Lemma times_sort z bs : pos_sorted bs -> sortZ (times z bs) = times z bs.
Proof. intros H. apply sortZ_ssorted_id, times_ssorted, H. Qed.
Lemma times_nonneg z bs t : pos_sorted bs -> In t (times z bs) -> 0 <= t.
Proof. intros [_ H] Hin. destruct z; simpl in Hin; [destruct Hin as [<-|Hin]; [lia|]|]; specialize (H t Hin); lia. Qed.
Lemma times_sl1 z bs : pos_sorted bs -> (if memZ 0 (times z bs) then times z bs else 0 :: times z bs) = 0 :: bs.
Proof.
  intros [_ H]. destruct z; unfold times.
  - cbn [memZ]. replace (0 =? 0) with true by reflexivity. reflexivity.
  - destruct (memZ 0 bs) eqn:E; [|reflexivity]. apply memZ_In in E. specialize (H 0 E). lia.
Qed.
Lemma times_hd_nonneg z bs : pos_sorted bs -> 0 <= hd 0 (times z bs).
Proof.
  intros H. destruct (times z bs) as [|a r] eqn:E; [simpl; lia|]. simpl. apply (times_nonneg z bs); auto. rewrite E. left. reflexivity.
Qed.

(* every strictly ascending list of non-negative times has this form *)
Lemma times_decompose sl : ssorted sl -> (forall t, In t sl -> 0 <= t) ->
  exists z bs, sl = times z bs /\ pos_sorted bs /\ (forall t, In t sl -> 0 < t -> In t bs) /\ (forall t, In t bs -> In t sl).
Proof.
  intros Hs Hnn. destruct sl as [|a r].
  - exists false, []. repeat split; auto; intros ? [].
  - destruct (a =? 0) eqn:E.
    + assert (a = 0) by lia. subst a. exists true, r. destruct Hs as [H1 H2].
      split; [reflexivity|]. split; [split; assumption|]. split.
      * intros t [<-|Hin] Ht; [lia|assumption].
      * intros t Hin. right. assumption.
    + exists false, (a :: r). split; [reflexivity|]. split; [|split; auto].
      split; [assumption|]. intros b Hb. destruct Hs as [H1 _]. specialize (Hnn a (or_introl eq_refl)).
      destruct Hb as [<-|Hb]; [lia|]. specialize (H1 b Hb). lia.
Qed.

(* ------------------------------------------------------------ Leaf *)
Lemma leaf_is_win d l lo hi : 0 <= lo -> lo < d -> hi_ok lo hi ->
  is_win (Leaf d l) lo hi (Leaf (match hi with Some h => Z.min h d | None => d end - lo) l).
Proof.
  intros Hlo Hd Hhi. unfold is_win, win_dur, win_at, hi_ok in *. destruct hi as [h|]; simpl.
  - repeat split; try lia. intros x.
    repeat match goal with |- context [if ?c then _ else _] => destruct c eqn:? end; try reflexivity; lia.
  - repeat split; try lia. intros x.
    repeat match goal with |- context [if ?c then _ else _] => destruct c eqn:? end; try reflexivity; lia.
Qed.

Lemma pairs_cons2 {A} (a b : A) r : pairs (a :: b :: r) = (a, b) :: pairs (b :: r).
Proof. reflexivity. Qed.

Lemma leaf_go_inside d l ign : forall bs lo, 0 <= lo -> lo < d -> ssorted (lo :: bs) -> (forall b, In b bs -> b < d) ->
  exists ps, leaf_go d l ign (pairs ((lo :: bs) ++ [d])) = Ok ps /\ aligned (Leaf d l) lo bs ps.
Proof.
  induction bs as [|b bs IH]; intros lo Hlo Hd Hs Hb.
  - cbn [app]. rewrite pairs_cons2. cbn [pairs]. rewrite leaf_go_cons, leaf_go_nil, leaf_cut_out_ok by lia.
    cbn [bind]. eexists; split; [reflexivity|]. cbn [aligned]. split; [reflexivity|].
    rewrite Z.min_id. apply (leaf_is_win d l lo None); simpl; auto.
  - destruct Hs as [Hs1 Hs2]. assert (lo < b) by (apply Hs1; left; reflexivity).
    assert (b < d) by (apply Hb; left; reflexivity).
    cbn [app]. rewrite pairs_cons2, leaf_go_cons, leaf_cut_out_ok by lia.
    destruct (IH b ltac:(lia) ltac:(lia) Hs2 (fun x Hx => Hb x (or_intror Hx))) as (ps & E & Ha).
    change (b :: bs ++ [d]) with ((b :: bs) ++ [d]). rewrite E. cbn [bind].
    eexists; split; [reflexivity|]. cbn [aligned]. split; [|exact Ha].
    apply (leaf_is_win d l lo (Some b)); simpl; auto.
Qed.

Lemma leaf_go_beyond d l : forall bs lo, 0 <= lo -> d <= lo -> ssorted (lo :: bs) ->
  leaf_go d l true (pairs (lo :: bs)) = Ok [].
Proof.
  induction bs as [|b bs IH]; intros lo Hlo Hd Hs; [reflexivity|].
  destruct Hs as [Hs1 Hs2]. assert (lo < b) by (apply Hs1; left; reflexivity).
  rewrite pairs_cons2, leaf_go_cons, leaf_cut_out_beyond by lia. apply IH; auto; lia.
Qed.

Lemma last_cons2 (a b : Z) r : last (a :: b :: r) 0 = last (b :: r) 0.
Proof. reflexivity. Qed.

Lemma leaf_go_outside d l ign : forall bs lo, 0 <= lo -> ssorted (lo :: bs) -> d <= last (lo :: bs) 0 ->
  (ign = true \/ forall b, In b (lo :: bs) -> b <= d) ->
  exists ps, leaf_go d l ign (pairs (lo :: bs)) = Ok ps /\ aligned (Leaf d l) lo bs ps.
Proof.
  induction bs as [|b bs IH]; intros lo Hlo Hs Hl Hign.
  - exists []. split; [reflexivity|]. simpl in *. lia.
  - destruct Hs as [Hs1 Hs2]. assert (lo < b) by (apply Hs1; left; reflexivity).
    rewrite last_cons2 in Hl. rewrite pairs_cons2, leaf_go_cons.
    destruct (lo <? d) eqn:E.
    + rewrite leaf_cut_out_ok by lia.
      destruct (IH b ltac:(lia) Hs2 Hl) as (ps & Eps & Ha).
      { destruct Hign as [->|Hle]; [left; reflexivity|right]. intros x Hx. apply Hle. right. assumption. }
      rewrite Eps. cbn [bind]. eexists; split; [reflexivity|]. cbn [aligned]. split; [|exact Ha].
      apply (leaf_is_win d l lo (Some b)); simpl; auto; lia.
    + rewrite leaf_cut_out_beyond by lia.
      assert (ign = true) as ->.
      { destruct Hign as [->|Hle]; [reflexivity|]. specialize (Hle b (or_intror (or_introl eq_refl))). lia. }
      rewrite leaf_go_beyond by (auto; lia). exists []. split; [reflexivity|]. simpl. lia.
Qed.

Lemma last_nonneg (l : list Z) : (forall x, In x l -> 0 <= x) -> 0 <= last l 0.
Proof. intros H. destruct l as [|a r]; [simpl; lia|]. apply H. apply last_In. congruence. Qed.

Lemma leaf_multi d l z bs ign : 0 <= d -> pos_sorted bs -> times z bs <> [] ->
  (ign = true \/ forall b, In b bs -> b <= d) ->
  exists ps, leaf_split d l (times z bs) ign = Ok ps /\ aligned (Leaf d l) 0 bs ps.
Proof.
  intros Hd Hp Hne Hign. rewrite leaf_split_unfold by assumption. cbv zeta.
  rewrite times_sort by assumption. rewrite check_time_ok by (apply times_hd_nonneg; assumption). cbn [bind].
  rewrite times_sl1 by assumption. pose proof (pos_sorted_cons0 bs Hp) as Hs0.
  assert (Hnn : forall x, In x (0 :: bs) -> 0 <= x) by (intros x [<-|Hx]; [lia|]; destruct Hp as [_ Hp]; specialize (Hp x Hx); lia).
  pose proof (last_nonneg _ Hnn) as Hl0. unfold lastZ.
  destruct (last (0 :: bs) 0 <? d) eqn:E.
  - cbn [bind]. apply leaf_go_inside; auto; try lia.
    intros b Hb. pose proof (sorted_le_last (0 :: bs) b (ssorted_sorted _ Hs0) (or_intror Hb)). lia.
  - assert ((d <? last (0 :: bs) 0) && negb ign = false) as ->.
    { destruct Hign as [->|Hle]; [apply andb_false_r|]. apply andb_false_intro1.
      assert (In (last (0 :: bs) 0) (0 :: bs)) as [<-|Hin] by (apply last_In; congruence); [lia|].
      specialize (Hle _ Hin). lia. }
    cbn [bind]. apply leaf_go_outside; auto; try lia.
    destruct Hign as [->|Hle]; [left; reflexivity|right]. intros b [<-|Hb]; [lia|auto].
Qed.

(* ------------------------------------------------------------ Concurrence *)
Definition multi_ok (n : nat) (rec : ev -> list Z -> bool -> res (list ev)) : Prop :=
  forall e z bs ign, (height e <= n)%nat -> wf e -> pos_sorted bs -> times z bs <> [] ->
    (ign = true \/ forall b, In b bs -> b <= dur e) ->
    exists ps, rec e (times z bs) ign = Ok ps /\ aligned e 0 bs ps.

Definition opt_win (c : ev) (lo : Z) (hi : option Z) (o : option ev) : Prop :=
  match o with Some p => is_win c lo hi p | None => dur c <= lo end.

Lemma opt_win_sem c lo hi o : wf c -> opt_win c lo hi o ->
  (forall x, at_opt o x = win_at c lo hi x) /\ dur_opt o = win_dur c lo hi /\
  (forall p, o = Some p -> wf p) /\ (forall p, o = Some p -> (height p <= height c)%nat).
Proof.
  intros Wc H. destruct o as [p|]; simpl in H.
  - destruct H as (W & Hh & S & D & A). repeat split; auto; intros q Hq; inversion Hq; subst; assumption.
  - split; [intros x; simpl; symmetry; apply win_at_empty; assumption|].
    split; [simpl; symmetry; apply win_dur_empty; assumption|]. split; intros q Hq; discriminate.
Qed.

Lemma row_win m cs pss s lo hi : wfs cs -> 0 <= lo -> hi_ok lo hi ->
  Forall2 (fun c ps => opt_win c lo hi (nth_error ps s)) cs pss ->
  is_win (Sim m cs) lo hi (Sim m (row pss s)).
Proof.
  intros Hwf Hlo Hhi HF.
  assert (G : (forall x, at_sim x (row pss s) = if (0 <=? x) && hi_lt (lo + x) hi then at_sim (lo + x) cs else []) /\
              dmax (row pss s) = Z.max 0 (match hi with Some h => Z.min h (dmax cs) | None => dmax cs end - lo) /\
              wfs (row pss s) /\ (hmax (row pss s) <= hmax cs)%nat).
  { induction HF as [|c ps cs pss Hc HF IH].
    - rewrite row_nil. split; [intros x; destruct (_ && _); reflexivity|]. split; [|split; [exact I|simpl; lia]].
      unfold hi_ok in Hhi. destruct hi; simpl; lia.
    - destruct Hwf as [Wc Wcs]. destruct (IH Wcs) as (I1 & I2 & I3 & I4).
      destruct (opt_win_sem c lo hi _ Wc Hc) as (O1 & O2 & O3 & O4).
      rewrite row_cons, dmax_app, hmax_app, dmax_cons, hmax_cons, elem_dmax by assumption.
      split; [|split; [|split]].
      + intros x. rewrite at_sim_app, elem_at, O1, I1, at_sim_cons. unfold win_at.
        destruct ((0 <=? x) && hi_lt (lo + x) hi); [|reflexivity]. destruct (at_ c (lo + x)); reflexivity.
      + rewrite O2, I2. unfold win_dur. pose proof (dmax_nonneg cs). destruct hi; lia.
      + apply wfs_app. split; [apply elem_wfs; assumption|assumption].
      + pose proof (elem_hmax (nth_error ps s) (height c) O4). lia. }
  destruct G as (G1 & G2 & G3 & G4). unfold is_win. rewrite wf_sim, !height_sim, !dur_sim.
  split; [assumption|]. split; [lia|]. split; [reflexivity|]. split; [exact G2|].
  intros x. unfold win_at. rewrite !at_sim_eq, G1. destruct ((0 <=? x) && hi_lt (lo + x) hi); reflexivity.
Qed.

Lemma skipn_nth_error {A} (ps : list A) : forall s,
  skipn s ps = match nth_error ps s with Some p => p :: skipn (S s) ps | None => [] end.
Proof.
  induction ps as [|a ps IH]; intros s; [destruct s; reflexivity|].
  destruct s as [|s]; [reflexivity|]. cbn [skipn nth_error]. rewrite IH. destruct (nth_error ps s); reflexivity.
Qed.

Lemma aligned_skipn_step c lo b bs ps s : wf c -> lo <= b -> aligned c lo (b :: bs) (skipn s ps) ->
  opt_win c lo (Some b) (nth_error ps s) /\ aligned c b bs (skipn (S s) ps).
Proof.
  intros Wc Hb H. rewrite skipn_nth_error in H. destruct (nth_error ps s) as [p|] eqn:E.
  - cbn [aligned] in H. exact H.
  - cbn [aligned] in H. split; [exact H|]. rewrite skipn_all2; [simpl; lia|]. apply nth_error_None in E. lia.
Qed.
Lemma aligned_skipn_last c lo ps s : aligned c lo [] (skipn s ps) -> opt_win c lo None (nth_error ps s).
Proof.
  intros H. rewrite skipn_nth_error in H. destruct (nth_error ps s) as [p|] eqn:E; cbn [aligned] in H; [apply H|exact H].
Qed.

(* exactly one candidate part per window *)
Fixpoint cand (e : ev) (lo : Z) (bs : list Z) (Ps : list ev) {struct Ps} : Prop :=
  match Ps with
  | [] => False
  | P :: Ps' => match bs with
                | [] => Ps' = [] /\ is_win e lo None P
                | b :: bs' => is_win e lo (Some b) P /\ cand e b bs' Ps'
                end
  end.

(* dropping the empty rows keeps the alignment: once a window is empty, all later ones are *)
Lemma cand_filter m e : wf e -> forall Rs lo bs, ssorted (lo :: bs) ->
  cand e lo bs (map (fun r => Sim m r) Rs) -> aligned e lo bs (map (fun r => Sim m r) (filter nonempty Rs)).
Proof.
  intros We. induction Rs as [|R Rs IH]; intros lo bs Hs H; [destruct H|].
  cbn [map filter] in *. destruct bs as [|b bs']; cbn [cand] in H.
  - destruct H as [Hnil Hw]. apply map_eq_nil in Hnil. subst Rs. cbn [filter].
    destruct (nonempty R) eqn:E; cbn [map aligned]; [auto|].
    destruct Hw as (_ & _ & _ & D & _). destruct (sim_empty_sem m R E) as [Z0 _]. rewrite Z0 in D.
    apply (win_dur_zero e lo None); simpl; auto.
  - destruct H as [Hw Hc]. destruct Hs as [Hs1 Hs2]. assert (Hb : lo < b) by (apply Hs1; left; reflexivity).
    specialize (IH b bs' Hs2 Hc).
    destruct (nonempty R) eqn:E; cbn [map aligned]; [auto|].
    destruct Hw as (_ & _ & _ & D & _). destruct (sim_empty_sem m R E) as [Z0 _]. rewrite Z0 in D.
    apply aligned_shift; auto; [|lia|apply ssorted_sorted; assumption].
    apply (win_dur_zero e lo (Some b)); simpl; auto.
Qed.

Lemma Forall2_impl_wfs (P Q : ev -> list ev -> Prop) cs pss : wfs cs ->
  (forall c ps, wf c -> P c ps -> Q c ps) -> Forall2 P cs pss -> Forall2 Q cs pss.
Proof.
  intros Hw H HF. induction HF as [|c ps cs pss Hc HF IH]; [constructor|]. destruct Hw as [Wc Wcs].
  constructor; auto.
Qed.

Lemma sim_cand m cs pss : wfs cs -> forall bs lo s, 0 <= lo -> ssorted (lo :: bs) ->
  Forall2 (fun c ps => aligned c lo bs (skipn s ps)) cs pss ->
  cand (Sim m cs) lo bs (map (fun r => Sim m r) (map (row pss) (seq s (S (length bs))))).
Proof.
  intros Hwf. induction bs as [|b bs IH]; intros lo s Hlo Hs HF.
  - cbn [length seq map cand]. split; [reflexivity|]. apply row_win; simpl; auto.
    eapply Forall2_impl_wfs; [exact Hwf| |exact HF]. intros c ps _ H. apply aligned_skipn_last. exact H.
  - destruct Hs as [Hs1 Hs2]. assert (Hb : lo < b) by (apply Hs1; left; reflexivity).
    change (seq s (S (length (b :: bs)))) with (s :: seq (S s) (S (length bs))). cbn [map cand]. split.
    + apply row_win; simpl; auto.
      eapply Forall2_impl_wfs; [exact Hwf| |exact HF]. intros c ps Wc H.
      apply (aligned_skipn_step c lo b bs ps s Wc ltac:(lia) H).
    + apply IH; auto; [lia|].
      eapply Forall2_impl_wfs; [exact Hwf| |exact HF]. intros c ps Wc H.
      apply (aligned_skipn_step c lo b bs ps s Wc ltac:(lia) H).
Qed.

Lemma max_len_bound (P : ev -> list ev -> Prop) cs pss N : (forall c ps, P c ps -> (length ps <= N)%nat) ->
  Forall2 P cs pss -> (max_len pss <= N)%nat.
Proof. intros H HF. induction HF as [|c ps cs pss Hc HF IH]; [simpl; lia|]. rewrite max_len_cons. specialize (H _ _ Hc). lia. Qed.

Lemma slices_of_ne rec cs sl : sl <> [] -> slices_of rec cs sl = mapM (fun c => rec c sl true) cs.
Proof. destruct sl; [congruence|reflexivity]. Qed.

Section SimMulti.
  Variable rec : ev -> list Z -> bool -> res (list ev).
  Variable n : nat.
  Hypothesis Hrec : multi_ok n rec.

  Lemma sim_multi m cs z bs ign : (hmax cs <= n)%nat -> wfs cs -> pos_sorted bs -> times z bs <> [] ->
    (ign = true \/ forall b, In b bs -> b <= dmax cs) ->
    exists ps, sim_split rec m cs (times z bs) ign = Ok ps /\ aligned (Sim m cs) 0 bs ps.
  Proof.
    intros Hh Hwf Hp Hne Hign. rewrite sim_split_unfold by assumption. cbv zeta.
    rewrite times_sort by assumption. rewrite check_time_ok by (apply times_hd_nonneg; assumption). cbn [bind].
    unfold lastZ. assert ((dmax cs <? last (times z bs) 0) && negb ign = false) as ->.
    { destruct Hign as [->|Hle]; [apply andb_false_r|]. apply andb_false_intro1.
      pose proof (last_In (times z bs) Hne) as Hin.
      pose proof (dmax_nonneg cs).
      destruct z; unfold times in *; [destruct Hin as [Hz|Hin]; [rewrite <- Hz; lia|]|]; specialize (Hle _ Hin); lia. }
    rewrite slices_of_ne by assumption.
    destruct (mapM_spec (fun c => rec c (times z bs) true) (fun c ps => aligned c 0 bs ps) cs) as (pss & E & HF).
    { intros c Hc. apply Hrec; auto.
      - pose proof (hmax_In cs c Hc). lia.
      - eapply wfs_In; eauto. }
    rewrite E. cbn [bind]. eexists; split; [reflexivity|].
    rewrite (rows_eq pss (S (length bs))).
    - apply cand_filter; [exact Hwf|apply pos_sorted_cons0; assumption|].
      apply sim_cand; auto; [lia|apply pos_sorted_cons0; assumption].
    - eapply max_len_bound; [|exact HF]. intros c ps H. exact (aligned_length c 0 bs ps H).
  Qed.
End SimMulti.

(* ------------------------------------------------------------ Consecution: slices between recorded indices *)
Lemma firstn_add {A} (c : list A) : forall i k, firstn (i + k) c = firstn i c ++ firstn k (skipn i c).
Proof.
  induction c as [|a c IH]; intros i k.
  - rewrite !firstn_nil, skipn_nil, firstn_nil. reflexivity.
  - destruct i as [|i]; [reflexivity|]. cbn [Nat.add firstn skipn app]. rewrite IH. reflexivity.
Qed.
Lemma lslice_split {A} (c : list A) i i' : (i <= i')%nat -> firstn i' c = firstn i c ++ lslice i i' c.
Proof. intros H. unfold lslice. rewrite <- firstn_add. f_equal. lia. Qed.
Lemma lslice_dsum c i i' : (i <= i')%nat -> dsum (lslice i i' c) = dsum (firstn i' c) - dsum (firstn i c).
Proof. intros H. rewrite (lslice_split c i i' H), dsum_app. lia. Qed.
Lemma wfs_lslice c i i' : wfs c -> wfs (lslice i i' c).
Proof. intros H. unfold lslice. apply wfs_firstn, wfs_skipn, H. Qed.
Lemma hmax_lslice c i i' : (hmax (lslice i i' c) <= hmax c)%nat.
Proof. unfold lslice. pose proof (hmax_firstn (i' - i) (skipn i c)). pose proof (hmax_skipn i c). lia. Qed.
Lemma dsum_firstn_mono c i i' : wfs c -> (i <= i')%nat -> dsum (firstn i c) <= dsum (firstn i' c).
Proof. intros Hw H. pose proof (lslice_dsum c i i' H). pose proof (dsum_nonneg _ (wfs_lslice c i i' Hw)). lia. Qed.
Lemma dsum_firstn_lt_idx c i i' : wfs c -> dsum (firstn i c) < dsum (firstn i' c) -> (i < i')%nat.
Proof.
  intros Hw H. destruct (Nat.lt_ge_cases i i') as [Hlt|Hge]; [assumption|].
  pose proof (dsum_firstn_mono c i' i Hw Hge). lia.
Qed.

Lemma at_seq_lslice c i i' x : wfs c -> (i <= i')%nat ->
  at_seq (lslice i i' c) x =
  if (0 <=? x) && (dsum (firstn i c) + x <? dsum (firstn i' c)) then at_seq c (dsum (firstn i c) + x) else None.
Proof.
  intros Hw H. pose proof (lslice_dsum c i i' H) as Hd. unfold lslice in *.
  rewrite at_seq_firstn by (apply wfs_skipn; assumption). rewrite Hd, at_seq_skipn by assumption.
  repeat match goal with |- context [if ?c then _ else _] => destruct c eqn:? end; try reflexivity; lia.
Qed.

Lemma seq_slice_win m c i i' lo b : wfs c -> (i <= i')%nat -> dsum (firstn i c) = lo -> dsum (firstn i' c) = b ->
  is_win (Seq m c) lo (Some b) (Seq m (lslice i i' c)).
Proof.
  intros Hw H Hlo Hb. unfold is_win. rewrite wf_seq, !height_seq, !dur_seq.
  split; [apply wfs_lslice; assumption|]. split; [pose proof (hmax_lslice c i i'); lia|]. split; [reflexivity|].
  pose proof (dsum_firstn_mono c i i' Hw H). pose proof (dsum_firstn_le i' c Hw).
  split; [rewrite lslice_dsum by assumption; unfold win_dur; rewrite dur_seq; lia|].
  intros x. rewrite at_seq_eq, at_seq_lslice by assumption. unfold win_at. cbn [hi_lt]. rewrite Hlo, Hb, at_seq_eq. reflexivity.
Qed.

Lemma seq_tail_win m c i lo hi : wfs c -> dsum (firstn i c) = lo ->
  match hi with Some b => dsum c <= b | None => True end ->
  is_win (Seq m c) lo hi (Seq m (skipn i c)).
Proof.
  intros Hw Hlo Hhi. unfold is_win. rewrite wf_seq, !height_seq, !dur_seq.
  split; [apply wfs_skipn; assumption|]. split; [pose proof (hmax_skipn i c); lia|]. split; [reflexivity|].
  pose proof (dsum_firstn_skipn i c). pose proof (dsum_nonneg _ (wfs_skipn i c Hw)).
  split; [unfold win_dur; rewrite dur_seq; destruct hi; lia|].
  intros x. rewrite at_seq_eq, at_seq_skipn by assumption. unfold win_at. rewrite Hlo, at_seq_eq.
  destruct (0 <=? x) eqn:E; cbn [andb]; [|reflexivity].
  destruct hi as [b|]; cbn [hi_lt]; [|reflexivity].
  destruct (lo + x <? b) eqn:E2; [reflexivity|]. apply at_seq_outside; [assumption|lia].
Qed.

(* idx are the indices recorded for a prefix of the times sl; the remaining times lie at or beyond the end *)
Fixpoint idx_rel (c : list ev) (durf : Z) (idx : list nat) (sl : list Z) {struct idx} : Prop :=
  match idx with
  | [] => forall t, In t sl -> durf <= t
  | i :: idx' => match sl with
                 | [] => False
                 | t :: sl' => dsum (firstn i c) = t /\ (i < length c)%nat /\ idx_rel c durf idx' sl'
                 end
  end.

Lemma idx_rel_range c durf idx bs : idx_rel c durf idx bs -> (forall b, In b bs -> 0 < b) ->
  Forall (fun i => (0 < i < length c)%nat) idx.
Proof.
  revert bs. induction idx as [|i idx IH]; intros bs H Hp; [constructor|].
  destruct bs as [|b bs]; cbn [idx_rel] in H; [destruct H|]. destruct H as (H1 & H2 & H3).
  constructor; [|apply (IH bs); auto; intros; apply Hp; right; assumption].
  split; [|assumption]. destruct i; [|lia]. simpl in H1. specialize (Hp b (or_introl eq_refl)). lia.
Qed.

Lemma seq_finish_shape m c pre idx : c <> [] -> (pre = [] \/ pre = [0%nat]) ->
  Forall (fun i => (0 < i < length c)%nat) idx ->
  seq_finish m c (pre ++ idx) = map (fun '(i0, i1) => Seq m (lslice i0 i1 c)) (pairs (0%nat :: idx ++ [length c])).
Proof.
  intros Hne Hpre HF. unfold seq_finish. rewrite Forall_forall in HF.
  assert (Hlen : (0 < length c)%nat) by (destruct c; [congruence|simpl; lia]).
  assert (H0 : memN 0%nat idx = false).
  { destruct (memN 0%nat idx) eqn:E; [|reflexivity]. apply memN_In in E. specialize (HF _ E). lia. }
  assert (E1 : (if memN 0%nat (pre ++ idx) then pre ++ idx else 0%nat :: pre ++ idx) = 0%nat :: idx).
  { destruct Hpre as [->| ->]; cbn [app]; [rewrite H0; reflexivity|reflexivity]. }
  rewrite E1.
  assert (E2 : memN (length c) (0%nat :: idx) = false).
  { destruct (memN (length c) (0%nat :: idx)) eqn:E; [|reflexivity]. apply memN_In in E.
    destruct E as [E|E]; [lia|]. specialize (HF _ E). lia. }
  rewrite E2. reflexivity.
Qed.

Lemma slices_aligned m c durf : wfs c -> dsum c = durf -> forall idx bs i lo,
  dsum (firstn i c) = lo -> ssorted (lo :: bs) -> idx_rel c durf idx bs ->
  aligned (Seq m c) lo bs (map (fun '(i0, i1) => Seq m (lslice i0 i1 c)) (pairs (i :: idx ++ [length c]))).
Proof.
  intros Hw Hd. induction idx as [|i' idx IH]; intros bs i lo Hlo Hs H.
  - cbn [app]. rewrite pairs_cons2. cbn [pairs map]. rewrite lslice_to_end. cbn [idx_rel] in H.
    destruct bs as [|b bs]; cbn [aligned].
    + split; [reflexivity|]. apply seq_tail_win; auto.
    + assert (durf <= b) by (apply H; left; reflexivity).
      split; [apply seq_tail_win; auto; lia|]. rewrite dur_seq. lia.
  - destruct bs as [|b bs]; cbn [idx_rel] in H; [destruct H|]. destruct H as (H1 & H2 & H3).
    destruct Hs as [Hs1 Hs2]. assert (Hb : lo < b) by (apply Hs1; left; reflexivity).
    assert (Hii : (i < i')%nat) by (apply (dsum_firstn_lt_idx c); [assumption|lia]).
    cbn [app]. rewrite pairs_cons2. cbn [map aligned]. split.
    + apply seq_slice_win; auto. lia.
    + apply (IH bs i' b); auto.
Qed.

(* ------------------------------------------------------------ Consecution: the loop over ascending times *)
Section SeqMulti.
  Variable rec : ev -> list Z -> bool -> res (list ev).
  Variable n : nat.
  Hypothesis Hrec : rec_ok n rec.

  Lemma idx_rel_beyond c durf idx r : wfs c -> dsum c = durf -> idx_rel c durf idx r ->
    (forall t, In t r -> durf < t) -> idx = [].
  Proof.
    intros Hw Hd H Hr. destruct idx as [|i idx]; [reflexivity|]. destruct r as [|t r]; cbn [idx_rel] in H; [destruct H|].
    destruct H as (H1 & _). specialize (Hr t (or_introl eq_refl)). pose proof (dsum_firstn_le i c Hw). lia.
  Qed.

  Lemma loop_sorted ign durf : forall sl c idx, good n durf c -> ssorted sl -> (forall t, In t sl -> 0 <= t) ->
    (ign = true \/ forall t, In t sl -> t <= durf) ->
    exists c' idx', seq_split_loop rec ign false durf sl c (starts c) idx = Ok (c', idx ++ idx') /\ good n durf c' /\
       (forall x, at_seq c' x = at_seq c x) /\ (length c <= length c')%nat /\ (hmax c' <= hmax c)%nat /\
       (forall k, (forall t, In t sl -> dsum (firstn k c) < t) -> firstn k c' = firstn k c) /\
       idx_rel c' durf idx' sl.
  Proof.
    induction sl as [|t r IH]; intros c idx Hg Hs Hnn Hign.
    - exists c, []. rewrite seq_loop_nil, app_nil_r. split; [reflexivity|]. split; [assumption|].
      split; [reflexivity|]. split; [lia|]. split; [lia|]. split; [reflexivity|]. cbn [idx_rel]. intros t [].
    - destruct Hs as [Hs1 Hs2].
      assert (Ht : 0 <= t) by (apply Hnn; left; reflexivity).
      assert (Hnn' : forall t', In t' r -> 0 <= t') by (intros; apply Hnn; right; assumption).
      assert (Hign' : ign = true \/ forall t', In t' r -> t' <= durf).
      { destruct Hign as [->|H]; [left; reflexivity|right; intros; apply H; right; assumption]. }
      destruct (loop_step rec n Hrec ign durf t r c idx Hg Ht)
        as [(i & Hn & E)|[(Hnin & Htd & E)|[(Hnin & Hlt & c1 & i & Hok & Hg1 & E)|(Hlt & E)]]].
      + (* a boundary exists at t *)
        destruct (IH c (idx ++ [i]) Hg Hs2 Hnn' Hign') as (c' & idx' & E' & Hg' & A' & L' & M' & P' & R').
        apply starts_nth_inv in Hn. destruct Hn as [Hi Hti].
        exists c', (i :: idx'). rewrite E, E', <- app_assoc. split; [reflexivity|].
        split; [assumption|]. split; [assumption|]. split; [assumption|]. split; [assumption|]. split.
        * intros k Hk. apply P'. intros t' Ht'. apply Hk. right. assumption.
        * cbn [idx_rel]. split; [|split; [lia|assumption]].
          rewrite P'; [auto|]. intros t' Ht'. specialize (Hs1 t' Ht'). lia.
      + (* t is the end of the event: nothing recorded, later times are beyond *)
        destruct (IH c idx Hg Hs2 Hnn' Hign') as (c' & idx' & E' & Hg' & A' & L' & M' & P' & R').
        assert (idx' = []).
        { destruct Hg' as (Hw' & _ & Hd'). apply (idx_rel_beyond c' durf idx' r Hw' Hd' R').
          intros t' Ht'. specialize (Hs1 t' Ht'). lia. }
        subst idx'. exists c', []. rewrite E, E'. split; [reflexivity|].
        split; [assumption|]. split; [assumption|]. split; [assumption|]. split; [assumption|]. split.
        * intros k Hk. apply P'. intros t' Ht'. apply Hk. right. assumption.
        * cbn [idx_rel]. intros t' [<-|Ht']; [lia|]. specialize (Hs1 t' Ht'). lia.
      + (* a child is split at t *)
        destruct (IH c1 (idx ++ [i]) Hg1 Hs2 Hnn' Hign') as (c' & idx' & E' & Hg' & A' & L' & M' & P' & R').
        destruct Hok as (K1 & K2 & K3 & K4 & K5 & K6 & K7 & K8 & K9 & K10 & K11).
        exists c', (i :: idx'). rewrite E, E', <- app_assoc. split; [reflexivity|].
        split; [assumption|]. split; [intros x; rewrite A'; apply K3|]. split; [lia|]. split; [lia|]. split.
        * intros k Hk. assert (Hk0 : dsum (firstn k c) < t) by (apply Hk; left; reflexivity).
          rewrite <- (K8 k Hk0). apply P'. intros t' Ht'. rewrite (K8 k Hk0). apply Hk. right. assumption.
        * cbn [idx_rel]. split; [|split; [lia|assumption]].
          rewrite P'; [assumption|]. intros t' Ht'. specialize (Hs1 t' Ht'). lia.
      + (* t is beyond the end *)
        assert (ign = true) as ->.
        { destruct Hign as [->|H]; [reflexivity|]. specialize (H t (or_introl eq_refl)). lia. }
        exists c, []. rewrite E, app_nil_r. split; [reflexivity|]. split; [assumption|].
        split; [reflexivity|]. split; [lia|]. split; [lia|]. split; [reflexivity|].
        cbn [idx_rel]. intros t' [<-|Ht']; [lia|]. specialize (Hs1 t' Ht'). lia.
  Qed.
End SeqMulti.

Section SeqMulti2.
  Variable rec : ev -> list Z -> bool -> res (list ev).
  Variable n : nat.
  Hypothesis Hrec : rec_ok n rec.

  (* the loop over (0 ::) bs from the initial state *)
  Lemma loop_times ign cs z bs : good n (dsum cs) cs -> pos_sorted bs ->
    (ign = true \/ forall b, In b bs -> b <= dsum cs) ->
    exists c' pre idx', seq_split_loop rec ign false (dsum cs) (times z bs) cs (starts cs) [] = Ok (c', pre ++ idx') /\
       good n (dsum cs) c' /\ (forall x, at_seq c' x = at_seq cs x) /\ (hmax c' <= hmax cs)%nat /\
       (pre = [] \/ (pre = [0%nat] /\ c' <> [])) /\ idx_rel c' (dsum cs) idx' bs.
  Proof.
    intros Hg [Hs Hp] Hign.
    assert (Hnn : forall t, In t bs -> 0 <= t) by (intros t Ht; specialize (Hp t Ht); lia).
    assert (Hz : forall idx, exists c' idx', seq_split_loop rec ign false (dsum cs) bs cs (starts cs) idx = Ok (c', idx ++ idx') /\
       good n (dsum cs) c' /\ (forall x, at_seq c' x = at_seq cs x) /\ (hmax c' <= hmax cs)%nat /\
       (length cs <= length c')%nat /\ idx_rel c' (dsum cs) idx' bs).
    { intros idx. destruct (loop_sorted rec n Hrec ign (dsum cs) bs cs idx Hg Hs Hnn Hign)
        as (c' & idx' & E & Hg' & A & L & M & _ & R). exists c', idx'. auto 10. }
    destruct z; unfold times.
    - rewrite seq_loop_cons. cbn [bind]. destruct cs as [|x cs'].
      + change (starts []) with (@nil Z). cbn [index_of]. change (dsum []) with 0. change (0 =? 0) with true. cbv iota.
        destruct (Hz []) as (c' & idx' & E & Hg' & A & M & L & R). change (dsum []) with 0 in E.
        exists c', [], idx'. auto 10.
      + unfold starts at 1. cbn [starts_from index_of]. change (0 =? 0) with true. cbv iota.
        fold (starts (x :: cs')).
        destruct (Hz ([] ++ [0%nat])) as (c' & idx' & E & Hg' & A & M & L & R).
        exists c', [0%nat], idx'. split; [exact E|]. split; [assumption|]. split; [assumption|]. split; [assumption|].
        split; [|assumption]. right. split; [reflexivity|]. intros ->. simpl in L. lia.
    - destruct (Hz []) as (c' & idx' & E & Hg' & A & M & L & R). exists c', [], idx'. auto 10.
  Qed.

  Lemma seq_multi m cs z bs ign : (hmax cs <= n)%nat -> wfs cs -> pos_sorted bs -> times z bs <> [] ->
    (ign = true \/ forall b, In b bs -> b <= dsum cs) ->
    exists ps, seq_split rec m cs (times z bs) ign = Ok ps /\ aligned (Seq m cs) 0 bs ps.
  Proof.
    intros Hh Hwf Hp Hne Hign. rewrite seq_split_unfold by assumption. rewrite times_sort by assumption.
    rewrite loop_first' by (intros t Ht; apply (times_nonneg z bs); assumption).
    assert (Hg : good n (dsum cs) cs) by (repeat split; auto).
    destruct (loop_times ign cs z bs Hg Hp Hign) as (c' & pre & idx' & E & Hg' & A & M & Hpre & R).
    rewrite E. cbn [bind]. eexists; split; [reflexivity|].
    destruct Hg' as (Hw' & Hh' & Hd').
    apply (aligned_transfer (Seq m cs) (Seq m c')).
    - destruct c' as [|x c''] eqn:Ec.
      + assert (idx' = []) by (destruct idx' as [|i ?]; [reflexivity|]; destruct bs; cbn [idx_rel] in R; [destruct R|]; simpl in R; lia).
        assert (pre = []) by (destruct Hpre as [->|[_ Hc]]; [reflexivity|congruence]). subst idx' pre.
        cbn [app]. rewrite seq_finish_none. cbn [aligned]. rewrite dur_seq. simpl. lia.
      + rewrite <- Ec in *. assert (Hne' : c' <> []) by (rewrite Ec; congruence).
        rewrite seq_finish_shape.
        * apply (slices_aligned m c' (dsum cs)); auto. apply pos_sorted_cons0. assumption.
        * assumption.
        * destruct Hpre as [->|[-> _]]; auto.
        * apply (idx_rel_range c' (dsum cs) idx' bs R). apply Hp.
    - intros x. rewrite !at_seq_eq. apply A.
    - rewrite !dur_seq. assumption.
    - rewrite !height_seq. lia.
    - intros p H. exact H.
  Qed.
End SeqMulti2.

(* ------------------------------------------------------------ the general theorem *)
Theorem split_multi_gen : forall n, multi_ok n (split_at_f n).
Proof.
  induction n as [|n IH]; intros e z bs ign Hh Hw Hp Hne Hign.
  - pose proof (height_pos e). lia.
  - destruct e as [d l|m cs|m cs]; cbn [split_at_f].
    + apply leaf_multi; auto.
    + rewrite height_seq in Hh. apply (seq_multi _ n (split_single_gen n)); auto. lia.
    + rewrite height_sim in Hh. apply (sim_multi _ n IH); auto. lia.
Qed.

(* ------------------------------------------------------------ reading the alignment *)
(* part j is the window between the j-th and the (j+1)-th element of lo :: bs *)
Lemma aligned_nth e : forall ps lo bs j p, aligned e lo bs ps -> nth_error ps j = Some p ->
  is_win e (nth j (lo :: bs) 0) (nth_error bs j) p.
Proof.
  induction ps as [|q ps IH]; intros lo bs j p H Hn; [destruct j; discriminate|].
  destruct j as [|j].
  - simpl in Hn. inversion Hn; subst q. destruct bs as [|b bs]; cbn [aligned] in H; simpl; apply H.
  - simpl in Hn. destruct bs as [|b bs]; cbn [aligned] in H.
    + destruct H as [-> _]. destruct j; discriminate.
    + destruct H as [_ H]. exact (IH b bs j p H Hn).
Qed.

(* C2: every cut strictly inside e is a boundary between parts *)
Lemma aligned_boundaries e : wf e -> forall ps lo bs, ssorted (lo :: bs) -> aligned e lo bs ps ->
  forall b, In b bs -> b < dur e -> In b (starts_from lo ps).
Proof.
  intros We. induction ps as [|p ps IH]; intros lo bs Hs H b Hb Hlt.
  - simpl in H. destruct Hs as [Hs1 _]. specialize (Hs1 b Hb). lia.
  - destruct bs as [|b0 bs]; [destruct Hb|]. cbn [aligned] in H. destruct H as [(_ & _ & _ & D & _) H].
    destruct Hs as [Hs1 Hs2]. assert (lo < b0) by (apply Hs1; left; reflexivity).
    assert (Hb0 : b0 <= b) by (destruct Hb as [<-|Hb]; [lia|]; destruct Hs2 as [Hs2 _]; specialize (Hs2 b Hb); lia).
    unfold win_dur in D. cbn [starts_from]. right. replace (lo + dur p) with b0 by lia.
    destruct Hb as [<-|Hb].
    + destruct ps as [|q ps]; [simpl in H; lia|]. left. reflexivity.
    + apply (IH b0 bs); auto.
Qed.

Definition gaps (l : list Z) : list Z := map (fun '(a, b) => b - a) (pairs l).
Lemma gaps_cons2 a b r : gaps (a :: b :: r) = (b - a) :: gaps (b :: r).
Proof. reflexivity. Qed.

(* C2: the durations of the parts are the gaps between consecutive boundaries lo, b0, ..., bk, dur e;
   only a final gap of length 0 may have no part *)
Lemma aligned_gaps e : wf e -> forall ps lo bs, ssorted (lo :: bs) -> lo <= dur e -> (forall b, In b bs -> b <= dur e) ->
  aligned e lo bs ps -> exists g, gaps (lo :: bs ++ [dur e]) = map dur ps ++ g /\ (g = [] \/ g = [0]).
Proof.
  intros We. induction ps as [|p ps IH]; intros lo bs Hs Hlo Hle H.
  - simpl in H. destruct bs as [|b bs].
    + exists [0]. split; [|right; reflexivity]. unfold gaps. simpl. f_equal. lia.
    + destruct Hs as [Hs1 _]. specialize (Hs1 b (or_introl eq_refl)). specialize (Hle b (or_introl eq_refl)). lia.
  - destruct bs as [|b bs]; cbn [aligned] in H.
    + destruct H as [-> (_ & _ & _ & D & _)]. exists []. split; [|left; reflexivity].
      unfold gaps, win_dur in *. simpl. f_equal. lia.
    + destruct H as [(_ & _ & _ & D & _) H]. destruct Hs as [Hs1 Hs2].
      assert (lo < b) by (apply Hs1; left; reflexivity). assert (b <= dur e) by (apply Hle; left; reflexivity).
      destruct (IH b bs Hs2 ltac:(lia) (fun x Hx => Hle x (or_intror Hx)) H) as (g & Eg & Hg).
      exists g. split; [|assumption]. cbn [app] in *. rewrite gaps_cons2, Eg. unfold win_dur in D.
      cbn [map app]. f_equal. lia.
Qed.

(* ============================================================ Stage C: statements for the public function *)

(* the master statement: with pairwise distinct, non-negative times (all inside e unless
   ignore_invalid_split_point is set) split_at succeeds and part j is exactly the j-th window *)
Theorem split_windows e ts ign : wf e -> ts <> [] -> NoDup ts -> (forall t, In t ts -> 0 <= t) ->
  (ign = true \/ forall t, In t ts -> t <= dur e) ->
  exists parts z bs, split_at e ts ign = Ok parts /\ sortZ ts = times z bs /\ pos_sorted bs /\
    (forall t, In t ts -> 0 < t -> In t bs) /\ (forall t, In t bs -> In t ts) /\ aligned e 0 bs parts.
Proof.
  intros We Hne Hnd Hnn Hign.
  destruct (times_decompose (sortZ ts)) as (z & bs & Esl & Hp & Hin1 & Hin2).
  { apply sortZ_ssorted. assumption. }
  { intros t Ht. apply Hnn, sortZ_In. assumption. }
  assert (Hne' : times z bs <> []) by (rewrite <- Esl, sortZ_nil_iff; assumption).
  destruct (split_multi_gen (height e) e z bs ign (le_n _) We Hp Hne') as (ps & E & Ha).
  { destruct Hign as [->|H]; [left; reflexivity|right]. intros b Hb. apply H, sortZ_In, Hin2, Hb. }
  exists ps, z, bs. split; [|split; [assumption|split; [assumption|split; [|split; [|assumption]]]]].
  - rewrite (split_perm e ts (sortZ ts) ign (sortZ_permutation ts)), Esl. exact E.
  - intros t Ht Hpos. apply Hin1; [apply sortZ_In|]; assumption.
  - intros t Ht. apply sortZ_In, Hin2, Ht.
Qed.

Theorem split_total e ts : wf e -> ts <> [] -> NoDup ts -> (forall t, In t ts -> 0 <= t <= dur e) ->
  exists parts, split_at e ts false = Ok parts.
Proof.
  intros We Hne Hnd Hr.
  destruct (split_windows e ts false We Hne Hnd (fun t Ht => proj1 (Hr t Ht)) (or_intror (fun t Ht => proj2 (Hr t Ht))))
    as (ps & _ & _ & E & _). eauto.
Qed.

(* C1 *)
Theorem split_tiles e ts parts : wf e -> ts <> [] -> NoDup ts -> (forall t, In t ts -> 0 <= t <= dur e) ->
  split_at e ts false = Ok parts ->
  dsum parts = dur e /\ (forall x, at_seq parts x = at_ e x) /\ wfs parts /\ Forall (same_shape e) parts /\
  (hmax parts <= height e)%nat.
Proof.
  intros We Hne Hnd Hr E.
  destruct (split_windows e ts false We Hne Hnd (fun t Ht => proj1 (Hr t Ht)) (or_intror (fun t Ht => proj2 (Hr t Ht))))
    as (ps & z & bs & E' & _ & Hp & _ & _ & Ha). rewrite E in E'. inversion E'; subst ps; clear E'.
  destruct (aligned_tiles e We parts 0 bs ltac:(lia) (pos_sorted_cons0 bs Hp) Ha) as (T1 & T2 & T3 & T4 & T5).
  pose proof (dur_nonneg e We). split; [lia|]. split; [|auto].
  intros x. rewrite T2. destruct (0 <=? x) eqn:Ex; [f_equal; lia|]. symmetry. apply at_outside; [assumption|lia].
Qed.

(* the same with ignore_invalid_split_point=True: times beyond the end are harmless *)
Theorem split_tiles_ignore e ts : wf e -> ts <> [] -> NoDup ts -> (forall t, In t ts -> 0 <= t) ->
  exists parts, split_at e ts true = Ok parts /\
  dsum parts = dur e /\ (forall x, at_seq parts x = at_ e x) /\ wfs parts /\ Forall (same_shape e) parts /\
  (hmax parts <= height e)%nat.
Proof.
  intros We Hne Hnd Hnn.
  destruct (split_windows e ts true We Hne Hnd Hnn (or_introl eq_refl)) as (ps & z & bs & E & _ & Hp & _ & _ & Ha).
  exists ps. split; [exact E|].
  destruct (aligned_tiles e We ps 0 bs ltac:(lia) (pos_sorted_cons0 bs Hp) Ha) as (T1 & T2 & T3 & T4 & T5).
  pose proof (dur_nonneg e We). split; [lia|]. split; [|auto].
  intros x. rewrite T2. destruct (0 <=? x) eqn:Ex; [f_equal; lia|]. symmetry. apply at_outside; [assumption|lia].
Qed.

(* C2 *)
Theorem split_boundaries e ts parts : wf e -> ts <> [] -> NoDup ts -> (forall t, In t ts -> 0 <= t <= dur e) ->
  split_at e ts false = Ok parts -> forall t, In t ts -> 0 < t < dur e -> In t (starts parts).
Proof.
  intros We Hne Hnd Hr E t Ht Hin.
  destruct (split_windows e ts false We Hne Hnd (fun t Ht => proj1 (Hr t Ht)) (or_intror (fun t Ht => proj2 (Hr t Ht))))
    as (ps & z & bs & E' & _ & Hp & Hin1 & _ & Ha). rewrite E in E'. inversion E'; subst ps; clear E'.
  apply (aligned_boundaries e We parts 0 bs (pos_sorted_cons0 bs Hp) Ha); [apply Hin1; [assumption|lia]|lia].
Qed.

Theorem split_durations e ts parts : wf e -> ts <> [] -> NoDup ts -> (forall t, In t ts -> 0 <= t <= dur e) ->
  split_at e ts false = Ok parts ->
  exists z bs g, sortZ ts = times z bs /\ pos_sorted bs /\
    gaps (0 :: bs ++ [dur e]) = map dur parts ++ g /\ (g = [] \/ g = [0]).
Proof.
  intros We Hne Hnd Hr E.
  destruct (split_windows e ts false We Hne Hnd (fun t Ht => proj1 (Hr t Ht)) (or_intror (fun t Ht => proj2 (Hr t Ht))))
    as (ps & z & bs & E' & Es & Hp & _ & Hin2 & Ha). rewrite E in E'. inversion E'; subst ps; clear E'.
  destruct (aligned_gaps e We parts 0 bs (pos_sorted_cons0 bs Hp) (dur_nonneg e We)) as (g & Eg & Hg); auto.
  - intros b Hb. apply Hr, Hin2, Hb.
  - exists z, bs, g. auto.
Qed.

(* A2, the case t = 0: nothing is cut; the event comes back as (at most) one part *)
Theorem split_single_zero n e ign : (height e <= n)%nat -> wf e ->
  exists ps, split_at_f n e [0] ign = Ok ps /\ (length ps <= 1)%nat /\ dsum ps = dur e /\
    (forall x, at_seq ps x = at_ e x) /\ wfs ps /\ Forall (same_shape e) ps /\ (hmax ps <= height e)%nat.
Proof.
  intros Hh We.
  assert (Hp : pos_sorted []) by (split; [exact I|intros ? []]).
  destruct (split_multi_gen n e true [] ign Hh We Hp ltac:(discriminate) ltac:(right; intros ? [])) as (ps & E & Ha).
  exists ps. split; [exact E|]. split; [exact (aligned_length e 0 [] ps Ha)|].
  destruct (aligned_tiles e We ps 0 [] ltac:(lia) (pos_sorted_cons0 [] Hp) Ha) as (T1 & T2 & T3 & T4 & T5).
  pose proof (dur_nonneg e We). split; [lia|]. split; [|auto].
  intros x. rewrite T2. destruct (0 <=? x) eqn:Ex; [f_equal; lia|]. symmetry. apply at_outside; [assumption|lia].
Qed.

(* ------------------------------------------------------------ fuel independence (A3, for arbitrary times) *)
Lemma rec_ok_mono n n' rec : rec_ok n rec -> (n' <= n)%nat -> rec_ok n' rec.
Proof. intros H Hle e t ign Hh. apply H. lia. Qed.

Lemma loop_ext rec1 rec2 n : rec_ok n rec1 ->
  (forall ch t', (height ch <= n)%nat -> rec1 ch [t'] false = rec2 ch [t'] false) ->
  forall ign durf sl first c idx, good n durf c ->
   seq_split_loop rec1 ign first durf sl c (starts c) idx = seq_split_loop rec2 ign first durf sl c (starts c) idx.
Proof.
  intros Hrec Hag ign durf. induction sl as [|t r IH]; intros first c idx Hg; [reflexivity|].
  rewrite !seq_loop_cons. destruct (if first then check_time t else Ok tt); [|reflexivity]. cbn [bind].
  destruct (index_of t (starts c)) as [i|] eqn:Eidx; [apply IH; assumption|].
  destruct (t =? durf) eqn:Etd; [apply IH; assumption|].
  assert (Hext : split_child_core rec1 c t (starts c) durf = split_child_core rec2 c t (starts c) durf).
  { apply split_child_core_ext. intros ch t' Hin. apply Hag. destruct Hg as (_ & Hh & _).
    pose proof (hmax_In c ch Hin). lia. }
  rewrite <- Hext. destruct (split_child_core rec1 c t (starts c) durf) as [[c' i]|k] eqn:E; [|reflexivity].
  destruct (Z_lt_le_dec t 0) as [Hneg|Hnn].
  { unfold split_child_core in E. rewrite check_time_err in E by assumption. discriminate. }
  destruct (Z_lt_le_dec t durf) as [Hlt|Hge].
  - destruct (core_step rec1 n Hrec durf c t Hg Hnn Hlt (index_of_none _ _ Eidx)) as (c'' & i'' & E' & _ & Hg' & Hst).
    rewrite E in E'. inversion E'; subst c'' i''. rewrite <- Hst. apply IH. assumption.
  - destruct Hg as (Hw & Hh & Hd). subst durf.
    destruct (split_child_core_spec rec1 n Hrec c t Hh Hw Hnn) as [H1 _]. rewrite (H1 Hge) in E. discriminate.
Qed.

Theorem split_fuel : forall n1 n2 e ts ign, (height e <= n1)%nat -> (height e <= n2)%nat -> wf e ->
  split_at_f n1 e ts ign = split_at_f n2 e ts ign.
Proof.
  induction n1 as [|n1 IH]; intros n2 e ts ign H1 H2 We; [pose proof (height_pos e); lia|].
  destruct n2 as [|n2]; [pose proof (height_pos e); lia|].
  destruct e as [d l|m cs|m cs]; cbn [split_at_f]; [reflexivity| |].
  - rewrite height_seq in *. rewrite wf_seq in We. destruct ts as [|t0 ts0]; [reflexivity|].
    rewrite !seq_split_unfold by congruence.
    rewrite (loop_ext (split_at_f n1) (split_at_f n2) (hmax cs)); [reflexivity| | |repeat split; auto].
    + apply (rec_ok_mono n1); [apply split_single_gen|lia].
    + intros ch t' Hh. apply split_single_fuel; lia.
  - rewrite height_sim in *. rewrite wf_sim in We. destruct ts as [|t0 ts0]; [reflexivity|].
    rewrite !sim_split_unfold by congruence. cbv zeta.
    destruct (check_time (hd 0 (sortZ (t0 :: ts0)))); [|reflexivity]. cbn [bind].
    destruct ((dmax cs <? lastZ (sortZ (t0 :: ts0))) && negb ign); [reflexivity|].
    unfold slices_of. rewrite (mapM_ext _ (fun c => match sortZ (t0 :: ts0) with [] => Ok [c] | _ :: _ => split_at_f n2 c (sortZ (t0 :: ts0)) true end)); [reflexivity|].
    intros c Hin. destruct (sortZ (t0 :: ts0)); [reflexivity|]. pose proof (hmax_In cs c Hin).
    apply IH; try lia. eapply wfs_In; eauto.
Qed.

Theorem split_at_f_fuel n e ts ign : (height e <= n)%nat -> wf e -> split_at_f n e ts ign = split_at e ts ign.
Proof. intros. unfold split_at. apply split_fuel; auto. Qed.

(* ------------------------------------------------------------ examples *)
Example ex_split_multi : split_at ex_tree [5; 35; 50] false =
  Ok [Seq meta0 [Seq meta0 [Leaf 5 1]];
      Seq meta0 [Seq meta0 [Leaf 5 1; Leaf 20 2]; Sim meta0 [Leaf 5 3; Seq meta0 [Leaf 5 4]]];
      Seq meta0 [Sim meta0 [Leaf 10 3; Seq meta0 [Leaf 10 5]]; Leaf 5 6];
      Seq meta0 [Leaf 5 6]].
Proof. vm_compute. reflexivity. Qed.

(* the hypotheses of split_tiles / split_boundaries / split_durations hold for this call *)
Example ex_multi_hyps : wfb ex_tree = true /\ NoDup [5; 35; 50] /\ (forall t, In t [5; 35; 50] -> 0 <= t <= dur ex_tree).
Proof.
  split; [vm_compute; reflexivity|]. split.
  - repeat constructor; simpl; intuition lia.
  - change (dur ex_tree) with 55. simpl. intuition lia.
Qed.
Example ex_multi_starts : forall parts, split_at ex_tree [5; 35; 50] false = Ok parts ->
  starts parts = [0; 5; 35; 50] /\ map dur parts = [5; 30; 15; 5] /\ dsum parts = dur ex_tree.
Proof. intros parts. rewrite ex_split_multi. intros H. inversion H; subst. vm_compute. auto. Qed.
(* cuts at the ends, and a cut exactly at the end of a voice with a trailing zero-length child *)
Example ex_split_ends : split_at ex_tree [0; 55] false = Ok [ex_tree].
Proof. vm_compute. reflexivity. Qed.
Example ex_split_sim_rows : split_at (Sim meta0 [Seq meta0 [Leaf 10 1; Leaf 0 2]; Leaf 25 3; Leaf 0 9]) [10; 20] false =
  Ok [Sim meta0 [Seq meta0 [Leaf 10 1]; Leaf 10 3];
      Sim meta0 [Seq meta0 [Leaf 0 2]; Leaf 10 3];
      Sim meta0 [Leaf 5 3]].
Proof. vm_compute. reflexivity. Qed.

Print Assumptions split_multi_gen.
Print Assumptions split_windows.
Print Assumptions split_total.
Print Assumptions split_tiles.
Print Assumptions split_tiles_ignore.
Print Assumptions split_boundaries.
Print Assumptions split_durations.
Print Assumptions split_fuel.
Print Assumptions split_single_zero.
