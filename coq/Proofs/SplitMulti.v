(* Stage C: split_at with several cuts.  Part j of the result is exactly the j-th window between
   consecutive (positive) split times; this per-index alignment is what the rows of a Concurrence need. *)
From Coq Require Import ZArith List Bool Lia ZifyBool Arith Permutation.
From MV Require Import Base.Res Model.EventTree Model.TreeOps Proofs.TreeLemmas Proofs.CutOut
  Proofs.SplitBase Proofs.SplitSingle Proofs.SplitSort Proofs.SplitLoop.
Import ListNotations.
Open Scope Z_scope.

(* ------------------------------------------------------------ windows *)
Definition hi_lt (x : Z) (hi : option Z) : bool := match hi with Some h => x <? h | None => true end.
Definition win_at (e : ev) (lo : Z) (hi : option Z) (x : Z) : option slice :=
  if (0 <=? x) && hi_lt (lo + x) hi then at_ e (lo + x) else None.
Definition win_dur (e : ev) (lo : Z) (hi : option Z) : Z :=
  Z.max 0 (match hi with Some h => Z.min h (dur e) | None => dur e end - lo).
(* p is the window [lo, hi) of e (hi = None: no upper bound) *)
Definition is_win (e : ev) (lo : Z) (hi : option Z) (p : ev) : Prop :=
  wf p /\ (height p <= height e)%nat /\ same_shape e p /\ dur p = win_dur e lo hi /\ forall x, at_ p x = win_at e lo hi x.

(* the parts ps are, in order, the windows [lo,b0), [b0,b1), ..., [bk,oo) of e; trailing windows may be
   missing only when nothing of e is left *)
Fixpoint aligned (e : ev) (lo : Z) (bs : list Z) (ps : list ev) {struct ps} : Prop :=
  match ps with
  | [] => dur e <= lo
  | p :: ps' => match bs with
                | [] => ps' = [] /\ is_win e lo None p
                | b :: bs' => is_win e lo (Some b) p /\ aligned e b bs' ps'
                end
  end.

Definition hi_ok (lo : Z) (hi : option Z) : Prop := match hi with Some h => lo < h | None => True end.

Lemma win_at_empty e lo hi x : wf e -> dur e <= lo -> win_at e lo hi x = None.
Proof.
  intros We H. unfold win_at. destruct ((0 <=? x) && hi_lt (lo + x) hi) eqn:E; [|reflexivity].
  apply at_outside; [assumption|lia].
Qed.
Lemma win_dur_empty e lo hi : wf e -> dur e <= lo -> win_dur e lo hi = 0.
Proof. intros We H. unfold win_dur. destruct hi; lia. Qed.
Lemma win_dur_zero e lo hi : hi_ok lo hi -> win_dur e lo hi = 0 -> dur e <= lo.
Proof. unfold win_dur, hi_ok. destruct hi; lia. Qed.

Lemma is_win_empty e lo hi lo' hi' p : wf e -> dur e <= lo -> dur e <= lo' -> is_win e lo hi p -> is_win e lo' hi' p.
Proof.
  intros We H H' (W & Hh & S & D & A). unfold is_win. rewrite win_dur_empty in * by assumption.
  repeat split; auto. intros x. rewrite A, !win_at_empty by assumption. reflexivity.
Qed.

Lemma aligned_shift e : wf e -> forall ps lo b bs, dur e <= lo -> lo <= b -> sorted (b :: bs) ->
  aligned e b bs ps -> aligned e lo (b :: bs) ps.
Proof.
  intros We. induction ps as [|p ps IH]; intros lo b bs Hlo Hb Hs H; [simpl; lia|].
  destruct bs as [|b' bs'].
  - destruct H as [-> Hw]. cbn [aligned]. split; [|lia].
    apply (is_win_empty e b None); auto; lia.
  - destruct H as [Hw Ha]. cbn [aligned]. cbn [aligned] in IH. split.
    + apply (is_win_empty e b (Some b')); auto; lia.
    + destruct Hs as [Hs1 Hs2]. apply IH; auto; try lia. apply Hs1. left. reflexivity.
Qed.

Lemma aligned_length e lo bs ps : aligned e lo bs ps -> (length ps <= S (length bs))%nat.
Proof.
  revert lo bs. induction ps as [|p ps IH]; intros lo bs H; [simpl; lia|].
  destruct bs as [|b bs'].
  - destruct H as [-> _]. cbn [length]. lia.
  - destruct H as [_ H]. apply IH in H. cbn [length]. lia.
Qed.

Lemma aligned_transfer e e' lo bs ps : aligned e' lo bs ps ->
  (forall x, at_ e' x = at_ e x) -> dur e' = dur e -> (height e' <= height e)%nat ->
  (forall p, same_shape e' p -> same_shape e p) -> aligned e lo bs ps.
Proof.
  intros H Ha Hd Hh Hs.
  assert (G : forall lo hi p, is_win e' lo hi p -> is_win e lo hi p).
  { intros lo0 hi p (W & H1 & S & D & A). unfold is_win, win_dur, win_at in *. rewrite Hd in D.
    repeat split; auto; [lia|]. intros x. rewrite A, Ha. reflexivity. }
  revert lo bs H. induction ps as [|p ps IH]; intros lo bs H; [simpl in *; lia|].
  destruct bs as [|b bs']; cbn [aligned] in *.
  - destruct H as [-> Hw]. auto.
  - destruct H as [Hw H]. auto.
Qed.

(* C1 from alignment: the parts tile e from lo on *)
Lemma aligned_tiles e : wf e -> forall ps lo bs, 0 <= lo -> ssorted (lo :: bs) -> aligned e lo bs ps ->
  dsum ps = Z.max 0 (dur e - lo) /\ (forall x, at_seq ps x = if 0 <=? x then at_ e (lo + x) else None) /\
  wfs ps /\ Forall (same_shape e) ps /\ (hmax ps <= height e)%nat.
Proof.
  intros We. pose proof (dur_nonneg e We) as Hnn.
  induction ps as [|p ps IH]; intros lo bs Hlo Hs H.
  - simpl in H. split; [simpl; lia|]. split; [|split; [exact I|split; [constructor|simpl; lia]]].
    intros x. rewrite at_seq_nil. destruct (0 <=? x) eqn:E; [|reflexivity]. symmetry. apply at_outside; [assumption|lia].
  - destruct bs as [|b bs']; cbn [aligned] in H.
    + destruct H as [-> (W & Hh & S & D & A)]. unfold win_dur in D.
      split; [rewrite dsum_cons; simpl; lia|]. split; [|split; [exact (conj W I)|split; [repeat constructor; assumption|simpl; lia]]].
      intros x. rewrite at_seq_single, A by assumption. unfold win_at. simpl hi_lt. rewrite andb_true_r. reflexivity.
    + destruct H as [(W & Hh & S & D & A) H]. destruct Hs as [Hs1 Hs2].
      assert (Hb : lo < b) by (apply Hs1; left; reflexivity).
      destruct (IH b bs' ltac:(lia) Hs2 H) as (I1 & I2 & I3 & I4 & I5). unfold win_dur in D.
      split; [rewrite dsum_cons; lia|].
      split; [|split; [exact (conj W I3)|split; [constructor; assumption|rewrite hmax_cons; lia]]].
      intros x. rewrite at_seq_cons, A, I2, D. unfold win_at. cbn [hi_lt].
      destruct (0 <=? x) eqn:E0; cbn [andb].
      * destruct (x <? Z.max 0 (Z.min b (dur e) - lo)) eqn:E1.
        -- destruct (lo + x <? b) eqn:E2; [reflexivity|lia].
        -- destruct (0 <=? x - Z.max 0 (Z.min b (dur e) - lo)) eqn:E2; [|lia].
           destruct (b <=? dur e) eqn:E3; [f_equal; lia|].
           rewrite !at_outside; auto; lia.
      * destruct (0 <=? x - Z.max 0 (Z.min b (dur e) - lo)) eqn:E2; [lia|reflexivity].
Qed.
