(* Resampling an envelope over the reals: the splitting law of the exponential segment, a
   compositional description of the real-time curve, and the theorem that Envelope.sample_at /
   extend_until add a control point without changing the value at any time. *)
From Coq Require Import ZArith List Bool Reals Lra Lia.
From MV Require Import Base.Res Model.EventTree Model.TreeOps Model.Num Model.Envelope Proofs.RNum.
Import ListNotations.
Local Open Scope R_scope.

(* ================================================================ 1. the segment curve *)

Lemma exp_m1_neq0 c : c <> 0 -> exp c - 1 <> 0.
Proof.
  intros H E. assert (E1 : exp c = exp 0) by (rewrite exp_0; lra).
  apply exp_inv in E1. contradiction.
Qed.

Lemma segR_const v c p : segR v v c p = v.
Proof. unfold segR. destruct (Req_EM_T c 0); [ring|]. unfold Rdiv. ring. Qed.

Lemma segR_0 v0 v1 c : segR v0 v1 c 0 = v0.
Proof.
  unfold segR. destruct (Req_EM_T c 0); [ring|]. rewrite Rmult_0_r, exp_0.
  pose proof (exp_m1_neq0 c n). field. exact H.
Qed.

Lemma segR_1 v0 v1 c : segR v0 v1 c 1 = v1.
Proof.
  unfold segR. destruct (Req_EM_T c 0); [ring|]. rewrite Rmult_1_r.
  pose proof (exp_m1_neq0 c n). field. exact H.
Qed.

(* the splitting law: the part of a segment before / after the normalised time q is again a segment,
   with the shares q*c and (1-q)*c of the curve shape *)
Lemma segR_split_left v0 v1 c q u : q <> 0 ->
  segR v0 v1 c (q * u) = segR v0 (segR v0 v1 c q) (c * q) u.
Proof.
  intros Hq. unfold segR.
  destruct (Req_EM_T c 0) as [C|C].
  - destruct (Req_EM_T (c * q) 0) as [C'|C']; [ring|]. exfalso; apply C'. rewrite C; ring.
  - destruct (Req_EM_T (c * q) 0) as [C'|C'].
    + exfalso. apply Rmult_integral in C'. tauto.
    + pose proof (exp_m1_neq0 c C). pose proof (exp_m1_neq0 (c * q) C').
      replace (c * (q * u)) with (c * q * u) by ring.
      field. split; assumption.
Qed.

Lemma segR_split_right v0 v1 c q u : q <> 1 ->
  segR v0 v1 c (q + (1 - q) * u) = segR (segR v0 v1 c q) v1 (c * (1 - q)) u.
Proof.
  intros Hq. unfold segR.
  destruct (Req_EM_T c 0) as [C|C].
  - destruct (Req_EM_T (c * (1 - q)) 0) as [C'|C']; [ring|]. exfalso; apply C'. rewrite C; ring.
  - destruct (Req_EM_T (c * (1 - q)) 0) as [C'|C'].
    + exfalso. apply Rmult_integral in C'. destruct C' as [C'|C']; [tauto|lra].
    + pose proof (exp_m1_neq0 (c * (1 - q)) C') as Hb.
      assert (Ec : exp c = exp (c * q) * exp (c * (1 - q))).
      { rewrite <- exp_plus. f_equal. ring. }
      assert (Eu : exp (c * (q + (1 - q) * u)) = exp (c * q) * exp (c * (1 - q) * u)).
      { rewrite <- exp_plus. f_equal. ring. }
      pose proof (exp_m1_neq0 c C) as Hc. rewrite Eu. rewrite Ec in *.
      set (a := exp (c * q)) in *. set (b := exp (c * (1 - q))) in *.
      set (w := exp (c * (1 - q) * u)).
      field. split; assumption.
Qed.

(* ================================================================ 2. the curve, compositionally *)

(* curve_go on a non-empty list *)
Definition cg (t0 : R) (l : envR) (x : R) : R :=
  match l with [] => 0 | p :: r => curve_go t0 p r x end.

Lemma curve_cg p r x : curve (p :: r) x = if Rle_dec x 0 then pv p else cg 0 (p :: r) x.
Proof. reflexivity. Qed.

Lemma pdur_app {F} (X Y : env F) : pdur F (X ++ Y) = (pdur F X + pdur F Y)%Z.
Proof. induction X as [|a X IH]; simpl; [reflexivity|]. rewrite IH. lia. Qed.

Lemma pwf_app (X Y : envR) : pwf (X ++ Y) <-> pwf X /\ pwf Y.
Proof. unfold pwf. apply Forall_app. Qed.

Lemma pwf_cons (a : ptR) (X : envR) : pwf (a :: X) <-> (0 <= pd a)%Z /\ pwf X.
Proof. unfold pwf. split; [intros H; inversion H; auto|intros [H1 H2]; constructor; auto]. Qed.

Lemma pdur_nonneg (X : envR) : pwf X -> (0 <= pdur R X)%Z.
Proof.
  induction X as [|a X IH]; simpl; intros H; [lia|].
  apply pwf_cons in H. destruct H as [H1 H2]. specialize (IH H2). lia.
Qed.

Lemma tofR_nonneg z : (0 <= z)%Z -> 0 <= tofR z.
Proof. intros H. rewrite <- tofR_0. apply tofR_le; exact H. Qed.
Lemma tofR_pos z : (0 < z)%Z -> 0 < tofR z.
Proof. intros H. rewrite <- tofR_0. apply tofR_lt; exact H. Qed.

Lemma curve_go_t0 t0 t0' p r x : t0 = t0' -> curve_go t0 p r x = curve_go t0' p r x.
Proof. intros ->; reflexivity. Qed.
Lemma cg_t0 t0 t0' l x : t0 = t0' -> cg t0 l x = cg t0' l x.
Proof. intros ->; reflexivity. Qed.

Lemma curve_go_cons t0 a z Z x :
  curve_go t0 a (z :: Z) x =
  if Rlt_dec x (t0 + tofR (pd a))
  then segR (pv a) (pv z) (pc a) ((x - t0) / (t0 + tofR (pd a) - t0))
  else curve_go (t0 + tofR (pd a)) z Z x.
Proof. reflexivity. Qed.

Lemma curve_go_ge t0 a l x : t0 + tofR (pd a) <= x -> l <> [] ->
  curve_go t0 a l x = cg (t0 + tofR (pd a)) l x.
Proof.
  intros H Hl. destruct l as [|z Z]; [congruence|]. rewrite curve_go_cons.
  destruct (Rlt_dec x (t0 + tofR (pd a))); [lra|reflexivity].
Qed.

(* beyond a prefix, only the rest matters *)
Lemma cg_skip : forall (X : envR) t0 y Y x, pwf X -> t0 + tofR (pdur R X) <= x ->
  cg t0 (X ++ y :: Y) x = curve_go (t0 + tofR (pdur R X)) y Y x.
Proof.
  induction X as [|a X IH]; intros t0 y Y x W H.
  - simpl. apply curve_go_t0. rewrite tofR_0. ring.
  - apply pwf_cons in W. destruct W as [Wa WX].
    simpl pdur in *. rewrite tofR_plus in *.
    pose proof (tofR_nonneg _ (pdur_nonneg X WX)).
    change (cg t0 ((a :: X) ++ y :: Y) x) with (curve_go t0 a (X ++ y :: Y) x).
    rewrite curve_go_ge; [|lra|destruct X; discriminate].
    rewrite IH; [|exact WX|lra]. apply curve_go_t0. ring.
Qed.

(* the curve after a common prefix depends only on the rest's first value and the rest's curve *)
Lemma cg_congr : forall (X : envR) t0 y Y y' Y' x, pv y = pv y' ->
  (forall x, curve_go (t0 + tofR (pdur R X)) y Y x = curve_go (t0 + tofR (pdur R X)) y' Y' x) ->
  cg t0 (X ++ y :: Y) x = cg t0 (X ++ y' :: Y') x.
Proof.
  induction X as [|a X IH]; intros t0 y Y y' Y' x Hv H.
  - simpl in *. rewrite tofR_0 in H. rewrite <- (curve_go_t0 (t0 + 0) t0) by ring.
    rewrite H. apply curve_go_t0. ring.
  - change (cg t0 ((a :: X) ++ y :: Y) x) with (curve_go t0 a (X ++ y :: Y) x).
    change (cg t0 ((a :: X) ++ y' :: Y') x) with (curve_go t0 a (X ++ y' :: Y') x).
    assert (Hrec : cg (t0 + tofR (pd a)) (X ++ y :: Y) x = cg (t0 + tofR (pd a)) (X ++ y' :: Y') x).
    { apply IH; [exact Hv|]. intros x'. simpl pdur in H. rewrite tofR_plus in H.
      rewrite (curve_go_t0 _ (t0 + (tofR (pd a) + tofR (pdur R X)))) by ring.
      rewrite H. apply curve_go_t0. ring. }
    destruct X as [|b X].
    + simpl app in *. rewrite !curve_go_cons. rewrite Hv.
      destruct (Rlt_dec x (t0 + tofR (pd a))); [reflexivity|]. exact Hrec.
    + simpl app in *. rewrite !curve_go_cons.
      destruct (Rlt_dec x (t0 + tofR (pd a))); [reflexivity|]. exact Hrec.
Qed.

Lemma curve_congr (X : envR) y Y y' Y' : pv y = pv y' ->
  (forall x, curve_go (tofR (pdur R X)) y Y x = curve_go (tofR (pdur R X)) y' Y' x) ->
  forall x, curve (X ++ y :: Y) x = curve (X ++ y' :: Y') x.
Proof.
  intros Hv H x.
  assert (G : cg 0 (X ++ y :: Y) x = cg 0 (X ++ y' :: Y') x).
  { apply cg_congr; [exact Hv|]. intros x'.
    rewrite (curve_go_t0 _ (tofR (pdur R X))) by ring. rewrite H. apply curve_go_t0. ring. }
  destruct X as [|a X]; simpl app in *; rewrite !curve_cg; destruct (Rle_dec x 0); auto.
Qed.

(* time shift *)
Lemma curve_go_shift : forall r p t0 x a, curve_go (t0 + a) p r (x + a) = curve_go t0 p r x.
Proof.
  induction r as [|q r IH]; intros p t0 x a; [reflexivity|].
  rewrite !curve_go_cons.
  destruct (Rlt_dec (x + a) (t0 + a + tofR (pd p))); destruct (Rlt_dec x (t0 + tofR (pd p))); try lra.
  - f_equal. f_equal; ring.
  - rewrite <- (IH q (t0 + tofR (pd p)) x a). apply curve_go_t0. ring.
Qed.

Lemma curve_go_const : forall r p t0 x, Forall (fun q : ptR => pv q = pv p) r -> curve_go t0 p r x = pv p.
Proof.
  induction r as [|q r IH]; intros p t0 x H; [reflexivity|].
  inversion H as [|? ? Hq Hr]; subst. rewrite curve_go_cons.
  destruct (Rlt_dec x (t0 + tofR (pd p))).
  - rewrite Hq. apply segR_const.
  - rewrite IH; [exact Hq|]. rewrite Hq. exact Hr.
Qed.

(* (iii) replacing the last point by points of the same value *)
Lemma curve_tail_const (X : envR) p p' tail : pv p' = pv p -> Forall (fun q : ptR => pv q = pv p) tail ->
  forall x, curve (X ++ [p]) x = curve (X ++ p' :: tail) x.
Proof.
  intros Hv Ht. apply curve_congr; [auto|]. intros x.
  rewrite (curve_go_const tail p'); [simpl; auto|].
  eapply Forall_impl; [|exact Ht]. intros a Ha; simpl in *; congruence.
Qed.

(* (ii) the local replacement: dividing one segment *)
Lemma curve_go_divide p q back d1 d2 t0 :
  (0 < d1)%Z -> (0 < d2)%Z -> (d1 + d2 = pd p)%Z ->
  let Q := tofR d1 / tofR (pd p) in
  forall x,
  curve_go t0 p (q :: back) x =
  curve_go t0 (mkPt d1 (pv p) (Q * pc p))
    (mkPt d2 (segR (pv p) (pv q) (pc p) Q) (pc p - Q * pc p) :: q :: back) x.
Proof.
  intros H1 H2 Hd Q x.
  assert (P1 := tofR_pos _ H1). assert (P2 := tofR_pos _ H2).
  assert (ED : tofR (pd p) = tofR d1 + tofR d2) by (rewrite <- Hd; apply tofR_plus).
  assert (Q0 : Q <> 0). { unfold Q. intros E. apply Rmult_integral in E. destruct E as [E|E]; [lra|].
    assert (0 < / tofR (pd p)) by (apply Rinv_0_lt_compat; lra). lra. }
  assert (Q1 : Q <> 1). { unfold Q. intros E. apply (f_equal (fun z => z * tofR (pd p))) in E.
    unfold Rdiv in E. rewrite Rmult_assoc, Rinv_l in E; lra. }
  rewrite !curve_go_cons. cbn [pd pv pc].
  destruct (Rlt_dec x (t0 + tofR d1)) as [L1|L1].
  - destruct (Rlt_dec x (t0 + tofR (pd p))) as [L|L]; [|lra].
    replace ((x - t0) / (t0 + tofR (pd p) - t0)) with (Q * ((x - t0) / (t0 + tofR d1 - t0)))
      by (unfold Q; field; lra).
    rewrite segR_split_left by exact Q0. f_equal. ring.
  - destruct (Rlt_dec x (t0 + tofR d1 + tofR d2)) as [L2|L2];
      destruct (Rlt_dec x (t0 + tofR (pd p))) as [L|L]; try lra.
    + replace ((x - t0) / (t0 + tofR (pd p) - t0))
        with (Q + (1 - Q) * ((x - (t0 + tofR d1)) / (t0 + tofR d1 + tofR d2 - (t0 + tofR d1))))
        by (unfold Q; rewrite ED; field; lra).
      rewrite segR_split_right by exact Q1. f_equal. ring.
    + apply curve_go_t0. lra.
Qed.

Lemma curve_divide (front : envR) p q back d1 d2 :
  (0 < d1)%Z -> (0 < d2)%Z -> (d1 + d2 = pd p)%Z ->
  let Q := tofR d1 / tofR (pd p) in
  forall x,
  curve (front ++ p :: q :: back) x =
  curve (front ++ mkPt d1 (pv p) (Q * pc p)
           :: mkPt d2 (segR (pv p) (pv q) (pc p) Q) (pc p - Q * pc p) :: q :: back) x.
Proof.
  intros H1 H2 Hd Q. apply curve_congr; [reflexivity|]. intros x.
  apply curve_go_divide; assumption.
Qed.

(* value of the curve inside a segment *)
Lemma curve_in_segment (front : envR) p q back x : pwf front ->
  tofR (pdur R front) <= x -> x < tofR (pdur R front) + tofR (pd p) -> 0 < x ->
  curve (front ++ p :: q :: back) x =
  segR (pv p) (pv q) (pc p) ((x - tofR (pdur R front)) / tofR (pd p)).
Proof.
  intros W H1 H2 H0.
  assert (G : cg 0 (front ++ p :: q :: back) x =
              segR (pv p) (pv q) (pc p) ((x - tofR (pdur R front)) / tofR (pd p))).
  { rewrite cg_skip; [|exact W|lra]. rewrite curve_go_cons.
    destruct (Rlt_dec x (0 + tofR (pdur R front) + tofR (pd p))); [|lra].
    f_equal. f_equal; ring. }
  destruct front as [|a X]; simpl app in *; rewrite curve_cg; destruct (Rle_dec x 0); try lra; exact G.
Qed.

(* value of the curve from the last point on *)
Lemma curve_after_last (front : envR) p x : pwf front -> tofR (pdur R front) <= x -> 0 < x ->
  curve (front ++ [p]) x = pv p.
Proof.
  intros W H1 H0.
  assert (G : cg 0 (front ++ [p]) x = pv p). { rewrite cg_skip; [reflexivity|exact W|lra]. }
  destruct front as [|a X]; simpl app in *; rewrite curve_cg; destruct (Rle_dec x 0); try lra; exact G.
Qed.

(* ================================================================ 3. list surgery on points (any F) *)
Local Open Scope Z_scope.

Definition gwf {F} (e : env F) : Prop := Forall (fun p : pt F => 0 <= pd p) e.
Lemma pwf_gwf (e : envR) : pwf e = gwf e. Proof. reflexivity. Qed.

Section Gen.
  Context {F : Type}.
  Implicit Types (e X Y : env F) (p q : pt F).

  Lemma gwf_cons p X : gwf (p :: X) <-> 0 <= pd p /\ gwf X.
  Proof. unfold gwf. split; [intros H; inversion H; auto|intros [H1 H2]; constructor; auto]. Qed.
  Lemma gwf_app X Y : gwf (X ++ Y) <-> gwf X /\ gwf Y.
  Proof. unfold gwf. apply Forall_app. Qed.
  Lemma gdur_nonneg X : gwf X -> 0 <= pdur F X.
  Proof.
    induction X as [|a X IH]; simpl; intros H; [lia|].
    apply gwf_cons in H. destruct H as [H1 H2]. specialize (IH H2). lia.
  Qed.

  Lemma pstarts_from_app X : forall t0 Y,
    pstarts_from F t0 (X ++ Y) = pstarts_from F t0 X ++ pstarts_from F (t0 + pdur F X) Y.
  Proof.
    induction X as [|a X IH]; intros t0 Y; simpl.
    - f_equal. lia.
    - f_equal. rewrite IH. f_equal. f_equal. lia.
  Qed.

  Lemma pstarts_from_length X : forall t0, length (pstarts_from F t0 X) = length X.
  Proof. induction X as [|a X IH]; intros t0; simpl; [reflexivity|]. rewrite IH. reflexivity. Qed.

  Lemma starts_bounds X : forall t0 z, gwf X -> In z (pstarts_from F t0 X) -> t0 <= z <= t0 + pdur F X.
  Proof.
    induction X as [|a X IH]; intros t0 z W H; simpl in *; [tauto|].
    apply gwf_cons in W. destruct W as [Wa WX]. pose proof (gdur_nonneg X WX).
    destruct H as [H|H]; [lia|]. apply IH in H; [lia|exact WX].
  Qed.

  (* a time that is no control point and lies before the end is strictly inside one event *)
  Lemma split_inside t : forall e t0, gwf e -> t0 <= t < t0 + pdur F e -> ~ In t (pstarts_from F t0 e) ->
    exists front p back, e = front ++ p :: back /\
      t0 + pdur F front < t < t0 + pdur F front + pd p.
  Proof.
    induction e as [|a e IH]; intros t0 W H N; simpl in *; [lia|].
    apply gwf_cons in W. destruct W as [Wa We].
    assert (t0 <> t) by tauto.
    destruct (Z_lt_le_dec t (t0 + pd a)) as [L|L].
    - exists [], a, e. simpl. split; [reflexivity|lia].
    - destruct (IH (t0 + pd a) We) as (front & p & back & E & B); [lia|tauto|].
      exists (a :: front), p, back. simpl. split; [rewrite E; reflexivity|lia].
  Qed.

  Lemma memZ_In t l : memZ t l = true <-> In t l.
  Proof.
    induction l as [|y l IH]; simpl; [split; [discriminate|tauto]|].
    rewrite orb_true_iff, IH, Z.eqb_eq. split; intros [H|H]; auto.
  Qed.

  Lemma index_of_notin t l : ~ In t l -> index_of t l = None.
  Proof.
    induction l as [|y l IH]; simpl; intros H; [reflexivity|].
    destruct (Z.eqb_spec t y); [exfalso; auto|]. rewrite IH; [reflexivity|tauto].
  Qed.

  Lemma index_of_first t l1 l2 : ~ In t l1 -> index_of t (l1 ++ t :: l2) = Some (length l1).
  Proof.
    induction l1 as [|y l IH]; simpl; intros H.
    - rewrite Z.eqb_refl. reflexivity.
    - destruct (Z.eqb_spec t y); [exfalso; auto|]. rewrite IH; [reflexivity|tauto].
  Qed.

  Lemma bisect_right_app t l1 l2 : Forall (fun z => z <= t) l1 ->
    bisect_right (l1 ++ l2) t = (length l1 + bisect_right l2 t)%nat.
  Proof.
    induction l1 as [|y l IH]; simpl; intros H; [reflexivity|].
    inversion H; subst. destruct (Z.leb_spec y t); [|lia]. rewrite IH; auto.
  Qed.

  Lemma bisect_right_all t l : Forall (fun z => z <= t) l -> bisect_right l t = length l.
  Proof.
    intros H. rewrite <- (app_nil_r l) at 1. rewrite bisect_right_app by exact H. simpl. lia.
  Qed.

  Lemma starts_le X t0 t : gwf X -> t0 + pdur F X <= t -> Forall (fun z => z <= t) (pstarts_from F t0 X).
  Proof. intros W H. apply Forall_forall. intros z Hz. apply starts_bounds in Hz; [lia|exact W]. Qed.

  Lemma firstn_app_length {A} (X Y : list A) : firstn (length X) (X ++ Y) = X.
  Proof. rewrite firstn_app, Nat.sub_diag, firstn_all. simpl. apply app_nil_r. Qed.
  Lemma skipn_app_length {A} (X Y : list A) : skipn (length X) (X ++ Y) = Y.
  Proof. rewrite skipn_app, Nat.sub_diag, skipn_all. reflexivity. Qed.
  Lemma skipn_S_app_length {A} (X Y : list A) a : skipn (S (length X)) (X ++ a :: Y) = Y.
  Proof.
    replace (S (length X)) with (length (X ++ [a])) by (rewrite app_length; simpl; lia).
    replace (X ++ a :: Y) with ((X ++ [a]) ++ Y) by (rewrite <- app_assoc; reflexivity).
    apply skipn_app_length.
  Qed.
  Lemma nth_error_app_length {A} (X Y : list A) a : nth_error (X ++ a :: Y) (length X) = Some a.
  Proof. rewrite nth_error_app2, Nat.sub_diag by lia. reflexivity. Qed.

  Lemma set_shape_app X p Y c :
    set_shape F (length X) c (X ++ p :: Y) = X ++ mkPt (pd p) (pv p) c :: Y.
  Proof.
    unfold set_shape. rewrite nth_error_app_length. unfold replace_at.
    rewrite firstn_app_length, skipn_S_app_length. reflexivity.
  Qed.

  Lemma insert_at_app {A} (X Y : list A) a : insert_at (length X) a (X ++ Y) = X ++ a :: Y.
  Proof. unfold insert_at. rewrite firstn_app_length, skipn_app_length. reflexivity. Qed.

  (* ---- p_cut_off *)
  Lemma p_cut_off_app s en X : forall t0 Y,
    p_cut_off F s en t0 (X ++ Y) = p_cut_off F s en t0 X ++ p_cut_off F s en (t0 + pdur F X) Y.
  Proof.
    induction X as [|a X IH]; intros t0 Y.
    - simpl. f_equal. lia.
    - simpl app. simpl pdur. cbn [p_cut_off]. cbv zeta. rewrite !IH.
      replace (t0 + (pd a + pdur F X)) with (t0 + pd a + pdur F X) by lia.
      repeat match goal with |- context [if ?c then _ else _] => destruct c end; reflexivity.
  Qed.

  (* events that start before s and end at or before s are untouched *)
  Lemma p_cut_off_before s en X : forall t0, gwf X -> s < en -> t0 + pdur F X <= s ->
    Forall (fun z => z < s) (pstarts_from F t0 X) -> p_cut_off F s en t0 X = X.
  Proof.
    induction X as [|a X IH]; intros t0 W L H S; [reflexivity|].
    apply gwf_cons in W. destruct W as [Wa WX]. pose proof (gdur_nonneg X WX).
    simpl in H, S. inversion S as [|? ? S1 S2]; subst.
    cbn [p_cut_off]. cbv zeta. rewrite IH; [|exact WX|exact L|lia|exact S2].
    unfold leaf_cut_off.
    destruct a as [d v c]; cbn [pd pv pc] in *.
    repeat match goal with |- context [if ?c then _ else _] => destruct c eqn:? end;
      try reflexivity; try lia; try (f_equal; lia).
  Qed.

  (* events that start at or after en are untouched *)
  Lemma p_cut_off_after s en X : forall t0, gwf X -> s < en -> en <= t0 -> p_cut_off F s en t0 X = X.
  Proof.
    induction X as [|a X IH]; intros t0 W L H; [reflexivity|].
    apply gwf_cons in W. destruct W as [Wa WX].
    cbn [p_cut_off]. cbv zeta. rewrite IH; [|exact WX|exact L|lia].
    repeat match goal with |- context [if ?c then _ else _] => destruct c eqn:? end;
      try reflexivity; try lia.
  Qed.

  (* the event that contains s strictly and ends at or before en is shortened to s *)
  Lemma p_cut_off_active s en t0 p : t0 < s < t0 + pd p -> t0 + pd p <= en ->
    p_cut_off F s en t0 [p] = [mkPt (s - t0) (pv p) (pc p)].
  Proof.
    intros H1 H2. cbn [p_cut_off]. cbv zeta. unfold leaf_cut_off.
    repeat match goal with |- context [if ?c then _ else _] => destruct c eqn:? end;
      try reflexivity; try lia; try (f_equal; f_equal; lia).
  Qed.
End Gen.

Section Gen2.
  Context {F : Type}.
  Implicit Types (e X Y : env F) (p q : pt F).

  Lemma bisect_right_none t l : Forall (fun z => t < z) l -> bisect_right l t = 0%nat.
  Proof. destruct l as [|y l]; simpl; intros H; [reflexivity|]. inversion H; subst. destruct (Z.leb_spec y t); [lia|reflexivity]. Qed.

  Lemma index_of_first' t z l1 l2 : z = t -> ~ In t l1 -> index_of t (l1 ++ z :: l2) = Some (length l1).
  Proof. intros ->. apply index_of_first. Qed.

  Lemma starts_lt X t0 t : gwf X -> t0 + pdur F X < t -> Forall (fun z => z < t) (pstarts_from F t0 X).
  Proof. intros W H. apply Forall_forall. intros z Hz. apply starts_bounds in Hz; [lia|exact W]. Qed.

  Lemma starts_gt X t0 t : gwf X -> t < t0 -> Forall (fun z => t < z) (pstarts_from F t0 X).
  Proof. intros W H. apply Forall_forall. intros z Hz. apply starts_bounds in Hz; [lia|exact W]. Qed.

  Lemma notin_lt t l : Forall (fun z => z < t) l -> ~ In t l.
  Proof. intros H N. rewrite Forall_forall in H. apply H in N. lia. Qed.

  (* facts about the event that strictly contains t *)
  Lemma inside_bisect front p back t : gwf (front ++ p :: back) ->
    pdur F front < t < pdur F front + pd p ->
    bisect_right (pstarts F (front ++ p :: back)) t = S (length front).
  Proof.
    intros W B. apply gwf_app in W. destruct W as [Wf W]. apply gwf_cons in W. destruct W as [Wp Wb].
    unfold pstarts. rewrite pstarts_from_app. cbn [pstarts_from].
    rewrite bisect_right_app.
    2:{ eapply Forall_impl; [|apply (starts_lt front 0 t Wf); lia]. intros; simpl in *; lia. }
    rewrite pstarts_from_length. cbn [bisect_right].
    destruct (Z.leb_spec (0 + pdur F front) t); [|lia].
    rewrite bisect_right_none; [lia|]. apply starts_gt; [exact Wb|lia].
  Qed.

  Lemma inside_next front p back :
    nth_error (pstarts F (front ++ p :: back)) (S (length front)) =
    match back with [] => None | _ => Some (pdur F front + pd p) end.
  Proof.
    unfold pstarts. rewrite pstarts_from_app. cbn [pstarts_from].
    rewrite nth_error_app2; rewrite pstarts_from_length; [|lia].
    replace (S (length front) - length front)%nat with 1%nat by lia. cbn [nth_error].
    destruct back; reflexivity.
  Qed.

  Lemma nth_starts front p back : nth (length front) (pstarts F (front ++ p :: back)) 0 = pdur F front.
  Proof.
    unfold pstarts. rewrite pstarts_from_app. cbn [pstarts_from].
    rewrite app_nth2; rewrite pstarts_from_length; [|lia]. rewrite Nat.sub_diag. reflexivity.
  Qed.

  Lemma inside_pindex front p back t : gwf (front ++ p :: back) ->
    pdur F front < t < pdur F front + pd p ->
    pindex_at F (front ++ p :: back) t = Some (length front).
  Proof.
    intros W B. unfold pindex_at, index_at_from. rewrite inside_bisect by assumption.
    pose proof W as W'. apply gwf_app in W'. destruct W' as [Wf W']. apply gwf_cons in W'. destruct W' as [Wp Wb].
    pose proof (gdur_nonneg _ Wf). pose proof (gdur_nonneg _ Wb).
    rewrite pdur_app. cbn [pdur].
    destruct (Z.ltb_spec t (pdur F front + (pd p + pdur F back))); [|lia].
    destruct (Z.leb_spec 0 t); [|lia]. reflexivity.
  Qed.

  Lemma p_cut_off_active' s en t0 p : t0 < s < t0 + pd p -> s < en ->
    p_cut_off F s en t0 [p] = [mkPt (pd p - (Z.min en (t0 + pd p) - s)) (pv p) (pc p)].
  Proof.
    intros H1 H2. cbn [p_cut_off]. cbv zeta. unfold leaf_cut_off.
    repeat match goal with |- context [if ?c then _ else _] => destruct c eqn:? end;
      try reflexivity; try lia; try (f_equal; f_equal; lia).
  Qed.

  (* cutting off [t, en) from front ++ p :: back when t lies strictly inside p and en <= the end of p
     or back is empty *)
  Lemma p_cut_off_inside front p back t en : gwf (front ++ p :: back) ->
    pdur F front < t < pdur F front + pd p -> t < en -> (en <= pdur F front + pd p \/ back = []) ->
    p_cut_off F t en 0 (front ++ p :: back) =
    front ++ mkPt (pd p - (Z.min en (pdur F front + pd p) - t)) (pv p) (pc p) :: back.
  Proof.
    intros W B L Hb. apply gwf_app in W. destruct W as [Wf W]. apply gwf_cons in W. destruct W as [Wp Wb].
    rewrite p_cut_off_app. rewrite (p_cut_off_before t en front 0 Wf L); [|lia|apply starts_lt; [exact Wf|lia]].
    f_equal. change (p :: back) with ([p] ++ back). rewrite p_cut_off_app.
    rewrite p_cut_off_active' by lia. cbn [app]. f_equal.
    destruct Hb as [Hb|Hb]; [|subst back; reflexivity].
    apply p_cut_off_after; [exact Wb|exact L|cbn [pdur]; lia].
  Qed.
End Gen2.

Section Gen3.
  Context {F : Type}.
  Implicit Types (e X Y : env F) (p q : pt F).

  Lemma notin_starts_snoc front p1 t : gwf front -> pdur F front < t ->
    ~ In t (pstarts_from F 0 (front ++ [p1])).
  Proof.
    intros Wf H. rewrite pstarts_from_app. cbn [pstarts_from]. intros N. apply in_app_or in N.
    destruct N as [N|[N|[]]]; [|lia]. apply starts_bounds in N; [lia|exact Wf].
  Qed.

  (* t strictly inside p, p followed by q, the new event lasts until the start of q *)
  Lemma squash_mid front p q back t new : gwf (front ++ p :: q :: back) ->
    pdur F front < t < pdur F front + pd p -> pd new = pdur F front + pd p - t ->
    p_squash F (front ++ p :: q :: back) t new =
    Ok (front ++ mkPt (t - pdur F front) (pv p) (pc p) :: new :: q :: back).
  Proof.
    intros W B Hn. pose proof W as W'.
    apply gwf_app in W'. destruct W' as [Wf W']. apply gwf_cons in W'. destruct W' as [Wp Wb].
    pose proof (gdur_nonneg _ Wf). pose proof (gdur_nonneg _ Wb).
    unfold p_squash, check_time. destruct (Z.ltb_spec t 0); [lia|]. cbn [bind]. cbv zeta.
    rewrite pdur_app. cbn [pdur] in *.
    destruct (Z.ltb_spec (pdur F front + (pd p + (pd q + pdur F back))) t); [lia|].
    destruct (Z.ltb_spec 0 (pd new)); [|lia].
    rewrite p_cut_off_inside; [|exact W|exact B|lia|left; lia].
    replace (pd p - (Z.min (t + pd new) (pdur F front + pd p) - t)) with (t - pdur F front) by lia.
    set (p1 := mkPt (t - pdur F front) (pv p) (pc p)).
    change (front ++ p1 :: q :: back) with (front ++ [p1] ++ q :: back). rewrite app_assoc.
    unfold pstarts. rewrite pstarts_from_app. cbn [pstarts_from].
    rewrite index_of_first'.
    - rewrite pstarts_from_length, insert_at_app. rewrite <- app_assoc. reflexivity.
    - rewrite pdur_app. cbn [pdur pd p1]. lia.
    - apply notin_starts_snoc; [exact Wf|lia].
  Qed.

  (* t strictly inside the last event p, the new event reaches the end of p or further *)
  Lemma squash_last_long front p t new : gwf (front ++ [p]) ->
    pdur F front < t < pdur F front + pd p -> pdur F front + pd p - t <= pd new ->
    p_squash F (front ++ [p]) t new =
    Ok (front ++ [mkPt (t - pdur F front) (pv p) (pc p); new]).
  Proof.
    intros W B Hn. pose proof W as W'.
    apply gwf_app in W'. destruct W' as [Wf W']. apply gwf_cons in W'. destruct W' as [Wp Wb].
    pose proof (gdur_nonneg _ Wf).
    unfold p_squash, check_time. destruct (Z.ltb_spec t 0); [lia|]. cbn [bind]. cbv zeta.
    rewrite pdur_app. cbn [pdur] in *.
    destruct (Z.ltb_spec (pdur F front + (pd p + 0)) t); [lia|].
    destruct (Z.ltb_spec 0 (pd new)); [|lia].
    rewrite p_cut_off_inside; [|exact W|exact B|lia|right; reflexivity].
    replace (pd p - (Z.min (t + pd new) (pdur F front + pd p) - t)) with (t - pdur F front) by lia.
    set (p1 := mkPt (t - pdur F front) (pv p) (pc p)).
    rewrite index_of_notin by (apply notin_starts_snoc; [exact Wf|lia]).
    rewrite pdur_app. cbn [pdur pd p1].
    destruct (Z.leb_spec (pdur F front + (t - pdur F front + 0)) t); [|lia].
    rewrite <- app_assoc. reflexivity.
  Qed.

  (* t strictly inside the last event p, the new event ends before the end of p *)
  Lemma squash_last_short front p t new : gwf (front ++ [p]) ->
    pdur F front < t < pdur F front + pd p -> 0 <= pd new < pdur F front + pd p - t ->
    p_squash F (front ++ [p]) t new =
    Ok (front ++ [mkPt (t - pdur F front) (pv p) (pc p); new;
                  mkPt (pd p - pd new - (t - pdur F front)) (pv p) (pc p)]).
  Proof.
    intros W B Hn. pose proof W as W'.
    apply gwf_app in W'. destruct W' as [Wf W']. apply gwf_cons in W'. destruct W' as [Wp Wb].
    pose proof (gdur_nonneg _ Wf).
    unfold p_squash, check_time. destruct (Z.ltb_spec t 0); [lia|]. cbn [bind]. cbv zeta.
    rewrite pdur_app. cbn [pdur] in *.
    destruct (Z.ltb_spec (pdur F front + (pd p + 0)) t); [lia|].
    assert (E1 : (if 0 <? pd new then p_cut_off F t (t + pd new) 0 (front ++ [p]) else front ++ [p]) =
                 front ++ [mkPt (pd p - pd new) (pv p) (pc p)]).
    { destruct (Z.ltb_spec 0 (pd new)).
      - rewrite p_cut_off_inside; [|exact W|exact B|lia|right; reflexivity].
        f_equal. f_equal. f_equal. lia.
      - f_equal. destruct p as [d v c]; cbn [pd pv pc] in *. f_equal. f_equal. lia. }
    rewrite E1. set (p1 := mkPt (pd p - pd new) (pv p) (pc p)).
    assert (W1 : gwf (front ++ [p1])).
    { apply gwf_app. split; [exact Wf|]. apply gwf_cons. split; [cbn; lia|constructor]. }
    rewrite index_of_notin by (apply notin_starts_snoc; [exact Wf|lia]).
    rewrite pdur_app. cbn [pdur pd p1].
    destruct (Z.leb_spec (pdur F front + (pd p - pd new + 0)) t); [lia|].
    unfold index_at_from. rewrite inside_bisect; [|exact W1|cbn [pd p1]; lia].
    destruct (Z.ltb_spec t (pdur F front + (pd p - pd new + 0))); [|lia].
    destruct (Z.leb_spec 0 t); [|lia]. cbn [andb Nat.pred].
    rewrite nth_starts, nth_error_app_length. cbn [pd p1 pv pc].
    destruct (Z.ltb_spec 0 (t - pdur F front)); [|lia].
    destruct (Z.ltb_spec (t - pdur F front) (pd p - pd new)); [|lia]. cbn [andb].
    rewrite firstn_app_length, skipn_S_app_length. f_equal.
    set (pa := mkPt (t - pdur F front) (pv p) (pc p)).
    change (front ++ pa :: ?x) with (front ++ [pa] ++ x). rewrite app_assoc.
    replace (S (length front)) with (length (front ++ [pa])) by (rewrite app_length; simpl; lia).
    rewrite insert_at_app. rewrite <- app_assoc. reflexivity.
  Qed.

  (* t is the end of the envelope and no control point *)
  Lemma squash_at_end e new : gwf e -> ~ In (pdur F e) (pstarts F e) -> 0 <= pd new ->
    p_squash F e (pdur F e) new = Ok (e ++ [new]).
  Proof.
    intros W N Hn. pose proof (gdur_nonneg _ W).
    unfold p_squash, check_time. destruct (Z.ltb_spec (pdur F e) 0); [lia|]. cbn [bind]. cbv zeta.
    rewrite Z.ltb_irrefl.
    assert (E1 : (if 0 <? pd new then p_cut_off F (pdur F e) (pdur F e + pd new) 0 e else e) = e).
    { destruct (Z.ltb_spec 0 (pd new)); [|reflexivity].
      apply p_cut_off_before; [exact W|lia|lia|].
      apply Forall_forall. intros z Hz. assert (z <> pdur F e) by (intros ->; exact (N Hz)).
      apply starts_bounds in Hz; [lia|exact W]. }
    rewrite E1. rewrite index_of_notin by exact N. rewrite Z.leb_refl. reflexivity.
  Qed.
End Gen3.

(* ================================================================ 4. sample_at over the reals *)

Lemma scale_segR' x a b v0 v1 c :
  scale R RNum x a b v0 v1 c = segR v0 v1 c ((x - a) / (b - a))%R.
Proof.
  unfold scale, segR. cbn [neqb nadd nsub nmul ndiv nexp n0 n1 RNum].
  destruct (Req_EM_T c 0); ring.
Qed.

Lemma va_go_curve' : forall rest p t0 t,
  va_go R RNum t0 p rest t = curve_go (tofR t0) p rest (tofR t).
Proof.
  induction rest as [|q rest IH]; intros p t0 t; [reflexivity|].
  cbn [va_go curve_go].
  destruct (Z.ltb_spec t (t0 + pd p)) as [L|L];
    destruct (Rlt_dec (tofR t) (tofR t0 + tofR (pd p))) as [L'|L'].
  - rewrite scale_segR'. rewrite !tof_RNum, tofR_plus. reflexivity.
  - exfalso; apply L'. rewrite <- tofR_plus. apply tofR_lt; exact L.
  - exfalso. rewrite <- tofR_plus in L'. apply tofR_lt_inv in L'. lia.
  - rewrite IH, tofR_plus. reflexivity.
Qed.

Lemma value_at_curve' (e : envR) t : e <> [] -> value_at R RNum e t = Ok (curve e (tofR t)).
Proof.
  destruct e as [|p rest]; intros H; [congruence|]. unfold value_at, curve. f_equal.
  destruct (Z.leb_spec t 0) as [L|L]; destruct (Rle_dec (tofR t) 0) as [L'|L'].
  - reflexivity.
  - exfalso; apply L'. rewrite <- tofR_0. apply tofR_le; exact L.
  - exfalso. rewrite <- tofR_0 in L'. apply tofR_le_inv in L'. lia.
  - rewrite va_go_curve'. rewrite tofR_0. reflexivity.
Qed.

Lemma cs_go_skip : forall (X : envR) t0 Y t, pwf X -> t0 + pdur R X <= t ->
  cs_go R RNum t0 (X ++ Y) t = cs_go R RNum (t0 + pdur R X) Y t.
Proof.
  induction X as [|a X IH]; intros t0 Y t W H.
  - simpl. f_equal. lia.
  - apply pwf_cons in W. destruct W as [Wa WX]. pose proof (pdur_nonneg X WX).
    simpl app. cbn [cs_go pdur] in *. destruct (Z.ltb_spec t (t0 + pd a)); [lia|].
    rewrite IH; [|exact WX|lia]. f_equal. lia.
Qed.

Lemma cs_go_all (X : envR) t0 t : pwf X -> t0 + pdur R X <= t -> cs_go R RNum t0 X t = 0%R.
Proof. intros W H. rewrite <- (app_nil_r X). rewrite cs_go_skip by assumption. reflexivity. Qed.

Lemma cs_go_head t0 (p : ptR) Y t : t < t0 + pd p ->
  cs_go R RNum t0 (p :: Y) t = (pc p - tofR (t - t0) / tofR (pd p) * pc p)%R.
Proof. intros H. cbn [cs_go]. destruct (Z.ltb_spec t (t0 + pd p)); [reflexivity|lia]. Qed.

Definition sample_body (e : envR) (t append : Z) : res envR :=
  _ <- check_time t ;
  let sts := pstarts R e in
  if memZ t sts then Ok e else
  v <- value_at R RNum e t ; c <- curve_shape_at R RNum e t ;
  let e1 := match pindex_at R e t with
            | Some i => match nth_error e i with Some p => set_shape R i (pc p - c)%R e | None => e end
            | None => e
            end in
  let newd := match nth_error sts (bisect_right sts t) with Some ns => ns - t | None => append end in
  let new := mkPt newd v c in
  if pdur R e1 <? t then
    match rev e1 with
    | [] => Err EIndexError
    | l :: r => Ok (rev r ++ [mkPt (pd l + (t - pdur R e1)) (pv l) (pc l); new])
    end
  else p_squash R e1 t new.

Lemma sample_at_body (e : envR) t ap : e <> [] -> sample_at R RNum e t ap = sample_body e t ap.
Proof. destruct e; [congruence|reflexivity]. Qed.

Lemma curve_shape_at_nonneg (e : envR) t : e <> [] -> 0 <= t ->
  curve_shape_at R RNum e t = Ok (cs_go R RNum 0 e t).
Proof.
  destruct e; [congruence|]. intros _ H. unfold curve_shape_at.
  destruct (Z.leb_spec 0 t); [reflexivity|lia].
Qed.

(* what sampling does, as a relation on envelopes *)
Inductive samp (t : Z) : envR -> envR -> Prop :=
| samp_same e : In t (pstarts R e) -> samp t e e
| samp_mid front p q back d1 d2 :
    0 < d1 -> 0 < d2 -> d1 + d2 = pd p -> pdur R front + d1 = t ->
    samp t (front ++ p :: q :: back)
           (front ++ mkPt d1 (pv p) (tofR d1 / tofR (pd p) * pc p)%R
                  :: mkPt d2 (segR (pv p) (pv q) (pc p) (tofR d1 / tofR (pd p))%R)
                          (pc p - tofR d1 / tofR (pd p) * pc p)%R :: q :: back)
| samp_end front p d1 c1 tail :
    0 < d1 -> pdur R front + d1 = t -> tail <> [] ->
    Forall (fun r : ptR => pv r = pv p /\ 0 <= pd r) tail ->
    samp t (front ++ [p]) (front ++ mkPt d1 (pv p) c1 :: tail).

Lemma mkPt_eq {F} d d' (v v' c c' : F) : d = d' -> v = v' -> c = c' -> mkPt d v c = mkPt d' v' c'.
Proof. intros -> -> ->; reflexivity. Qed.
Lemma cons_eq {A} (a a' : A) l l' : a = a' -> l = l' -> a :: l = a' :: l'.
Proof. intros -> ->; reflexivity. Qed.

Lemma tofR_between a t b : a <= t -> t < b -> (tofR a <= tofR t /\ tofR t < tofR b)%R.
Proof. intros H1 H2. split; [apply tofR_le; exact H1|apply tofR_lt; exact H2]. Qed.

Theorem sample_samp (e : envR) t ap e' : pwf e -> 0 <= ap ->
  sample_at R RNum e t ap = Ok e' -> samp t e e'.
Proof.
  intros W Hap H.
  assert (Ne : e <> []) by (intros ->; discriminate).
  rewrite sample_at_body in H by exact Ne. unfold sample_body in H.
  unfold check_time in H. destruct (Z.ltb_spec t 0) as [T0|T0]; [discriminate|].
  cbn [bind] in H. cbv zeta in H.
  destruct (memZ t (pstarts R e)) eqn:M.
  { inversion H; subst. apply samp_same. apply memZ_In. exact M. }
  assert (N : ~ In t (pstarts R e)). { intros N. apply memZ_In in N. congruence. }
  assert (Tpos : 0 < t).
  { destruct e as [|a e]; [congruence|]. simpl in N. lia. }
  assert (TposR : (0 < tofR t)%R) by (apply tofR_pos; exact Tpos).
  rewrite value_at_curve' in H by exact Ne.
  rewrite curve_shape_at_nonneg in H by assumption. cbn [bind] in H.
  destruct (Z_lt_le_dec t (pdur R e)) as [L|L].
  - (* strictly inside an event *)
    destruct (split_inside t e 0 W) as (front & p & back & E & B); [lia|exact N|].
    rewrite !Z.add_0_l in B. subst e.
    rewrite (inside_pindex front p back t W B) in H.
    rewrite nth_error_app_length, set_shape_app in H.
    rewrite (inside_bisect front p back t W B), inside_next in H.
    pose proof W as W'.
    apply pwf_app in W'; destruct W' as [Wf W']; apply pwf_cons in W'; destruct W' as [Wp Wb].
    pose proof (pdur_nonneg _ Wf) as Nf. pose proof (pdur_nonneg _ Wb) as Nb.
    rewrite cs_go_skip in H by (assumption || lia). rewrite Z.add_0_l in H.
    rewrite cs_go_head in H by lia.
    set (d1 := t - pdur R front) in *.
    set (C := (pc p - tofR d1 / tofR (pd p) * pc p)%R) in H.
    set (p' := mkPt (pd p) (pv p) (pc p - C)%R) in H.
    rewrite pdur_app in H. cbn [pdur pd p'] in H.
    destruct (Z.ltb_spec (pdur R front + (pd p + pdur R back)) t); [lia|].
    assert (Bt := tofR_between _ _ _ (Z.lt_le_incl _ _ (proj1 B)) (proj2 B)).
    rewrite tofR_plus in Bt.
    destruct back as [|q back].
    + (* inside the last event *)
      assert (V : curve (front ++ [p]) (tofR t) = pv p).
      { apply curve_after_last; [exact Wf|tauto|exact TposR]. }
      rewrite V in H.
      assert (W1 : gwf (front ++ [p'])).
      { apply gwf_app. split; [exact Wf|]. apply gwf_cons. split; [exact Wp|constructor]. }
      destruct (Z_le_gt_dec (pdur R front + pd p - t) ap) as [A|A].
      * rewrite squash_last_long in H; [|exact W1|exact B|exact A].
        inversion H; subst e'.
        apply (samp_end t front p d1 _ [mkPt ap (pv p) C]); [unfold d1; lia|unfold d1; lia|discriminate|].
        constructor; [split; [reflexivity|exact Hap]|constructor].
      * rewrite squash_last_short in H; [|exact W1|exact B|unfold p'; cbn [pd]; lia].
        inversion H; subst e'.
        apply (samp_end t front p d1 _ [mkPt ap (pv p) C; _]); [unfold d1; lia|unfold d1; lia|discriminate|].
        constructor; [split; [reflexivity|exact Hap]|].
        constructor; [split; [reflexivity|cbn [pd]; unfold d1; lia]|constructor].
    + (* inside an event that has a successor *)
      assert (W1 : gwf (front ++ p' :: q :: back)).
      { apply gwf_app. split; [exact Wf|]. apply gwf_cons. split; [exact Wp|exact Wb]. }
      rewrite squash_mid in H; [|exact W1|exact B|reflexivity].
      inversion H; subst e'. cbn [pv pc p'].
      assert (V : curve (front ++ p :: q :: back) (tofR t) =
                  segR (pv p) (pv q) (pc p) (tofR d1 / tofR (pd p))%R).
      { rewrite curve_in_segment; [|exact Wf|tauto|tauto|exact TposR].
        unfold d1. rewrite tofR_minus. reflexivity. }
      rewrite V. fold d1.
      replace (pc p - C)%R with (tofR d1 / tofR (pd p) * pc p)%R by (unfold C; ring).
      apply (samp_mid t front p q back d1 (pdur R front + pd p - t)); unfold d1; lia.
  - (* at or after the end *)
    unfold pindex_at, index_at_from in H.
    destruct (Z.ltb_spec t (pdur R e)); [lia|]. cbn [andb] in H.
    rewrite (bisect_right_all t (pstarts R e)) in H by (apply starts_le; [exact W|lia]).
    assert (E0 : nth_error (pstarts R e) (length (pstarts R e)) = None) by (apply nth_error_None; lia).
    rewrite E0 in H. rewrite cs_go_all in H by (assumption || lia).
    destruct (exists_last Ne) as (init & l & E). subst e.
    pose proof W as W'. apply pwf_app in W'. destruct W' as [Wi Wl]. apply pwf_cons in Wl. destruct Wl as [Wl _].
    pose proof (pdur_nonneg _ Wi) as Ni.
    assert (Dl : pdur R (init ++ [l]) = pdur R init + pd l) by (rewrite pdur_app; cbn [pdur]; lia).
    assert (V : curve (init ++ [l]) (tofR t) = pv l).
    { apply curve_after_last; [exact Wi|apply tofR_le; lia|exact TposR]. }
    rewrite V in H.
    destruct (Z.ltb_spec (pdur R (init ++ [l])) t) as [L1|L1].
    + rewrite rev_unit, rev_involutive in H. inversion H; subst e'.
      apply (samp_end t init l _ _ [mkPt ap (pv l) 0%R]); [lia|lia|discriminate|].
      constructor; [split; [reflexivity|exact Hap]|constructor].
    + assert (t = pdur R (init ++ [l])) by lia. subst t.
      rewrite squash_at_end in H; [|exact W|exact N|exact Hap].
      inversion H; subst e'. rewrite <- app_assoc. cbn [app].
      assert (Pl : 0 < pd l).
      { assert (pd l <> 0); [|lia]. intros Z0. apply N. unfold pstarts. rewrite pstarts_from_app.
        apply in_or_app. right. left. lia. }
      destruct l as [d v c]. cbn [pd pv pc] in *.
      apply (samp_end _ init (mkPt d v c) d c [mkPt ap v 0%R]); [exact Pl|cbn [pd] in *; lia|discriminate|].
      constructor; [split; [reflexivity|exact Hap]|constructor].
Qed.

(* ---- consequences of the relation *)
Lemma samp_pwf t e e' : pwf e -> samp t e e' -> pwf e'.
Proof.
  intros W S. destruct S as [e I|front p q back d1 d2 H1 H2 Hd Ht|front p d1 c1 tail H1 Ht Hn Hf].
  - exact W.
  - apply pwf_app in W. destruct W as [Wf W]. apply pwf_cons in W. destruct W as [Wp Wb].
    apply pwf_app. split; [exact Wf|]. apply pwf_cons. split; [cbn; lia|].
    apply pwf_cons. split; [cbn; lia|exact Wb].
  - apply pwf_app in W. destruct W as [Wf W].
    apply pwf_app. split; [exact Wf|]. apply pwf_cons. split; [cbn; lia|].
    eapply Forall_impl; [|exact Hf]. intros a [_ Ha]. exact Ha.
Qed.

Lemma samp_curve t e e' : samp t e e' -> forall x, curve e' x = curve e x.
Proof.
  intros S x. destruct S as [e I|front p q back d1 d2 H1 H2 Hd Ht|front p d1 c1 tail H1 Ht Hn Hf].
  - reflexivity.
  - symmetry. apply curve_divide; assumption.
  - symmetry. apply curve_tail_const; [reflexivity|].
    eapply Forall_impl; [|exact Hf]. intros a [Ha _]. exact Ha.
Qed.

Lemma samp_in t e e' : samp t e e' -> In t (pstarts R e').
Proof.
  intros S. destruct S as [e I|front p q back d1 d2 H1 H2 Hd Ht|front p d1 c1 tail H1 Ht Hn Hf].
  - exact I.
  - unfold pstarts. rewrite pstarts_from_app. apply in_or_app. right. cbn [pstarts_from pd]. right. left. lia.
  - unfold pstarts. rewrite pstarts_from_app. apply in_or_app. right.
    destruct tail as [|a tail]; [congruence|]. cbn [pstarts_from pd]. right. left. lia.
Qed.

(* STAGE 2: adding a control point changes no value and creates a point exactly at t *)
Theorem sample_curve (e : envR) t ap e' : pwf e -> 0 <= ap ->
  sample_at R RNum e t ap = Ok e' ->
  pwf e' /\ (forall x, curve e' x = curve e x) /\ In t (pstarts R e').
Proof.
  intros W Hap H. pose proof (sample_samp e t ap e' W Hap H) as S.
  split; [exact (samp_pwf t e e' W S)|]. split; [exact (samp_curve t e e' S)|exact (samp_in t e e' S)].
Qed.

Corollary extend_curve (e : envR) d e' : pwf e -> env_extend_until R RNum e d = Ok e' ->
  pwf e' /\ (forall x, curve e' x = curve e x) /\ In d (pstarts R e').
Proof. intros W H. apply (sample_curve e d 0 e' W); [lia|exact H]. Qed.

(* sample_at never fails on a non-empty well-formed envelope and non-negative arguments *)
Theorem sample_total (e : envR) t ap : pwf e -> e <> [] -> 0 <= t -> 0 <= ap ->
  exists e', sample_at R RNum e t ap = Ok e'.
Proof.
  intros W Ne T0 Hap. rewrite sample_at_body by exact Ne. unfold sample_body, check_time.
  destruct (Z.ltb_spec t 0); [lia|]. cbn [bind]. cbv zeta.
  destruct (memZ t (pstarts R e)) eqn:M; [eexists; reflexivity|].
  assert (N : ~ In t (pstarts R e)). { intros N. apply memZ_In in N. congruence. }
  rewrite value_at_curve' by exact Ne. rewrite curve_shape_at_nonneg by assumption. cbn [bind].
  destruct (Z_lt_le_dec t (pdur R e)) as [L|L].
  - destruct (split_inside t e 0 W) as (front & p & back & E & B); [lia|exact N|].
    rewrite !Z.add_0_l in B. subst e.
    rewrite (inside_pindex front p back t W B).
    rewrite nth_error_app_length, set_shape_app.
    rewrite (inside_bisect front p back t W B), inside_next.
    pose proof W as W'.
    apply pwf_app in W'; destruct W' as [Wf W']; apply pwf_cons in W'; destruct W' as [Wp Wb].
    pose proof (pdur_nonneg _ Wf) as Nf. pose proof (pdur_nonneg _ Wb) as Nb.
    set (p' := mkPt (pd p) (pv p) _).
    rewrite pdur_app. cbn [pdur pd p'].
    destruct (Z.ltb_spec (pdur R front + (pd p + pdur R back)) t); [lia|].
    destruct back as [|q back].
    + assert (W1 : gwf (front ++ [p'])).
      { apply gwf_app. split; [exact Wf|]. apply gwf_cons. split; [exact Wp|constructor]. }
      destruct (Z_le_gt_dec (pdur R front + pd p - t) ap) as [A|A].
      * rewrite squash_last_long; [eexists; reflexivity|exact W1|exact B|exact A].
      * rewrite squash_last_short; [eexists; reflexivity|exact W1|exact B|unfold p'; cbn [pd]; lia].
    + assert (W1 : gwf (front ++ p' :: q :: back)).
      { apply gwf_app. split; [exact Wf|]. apply gwf_cons. split; [exact Wp|exact Wb]. }
      rewrite squash_mid; [eexists; reflexivity|exact W1|exact B|reflexivity].
  - unfold pindex_at, index_at_from.
    destruct (Z.ltb_spec t (pdur R e)); [lia|]. cbn [andb].
    rewrite (bisect_right_all t (pstarts R e)) by (apply starts_le; [exact W|lia]).
    assert (E0 : nth_error (pstarts R e) (length (pstarts R e)) = None) by (apply nth_error_None; lia).
    rewrite E0.
    destruct (Z.ltb_spec (pdur R e) t) as [L1|L1].
    + destruct (exists_last Ne) as (init & l & E). subst e. rewrite rev_unit. eexists; reflexivity.
    + assert (t = pdur R e) by lia. subst t.
      rewrite squash_at_end; [eexists; reflexivity|exact W|exact N|exact Hap].
Qed.

Print Assumptions segR_split_left.
Print Assumptions segR_split_right.
Print Assumptions curve_divide.
Print Assumptions sample_curve.
Print Assumptions extend_curve.
Print Assumptions sample_total.
