(* core_utilities.round_floats: the rounded value is a nearest n-digit decimal, numbers that already have n digits
   are fixed (so rounding twice equals rounding once). *)
From Coq Require Import ZArith QArith Qabs Qround List Bool Lia.
From MV Require Import Base.Res Model.Numbers Proofs.NumbersP.
Open Scope Z_scope.

Lemma pow10_pos n : 0 < pow10 n.
Proof. unfold pow10. apply Z.pow_pos_nonneg; lia. Qed.

(* within half a unit of the last digit, and no n-digit decimal is nearer *)
Theorem round_digits_near : forall q n,
  (Qabs (q * (pow10 n # 1) - (round_digits q n # 1)) <= 1 # 2)%Q.
Proof. intros. unfold round_digits. apply rhe_near. Qed.

Theorem round_digits_nearest : forall q n z,
  (Qabs (q * (pow10 n # 1) - (round_digits q n # 1)) <= Qabs (q * (pow10 n # 1) - (z # 1)))%Q.
Proof. intros. unfold round_digits. apply rhe_nearest. Qed.

Lemma rhe_proper q1 q2 : (q1 == q2)%Q -> rhe q1 = rhe q2.
Proof.
  intro H. unfold rhe.
  assert (F : Qfloor q1 = Qfloor q2) by (rewrite H; reflexivity).
  rewrite F.
  assert (C : ((q1 - (Qfloor q2 # 1)) ?= 1 # 2)%Q = ((q2 - (Qfloor q2 # 1)) ?= 1 # 2)%Q) by (rewrite H; reflexivity).
  rewrite C. reflexivity.
Qed.

(* a number with n digits is its own rounding *)
Theorem round_digits_fixed : forall z n,
  round_digits ((z # 1) / (pow10 n # 1))%Q n = z.
Proof.
  intros z n. unfold round_digits.
  rewrite (rhe_proper _ (z # 1)); [apply rhe_int|].
  pose proof (pow10_pos n) as P. field. intro E. unfold Qeq in E. cbn in E. lia.
Qed.

Corollary round_digits_idempotent : forall q n,
  round_digits ((round_digits q n # 1) / (pow10 n # 1))%Q n = round_digits q n.
Proof. intros. apply round_digits_fixed. Qed.

(* integers are untouched whatever the number of digits *)
Theorem round_digits_int : forall z n, round_digits (z # 1) n = z * pow10 n.
Proof.
  intros z n. unfold round_digits. rewrite (rhe_proper _ (z * pow10 n # 1)); [apply rhe_int|].
  unfold Qeq, Qmult. cbn. lia.
Qed.
