(* TempoConverter's memo table (Model/Convert.v), for ANY number type: a converter that memoises the
   integrals by (start, end) computes exactly what the memo-free converter computes, whatever it has
   converted before.  No reals: every theorem is closed under the global context. *)
From Coq Require Import ZArith List Bool Lia.
From MV Require Import Base.Res Model.EventTree Model.TreeOps Model.Num Model.Envelope Model.Convert.
Import ListNotations.
Open Scope Z_scope.

Section Cache.
  Variable F : Type.
  Variable N : Num F.
  Variable senv : env F.

  Local Notation integ := (integrate F N senv).
  Local Notation conv := (convert F N senv).
  Local Notation convc := (convert_c F N senv).

  (* ------------------------------------------------------------ unfolding equations *)
  Lemma convert_leaf t0 d l : conv t0 (Leaf d l) = (v <- integ t0 (t0 + d) ; Ok [v]).
  Proof. reflexivity. Qed.
  Lemma convert_seq t0 m cs : conv t0 (Seq m cs) = conv_seq F N senv t0 cs.
  Proof. reflexivity. Qed.
  Lemma convert_sim t0 m cs : conv t0 (Sim m cs) = conv_sim F N senv t0 cs.
  Proof. reflexivity. Qed.
  Lemma conv_seq_nil t : conv_seq F N senv t [] = Ok [].
  Proof. reflexivity. Qed.
  Lemma conv_seq_cons t c r :
    conv_seq F N senv t (c :: r) = (a <- conv t c ; b <- conv_seq F N senv (t + dur c) r ; Ok (a ++ b)).
  Proof. reflexivity. Qed.
  Lemma conv_sim_nil t0 : conv_sim F N senv t0 [] = Ok [].
  Proof. reflexivity. Qed.
  Lemma conv_sim_cons t0 c r :
    conv_sim F N senv t0 (c :: r) = (a <- conv t0 c ; b <- conv_sim F N senv t0 r ; Ok (a ++ b)).
  Proof. reflexivity. Qed.

  Lemma convert_c_leaf st t0 d l :
    convc st t0 (Leaf d l) = ('(v, st') <- integrate_c F N senv st t0 (t0 + d) ; Ok ([v], st')).
  Proof. reflexivity. Qed.
  Lemma convert_c_seq st t0 m cs : convc st t0 (Seq m cs) = convc_seq F N senv st t0 cs.
  Proof. reflexivity. Qed.
  Lemma convert_c_sim st t0 m cs : convc st t0 (Sim m cs) = convc_sim F N senv t0 st cs.
  Proof. reflexivity. Qed.
  Lemma convc_seq_nil st t : convc_seq F N senv st t [] = Ok ([], st).
  Proof. reflexivity. Qed.
  Lemma convc_seq_cons st t c r :
    convc_seq F N senv st t (c :: r) =
    ('(a, st1) <- convc st t c ; '(b, st2) <- convc_seq F N senv st1 (t + dur c) r ; Ok (a ++ b, st2)).
  Proof. reflexivity. Qed.
  Lemma convc_sim_nil st t0 : convc_sim F N senv t0 st [] = Ok ([], st).
  Proof. reflexivity. Qed.
  Lemma convc_sim_cons st t0 c r :
    convc_sim F N senv t0 st (c :: r) =
    ('(a, st1) <- convc st t0 c ; '(b, st2) <- convc_sim F N senv t0 st1 r ; Ok (a ++ b, st2)).
  Proof. reflexivity. Qed.
  Lemma convert_history_cons st e r :
    convert_history F N senv st (e :: r) =
    ('(a, st') <- convc st 0 e ; b <- convert_history F N senv st' r ; Ok (a :: b)).
  Proof. reflexivity. Qed.

  (* ------------------------------------------------------------ the invariant of the memo table *)
  Definition cache_ok (st : cache F) : Prop :=
    forall a b v, lookup F (a, b) st = Some v -> integ a b = Ok v.

  Lemma cache_ok_nil : cache_ok [].
  Proof. intros a b v H. discriminate H. Qed.

  Lemma cache_ok_cons st a b v : cache_ok st -> integ a b = Ok v -> cache_ok (((a, b), v) :: st).
  Proof.
    intros H Hv a' b' v' L. cbn [lookup fst snd] in L.
    destruct ((a =? a') && (b =? b')) eqn:E.
    - apply andb_true_iff in E as [E1 E2]. apply Z.eqb_eq in E1, E2. subst a' b'.
      inversion L; subst. exact Hv.
    - apply H. exact L.
  Qed.

  Theorem integrate_c_ok st a b v st' : cache_ok st ->
    integrate_c F N senv st a b = Ok (v, st') -> integ a b = Ok v /\ cache_ok st'.
  Proof.
    intros H E. unfold integrate_c in E. destruct (lookup F (a, b) st) as [w|] eqn:L.
    - inversion E; subst. split; [apply H; exact L|exact H].
    - destruct (integ a b) as [w|k] eqn:I; cbn [bind] in E; [|discriminate].
      inversion E; subst. split; [reflexivity|]. apply cache_ok_cons; assumption.
  Qed.

  Theorem integrate_c_complete st a b v : cache_ok st -> integ a b = Ok v ->
    exists st', integrate_c F N senv st a b = Ok (v, st') /\ cache_ok st'.
  Proof.
    intros H I. unfold integrate_c. destruct (lookup F (a, b) st) as [w|] eqn:L.
    - pose proof (H a b w L) as I'. rewrite I in I'. inversion I'; subst.
      exists st. split; [reflexivity|exact H].
    - rewrite I. cbn [bind]. eexists. split; [reflexivity|]. apply cache_ok_cons; assumption.
  Qed.

  (* ------------------------------------------------------------ soundness on trees *)
  Definition sound (e : ev) : Prop := forall st t0 vs st', cache_ok st ->
    convc st t0 e = Ok (vs, st') -> conv t0 e = Ok vs /\ cache_ok st'.

  Lemma convc_seq_ok cs : Forall sound cs -> forall st t vs st', cache_ok st ->
    convc_seq F N senv st t cs = Ok (vs, st') -> conv_seq F N senv t cs = Ok vs /\ cache_ok st'.
  Proof.
    induction 1 as [|c r Hc _ IH]; intros st t vs st' H E.
    - rewrite convc_seq_nil in E. inversion E; subst. split; [reflexivity|exact H].
    - rewrite convc_seq_cons in E.
      destruct (convc st t c) as [[a st1]|k] eqn:Ec; cbn [bind] in E; [|discriminate].
      destruct (convc_seq F N senv st1 (t + dur c) r) as [[b st2]|k] eqn:Er; cbn [bind] in E; [|discriminate].
      inversion E; subst.
      destruct (Hc st t a st1 H Ec) as [C1 H1].
      destruct (IH st1 (t + dur c) b st' H1 Er) as [C2 H2].
      rewrite conv_seq_cons, C1, C2. split; [reflexivity|exact H2].
  Qed.

  Lemma convc_sim_ok t0 cs : Forall sound cs -> forall st vs st', cache_ok st ->
    convc_sim F N senv t0 st cs = Ok (vs, st') -> conv_sim F N senv t0 cs = Ok vs /\ cache_ok st'.
  Proof.
    induction 1 as [|c r Hc _ IH]; intros st vs st' H E.
    - rewrite convc_sim_nil in E. inversion E; subst. split; [reflexivity|exact H].
    - rewrite convc_sim_cons in E.
      destruct (convc st t0 c) as [[a st1]|k] eqn:Ec; cbn [bind] in E; [|discriminate].
      destruct (convc_sim F N senv t0 st1 r) as [[b st2]|k] eqn:Er; cbn [bind] in E; [|discriminate].
      inversion E; subst.
      destruct (Hc st t0 a st1 H Ec) as [C1 H1].
      destruct (IH st1 b st' H1 Er) as [C2 H2].
      rewrite conv_sim_cons, C1, C2. split; [reflexivity|exact H2].
  Qed.

  Lemma sound_all e : sound e.
  Proof.
    induction e as [d l|m cs IH|m cs IH] using ev_ind'; intros st t0 vs st' H E.
    - rewrite convert_c_leaf in E.
      destruct (integrate_c F N senv st t0 (t0 + d)) as [[v st1]|k] eqn:I; cbn [bind] in E; [|discriminate].
      inversion E; subst. destruct (integrate_c_ok _ _ _ _ _ H I) as [I1 H1].
      rewrite convert_leaf, I1. split; [reflexivity|exact H1].
    - rewrite convert_c_seq in E. rewrite convert_seq. eapply convc_seq_ok; eassumption.
    - rewrite convert_c_sim in E. rewrite convert_sim. eapply convc_sim_ok; eassumption.
  Qed.

  Theorem convert_c_ok st : cache_ok st -> forall e t0 vs st',
    convc st t0 e = Ok (vs, st') -> conv t0 e = Ok vs /\ cache_ok st'.
  Proof. intros H e t0 vs st' E. exact (sound_all e st t0 vs st' H E). Qed.

  (* ------------------------------------------------------------ completeness on trees *)
  Definition complete (e : ev) : Prop := forall st t0 vs, cache_ok st ->
    conv t0 e = Ok vs -> exists st', convc st t0 e = Ok (vs, st') /\ cache_ok st'.

  Lemma convc_seq_complete cs : Forall complete cs -> forall st t vs, cache_ok st ->
    conv_seq F N senv t cs = Ok vs -> exists st', convc_seq F N senv st t cs = Ok (vs, st') /\ cache_ok st'.
  Proof.
    induction 1 as [|c r Hc _ IH]; intros st t vs H E.
    - rewrite conv_seq_nil in E. inversion E; subst. exists st. split; [reflexivity|exact H].
    - rewrite conv_seq_cons in E.
      destruct (conv t c) as [a|k] eqn:Ec; cbn [bind] in E; [|discriminate].
      destruct (conv_seq F N senv (t + dur c) r) as [b|k] eqn:Er; cbn [bind] in E; [|discriminate].
      inversion E; subst.
      destruct (Hc st t a H Ec) as (st1 & C1 & H1).
      destruct (IH st1 (t + dur c) b H1 Er) as (st2 & C2 & H2).
      exists st2. rewrite convc_seq_cons, C1. cbn [bind]. rewrite C2. split; [reflexivity|exact H2].
  Qed.

  Lemma convc_sim_complete t0 cs : Forall complete cs -> forall st vs, cache_ok st ->
    conv_sim F N senv t0 cs = Ok vs -> exists st', convc_sim F N senv t0 st cs = Ok (vs, st') /\ cache_ok st'.
  Proof.
    induction 1 as [|c r Hc _ IH]; intros st vs H E.
    - rewrite conv_sim_nil in E. inversion E; subst. exists st. split; [reflexivity|exact H].
    - rewrite conv_sim_cons in E.
      destruct (conv t0 c) as [a|k] eqn:Ec; cbn [bind] in E; [|discriminate].
      destruct (conv_sim F N senv t0 r) as [b|k] eqn:Er; cbn [bind] in E; [|discriminate].
      inversion E; subst.
      destruct (Hc st t0 a H Ec) as (st1 & C1 & H1).
      destruct (IH st1 b H1 eq_refl) as (st2 & C2 & H2).
      exists st2. rewrite convc_sim_cons, C1. cbn [bind]. rewrite C2. split; [reflexivity|exact H2].
  Qed.

  Lemma complete_all e : complete e.
  Proof.
    induction e as [d l|m cs IH|m cs IH] using ev_ind'; intros st t0 vs H E.
    - rewrite convert_leaf in E.
      destruct (integ t0 (t0 + d)) as [v|k] eqn:I; cbn [bind] in E; [|discriminate].
      inversion E; subst. destruct (integrate_c_complete st _ _ _ H I) as (st1 & I1 & H1).
      exists st1. rewrite convert_c_leaf, I1. split; [reflexivity|exact H1].
    - rewrite convert_seq in E. rewrite convert_c_seq. apply convc_seq_complete; assumption.
    - rewrite convert_sim in E. rewrite convert_c_sim. apply convc_sim_complete; assumption.
  Qed.

  Theorem convert_c_complete st e t0 vs : cache_ok st -> conv t0 e = Ok vs ->
    exists st', convc st t0 e = Ok (vs, st') /\ cache_ok st'.
  Proof. intros H E. exact (complete_all e st t0 vs H E). Qed.

  (* ------------------------------------------------------------ histories *)
  Lemma convert_history_ok : forall es st vss, cache_ok st ->
    convert_history F N senv st es = Ok vss -> Forall2 (fun e vs => conv 0 e = Ok vs) es vss.
  Proof.
    induction es as [|e r IH]; intros st vss H E.
    - inversion E; subst. constructor.
    - rewrite convert_history_cons in E.
      destruct (convc st 0 e) as [[a st1]|k] eqn:Ec; cbn [bind] in E; [|discriminate].
      destruct (convert_history F N senv st1 r) as [b|k] eqn:Er; cbn [bind] in E; [|discriminate].
      inversion E; subst. destruct (convert_c_ok st H _ _ _ _ Ec) as [C1 H1].
      constructor; [exact C1|]. exact (IH st1 b H1 Er).
  Qed.

  Lemma convert_history_complete : forall es vss st, cache_ok st ->
    Forall2 (fun e vs => conv 0 e = Ok vs) es vss -> convert_history F N senv st es = Ok vss.
  Proof.
    intros es vss st H A. revert st H. induction A as [|e vs r vss' C _ IH]; intros st H; [reflexivity|].
    destruct (convert_c_complete st e 0 vs H C) as (st1 & C1 & H1).
    rewrite convert_history_cons, C1. cbn [bind]. rewrite (IH st1 H1). reflexivity.
  Qed.

  (* a converter gives the same answers no matter how many events it has converted before *)
  Theorem convert_history_independent : forall es vss,
    convert_history F N senv [] es = Ok vss -> Forall2 (fun e vs => conv 0 e = Ok vs) es vss.
  Proof. intros es vss E. exact (convert_history_ok es [] vss cache_ok_nil E). Qed.

  Theorem convert_history_independent_conv : forall es vss,
    Forall2 (fun e vs => conv 0 e = Ok vs) es vss -> convert_history F N senv [] es = Ok vss.
  Proof. intros es vss A. exact (convert_history_complete es vss [] cache_ok_nil A). Qed.

  (* in particular: converting e after any history es gives what a fresh converter gives *)
  Corollary convert_after_history : forall es e vss vs,
    convert_history F N senv [] (es ++ [e]) = Ok (vss ++ [vs]) -> conv 0 e = Ok vs.
  Proof.
    intros es e vss vs E. apply convert_history_independent in E.
    apply Forall2_app_inv_l in E as (l1 & l2 & A1 & A2 & E).
    inversion A2 as [|? y ? l' C A3]; subst. inversion A3; subst.
    apply app_inj_tail in E as [_ ->]. exact C.
  Qed.
End Cache.

(* the hypotheses are satisfiable on a nested tree with a simultaneity, over a toy number type
   (Z with truncating division); the same leaf span (0, 2) occurs three times *)
Definition ZNum : Num Z := {|
  n0 := 0; n1 := 1; nadd := Z.add; nsub := Z.sub; nmul := Z.mul; ndiv := Z.div; nexp := fun x => x;
  nleb := Z.leb; nltb := Z.ltb; neqb := Z.eqb; nint := fun z => z; tround := fun x => x |}.

Example cache_example :
  let senv : env Z := [mkPt 4 60 0; mkPt 0 120 0] in
  let e := Seq meta0 [Leaf 2 1; Sim meta0 [Leaf 3 2; Seq meta0 [Leaf 1 3; Leaf 1 4]]] in
  exists vss, convert_history Z ZNum senv [] [e; Leaf 2 5; e] = Ok vss /\
              Forall2 (fun e vs => convert Z ZNum senv 0 e = Ok vs) [e; Leaf 2 5; e] vss.
Proof.
  intros senv e. destruct (convert_history Z ZNum senv [] [e; Leaf 2 5; e]) as [vss|k] eqn:E.
  - exists vss. split; [reflexivity|]. apply convert_history_independent. exact E.
  - vm_compute in E. discriminate E.
Qed.

Print Assumptions integrate_c_ok.
Print Assumptions integrate_c_complete.
Print Assumptions convert_c_ok.
Print Assumptions convert_c_complete.
Print Assumptions convert_history_independent.
Print Assumptions convert_history_independent_conv.
