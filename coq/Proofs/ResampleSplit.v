(* Splitting an envelope over the reals: every part returned by Envelope.split_at reproduces the
   original curve on its span (Stage 3c), built on Proofs/Resample.v and Proofs/ResampleCut.v. *)
From Coq Require Import ZArith List Bool Reals Lra Lia.
From MV Require Import Base.Res Model.EventTree Model.TreeOps Model.Num Model.Envelope Proofs.RNum
  Proofs.Resample Proofs.ResampleCut.
Import ListNotations.
Local Open Scope Z_scope.

(* ================================================================ 1. sorting *)
Fixpoint asc (l : list Z) : Prop :=
  match l with [] => True | x :: r => (forall y, In y r -> x <= y) /\ asc r end.

Lemma ins_In x y l : In y (insert_sorted x l) <-> y = x \/ In y l.
Proof.
  induction l as [|z l IH]; simpl; [intuition|].
  destruct (x <? z); simpl; [intuition|]. rewrite IH. intuition.
Qed.

Lemma ins_asc x l : asc l -> asc (insert_sorted x l).
Proof.
  induction l as [|z l IH]; simpl; intros H; [split; [intros y []|exact I]|]. destruct H as [H1 H2].
  destruct (Z.ltb_spec x z); simpl.
  - split; [|split; assumption]. intros y [Hy|Hy]; [lia|]. apply H1 in Hy. lia.
  - split; [|apply IH; exact H2]. intros y Hy. apply ins_In in Hy. destruct Hy as [Hy|Hy]; [lia|auto].
Qed.

Lemma sortZ_asc l : asc (sortZ l).
Proof. induction l as [|x l IH]; simpl; [exact I|]. apply ins_asc. exact IH. Qed.

Lemma sortZ_in l y : In y (sortZ l) <-> In y l.
Proof. induction l as [|x l IH]; simpl; [tauto|]. rewrite ins_In, IH. intuition. Qed.

Lemma ins_front x l : (forall y, In y l -> x <= y) -> insert_sorted x l = x :: l.
Proof.
  induction l as [|z l IH]; simpl; intros H; [reflexivity|].
  destruct (Z.ltb_spec x z); [reflexivity|].
  assert (x = z) by (specialize (H z (or_introl eq_refl)); lia). subst z.
  rewrite IH; [reflexivity|]. intros y Hy. apply H. right. exact Hy.
Qed.

Lemma sortZ_id l : asc l -> sortZ l = l.
Proof.
  induction l as [|x l IH]; simpl; intros H; [reflexivity|]. destruct H as [H1 H2].
  rewrite IH by exact H2. apply ins_front. exact H1.
Qed.

Lemma sortZ_nonnil l : l <> [] -> sortZ l <> [].
Proof.
  destruct l as [|x l]; [congruence|]. intros _ E.
  assert (In x (sortZ (x :: l))) by (apply sortZ_in; left; reflexivity). rewrite E in H. exact H.
Qed.

(* ================================================================ 2. first indices *)
Definition fidx (t : Z) (l : list Z) : nat := match index_of t l with Some i => i | None => 0%nat end.

Lemma index_of_in t l : In t l -> exists i, index_of t l = Some i /\ (i < length l)%nat.
Proof.
  induction l as [|y l IH]; simpl; intros H; [tauto|].
  destruct (Z.eqb_spec t y).
  - exists 0%nat. split; [reflexivity|lia].
  - destruct H as [H|H]; [congruence|]. destruct (IH H) as (i & E & L). rewrite E. simpl.
    exists (S i). split; [reflexivity|lia].
Qed.

Lemma fidx_lt t l : In t l -> (fidx t l < length l)%nat.
Proof. intros H. unfold fidx. destruct (index_of_in t l H) as (i & E & L). rewrite E. exact L. Qed.

Lemma fidx_zero t r : In t (0 :: r) -> (fidx t (0 :: r) = 0%nat <-> t = 0).
Proof.
  intros H. unfold fidx. simpl. destruct (Z.eqb_spec t 0); [tauto|].
  destruct H as [H|H]; [congruence|]. destruct (index_of_in t r H) as (i & E & L). rewrite E. simpl.
  split; [discriminate|tauto].
Qed.

(* ================================================================ 3. the split loop on control points *)
Lemma loop_all {F} ign durf (c : env F) abl : forall sl first idx,
  (forall t, In t sl -> In t abl /\ 0 <= t) ->
  p_split_loop F ign first durf sl c abl idx = Ok (c, idx ++ map (fun t => fidx t abl) sl).
Proof.
  induction sl as [|t sl IH]; intros first idx H.
  - simpl. rewrite app_nil_r. reflexivity.
  - cbn [p_split_loop]. destruct (H t (or_introl eq_refl)) as [Ht H0].
    assert (Ect : (if first then check_time t else Ok tt) = Ok tt).
    { destruct first; [|reflexivity]. unfold check_time. destruct (Z.ltb_spec t 0); [lia|reflexivity]. }
    rewrite Ect. cbn [bind].
    destruct (index_of_in t abl Ht) as (i & E & L). rewrite E.
    rewrite IH by (intros t' Ht'; apply H; right; exact Ht').
    rewrite <- app_assoc. cbn [map app]. unfold fidx at 2. rewrite E. reflexivity.
Qed.

Definition cuts_of (sl : list Z) : list Z := if memZ 0 sl then sl else 0 :: sl.

Lemma memN_map_fidx r sl : (forall t, In t sl -> In t (0 :: r)) ->
  memN 0 (map (fun t => fidx t (0 :: r)) sl) = memZ 0 sl.
Proof.
  induction sl as [|t sl IH]; intros H; [reflexivity|]. cbn [map memN memZ].
  rewrite IH by (intros t' Ht'; apply H; right; exact Ht'). f_equal.
  pose proof (fidx_zero t r (H t (or_introl eq_refl))) as Z0.
  destruct (Nat.eqb_spec 0 (fidx t (0 :: r))); destruct (Z.eqb_spec 0 t); try reflexivity.
  - exfalso. symmetry in e. apply Z0 in e. congruence.
  - exfalso. subst t. assert (fidx 0 (0 :: r) = 0%nat) by (apply Z0; reflexivity). congruence.
Qed.

Lemma memN_notin n l : (forall i, In i l -> (i < n)%nat) -> memN n l = false.
Proof.
  induction l as [|i l IH]; intros H; [reflexivity|]. simpl.
  rewrite IH by (intros j Hj; apply H; right; exact Hj).
  specialize (H i (or_introl eq_refl)). destruct (Nat.eqb_spec n i); [lia|reflexivity].
Qed.

(* the raw parts: slices between the first indices of the cut times *)
Definition slices {F} (e1 : env F) (is : list nat) : list (env F) :=
  map (fun '(i0, i1) => lslice i0 i1 e1) (pairs is).

Lemma p_split_points {F} (e1 : env F) sl : e1 <> [] -> sl <> [] -> asc sl ->
  (forall t, In t sl -> In t (pstarts F e1) /\ 0 <= t) ->
  p_split F e1 sl false =
  Ok (slices e1 (map (fun t => fidx t (pstarts F e1)) (cuts_of sl) ++ [length e1])).
Proof.
  intros Ne Ns As H. unfold p_split. destruct sl as [|t0 sl0] eqn:Esl; [congruence|]. rewrite <- Esl in *.
  rewrite sortZ_id by exact As. rewrite loop_all by exact H. cbn [bind app].
  assert (Est : exists r, pstarts F e1 = 0 :: r).
  { destruct e1 as [|p e1]; [congruence|]. eexists. reflexivity. }
  destruct Est as [r Er]. rewrite Er in *.
  rewrite memN_map_fidx by (intros t Ht; apply H; exact Ht).
  set (fi := fun t => fidx t (0 :: r)).
  assert (E1 : (if memZ 0 sl then map fi sl else 0%nat :: map fi sl) = map fi (cuts_of sl)).
  { unfold cuts_of. destruct (memZ 0 sl); [reflexivity|]. cbn [map]. f_equal. }
  rewrite E1.
  assert (Len : length (0 :: r) = length e1) by (rewrite <- Er; apply pstarts_from_length).
  rewrite memN_notin; [reflexivity|].
  intros i Hi. apply in_map_iff in Hi. destruct Hi as (t & Et & Ht). subst i.
  rewrite <- Len. apply fidx_lt. unfold cuts_of in Ht.
  destruct (memZ 0 sl); [apply H; exact Ht|]. destruct Ht as [Ht|Ht]; [subst; left; reflexivity|apply H; exact Ht].
Qed.

(* ================================================================ 4. list facts for the assembly *)
Lemma pairs_length {A} (l : list A) : length (pairs l) = (length l - 1)%nat.
Proof.
  induction l as [|x l IH]; [reflexivity|]. destruct l as [|y l]; [reflexivity|].
  change (pairs (x :: y :: l)) with ((x, y) :: pairs (y :: l)). cbn [length] in *. rewrite IH. lia.
Qed.

Lemma pairs_nth {A} (l : list A) : forall k a b, nth_error l k = Some a -> nth_error l (S k) = Some b ->
  nth_error (pairs l) k = Some (a, b).
Proof.
  induction l as [|x l IH]; intros k a b Ha Hb; [destruct k; discriminate|].
  destruct l as [|y l]; [destruct k; [discriminate|destruct k; discriminate]|].
  change (pairs (x :: y :: l)) with ((x, y) :: pairs (y :: l)).
  destruct k as [|k]; simpl in *; [congruence|]. apply IH; assumption.
Qed.

Lemma value_at_0 (nx : envR) v : value_at R RNum nx 0 = Ok v -> exists c1 r, nx = c1 :: r /\ v = pv c1.
Proof. destruct nx as [|c1 r]; [discriminate|]. simpl. intros H. inversion H. eauto. Qed.

Lemma add_ends_spec : forall (parts parts1 : list envR), add_ends R RNum parts = Ok parts1 ->
  length parts1 = length parts /\
  forall k p, nth_error parts k = Some p ->
    match nth_error parts (S k) with
    | Some nx => exists v, value_at R RNum nx 0 = Ok v /\ nth_error parts1 k = Some (p ++ [mkPt 0 v 0%R])
    | None => nth_error parts1 k = Some p
    end.
Proof.
  induction parts as [|s0 r IH]; intros parts1 H.
  - simpl in H. inversion H; subst. split; [reflexivity|]. intros k p Hk. destruct k; discriminate.
  - cbn [add_ends] in H. destruct r as [|s1 r'].
    + inversion H; subst. split; [reflexivity|]. intros k p Hk.
      destruct k as [|k]; [simpl in *; exact Hk|destruct k; discriminate].
    + destruct (value_at R RNum s1 0) as [v|] eqn:Ev; [|discriminate]. cbn [bind] in H.
      destruct (add_ends R RNum (s1 :: r')) as [r1|] eqn:Er; [|discriminate]. cbn [bind] in H.
      inversion H; subst parts1. destruct (IH r1 eq_refl) as [L1 N1]. split; [simpl in *; lia|].
      intros k p Hk. destruct k as [|k].
      * simpl in Hk. inversion Hk; subst p. cbn [nth_error]. exists v. split; [exact Ev|reflexivity].
      * change (nth_error (s0 :: s1 :: r') (S k)) with (nth_error (s1 :: r') k) in Hk.
        change (nth_error (s0 :: s1 :: r') (S (S k))) with (nth_error (s1 :: r') (S k)).
        specialize (N1 k p Hk). destruct (nth_error (s1 :: r') (S k)); exact N1.
Qed.

Definition finish (e1 : envR) (parts1 : list envR) : res (list envR) :=
  match rev parts1 with
  | [] => Ok []
  | s :: r =>
    v <- value_at R RNum e1 (pdur R e1) ;
    vs <- value_at R RNum s (pdur R s) ;
    Ok (if neqb RNum vs v then parts1 else rev r ++ [s ++ [mkPt 0 v 0%R]])
  end.

Lemma finish_spec e1 parts1 final : finish e1 parts1 = Ok final ->
  length final = length parts1 /\
  forall k p, nth_error parts1 k = Some p ->
    (S k < length parts1 -> nth_error final k = Some p)%nat /\
    (S k = length parts1 -> nth_error final k = Some p \/
       exists v vs, value_at R RNum e1 (pdur R e1) = Ok v /\ value_at R RNum p (pdur R p) = Ok vs /\
                    vs <> v /\ nth_error final k = Some (p ++ [mkPt 0 v 0%R])).
Proof.
  unfold finish. intros H. destruct (rev parts1) as [|s r] eqn:Er.
  - inversion H; subst. assert (parts1 = []) by (rewrite <- (rev_involutive parts1), Er; reflexivity).
    subst. split; [reflexivity|]. intros k p Hk. destruct k; discriminate.
  - assert (Ep : parts1 = rev r ++ [s]) by (rewrite <- (rev_involutive parts1), Er; reflexivity).
    destruct (value_at R RNum e1 (pdur R e1)) as [v|] eqn:Ev; [|discriminate]. cbn [bind] in H.
    destruct (value_at R RNum s (pdur R s)) as [vs|] eqn:Evs; [|discriminate]. cbn [bind] in H.
    cbn [neqb RNum] in H. destruct (Req_EM_T vs v) as [Eq|Ne].
    + inversion H; subst final. split; [reflexivity|]. intros k p Hk. split; [auto|]. intros _. left. exact Hk.
    + inversion H; subst final. subst parts1. rewrite !app_length. cbn [length]. split; [reflexivity|].
      intros k p Hk. split.
      * intros L. rewrite nth_error_app1 in * by lia. exact Hk.
      * intros L. right. assert (k = length (rev r)) by lia. subst k.
        rewrite nth_error_app2 in * by lia. rewrite Nat.sub_diag in *. cbn [nth_error] in *.
        inversion Hk; subst p. exists v, vs. auto.
Qed.

Lemma lslice_same {A} i (l : list A) : lslice i i l = [].
Proof. unfold lslice. rewrite Nat.sub_diag. reflexivity. Qed.

Lemma lslice_app {A} (X Y Z : list A) : lslice (length X) (length (X ++ Y)) (X ++ Y ++ Z) = Y.
Proof.
  unfold lslice. rewrite skipn_app_length, app_length.
  replace (length X + length Y - length X)%nat with (length Y) by lia. apply firstn_app_length.
Qed.

Lemma lslice_to_end {A} (X Y : list A) : lslice (length X) (length (X ++ Y)) (X ++ Y) = Y.
Proof.
  unfold lslice. rewrite skipn_app_length, app_length.
  replace (length X + length Y - length X)%nat with (length Y) by lia. apply firstn_all.
Qed.

Lemma pairs_nth_inv {A} (l : list A) : forall k a b, nth_error (pairs l) k = Some (a, b) ->
  nth_error l k = Some a /\ nth_error l (S k) = Some b.
Proof.
  induction l as [|x l IH]; intros k a b H; [destruct k; discriminate|].
  destruct l as [|y l]; [destruct k; discriminate|].
  change (pairs (x :: y :: l)) with ((x, y) :: pairs (y :: l)) in H.
  destruct k as [|k]; simpl in H.
  - inversion H; subst. split; reflexivity.
  - apply IH in H. exact H.
Qed.

Lemma lslice_head {A} (X Y : list A) c1 j h r : lslice (length X) j (X ++ c1 :: Y) = h :: r -> h = c1.
Proof.
  unfold lslice. rewrite skipn_app_length. destruct (j - length X)%nat; simpl; [discriminate|].
  intros H. inversion H. reflexivity.
Qed.

Lemma asc_nth l : forall k a b, asc l -> nth_error l k = Some a -> nth_error l (S k) = Some b -> a <= b.
Proof.
  induction l as [|x l IH]; intros k a b H Ha Hb; [destruct k; discriminate|].
  destruct H as [H1 H2]. destruct k as [|k]; simpl in *.
  - inversion Ha; subst. apply H1. apply nth_error_In with 0%nat. exact Hb.
  - apply (IH k); assumption.
Qed.

(* ================================================================ 5. sampling all split times *)
Lemma sample_at_nonneg (e : envR) t ap e' : sample_at R RNum e t ap = Ok e' -> 0 <= t.
Proof.
  intros H. assert (Ne : e <> []) by (intros ->; discriminate).
  rewrite sample_at_body in H by exact Ne. unfold sample_body, check_time in H.
  destruct (Z.ltb_spec t 0); [discriminate|lia].
Qed.

Lemma sample_all_spec : forall sl (e e1 : envR), pwf e -> sample_all R RNum e sl = Ok e1 ->
  pwf e1 /\ (forall x, curve e1 x = curve e x) /\
  (forall t, In t sl -> In t (pstarts R e1) /\ 0 <= t) /\
  (forall s, nojump e s -> nojump e1 s) /\
  (forall z, In z (pstarts R e) -> In z (pstarts R e1)).
Proof.
  induction sl as [|t sl IH]; intros e e1 W H.
  - simpl in H. inversion H; subst. split; [exact W|]. split; [reflexivity|]. split; [intros t' []|]. split; auto.
  - cbn [sample_all] in H. destruct (sample_at R RNum e t 0) as [e'|] eqn:E; [|discriminate].
    cbn [bind] in H. pose proof (sample_samp e t 0 e' W ltac:(lia) E) as S.
    pose proof (samp_pwf _ _ _ W S) as W'.
    destruct (IH e' e1 W' H) as (P1 & P2 & P3 & P4 & P5).
    split; [exact P1|]. split; [intros x; rewrite P2; apply (samp_curve _ _ _ S)|].
    split; [|split].
    + intros t' [Ht|Ht]; [subst t'|apply P3; exact Ht].
      split; [apply P5, (samp_in _ _ _ S)|apply (sample_at_nonneg _ _ _ _ E)].
    + intros s J. apply P4. apply (samp_nojump _ _ _ _ W S J).
    + intros z Hz. apply P5. apply (samp_starts_mono _ _ _ _ S Hz).
Qed.

(* ================================================================ 6. the parts *)
Lemma first_point (e1 : envR) c : pwf e1 -> In c (pstarts R e1) ->
  exists A c1 C1', e1 = A ++ c1 :: C1' /\ fidx c (pstarts R e1) = length A /\ pdur R A = c /\
    fv 0 e1 c = Some (pv c1) /\ Forall (fun z => z < c) (pstarts_from R 0 A).
Proof.
  intros W I. destruct (split_at_start c e1 0 W I) as (A & R0 & E & Rn & Ed & Es). subst e1.
  destruct R0 as [|c1 C1']; [congruence|]. rewrite Z.add_0_l in Ed.
  exists A, c1, C1'. repeat split; try assumption.
  - unfold fidx, pstarts. rewrite pstarts_from_app. cbn [pstarts_from].
    rewrite index_of_first'; [apply pstarts_from_length|lia|apply notin_lt; exact Es].
  - apply fv_first; [apply notin_lt; exact Es|exact Ed].
Qed.

Lemma part_mid (e1 : envR) c c' : pwf e1 -> 0 <= c -> c < c' ->
  In c (pstarts R e1) -> In c' (pstarts R e1) ->
  exists A b B1 c1 C1', e1 = A ++ (b :: B1) ++ c1 :: C1' /\
    fidx c (pstarts R e1) = length A /\ fidx c' (pstarts R e1) = length (A ++ b :: B1) /\
    pdur R A = c /\ pdur R (b :: B1) = c' - c /\
    fv 0 e1 c = Some (pv b) /\ fv 0 e1 c' = Some (pv c1).
Proof.
  intros W H0 H1 Ic Ic'.
  destruct (cut_off_shape e1 c c' W H0 H1 Ic Ic') as (A & B1 & C1 & E & EA & SA & EB & SB & NB & NC).
  subst e1. destruct B1 as [|b B1]; [congruence|]. destruct C1 as [|c1 C1']; [congruence|].
  exists A, b, B1, c1, C1'.
  assert (N1 : ~ In c (pstarts_from R 0 A)) by (apply notin_lt; exact SA).
  assert (N2 : ~ In c' (pstarts_from R 0 (A ++ b :: B1))).
  { rewrite pstarts_from_app. intros N. apply in_app_or in N. destruct N as [N|N].
    - rewrite Forall_forall in SA. apply SA in N. lia.
    - rewrite Z.add_0_l, EA in N. rewrite Forall_forall in SB. apply SB in N. lia. }
  assert (D2 : pdur R (A ++ b :: B1) = c') by (rewrite pdur_app; lia).
  repeat split; try assumption; try lia.
  - unfold fidx, pstarts. rewrite pstarts_from_app. cbn [app pstarts_from].
    rewrite index_of_first'; [apply pstarts_from_length|lia|exact N1].
  - unfold fidx, pstarts. rewrite app_assoc. rewrite pstarts_from_app. cbn [pstarts_from].
    rewrite index_of_first'; [apply pstarts_from_length|lia|exact N2].
  - cbn [app]. apply fv_first; [exact N1|exact EA].
  - rewrite app_assoc. apply fv_first; [exact N2|exact D2].
Qed.

Definition mid_ok (e : envR) (c c' : Z) (part : envR) : Prop :=
  (forall x, (0 < x < tofR (c' - c))%R -> curve part x = curve e (tofR c + x)%R) /\
  (nojump e c -> curve part 0%R = curve e (tofR c)) /\
  (nojump e c' -> curve part (tofR (c' - c)) = curve e (tofR c')).

Definition last_ok (e : envR) (c : Z) (part : envR) : Prop :=
  (forall x, (0 < x)%R -> curve part x = curve e (tofR c + x)%R) /\
  (nojump e c -> curve part 0%R = curve e (tofR c)).

Lemma mid_curve (A : envR) b B1 c1 C1' c c' : pwf (A ++ (b :: B1) ++ c1 :: C1') -> 0 <= c -> c < c' ->
  pdur R A = c -> pdur R (b :: B1) = c' - c ->
  fv 0 (A ++ (b :: B1) ++ c1 :: C1') c = Some (pv b) ->
  fv 0 (A ++ (b :: B1) ++ c1 :: C1') c' = Some (pv c1) ->
  mid_ok (A ++ (b :: B1) ++ c1 :: C1') c c' ((b :: B1) ++ [mkPt 0 (pv c1) 0%R]).
Proof.
  intros W H0 H1 EA EB V V'.
  pose proof W as W'. apply pwf_app in W'. destruct W' as [WA W']. apply pwf_app in W'. destruct W' as [WB WC].
  pose proof (tofR_nonneg c H0) as S0. pose proof (tofR_pos (c' - c) ltac:(lia)) as P.
  set (L := mkPt 0 (pv c1) 0%R). repeat split.
  - intros x [Hx1 Hx2].
    rewrite curve_pos by exact Hx1. rewrite curve_pos by lra. rewrite <- EA.
    change (A ++ (b :: B1) ++ c1 :: C1') with (A ++ b :: (B1 ++ c1 :: C1')).
    rewrite cg_skip_shift; [|exact WA|lra].
    change (curve_go 0 b (B1 ++ c1 :: C1') x) with (cg 0 ((b :: B1) ++ c1 :: C1') x).
    apply cg_prefix; [discriminate|reflexivity|rewrite EB; lra].
  - intros J. apply J in V. rewrite <- V. cbn [app]. apply curve_nonpos. lra.
  - intros J. apply J in V'. rewrite <- V'. rewrite curve_pos by exact P.
    rewrite cg_skip; [reflexivity|exact WB|rewrite EB; lra].
Qed.

Lemma last_curve (A R0 : envR) c : pwf (A ++ R0) -> 0 <= c -> R0 <> [] -> pdur R A = c ->
  fv 0 (A ++ R0) c = Some (pv (hd (mkPt 0 0%R 0%R) R0)) ->
  last_ok (A ++ R0) c R0.
Proof.
  intros W H0 Rn EA V. apply pwf_app in W. destruct W as [WA WR].
  pose proof (tofR_nonneg c H0) as S0. destruct R0 as [|y Y]; [congruence|]. split.
  - intros x Hx. rewrite curve_pos by exact Hx. rewrite curve_pos by lra. rewrite <- EA.
    rewrite cg_skip_shift; [reflexivity|exact WA|lra].
  - intros J. apply J in V. rewrite <- V. cbn [hd]. apply curve_nonpos. lra.
Qed.

(* ================================================================ 7. assembly *)
Lemma cuts_asc sl : asc sl -> (forall t, In t sl -> 0 <= t) -> asc (cuts_of sl).
Proof. unfold cuts_of. destruct (memZ 0 sl); [auto|]. simpl. split; auto. Qed.

Lemma cuts_in (e1 : envR) sl : e1 <> [] -> (forall t, In t sl -> In t (pstarts R e1) /\ 0 <= t) ->
  forall t, In t (cuts_of sl) -> In t (pstarts R e1) /\ 0 <= t.
Proof.
  unfold cuts_of. intros Ne H. destruct (memZ 0 sl); [exact H|].
  intros t [Ht|Ht]; [|apply H; exact Ht]. subst t. split; [|lia].
  destruct e1; [congruence|left; reflexivity].
Qed.

Lemma mid_ok_transfer (e e1 : envR) c c' part : (forall x, curve e1 x = curve e x) ->
  (forall s, nojump e s -> nojump e1 s) -> mid_ok e1 c c' part -> mid_ok e c c' part.
Proof.
  intros EC HJ (M1 & M2 & M3). repeat split.
  - intros x Hx. rewrite <- EC. apply M1. exact Hx.
  - intros J. rewrite <- EC. apply M2, HJ, J.
  - intros J. rewrite <- EC. apply M3, HJ, J.
Qed.

Lemma last_ok_transfer (e e1 : envR) c part : (forall x, curve e1 x = curve e x) ->
  (forall s, nojump e s -> nojump e1 s) -> last_ok e1 c part -> last_ok e c part.
Proof.
  intros EC HJ (M1 & M2). split.
  - intros x Hx. rewrite <- EC. apply M1. exact Hx.
  - intros J. rewrite <- EC. apply M2, HJ, J.
Qed.

(* the point appended to the last part repeats the last value *)
Lemma finish_last (A R0 : envR) c v vs : pwf (A ++ R0) -> R0 <> [] -> pdur R A = c -> 0 <= c ->
  Forall (fun z => z < c) (pstarts_from R 0 A) ->
  value_at R RNum (A ++ R0) (pdur R (A ++ R0)) = Ok v -> value_at R RNum R0 (pdur R R0) = Ok vs ->
  vs <> v -> forall x, curve (R0 ++ [mkPt 0 v 0%R]) x = curve R0 x.
Proof.
  intros W Rn EA H0 SA Ev Evs Nv x.
  rewrite value_at_curve' in Ev by (destruct A; [exact Rn|discriminate]).
  rewrite value_at_curve' in Evs by exact Rn. inversion Ev as [Ev']. inversion Evs as [Evs']. clear Ev Evs.
  pose proof W as W'. apply pwf_app in W'. destruct W' as [WA WR].
  pose proof (pdur_nonneg _ WA). pose proof (pdur_nonneg _ WR).
  destruct (Z.eq_dec (pdur R (A ++ R0)) 0) as [Z0|Z0].
  - exfalso. rewrite pdur_app in Z0. assert (C0 : c = 0) by lia.
    destruct A as [|a A]; [|simpl in SA; inversion SA as [|? ? S1 S2]; lia].
    simpl app in *. congruence.
  - destruct (exists_last Rn) as (R' & l & El). subst R0.
    assert (Vl : v = pv l).
    { rewrite <- Ev'. rewrite app_assoc. rewrite app_assoc in W.
      pose proof W as W2. apply pwf_app in W2. destruct W2 as [W2 Wl]. apply pwf_cons in Wl. destruct Wl as [Wl _].
      apply curve_after_last; [exact W2| |].
      - apply tofR_le. rewrite (pdur_app (A ++ R') [l]). cbn [pdur]. lia.
      - apply tofR_pos. pose proof (pdur_nonneg _ W) as PW. rewrite <- app_assoc in PW |- *. lia. }
    rewrite <- app_assoc. cbn [app]. symmetry. apply curve_tail_const; [reflexivity|].
    constructor; [cbn [pv]; congruence|constructor].
Qed.

Lemma env_split_unfold (e : envR) ts : ts <> [] -> env_split_at R RNum e ts false =
  (let sl := sortZ ts in
   if (pdur R e <? lastZ sl) && negb false then Err ESplitError else
   e1 <- sample_all R RNum e sl ;
   parts <- p_split R e1 sl false ;
   parts1 <- add_ends R RNum parts ;
   finish e1 parts1).
Proof. destruct ts; [congruence|reflexivity]. Qed.

(* STAGE 3c: with the cut times 0 :: sorted ts (0 not repeated), there are as many parts as cut times;
   part k reproduces the original between cut k and cut k+1 (the last part from its cut on);
   at the cut times themselves the parts carry the value of the FIRST control point there, which is
   the value of the curve unless the envelope jumps at that time *)
Theorem split_curve (e : envR) ts parts : pwf e -> env_split_at R RNum e ts false = Ok parts ->
  let cuts := cuts_of (sortZ ts) in
  length parts = length cuts /\
  forall k c part, nth_error cuts k = Some c -> nth_error parts k = Some part ->
    match nth_error cuts (S k) with
    | Some c' => mid_ok e c c' part
    | None => last_ok e c part
    end.
Proof.
  intros W H.
  assert (Nts : ts <> []) by (intros ->; discriminate).
  rewrite env_split_unfold in H by exact Nts. cbv zeta in H. cbv zeta. set (sl := sortZ ts) in *.
  destruct ((pdur R e <? lastZ sl) && negb false); [discriminate|].
  destruct (sample_all R RNum e sl) as [e1|] eqn:E1; [|discriminate]. cbn [bind] in H.
  destruct (sample_all_spec sl e e1 W E1) as (W1 & EC & Hin & HJ & _).
  assert (Nsl : sl <> []) by (apply sortZ_nonnil; exact Nts).
  assert (Ne1 : e1 <> []).
  { destruct sl as [|t sl']; [congruence|]. destruct (Hin t (or_introl eq_refl)) as [I _]. intros ->. exact I. }
  rewrite p_split_points in H; [|exact Ne1|exact Nsl|apply sortZ_asc|exact Hin]. cbn [bind] in H.
  pose proof (cuts_in e1 sl Ne1 Hin) as Cin.
  assert (Casc : asc (cuts_of sl)) by (apply cuts_asc; [apply sortZ_asc|intros t Ht; apply Hin; exact Ht]).
  set (cuts := cuts_of sl) in *.
  set (is := map (fun t => fidx t (pstarts R e1)) cuts ++ [length e1]) in *.
  set (raw := slices e1 is) in *.
  destruct (add_ends R RNum raw) as [parts1|] eqn:EA; [|discriminate]. cbn [bind] in H.
  destruct (add_ends_spec raw parts1 EA) as [L1 N1]. destruct (finish_spec e1 parts1 parts H) as [L2 N2].
  assert (Lis : length is = S (length cuts)) by (unfold is; rewrite app_length, map_length; simpl; lia).
  assert (Lraw : length raw = length cuts).
  { unfold raw, slices. rewrite map_length, pairs_length. lia. }
  split; [lia|].
  intros k c part Hc Hp.
  assert (Kl : (k < length cuts)%nat) by (apply nth_error_Some; congruence).
  destruct (Cin c (nth_error_In _ _ Hc)) as [Ic C0].
  assert (Isk : nth_error is k = Some (fidx c (pstarts R e1))).
  { unfold is. rewrite nth_error_app1 by (rewrite map_length; lia).
    apply (map_nth_error (fun t => fidx t (pstarts R e1))). exact Hc. }
  destruct (nth_error cuts (S k)) as [c'|] eqn:Hc'.
  - (* a part between two cut times *)
    assert (Kl' : (S k < length cuts)%nat) by (apply nth_error_Some; congruence).
    destruct (Cin c' (nth_error_In _ _ Hc')) as [Ic' C0'].
    assert (Hle : c <= c') by (apply (asc_nth cuts k); assumption).
    assert (Isk' : nth_error is (S k) = Some (fidx c' (pstarts R e1))).
    { unfold is. rewrite nth_error_app1 by (rewrite map_length; lia).
      apply (map_nth_error (fun t => fidx t (pstarts R e1))). exact Hc'. }
    assert (Rk : nth_error raw k = Some (lslice (fidx c (pstarts R e1)) (fidx c' (pstarts R e1)) e1)).
    { exact (map_nth_error (fun '(i0, i1) => lslice i0 i1 e1) k (pairs is) (pairs_nth is k _ _ Isk Isk')). }
    destruct (nth_error raw (S k)) as [nx|] eqn:Rk'; [|apply nth_error_None in Rk'; lia].
    specialize (N1 k _ Rk). rewrite Rk' in N1. destruct N1 as (v & Ev & P1k).
    destruct (N2 k _ P1k) as [N2a _]. rewrite N2a in Hp by lia. inversion Hp; subst part. clear Hp.
    unfold raw, slices in Rk'. rewrite nth_error_map in Rk'.
    destruct (nth_error (pairs is) (S k)) as [[a b]|] eqn:Ep; [|discriminate].
    simpl in Rk'. inversion Rk'; subst nx. clear Rk'.
    apply pairs_nth_inv in Ep. destruct Ep as [Ea Eb]. rewrite Isk' in Ea. inversion Ea; subst a. clear Ea.
    apply value_at_0 in Ev. destruct Ev as (h & r & Enx & Evh). subst v.
    apply (mid_ok_transfer e e1 c c' _ EC HJ).
    destruct (Z.eq_dec c c') as [Eq|Neq].
    + subst c'. rewrite lslice_same. cbn [app].
      destruct (first_point e1 c W1 Ic) as (A & c1 & C1' & Ee & Ef & Ed & Vf & _).
      assert (Eh : h = c1). { rewrite Ef in Enx. rewrite Ee in Enx. apply lslice_head in Enx. exact Enx. }
      subst h. unfold mid_ok. rewrite Z.sub_diag, tofR_0. repeat split.
      * intros x Hx. lra.
      * intros J. apply J in Vf. rewrite <- Vf. rewrite curve_nonpos by lra. reflexivity.
      * intros J. apply J in Vf. rewrite <- Vf. rewrite curve_nonpos by lra. reflexivity.
    + destruct (part_mid e1 c c' W1 C0 ltac:(lia) Ic Ic')
        as (A & b0 & B1 & c1 & C1' & Ee & Ef & Ef' & EdA & EdB & V & V').
      assert (Eh : h = c1).
      { rewrite Ef' in Enx. rewrite Ee in Enx. rewrite app_assoc in Enx. apply lslice_head in Enx. exact Enx. }
      subst h.
      assert (Esl : lslice (fidx c (pstarts R e1)) (fidx c' (pstarts R e1)) e1 = b0 :: B1).
      { rewrite Ef, Ef', Ee. apply lslice_app. }
      rewrite Esl. rewrite Ee in W1, V, V' |- *.
      apply mid_curve; try assumption. lia.
  - (* the last part *)
    assert (Kl' : S k = length cuts) by (apply nth_error_None in Hc'; lia).
    assert (Isk' : nth_error is (S k) = Some (length e1)).
    { unfold is. rewrite nth_error_app2 by (rewrite map_length; lia). rewrite map_length.
      replace (S k - length cuts)%nat with 0%nat by lia. reflexivity. }
    assert (Rk : nth_error raw k = Some (lslice (fidx c (pstarts R e1)) (length e1) e1)).
    { exact (map_nth_error (fun '(i0, i1) => lslice i0 i1 e1) k (pairs is) (pairs_nth is k _ _ Isk Isk')). }
    assert (Rk' : nth_error raw (S k) = None) by (apply nth_error_None; lia).
    specialize (N1 k _ Rk). rewrite Rk' in N1.
    destruct (first_point e1 c W1 Ic) as (A & c1 & C1' & Ee & Ef & Ed & Vf & SA).
    assert (Esl : lslice (fidx c (pstarts R e1)) (length e1) e1 = c1 :: C1').
    { rewrite Ef. rewrite Ee. apply lslice_to_end. }
    rewrite Esl in N1.
    destruct (N2 k _ N1) as [_ N2b]. specialize (N2b ltac:(lia)).
    apply (last_ok_transfer e e1 c _ EC HJ).
    assert (LO : last_ok e1 c (c1 :: C1')).
    { rewrite Ee in W1, Vf |- *. apply last_curve; try assumption. discriminate. }
    destruct N2b as [Hf|(v & vs & Ev & Evs & Nv & Hf)]; rewrite Hf in Hp; inversion Hp; subst part.
    + exact LO.
    + assert (FL : forall x, curve ((c1 :: C1') ++ [mkPt 0 v 0%R]) x = curve (c1 :: C1') x).
      { rewrite Ee in W1, Ev. apply (finish_last A (c1 :: C1') c v vs); try assumption. discriminate. }
      destruct LO as [LO1 LO2]. split.
      * intros x Hx. rewrite FL. apply LO1. exact Hx.
      * intros J. rewrite FL. apply LO2. exact J.
Qed.

Print Assumptions split_curve.
