(* Splitting an envelope over the reals: every part returned by Envelope.split_at reproduces the
   original curve on its span (Stage 3c), built on Proofs/Resample.v and Proofs/ResampleCut.v. *)
From Coq Require Import ZArith List Bool Reals Lra Lia.
From MV Require Import Base.Res Model.EventTree Model.TreeOps Model.Num Model.Envelope Proofs.RNum
  Proofs.Resample Proofs.ResampleCut.
Import ListNotations.
Local Open Scope Z_scope.

(* ================================================================ 1. sorting *)
Fixpoint asc (l : list Z) : Prop :=
  match l with [] => True | x :: r => (forall y, In y r -> x <= y) /\ asc r end.

Lemma ins_In x y l : In y (insert_sorted x l) <-> y = x \/ In y l.
Proof.
  induction l as [|z l IH]; simpl; [intuition|].
  destruct (x <? z); simpl; [intuition|]. rewrite IH. intuition.
Qed.

Lemma ins_asc x l : asc l -> asc (insert_sorted x l).
Proof.
  induction l as [|z l IH]; simpl; intros H; [split; [intros y []|exact I]|]. destruct H as [H1 H2].
  destruct (Z.ltb_spec x z); simpl.
  - split; [|split; assumption]. intros y [Hy|Hy]; [lia|]. apply H1 in Hy. lia.
  - split; [|apply IH; exact H2]. intros y Hy. apply ins_In in Hy. destruct Hy as [Hy|Hy]; [lia|auto].
Qed.

Lemma sortZ_asc l : asc (sortZ l).
Proof. induction l as [|x l IH]; simpl; [exact I|]. apply ins_asc. exact IH. Qed.

Lemma sortZ_in l y : In y (sortZ l) <-> In y l.
Proof. induction l as [|x l IH]; simpl; [tauto|]. rewrite ins_In, IH. intuition. Qed.

Lemma ins_front x l : (forall y, In y l -> x <= y) -> insert_sorted x l = x :: l.
Proof.
  induction l as [|z l IH]; simpl; intros H; [reflexivity|].
  destruct (Z.ltb_spec x z); [reflexivity|].
  assert (x = z) by (specialize (H z (or_introl eq_refl)); lia). subst z.
  rewrite IH; [reflexivity|]. intros y Hy. apply H. right. exact Hy.
Qed.

Lemma sortZ_id l : asc l -> sortZ l = l.
Proof.
  induction l as [|x l IH]; simpl; intros H; [reflexivity|]. destruct H as [H1 H2].
  rewrite IH by exact H2. apply ins_front. exact H1.
Qed.

Lemma sortZ_nonnil l : l <> [] -> sortZ l <> [].
Proof.
  destruct l as [|x l]; [congruence|]. intros _ E.
  assert (In x (sortZ (x :: l))) by (apply sortZ_in; left; reflexivity). rewrite E in H. exact H.
Qed.

(* ================================================================ 2. first indices *)
Definition fidx (t : Z) (l : list Z) : nat := match index_of t l with Some i => i | None => 0%nat end.

Lemma index_of_in t l : In t l -> exists i, index_of t l = Some i /\ (i < length l)%nat.
Proof.
  induction l as [|y l IH]; simpl; intros H; [tauto|].
  destruct (Z.eqb_spec t y).
  - exists 0%nat. split; [reflexivity|lia].
  - destruct H as [H|H]; [congruence|]. destruct (IH H) as (i & E & L). rewrite E. simpl.
    exists (S i). split; [reflexivity|lia].
Qed.

Lemma fidx_lt t l : In t l -> (fidx t l < length l)%nat.
Proof. intros H. unfold fidx. destruct (index_of_in t l H) as (i & E & L). rewrite E. exact L. Qed.

Lemma fidx_zero t r : In t (0 :: r) -> (fidx t (0 :: r) = 0%nat <-> t = 0).
Proof.
  intros H. unfold fidx. simpl. destruct (Z.eqb_spec t 0); [tauto|].
  destruct H as [H|H]; [congruence|]. destruct (index_of_in t r H) as (i & E & L). rewrite E. simpl.
  split; [discriminate|tauto].
Qed.

(* ================================================================ 3. the split loop on control points *)
Lemma loop_all {F} ign durf (c : env F) abl : forall sl first idx,
  (forall t, In t sl -> In t abl /\ 0 <= t) ->
  p_split_loop F ign first durf sl c abl idx = Ok (c, idx ++ map (fun t => fidx t abl) sl).
Proof.
  induction sl as [|t sl IH]; intros first idx H.
  - simpl. rewrite app_nil_r. reflexivity.
  - cbn [p_split_loop]. destruct (H t (or_introl eq_refl)) as [Ht H0].
    assert (Ect : (if first then check_time t else Ok tt) = Ok tt).
    { destruct first; [|reflexivity]. unfold check_time. destruct (Z.ltb_spec t 0); [lia|reflexivity]. }
    rewrite Ect. cbn [bind].
    destruct (index_of_in t abl Ht) as (i & E & L). rewrite E.
    rewrite IH by (intros t' Ht'; apply H; right; exact Ht').
    rewrite <- app_assoc. cbn [map app]. unfold fidx at 2. rewrite E. reflexivity.
Qed.

Definition cuts_of (sl : list Z) : list Z := if memZ 0 sl then sl else 0 :: sl.

Lemma memN_map_fidx r sl : (forall t, In t sl -> In t (0 :: r)) ->
  memN 0 (map (fun t => fidx t (0 :: r)) sl) = memZ 0 sl.
Proof.
  induction sl as [|t sl IH]; intros H; [reflexivity|]. cbn [map memN memZ].
  rewrite IH by (intros t' Ht'; apply H; right; exact Ht'). f_equal.
  pose proof (fidx_zero t r (H t (or_introl eq_refl))) as Z0.
  destruct (Nat.eqb_spec 0 (fidx t (0 :: r))); destruct (Z.eqb_spec 0 t); try reflexivity.
  - exfalso. symmetry in e. apply Z0 in e. congruence.
  - exfalso. subst t. assert (fidx 0 (0 :: r) = 0%nat) by (apply Z0; reflexivity). congruence.
Qed.

Lemma memN_notin n l : (forall i, In i l -> (i < n)%nat) -> memN n l = false.
Proof.
  induction l as [|i l IH]; intros H; [reflexivity|]. simpl.
  rewrite IH by (intros j Hj; apply H; right; exact Hj).
  specialize (H i (or_introl eq_refl)). destruct (Nat.eqb_spec n i); [lia|reflexivity].
Qed.

(* the raw parts: slices between the first indices of the cut times *)
Definition slices {F} (e1 : env F) (is : list nat) : list (env F) :=
  map (fun '(i0, i1) => lslice i0 i1 e1) (pairs is).

Lemma p_split_points {F} (e1 : env F) sl : e1 <> [] -> sl <> [] -> asc sl ->
  (forall t, In t sl -> In t (pstarts F e1) /\ 0 <= t) ->
  p_split F e1 sl false =
  Ok (slices e1 (map (fun t => fidx t (pstarts F e1)) (cuts_of sl) ++ [length e1])).
Proof.
  intros Ne Ns As H. unfold p_split. destruct sl as [|t0 sl0] eqn:Esl; [congruence|]. rewrite <- Esl in *.
  rewrite sortZ_id by exact As. rewrite loop_all by exact H. cbn [bind app].
  assert (Est : exists r, pstarts F e1 = 0 :: r).
  { destruct e1 as [|p e1]; [congruence|]. eexists. reflexivity. }
  destruct Est as [r Er]. rewrite Er in *.
  rewrite memN_map_fidx by (intros t Ht; apply H; exact Ht).
  set (fi := fun t => fidx t (0 :: r)).
  assert (E1 : (if memZ 0 sl then map fi sl else 0%nat :: map fi sl) = map fi (cuts_of sl)).
  { unfold cuts_of. destruct (memZ 0 sl); [reflexivity|]. cbn [map]. f_equal. }
  rewrite E1.
  assert (Len : length (0 :: r) = length e1) by (rewrite <- Er; apply pstarts_from_length).
  rewrite memN_notin; [reflexivity|].
  intros i Hi. apply in_map_iff in Hi. destruct Hi as (t & Et & Ht). subst i.
  rewrite <- Len. apply fidx_lt. unfold cuts_of in Ht.
  destruct (memZ 0 sl); [apply H; exact Ht|]. destruct Ht as [Ht|Ht]; [subst; left; reflexivity|apply H; exact Ht].
Qed.

(* ================================================================ 4. list facts for the assembly *)
Lemma pairs_length {A} (l : list A) : length (pairs l) = (length l - 1)%nat.
Proof.
  induction l as [|x l IH]; [reflexivity|]. destruct l as [|y l]; [reflexivity|].
  change (pairs (x :: y :: l)) with ((x, y) :: pairs (y :: l)). cbn [length] in *. rewrite IH. lia.
Qed.

Lemma pairs_nth {A} (l : list A) : forall k a b, nth_error l k = Some a -> nth_error l (S k) = Some b ->
  nth_error (pairs l) k = Some (a, b).
Proof.
  induction l as [|x l IH]; intros k a b Ha Hb; [destruct k; discriminate|].
  destruct l as [|y l]; [destruct k; [discriminate|destruct k; discriminate]|].
  change (pairs (x :: y :: l)) with ((x, y) :: pairs (y :: l)).
  destruct k as [|k]; simpl in *; [congruence|]. apply IH; assumption.
Qed.

Lemma value_at_0 (nx : envR) v : value_at R RNum nx 0 = Ok v -> exists c1 r, nx = c1 :: r /\ v = pv c1.
Proof. destruct nx as [|c1 r]; [discriminate|]. simpl. intros H. inversion H. eauto. Qed.

Lemma add_ends_spec : forall (parts parts1 : list envR), add_ends R RNum parts = Ok parts1 ->
  length parts1 = length parts /\
  forall k p, nth_error parts k = Some p ->
    match nth_error parts (S k) with
    | Some nx => exists v, value_at R RNum nx 0 = Ok v /\ nth_error parts1 k = Some (p ++ [mkPt 0 v 0%R])
    | None => nth_error parts1 k = Some p
    end.
Proof.
  induction parts as [|s0 r IH]; intros parts1 H.
  - simpl in H. inversion H; subst. split; [reflexivity|]. intros k p Hk. destruct k; discriminate.
  - cbn [add_ends] in H. destruct r as [|s1 r'].
    + inversion H; subst. split; [reflexivity|]. intros k p Hk.
      destruct k as [|k]; [simpl in *; exact Hk|destruct k; discriminate].
    + destruct (value_at R RNum s1 0) as [v|] eqn:Ev; [|discriminate]. cbn [bind] in H.
      destruct (add_ends R RNum (s1 :: r')) as [r1|] eqn:Er; [|discriminate]. cbn [bind] in H.
      inversion H; subst parts1. destruct (IH r1 eq_refl) as [L1 N1]. split; [simpl in *; lia|].
      intros k p Hk. destruct k as [|k].
      * simpl in Hk. inversion Hk; subst p. cbn [nth_error]. exists v. split; [exact Ev|reflexivity].
      * change (nth_error (s0 :: s1 :: r') (S k)) with (nth_error (s1 :: r') k) in Hk.
        change (nth_error (s0 :: s1 :: r') (S (S k))) with (nth_error (s1 :: r') (S k)).
        specialize (N1 k p Hk). destruct (nth_error (s1 :: r') (S k)); exact N1.
Qed.

Definition finish (e1 : envR) (parts1 : list envR) : res (list envR) :=
  match rev parts1 with
  | [] => Ok []
  | s :: r =>
    v <- value_at R RNum e1 (pdur R e1) ;
    vs <- value_at R RNum s (pdur R s) ;
    Ok (if neqb RNum vs v then parts1 else rev r ++ [s ++ [mkPt 0 v 0%R]])
  end.

Lemma finish_spec e1 parts1 final : finish e1 parts1 = Ok final ->
  length final = length parts1 /\
  forall k p, nth_error parts1 k = Some p ->
    (S k < length parts1 -> nth_error final k = Some p)%nat /\
    (S k = length parts1 -> nth_error final k = Some p \/
       exists v vs, value_at R RNum e1 (pdur R e1) = Ok v /\ value_at R RNum p (pdur R p) = Ok vs /\
                    vs <> v /\ nth_error final k = Some (p ++ [mkPt 0 v 0%R])).
Proof.
  unfold finish. intros H. destruct (rev parts1) as [|s r] eqn:Er.
  - inversion H; subst. assert (parts1 = []) by (rewrite <- (rev_involutive parts1), Er; reflexivity).
    subst. split; [reflexivity|]. intros k p Hk. destruct k; discriminate.
  - assert (Ep : parts1 = rev r ++ [s]) by (rewrite <- (rev_involutive parts1), Er; reflexivity).
    destruct (value_at R RNum e1 (pdur R e1)) as [v|] eqn:Ev; [|discriminate]. cbn [bind] in H.
    destruct (value_at R RNum s (pdur R s)) as [vs|] eqn:Evs; [|discriminate]. cbn [bind] in H.
    cbn [neqb RNum] in H. destruct (Req_EM_T vs v) as [Eq|Ne].
    + inversion H; subst final. split; [reflexivity|]. intros k p Hk. split; [auto|]. intros _. left. exact Hk.
    + inversion H; subst final. subst parts1. rewrite !app_length. cbn [length]. split; [reflexivity|].
      intros k p Hk. split.
      * intros L. rewrite nth_error_app1 in * by lia. exact Hk.
      * intros L. right. assert (k = length (rev r)) by lia. subst k.
        rewrite nth_error_app2 in * by lia. rewrite Nat.sub_diag in *. cbn [nth_error] in *.
        inversion Hk; subst p. exists v, vs. auto.
Qed.

Lemma lslice_same {A} i (l : list A) : lslice i i l = [].
Proof. unfold lslice. rewrite Nat.sub_diag. reflexivity. Qed.

Lemma lslice_app {A} (X Y Z : list A) : lslice (length X) (length (X ++ Y)) (X ++ Y ++ Z) = Y.
Proof.
  unfold lslice. rewrite skipn_app_length, app_length.
  replace (length X + length Y - length X)%nat with (length Y) by lia. apply firstn_app_length.
Qed.

Lemma lslice_to_end {A} (X Y : list A) : lslice (length X) (length (X ++ Y)) (X ++ Y) = Y.
Proof.
  unfold lslice. rewrite skipn_app_length, app_length.
  replace (length X + length Y - length X)%nat with (length Y) by lia. apply firstn_all.
Qed.
