(* Compound._concatenate_tempo over the reals (Model/Convert.v, section Join):
   the tempo of a joined event follows the first operand's tempo up to the first operand's duration
   and the second operand's tempo, shifted, afterwards.
   B4 (the operands' tempo values are unchanged): by construction, join_tempo is a function of its
   arguments and returns a new envelope; the operands are not modified. *)
From Coq Require Import ZArith List Bool Reals Lra Lia.
From MV Require Import Base.Res Model.EventTree Model.TreeOps Model.Num Model.Envelope Model.Convert
  Proofs.RNum Proofs.Resample Proofs.ResampleCut.
Import ListNotations.
Local Open Scope Z_scope.

(* ================================================================ 1. the first part after the cut / the extension *)

(* cutting out [0, en]: the piece has duration en and ends with a zero-length point *)
Lemma cut_out_shape (e : envR) en e' : pwf e -> 0 <= en -> env_cut_out R RNum e 0 en = Ok e' ->
  exists B L, e' = B ++ [L] /\ pd L = 0 /\ pdur R B = en /\ pwf B.
Proof.
  intros W H1 H. unfold env_cut_out in H.
  destruct (sample_at R RNum e 0 (en - 0)) as [e1|] eqn:E1; [|discriminate]. cbn [bind] in H.
  destruct (sample_at R RNum e1 en 0) as [e2|] eqn:E2; [|discriminate]. cbn [bind] in H.
  fold (lastp_of e2 en) in H.
  destruct (lastp_of e2 en) as [lastp|] eqn:EL; [|discriminate]. cbn [bind] in H.
  unfold check_time, check_start_end in H.
  destruct (Z.ltb_spec 0 0); [lia|]. destruct (Z.ltb_spec en 0); [lia|].
  cbn [bind] in H. inversion H; subst e'. clear H.
  pose proof (sample_samp e 0 (en - 0) e1 W ltac:(lia) E1) as S1.
  pose proof (samp_pwf _ _ _ W S1) as W1.
  pose proof (sample_samp e1 en 0 e2 W1 ltac:(lia) E2) as S2.
  pose proof (samp_pwf _ _ _ W1 S2) as W2.
  assert (Is : In 0 (pstarts R e2)) by (apply (samp_starts_mono _ _ _ _ S2), (samp_in _ _ _ S1)).
  assert (Ien : In en (pstarts R e2)) by apply (samp_in _ _ _ S2).
  destruct (cut_shape e2 0 en W2 ltac:(lia) H1 Is Ien) as (A & B & C & E & EA & SA & EB & NBC & HC). subst e2.
  pose proof W2 as W'. apply pwf_app in W'. destruct W' as [WA W']. apply pwf_app in W'. destruct W' as [WB WC].
  assert (Ecut : p_cut_out R 0 en 0 (A ++ B ++ C) = B).
  { rewrite !p_cut_out_app. rewrite p_cut_out_before; [|exact WA|lia|exact SA].
    rewrite p_cut_out_mid; [|exact WB|lia|lia]. cbn [app].
    destruct HC as [HC|(c & C' & HC & Pc)]; subst C; [simpl; apply app_nil_r|].
    rewrite p_cut_out_after; [apply app_nil_r|exact WC|lia|lia|exact Pc]. }
  rewrite Ecut. exists B, (mkPt 0 (pv lastp) (pc lastp)).
  split; [reflexivity|]. split; [reflexivity|]. split; [lia|exact WB].
Qed.

(* extending beyond the end: the last event is prolonged up to d and a zero-length point with the
   last value is appended; in particular the duration becomes d whatever the last duration was *)
Lemma extend_shape (e : envR) d e' : pwf e -> pdur R e < d -> env_extend_until R RNum e d = Ok e' ->
  exists init l, e = init ++ [l] /\
    e' = init ++ [mkPt (pd l + (d - pdur R e)) (pv l) (pc l); mkPt 0 (pv l) 0%R].
Proof.
  intros W L H. unfold env_extend_until in H.
  assert (Ne : e <> []) by (intros ->; discriminate).
  pose proof (pdur_nonneg _ W) as Nn.
  rewrite sample_at_body in H by exact Ne. unfold sample_body in H.
  unfold check_time in H. destruct (Z.ltb_spec d 0) as [T0|T0]; [lia|].
  cbn [bind] in H. cbv zeta in H.
  assert (N : ~ In d (pstarts R e)).
  { intros N. unfold pstarts in N. apply starts_bounds in N; [lia|exact W]. }
  destruct (memZ d (pstarts R e)) eqn:M; [apply memZ_In in M; contradiction|].
  assert (TposR : (0 < tofR d)%R) by (apply tofR_pos; lia).
  rewrite value_at_curve' in H by exact Ne.
  rewrite curve_shape_at_nonneg in H by assumption. cbn [bind] in H.
  unfold pindex_at, index_at_from in H.
  destruct (Z.ltb_spec d (pdur R e)); [lia|]. cbn [andb] in H.
  rewrite (bisect_right_all d (pstarts R e)) in H by (apply starts_le; [exact W|lia]).
  assert (E0 : nth_error (pstarts R e) (length (pstarts R e)) = None) by (apply nth_error_None; lia).
  rewrite E0 in H. rewrite cs_go_all in H by (assumption || lia).
  destruct (exists_last Ne) as (init & l & E). subst e.
  pose proof W as W'. apply pwf_app in W'. destruct W' as [Wi Wl]. apply pwf_cons in Wl. destruct Wl as [Wl _].
  pose proof (pdur_nonneg _ Wi) as Ni.
  assert (Dl : pdur R (init ++ [l]) = pdur R init + pd l) by (rewrite pdur_app; cbn [pdur]; lia).
  assert (V : curve (init ++ [l]) (tofR d) = pv l).
  { apply curve_after_last; [exact Wi|apply tofR_le; lia|exact TposR]. }
  rewrite V in H.
  destruct (Z.ltb_spec (pdur R (init ++ [l])) d) as [L1|L1]; [|lia].
  rewrite rev_unit, rev_involutive in H. inversion H; subst e'.
  exists init, l. split; reflexivity.
Qed.

(* extending exactly up to the end of a trajectory whose last point has a length of its own (a tail): a zero-length
   point with the last value is appended at the end, nothing else changes *)
Lemma tail_positive_last (e : envR) : tail_positive R e = true -> exists init l, e = init ++ [l] /\ 0 < pd l.
Proof.
  unfold tail_positive. intro H. destruct (rev e) as [|l r] eqn:E; [discriminate|].
  exists (rev r), l. split; [|lia].
  rewrite <- (rev_involutive e), E. reflexivity.
Qed.
Lemma tail_positive_false_last_zero (e : envR) : e <> [] -> pwf e -> tail_positive R e = false ->
  exists X L, e = X ++ [L] /\ pd L = 0.
Proof.
  intros Ne W H. destruct (exists_last Ne) as (init & l & E). subst e.
  unfold tail_positive in H. rewrite rev_unit in H.
  apply pwf_app in W. destruct W as [_ W]. apply pwf_cons in W. destruct W as [Wl _].
  exists init, l. split; [reflexivity|lia].
Qed.
Lemma extend_shape_eq (e : envR) e' : pwf e -> tail_positive R e = true ->
  env_extend_until R RNum e (pdur R e) = Ok e' ->
  exists init l, e = init ++ [l] /\ e' = e ++ [mkPt 0 (pv l) 0%R].
Proof.
  intros W TP H. unfold env_extend_until in H.
  destruct (tail_positive_last e TP) as (init & l & E & Pl).
  assert (Ne : e <> []) by (intros ->; discriminate).
  pose proof (pdur_nonneg _ W) as Nn.
  rewrite sample_at_body in H by exact Ne. unfold sample_body in H.
  unfold check_time in H. destruct (Z.ltb_spec (pdur R e) 0) as [T0|T0]; [lia|].
  cbn [bind] in H. cbv zeta in H.
  pose proof W as W'. rewrite E in W'. apply pwf_app in W'. destruct W' as [Wi Wl].
  pose proof (pdur_nonneg _ Wi) as Ni.
  assert (Dl : pdur R e = pdur R init + pd l) by (rewrite E, pdur_app; cbn [pdur]; lia).
  assert (N : ~ In (pdur R e) (pstarts R e)).
  { unfold pstarts. rewrite E at 2. apply notin_starts_snoc; [exact Wi|lia]. }
  destruct (memZ (pdur R e) (pstarts R e)) eqn:M; [apply memZ_In in M; contradiction|].
  assert (TposR : (0 < tofR (pdur R e))%R) by (apply tofR_pos; lia).
  rewrite value_at_curve' in H by exact Ne.
  rewrite curve_shape_at_nonneg in H by assumption. cbn [bind] in H.
  unfold pindex_at, index_at_from in H.
  destruct (Z.ltb_spec (pdur R e) (pdur R e)); [lia|]. cbn [andb] in H.
  rewrite (bisect_right_all (pdur R e) (pstarts R e)) in H by (apply starts_le; [exact W|lia]).
  assert (E0 : nth_error (pstarts R e) (length (pstarts R e)) = None) by (apply nth_error_None; lia).
  rewrite E0 in H. rewrite cs_go_all in H by (assumption || lia).
  assert (V : curve e (tofR (pdur R e)) = pv l).
  { rewrite E at 1. apply curve_after_last; [exact Wi|apply tofR_le; lia|exact TposR]. }
  rewrite V in H.
  rewrite squash_at_end in H; [|exact W|exact N|cbn [pd]; lia].
  rewrite Z.ltb_irrefl in H. injection H as <-. exists init, l. split; [exact E|reflexivity].
Qed.

(* ================================================================ 2. the curve of an appended envelope *)
Lemma join_core (X : envR) L tb : pwf (X ++ [L]) -> pd L = 0 -> pwf tb -> tb <> [] ->
  let t := (X ++ [L]) ++ tb in
  pwf t /\
  (forall x, (x < tofR (pdur R X))%R -> curve t x = curve (X ++ [L]) x) /\
  (forall x, (x <= 0)%R -> curve t x = curve (X ++ [L]) x) /\
  (forall x, (tofR (pdur R X) < x)%R -> curve t x = curve tb (x - tofR (pdur R X))%R).
Proof.
  intros W HL Wb Nb t. pose proof W as W'. apply pwf_app in W'. destruct W' as [WX WL].
  pose proof (pdur_nonneg _ WX) as NX. pose proof (tofR_nonneg _ NX) as NXr.
  assert (Nonpos : forall x, (x <= 0)%R -> curve t x = curve (X ++ [L]) x).
  { intros x Hx. unfold t. destruct X as [|a X]; cbn [app]; rewrite !curve_nonpos by exact Hx; reflexivity. }
  split; [apply pwf_app; split; assumption|]. split; [|split; [exact Nonpos|]].
  - intros x Hx. destruct (Rle_dec x 0) as [H0|H0]; [apply Nonpos; exact H0|].
    assert (NeX : X <> []). { intros ->. cbn [pdur] in Hx. rewrite tofR_0 in Hx. lra. }
    rewrite !curve_pos by lra. unfold t. rewrite <- app_assoc. cbn [app].
    apply cg_prefix; [exact NeX|reflexivity|lra].
  - intros x Hx. destruct tb as [|q Y]; [congruence|].
    rewrite !curve_pos by lra. unfold t.
    rewrite cg_skip; [|exact W|rewrite pdur_app; cbn [pdur]; rewrite HL, !Z.add_0_r; lra].
    rewrite pdur_app. cbn [pdur]. rewrite HL, !Z.add_0_r.
    change (cg 0 (q :: Y) (x - tofR (pdur R X))%R) with (curve_go 0 q Y (x - tofR (pdur R X))%R).
    rewrite <- (curve_go_shift Y q 0 (x - tofR (pdur R X))%R (0 + tofR (pdur R X))%R).
    f_equal; ring.
Qed.

(* at the joint itself (a jump in general) the second operand's first value is taken, provided the
   second tempo does not itself start with a jump *)
Lemma join_core_joint (X : envR) L (q : ptR) Y : pwf (X ++ [L]) -> pd L = 0 -> 0 < pdur R X ->
  0 < pd q \/ Y = [] ->
  curve ((X ++ [L]) ++ q :: Y) (tofR (pdur R X)) = pv q.
Proof.
  intros W HL HP Hq. pose proof (tofR_pos _ HP) as P.
  rewrite curve_pos by exact P.
  rewrite cg_skip; [|exact W|rewrite pdur_app; cbn [pdur]; rewrite HL, !Z.add_0_r; lra].
  rewrite pdur_app. cbn [pdur]. rewrite HL, !Z.add_0_r.
  rewrite (curve_go_t0 (0 + tofR (pdur R X))%R (tofR (pdur R X))) by ring.
  apply curve_go_at_start. exact Hq.
Qed.

(* ================================================================ 3. join_tempo *)
Definition last_zero (e : envR) : Prop := exists X L, e = X ++ [L] /\ pd L = 0.

Lemma join_unfold fa fb (ta : envR) da tb :
  join_tempo R RNum fa fb ta da tb =
  if negb fa && negb fb && match ta, tb with p :: _, q :: _ => neqb RNum (pv p) (pv q) | _, _ => false end
  then Ok ta
  else (ta' <- (if da <? pdur R ta then env_cut_out R RNum ta 0 da
                else if (pdur R ta <? da) || tail_positive R ta then env_extend_until R RNum ta da else Ok ta) ;
        Ok (ta' ++ tb)).
Proof. reflexivity. Qed.

(* B1: never fails *)
Theorem join_total fa fb (ta : envR) da tb : pwf ta -> ta <> [] -> 0 <= da ->
  exists t, join_tempo R RNum fa fb ta da tb = Ok t.
Proof.
  intros W Ne Hd. rewrite join_unfold.
  destruct (negb fa && negb fb && _); [eexists; reflexivity|].
  destruct (Z.ltb_spec da (pdur R ta)).
  - destruct (cut_out_total ta 0 da W Ne ltac:(lia) Hd) as [e' E]. rewrite E. eexists; reflexivity.
  - destruct ((pdur R ta <? da) || tail_positive R ta).
    + unfold env_extend_until. destruct (sample_total ta da 0 W Ne Hd ltac:(lia)) as [e' E]. rewrite E.
      eexists; reflexivity.
    + eexists; reflexivity.
Qed.

(* the condition under which the tempi are really joined *)
Definition nontrivial (fa fb : bool) (ta tb : envR) : Prop :=
  fa = true \/ fb = true \/ match ta, tb with p :: _, q :: _ => pv p <> pv q | _, _ => True end.

Lemma nontrivial_false fa fb (ta tb : envR) : nontrivial fa fb ta tb ->
  negb fa && negb fb && match ta, tb with p :: _, q :: _ => neqb RNum (pv p) (pv q) | _, _ => false end = false.
Proof.
  intros [->|[->|H]]; [reflexivity|destruct fa; reflexivity|].
  destruct ta as [|p ta]; [apply andb_false_r|]. destruct tb as [|q tb]; [apply andb_false_r|].
  cbn [neqb RNum]. destruct (Req_EM_T (pv p) (pv q)); [contradiction|apply andb_false_r].
Qed.

(* the first part: duration da, ending with a zero-length point, same curve as ta on (-oo, da] *)
Lemma first_part (ta : envR) da ta' : pwf ta -> ta <> [] -> 0 <= da ->
  (if da <? pdur R ta then env_cut_out R RNum ta 0 da
   else if (pdur R ta <? da) || tail_positive R ta then env_extend_until R RNum ta da else Ok ta) = Ok ta' ->
  exists X L, ta' = X ++ [L] /\ pd L = 0 /\ pdur R X = da /\ pwf ta' /\
    (forall x, (x <= tofR da)%R -> curve ta' x = curve ta x).
Proof.
  intros W Ne Hd H. destruct (Z.ltb_spec da (pdur R ta)) as [L1|L1].
  - destruct (cut_out_shape ta da ta' W Hd H) as (B & L & E & HL & HB & WB).
    destruct (cut_out_curve ta 0 da ta' W ltac:(lia) Hd H) as [C1 C2].
    exists B, L. split; [exact E|]. split; [exact HL|]. split; [exact HB|]. split.
    + subst ta'. apply pwf_app. split; [exact WB|]. apply pwf_cons. split; [lia|constructor].
    + intros x Hx. destruct (Rle_dec x 0) as [H0|H0].
      * specialize (C2 (nojump_0 ta)). rewrite tofR_0 in C2.
        destruct ta as [|p r]; [congruence|]. rewrite (curve_nonpos p r x H0).
        rewrite (curve_nonpos p r 0%R) in C2 by lra. rewrite <- C2.
        subst ta'. destruct B as [|b B]; cbn [app]; rewrite !curve_nonpos by lra; reflexivity.
      * rewrite C1 by (rewrite Z.sub_0_r; lra). rewrite tofR_0. f_equal. ring.
  - destruct (Z.ltb_spec (pdur R ta) da) as [L2|L2]; cbn [orb] in H.
    + destruct (extend_shape ta da ta' W L2 H) as (init & l & E & E').
      destruct (extend_curve ta da ta' W H) as (W' & C & _).
      exists (init ++ [mkPt (pd l + (da - pdur R ta)) (pv l) (pc l)]), (mkPt 0 (pv l) 0%R).
      split; [rewrite <- app_assoc; exact E'|]. split; [reflexivity|]. split.
      * subst ta. rewrite !pdur_app. cbn [pdur pd]. lia.
      * split; [exact W'|]. intros x _. apply C.
    + assert (Ed : pdur R ta = da) by lia.
      destruct (tail_positive R ta) eqn:TP.
      * (* a tail that ends exactly at the seam: a control point is set there *)
        subst da. destruct (extend_shape_eq ta ta' W TP H) as (init & l & E & E').
        destruct (extend_curve ta (pdur R ta) ta' W H) as (W' & C & _).
        exists ta, (mkPt 0 (pv l) 0%R). split; [exact E'|]. split; [reflexivity|]. split; [reflexivity|].
        split; [exact W'|]. intros x _. apply C.
      * inversion H; subst ta'.
        destruct (tail_positive_false_last_zero ta Ne W TP) as (X & L & E & HL).
        exists X, L. split; [exact E|]. split; [exact HL|]. split.
        -- subst ta. rewrite pdur_app in Ed. cbn [pdur] in Ed. lia.
        -- split; [exact W|reflexivity].
Qed.

(* B2: the joined tempo *)
Theorem join_spec fa fb (ta : envR) da tb t : pwf ta -> pwf tb -> ta <> [] -> tb <> [] -> 0 <= da ->
  nontrivial fa fb ta tb ->
  join_tempo R RNum fa fb ta da tb = Ok t ->
  pwf t /\
  (forall x, (0 < x < tofR da)%R -> curve t x = curve ta x) /\
  (forall x, (x <= 0)%R -> curve t x = curve ta x) /\
  (forall x, (tofR da < x)%R -> curve t x = curve tb (x - tofR da)%R).
Proof.
  intros Wa Wb Na Nb Hd NT H. rewrite join_unfold, (nontrivial_false _ _ _ _ NT) in H.
  match type of H with (bind ?c _) = _ => destruct c as [ta'|] eqn:E end; [|discriminate].
  cbn [bind] in H. inversion H; subst t. clear H.
  destruct (first_part ta da ta' Wa Na Hd E) as (X & L & E' & HL & HX & W' & C).
  subst ta'. destruct (join_core X L tb W' HL Wb Nb) as (P1 & P2 & P3 & P4). rewrite HX in *.
  pose proof (tofR_nonneg _ Hd) as Nd.
  split; [exact P1|]. split; [|split].
  - intros x Hx. rewrite P2 by lra. apply C. lra.
  - intros x Hx. rewrite P3 by exact Hx. apply C. lra.
  - exact P4.
Qed.

Theorem join_at_joint fa fb (ta : envR) da (q : ptR) tb0 t : pwf ta -> ta <> [] -> 0 < da ->
  nontrivial fa fb ta (q :: tb0) -> 0 < pd q \/ tb0 = [] ->
  join_tempo R RNum fa fb ta da (q :: tb0) = Ok t -> curve t (tofR da) = pv q.
Proof.
  intros Wa Na Hd NT Hq H. rewrite join_unfold, (nontrivial_false _ _ _ _ NT) in H.
  match type of H with (bind ?c _) = _ => destruct c as [ta'|] eqn:E end; [|discriminate].
  cbn [bind] in H. inversion H; subst t. clear H.
  destruct (first_part ta da ta' Wa Na ltac:(lia) E) as (X & L & E' & HL & HX & W' & C).
  subst ta'. rewrite <- HX. apply join_core_joint; [exact W'|exact HL|lia|exact Hq].
Qed.

(* B3: two equal constant tempi: the first operand's tempo is kept *)
Theorem join_trivial (p : ptR) ta0 (q : ptR) tb0 da : pv p = pv q ->
  join_tempo R RNum false false (p :: ta0) da (q :: tb0) = Ok (p :: ta0).
Proof.
  intros Hv. rewrite join_unfold. cbn [negb andb neqb RNum]. destruct (Req_EM_T (pv p) (pv q)); [reflexivity|contradiction].
Qed.

(* a trajectory that ends with a tail exactly at the seam (the case the unrepaired code got wrong: defect D12):
   a control point is set at the seam, so the tail keeps its value up to the seam *)
Definition ex_ta : envR := [mkPt 2 60 0]%R.
Definition ex_tb : envR := [mkPt 0 120 0]%R.
Example join_tail_at_seam :
  tail_positive R ex_ta = true /\ pdur R ex_ta = 2 /\
  exists t, join_tempo R RNum false false ex_ta 2 ex_tb = Ok t /\
            forall x, (0 < x < tofR 2)%R -> curve t x = curve ex_ta x.
Proof.
  assert (W : pwf ex_ta) by (repeat constructor; cbn; lia).
  assert (Wb : pwf ex_tb) by (repeat constructor; cbn; lia).
  assert (NT : nontrivial false false ex_ta ex_tb) by (right; right; cbn; lra).
  split; [unfold tail_positive; cbn; reflexivity|]. split; [reflexivity|].
  destruct (join_total false false ex_ta 2 ex_tb W ltac:(discriminate) ltac:(lia)) as [t E].
  exists t. split; [exact E|].
  destruct (join_spec false false ex_ta 2 ex_tb t W Wb ltac:(discriminate) ltac:(discriminate) ltac:(lia) NT E) as (_ & C & _).
  exact C.
Qed.

(* satisfiability of the hypotheses: a trajectory cut to a shorter event, joined with a constant tempo *)
Example join_hyps_ok :
  let ta : envR := [mkPt 4 60 0; mkPt 0 90 0]%R in let tb : envR := [mkPt 0 120 0]%R in
  pwf ta /\ pwf tb /\ ta <> [] /\ tb <> [] /\ 0 <= 2 /\ nontrivial true false ta tb.
Proof.
  cbv zeta. split; [repeat constructor; cbn; lia|]. split; [repeat constructor; cbn; lia|].
  split; [discriminate|]. split; [discriminate|]. split; [lia|]. left; reflexivity.
Qed.

Print Assumptions join_total.
Print Assumptions join_spec.
Print Assumptions join_at_joint.
Print Assumptions join_trivial.
Print Assumptions join_tail_at_seam.
