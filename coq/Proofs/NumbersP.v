(* Proofs about M5 (Model/Numbers.v): durations and tempi as numbers. *)
From Coq Require Import ZArith QArith Qround Qabs Qfield List Bool Lia Lqa.
From MV Require Import Base.Res Model.Numbers.
Import ListNotations.
Open Scope Z_scope.

(* ------------------------------------------------------------------ *)
(* values                                                              *)
(* ------------------------------------------------------------------ *)
Lemma qval_alt d : (qval d == dt d # 10000000000)%Q.
Proof. unfold qval, tpb, Qeq, Qdiv, Qmult, Qinv; simpl. lia. Qed.

Lemma qval_mul_tpb d : (qval d * (tpb # 1) == dt d # 1)%Q.
Proof. unfold qval, tpb, Qeq, Qdiv, Qmult, Qinv; simpl. lia. Qed.

(* ------------------------------------------------------------------ *)
(* 1. the six operators agree with the order of the values             *)
(* ------------------------------------------------------------------ *)
Lemma cmp_cases a b :
  ((qval a < b)%Q /\ d_lt a b = true /\ d_eq a b = false) \/
  ((qval a == b)%Q /\ d_lt a b = false /\ d_eq a b = true) \/
  ((b < qval a)%Q /\ d_lt a b = false /\ d_eq a b = false).
Proof.
  unfold d_lt, d_eq. destruct (Qcompare (qval a) b) eqn:E.
  - right; left. apply Qeq_alt in E. repeat split; auto. apply Qeq_bool_iff; auto.
  - left. apply Qlt_alt in E. repeat split; auto.
    destruct (Qeq_bool (qval a) b) eqn:F; auto. apply Qeq_bool_iff in F. lra.
  - right; right. apply Qgt_alt in E. repeat split; auto.
    destruct (Qeq_bool (qval a) b) eqn:F; auto. apply Qeq_bool_iff in F. lra.
Qed.

Local Ltac cmp3 a b :=
  let H := fresh "H" in let Hl := fresh "Hl" in let He := fresh "He" in
  destruct (cmp_cases a b) as [(H & Hl & He)|[(H & Hl & He)|(H & Hl & He)]];
  rewrite ?Hl, ?He; simpl.
Local Ltac by_cases a b :=
  unfold d_le, d_gt, d_ge, d_ne; cmp3 a b;
  split; intros; try discriminate; try reflexivity; try lra.

Theorem d_lt_spec : forall a b, d_lt a b = true <-> (qval a < b)%Q.
Proof. intros a b. by_cases a b. Qed.
Theorem d_eq_spec : forall a b, d_eq a b = true <-> (qval a == b)%Q.
Proof. intros a b. by_cases a b. Qed.
Theorem d_le_spec : forall a b, d_le a b = true <-> (qval a <= b)%Q.
Proof. intros a b. by_cases a b. Qed.
Theorem d_gt_spec : forall a b, d_gt a b = true <-> (b < qval a)%Q.
Proof. intros a b. by_cases a b. Qed.
Theorem d_ge_spec : forall a b, d_ge a b = true <-> (b <= qval a)%Q.
Proof. intros a b. by_cases a b. Qed.
Theorem d_ne_spec : forall a b, d_ne a b = true <-> ~ (qval a == b)%Q.
Proof. intros a b. by_cases a b. Qed.

Theorem ops_consistent : forall a b,
  d_le a b = negb (d_gt a b) /\ d_ge a b = negb (d_lt a b) /\ d_ne a b = negb (d_eq a b) /\
  (d_lt a b = true -> d_le a b = true).
Proof.
  intros a b. unfold d_le, d_gt, d_ge, d_ne.
  cmp3 a b; auto.
Qed.

(* exactly one of <, ==, > holds *)
Theorem ops_trichotomy : forall a b,
  (d_lt a b = true /\ d_eq a b = false /\ d_gt a b = false) \/
  (d_lt a b = false /\ d_eq a b = true /\ d_gt a b = false) \/
  (d_lt a b = false /\ d_eq a b = false /\ d_gt a b = true).
Proof.
  intros a b. unfold d_gt.
  cmp3 a b; auto.
Qed.

(* ------------------------------------------------------------------ *)
(* 2. durations of either kind are totally ordered by their ticks      *)
(* ------------------------------------------------------------------ *)
Theorem qval_lt_ticks : forall a b, (qval a < qval b)%Q <-> dt a < dt b.
Proof. intros a b. rewrite !qval_alt. unfold Qlt; simpl. lia. Qed.

Theorem qval_eq_ticks : forall a b, (qval a == qval b)%Q <-> dt a = dt b.
Proof. intros a b. rewrite !qval_alt. unfold Qeq; simpl. lia. Qed.

Theorem qval_le_ticks : forall a b, (qval a <= qval b)%Q <-> dt a <= dt b.
Proof. intros a b. rewrite !qval_alt. unfold Qle; simpl. lia. Qed.

Theorem dur_total : forall a b,
  d_lt a (qval b) = true \/ d_eq a (qval b) = true \/ d_lt b (qval a) = true.
Proof.
  intros a b. rewrite !d_lt_spec, d_eq_spec, !qval_lt_ticks, qval_eq_ticks. lia.
Qed.

Theorem dur_lt_trans : forall a b c,
  d_lt a (qval b) = true -> d_lt b (qval c) = true -> d_lt a (qval c) = true.
Proof. intros a b c. rewrite !d_lt_spec, !qval_lt_ticks. lia. Qed.

Theorem dur_le_trans : forall a b c,
  d_le a (qval b) = true -> d_le b (qval c) = true -> d_le a (qval c) = true.
Proof. intros a b c. rewrite !d_le_spec, !qval_le_ticks. lia. Qed.

Theorem dur_le_antisym : forall a b,
  d_le a (qval b) = true -> d_le b (qval a) = true -> dt a = dt b.
Proof. intros a b. rewrite !d_le_spec, !qval_le_ticks. lia. Qed.

Theorem dur_lt_irrefl : forall a, d_lt a (qval a) = false.
Proof.
  intros a. destruct (d_lt a (qval a)) eqn:E; auto.
  apply d_lt_spec, qval_lt_ticks in E. lia.
Qed.

(* the kinds are irrelevant for every operator *)
Theorem ops_kind_irrelevant : forall k1 k2 t b,
  d_lt (mkDur k1 t) b = d_lt (mkDur k2 t) b /\ d_eq (mkDur k1 t) b = d_eq (mkDur k2 t) b /\
  d_le (mkDur k1 t) b = d_le (mkDur k2 t) b /\ d_gt (mkDur k1 t) b = d_gt (mkDur k2 t) b /\
  d_ge (mkDur k1 t) b = d_ge (mkDur k2 t) b /\ d_ne (mkDur k1 t) b = d_ne (mkDur k2 t) b.
Proof. intros; repeat split; reflexivity. Qed.

(* ------------------------------------------------------------------ *)
(* 3. rounding                                                         *)
(* ------------------------------------------------------------------ *)
Global Instance rhe_comp : Proper (Qeq ==> eq) rhe.
Proof.
  intros x y H. unfold rhe. cbv zeta.
  rewrite (Qfloor_comp _ _ H).
  assert (E : (x - (Qfloor y # 1) ?= 1 # 2)%Q = (y - (Qfloor y # 1) ?= 1 # 2)%Q).
  { apply Qcompare_comp; [rewrite H|]; reflexivity. }
  rewrite E. reflexivity.
Qed.

Global Instance to_ticks_comp : Proper (Qeq ==> eq) to_ticks.
Proof. intros x y H. unfold to_ticks. apply rhe_comp. rewrite H; reflexivity. Qed.

Theorem rhe_int : forall z, rhe (z # 1) = z.
Proof.
  intros z. unfold rhe. cbv zeta.
  change (z # 1)%Q with (inject_Z z). rewrite Qfloor_Z.
  assert (E : forall x : Q, (x - x ?= 1 # 2)%Q = Lt) by (intros x; apply (proj1 (Qlt_alt _ _)); lra).
  rewrite E. reflexivity.
Qed.

Lemma rhe_cases q :
  (rhe q = Qfloor q /\ (q - inject_Z (Qfloor q) <= 1 # 2)%Q) \/
  (rhe q = Qfloor q + 1 /\ (1 # 2 <= q - inject_Z (Qfloor q))%Q).
Proof.
  unfold rhe. cbv zeta. set (f := Qfloor q). change (f # 1)%Q with (inject_Z f).
  destruct (Qcompare (q - inject_Z f) (1 # 2)) eqn:E.
  - apply Qeq_alt in E. destruct (Z.even f); [left|right]; split; auto; lra.
  - apply Qlt_alt in E. left; split; auto; lra.
  - apply Qgt_alt in E. right; split; auto; lra.
Qed.

Theorem rhe_near : forall q, (Qabs (q - (rhe q # 1)) <= 1 # 2)%Q.
Proof.
  intros q. apply Qabs_Qle_condition.
  pose proof (Qfloor_le q) as H1. pose proof (Qlt_floor q) as H2.
  change (rhe q # 1)%Q with (inject_Z (rhe q)).
  destruct (rhe_cases q) as [[-> H]|[-> H]].
  - lra.
  - rewrite inject_Z_plus in *. change (inject_Z 1) with 1%Q in *. lra.
Qed.

(* rounding is to a nearest integer: no integer is strictly closer *)
Theorem rhe_nearest : forall q z, (Qabs (q - (rhe q # 1)) <= Qabs (q - (z # 1)))%Q.
Proof.
  intros q z.
  pose proof (Qfloor_le q) as H1. pose proof (Qlt_floor q) as H2.
  change (rhe q # 1)%Q with (inject_Z (rhe q)). change (z # 1)%Q with (inject_Z z).
  pose proof (rhe_cases q) as HC.
  set (f := Qfloor q) in *.
  rewrite inject_Z_plus in H2. change (inject_Z 1) with 1%Q in H2.
  assert (Hz : z <= f \/ f + 1 <= z) by lia.
  assert (Hz' : (inject_Z z <= inject_Z f)%Q \/ (inject_Z f + 1 <= inject_Z z)%Q).
  { destruct Hz as [Hz|Hz]; [left|right].
    - rewrite <- Zle_Qle; auto.
    - change 1%Q with (inject_Z 1). rewrite <- inject_Z_plus, <- Zle_Qle; auto. }
  clear Hz. revert Hz'. generalize (inject_Z z). intros Z0 Hz'.
  destruct HC as [[-> H]|[-> H]].
  - revert H1 H2 Hz' H. generalize (inject_Z f). intros F H1 H2 Hz' H.
    rewrite (Qabs_pos (q - F)) by lra.
    destruct Hz' as [Hz'|Hz'].
    + rewrite (Qabs_pos (q - Z0)) by lra. lra.
    + rewrite (Qabs_neg (q - Z0)) by lra. lra.
  - rewrite inject_Z_plus. change (inject_Z 1) with 1%Q.
    revert H1 H2 Hz' H. generalize (inject_Z f). intros F H1 H2 Hz' H.
    rewrite (Qabs_neg (q - (F + 1))) by lra.
    destruct Hz' as [Hz'|Hz'].
    + rewrite (Qabs_pos (q - Z0)) by lra. lra.
    + rewrite (Qabs_neg (q - Z0)) by lra. lra.
Qed.

Theorem to_ticks_qval : forall d, to_ticks (qval d) = dt d.
Proof. intros d. unfold to_ticks. rewrite qval_mul_tpb. apply rhe_int. Qed.

(* the 10-digit rounding is idempotent *)
Theorem to_ticks_idem : forall q, to_ticks ((to_ticks q # 1) / (tpb # 1))%Q = to_ticks q.
Proof. intros q. exact (to_ticks_qval (mkDur KDirect (to_ticks q))). Qed.

Lemma to_ticks_near : forall x, (Qabs (((to_ticks x # 1) / (tpb # 1)) - x) <= 1 # 20000000000)%Q.
Proof.
  intros x. unfold to_ticks.
  pose proof (rhe_near (x * (tpb # 1))) as H.
  apply Qabs_Qle_condition in H. apply Qabs_Qle_condition.
  change (rhe (x * (tpb # 1)) # 1)%Q with (inject_Z (rhe (x * (tpb # 1)))) in *.
  generalize dependent (inject_Z (rhe (x * (tpb # 1)))). intros R H.
  unfold Qdiv. change (/ (tpb # 1))%Q with (1 # 10000000000)%Q.
  change (tpb # 1)%Q with (10000000000 # 1)%Q in H.
  lra.
Qed.

(* ------------------------------------------------------------------ *)
(* 4. arithmetic                                                       *)
(* Purity is by construction: `arith` is a function that returns a new value of type `durv`;
   its arguments are immutable Coq values (the in-place forms are the `UArith` steps below). *)
(* ------------------------------------------------------------------ *)
Lemma qval_add a b k : (qval a + qval b == qval (mkDur k (dt a + dt b)))%Q.
Proof. rewrite !qval_alt. simpl. unfold Qeq, Qplus; simpl. lia. Qed.
Lemma qval_sub a b k : (qval a - qval b == qval (mkDur k (dt a - dt b)))%Q.
Proof. rewrite !qval_alt. simpl. unfold Qeq, Qminus, Qplus, Qopp; simpl. lia. Qed.

Theorem arith_add : forall a b, arith OAdd a (qval b) = Ok (mkDur (dk a) (dt a + dt b)).
Proof.
  intros a b. unfold arith, q_apply. rewrite (qval_add a b (dk a)), to_ticks_qval. reflexivity.
Qed.

Theorem arith_sub : forall a b, arith OSub a (qval b) = Ok (mkDur (dk a) (dt a - dt b)).
Proof.
  intros a b. unfold arith, q_apply. rewrite (qval_sub a b (dk a)), to_ticks_qval. reflexivity.
Qed.

Lemma arith_ok_inv o a b r :
  arith o a b = Ok r -> r = mkDur (dk a) (to_ticks (q_apply o (qval a) b)).
Proof.
  unfold arith. destruct o; try (intros H; inversion H; reflexivity).
  destruct (Qeq_bool b 0); intros H; inversion H; reflexivity.
Qed.

Theorem arith_kind : forall o a b r, arith o a b = Ok r -> dk r = dk a.
Proof. intros o a b r H. apply arith_ok_inv in H. subst; reflexivity. Qed.

Theorem arith_result_near : forall o a b r,
  arith o a b = Ok r -> (Qabs (qval r - q_apply o (qval a) b) <= 1 # 20000000000)%Q.
Proof.
  intros o a b r H. apply arith_ok_inv in H. subst r.
  unfold qval at 1. simpl dt. apply to_ticks_near.
Qed.

Theorem arith_div_zero : forall a b, (b == 0)%Q -> arith ODiv a b = Err EZeroDivision.
Proof. intros a b H. unfold arith. apply Qeq_bool_iff in H. rewrite H. reflexivity. Qed.

(* errors: only division, only by zero *)
Theorem arith_err_iff : forall o a b k,
  arith o a b = Err k <-> o = ODiv /\ (b == 0)%Q /\ k = EZeroDivision.
Proof.
  intros o a b k. unfold arith. split.
  - destruct o; try discriminate. destruct (Qeq_bool b 0) eqn:E; [|discriminate].
    intros H; inversion H. apply Qeq_bool_iff in E. auto.
  - intros (-> & H & ->). apply Qeq_bool_iff in H. rewrite H. reflexivity.
Qed.

(* the reflected forms: a plain number on the left of the operator *)
Lemma arith_r_ok_inv o b a r :
  arith_r o b a = Ok r -> r = mkDur (dk a) (to_ticks (q_apply o b (qval a))).
Proof.
  unfold arith_r. destruct o; try (intros H; inversion H; reflexivity).
  destruct (Qeq_bool (qval a) 0); intros H; inversion H; reflexivity.
Qed.
Theorem arith_r_kind : forall o b a r, arith_r o b a = Ok r -> dk r = dk a.
Proof. intros o b a r H. apply arith_r_ok_inv in H. subst; reflexivity. Qed.
Theorem arith_r_result_near : forall o b a r,
  arith_r o b a = Ok r -> (Qabs (qval r - q_apply o b (qval a)) <= 1 # 20000000000)%Q.
Proof.
  intros o b a r H. apply arith_r_ok_inv in H. subst r.
  unfold qval at 1. simpl dt. apply to_ticks_near.
Qed.
Theorem arith_r_err_iff : forall o b a k,
  arith_r o b a = Err k <-> o = ODiv /\ (qval a == 0)%Q /\ k = EZeroDivision.
Proof.
  intros o b a k. unfold arith_r. split.
  - destruct o; try discriminate. destruct (Qeq_bool (qval a) 0) eqn:E; [|discriminate].
    intros H; inversion H. apply Qeq_bool_iff in E. auto.
  - intros (-> & H & ->). apply Qeq_bool_iff in H. rewrite H. reflexivity.
Qed.
(* b + a is a + b: the sum of two durations does not depend on which side the duration object is *)
Theorem arith_r_add_is_arith_add : forall a b, arith_r OAdd (qval b) a = arith OAdd a (qval b).
Proof.
  intros a b. rewrite arith_add. unfold arith_r, q_apply.
  assert (E : (qval b + qval a == qval (mkDur (dk a) (dt a + dt b)))%Q).
  { rewrite Qplus_comm. apply qval_add. }
  rewrite E, to_ticks_qval. reflexivity.
Qed.

(* ------------------------------------------------------------------ *)
(* 5. the state machine                                                *)
(* ------------------------------------------------------------------ *)
Lemma st_inv_beat s : st_inv s -> st_beat s = st_value s.
Proof. unfold st_inv, st_beat, st_value. destruct (scache s); auto. Qed.

Theorem st_inv_init : forall k q, st_inv (mkDState k q None).
Proof. intros; exact I. Qed.

Lemma st_inv_set s q : st_inv (st_set s q).
Proof. unfold st_set. destruct (skind s); exact I. Qed.

Theorem st_inv_step : forall s u s', st_inv s -> st_step s u = Ok s' -> st_inv s'.
Proof.
  intros s u s' Hs H. destruct u as [q|o b|]; simpl in H.
  - inversion H; apply st_inv_set.
  - destruct o; try (inversion H; apply st_inv_set).
    destruct (Qeq_bool b 0); [discriminate|]. inversion H; apply st_inv_set.
  - inversion H. unfold st_inv; simpl. apply st_inv_beat; auto.
Qed.

Theorem st_inv_run : forall us s s', st_inv s -> st_run s us = Ok s' -> st_inv s'.
Proof.
  induction us as [|u r IH]; intros s s' Hs H; simpl in H.
  - inversion H; subst; auto.
  - destruct (st_step s u) as [s1|k] eqn:E; simpl in H; [|discriminate].
    eapply IH; [|exact H]. eapply st_inv_step; eauto.
Qed.

Theorem history_latest : forall s us s',
  st_inv s -> st_run s us = Ok s' -> st_inv s' /\ st_beat s' = st_value s'.
Proof.
  intros s us s' Hs H. pose proof (st_inv_run us s s' Hs H) as Hi.
  split; auto. apply st_inv_beat; auto.
Qed.

Theorem read_does_not_change_value : forall s,
  st_inv s -> st_beat (snd (st_read s)) = st_beat s /\ fst (st_read s) = st_beat s.
Proof. intros s _. split; reflexivity. Qed.

(* a read changes neither the stored value nor the kind *)
Theorem read_keeps_value : forall s,
  st_value (snd (st_read s)) = st_value s /\ skind (snd (st_read s)) = skind s /\
  sratio (snd (st_read s)) = sratio s.
Proof. intros; repeat split; reflexivity. Qed.

Theorem set_then_read : forall s q, st_beat (st_set s q) = to_ticks q.
Proof.
  intros s q. unfold st_set. destruct (skind s); unfold st_beat; simpl scache; cbv iota; simpl sratio.
  - apply to_ticks_idem.
  - reflexivity.
Qed.

Theorem set_then_read_value : forall s q, st_value (st_set s q) = to_ticks q /\ skind (st_set s q) = skind s.
Proof.
  intros s q. unfold st_set, st_value. destruct (skind s); simpl sratio; split; auto.
  apply to_ticks_idem.
Qed.

(* a stale cache is impossible: after a set, a read, a set the second value is reported *)
Theorem set_read_set : forall s q1 q2,
  st_beat (st_set (snd (st_read (st_set s q1))) q2) = to_ticks q2.
Proof. intros; apply set_then_read. Qed.

(* in-place arithmetic: the new reported value is the arithmetic result on the reported value, rounded *)
Theorem step_arith_value : forall s o b s',
  st_step s (UArith o b) = Ok s' ->
  st_beat s' = to_ticks (q_apply o ((st_beat s # 1) / (tpb # 1))%Q b) /\ skind s' = skind s.
Proof.
  intros s o b s' H. simpl in H.
  assert (E : s' = st_set s (q_apply o ((st_beat s # 1) / (tpb # 1))%Q b)).
  { destruct o; try (inversion H; reflexivity).
    destruct (Qeq_bool b 0); [discriminate|inversion H; reflexivity]. }
  subst s'. split; [apply set_then_read|apply set_then_read_value].
Qed.

Theorem step_err_iff : forall s u k,
  st_step s u = Err k <-> exists b, u = UArith ODiv b /\ (b == 0)%Q /\ k = EZeroDivision.
Proof.
  intros s u k. split.
  - destruct u as [q|o b|]; simpl; try discriminate.
    destruct o; try discriminate. destruct (Qeq_bool b 0) eqn:E; [|discriminate].
    intros H; inversion H. apply Qeq_bool_iff in E. eauto.
  - intros (b & -> & H & ->). simpl. apply Qeq_bool_iff in H. rewrite H. reflexivity.
Qed.

(* The cache is transparent: a reference machine without a cache (state = kind and stored ratio only)
   produces the same stored values, the same reported beat counts and the same errors for every
   history of updates and reads.  This is the "no stale cache" statement in full. *)
Definition ref_set (k : dkind) (q : Q) : dkind * Q :=
  match k with
  | KDirect => (KDirect, ((to_ticks q # 1) / (tpb # 1))%Q)
  | KRatio => (KRatio, q)
  end.
Definition ref_step (kr : dkind * Q) (u : upd) : res (dkind * Q) :=
  match u with
  | USet q => Ok (ref_set (fst kr) q)
  | URead => Ok kr
  | UArith o b =>
      let x := ((to_ticks (snd kr) # 1) / (tpb # 1))%Q in
      match o with
      | ODiv => if Qeq_bool b 0 then Err EZeroDivision else Ok (ref_set (fst kr) (q_apply o x b))
      | _ => Ok (ref_set (fst kr) (q_apply o x b))
      end
  end.
Fixpoint ref_run (kr : dkind * Q) (us : list upd) : res (dkind * Q) :=
  match us with [] => Ok kr | u :: r => kr' <- ref_step kr u ; ref_run kr' r end.
Definition st_abs (s : dstate) : dkind * Q := (skind s, sratio s).

Lemma st_abs_set s q : st_abs (st_set s q) = ref_set (skind s) q.
Proof. unfold st_set, ref_set. destruct (skind s); reflexivity. Qed.

Lemma cache_transparent_step s u :
  st_inv s ->
  match st_step s u, ref_step (st_abs s) u with
  | Ok s', Ok kr => st_abs s' = kr
  | Err k, Err k' => k = k'
  | _, _ => False
  end.
Proof.
  intros Hs. destruct u as [q|o b|]; simpl.
  - apply st_abs_set.
  - rewrite (st_inv_beat s Hs). unfold st_value.
    destruct o; try apply st_abs_set.
    destruct (Qeq_bool b 0); [reflexivity|apply st_abs_set].
  - reflexivity.
Qed.

Theorem cache_transparent : forall us s,
  st_inv s ->
  match st_run s us, ref_run (st_abs s) us with
  | Ok s', Ok kr => st_abs s' = kr /\ st_beat s' = to_ticks (snd kr)
  | Err k, Err k' => k = k'
  | _, _ => False
  end.
Proof.
  induction us as [|u r IH]; intros s Hs; simpl.
  - split; [reflexivity|]. apply st_inv_beat; auto.
  - pose proof (cache_transparent_step s u Hs) as St.
    destruct (st_step s u) as [s1|k] eqn:E1; destruct (ref_step (st_abs s) u) as [kr|k'] eqn:E2;
      simpl; try contradiction; auto.
    subst kr. apply IH. eapply st_inv_step; eauto.
Qed.

(* ------------------------------------------------------------------ *)
(* 6. parsing                                                          *)
(* ------------------------------------------------------------------ *)
Theorem parse_duration_same : parse_duration PSame = Ok OSame.
Proof. reflexivity. Qed.
Theorem parse_tempo_same : parse_tempo PSame = Ok OSame.
Proof. reflexivity. Qed.

Definition dur_accepted (x : pin) : bool :=
  match x with
  | PSame | PInt _ | PFloat _ | PFrac _ => true
  | PStr (SInt _) | PStr (SFloat _) => true
  | PStr (SFrac _ d) => negb (d =? 0)
  | _ => false
  end.
Definition tempo_accepted (x : pin) : bool :=
  match x with
  | PStr SList | PPoints => true
  | _ => dur_accepted x
  end.

Definition dur_rejected (x : pin) : Prop :=
  x = PStr SJunk \/ x = PStr SList \/ (exists n, x = PStr (SFrac n 0)) \/ x = PPoints \/ x = POther.
Definition tempo_rejected (x : pin) : Prop :=
  x = PStr SJunk \/ (exists n, x = PStr (SFrac n 0)) \/ x = POther.

Theorem parse_duration_accepts : forall x,
  dur_accepted x = true ->
  parse_duration x =
    Ok match x with
       | PSame => OSame
       | PInt z | PStr (SInt z) => ODirect (z # 1)
       | PFloat q | PStr (SFloat q) => ODirect q
       | PFrac q => ORatio q
       | PStr (SFrac n d) => ORatio ((n # 1) / (d # 1))%Q
       | _ => OSame
       end.
Proof.
  intros [| | | |[| | n d| |]| |]; simpl; try discriminate; try reflexivity.
  destruct (d =? 0); [discriminate|reflexivity].
Qed.

Corollary parse_duration_accepts_ok : forall x, dur_accepted x = true -> exists o, parse_duration x = Ok o.
Proof. intros x H. rewrite (parse_duration_accepts x H). eauto. Qed.

(* the individual accepted classes *)
Corollary parse_duration_classes :
  (forall z, parse_duration (PInt z) = Ok (ODirect (z # 1))) /\
  (forall q, parse_duration (PFloat q) = Ok (ODirect q)) /\
  (forall q, parse_duration (PFrac q) = Ok (ORatio q)) /\
  (forall z, parse_duration (PStr (SInt z)) = Ok (ODirect (z # 1))) /\
  (forall q, parse_duration (PStr (SFloat q)) = Ok (ODirect q)) /\
  (forall n d, d <> 0 -> parse_duration (PStr (SFrac n d)) = Ok (ORatio ((n # 1) / (d # 1))%Q)).
Proof.
  repeat split; try reflexivity. intros n d H. simpl.
  destruct (d =? 0) eqn:E; [apply Z.eqb_eq in E; contradiction|reflexivity].
Qed.

Theorem parse_duration_rejects : forall x k,
  parse_duration x = Err k <-> k = ECannotParse /\ dur_rejected x.
Proof.
  intros x k. unfold dur_rejected. split.
  - destruct x as [| | | |[| | n d| |]| |]; simpl; try discriminate;
      try (intros H; inversion H; split; [reflexivity|tauto]).
    destruct (d =? 0) eqn:E; [|discriminate]. apply Z.eqb_eq in E; subst.
    intros H; inversion H. split; auto. right; right; left; eauto.
  - intros (-> & [-> | [-> | [[n ->] | [-> | ->]]]]); reflexivity.
Qed.

Theorem parse_duration_total : forall x,
  (dur_accepted x = true /\ exists o, parse_duration x = Ok o) \/
  (dur_accepted x = false /\ parse_duration x = Err ECannotParse /\ dur_rejected x).
Proof.
  intros x. destruct (dur_accepted x) eqn:A.
  - left; split; auto. apply parse_duration_accepts_ok; auto.
  - right; split; auto. unfold dur_rejected.
    destruct x as [| | | |[| | n d| |]| |]; simpl in *; try discriminate; try tauto.
    destruct (d =? 0) eqn:E; [|discriminate]. apply Z.eqb_eq in E; subst.
    split; auto. right; right; left; eauto.
Qed.

Theorem parse_tempo_accepts : forall x,
  tempo_accepted x = true ->
  parse_tempo x =
    Ok match x with
       | PSame => OSame
       | PInt z | PStr (SInt z) => ODirect (z # 1)
       | PFloat q | PStr (SFloat q) | PFrac q => ODirect q
       | PStr (SFrac n d) => ODirect ((n # 1) / (d # 1))%Q
       | _ => OFlex
       end.
Proof.
  intros [| | | |[| | n d| |]| |]; simpl; try discriminate; try reflexivity.
  destruct (d =? 0); [discriminate|reflexivity].
Qed.

Corollary parse_tempo_accepts_ok : forall x, tempo_accepted x = true -> exists o, parse_tempo x = Ok o.
Proof. intros x H. rewrite (parse_tempo_accepts x H). eauto. Qed.

Theorem parse_tempo_rejects : forall x k,
  parse_tempo x = Err k <-> k = ECannotParse /\ tempo_rejected x.
Proof.
  intros x k. unfold tempo_rejected. split.
  - destruct x as [| | | |[| | n d| |]| |]; simpl; try discriminate;
      try (intros H; inversion H; split; [reflexivity|tauto]).
    destruct (d =? 0) eqn:E; [|discriminate]. apply Z.eqb_eq in E; subst.
    intros H; inversion H. split; auto. right; left; eauto.
  - intros (-> & [-> | [[n ->] | ->]]); reflexivity.
Qed.

Theorem parse_tempo_total : forall x,
  (tempo_accepted x = true /\ exists o, parse_tempo x = Ok o) \/
  (tempo_accepted x = false /\ parse_tempo x = Err ECannotParse /\ tempo_rejected x).
Proof.
  intros x. destruct (tempo_accepted x) eqn:A.
  - left; split; auto. apply parse_tempo_accepts_ok; auto.
  - right; split; auto. unfold tempo_rejected.
    destruct x as [| | | |[| | n d| |]| |]; simpl in *; try discriminate; try tauto.
    destruct (d =? 0) eqn:E; [|discriminate]. apply Z.eqb_eq in E; subst.
    split; auto. right; left; eauto.
Qed.

Theorem parse_tempo_points : parse_tempo PPoints = Ok OFlex /\ parse_tempo (PStr SList) = Ok OFlex.
Proof. split; reflexivity. Qed.

(* ------------------------------------------------------------------ *)
(* 7. tempo                                                            *)
(* ------------------------------------------------------------------ *)
Theorem seconds_times_bpm : forall b, ~ (b == 0)%Q -> (seconds_of b * b == 60 # 1)%Q.
Proof. intros b H. unfold seconds_of. field. exact H. Qed.

Theorem western_bpm_spec : forall s r, western_bpm s r = (s * r)%Q.
Proof. reflexivity. Qed.

(* ------------------------------------------------------------------ *)
(* 8. examples                                                         *)
(* ------------------------------------------------------------------ *)
(* mixed kinds: a DirectDuration of 1.5 beats and a RatioDuration of 3/2 *)
Example ex_mixed_eq :
  d_eq (mkDur KDirect 15000000000) (qval (mkDur KRatio 15000000000)) = true /\
  d_eq (mkDur KRatio 15000000000) (3 # 2) = true /\
  d_lt (mkDur KRatio 10000000000) (qval (mkDur KDirect 15000000000)) = true /\
  d_ge (mkDur KDirect 15000000000) (qval (mkDur KRatio 10000000000)) = true /\
  d_ne (mkDur KDirect 15000000000) (1 # 1) = true /\
  d_le (mkDur KDirect 15000000000) (1 # 1) = false /\
  d_gt (mkDur KDirect 15000000000) (1 # 1) = true.
Proof. vm_compute. repeat split. Qed.

(* rounding: 1/3 beat is 3333333333 ticks; 2/3 is 6666666667; half-tick cases go to even *)
Example ex_round_third :
  to_ticks (1 # 3) = 3333333333 /\ to_ticks (2 # 3) = 6666666667 /\
  to_ticks (1 # 20000000000) = 0 /\ to_ticks (3 # 20000000000) = 2 /\ to_ticks (- (1) # 20000000000) = 0 /\
  to_ticks (- (3) # 20000000000) = -2 /\ to_ticks (- (1) # 3) = -3333333333.
Proof. vm_compute. repeat split. Qed.

Example ex_arith :
  arith OAdd (mkDur KRatio 3333333333) (qval (mkDur KDirect 10000000000)) = Ok (mkDur KRatio 13333333333) /\
  arith OMul (mkDur KDirect 3333333333) (3 # 1) = Ok (mkDur KDirect 9999999999) /\
  arith ODiv (mkDur KRatio 10000000000) (3 # 1) = Ok (mkDur KRatio 3333333333) /\
  arith ODiv (mkDur KRatio 10000000000) (0 # 5) = Err EZeroDivision /\
  arith OSub (mkDur KDirect 10000000000) (3 # 2) = Ok (mkDur KDirect (-5000000000)).
Proof. vm_compute. repeat split. Qed.

(* a history: read, write, read, in-place arithmetic, write, read *)
Example ex_history :
  let s0 := mkDState KRatio (1 # 3) None in
  st_inv s0 /\
  fst (st_read s0) = 3333333333 /\
  match st_run s0 [URead; USet (1 # 2); URead; UArith OMul (1 # 3); URead; USet (7 # 4)] with
  | Ok s => st_beat s = 17500000000 /\ scache s = None /\ fst (st_read s) = 17500000000
  | Err _ => False
  end /\
  match st_run s0 [URead; USet (1 # 2); URead; UArith OMul (1 # 3); URead] with
  | Ok s => st_beat s = 1666666667 /\ scache s = Some 1666666667
  | Err _ => False
  end /\
  st_run s0 [URead; UArith ODiv 0; URead] = Err EZeroDivision.
Proof. vm_compute. repeat split. Qed.

Example ex_history_direct :
  match st_run (mkDState KDirect (1 # 1) None) [URead; USet (1 # 3); URead; USet (2 # 3)] with
  | Ok s => st_beat s = 6666666667 /\ skind s = KDirect
  | Err _ => False
  end.
Proof. vm_compute. repeat split. Qed.

Example ex_seconds : (seconds_of (120 # 1) == 1 # 2)%Q /\ (western_bpm (60 # 1) (3 # 2) == 90 # 1)%Q.
Proof. split; vm_compute; reflexivity. Qed.

Print Assumptions d_lt_spec.
Print Assumptions d_eq_spec.
Print Assumptions d_le_spec.
Print Assumptions d_gt_spec.
Print Assumptions d_ge_spec.
Print Assumptions d_ne_spec.
Print Assumptions ops_consistent.
Print Assumptions ops_trichotomy.
Print Assumptions qval_lt_ticks.
Print Assumptions qval_eq_ticks.
Print Assumptions dur_total.
Print Assumptions dur_lt_trans.
Print Assumptions dur_le_trans.
Print Assumptions dur_le_antisym.
Print Assumptions rhe_int.
Print Assumptions rhe_near.
Print Assumptions rhe_nearest.
Print Assumptions to_ticks_qval.
Print Assumptions to_ticks_idem.
Print Assumptions arith_add.
Print Assumptions arith_sub.
Print Assumptions arith_kind.
Print Assumptions arith_result_near.
Print Assumptions arith_div_zero.
Print Assumptions arith_err_iff.
Print Assumptions st_inv_step.
Print Assumptions st_inv_init.
Print Assumptions history_latest.
Print Assumptions read_does_not_change_value.
Print Assumptions set_then_read.
Print Assumptions set_read_set.
Print Assumptions step_arith_value.
Print Assumptions step_err_iff.
Print Assumptions cache_transparent.
Print Assumptions parse_duration_same.
Print Assumptions parse_duration_accepts.
Print Assumptions parse_duration_rejects.
Print Assumptions parse_duration_total.
Print Assumptions parse_tempo_accepts.
Print Assumptions parse_tempo_rejects.
Print Assumptions parse_tempo_total.
Print Assumptions seconds_times_bpm.
Print Assumptions western_bpm_spec.
Print Assumptions ex_history.
