(* Stage A: split_at with a single cut. *)
From Coq Require Import ZArith List Bool Lia ZifyBool Arith.
From MV Require Import Base.Res Model.EventTree Model.TreeOps Proofs.TreeLemmas Proofs.CutOut Proofs.SplitBase.
Import ListNotations.
Open Scope Z_scope.

(* What the parts of a single cut at t > 0 denote: part 0 is the window [0, t), part 1 the window [t, oo);
   a missing part stands for an empty window. *)
Definition single_spec (e : ev) (t : Z) (ps : list ev) : Prop :=
  (length ps <= 2)%nat /\ wfs ps /\ (hmax ps <= height e)%nat /\ Forall (same_shape e) ps /\
  (forall x, at_opt (nth_error ps 0) x = if x <? t then at_ e x else None) /\
  (forall x, at_opt (nth_error ps 1) x = if 0 <=? x then at_ e (t + x) else None) /\
  dur_opt (nth_error ps 0) = Z.min t (dur e) /\
  dur_opt (nth_error ps 1) = Z.max 0 (dur e - t) /\
  (t < dur e -> length ps = 2%nat) /\
  (dur e < t -> (length ps <= 1)%nat).

(* the recursive call behaves on every event of height <= n *)
Definition rec_ok (n : nat) (rec : ev -> list Z -> bool -> res (list ev)) : Prop :=
  forall e t ign, (height e <= n)%nat -> wf e -> 0 < t -> (ign = true \/ t <= dur e) ->
    exists ps, rec e [t] ign = Ok ps /\ single_spec e t ps.

Lemma single_spec_transfer e e' t ps : single_spec e' t ps ->
  (forall x, at_ e' x = at_ e x) -> dur e' = dur e -> (height e' <= height e)%nat ->
  (forall p, same_shape e' p -> same_shape e p) -> single_spec e t ps.
Proof.
  intros (H1 & H2 & H3 & H4 & H5 & H6 & H7 & H8 & H9 & H10) Ha Hd Hh Hs.
  repeat split; try assumption.
  - lia.
  - eapply Forall_impl; [|exact H4]. auto.
  - intros x. rewrite H5, Ha. reflexivity.
  - intros x. rewrite H6, Ha. reflexivity.
  - lia.
  - lia.
  - intros. apply H9. lia.
  - intros. apply H10. lia.
Qed.

(* ------------------------------------------------------------ Leaf *)
Definition leaf_go (d l : Z) (ign : bool) := fix go (ps : list (Z * Z)) : res (list ev) :=
       match ps with
       | [] => Ok []
       | (t0, t1) :: r =>
         match leaf_cut_out d t0 t1 with
         | Ok d' => r' <- go r ; Ok (Leaf d' l :: r')
         | Err EInvalidStartAndEnd | Err EInvalidCutOut => if ign then go r else Err ESplitError
         | Err k => Err k
         end
       end.
Lemma leaf_go_nil d l ign : leaf_go d l ign [] = Ok []. Proof. reflexivity. Qed.
Lemma leaf_go_cons d l ign t0 t1 r : leaf_go d l ign ((t0, t1) :: r) =
         match leaf_cut_out d t0 t1 with
         | Ok d' => r' <- leaf_go d l ign r ; Ok (Leaf d' l :: r')
         | Err EInvalidStartAndEnd | Err EInvalidCutOut => if ign then leaf_go d l ign r else Err ESplitError
         | Err k => Err k
         end.
Proof. reflexivity. Qed.
Lemma leaf_split_unfold d l ts ign : ts <> [] -> leaf_split d l ts ign =
    (let sl := sortZ ts in
    _ <- check_time (hd 0 sl) ;
    let sl1 := if memZ 0 sl then sl else 0 :: sl in
    let lastt := lastZ sl1 in
    sl2 <- (if lastt <? d then Ok (sl1 ++ [d])
            else if (d <? lastt) && negb ign then Err ESplitError else Ok sl1) ;
    leaf_go d l ign (pairs sl2)).
Proof. destruct ts; [congruence|reflexivity]. Qed.

Lemma leaf_cut_out_ok d s e : 0 <= s -> s < e -> s < d ->
  leaf_cut_out d s e = Ok (Z.min e d - s).
Proof.
  intros. unfold leaf_cut_out. rewrite check_time_ok, check_start_end_strict_ok by lia. simpl bind.
  destruct (0 <? s) eqn:?, (e <? d) eqn:?; cbv zeta;
  match goal with |- context [if ?c then _ else _] => destruct c eqn:? end; try lia; f_equal; lia.
Qed.
Lemma leaf_cut_out_beyond d s e : 0 <= s -> s < e -> d <= s ->
  leaf_cut_out d s e = Err EInvalidCutOut.
Proof.
  intros. unfold leaf_cut_out. rewrite check_time_ok, check_start_end_strict_ok by lia. simpl bind.
  destruct (0 <? s) eqn:?, (e <? d) eqn:?; cbv zeta;
  match goal with |- context [if ?c then _ else _] => destruct c eqn:? end; try lia; reflexivity.
Qed.

Lemma leaf_single d l t ign : 0 <= d -> 0 < t -> (ign = true \/ t <= d) ->
  exists ps, leaf_split d l [t] ign = Ok ps /\ single_spec (Leaf d l) t ps.
Proof.
  intros Hd Ht Hign. rewrite leaf_split_unfold by congruence. rewrite sortZ_single. cbv zeta. simpl hd.
  rewrite check_time_ok by lia. cbn [memZ]. destruct (0 =? t) eqn:E0; [lia|]. simpl orb. cbv iota.
  change (lastZ [0; t]) with t. simpl bind.
  destruct (t <? d) eqn:E1.
  - cbn [bind app pairs]. rewrite !leaf_go_cons, leaf_go_nil.
    rewrite !leaf_cut_out_ok by lia. simpl bind.
    eexists; split; [reflexivity|]. unfold single_spec. simpl.
    repeat split; try lia; auto; try (repeat constructor; fail).
    + intros x. repeat match goal with |- context [if ?c then _ else _] => destruct c eqn:? end; try reflexivity; lia.
    + intros x. repeat match goal with |- context [if ?c then _ else _] => destruct c eqn:? end; try reflexivity; lia.
  - assert ((d <? t) && negb ign = false) as -> by (destruct Hign as [->|?]; [apply andb_false_r|lia]).
    cbn [bind app pairs]. rewrite leaf_go_cons, leaf_go_nil.
    destruct (0 <? d) eqn:E2.
    + rewrite leaf_cut_out_ok by lia. simpl bind.
      eexists; split; [reflexivity|]. unfold single_spec. simpl.
      repeat split; try lia; auto; try (repeat constructor; fail).
      * intros x. repeat match goal with |- context [if ?c then _ else _] => destruct c eqn:? end; try reflexivity; lia.
      * intros x. repeat match goal with |- context [if ?c then _ else _] => destruct c eqn:? end; try reflexivity; lia.
    + rewrite leaf_cut_out_beyond by lia. assert (ign = true) as -> by (destruct Hign; [assumption|lia]).
      eexists; split; [reflexivity|]. unfold single_spec. simpl.
      repeat split; try lia; auto; try (repeat constructor; fail).
      * intros x. repeat match goal with |- context [if ?c then _ else _] => destruct c eqn:? end; try reflexivity; lia.
      * intros x. repeat match goal with |- context [if ?c then _ else _] => destruct c eqn:? end; try reflexivity; lia.
Qed.

(* ------------------------------------------------------------ the two-part form *)
Definition inside_spec (e : ev) (t : Z) (p0 p1 : ev) : Prop :=
  dur p0 = t /\ dur p1 = dur e - t /\ wf p0 /\ wf p1 /\
  (forall x, at_ p0 x = if x <? t then at_ e x else None) /\
  (forall x, at_ p1 x = if 0 <=? x then at_ e (t + x) else None) /\
  same_shape e p0 /\ same_shape e p1 /\ (height p0 <= height e)%nat /\ (height p1 <= height e)%nat.

Lemma single_spec_inside e t ps : single_spec e t ps -> 0 < t < dur e ->
  exists p0 p1, ps = [p0; p1] /\ inside_spec e t p0 p1.
Proof.
  intros (H1 & H2 & H3 & H4 & H5 & H6 & H7 & H8 & H9 & H10) Ht.
  specialize (H9 ltac:(lia)). destruct ps as [|p0 [|p1 [|? ?]]]; simpl in H9; try lia.
  exists p0, p1. split; [reflexivity|]. simpl in *. destruct H2 as (W0 & W1 & _).
  inversion H4 as [|? ? S0 H4']; subst. inversion H4' as [|? ? S1 _]; subst.
  unfold inside_spec. repeat split; auto; lia.
Qed.

(* replacing a child by its two parts keeps the denotation of the child list *)
Lemma replace_parts A ch B p0 p1 t' : wfs (A ++ ch :: B) -> inside_spec ch t' p0 p1 -> 0 < t' < dur ch ->
  wfs (A ++ p0 :: p1 :: B) /\ dsum (A ++ p0 :: p1 :: B) = dsum (A ++ ch :: B) /\
  (forall x, at_seq (A ++ p0 :: p1 :: B) x = at_seq (A ++ ch :: B) x) /\
  (hmax (A ++ p0 :: p1 :: B) <= hmax (A ++ ch :: B))%nat /\
  dsum (firstn (S (length A)) (A ++ p0 :: p1 :: B)) = dsum A + t' /\
  (forall k, dsum (firstn k (A ++ ch :: B)) < dsum A + t' ->
             firstn k (A ++ p0 :: p1 :: B) = firstn k (A ++ ch :: B)).
Proof.
  intros Hwf (D0 & D1 & W0 & W1 & A0 & A1 & S0 & S1 & H0 & H1) Ht.
  apply wfs_app in Hwf. destruct Hwf as [WA [Wc WB]].
  assert (W' : wfs (p0 :: p1 :: B)) by (simpl; auto).
  split; [apply wfs_app; auto|].
  split; [rewrite !dsum_app, !dsum_cons; lia|].
  split.
  { intros x. rewrite !at_seq_app by (simpl; auto). destruct (x <? dsum A); [reflexivity|].
    set (y := x - dsum A). rewrite !at_seq_cons, A0, A1, D0, D1.
    repeat match goal with |- context [if ?c then _ else _] => destruct c eqn:? end;
      try reflexivity; try lia; f_equal; lia. }
  split; [rewrite !hmax_app, !hmax_cons; lia|].
  split; [rewrite firstn_S_length_app, dsum_app; simpl; lia|].
  intros k Hk. rewrite !firstn_app.
  destruct (Nat.le_gt_cases k (length A)) as [Hle|Hgt].
  - replace (k - length A)%nat with 0%nat by lia. reflexivity.
  - exfalso. rewrite firstn_app in Hk. rewrite (firstn_all2 A) in Hk by lia.
    destruct (k - length A)%nat as [|j] eqn:Ej; [lia|]. rewrite firstn_cons, dsum_app, dsum_cons in Hk.
    pose proof (dsum_nonneg _ (wfs_firstn j B WB)). lia.
Qed.

(* the last step of Consecution.split_at: slices between the recorded indices *)
Definition seq_finish (m : meta) (c : list ev) (idx : list nat) : list ev :=
  let idx1 := if memN 0%nat idx then idx else 0%nat :: idx in
  let idx2 := if memN (length c) idx1 then idx1 else idx1 ++ [length c] in
  map (fun '(i0, i1) => Seq m (lslice i0 i1 c)) (pairs idx2).
Lemma seq_split_unfold rec m cs ts ign : ts <> [] -> seq_split rec m cs ts ign =
  ('(c, idx) <- seq_split_loop rec ign true (dsum cs) (sortZ ts) cs (starts cs) [] ; Ok (seq_finish m c idx)).
Proof. destruct ts; [congruence|reflexivity]. Qed.

Lemma lslice_0 {A} i (c : list A) : lslice 0 i c = firstn i c.
Proof. unfold lslice. rewrite Nat.sub_0_r. reflexivity. Qed.
Lemma lslice_to_end {A} i (c : list A) : lslice i (length c) c = skipn i c.
Proof. unfold lslice. apply firstn_all2. rewrite skipn_length. lia. Qed.

Lemma seq_finish_one m c i : (0 < i < length c)%nat ->
  seq_finish m c [i] = [Seq m (firstn i c); Seq m (skipn i c)].
Proof.
  intros Hi. unfold seq_finish. cbn [memN]. destruct (Nat.eqb 0 i) eqn:E0; [apply Nat.eqb_eq in E0; lia|].
  cbn [orb]. cbn [memN]. destruct (Nat.eqb (length c) 0) eqn:E1; [apply Nat.eqb_eq in E1; lia|].
  destruct (Nat.eqb (length c) i) eqn:E2; [apply Nat.eqb_eq in E2; lia|]. cbn [orb app pairs map].
  rewrite lslice_0, lslice_to_end. reflexivity.
Qed.
Lemma seq_finish_none m c : seq_finish m c [] = match c with [] => [] | _ => [Seq m c] end.
Proof.
  unfold seq_finish. cbn [memN]. destruct c as [|x c]; [reflexivity|].
  cbn [memN length Nat.eqb orb app pairs map]. rewrite lslice_0. change (S (length c)) with (length (x :: c)).
  rewrite firstn_all. reflexivity.
Qed.

Lemma seq_two m c i t : wfs c -> 0 < t -> nth_error (starts c) i = Some t ->
  single_spec (Seq m c) t (seq_finish m c [i]).
Proof.
  intros Hwf Ht Hn. apply starts_nth_inv in Hn. destruct Hn as [Hi Hti].
  assert (i <> 0%nat) by (intros ->; simpl in Hti; lia).
  rewrite seq_finish_one by lia.
  pose proof (dsum_firstn_skipn i c) as Hsum. pose proof (dsum_nonneg _ (wfs_skipn i c Hwf)) as Hsk.
  unfold single_spec. cbn [length nth_error at_opt dur_opt]. rewrite !dur_seq.
  split; [lia|]. split; [exact (conj (wfs_firstn i c Hwf) (conj (wfs_skipn i c Hwf) I))|].
  split; [rewrite !hmax_cons, !height_seq; cbn [hmax]; pose proof (hmax_firstn i c); pose proof (hmax_skipn i c); lia|].
  split; [repeat constructor|].
  split; [intros x; rewrite !at_seq_eq, at_seq_firstn, <- Hti by assumption; reflexivity|].
  split; [intros x; rewrite !at_seq_eq, at_seq_skipn, <- Hti by assumption; reflexivity|].
  repeat split; lia.
Qed.

Lemma seq_whole m c t : wfs c -> 0 < t -> dsum c <= t ->
  single_spec (Seq m c) t (seq_finish m c []).
Proof.
  intros Hwf Ht Hd. rewrite seq_finish_none. pose proof (dsum_nonneg c Hwf) as Hnn.
  unfold single_spec. destruct c as [|x c].
  - cbn [length nth_error at_opt dur_opt]. rewrite !dur_seq. simpl.
    repeat split; try lia; auto. intros y. destruct (y <? t); reflexivity. intros y. destruct (0 <=? y); reflexivity.
  - cbn [length nth_error at_opt dur_opt]. rewrite !dur_seq.
    split; [lia|]. split; [exact (conj Hwf I)|].
    split; [simpl; lia|].
    split; [repeat constructor|].
    split; [intros y; destruct (y <? t) eqn:E; [reflexivity|]; rewrite at_seq_eq; apply at_seq_outside; [assumption|lia]|].
    split; [intros y; destruct (0 <=? y) eqn:E; [|reflexivity]; rewrite at_seq_eq; symmetry; apply at_seq_outside; [assumption|lia]|].
    repeat split; lia.
Qed.

(* ------------------------------------------------------------ Consecution *)
Section WithRec.
  Variable rec : ev -> list Z -> bool -> res (list ev).
  Variable n : nat.
  Hypothesis Hrec : rec_ok n rec.

  Lemma rec_inside ch t : (height ch <= n)%nat -> wf ch -> 0 < t < dur ch ->
    exists p0 p1, rec ch [t] false = Ok [p0; p1] /\ inside_spec ch t p0 p1.
  Proof.
    intros Hh Hw Ht. destruct (Hrec ch t false Hh Hw ltac:(lia) ltac:(right; lia)) as (ps & E & Hs).
    destruct (single_spec_inside _ _ _ Hs Ht) as (p0 & p1 & -> & Hi). eauto.
  Qed.

  (* A4, structural form: either a boundary already exists at t, or exactly one child is replaced by its two parts *)
  Lemma split_child_core_struct cs t : (hmax cs <= n)%nat -> wfs cs -> 0 <= t ->
    (dsum cs <= t -> split_child_core rec cs t (starts cs) (dsum cs) = Err ESplitUnavailableChild) /\
    (t < dsum cs -> exists cs' i, split_child_core rec cs t (starts cs) (dsum cs) = Ok (cs', i) /\
        ((cs' = cs /\ nth_error (starts cs) i = Some t) \/
         (exists A ch B p0 p1, cs = A ++ ch :: B /\ cs' = A ++ p0 :: p1 :: B /\ i = S (length A) /\
             dsum A < t < dsum A + dur ch /\ inside_spec ch (t - dsum A) p0 p1))).
  Proof.
    intros Hh Hwf Ht. unfold split_child_core. rewrite check_time_ok by lia. cbn [bind]. unfold index_at_from.
    split; intros Hd.
    - destruct ((t <? dsum cs) && (0 <=? t)) eqn:E; [lia|reflexivity].
    - destruct ((t <? dsum cs) && (0 <=? t)) eqn:E; [|lia].
      destruct (bisect_starts cs 0 t Hwf ltac:(lia)) as (i & ch & Hb & Hn & Hr).
      fold (starts cs) in Hb. rewrite Hb. cbn [Nat.pred].
      assert (Hi : (i < length cs)%nat) by (apply nth_error_Some; congruence).
      rewrite (nth_error_nth (starts cs) i 0 (starts_nth cs i Hi)).
      destruct (t =? dsum (firstn i cs)) eqn:Et.
      + exists cs, i. split; [reflexivity|]. left. split; auto. rewrite starts_nth by auto. f_equal. lia.
      + rewrite Hn.
        destruct (nth_error_split cs i Hn) as (A & B & HAB & HlenA). subst cs i.
        rewrite firstn_length_app in *.
        assert (Hhc : (height ch <= n)%nat).
        { assert (height ch <= hmax (A ++ ch :: B))%nat by (apply hmax_In, in_elt). lia. }
        assert (Hwc : wf ch) by (eapply wfs_In; [exact Hwf|apply in_elt]).
        destruct (rec_inside ch (t - dsum A) Hhc Hwc ltac:(lia)) as (p0 & p1 & Erec & Hins).
        rewrite Erec. cbn [bind]. rewrite skipn_S_length_app.
        eexists _, _. split; [reflexivity|]. right. exists A, ch, B, p0, p1.
        split; [reflexivity|]. split; [reflexivity|]. split; [reflexivity|]. split; [lia|exact Hins].
  Qed.

  Definition core_ok (cs : list ev) (t : Z) (cs' : list ev) (i : nat) : Prop :=
    wfs cs' /\ dsum cs' = dsum cs /\ (forall x, at_seq cs' x = at_seq cs x) /\ (hmax cs' <= hmax cs)%nat /\
    nth_error (starts cs') i = Some t /\ dsum (firstn i cs') = t /\ (i < length cs')%nat /\
    (forall k, dsum (firstn k cs) < t -> firstn k cs' = firstn k cs) /\
    (forall x, at_seq (firstn i cs') x = if x <? t then at_seq cs x else None) /\
    (forall x, at_seq (skipn i cs') x = if 0 <=? x then at_seq cs (t + x) else None) /\
    (length cs <= length cs')%nat.

  (* A4 *)
  Lemma split_child_core_spec cs t : (hmax cs <= n)%nat -> wfs cs -> 0 <= t ->
    (dsum cs <= t -> split_child_core rec cs t (starts cs) (dsum cs) = Err ESplitUnavailableChild) /\
    (t < dsum cs -> exists cs' i, split_child_core rec cs t (starts cs) (dsum cs) = Ok (cs', i) /\ core_ok cs t cs' i).
  Proof.
    intros Hh Hwf Ht. destruct (split_child_core_struct cs t Hh Hwf Ht) as [H1 H2]. split; [exact H1|].
    intros Hd. destruct (H2 Hd) as (cs' & i & E & Hst). exists cs', i. split; [exact E|].
    assert (G : wfs cs' /\ dsum cs' = dsum cs /\ (forall x, at_seq cs' x = at_seq cs x) /\ (hmax cs' <= hmax cs)%nat /\
                nth_error (starts cs') i = Some t /\ (forall k, dsum (firstn k cs) < t -> firstn k cs' = firstn k cs) /\
                (length cs <= length cs')%nat).
    { destruct Hst as [[-> Hn]|(A & ch & B & p0 & p1 & -> & -> & -> & Hr & Hins)].
      - repeat split; auto.
      - destruct (replace_parts A ch B p0 p1 (t - dsum A) Hwf Hins ltac:(lia)) as (R1 & R2 & R3 & R4 & R5 & R6).
        repeat split; auto.
        + rewrite starts_nth by (rewrite app_length; simpl; lia). f_equal. lia.
        + intros k Hk. apply R6. lia.
        + rewrite !app_length. simpl. lia. }
    destruct G as (G1 & G2 & G3 & G4 & G5 & G6 & G7).
    pose proof (starts_nth_inv _ _ _ G5) as [Hi Hti].
    unfold core_ok. repeat split; auto.
    - intros x. rewrite at_seq_firstn, <- Hti, G3 by assumption. reflexivity.
    - intros x. rewrite at_seq_skipn, <- Hti, G3 by assumption. reflexivity.
  Qed.

  Lemma seq_loop_nil ign first durf c abl idx : seq_split_loop rec ign first durf [] c abl idx = Ok (c, idx).
  Proof. reflexivity. Qed.
  Lemma seq_loop_cons ign first durf t r c abl idx : seq_split_loop rec ign first durf (t :: r) c abl idx =
      (_ <- (if first then check_time t else Ok tt) ;
      match index_of t abl with
      | Some i => seq_split_loop rec ign false durf r c abl (idx ++ [i])
      | None =>
        if t =? durf then seq_split_loop rec ign false durf r c abl idx
        else match split_child_core rec c t abl durf with
             | Err ESplitUnavailableChild => if ign then Ok (c, idx) else Err ESplitError
             | Err k => Err k
             | Ok (c', i) => seq_split_loop rec ign false durf r c' (insert_sorted t abl) (idx ++ [i])
             end
      end).
  Proof. reflexivity. Qed.

  Lemma seq_single m cs t ign : (hmax cs <= n)%nat -> wfs cs -> 0 < t -> (ign = true \/ t <= dsum cs) ->
    exists ps, seq_split rec m cs [t] ign = Ok ps /\ single_spec (Seq m cs) t ps.
  Proof.
    intros Hh Hwf Ht Hign. rewrite seq_split_unfold by congruence. rewrite sortZ_single, seq_loop_cons.
    rewrite check_time_ok by lia. cbn [bind].
    destruct (index_of t (starts cs)) as [i|] eqn:Eidx.
    - rewrite seq_loop_nil. cbn [bind app]. eexists; split; [reflexivity|].
      apply seq_two; auto. apply index_of_some; assumption.
    - destruct (t =? dsum cs) eqn:Etd.
      + rewrite seq_loop_nil. cbn [bind]. eexists; split; [reflexivity|]. apply seq_whole; auto; lia.
      + destruct (split_child_core_spec cs t Hh Hwf ltac:(lia)) as [H1 H2].
        destruct (t <? dsum cs) eqn:Elt.
        * destruct (H2 ltac:(lia)) as (cs' & i & E & Hok). rewrite E, seq_loop_nil. cbn [bind app].
          eexists; split; [reflexivity|].
          destruct Hok as (G1 & G2 & G3 & G4 & G5 & _).
          apply (single_spec_transfer (Seq m cs) (Seq m cs')).
          -- apply seq_two; auto.
          -- intros x. rewrite !at_seq_eq. apply G3.
          -- rewrite !dur_seq. exact G2.
          -- rewrite !height_seq. lia.
          -- intros p. exact (fun H => H).
        * rewrite (H1 ltac:(lia)). assert (ign = true) as -> by (destruct Hign; [assumption|lia]).
          cbn [bind]. eexists; split; [reflexivity|]. apply seq_whole; auto; lia.
  Qed.
End WithRec.

(* ------------------------------------------------------------ Concurrence: rows *)
Definition nonempty {A} (r : list A) : bool := match r with [] => false | _ => true end.
Definition elem (o : option ev) : list ev := match o with Some p => if truthy p then [p] else [] | None => [] end.

Lemma falsy_sem p : truthy p = false -> dur p = 0 /\ forall x, at_ p x = None.
Proof. destruct p as [d l|m [|c cs]|m [|c cs]]; simpl; try discriminate; auto. Qed.

Lemma elem_at o x : at_sim x (elem o) = match at_opt o x with Some s => [s] | None => [] end.
Proof.
  destruct o as [p|]; [|reflexivity]. unfold elem. destruct (truthy p) eqn:E.
  - rewrite at_sim_cons, at_sim_nil. reflexivity.
  - destruct (falsy_sem p E) as [_ H]. simpl. rewrite H. reflexivity.
Qed.
Lemma elem_dmax o : (forall p, o = Some p -> wf p) -> dmax (elem o) = dur_opt o.
Proof.
  destruct o as [p|]; [|reflexivity]. intros H. specialize (H p eq_refl). pose proof (dur_nonneg p H).
  unfold elem. destruct (truthy p) eqn:E.
  - rewrite dmax_cons. simpl. lia.
  - destruct (falsy_sem p E) as [Hz _]. simpl. lia.
Qed.
Lemma elem_wfs o : (forall p, o = Some p -> wf p) -> wfs (elem o).
Proof. destruct o as [p|]; [|exact (fun _ => I)]. intros H. unfold elem. destruct (truthy p); [exact (conj (H p eq_refl) I)|exact I]. Qed.
Lemma elem_hmax o h : (forall p, o = Some p -> (height p <= h)%nat) -> (hmax (elem o) <= h)%nat.
Proof. destruct o as [p|]; [|simpl; lia]. intros H. specialize (H p eq_refl). unfold elem. destruct (truthy p); simpl; lia. Qed.

Lemma row_cons ps pss j : row (ps :: pss) j = elem (nth_error ps j) ++ row pss j.
Proof.
  unfold row. cbn [flat_map]. rewrite filter_app. f_equal.
  destruct (nth_error ps j) as [p|]; [|reflexivity]. reflexivity.
Qed.
Lemma row_nil j : row [] j = []. Proof. reflexivity. Qed.
Lemma max_len_cons ps pss : max_len (ps :: pss) = Nat.max (length ps) (max_len pss). Proof. reflexivity. Qed.

Lemma row_beyond pss j : (max_len pss <= j)%nat -> row pss j = [].
Proof.
  induction pss as [|ps pss IH]; intros H; [reflexivity|]. rewrite max_len_cons in H. rewrite row_cons, IH by lia.
  assert (nth_error ps j = None) as -> by (apply nth_error_None; lia). reflexivity.
Qed.

Lemma rows_eq pss N : (max_len pss <= N)%nat -> rows pss = filter nonempty (map (row pss) (seq 0 N)).
Proof.
  intros H. replace N with (max_len pss + (N - max_len pss))%nat by lia.
  rewrite seq_app, map_app, filter_app. unfold rows at 1. fold (@nonempty ev).
  match goal with |- ?a = ?a ++ ?b => assert (b = []) as -> end; [|rewrite app_nil_r; reflexivity].
  generalize (N - max_len pss)%nat as k. simpl plus.
  assert (G : forall k s, (max_len pss <= s)%nat -> filter nonempty (map (row pss) (seq s k)) = []).
  { induction k as [|k IH]; intros s Hs; [reflexivity|]. simpl. rewrite row_beyond by lia. simpl. apply IH. lia. }
  intros k. apply G. lia.
Qed.

Lemma mapM_spec {A B} (f : A -> res B) (P : A -> B -> Prop) l :
  (forall a, In a l -> exists b, f a = Ok b /\ P a b) -> exists bs, mapM f l = Ok bs /\ Forall2 P l bs.
Proof.
  induction l as [|a l IH]; intros H; [exists []; split; [reflexivity|constructor]|].
  destruct (H a (or_introl eq_refl)) as (b & Eb & Pb).
  destruct (IH (fun a' Ha' => H a' (or_intror Ha'))) as (bs & Ebs & Pbs).
  exists (b :: bs). simpl. rewrite Eb. simpl. rewrite Ebs. simpl. split; [reflexivity|constructor; assumption].
Qed.

(* the two rows of a single cut *)
Lemma sim_rows_sem cs pss t : 0 < t -> Forall2 (fun c ps => single_spec c t ps) cs pss ->
   (forall x, at_sim x (row pss 0) = if x <? t then at_sim x cs else []) /\
   (forall x, at_sim x (row pss 1) = if 0 <=? x then at_sim (t + x) cs else []) /\
   dmax (row pss 0) = Z.min t (dmax cs) /\ dmax (row pss 1) = Z.max 0 (dmax cs - t) /\
   wfs (row pss 0) /\ wfs (row pss 1) /\ (hmax (row pss 0) <= hmax cs)%nat /\ (hmax (row pss 1) <= hmax cs)%nat /\
   (max_len pss <= 2)%nat /\ (dmax cs < t -> row pss 1 = []).
Proof.
  intros Ht H. induction H as [|c ps cs pss Hs HF IH].
  - rewrite !row_nil. simpl. repeat split; try lia; auto.
    + intros x. destruct (x <? t); reflexivity.
    + intros x. destruct (0 <=? x); reflexivity.
  - destruct IH as (I1 & I2 & I3 & I4 & I5 & I6 & I7 & I8 & I9 & I10).
    destruct Hs as (H1 & H2 & H3 & H4 & H5 & H6 & H7 & H8 & H9 & H10).
    assert (Hw : forall j p, nth_error ps j = Some p -> wf p) by (intros j p E; exact (wfs_nth ps j p H2 E)).
    assert (Hh : forall j p, nth_error ps j = Some p -> (height p <= Nat.max (height c) (hmax cs))%nat).
    { intros j p E. apply hmax_nth in E. lia. }
    pose proof (dmax_nonneg cs) as Hnn.
    rewrite !row_cons, max_len_cons, !dmax_app, !hmax_app, !dmax_cons, !hmax_cons.
    rewrite !elem_dmax by (apply Hw).
    split; [|split; [|split; [|split; [|split; [|split; [|split; [|split; [|split]]]]]]]].
    + intros x. rewrite at_sim_app, elem_at, H5, I1, at_sim_cons. destruct (x <? t); [|reflexivity].
      destruct (at_ c x); reflexivity.
    + intros x. rewrite at_sim_app, elem_at, H6, I2, at_sim_cons. destruct (0 <=? x); [|reflexivity].
      destruct (at_ c (t + x)); reflexivity.
    + lia.
    + lia.
    + apply wfs_app. split; [apply elem_wfs, Hw|assumption].
    + apply wfs_app. split; [apply elem_wfs, Hw|assumption].
    + pose proof (elem_hmax (nth_error ps 0) _ (Hh 0%nat)). lia.
    + pose proof (elem_hmax (nth_error ps 1) _ (Hh 1%nat)). lia.
    + lia.
    + intros Hlt. rewrite I10 by lia. specialize (H10 ltac:(lia)).
      assert (nth_error ps 1 = None) as -> by (apply nth_error_None; lia). reflexivity.
Qed.

(* two candidate parts, each possibly dropped because it is empty *)
Lemma assemble2 e t P0 P1 (b0 b1 : bool) : wf e -> 0 < t ->
  wf P0 -> wf P1 -> (height P0 <= height e)%nat -> (height P1 <= height e)%nat ->
  same_shape e P0 -> same_shape e P1 ->
  (forall x, at_ P0 x = if x <? t then at_ e x else None) ->
  (forall x, at_ P1 x = if 0 <=? x then at_ e (t + x) else None) ->
  dur P0 = Z.min t (dur e) -> dur P1 = Z.max 0 (dur e - t) ->
  (b0 = false -> dur P0 = 0 /\ forall x, at_ P0 x = None) ->
  (b1 = false -> dur P1 = 0 /\ forall x, at_ P1 x = None) ->
  (dur e < t -> b1 = false) ->
  single_spec e t ((if b0 then [P0] else []) ++ (if b1 then [P1] else [])).
Proof.
  intros We Ht W0 W1 Hh0 Hh1 S0 S1 A0 A1 D0 D1 F0 F1 B1. pose proof (dur_nonneg e We) as Hnn.
  unfold single_spec. destruct b0, b1; cbn [app length nth_error at_opt dur_opt].
  - split; [lia|]. split; [exact (conj W0 (conj W1 I))|]. split; [simpl; lia|]. split; [repeat constructor; assumption|].
    repeat split; auto. intros Hlt. specialize (B1 Hlt). discriminate.
  - destruct (F1 eq_refl) as [Z1 N1].
    split; [lia|]. split; [exact (conj W0 I)|]. split; [simpl; lia|]. split; [repeat constructor; assumption|].
    split; [assumption|]. split; [intros x; rewrite <- A1; symmetry; apply N1|].
    split; [assumption|]. split; [lia|]. split; intros; lia.
  - destruct (F0 eq_refl) as [Z0 N0].
    assert (Hd : dur e = 0) by lia.
    assert (N1 : forall x, at_ P1 x = None).
    { intros x. rewrite A1. destruct (0 <=? x) eqn:E; [|reflexivity]. apply at_outside; [assumption|lia]. }
    split; [lia|]. split; [exact (conj W1 I)|]. split; [simpl; lia|]. split; [repeat constructor; assumption|].
    split; [intros x; rewrite N1, <- A0; symmetry; apply N0|].
    split; [intros x; rewrite <- A1; symmetry; apply N1|].
    split; [lia|]. split; [lia|]. split; intros; lia.
  - destruct (F0 eq_refl) as [Z0 N0]. destruct (F1 eq_refl) as [Z1 N1].
    split; [lia|]. split; [exact I|]. split; [simpl; lia|]. split; [constructor|].
    split; [intros x; rewrite <- A0; symmetry; apply N0|].
    split; [intros x; rewrite <- A1; symmetry; apply N1|].
    split; [lia|]. split; [lia|]. split; intros; lia.
Qed.

Lemma sim_parts_two m (R0 R1 : list ev) : map (fun r => Sim m r) (filter nonempty [R0; R1]) =
  (if nonempty R0 then [Sim m R0] else []) ++ (if nonempty R1 then [Sim m R1] else []).
Proof. destruct R0, R1; reflexivity. Qed.

Lemma sim_empty_sem m (R : list ev) : nonempty R = false -> dur (Sim m R) = 0 /\ forall x, at_ (Sim m R) x = None.
Proof. destruct R; [|discriminate]. intros _. split; reflexivity. Qed.

Section WithRec2.
  Variable rec : ev -> list Z -> bool -> res (list ev).
  Variable n : nat.
  Hypothesis Hrec : rec_ok n rec.

  Lemma sim_single m cs t ign : (hmax cs <= n)%nat -> wfs cs -> 0 < t -> (ign = true \/ t <= dmax cs) ->
    exists ps, sim_split rec m cs [t] ign = Ok ps /\ single_spec (Sim m cs) t ps.
  Proof.
    intros Hh Hwf Ht Hign. unfold sim_split. rewrite sortZ_single. cbv zeta. cbn [hd].
    rewrite check_time_ok by lia. cbn [bind]. change (lastZ [t]) with t.
    assert ((dmax cs <? t) && negb ign = false) as -> by (destruct Hign as [->|?]; [apply andb_false_r|lia]).
    unfold slices_of.
    destruct (mapM_spec (fun c => rec c [t] true) (fun c ps => single_spec c t ps) cs) as (pss & E & HF).
    { intros c Hc. apply Hrec; auto.
      - pose proof (hmax_In cs c Hc). lia.
      - eapply wfs_In; eauto. }
    rewrite E. cbn [bind]. eexists; split; [reflexivity|].
    destruct (sim_rows_sem cs pss t Ht HF) as (R1 & R2 & R3 & R4 & R5 & R6 & R7 & R8 & R9 & R10).
    rewrite (rows_eq pss 2) by assumption. cbn [seq map]. rewrite sim_parts_two.
    apply assemble2; auto.
    - rewrite !height_sim. lia.
    - rewrite !height_sim. lia.
    - reflexivity.
    - reflexivity.
    - intros x. rewrite !at_sim_eq, R1. destruct (x <? t); reflexivity.
    - intros x. rewrite !at_sim_eq, R2. destruct (0 <=? x); reflexivity.
    - apply sim_empty_sem.
    - apply sim_empty_sem.
    - rewrite dur_sim. intros Hlt. rewrite R10 by assumption. reflexivity.
  Qed.
End WithRec2.

(* ------------------------------------------------------------ the general single-cut theorem *)
Theorem split_single_gen : forall n, rec_ok n (split_at_f n).
Proof.
  induction n as [|n IH]; intros e t ign Hh Hw Ht Hign.
  - pose proof (height_pos e). lia.
  - destruct e as [d l|m cs|m cs]; cbn [split_at_f].
    + apply leaf_single; auto.
    + rewrite height_seq in Hh. apply (seq_single _ n IH); auto. lia.
    + rewrite height_sim in Hh. apply (sim_single _ n IH); auto. lia.
Qed.

(* a single cut at t > 0 tiles the event, whatever the position of t *)
Lemma single_spec_tiles e t ps : wf e -> 0 < t -> single_spec e t ps ->
  dsum ps = dur e /\ forall x, at_seq ps x = at_ e x.
Proof.
  intros We Ht (H1 & H2 & H3 & H4 & H5 & H6 & H7 & H8 & H9 & H10). pose proof (dur_nonneg e We) as Hnn.
  destruct ps as [|p0 [|p1 [|? ?]]]; cbn [length nth_error at_opt dur_opt] in *; try lia.
  - split; [simpl; lia|]. intros x. rewrite at_seq_nil. symmetry. apply at_outside; [assumption|lia].
  - destruct H2 as [W0 _]. split; [simpl; lia|]. intros x. rewrite at_seq_single, H5 by assumption.
    destruct (x <? t) eqn:E; [reflexivity|]. symmetry. apply at_outside; [assumption|lia].
  - destruct H2 as (W0 & W1 & _). split; [simpl; lia|]. intros x.
    rewrite at_seq_cons, at_seq_single, H5, H6, H7 by assumption.
    destruct ((0 <=? x) && (x <? Z.min t (dur e))) eqn:E1.
    + destruct (x <? t) eqn:E2; [reflexivity|lia].
    + destruct (0 <=? x - Z.min t (dur e)) eqn:E2.
      * destruct (t <=? dur e) eqn:E3.
        -- f_equal. lia.
        -- rewrite !at_outside; auto; lia.
      * symmetry. apply at_outside; [assumption|lia].
Qed.

(* ============================================================ Stage A: statements *)

(* A1 *)
Theorem split_single_inside n e t ign : (height e <= n)%nat -> wf e -> 0 < t < dur e ->
  exists p0 p1, split_at_f n e [t] ign = Ok [p0; p1] /\
    dur p0 = t /\ dur p1 = dur e - t /\ wf p0 /\ wf p1 /\
    (forall x, at_ p0 x = if x <? t then at_ e x else None) /\
    (forall x, at_ p1 x = if 0 <=? x then at_ e (t + x) else None) /\
    same_shape e p0 /\ same_shape e p1 /\ (height p0 <= height e)%nat /\ (height p1 <= height e)%nat.
Proof.
  intros Hh Hw Ht. destruct (split_single_gen n e t ign Hh Hw ltac:(lia) ltac:(right; lia)) as (ps & E & Hs).
  destruct (single_spec_inside _ _ _ Hs Ht) as (p0 & p1 & -> & Hi). exists p0, p1. split; [exact E|exact Hi].
Qed.

(* A2: a cut at or beyond the end, as requested from the children of a Concurrence (ign = true);
   also holds with ign = false when t = dur e.  The parts still denote e when played in sequence.
   NOTE: `length ps <= 1` only holds for dur e < t: for t = dur e a Consecution that ends with
   zero-length children is cut into two parts, e.g. Seq [Leaf 10; Leaf 0] at 10. *)
Theorem split_single_beyond n e t ign : (height e <= n)%nat -> wf e -> 0 < t -> dur e <= t ->
  (ign = true \/ t = dur e) ->
  exists ps, split_at_f n e [t] ign = Ok ps /\ dsum ps = dur e /\ (forall x, at_seq ps x = at_ e x) /\
    wfs ps /\ (hmax ps <= height e)%nat /\ Forall (same_shape e) ps /\ (length ps <= 2)%nat /\
    (dur e < t -> (length ps <= 1)%nat) /\
    (forall p, nth_error ps 0 = Some p -> dur p = dur e /\ forall x, at_ p x = at_ e x) /\
    (forall p, nth_error ps 1 = Some p -> dur p = 0 /\ forall x, at_ p x = None).
Proof.
  intros Hh Hw Ht Hd Hign.
  destruct (split_single_gen n e t ign Hh Hw Ht ltac:(destruct Hign; [left; assumption|right; lia])) as (ps & E & Hs).
  exists ps. split; [exact E|]. destruct (single_spec_tiles e t ps Hw Ht Hs) as [T1 T2].
  destruct Hs as (H1 & H2 & H3 & H4 & H5 & H6 & H7 & H8 & H9 & H10).
  split; [exact T1|]. split; [exact T2|]. split; [exact H2|]. split; [exact H3|]. split; [exact H4|].
  split; [exact H1|]. split; [exact H10|]. split.
  - intros p Hp. rewrite Hp in H5, H7. simpl in H5, H7. split; [lia|].
    intros x. rewrite H5.
    destruct (x <? t) eqn:Ex; [reflexivity|]. symmetry. apply at_outside; [assumption|lia].
  - intros p Hp. rewrite Hp in H6, H8. simpl in H6, H8. split; [lia|].
    intros x. rewrite H6.
    destruct (0 <=? x) eqn:Ex; [|reflexivity]. apply at_outside; [assumption|lia].
Qed.

(* the uniform statement behind A1/A2 (this is what makes the Concurrence case go through) *)
Theorem split_single_general n e t ign : (height e <= n)%nat -> wf e -> 0 < t -> (ign = true \/ t <= dur e) ->
  exists ps, split_at_f n e [t] ign = Ok ps /\ single_spec e t ps /\
             dsum ps = dur e /\ forall x, at_seq ps x = at_ e x.
Proof.
  intros Hh Hw Ht Hign. destruct (split_single_gen n e t ign Hh Hw Ht Hign) as (ps & E & Hs).
  exists ps. split; [exact E|]. split; [exact Hs|]. apply (single_spec_tiles e t ps Hw Ht Hs).
Qed.

(* A4 *)
Theorem split_child_core_ok n cs t : (hmax cs <= n)%nat -> wfs cs -> 0 <= t ->
  (dsum cs <= t -> split_child_core (split_at_f n) cs t (starts cs) (dsum cs) = Err ESplitUnavailableChild) /\
  (t < dsum cs -> exists cs' i, split_child_core (split_at_f n) cs t (starts cs) (dsum cs) = Ok (cs', i) /\
      wfs cs' /\ dsum cs' = dsum cs /\ (forall x, at_seq cs' x = at_seq cs x) /\ (hmax cs' <= hmax cs)%nat /\
      nth_error (starts cs') i = Some t /\ dsum (firstn i cs') = t /\ (i < length cs')%nat /\
      (forall k, dsum (firstn k cs) < t -> firstn k cs' = firstn k cs) /\
      (forall x, at_seq (firstn i cs') x = if x <? t then at_seq cs x else None) /\
      (forall x, at_seq (skipn i cs') x = if 0 <=? x then at_seq cs (t + x) else None) /\
      (length cs <= length cs')%nat).
Proof. intros. apply (split_child_core_spec (split_at_f n) n (split_single_gen n)); assumption. Qed.

Theorem split_child_core_iff n cs t : (hmax cs <= n)%nat -> wfs cs -> 0 <= t ->
  (split_child_core (split_at_f n) cs t (starts cs) (dsum cs) = Err ESplitUnavailableChild <-> dsum cs <= t).
Proof.
  intros Hh Hw Ht. destruct (split_child_core_ok n cs t Hh Hw Ht) as [H1 H2]. split; [|exact H1].
  intros E. destruct (Z_lt_le_dec t (dsum cs)) as [Hlt|Hle]; [|exact Hle].
  destruct (H2 Hlt) as (cs' & i & E' & _). congruence.
Qed.

(* ------------------------------------------------------------ fuel independence for a single cut *)
Lemma split_child_core_ext rec1 rec2 c t abl durf :
  (forall ch t', In ch c -> rec1 ch [t'] false = rec2 ch [t'] false) ->
  split_child_core rec1 c t abl durf = split_child_core rec2 c t abl durf.
Proof.
  intros H. unfold split_child_core. destruct (check_time t); [|reflexivity]. cbn [bind].
  destruct (index_at_from t abl durf) as [i|]; [|reflexivity].
  destruct (t =? nth i abl 0); [reflexivity|]. destruct (nth_error c i) as [ch|] eqn:E; [|reflexivity].
  rewrite (H ch _ (nth_error_In _ _ E)). reflexivity.
Qed.
Lemma mapM_ext {A B} (f g : A -> res B) l : (forall a, In a l -> f a = g a) -> mapM f l = mapM g l.
Proof.
  induction l as [|a l IH]; intros H; [reflexivity|]. simpl. rewrite (H a (or_introl eq_refl)).
  rewrite IH; [reflexivity|]. intros a' Ha'. apply H. right. exact Ha'.
Qed.

Theorem split_single_fuel : forall n1 n2 e t ign, (height e <= n1)%nat -> (height e <= n2)%nat ->
  split_at_f n1 e [t] ign = split_at_f n2 e [t] ign.
Proof.
  induction n1 as [|n1 IH]; intros n2 e t ign H1 H2; [pose proof (height_pos e); lia|].
  destruct n2 as [|n2]; [pose proof (height_pos e); lia|].
  destruct e as [d l|m cs|m cs]; cbn [split_at_f]; [reflexivity| |].
  - rewrite height_seq in *.
    assert (Hext : forall ch t', In ch cs -> split_at_f n1 ch [t'] false = split_at_f n2 ch [t'] false).
    { intros ch t' Hin. pose proof (hmax_In cs ch Hin). apply IH; lia. }
    rewrite !seq_split_unfold by congruence. rewrite sortZ_single, !seq_loop_cons.
    destruct (check_time t); [|reflexivity]. cbn [bind].
    destruct (index_of t (starts cs)); [reflexivity|]. destruct (t =? dsum cs); [reflexivity|].
    rewrite (split_child_core_ext _ _ cs t _ _ Hext). reflexivity.
  - rewrite height_sim in *. unfold sim_split. rewrite sortZ_single. cbv zeta.
    destruct (check_time (hd 0 [t])); [|reflexivity]. cbn [bind].
    destruct ((dmax cs <? lastZ [t]) && negb ign); [reflexivity|].
    unfold slices_of. rewrite (mapM_ext _ (fun c => split_at_f n2 c [t] true)); [reflexivity|].
    intros c Hin. pose proof (hmax_In cs c Hin). apply IH; lia.
Qed.

(* A3: the public function *)
Theorem split_at_single e t ign : wf e -> 0 < t < dur e ->
  exists p0 p1, split_at e [t] ign = Ok [p0; p1] /\
    dur p0 = t /\ dur p1 = dur e - t /\ wf p0 /\ wf p1 /\
    (forall x, at_ p0 x = if x <? t then at_ e x else None) /\
    (forall x, at_ p1 x = if 0 <=? x then at_ e (t + x) else None) /\
    same_shape e p0 /\ same_shape e p1 /\ (height p0 <= height e)%nat /\ (height p1 <= height e)%nat.
Proof. intros. apply split_single_inside; auto. Qed.

Theorem split_at_f_single_fuel n e t ign : (height e <= n)%nat -> split_at_f n e [t] ign = split_at e [t] ign.
Proof. intros. unfold split_at. apply split_single_fuel; auto. Qed.

(* ------------------------------------------------------------ examples *)
Definition ex_tree : ev :=
  Seq meta0 [Seq meta0 [Leaf 10 1; Leaf 20 2]; Sim meta0 [Leaf 15 3; Seq meta0 [Leaf 5 4; Leaf 10 5]]; Leaf 10 6].

Example ex_wf : wfb ex_tree = true /\ dur ex_tree = 55. Proof. vm_compute. auto. Qed.
Example ex_split_10 : split_at ex_tree [10] false =
  Ok [Seq meta0 [Seq meta0 [Leaf 10 1]];
      Seq meta0 [Seq meta0 [Leaf 20 2]; Sim meta0 [Leaf 15 3; Seq meta0 [Leaf 5 4; Leaf 10 5]]; Leaf 10 6]].
Proof. vm_compute. reflexivity. Qed.
Example ex_split_35 : split_at ex_tree [35] false =
  Ok [Seq meta0 [Seq meta0 [Leaf 10 1; Leaf 20 2]; Sim meta0 [Leaf 5 3; Seq meta0 [Leaf 5 4]]];
      Seq meta0 [Sim meta0 [Leaf 10 3; Seq meta0 [Leaf 10 5]]; Leaf 10 6]].
Proof. vm_compute. reflexivity. Qed.
(* a voice that ends exactly at the cut with a zero-length child yields a second, zero-length part *)
Example ex_split_trailing_zero : split_at (Sim meta0 [Seq meta0 [Leaf 10 1; Leaf 0 2]; Leaf 5 3]) [10] true =
  Ok [Sim meta0 [Seq meta0 [Leaf 10 1]; Leaf 5 3]; Sim meta0 [Seq meta0 [Leaf 0 2]]].
Proof. vm_compute. reflexivity. Qed.

Print Assumptions split_single_inside.
Print Assumptions split_single_beyond.
Print Assumptions split_single_general.
Print Assumptions split_child_core_ok.
Print Assumptions split_child_core_iff.
Print Assumptions split_at_single.
Print Assumptions split_single_fuel.
