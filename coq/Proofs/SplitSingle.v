(* Stage A: split_at with a single cut. *)
From Coq Require Import ZArith List Bool Lia ZifyBool Arith.
From MV Require Import Base.Res Model.EventTree Model.TreeOps Proofs.TreeLemmas Proofs.CutOut Proofs.SplitBase.
Import ListNotations.
Open Scope Z_scope.

(* What the parts of a single cut at t > 0 denote: part 0 is the window [0, t), part 1 the window [t, oo);
   a missing part stands for an empty window. *)
Definition single_spec (e : ev) (t : Z) (ps : list ev) : Prop :=
  (length ps <= 2)%nat /\ wfs ps /\ (hmax ps <= height e)%nat /\ Forall (same_shape e) ps /\
  (forall x, at_opt (nth_error ps 0) x = if x <? t then at_ e x else None) /\
  (forall x, at_opt (nth_error ps 1) x = if 0 <=? x then at_ e (t + x) else None) /\
  dur_opt (nth_error ps 0) = Z.min t (dur e) /\
  dur_opt (nth_error ps 1) = Z.max 0 (dur e - t) /\
  (t < dur e -> length ps = 2%nat).

(* the recursive call behaves on every event of height <= n *)
Definition rec_ok (n : nat) (rec : ev -> list Z -> bool -> res (list ev)) : Prop :=
  forall e t ign, (height e <= n)%nat -> wf e -> 0 < t -> (ign = true \/ t <= dur e) ->
    exists ps, rec e [t] ign = Ok ps /\ single_spec e t ps.

Lemma single_spec_transfer e e' t ps : single_spec e' t ps ->
  (forall x, at_ e' x = at_ e x) -> dur e' = dur e -> (height e' <= height e)%nat ->
  (forall p, same_shape e' p -> same_shape e p) -> single_spec e t ps.
Proof.
  intros (H1 & H2 & H3 & H4 & H5 & H6 & H7 & H8 & H9) Ha Hd Hh Hs.
  repeat split; try assumption.
  - lia.
  - eapply Forall_impl; [|exact H4]. auto.
  - intros x. rewrite H5, Ha. reflexivity.
  - intros x. rewrite H6, Ha. reflexivity.
  - lia.
  - lia.
  - intros. apply H9. lia.
Qed.

(* ------------------------------------------------------------ Leaf *)
Definition leaf_go (d l : Z) (ign : bool) := fix go (ps : list (Z * Z)) : res (list ev) :=
       match ps with
       | [] => Ok []
       | (t0, t1) :: r =>
         match leaf_cut_out d t0 t1 with
         | Ok d' => r' <- go r ; Ok (Leaf d' l :: r')
         | Err EInvalidStartAndEnd | Err EInvalidCutOut => if ign then go r else Err ESplitError
         | Err k => Err k
         end
       end.
Lemma leaf_go_nil d l ign : leaf_go d l ign [] = Ok []. Proof. reflexivity. Qed.
Lemma leaf_go_cons d l ign t0 t1 r : leaf_go d l ign ((t0, t1) :: r) =
         match leaf_cut_out d t0 t1 with
         | Ok d' => r' <- leaf_go d l ign r ; Ok (Leaf d' l :: r')
         | Err EInvalidStartAndEnd | Err EInvalidCutOut => if ign then leaf_go d l ign r else Err ESplitError
         | Err k => Err k
         end.
Proof. reflexivity. Qed.
Lemma leaf_split_unfold d l ts ign : ts <> [] -> leaf_split d l ts ign =
    (let sl := sortZ ts in
    _ <- check_time (hd 0 sl) ;
    let sl1 := if memZ 0 sl then sl else 0 :: sl in
    let lastt := lastZ sl1 in
    sl2 <- (if lastt <? d then Ok (sl1 ++ [d])
            else if (d <? lastt) && negb ign then Err ESplitError else Ok sl1) ;
    leaf_go d l ign (pairs sl2)).
Proof. destruct ts; [congruence|reflexivity]. Qed.

Lemma leaf_cut_out_ok d s e : 0 <= s -> s < e -> s < d ->
  leaf_cut_out d s e = Ok (Z.min e d - s).
Proof.
  intros. unfold leaf_cut_out. rewrite check_time_ok, check_start_end_strict_ok by lia. simpl bind.
  destruct (0 <? s) eqn:?, (e <? d) eqn:?; cbv zeta;
  match goal with |- context [if ?c then _ else _] => destruct c eqn:? end; try lia; f_equal; lia.
Qed.
Lemma leaf_cut_out_beyond d s e : 0 <= s -> s < e -> d <= s ->
  leaf_cut_out d s e = Err EInvalidCutOut.
Proof.
  intros. unfold leaf_cut_out. rewrite check_time_ok, check_start_end_strict_ok by lia. simpl bind.
  destruct (0 <? s) eqn:?, (e <? d) eqn:?; cbv zeta;
  match goal with |- context [if ?c then _ else _] => destruct c eqn:? end; try lia; reflexivity.
Qed.

Lemma leaf_single d l t ign : 0 <= d -> 0 < t -> (ign = true \/ t <= d) ->
  exists ps, leaf_split d l [t] ign = Ok ps /\ single_spec (Leaf d l) t ps.
Proof.
  intros Hd Ht Hign. rewrite leaf_split_unfold by congruence. rewrite sortZ_single. cbv zeta. simpl hd.
  rewrite check_time_ok by lia. cbn [memZ]. destruct (0 =? t) eqn:E0; [lia|]. simpl orb. cbv iota.
  change (lastZ [0; t]) with t. simpl bind.
  destruct (t <? d) eqn:E1.
  - cbn [bind app pairs]. rewrite !leaf_go_cons, leaf_go_nil.
    rewrite !leaf_cut_out_ok by lia. simpl bind.
    eexists; split; [reflexivity|]. unfold single_spec. simpl.
    repeat split; try lia; auto; try (repeat constructor; fail).
    + intros x. repeat match goal with |- context [if ?c then _ else _] => destruct c eqn:? end; try reflexivity; lia.
    + intros x. repeat match goal with |- context [if ?c then _ else _] => destruct c eqn:? end; try reflexivity; lia.
  - assert ((d <? t) && negb ign = false) as -> by (destruct Hign as [->|?]; [apply andb_false_r|lia]).
    cbn [bind app pairs]. rewrite leaf_go_cons, leaf_go_nil.
    destruct (0 <? d) eqn:E2.
    + rewrite leaf_cut_out_ok by lia. simpl bind.
      eexists; split; [reflexivity|]. unfold single_spec. simpl.
      repeat split; try lia; auto; try (repeat constructor; fail).
      * intros x. repeat match goal with |- context [if ?c then _ else _] => destruct c eqn:? end; try reflexivity; lia.
      * intros x. repeat match goal with |- context [if ?c then _ else _] => destruct c eqn:? end; try reflexivity; lia.
    + rewrite leaf_cut_out_beyond by lia. assert (ign = true) as -> by (destruct Hign; [assumption|lia]).
      eexists; split; [reflexivity|]. unfold single_spec. simpl.
      repeat split; try lia; auto; try (repeat constructor; fail).
      * intros x. repeat match goal with |- context [if ?c then _ else _] => destruct c eqn:? end; try reflexivity; lia.
      * intros x. repeat match goal with |- context [if ?c then _ else _] => destruct c eqn:? end; try reflexivity; lia.
Qed.

(* ------------------------------------------------------------ the two-part form *)
Definition inside_spec (e : ev) (t : Z) (p0 p1 : ev) : Prop :=
  dur p0 = t /\ dur p1 = dur e - t /\ wf p0 /\ wf p1 /\
  (forall x, at_ p0 x = if x <? t then at_ e x else None) /\
  (forall x, at_ p1 x = if 0 <=? x then at_ e (t + x) else None) /\
  same_shape e p0 /\ same_shape e p1 /\ (height p0 <= height e)%nat /\ (height p1 <= height e)%nat.

Lemma single_spec_inside e t ps : single_spec e t ps -> 0 < t < dur e ->
  exists p0 p1, ps = [p0; p1] /\ inside_spec e t p0 p1.
Proof.
  intros (H1 & H2 & H3 & H4 & H5 & H6 & H7 & H8 & H9) Ht.
  specialize (H9 ltac:(lia)). destruct ps as [|p0 [|p1 [|? ?]]]; simpl in H9; try lia.
  exists p0, p1. split; [reflexivity|]. simpl in *. destruct H2 as (W0 & W1 & _).
  inversion H4 as [|? ? S0 H4']; subst. inversion H4' as [|? ? S1 _]; subst.
  unfold inside_spec. repeat split; auto; lia.
Qed.

(* ------------------------------------------------------------ Consecution *)
Section WithRec.
  Variable rec : ev -> list Z -> bool -> res (list ev).
  Variable n : nat.
  Hypothesis Hrec : rec_ok n rec.

  Lemma rec_inside ch t : (height ch <= n)%nat -> wf ch -> 0 < t < dur ch ->
    exists p0 p1, rec ch [t] false = Ok [p0; p1] /\ inside_spec ch t p0 p1.
  Proof.
    intros Hh Hw Ht. destruct (Hrec ch t false Hh Hw ltac:(lia) ltac:(right; lia)) as (ps & E & Hs).
    destruct (single_spec_inside _ _ _ Hs Ht) as (p0 & p1 & -> & Hi). eauto.
  Qed.

  (* A4, structural form: either a boundary already exists at t, or exactly one child is replaced by its two parts *)
  Lemma split_child_core_struct cs t : (hmax cs <= n)%nat -> wfs cs -> 0 <= t ->
    (dsum cs <= t -> split_child_core rec cs t (starts cs) (dsum cs) = Err ESplitUnavailableChild) /\
    (t < dsum cs -> exists cs' i, split_child_core rec cs t (starts cs) (dsum cs) = Ok (cs', i) /\
        ((cs' = cs /\ nth_error (starts cs) i = Some t) \/
         (exists A ch B p0 p1, cs = A ++ ch :: B /\ cs' = A ++ p0 :: p1 :: B /\ i = S (length A) /\
             dsum A < t < dsum A + dur ch /\ inside_spec ch (t - dsum A) p0 p1))).
  Proof.
    intros Hh Hwf Ht. unfold split_child_core. rewrite check_time_ok by lia. cbn [bind]. unfold index_at_from.
    split; intros Hd.
    - destruct ((t <? dsum cs) && (0 <=? t)) eqn:E; [lia|reflexivity].
    - destruct ((t <? dsum cs) && (0 <=? t)) eqn:E; [|lia].
      destruct (bisect_starts cs 0 t Hwf ltac:(lia)) as (i & ch & Hb & Hn & Hr).
      fold (starts cs) in Hb. rewrite Hb. cbn [Nat.pred].
      assert (Hi : (i < length cs)%nat) by (apply nth_error_Some; congruence).
      rewrite (nth_error_nth (starts cs) i 0 (starts_nth cs i Hi)).
      destruct (t =? dsum (firstn i cs)) eqn:Et.
      + exists cs, i. split; [reflexivity|]. left. split; auto. rewrite starts_nth by auto. f_equal. lia.
      + rewrite Hn.
        destruct (nth_error_split cs i Hn) as (A & B & HAB & HlenA). subst cs i.
        rewrite firstn_length_app in *.
        assert (Hhc : (height ch <= n)%nat).
        { assert (height ch <= hmax (A ++ ch :: B))%nat by (apply hmax_In, in_elt). lia. }
        assert (Hwc : wf ch) by (eapply wfs_In; [exact Hwf|apply in_elt]).
        destruct (rec_inside ch (t - dsum A) Hhc Hwc ltac:(lia)) as (p0 & p1 & Erec & Hins).
        rewrite Erec. cbn [bind]. rewrite skipn_S_length_app.
        eexists _, _. split; [reflexivity|]. right. exists A, ch, B, p0, p1.
        repeat split; auto; lia.
  Qed.
End WithRec.
