(* cut_off removes exactly the range [s, en) from the timeline and closes the gap:
   totality, duration, content (at_) at every nesting level, well-formedness. *)
From Coq Require Import ZArith List Bool Lia ZifyBool.
From MV Require Import Base.Res Model.EventTree Model.TreeOps Proofs.TreeLemmas Proofs.CutOut.
Import ListNotations.
Open Scope Z_scope.

(* ---------------------------------------------------------------- unfolding equations *)
Lemma cut_off_leaf_unfold d l s en : cut_off (Leaf d l) s en =
  (_ <- check_time s ; _ <- check_start_end s en ;
   Ok (Leaf (if s <? d then d - (Z.min en d - s) else d) l)).
Proof. reflexivity. Qed.
Lemma cut_off_seq_unfold m cs s en : cut_off (Seq m cs) s en =
  (_ <- check_time s ;
   if 0 <? en - s then (r <- cf_seq s en 0 cs ; Ok (Seq m r)) else Ok (Seq m cs)).
Proof. reflexivity. Qed.
Lemma cut_off_sim_unfold m cs s en : cut_off (Sim m cs) s en =
  (_ <- check_time s ; _ <- check_start_end s en ; r <- cf_sim s en cs ; Ok (Sim m r)).
Proof. reflexivity. Qed.
Lemma cut_off_leaf_ok d l s en : 0 <= s -> s <= en ->
  cut_off (Leaf d l) s en = Ok (Leaf (if s <? d then d - (Z.min en d - s) else d) l).
Proof. intros. rewrite cut_off_leaf_unfold, check_time_ok, check_start_end_ok by lia. reflexivity. Qed.
Lemma cut_off_seq_ok m cs s en : 0 <= s ->
  cut_off (Seq m cs) s en =
  if 0 <? en - s then (r <- cf_seq s en 0 cs ; Ok (Seq m r)) else Ok (Seq m cs).
Proof. intros. rewrite cut_off_seq_unfold, check_time_ok by lia. reflexivity. Qed.
Lemma cut_off_sim_ok m cs s en : 0 <= s -> s <= en ->
  cut_off (Sim m cs) s en = (r <- cf_sim s en cs ; Ok (Sim m r)).
Proof. intros. rewrite cut_off_sim_unfold, check_time_ok, check_start_end_ok by lia. reflexivity. Qed.
Lemma cf_seq_cons s en t0 c r : cf_seq s en t0 (c :: r) =
  if (s <=? t0) && (t0 + dur c <=? en) && (t0 <? en) then cf_seq s en (t0 + dur c) r
  else if (t0 <=? s) && (s <=? t0 + dur c) then
    (c' <- cut_off c (s - t0) (s - t0 + (en - s)) ; r' <- cf_seq s en (t0 + dur c) r ; Ok (c' :: r'))
  else if (t0 <? en) && (en <? t0 + dur c) then
    (c' <- cut_off c 0 ((en - s) - (t0 - s)) ; r' <- cf_seq s en (t0 + dur c) r ; Ok (c' :: r'))
  else (r' <- cf_seq s en (t0 + dur c) r ; Ok (c :: r')).
Proof. reflexivity. Qed.
Lemma cf_sim_cons s en c r : cf_sim s en (c :: r) = (c' <- cut_off c s en ; r' <- cf_sim s en r ; Ok (c' :: r')).
Proof. reflexivity. Qed.

(* ---------------------------------------------------------------- totality *)
Theorem cutoff_total : forall e s en, wf e -> 0 <= s -> s <= en -> exists e', cut_off e s en = Ok e'.
Proof.
  induction e as [d l|m cs IH|m cs IH] using ev_ind'; intros s en Hwf Hs Hse.
  - rewrite cut_off_leaf_ok by lia. eexists; reflexivity.
  - rewrite cut_off_seq_ok by lia. destruct (0 <? en - s) eqn:Ez; [|eexists; reflexivity].
    rewrite wf_seq in Hwf.
    assert (G : forall t0, exists r, cf_seq s en t0 cs = Ok r).
    { induction cs as [|c rest IHrest]; intros t0.
      - exists []. reflexivity.
      - inversion IH as [|? ? Hc Hrest]; subst. destruct Hwf as [Hwc Hwr].
        specialize (IHrest Hrest Hwr).
        destruct (IHrest (t0 + dur c)) as [r' Er].
        rewrite cf_seq_cons, Er.
        destruct ((s <=? t0) && (t0 + dur c <=? en) && (t0 <? en)) eqn:E1; [eexists; reflexivity|].
        destruct ((t0 <=? s) && (s <=? t0 + dur c)) eqn:E2.
        + assert (Ha : 0 <= s - t0) by lia. assert (Hb : s - t0 <= s - t0 + (en - s)) by lia.
          destruct (Hc (s - t0) (s - t0 + (en - s)) Hwc Ha Hb) as [c' Ec]. rewrite Ec. eexists; reflexivity.
        + destruct ((t0 <? en) && (en <? t0 + dur c)) eqn:E3; [|eexists; reflexivity].
          assert (Ha : 0 <= 0) by lia. assert (Hb : 0 <= en - s - (t0 - s)) by lia.
          destruct (Hc 0 (en - s - (t0 - s)) Hwc Ha Hb) as [c' Ec]. rewrite Ec. eexists; reflexivity. }
    destruct (G 0) as [r Er]. rewrite Er. eexists; reflexivity.
  - rewrite cut_off_sim_ok by lia. rewrite wf_sim in Hwf.
    assert (G : exists r, cf_sim s en cs = Ok r).
    { induction cs as [|c rest IHrest].
      - exists []. reflexivity.
      - inversion IH as [|? ? Hc Hrest]; subst. destruct Hwf as [Hwc Hwr].
        destruct (IHrest Hrest Hwr) as [r' Er]. destruct (Hc s en Hwc Hs Hse) as [c' Ec].
        rewrite cf_sim_cons, Ec, Er. eexists; reflexivity. }
    destruct G as [r Er]. rewrite Er. eexists; reflexivity.
Qed.

(* ---------------------------------------------------------------- duration and well-formedness *)
Theorem cutoff_dur : forall e s en e', wf e -> 0 <= s -> s <= en ->
  cut_off e s en = Ok e' ->
  dur e' = dur e - (Z.min en (dur e) - Z.min s (dur e)) /\ wf e'.
Proof.
  induction e as [d l|m cs IH|m cs IH] using ev_ind'; intros s en e' Hwf Hs Hse H.
  - rewrite cut_off_leaf_ok in H by lia. inversion H; subst e'; clear H. simpl in *.
    destruct (s <? d) eqn:E; lia.
  - rewrite cut_off_seq_ok in H by lia. destruct (0 <? en - s) eqn:Ez.
    2:{ inversion H; subst e'. split; [lia|exact Hwf]. }
    destruct (cf_seq s en 0 cs) as [r|k] eqn:E; simpl in H; [|discriminate]. inversion H; subst e'; clear H.
    rewrite !dur_seq, wf_seq. rewrite wf_seq in Hwf.
    assert (G : forall t0 r, 0 <= t0 -> cf_seq s en t0 cs = Ok r ->
                dsum r = dsum cs - (Z.min (Z.max en t0) (t0 + dsum cs) - Z.min (Z.max s t0) (t0 + dsum cs))
                /\ wfs r).
    { clear E r. induction cs as [|c rest IHrest]; intros t0 r Ht0 E.
      - simpl in E. inversion E; subst. simpl. split; [lia|exact I].
      - inversion IH as [|? ? Hc Hrest]; subst. destruct Hwf as [Hwc Hwr].
        specialize (IHrest Hrest Hwr).
        pose proof (dur_nonneg c Hwc) as Hd. pose proof (dsum_nonneg rest Hwr) as Hdr.
        rewrite cf_seq_cons in E. rewrite dsum_cons.
        set (d := dur c) in *.
        assert (Ht1 : 0 <= t0 + d) by lia.
        destruct ((s <=? t0) && (t0 + d <=? en) && (t0 <? en)) eqn:E1.
        { destruct (IHrest (t0 + d) r Ht1 E) as [Er Hwr']. split; [rewrite Er; lia|assumption]. }
        destruct ((t0 <=? s) && (s <=? t0 + d)) eqn:E2.
        { destruct (cut_off c _ _) as [c'|] eqn:Ecc; simpl in E; [|discriminate].
          destruct (cf_seq s en (t0 + d) rest) as [r'|] eqn:Er; simpl in E; [|discriminate].
          inversion E; subst r; clear E.
          assert (Ha : 0 <= s - t0) by lia. assert (Hb : s - t0 <= s - t0 + (en - s)) by lia.
          destruct (Hc _ _ c' Hwc Ha Hb Ecc) as [Edc Hwc'].
          destruct (IHrest (t0 + d) r' Ht1 Er) as [Edr Hwr'].
          split; [rewrite dsum_cons, Edc, Edr; lia|split; assumption]. }
        destruct ((t0 <? en) && (en <? t0 + d)) eqn:E3.
        { destruct (cut_off c _ _) as [c'|] eqn:Ecc; simpl in E; [|discriminate].
          destruct (cf_seq s en (t0 + d) rest) as [r'|] eqn:Er; simpl in E; [|discriminate].
          inversion E; subst r; clear E.
          assert (Ha : 0 <= 0) by lia. assert (Hb : 0 <= en - s - (t0 - s)) by lia.
          destruct (Hc _ _ c' Hwc Ha Hb Ecc) as [Edc Hwc'].
          destruct (IHrest (t0 + d) r' Ht1 Er) as [Edr Hwr'].
          split; [rewrite dsum_cons, Edc, Edr; lia|split; assumption]. }
        destruct (cf_seq s en (t0 + d) rest) as [r'|] eqn:Er; simpl in E; [|discriminate].
        inversion E; subst r; clear E.
        destruct (IHrest (t0 + d) r' Ht1 Er) as [Edr Hwr'].
        split; [rewrite dsum_cons; fold d; rewrite Edr; lia|split; assumption]. }
    destruct (G 0 r ltac:(lia) E) as [G1 G2]. pose proof (dsum_nonneg cs Hwf).
    split; [rewrite G1; lia|exact G2].
  - rewrite cut_off_sim_ok in H by lia.
    destruct (cf_sim s en cs) as [r|k] eqn:E; simpl in H; [|discriminate]. inversion H; subst e'; clear H.
    rewrite !dur_sim, wf_sim. rewrite wf_sim in Hwf.
    revert r E. induction cs as [|c rest IHrest]; intros r E.
    + simpl in E. inversion E; subst. simpl. split; [lia|exact I].
    + inversion IH as [|? ? Hc Hrest]; subst. destruct Hwf as [Hwc Hwr].
      rewrite cf_sim_cons in E.
      destruct (cut_off c s en) as [c'|] eqn:Ecc; simpl in E; [|discriminate].
      destruct (cf_sim s en rest) as [r'|] eqn:Er; simpl in E; [|discriminate].
      inversion E; subst r; clear E.
      destruct (Hc s en c' Hwc Hs Hse Ecc) as [Edc Hwc'].
      destruct (IHrest Hrest Hwr r' eq_refl) as [Edr Hwr'].
      pose proof (dur_nonneg c Hwc). pose proof (dmax_nonneg rest).
      split; [rewrite !dmax_cons, Edc, Edr; lia|split; assumption].
Qed.

(* ---------------------------------------------------------------- content *)
Theorem cutoff_at : forall e s en e', wf e -> 0 <= s -> s <= en ->
  cut_off e s en = Ok e' ->
  forall x, at_ e' x = at_ e (if x <? s then x else x + (en - s)).
Proof.
  induction e as [d l|m cs IH|m cs IH] using ev_ind'; intros s en e' Hwf Hs Hse H x.
  - rewrite cut_off_leaf_ok in H by lia. inversion H; subst e'; clear H. simpl in *.
    destruct (x <? s) eqn:Ex; destruct (s <? d) eqn:E;
    repeat match goal with |- context [if ?c then _ else _] => destruct c eqn:? end; try reflexivity; lia.
  - pose proof (cutoff_dur _ _ _ _ Hwf Hs Hse H) as [_ Hwe'].
    rewrite cut_off_seq_ok in H by lia. destruct (0 <? en - s) eqn:Ez.
    2:{ inversion H; subst e'. destruct (x <? s); [reflexivity|f_equal; lia]. }
    destruct (cf_seq s en 0 cs) as [r|k] eqn:E; simpl in H; [|discriminate]. inversion H; subst e'; clear H.
    rewrite !at_seq_eq. rewrite wf_seq in Hwf, Hwe'.
    assert (G : forall t0 r, 0 <= t0 -> cf_seq s en t0 cs = Ok r -> forall x, 0 <= x ->
                at_seq r x = at_seq cs (if x <? Z.max s t0 - t0 then x else x + (Z.max en t0 - Z.max s t0))).
    { clear E r x Hwe'. induction cs as [|c rest IHrest]; intros t0 r Ht0 E x Hx.
      - simpl in E. inversion E; subst. reflexivity.
      - inversion IH as [|? ? Hc Hrest]; subst. destruct Hwf as [Hwc Hwr].
        specialize (IHrest Hrest Hwr).
        pose proof (dur_nonneg c Hwc) as Hd. pose proof (dsum_nonneg rest Hwr) as Hdr.
        rewrite cf_seq_cons in E. rewrite (at_seq_cons c rest).
        set (d := dur c) in *.
        assert (Ht1 : 0 <= t0 + d) by lia.
        destruct (x <? Z.max s t0 - t0) eqn:Ex0.
        all: destruct ((s <=? t0) && (t0 + d <=? en) && (t0 <? en)) eqn:E1;
          [ rewrite (IHrest (t0 + d) r Ht1 E x Hx);
            repeat match goal with |- context [if ?c then _ else _] => destruct c eqn:? end;
            try reflexivity; try lia; try (f_equal; lia) | ].
        all: destruct ((t0 <=? s) && (s <=? t0 + d)) eqn:E2;
          [ destruct (cut_off c _ _) as [c'|] eqn:Ecc; simpl in E; [|discriminate];
            destruct (cf_seq s en (t0 + d) rest) as [r'|] eqn:Er; simpl in E; [|discriminate];
            inversion E; subst r; clear E;
            assert (Ha : 0 <= s - t0) by lia; assert (Hb : s - t0 <= s - t0 + (en - s)) by lia;
            pose proof (Hc _ _ c' Hwc Ha Hb Ecc x) as Hat;
            pose proof (cutoff_dur c _ _ c' Hwc Ha Hb Ecc) as [Edc _]; fold d in Edc;
            rewrite (at_seq_cons c' r'), Edc;
            match goal with |- (if ?c then _ else _) = _ => destruct c eqn:Ein end;
            [ rewrite Hat
            | match goal with |- at_seq r' ?z = _ =>
                assert (Hz : 0 <= z) by lia; rewrite (IHrest (t0 + d) r' Ht1 Er z Hz) end ];
            repeat match goal with |- context [if ?c then _ else _] => destruct c eqn:? end;
            try reflexivity; try lia; try (f_equal; lia) | ].
        all: destruct ((t0 <? en) && (en <? t0 + d)) eqn:E3;
          [ destruct (cut_off c _ _) as [c'|] eqn:Ecc; simpl in E; [|discriminate];
            destruct (cf_seq s en (t0 + d) rest) as [r'|] eqn:Er; simpl in E; [|discriminate];
            inversion E; subst r; clear E;
            assert (Ha : 0 <= 0) by lia; assert (Hb : 0 <= en - s - (t0 - s)) by lia;
            pose proof (Hc _ _ c' Hwc Ha Hb Ecc x) as Hat;
            pose proof (cutoff_dur c _ _ c' Hwc Ha Hb Ecc) as [Edc _]; fold d in Edc;
            rewrite (at_seq_cons c' r'), Edc;
            match goal with |- (if ?c then _ else _) = _ => destruct c eqn:Ein end;
            [ rewrite Hat
            | match goal with |- at_seq r' ?z = _ =>
                assert (Hz : 0 <= z) by lia; rewrite (IHrest (t0 + d) r' Ht1 Er z Hz) end ];
            repeat match goal with |- context [if ?c then _ else _] => destruct c eqn:? end;
            try reflexivity; try lia; try (f_equal; lia) | ].
        all: destruct (cf_seq s en (t0 + d) rest) as [r'|] eqn:Er; simpl in E; [|discriminate];
          inversion E; subst r; clear E;
          rewrite (at_seq_cons c r'); fold d;
          match goal with |- (if ?c then _ else _) = _ => destruct c eqn:Ein end;
          [ | match goal with |- at_seq r' ?z = _ =>
                assert (Hz : 0 <= z) by lia; rewrite (IHrest (t0 + d) r' Ht1 Er z Hz) end ];
          repeat match goal with |- context [if ?c then _ else _] => destruct c eqn:? end;
          try reflexivity; try lia; try (f_equal; lia). }
    destruct (x <? 0) eqn:Ex.
    + rewrite (at_seq_outside r x Hwe') by lia.
      destruct (x <? s) eqn:Exs; [|lia]. rewrite (at_seq_outside cs x Hwf) by lia. reflexivity.
    + assert (Hx : 0 <= x) by lia. rewrite (G 0 r ltac:(lia) E x Hx).
      replace (Z.max s 0 - 0) with s by lia. replace (Z.max en 0 - Z.max s 0) with (en - s) by lia.
      reflexivity.
  - rewrite cut_off_sim_ok in H by lia.
    destruct (cf_sim s en cs) as [r|k] eqn:E; simpl in H; [|discriminate]. inversion H; subst e'; clear H.
    rewrite !at_sim_eq. rewrite wf_sim in Hwf.
    assert (G : at_sim x r = at_sim (if x <? s then x else x + (en - s)) cs).
    { revert r E. induction cs as [|c rest IHrest]; intros r E.
      - simpl in E. inversion E; subst. reflexivity.
      - inversion IH as [|? ? Hc Hrest]; subst. destruct Hwf as [Hwc Hwr].
        rewrite cf_sim_cons in E.
        destruct (cut_off c s en) as [c'|] eqn:Ecc; simpl in E; [|discriminate].
        destruct (cf_sim s en rest) as [r'|] eqn:Er; simpl in E; [|discriminate].
        inversion E; subst r; clear E.
        rewrite !at_sim_cons, (Hc s en c' Hwc Hs Hse Ecc x), (IHrest Hrest Hwr r' eq_refl). reflexivity. }
    rewrite G. reflexivity.
Qed.

(* ---------------------------------------------------------------- corollaries *)
Theorem cutoff_noop : forall e s en e', wf e -> 0 <= s -> s <= en -> dur e <= s ->
  cut_off e s en = Ok e' -> dur e' = dur e /\ forall x, at_ e' x = at_ e x.
Proof.
  intros e s en e' Hwf Hs Hse Hd H.
  destruct (cutoff_dur e s en e' Hwf Hs Hse H) as [Ed _].
  split; [lia|]. intros x. rewrite (cutoff_at e s en e' Hwf Hs Hse H x).
  destruct (x <? s) eqn:Ex; [reflexivity|].
  rewrite (at_outside e (x + (en - s)) Hwf) by lia. rewrite (at_outside e x Hwf) by lia. reflexivity.
Qed.

Theorem cutoff_negative_start : forall e s en, s < 0 -> cut_off e s en = Err EInvalidAbsoluteTime.
Proof.
  intros e s en H. destruct e as [d l|m cs|m cs].
  - rewrite cut_off_leaf_unfold, check_time_err by lia. reflexivity.
  - rewrite cut_off_seq_unfold, check_time_err by lia. reflexivity.
  - rewrite cut_off_sim_unfold, check_time_err by lia. reflexivity.
Qed.

(* ---------------------------------------------------------------- the hypotheses are satisfiable *)
Definition cutoff_ex : ev :=
  Seq meta0 [Leaf 2 1;
             Sim meta0 [Seq meta0 [Leaf 3 2; Leaf 0 3; Leaf 4 4]; Leaf 5 5];
             Leaf 3 6].
(* dur 12; cut [3,7): the inner Seq (starting at 2) loses [1,5): Leaf 3 -> 1, the zero-length leaf at
   local time 3 lies inside the range and is dropped, Leaf 4 -> 2; the parallel Leaf 5 -> 1 *)
Example cutoff_example :
  wf cutoff_ex /\ dur cutoff_ex = 12 /\
  cut_off cutoff_ex 3 7 =
    Ok (Seq meta0 [Leaf 2 1; Sim meta0 [Seq meta0 [Leaf 1 2; Leaf 2 4]; Leaf 1 5]; Leaf 3 6]) /\
  (* range reaching beyond the end *)
  cut_off cutoff_ex 4 20 = Ok (Seq meta0 [Leaf 2 1; Sim meta0 [Seq meta0 [Leaf 2 2]; Leaf 2 5]]) /\
  (* empty range and range at/after the end: unchanged *)
  cut_off cutoff_ex 5 5 = Ok cutoff_ex /\ cut_off cutoff_ex 12 15 = Ok cutoff_ex /\
  cut_off cutoff_ex (-1) 4 = Err EInvalidAbsoluteTime.
Proof. split; [apply wfb_wf; vm_compute; reflexivity|vm_compute; repeat split; reflexivity]. Qed.

(* the theorems instantiated on the example *)
Example cutoff_example_spec e' : cut_off cutoff_ex 3 7 = Ok e' ->
  dur e' = 8 /\ wf e' /\ at_ e' 2 = at_ cutoff_ex 2 /\ at_ e' 3 = at_ cutoff_ex 7 /\ at_ e' 7 = at_ cutoff_ex 11.
Proof.
  intros H. assert (Hwf : wf cutoff_ex) by (apply wfb_wf; vm_compute; reflexivity).
  destruct (cutoff_dur cutoff_ex 3 7 e' Hwf ltac:(lia) ltac:(lia) H) as [Hd Hw].
  pose proof (cutoff_at cutoff_ex 3 7 e' Hwf ltac:(lia) ltac:(lia) H) as Ha.
  repeat split; [rewrite Hd; vm_compute; reflexivity|exact Hw|rewrite Ha; reflexivity..].
Qed.

Print Assumptions cutoff_total.
Print Assumptions cutoff_at.
Print Assumptions cutoff_dur.
Print Assumptions cutoff_noop.
