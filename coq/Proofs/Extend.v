(* extend_until(duration, prolong_chronon): Consecution appends a rest up to the target duration,
   Concurrence extends every voice (leaves are prolonged, nested containers are extended recursively). *)
From Coq Require Import ZArith List Bool Lia ZifyBool.
From MV Require Import Base.Res Model.EventTree Model.TreeOps Proofs.TreeLemmas.
Import ListNotations.
Open Scope Z_scope.

(* ================================================================ unfolding equations *)
(* the loop of Concurrence.extend_until over the voices (identical binder structure as the inner fix) *)
Definition ext_sim (prolong : bool) (d : Z) := fix go (l : list ev) : res (list ev) :=
  match l with
  | [] => Ok []
  | Leaf d0 l0 :: r =>
      if prolong then (r' <- go r ; Ok (Leaf (if 0 <? d - d0 then d0 + (d - d0) else d0) l0 :: r'))
      else Err EImpossibleToExtendUntil
  | c :: r => c' <- extend_until prolong c d ; r' <- go r ; Ok (c' :: r')
  end.
(* what happens to one voice *)
Definition ext_child (prolong : bool) (d : Z) (c : ev) : res ev :=
  match c with
  | Leaf d0 l0 => if prolong then Ok (Leaf (if 0 <? d - d0 then d0 + (d - d0) else d0) l0)
                  else Err EImpossibleToExtendUntil
  | _ => extend_until prolong c d
  end.

Lemma extend_leaf p d0 l0 d : extend_until p (Leaf d0 l0) d = Err EAttributeError.
Proof. reflexivity. Qed.
Lemma extend_seq_unfold p m cs d : extend_until p (Seq m cs) d =
  Ok (Seq m (if 0 <? d - dsum cs then cs ++ [Leaf (d - dsum cs) rest_label] else cs)).
Proof. reflexivity. Qed.
Lemma extend_sim_unfold p m cs d : extend_until p (Sim m cs) d =
  match cs with [] => Err EIneffectiveExtendUntil | _ => r <- ext_sim p d cs ; Ok (Sim m r) end.
Proof. reflexivity. Qed.
Lemma ext_sim_nil p d : ext_sim p d [] = Ok []. Proof. reflexivity. Qed.
Lemma ext_sim_cons p d c r : ext_sim p d (c :: r) = (c' <- ext_child p d c ; r' <- ext_sim p d r ; Ok (c' :: r')).
Proof. destruct c; [destruct p|..]; reflexivity. Qed.

Theorem extend_empty_sim p m d : extend_until p (Sim m []) d = Err EIneffectiveExtendUntil.
Proof. reflexivity. Qed.

Lemma prolong_max d d0 : (if 0 <? d - d0 then d0 + (d - d0) else d0) = Z.max d0 d.
Proof. destruct (0 <? d - d0) eqn:E; lia. Qed.
Lemma pad_cond d s : (0 <? d - s) = (s <? d).
Proof. destruct (0 <? d - s) eqn:E, (s <? d) eqn:E'; try reflexivity; lia. Qed.

(* ================================================================ 1. Consecution *)
(* the children after the call *)
Definition padded (cs : list ev) (d : Z) : list ev :=
  if dsum cs <? d then cs ++ [Leaf (d - dsum cs) rest_label] else cs.

Lemma extend_seq_padded p m cs d : extend_until p (Seq m cs) d = Ok (Seq m (padded cs d)).
Proof. rewrite extend_seq_unfold, pad_cond. reflexivity. Qed.

Lemma padded_dsum cs d : dsum (padded cs d) = Z.max (dsum cs) d.
Proof. unfold padded. destruct (dsum cs <? d) eqn:E; [|lia]. rewrite dsum_app, dsum_cons. cbn [dsum dur]. lia. Qed.
Lemma padded_wfs cs d : wfs cs -> wfs (padded cs d).
Proof.
  intros H. unfold padded. destruct (dsum cs <? d) eqn:E; [|exact H]. apply wfs_app. split; [exact H|].
  split; [simpl; lia|exact I].
Qed.
(* complete description of the content after the call *)
Lemma padded_at cs d x : wfs cs ->
  at_seq (padded cs d) x = if x <? dsum cs then at_seq cs x else if x <? d then Some (SL rest_label) else None.
Proof.
  intros H. pose proof (dsum_nonneg cs H) as Hn. unfold padded. destruct (dsum cs <? d) eqn:E.
  - rewrite at_seq_app; [|exact H|split; [simpl; lia|exact I]].
    destruct (x <? dsum cs) eqn:E1; [reflexivity|]. rewrite at_seq_cons. cbn [dur at_ at_seq].
    destruct (x <? d) eqn:E2;
      repeat match goal with |- context [if ?c then _ else _] => destruct c eqn:? end; try reflexivity; lia.
  - destruct (x <? dsum cs) eqn:E1; [reflexivity|]. destruct (x <? d) eqn:E2; [lia|].
    apply at_seq_outside; [exact H|lia].
Qed.

Theorem extend_seq_spec p m cs d : wfs cs ->
  exists cs', extend_until p (Seq m cs) d = Ok (Seq m cs') /\
    dsum cs' = Z.max (dsum cs) d /\ wfs cs' /\
    (forall x, x < dsum cs -> at_seq cs' x = at_seq cs x) /\
    (forall x, dsum cs <= x < d -> at_seq cs' x = Some (SL rest_label)) /\
    (forall x, Z.max (dsum cs) d <= x -> at_seq cs' x = None) /\
    (d <= dsum cs -> cs' = cs) /\
    (dsum cs < d -> cs' = cs ++ [Leaf (d - dsum cs) rest_label]).
Proof.
  intros H. exists (padded cs d). split; [apply extend_seq_padded|]. split; [apply padded_dsum|].
  split; [apply padded_wfs; exact H|]. pose proof (dsum_nonneg cs H) as Hn.
  split; [|split; [|split; [|split]]].
  - intros x Hx. rewrite padded_at by exact H. destruct (x <? dsum cs) eqn:E; [reflexivity|lia].
  - intros x Hx. rewrite padded_at by exact H. destruct (x <? dsum cs) eqn:E; [lia|].
    destruct (x <? d) eqn:E'; [reflexivity|lia].
  - intros x Hx. rewrite padded_at by exact H. destruct (x <? dsum cs) eqn:E; [lia|].
    destruct (x <? d) eqn:E'; [lia|reflexivity].
  - intros Hd. unfold padded. destruct (dsum cs <? d) eqn:E; [lia|reflexivity].
  - intros Hd. unfold padded. destruct (dsum cs <? d) eqn:E; [reflexivity|lia].
Qed.

(* ================================================================ 2. the exact result, voice by voice *)
(* c' is c extended to d: leaves are prolonged, sequences padded with a rest,
   a nested (non-empty) simultaneity extends its own voices *)
Fixpoint extended (d : Z) (c c' : ev) {struct c} : Prop :=
  match c with
  | Leaf d0 l0 => c' = Leaf (Z.max d0 d) l0
  | Seq m cs => c' = Seq m (padded cs d)
  | Sim m cs => cs <> [] /\ exists cs', c' = Sim m cs' /\
      (fix go (l l' : list ev) : Prop :=
         match l, l' with
         | [], [] => True
         | c :: r, c' :: r' => extended d c c' /\ go r r'
         | _, _ => False
         end) cs cs'
  end.
Definition extendeds (d : Z) := fix go (l l' : list ev) : Prop :=
  match l, l' with
  | [], [] => True
  | c :: r, c' :: r' => extended d c c' /\ go r r'
  | _, _ => False
  end.
Lemma extended_sim d m cs c' :
  extended d (Sim m cs) c' = (cs <> [] /\ exists cs', c' = Sim m cs' /\ extendeds d cs cs').
Proof. reflexivity. Qed.
Lemma extendeds_Forall2 d l l' : extendeds d l l' <-> Forall2 (extended d) l l'.
Proof.
  revert l'. induction l as [|c r IH]; intros [|c' r']; simpl.
  - split; [constructor|exact (fun _ => I)].
  - split; [intros []|intros H; inversion H].
  - split; [intros []|intros H; inversion H].
  - rewrite IH. split; [intros [H1 H2]; constructor; assumption|intros H; inversion H; subst; split; assumption].
Qed.

(* one voice, then the whole loop *)
Lemma ext_sim_Forall2 d cs : Forall (fun c => forall c', ext_child true d c = Ok c' <-> extended d c c') cs ->
  forall r, ext_sim true d cs = Ok r <-> Forall2 (extended d) cs r.
Proof.
  induction 1 as [|c rest Hc Hrest IH]; intros r.
  - rewrite ext_sim_nil. split; [intros H; inversion H; constructor|intros H; inversion H; reflexivity].
  - rewrite ext_sim_cons. split.
    + intros H. destruct (ext_child true d c) as [c'|] eqn:Ec; simpl in H; [|discriminate].
      destruct (ext_sim true d rest) as [r'|] eqn:Er; simpl in H; [|discriminate]. inversion H; subst r.
      constructor; [apply Hc; reflexivity|apply IH; reflexivity].
    + intros H. inversion H as [|? c' ? r' H1 H2]; subst. apply Hc in H1. apply IH in H2. rewrite H1, H2. reflexivity.
Qed.

Lemma ext_child_extended d : forall c c', ext_child true d c = Ok c' <-> extended d c c'.
Proof.
  induction c as [d0 l0|m cs IH|m cs IH] using ev_ind'; intros c'.
  - cbn [ext_child extended]. rewrite prolong_max. split; [intros H; inversion H; reflexivity|intros ->; reflexivity].
  - cbn [ext_child extended]. rewrite extend_seq_padded. split; [intros H; inversion H; reflexivity|intros ->; reflexivity].
  - cbn [ext_child]. rewrite extend_sim_unfold, extended_sim. destruct cs as [|c0 cs0].
    + split; [discriminate|]. intros [H _]. congruence.
    + set (cs := c0 :: cs0) in *. pose proof (ext_sim_Forall2 d cs IH) as G. split.
      * intros H. destruct (ext_sim true d cs) as [r|] eqn:Er; simpl in H; [|discriminate]. inversion H; subst c'.
        split; [discriminate|]. exists r. split; [reflexivity|]. apply extendeds_Forall2, G. reflexivity.
      * intros (_ & cs' & -> & H). apply extendeds_Forall2, G in H. rewrite H. reflexivity.
Qed.

(* extend_until with prolong_chronon = True succeeds exactly on containers without an empty simultaneity
   in voice position, and its result is determined by [extended] *)
Theorem extend_iff d e e' : extend_until true e d = Ok e' <-> is_leaf e = false /\ extended d e e'.
Proof.
  destruct e as [d0 l0|m cs|m cs].
  - rewrite extend_leaf. split; [discriminate|intros [H _]; discriminate].
  - rewrite <- ext_child_extended. cbn [ext_child is_leaf]. tauto.
  - rewrite <- ext_child_extended. cbn [ext_child is_leaf]. tauto.
Qed.

Theorem extend_sim_spec d m cs cs' : extend_until true (Sim m cs) d = Ok (Sim m cs') ->
  cs <> [] /\ Forall2 (extended d) cs cs'.
Proof.
  intros H. apply extend_iff in H. destruct H as [_ H]. rewrite extended_sim in H.
  destruct H as (Hne & cs'' & E & H). inversion E; subst cs''. split; [exact Hne|]. apply extendeds_Forall2. exact H.
Qed.
(* the result of a call on a simultaneity is a simultaneity with the same meta *)
Lemma extend_sim_shape d m cs e' : extend_until true (Sim m cs) d = Ok e' -> exists cs', e' = Sim m cs'.
Proof. intros H. apply extend_iff in H. destruct H as [_ H]. rewrite extended_sim in H. destruct H as (_ & cs' & -> & _). eauto. Qed.

(* ---------------------------------------------------------------- consequences of [extended] *)
Lemma dmax_extended d cs cs' : Forall2 (fun c c' => dur c' = Z.max (dur c) d) cs cs' -> cs <> [] ->
  dmax cs' = Z.max (dmax cs) d.
Proof.
  induction 1 as [|c c' r r' Hc Hr IH]; intros Hne; [congruence|]. rewrite !dmax_cons, Hc.
  destruct r as [|c1 r].
  - inversion Hr; subst. cbn [dmax]. pose proof (dmax_nonneg [c]) as Hn. rewrite dmax_cons in Hn. cbn [dmax] in *. lia.
  - rewrite IH by discriminate. lia.
Qed.

Lemma extended_dur d : forall c c', extended d c c' -> dur c' = Z.max (dur c) d.
Proof.
  induction c as [d0 l0|m cs IH|m cs IH] using ev_ind'; intros c' H.
  - cbn [extended] in H. subst c'. reflexivity.
  - cbn [extended] in H. subst c'. rewrite !dur_seq. apply padded_dsum.
  - rewrite extended_sim in H. destruct H as (Hne & cs' & -> & H). rewrite !dur_sim.
    apply dmax_extended; [|exact Hne]. apply extendeds_Forall2 in H. clear Hne.
    induction H as [|c c' r r' Hc Hr IHr]; [constructor|]. inversion IH as [|? ? Pc Pr]; subst.
    constructor; [apply Pc; exact Hc|apply IHr; exact Pr].
Qed.
Lemma extended_wf d : forall c c', wf c -> extended d c c' -> wf c'.
Proof.
  induction c as [d0 l0|m cs IH|m cs IH] using ev_ind'; intros c' Hw H.
  - cbn [extended] in H. subst c'. simpl in *. lia.
  - cbn [extended] in H. subst c'. rewrite wf_seq in *. apply padded_wfs. exact Hw.
  - rewrite extended_sim in H. destruct H as (_ & cs' & -> & H). rewrite wf_sim in *.
    apply extendeds_Forall2 in H. induction H as [|c c' r r' Hc Hr IHr]; [exact I|].
    inversion IH as [|? ? Pc Pr]; subst. destruct Hw as [W1 W2]. split; [exact (Pc c' W1 Hc)|exact (IHr Pr W2)].
Qed.
Lemma extended_kind d c c' : extended d c c' -> is_leaf c' = is_leaf c /\ meta_of c' = meta_of c.
Proof.
  destruct c as [d0 l0|m cs|m cs]; [cbn [extended]; intros ->; split; reflexivity..|].
  rewrite extended_sim. intros (_ & cs' & -> & _). split; reflexivity.
Qed.

(* ================================================================ 3. duration *)
Theorem extend_dur d e e' : extend_until true e d = Ok e' -> wf e -> dur e' = Z.max (dur e) d /\ wf e'.
Proof.
  intros H Hw. apply extend_iff in H. destruct H as [_ H].
  split; [exact (extended_dur d e e' H)|exact (extended_wf d e e' Hw H)].
Qed.
(* the duration part needs no well-formedness *)
Theorem extend_dur_any d e e' : extend_until true e d = Ok e' -> dur e' = Z.max (dur e) d.
Proof. intros H. apply extend_iff in H. destruct H as [_ H]. exact (extended_dur d e e' H). Qed.

(* the per-voice statement in the plain form, with the simultaneity's duration *)
Corollary extend_sim_voices d m cs cs' : wfs cs -> extend_until true (Sim m cs) d = Ok (Sim m cs') ->
  Forall2 (fun c c' => dur c' = Z.max (dur c) d /\ wf c' /\ is_leaf c' = is_leaf c /\ meta_of c' = meta_of c) cs cs' /\
  dmax cs' = Z.max (dmax cs) d.
Proof.
  intros Hw H. pose proof (extend_dur_any _ _ _ H) as Hd. rewrite !dur_sim in Hd. split; [|exact Hd]. clear Hd.
  apply extend_sim_spec in H. destruct H as [_ H]. induction H as [|c c' r r' Hc Hr IH]; [constructor|].
  destruct Hw as [W1 W2]. constructor; [|exact (IH W2)].
  split; [exact (extended_dur d c c' Hc)|]. split; [exact (extended_wf d c c' W1 Hc)|]. exact (extended_kind d c c' Hc).
Qed.

(* ================================================================ 4. idempotence *)
Lemma padded_idem cs d : padded (padded cs d) d = padded cs d.
Proof. unfold padded at 1. rewrite padded_dsum. destruct (Z.max (dsum cs) d <? d) eqn:E; [lia|reflexivity]. Qed.

Lemma extended_idem d : forall c c', extended d c c' -> extended d c' c'.
Proof.
  induction c as [d0 l0|m cs IH|m cs IH] using ev_ind'; intros c' H.
  - cbn [extended] in H. subst c'. cbn [extended]. f_equal. lia.
  - cbn [extended] in H. subst c'. cbn [extended]. rewrite padded_idem. reflexivity.
  - rewrite extended_sim in H. destruct H as (Hne & cs' & -> & H). rewrite extended_sim.
    apply extendeds_Forall2 in H. split.
    + destruct H; [congruence|discriminate].
    + exists cs'. split; [reflexivity|]. apply extendeds_Forall2. clear Hne.
      induction H as [|c c' r r' Hc Hr IHr]; [constructor|]. inversion IH as [|? ? Pc Pr]; subst.
      constructor; [exact (Pc c' Hc)|exact (IHr Pr)].
Qed.

(* wf is not needed *)
Theorem extend_idempotent_any d e e' : extend_until true e d = Ok e' -> extend_until true e' d = Ok e'.
Proof.
  intros H. apply extend_iff in H. destruct H as [Hl H]. apply extend_iff. split.
  - destruct (extended_kind d e e' H) as [-> _]. exact Hl.
  - exact (extended_idem d e e' H).
Qed.
Theorem extend_idempotent d e e' : wf e -> extend_until true e d = Ok e' -> extend_until true e' d = Ok e'.
Proof. intros _. apply extend_idempotent_any. Qed.

(* a target that is not beyond any voice changes nothing *)
Lemma extended_short d : forall c, wf c -> (forall c', extended d c c' -> d <= 0 -> c' = c).
Proof.
  induction c as [d0 l0|m cs IH|m cs IH] using ev_ind'; intros Hw c' H Hd.
  - cbn [extended] in H. subst c'. simpl in Hw. f_equal. lia.
  - cbn [extended] in H. subst c'. rewrite wf_seq in Hw. pose proof (dsum_nonneg cs Hw). unfold padded.
    destruct (dsum cs <? d) eqn:E; [lia|reflexivity].
  - rewrite extended_sim in H. destruct H as (_ & cs' & -> & H). f_equal. rewrite wf_sim in Hw.
    apply extendeds_Forall2 in H. induction H as [|c c' r r' Hc Hr IHr]; [reflexivity|].
    inversion IH as [|? ? Pc Pr]; subst. destruct Hw as [W1 W2]. rewrite (Pc W1 c' Hc Hd), (IHr Pr W2). reflexivity.
Qed.

(* ================================================================ 5. content *)
(* what is active at x after the extension, computed from the original voices *)
Fixpoint at_ext (d : Z) (c : ev) (x : Z) : option slice :=
  match c with
  | Leaf d0 l0 => if (0 <=? x) && (x <? Z.max d0 d) then Some (SL l0) else None
  | Seq _ cs => if x <? dsum cs then at_seq cs x else if x <? d then Some (SL rest_label) else None
  | Sim _ cs =>
      match (fix go l := match l with [] => [] | c :: r =>
               match at_ext d c x with Some s => s :: go r | None => go r end end) cs with
      | [] => None | vs => Some (SN vs) end
  end.
Definition at_ext_sim (d x : Z) := fix go (l : list ev) : list slice := match l with [] => [] | c :: r =>
               match at_ext d c x with Some s => s :: go r | None => go r end end.
Lemma at_ext_sim_eq d m cs x : at_ext d (Sim m cs) x = match at_ext_sim d x cs with [] => None | vs => Some (SN vs) end.
Proof. reflexivity. Qed.
Lemma at_ext_sim_cons d x c r : at_ext_sim d x (c :: r) = match at_ext d c x with Some s => s :: at_ext_sim d x r | None => at_ext_sim d x r end.
Proof. reflexivity. Qed.

Lemma extended_at d : forall c c', wf c -> extended d c c' -> forall x, at_ c' x = at_ext d c x.
Proof.
  induction c as [d0 l0|m cs IH|m cs IH] using ev_ind'; intros c' Hw H x.
  - cbn [extended] in H. subst c'. reflexivity.
  - cbn [extended] in H. subst c'. rewrite at_seq_eq. cbn [at_ext]. apply padded_at. exact Hw.
  - rewrite extended_sim in H. destruct H as (_ & cs' & -> & H). rewrite at_sim_eq, at_ext_sim_eq. rewrite wf_sim in Hw.
    assert (G : at_sim x cs' = at_ext_sim d x cs); [|rewrite G; reflexivity].
    apply extendeds_Forall2 in H. induction H as [|c c' r r' Hc Hr IHr]; [reflexivity|].
    inversion IH as [|? ? Pc Pr]; subst. destruct Hw as [W1 W2].
    rewrite at_sim_cons, at_ext_sim_cons, (Pc c' W1 Hc x), (IHr Pr W2). reflexivity.
Qed.

(* complete description of the content of the result, for every x *)
Theorem extend_content_full d e e' : wf e -> extend_until true e d = Ok e' -> forall x, at_ e' x = at_ext d e x.
Proof. intros Hw H. apply extend_iff in H. destruct H as [_ H]. exact (extended_at d e e' Hw H). Qed.

(* reading at_ext: a voice that is not a simultaneity keeps its content below its old end ... *)
Definition is_sim (e : ev) : bool := match e with Sim _ _ => true | _ => false end.
Lemma at_ext_below d c x : wf c -> is_sim c = false -> x < dur c -> at_ext d c x = at_ c x.
Proof.
  destruct c as [d0 l0|m cs|m cs]; intros Hw Hs Hx; [| |discriminate].
  - simpl in *. destruct (0 <=? x) eqn:E1, (x <? Z.max d0 d) eqn:E2, (x <? d0) eqn:E3; try reflexivity; lia.
  - cbn [at_ext]. rewrite dur_seq in Hx. destruct (x <? dsum cs) eqn:E; [reflexivity|lia].
Qed.
(* ... and sounds on between its old end and the target: a leaf with its own label, a sequence with a rest *)
Lemma at_ext_between d c x : wf c -> dur c <= x < d ->
  match c with
  | Leaf _ l0 => at_ext d c x = Some (SL l0)
  | Seq _ _ => at_ext d c x = Some (SL rest_label)
  | Sim _ _ => True
  end.
Proof.
  destruct c as [d0 l0|m cs|m cs]; intros Hw Hx; [| |exact I].
  - simpl in *. destruct (0 <=? x) eqn:E1, (x <? Z.max d0 d) eqn:E2; try reflexivity; lia.
  - cbn [at_ext]. rewrite dur_seq in Hx. destruct (x <? dsum cs) eqn:E; [lia|]. destruct (x <? d) eqn:E'; [reflexivity|lia].
Qed.
(* nothing is active outside [0, max (dur c) d) *)
Lemma at_ext_outside d c c' x : wf c -> extended d c c' -> (x < 0 \/ Z.max (dur c) d <= x) -> at_ext d c x = None.
Proof.
  intros Hw H Hx. rewrite <- (extended_at d c c' Hw H x). apply at_outside; [exact (extended_wf d c c' Hw H)|].
  rewrite (extended_dur d c c' H). exact Hx.
Qed.

Theorem extend_content d e e' : wf e -> extend_until true e d = Ok e' ->
  forall x, x < dur e ->
    match e with
    | Leaf _ _ => False
    | Seq _ _ => at_ e' x = at_ e x
    | Sim _ cs => at_ e' x = match at_ext_sim d x cs with [] => None | vs => Some (SN vs) end
    end.
Proof.
  intros Hw H x Hx. pose proof (extend_content_full d e e' Hw H x) as G. destruct e as [d0 l0|m cs|m cs].
  - rewrite extend_leaf in H. discriminate.
  - rewrite G. apply at_ext_below; [exact Hw|reflexivity|exact Hx].
  - rewrite G. apply at_ext_sim_eq.
Qed.

(* simultaneity whose voices are leaves and sequences (no directly nested simultaneity): the plain per-voice form *)
Theorem extend_sim_spec_flat d m cs cs' : wfs cs -> Forall (fun c => is_sim c = false) cs ->
  extend_until true (Sim m cs) d = Ok (Sim m cs') ->
  Forall2 (fun c c' => dur c' = Z.max (dur c) d /\ wf c' /\ (forall x, x < dur c -> at_ c' x = at_ c x) /\
                       (forall x, dur c <= x < d -> at_ c' x = Some (SL (match c with Leaf _ l0 => l0 | _ => rest_label end)))) cs cs'.
Proof.
  intros Hw Hs H. apply extend_sim_spec in H. destruct H as [_ H]. induction H as [|c c' r r' Hc Hr IH]; [constructor|].
  destruct Hw as [W1 W2]. inversion Hs as [|? ? S1 S2]; subst. constructor; [|exact (IH W2 S2)].
  split; [exact (extended_dur d c c' Hc)|]. split; [exact (extended_wf d c c' W1 Hc)|]. split.
  - intros x Hx. rewrite (extended_at d c c' W1 Hc x). apply at_ext_below; assumption.
  - intros x Hx. rewrite (extended_at d c c' W1 Hc x). pose proof (at_ext_between d c x W1 Hx) as G.
    destruct c; [exact G|exact G|discriminate].
Qed.
(* the plain statement "at_ c' x = at_ c x below dur c" is false for a voice that is itself a simultaneity:
   its shorter inner voices are prolonged, so they are still active where they were silent before *)
Example extend_content_nested_sim_refuted :
  exists c c' x, extend_until true (Sim meta0 [c]) 5 = Ok (Sim meta0 [c']) /\ wf c /\ x < dur c /\ at_ c' x <> at_ c x.
Proof.
  exists (Sim meta0 [Leaf 1 1; Leaf 3 2]), (Sim meta0 [Leaf 5 1; Leaf 5 2]), 2.
  split; [vm_compute; reflexivity|]. split; [simpl; lia|]. split; [vm_compute; reflexivity|]. vm_compute. discriminate.
Qed.

(* ================================================================ when does the call succeed *)
(* no empty simultaneity in voice position (recursively through simultaneities) *)
Fixpoint extendableb (c : ev) : bool :=
  match c with
  | Sim _ cs => negb (match cs with [] => true | _ => false end) &&
                (fix go l := match l with [] => true | c :: r => extendableb c && go r end) cs
  | _ => true
  end.
Definition extendablesb := fix go (l : list ev) : bool := match l with [] => true | c :: r => extendableb c && go r end.
Lemma extendableb_sim m cs : extendableb (Sim m cs) = negb (match cs with [] => true | _ => false end) && extendablesb cs.
Proof. reflexivity. Qed.

Lemma ext_child_total d : forall c,
  if extendableb c then exists c', ext_child true d c = Ok c' else ext_child true d c = Err EIneffectiveExtendUntil.
Proof.
  induction c as [d0 l0|m cs IH|m cs IH] using ev_ind'.
  - cbn [extendableb ext_child]. eauto.
  - cbn [extendableb ext_child]. rewrite extend_seq_padded. eauto.
  - rewrite extendableb_sim. cbn [ext_child]. rewrite extend_sim_unfold. destruct cs as [|c0 cs0]; [reflexivity|].
    set (cs := c0 :: cs0) in *. cbn [negb andb].
    assert (G : if extendablesb cs then exists r, ext_sim true d cs = Ok r else ext_sim true d cs = Err EIneffectiveExtendUntil).
    { clearbody cs. induction IH as [|c r Hc Hr IHr]; [cbn; eauto|]. rewrite ext_sim_cons.
      change (extendablesb (c :: r)) with (extendableb c && extendablesb r).
      destruct (extendableb c); [|rewrite Hc; reflexivity]. destruct Hc as [c' ->]. cbn [andb].
      destruct (extendablesb r); [destruct IHr as [r' ->]; cbn; eauto|rewrite IHr; reflexivity]. }
    destruct (extendablesb cs); [destruct G as [r ->]; cbn; eauto|rewrite G; reflexivity].
Qed.
(* on a container the call either succeeds or raises IneffectiveExtendUntilError, decided by extendableb *)
Theorem extend_total d e : is_leaf e = false ->
  if extendableb e then exists e', extend_until true e d = Ok e' else extend_until true e d = Err EIneffectiveExtendUntil.
Proof. intros H. pose proof (ext_child_total d e) as G. destruct e; [discriminate|exact G|exact G]. Qed.

(* ================================================================ Concurrence.extend_until(None) *)
Lemma dur_le_dmax c cs : In c cs -> dur c <= dmax cs.
Proof. induction cs as [|a r IH]; intros []; rewrite dmax_cons; [subst; lia|]. specialize (IH H). lia. Qed.

(* with the default target every voice gets the duration of the simultaneity, which does not change *)
Theorem extend_default_spec m cs e' : wfs cs -> extend_until_default (Sim m cs) = Ok e' ->
  exists cs', e' = Sim m cs' /\ dur e' = dmax cs /\ wf e' /\ Forall (fun c' => dur c' = dmax cs) cs'.
Proof.
  unfold extend_until_default. rewrite dur_sim. intros Hw H.
  destruct (extend_sim_shape _ _ _ _ H) as [cs' ->]. exists cs'. split; [reflexivity|].
  destruct (extend_dur _ _ _ H Hw) as [Hd Hw']. rewrite !dur_sim in Hd. split; [rewrite dur_sim; lia|]. split; [exact Hw'|].
  destruct (extend_sim_voices _ _ _ _ Hw H) as [G _].
  assert (K : forall D l l', Forall2 (fun c c' => dur c' = Z.max (dur c) D /\ wf c' /\ is_leaf c' = is_leaf c /\ meta_of c' = meta_of c) l l' ->
                (forall c, In c l -> dur c <= D) -> Forall (fun c' => dur c' = D) l').
  { intros D l l' F. induction F as [|c c' r r' Hc Hr IH]; intros B; [constructor|]. constructor.
    - destruct Hc as [-> _]. specialize (B c (or_introl eq_refl)). lia.
    - apply IH. intros c0 Hc0. apply B. right. exact Hc0. }
  apply (K (dmax cs) cs cs' G). intros c. apply dur_le_dmax.
Qed.

(* ================================================================ examples *)
Definition tg (t : Z) : meta := mkMeta t 0.
Definition ex_sim : ev :=
  Sim (mkMeta 1 9) [Leaf 2 5; Seq (tg 2) [Leaf 1 6; Leaf 1 7]; Sim (tg 3) [Leaf 1 8; Seq meta0 []]; Seq meta0 []; Leaf 6 4].

Example ex_extend_sim : extend_until true ex_sim 4 =
  Ok (Sim (mkMeta 1 9) [Leaf 4 5; Seq (tg 2) [Leaf 1 6; Leaf 1 7; Leaf 2 rest_label];
                        Sim (tg 3) [Leaf 4 8; Seq meta0 [Leaf 4 rest_label]]; Seq meta0 [Leaf 4 rest_label]; Leaf 6 4]).
Proof. vm_compute. reflexivity. Qed.
Example ex_extend_sim_wf : wf ex_sim /\ is_leaf ex_sim = false /\ extendableb ex_sim = true.
Proof. vm_compute. intuition discriminate. Qed.
Example ex_extend_sim_twice :
  (e1 <- extend_until true ex_sim 4 ; extend_until true e1 4) = extend_until true ex_sim 4.
Proof. vm_compute. reflexivity. Qed.
Example ex_extend_default : extend_until_default ex_sim =
  Ok (Sim (mkMeta 1 9) [Leaf 6 5; Seq (tg 2) [Leaf 1 6; Leaf 1 7; Leaf 4 rest_label];
                        Sim (tg 3) [Leaf 6 8; Seq meta0 [Leaf 6 rest_label]]; Seq meta0 [Leaf 6 rest_label]; Leaf 6 4]).
Proof. vm_compute. reflexivity. Qed.
(* an empty simultaneity in voice position makes the whole call fail, also when it is nested more deeply *)
Example ex_extend_empty_voice :
  extend_until true (Sim meta0 [Leaf 1 1; Sim meta0 [Seq meta0 []; Sim (tg 4) []]]) 3 = Err EIneffectiveExtendUntil.
Proof. vm_compute. reflexivity. Qed.
(* ... but not below a sequence: sequences are padded as a whole, never entered *)
Example ex_extend_empty_below_seq :
  extend_until true (Sim meta0 [Seq meta0 [Sim (tg 4) []]]) 3 = Ok (Sim meta0 [Seq meta0 [Sim (tg 4) []; Leaf 3 rest_label]]).
Proof. vm_compute. reflexivity. Qed.
Example ex_extend_no_prolong : extend_until false (Sim meta0 [Seq meta0 []; Leaf 1 1]) 3 = Err EImpossibleToExtendUntil.
Proof. vm_compute. reflexivity. Qed.
Example ex_extend_seq : extend_until false (Seq (tg 2) [Leaf 1 6; Sim meta0 [Leaf 2 1; Leaf 1 2]]) 7 =
  Ok (Seq (tg 2) [Leaf 1 6; Sim meta0 [Leaf 2 1; Leaf 1 2]; Leaf 4 rest_label]).
Proof. vm_compute. reflexivity. Qed.
Example ex_extend_seq_short : extend_until true (Seq (tg 2) [Leaf 1 6; Sim meta0 [Leaf 2 1; Leaf 1 2]]) 3 =
  Ok (Seq (tg 2) [Leaf 1 6; Sim meta0 [Leaf 2 1; Leaf 1 2]]).
Proof. vm_compute. reflexivity. Qed.
(* content at x = 3 (old duration 6, target 4): the short voices are now active *)
Example ex_extend_content :
  at_ ex_sim 3 = Some (SN [SL 4]) /\
  (e1 <- extend_until true ex_sim 4 ; Ok (at_ e1 3)) =
     Ok (Some (SN [SL 5; SL rest_label; SN [SL 8; SL rest_label]; SL rest_label; SL 4])) /\
  at_ext 4 ex_sim 3 = Some (SN [SL 5; SL rest_label; SN [SL 8; SL rest_label]; SL rest_label; SL 4]).
Proof. vm_compute. repeat split. Qed.

Print Assumptions extend_seq_spec.
Print Assumptions extend_iff.
Print Assumptions extend_sim_spec.
Print Assumptions extend_sim_voices.
Print Assumptions extend_sim_spec_flat.
Print Assumptions extend_empty_sim.
Print Assumptions extend_dur.
Print Assumptions extend_idempotent.
Print Assumptions extend_content_full.
Print Assumptions extend_content.
Print Assumptions extend_total.
Print Assumptions extend_default_spec.
