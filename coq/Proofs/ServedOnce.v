(* How often the function of a bulk edit is called: a call counter per leaf object (the heap holds natural numbers, the
   edit is the successor) shows 1 on every distinct leaf below the container and 0 elsewhere - whatever the leaves hold,
   in particular when several leaves hold one and the same parameter object (it is then served once per leaf). *)
From Coq Require Import ZArith List Bool Lia.
From MV Require Import Base.Res Model.IdTree Proofs.IdTreeP.
Import ListNotations.

Theorem served_once_per_distinct_leaf : forall i k cs,
  consistent (INode i k cs) ->
  let calls := snd (apply_once_g nat S (INode i k cs) ([], fun _ => 0%nat)) in
  (forall j, In j (leaf_positions (INode i k cs)) -> calls j = 1%nat) /\
  (forall j, ~ In j (leaf_positions (INode i k cs)) -> calls j = 0%nat).
Proof.
  intros i k cs H. exact (apply_once_g_spec nat S i k cs (fun _ => 0%nat) H).
Qed.
Print Assumptions served_once_per_distinct_leaf.
