(* Basic structural lemmas about event trees used by all M1 proofs. *)
From Coq Require Import ZArith List Bool Lia ZifyBool.
From MV Require Import Base.Res Model.EventTree.
Import ListNotations.
Open Scope Z_scope.

Lemma dur_seq m cs : dur (Seq m cs) = dsum cs. Proof. reflexivity. Qed.
Lemma dur_sim m cs : dur (Sim m cs) = dmax cs. Proof. reflexivity. Qed.
Lemma wf_seq m cs : wf (Seq m cs) = wfs cs. Proof. reflexivity. Qed.
Lemma wf_sim m cs : wf (Sim m cs) = wfs cs. Proof. reflexivity. Qed.
Lemma at_seq_eq m cs t : at_ (Seq m cs) t = at_seq cs t. Proof. reflexivity. Qed.
Lemma at_sim_eq m cs t : at_ (Sim m cs) t = match at_sim t cs with [] => None | vs => Some (SN vs) end.
Proof. reflexivity. Qed.
Lemma dsum_cons c r : dsum (c :: r) = dur c + dsum r. Proof. reflexivity. Qed.
Lemma dmax_cons c r : dmax (c :: r) = Z.max (dur c) (dmax r). Proof. reflexivity. Qed.
Lemma wfs_cons c r : wfs (c :: r) = (wf c /\ wfs r). Proof. reflexivity. Qed.
Lemma at_seq_cons c r t : at_seq (c :: r) t = if (0 <=? t) && (t <? dur c) then at_ c t else at_seq r (t - dur c).
Proof. reflexivity. Qed.
Lemma at_sim_cons t c r : at_sim t (c :: r) = match at_ c t with Some s => s :: at_sim t r | None => at_sim t r end.
Proof. reflexivity. Qed.

Lemma dur_nonneg e : wf e -> 0 <= dur e.
Proof.
  induction e as [d l|m cs IH|m cs IH] using ev_ind'; simpl; intros H; [lia| |].
  - induction cs as [|c r IHr]; simpl in *; [lia|]. inversion IH as [|? ? Hc Hr]; subst. destruct H as [H1 H2].
    specialize (IHr Hr H2). specialize (Hc H1). lia.
  - induction cs as [|c r IHr]; simpl in *; [lia|]. inversion IH as [|? ? Hc Hr]; subst. destruct H as [H1 H2].
    specialize (IHr Hr H2). lia.
Qed.

Lemma dsum_nonneg l : wfs l -> 0 <= dsum l.
Proof. induction l as [|a l IH]; simpl; [lia|]. intros [H1 H2]. pose proof (dur_nonneg a H1). specialize (IH H2). lia. Qed.
Lemma dmax_nonneg l : 0 <= dmax l.
Proof. induction l as [|a l IH]; simpl; lia. Qed.

Lemma wfs_app a b : wfs (a ++ b) <-> wfs a /\ wfs b.
Proof. induction a as [|x a IH]; simpl; [tauto|]. rewrite IH. tauto. Qed.
Lemma dsum_app a b : dsum (a ++ b) = dsum a + dsum b.
Proof. induction a as [|x a IH]; simpl; [lia|]. rewrite IH. lia. Qed.
Lemma dmax_app a b : dmax (a ++ b) = Z.max (dmax a) (dmax b).
Proof. induction a as [|x a IH]; simpl; [pose proof (dmax_nonneg b); lia|]. rewrite IH. lia. Qed.

Lemma wfb_wf e : wfb e = true <-> wf e.
Proof.
  induction e as [d l|m cs IH|m cs IH] using ev_ind'; simpl.
  - lia.
  - induction cs as [|c r IHr]; simpl; [tauto|]. inversion IH as [|? ? Hc Hr]; subst.
    rewrite andb_true_iff, Hc, (IHr Hr). tauto.
  - induction cs as [|c r IHr]; simpl; [tauto|]. inversion IH as [|? ? Hc Hr]; subst.
    rewrite andb_true_iff, Hc, (IHr Hr). tauto.
Qed.

(* nothing is active outside [0, dur) *)
Lemma at_outside e t : wf e -> (t < 0 \/ dur e <= t) -> at_ e t = None.
Proof.
  revert t. induction e as [d l|m cs IH|m cs IH] using ev_ind'; intros t Hwf Ht.
  - simpl in *. destruct (0 <=? t) eqn:?, (t <? d) eqn:?; simpl; auto; lia.
  - rewrite at_seq_eq. rewrite wf_seq in Hwf. rewrite dur_seq in Ht.
    revert t Ht. induction cs as [|c r IHr]; intros t Ht; [reflexivity|].
    inversion IH as [|? ? Hc0 Hr0]; subst. destruct Hwf as [Hc Hr]. rewrite at_seq_cons.
    pose proof (dur_nonneg c Hc). pose proof (dsum_nonneg r Hr). rewrite dsum_cons in Ht.
    destruct ((0 <=? t) && (t <? dur c)) eqn:E.
    + apply Hc0; auto. lia.
    + apply IHr; auto. lia.
  - rewrite at_sim_eq. rewrite wf_sim in Hwf. rewrite dur_sim in Ht.
    assert (at_sim t cs = []) as ->; [|reflexivity].
    induction cs as [|c r IHr]; [reflexivity|]. inversion IH as [|? ? Hc0 Hr0]; subst. destruct Hwf as [Hc Hr].
    rewrite at_sim_cons. rewrite dmax_cons in Ht.
    rewrite Hc0; auto; [|lia]. apply IHr; auto. lia.
Qed.

Lemma at_seq_outside cs t : wfs cs -> (t < 0 \/ dsum cs <= t) -> at_seq cs t = None.
Proof. intros H Ht. rewrite <- (at_seq_eq meta0). apply at_outside; auto. Qed.
Lemma at_sim_outside cs t : wfs cs -> (t < 0 \/ dmax cs <= t) -> at_sim t cs = [].
Proof.
  intros H Ht. induction cs as [|c r IH]; [reflexivity|]. destruct H as [Hc Hr]. rewrite at_sim_cons.
  rewrite dmax_cons in Ht. rewrite at_outside; auto; [|lia]. apply IH; auto. lia.
Qed.

(* sequences are transparent: at over an append *)
Lemma at_seq_app a b t : wfs a -> wfs b ->
  at_seq (a ++ b) t = if t <? dsum a then at_seq a t else at_seq b (t - dsum a).
Proof.
  revert t. induction a as [|x a IH]; intros t Ha Hb; simpl app.
  - cbn [dsum]. destruct (t <? 0) eqn:E.
    + rewrite at_seq_outside; auto. lia.
    + f_equal. lia.
  - destruct Ha as [Hx Ha]. rewrite dsum_cons, !at_seq_cons. pose proof (dur_nonneg x Hx). pose proof (dsum_nonneg a Ha).
    destruct ((0 <=? t) && (t <? dur x)) eqn:E1.
    + destruct (t <? dur x + dsum a) eqn:E2; [reflexivity|lia].
    + rewrite IH; auto.
      destruct (t - dur x <? dsum a) eqn:E2; destruct (t <? dur x + dsum a) eqn:E3; try lia; try reflexivity.
      f_equal. lia.
Qed.

Lemma at_sim_app t a b : at_sim t (a ++ b) = at_sim t a ++ at_sim t b.
Proof. induction a as [|x a IH]; [reflexivity|]. simpl app. rewrite !at_sim_cons, IH. destruct (at_ x t); reflexivity. Qed.

Lemma at_seq_nil t : at_seq [] t = None. Proof. reflexivity. Qed.
Lemma at_sim_nil t : at_sim t [] = []. Proof. reflexivity. Qed.

(* start times *)
Lemma starts_from_length t0 cs : length (starts_from t0 cs) = length cs.
Proof. revert t0. induction cs as [|c r IH]; intros t0; simpl; [reflexivity|]. rewrite IH. reflexivity. Qed.
Lemma starts_from_app t0 a b : starts_from t0 (a ++ b) = starts_from t0 a ++ starts_from (t0 + dsum a) b.
Proof.
  revert t0. induction a as [|x a IH]; intros t0; simpl.
  - f_equal. lia.
  - rewrite IH. do 3 f_equal. lia.
Qed.
