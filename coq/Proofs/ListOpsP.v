(* List-like access: integer indices behave as for a Python list, slices with open / negative bounds are sublists,
   repetitions and sums are containers of the same kind with the same tag and tempo. *)
From Coq Require Import ZArith List Bool Lia.
From MV Require Import Base.Res Model.EventTree Model.TreeOps Model.ListOps Proofs.TreeLemmas.
Import ListNotations.
Open Scope Z_scope.

Definition meta_of (e : ev) : option meta := match e with Leaf _ _ => None | Seq m _ | Sim m _ => Some m end.
Definition kind_of (e : ev) : nat := match e with Leaf _ _ => 0%nat | Seq _ _ => 1%nat | Sim _ _ => 2%nat end.

Lemma with_children_kind e cs : kind_of (with_children e cs) = kind_of e.
Proof. destruct e; reflexivity. Qed.
Lemma with_children_meta e cs : meta_of (with_children e cs) = meta_of e.
Proof. destruct e; reflexivity. Qed.
Lemma with_children_children e cs : is_leaf e = false -> children (with_children e cs) = cs.
Proof. destruct e; cbn; intro H; [discriminate|reflexivity|reflexivity]. Qed.

(* ---- integer indices *)
Theorem norm_index_nonneg len i k : norm_index len i = Some k -> 0 <= i -> Z.of_nat k = i /\ i < len.
Proof.
  unfold norm_index. intros H Hi.
  destruct ((0 <=? i) && (i <? len)) eqn:E.
  - injection H as <-. split; lia.
  - destruct ((i <? 0) && (- len <=? i)) eqn:E2; [lia|discriminate].
Qed.
Theorem norm_index_negative len i k : norm_index len i = Some k -> i < 0 -> Z.of_nat k = len + i /\ - len <= i.
Proof.
  unfold norm_index. intros H Hi.
  destruct ((0 <=? i) && (i <? len)) eqn:E; [lia|].
  destruct ((i <? 0) && (- len <=? i)) eqn:E2; [|discriminate]. injection H as <-. split; lia.
Qed.
Theorem norm_index_error len i : norm_index len i = None <-> (i < - len \/ len <= i).
Proof.
  unfold norm_index.
  destruct ((0 <=? i) && (i <? len)) eqn:E; [split; [discriminate|lia]|].
  destruct ((i <? 0) && (- len <=? i)) eqn:E2; [split; [discriminate|lia]|]. split; [lia|reflexivity].
Qed.
Theorem norm_index_in_range len i k : norm_index len i = Some k -> (Z.of_nat k < len).
Proof.
  intro H. destruct (Z.lt_ge_cases i 0) as [Hn|Hp].
  - destruct (norm_index_negative _ _ _ H Hn). lia.
  - destruct (norm_index_nonneg _ _ _ H Hp). lia.
Qed.

Theorem get_int_spec e i : get_int e i =
  match norm_index (Z.of_nat (length (children e))) i with
  | Some k => Ok (nth k (children e) (Leaf 0 0))
  | None => Err EIndexError
  end.
Proof.
  unfold get_int. destruct (norm_index _ i) as [k|] eqn:E; [|reflexivity].
  pose proof (norm_index_in_range _ _ _ E) as H.
  destruct (nth_error (children e) k) as [c|] eqn:N.
  - f_equal. symmetry. apply nth_error_nth. exact N.
  - apply nth_error_None in N. lia.
Qed.

(* e[i] and e[i - len] are the same child *)
Theorem get_int_negative e i : 0 <= i < Z.of_nat (length (children e)) ->
  get_int e (i - Z.of_nat (length (children e))) = get_int e i.
Proof.
  intros H. unfold get_int, norm_index.
  replace ((0 <=? i) && (i <? Z.of_nat (length (children e)))) with true by lia.
  replace ((0 <=? i - Z.of_nat (length (children e))) && (i - Z.of_nat (length (children e)) <? Z.of_nat (length (children e)))) with false by lia.
  replace ((i - Z.of_nat (length (children e)) <? 0) && (- Z.of_nat (length (children e)) <=? i - Z.of_nat (length (children e)))) with true by lia.
  replace (Z.of_nat (length (children e)) + (i - Z.of_nat (length (children e)))) with i by lia. reflexivity.
Qed.

Theorem set_int_spec e i x e' : is_leaf e = false -> set_int e i x = Ok e' ->
  exists k, norm_index (Z.of_nat (length (children e))) i = Some k /\
            children e' = replace_at k x (children e) /\ kind_of e' = kind_of e /\ meta_of e' = meta_of e.
Proof.
  unfold set_int. intros L H. destruct (norm_index _ i) as [k|]; [|discriminate]. injection H as <-.
  exists k. split; [reflexivity|]. split; [apply with_children_children; exact L|].
  split; [apply with_children_kind|apply with_children_meta].
Qed.
Theorem set_then_get e i x e' : is_leaf e = false -> set_int e i x = Ok e' -> get_int e' i = Ok x.
Proof.
  intros L H. destruct (set_int_spec e i x e' L H) as (k & N & C & _ & _).
  unfold get_int. rewrite C.
  assert (Hlen : length (replace_at k x (children e)) = length (children e)).
  { pose proof (norm_index_in_range _ _ _ N) as R. unfold replace_at.
    rewrite app_length. cbn [length]. rewrite firstn_length, skipn_length. lia. }
  rewrite Hlen, N. unfold replace_at.
  pose proof (norm_index_in_range _ _ _ N) as R.
  rewrite nth_error_app2; rewrite firstn_length; [|lia].
  replace (k - Nat.min k (length (children e)))%nat with 0%nat by lia. reflexivity.
Qed.

Theorem del_int_spec e i e' : is_leaf e = false -> del_int e i = Ok e' ->
  exists k, norm_index (Z.of_nat (length (children e))) i = Some k /\
            children e' = firstn k (children e) ++ skipn (S k) (children e) /\
            length (children e') = pred (length (children e)) /\ kind_of e' = kind_of e /\ meta_of e' = meta_of e.
Proof.
  unfold del_int. intros L H. destruct (norm_index _ i) as [k|] eqn:N; [|discriminate]. injection H as <-.
  exists k. split; [reflexivity|]. rewrite (with_children_children _ _ L). split; [reflexivity|].
  pose proof (norm_index_in_range _ _ _ N) as R.
  split; [rewrite ?(with_children_children _ _ L); rewrite app_length, firstn_length;
          destruct (children e) as [|c0 cs0]; cbn [length] in *; [lia|rewrite skipn_length; lia]|].
  split; [apply with_children_kind|apply with_children_meta].
Qed.
Theorem index_error_iff e i : get_int e i = Err EIndexError <->
  (i < - Z.of_nat (length (children e)) \/ Z.of_nat (length (children e)) <= i).
Proof.
  rewrite get_int_spec. destruct (norm_index _ i) as [k|] eqn:N.
  - split; [discriminate|]. intro H. apply norm_index_error in H. congruence.
  - split; [intros _; apply norm_index_error; exact N|reflexivity].
Qed.

(* ---- slices with open and negative bounds *)
Theorem py_slice_keeps_meta e a b : kind_of (py_slice e a b) = kind_of e /\ meta_of (py_slice e a b) = meta_of e.
Proof. unfold py_slice. split; [apply with_children_kind|apply with_children_meta]. Qed.
Theorem py_slice_full e : is_leaf e = false -> children (py_slice e None None) = children e.
Proof.
  intro L. unfold py_slice, clamp_bound. rewrite (with_children_children _ _ L). unfold lslice.
  cbn [Z.to_nat skipn]. rewrite Nat2Z.id, Nat.sub_0_r. apply firstn_all.
Qed.
Theorem py_slice_nonneg e a b : is_leaf e = false -> 0 <= a -> 0 <= b ->
  children (py_slice e (Some a) (Some b)) =
  lslice (Z.to_nat (Z.min (Z.of_nat (length (children e))) a)) (Z.to_nat (Z.min (Z.of_nat (length (children e))) b)) (children e).
Proof.
  intros L Ha Hb. unfold py_slice, clamp_bound. rewrite (with_children_children _ _ L).
  replace (a <? 0) with false by lia. replace (b <? 0) with false by lia.
  rewrite !Z.max_r by lia. reflexivity.
Qed.
Theorem py_slice_negative_start e a : is_leaf e = false -> - Z.of_nat (length (children e)) <= a < 0 ->
  children (py_slice e (Some a) None) = skipn (Z.to_nat (Z.of_nat (length (children e)) + a)) (children e).
Proof.
  intros L Ha. unfold py_slice, clamp_bound. rewrite (with_children_children _ _ L).
  replace (a <? 0) with true by lia. rewrite Z.min_r, Z.max_r by lia. unfold lslice.
  rewrite Nat2Z.id. apply firstn_all2. rewrite skipn_length. lia.
Qed.

(* ---- repetition *)
Lemma rep_list_length {A} n (l : list A) : length (rep_list n l) = (n * length l)%nat.
Proof. induction n as [|n IH]; cbn [rep_list]; [reflexivity|]. rewrite app_length, IH. lia. Qed.
Lemma dsum_rep n l : dsum (rep_list n l) = Z.of_nat n * dsum l.
Proof. induction n as [|n IH]; cbn [rep_list]; [reflexivity|]. rewrite dsum_app, IH. lia. Qed.
Lemma rep_list_nth {A} (d : A) n l k : (k < n * length l)%nat -> l <> [] ->
  nth k (rep_list n l) d = nth (k mod length l) l d.
Proof.
  revert k. induction n as [|n IH]; intros k Hk Hl; [lia|]. cbn [rep_list].
  assert (Hlen : (0 < length l)%nat) by (destruct l; [congruence|cbn; lia]).
  destruct (Nat.lt_ge_cases k (length l)) as [H|H].
  - rewrite app_nth1 by exact H. rewrite Nat.mod_small by exact H. reflexivity.
  - rewrite app_nth2 by exact H. rewrite IH; [|lia|exact Hl].
    f_equal. replace k with ((k - length l) + 1 * length l)%nat at 2 by lia.
    rewrite Nat.mod_add by lia. reflexivity.
Qed.

Theorem mul_keeps_kind_tag_tempo e n : kind_of (ev_mul e n) = kind_of e /\ meta_of (ev_mul e n) = meta_of e.
Proof. unfold ev_mul. split; [apply with_children_kind|apply with_children_meta]. Qed.
Theorem mul_children e n : is_leaf e = false -> children (ev_mul e n) = rep_list (Z.to_nat n) (children e).
Proof. intro L. unfold ev_mul. apply with_children_children. exact L. Qed.
Theorem mul_child e n k : is_leaf e = false -> children e <> [] -> (k < Z.to_nat n * length (children e))%nat ->
  nth k (children (ev_mul e n)) (Leaf 0 0) = nth (k mod length (children e)) (children e) (Leaf 0 0).
Proof. intros L Hne Hk. rewrite (mul_children _ _ L). apply rep_list_nth; assumption. Qed.
Theorem mul_nonpositive_is_empty e n : is_leaf e = false -> n <= 0 -> children (ev_mul e n) = [].
Proof. intros L Hn. rewrite (mul_children _ _ L). replace (Z.to_nat n) with 0%nat by lia. reflexivity. Qed.
Theorem mul_sequence_duration m cs n : 0 <= n -> dur (ev_mul (Seq m cs) n) = n * dur (Seq m cs).
Proof. intro Hn. unfold ev_mul. cbn [with_children children]. rewrite !dur_seq, dsum_rep, Z2Nat.id by lia. reflexivity. Qed.

(* ---- the generic sum *)
Theorem generic_add_spec e other e' : generic_add e other = Ok e' ->
  children e' = children e ++ children other /\ kind_of e' = kind_of e /\ meta_of e' = meta_of e.
Proof.
  destruct e as [d l|m cs|m cs]; cbn [generic_add]; intro H; [discriminate| |]; injection H as <-; repeat split.
Qed.

Print Assumptions get_int_spec.
Print Assumptions set_then_get.
Print Assumptions del_int_spec.
Print Assumptions index_error_iff.
Print Assumptions py_slice_negative_start.
Print Assumptions mul_child.
Print Assumptions mul_sequence_duration.
Print Assumptions generic_add_spec.
