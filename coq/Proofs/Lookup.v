(* Lookup of the child active at a time inside a sequence:
   start times (absolute_time_tuple), ranges (start_and_end_time_per_event), get_event_index_at. *)
From Coq Require Import ZArith List Bool Lia ZifyBool.
From MV Require Import Base.Res Model.EventTree Proofs.TreeLemmas.
Import ListNotations.
Open Scope Z_scope.

(* ---------------------------------------------------------------- partial sums *)
Lemma firstn_cons_S {A} n (x : A) l : firstn (S n) (x :: l) = x :: firstn n l.
Proof. reflexivity. Qed.
Lemma dsum_nil : dsum [] = 0. Proof. reflexivity. Qed.

Lemma dsum_firstn_nonneg : forall cs i, wfs cs -> 0 <= dsum (firstn i cs).
Proof.
  induction cs as [|x r IH]; intros i Hwf.
  - destruct i; cbn [firstn]; rewrite dsum_nil; lia.
  - destruct Hwf as [Hx Hr]. destruct i as [|i].
    + cbn [firstn]. rewrite dsum_nil. lia.
    + rewrite firstn_cons_S, dsum_cons. pose proof (dur_nonneg x Hx). pose proof (IH i Hr). lia.
Qed.

Lemma dsum_firstn_le : forall cs i, wfs cs -> dsum (firstn i cs) <= dsum cs.
Proof.
  induction cs as [|x r IH]; intros i Hwf.
  - destruct i; cbn [firstn]; lia.
  - destruct Hwf as [Hx Hr]. destruct i as [|i].
    + cbn [firstn]. rewrite dsum_nil, dsum_cons. pose proof (dur_nonneg x Hx). pose proof (dsum_nonneg r Hr). lia.
    + rewrite firstn_cons_S, !dsum_cons. pose proof (IH i Hr). lia.
Qed.

(* monotonicity of the partial sums when no duration is negative *)
Lemma dsum_firstn_mono : forall cs i j, wfs cs -> (i <= j)%nat -> dsum (firstn i cs) <= dsum (firstn j cs).
Proof.
  induction cs as [|x r IH]; intros i j Hwf Hij.
  - destruct i, j; cbn [firstn]; lia.
  - destruct Hwf as [Hx Hr]. destruct i as [|i].
    + cbn [firstn]. rewrite dsum_nil. apply dsum_firstn_nonneg. split; assumption.
    + destruct j as [|j]; [lia|]. rewrite !firstn_cons_S, !dsum_cons.
      assert (Hij' : (i <= j)%nat) by lia. pose proof (IH i j Hr Hij'). lia.
Qed.

Lemma dsum_firstn_S : forall cs i c, nth_error cs i = Some c ->
  dsum (firstn (S i) cs) = dsum (firstn i cs) + dur c.
Proof.
  induction cs as [|x r IH]; intros i c H.
  - destruct i; discriminate.
  - destruct i as [|i].
    + cbn [nth_error] in H. inversion H; subst. cbn [firstn]. rewrite dsum_cons, !dsum_nil. lia.
    + cbn [nth_error] in H. rewrite (firstn_cons_S (S i)), (firstn_cons_S i), !dsum_cons, (IH i c H). lia.
Qed.

(* ---------------------------------------------------------------- starts *)
Theorem starts_length : forall cs, length (starts cs) = length cs.
Proof. intros cs. apply starts_from_length. Qed.

Lemma starts_from_nth : forall cs t0 i, (i < length cs)%nat ->
  nth_error (starts_from t0 cs) i = Some (t0 + dsum (firstn i cs)).
Proof.
  induction cs as [|x r IH]; intros t0 i Hi.
  - cbn [length] in Hi. lia.
  - cbn [starts_from]. destruct i as [|i].
    + cbn [nth_error firstn]. rewrite dsum_nil. f_equal. lia.
    + cbn [nth_error]. cbn [length] in Hi. rewrite IH by lia. rewrite firstn_cons_S, dsum_cons. f_equal. lia.
Qed.

Theorem starts_nth : forall cs i, (i < length cs)%nat -> nth_error (starts cs) i = Some (dsum (firstn i cs)).
Proof. intros cs i Hi. unfold starts. rewrite starts_from_nth by assumption. f_equal. Qed.

(* ---------------------------------------------------------------- ranges *)
Lemma ranges_from_length : forall cs t0, length (ranges_from t0 cs) = length cs.
Proof. induction cs as [|x r IH]; intros t0; cbn [ranges_from length]; [reflexivity|]. rewrite IH. reflexivity. Qed.

Theorem ranges_length : forall cs, length (ranges cs) = length cs.
Proof. intros cs. apply ranges_from_length. Qed.

Lemma ranges_from_nth : forall cs t0 i c, nth_error cs i = Some c ->
  nth_error (ranges_from t0 cs) i = Some (t0 + dsum (firstn i cs), t0 + dsum (firstn i cs) + dur c).
Proof.
  induction cs as [|x r IH]; intros t0 i c H.
  - destruct i; discriminate.
  - cbn [ranges_from]. destruct i as [|i].
    + cbn [nth_error] in *. inversion H; subst. cbn [firstn]. rewrite dsum_nil. do 2 f_equal; lia.
    + cbn [nth_error] in *. rewrite (IH _ _ _ H). rewrite firstn_cons_S, dsum_cons. do 2 f_equal; lia.
Qed.

Theorem ranges_nth : forall cs i c, nth_error cs i = Some c ->
  nth_error (ranges cs) i = Some (dsum (firstn i cs), dsum (firstn i cs) + dur c).
Proof. intros cs i c H. unfold ranges. rewrite (ranges_from_nth cs 0 i c H). reflexivity. Qed.

(* the ranges tile [a, b): each starts where the previous one ended *)
Inductive tiles : Z -> Z -> list (Z * Z) -> Prop :=
| tiles_nil a : tiles a a []
| tiles_cons a x b r : tiles x b r -> tiles a b ((a, x) :: r).

Lemma ranges_from_tile : forall cs t0, tiles t0 (t0 + dsum cs) (ranges_from t0 cs).
Proof.
  induction cs as [|x r IH]; intros t0.
  - rewrite dsum_nil, Z.add_0_r. constructor.
  - cbn [ranges_from]. rewrite dsum_cons, Z.add_assoc. constructor. apply IH.
Qed.

Theorem ranges_tile : forall cs, tiles 0 (dsum cs) (ranges cs).
Proof. intros cs. exact (ranges_from_tile cs 0). Qed.

(* ---------------------------------------------------------------- lookup *)
Lemma bisect_right_lt_head t0 cs t : t < t0 -> bisect_right (starts_from t0 cs) t = 0%nat.
Proof.
  intros H. destruct cs as [|x r]; [reflexivity|]. cbn [starts_from bisect_right].
  destruct (t0 <=? t) eqn:E; [lia|reflexivity].
Qed.

(* generalisation over the running start t0 *)
Lemma bisect_starts_from : forall cs t0 t, wfs cs -> t0 <= t < t0 + dsum cs ->
  exists i c, bisect_right (starts_from t0 cs) t = S i /\ nth_error cs i = Some c /\
              t0 + dsum (firstn i cs) <= t < t0 + dsum (firstn i cs) + dur c.
Proof.
  induction cs as [|x r IH]; intros t0 t Hwf Ht.
  - rewrite dsum_nil in Ht. lia.
  - destruct Hwf as [Hx Hr]. rewrite dsum_cons in Ht. pose proof (dur_nonneg x Hx) as Hd.
    cbn [starts_from bisect_right]. destruct (t0 <=? t) eqn:E; [|lia].
    destruct (t <? t0 + dur x) eqn:E1.
    + exists 0%nat, x. rewrite bisect_right_lt_head by lia. cbn [firstn nth_error]. rewrite dsum_nil.
      split; [reflexivity|]. split; [reflexivity|lia].
    + assert (Ht' : t0 + dur x <= t < t0 + dur x + dsum r) by lia.
      destruct (IH (t0 + dur x) t Hr Ht') as (i & c & Hb & Hn & Hrange).
      exists (S i), c. rewrite Hb. cbn [nth_error]. rewrite firstn_cons_S, dsum_cons.
      split; [reflexivity|]. split; [exact Hn|lia].
Qed.

(* half-open ranges of different children never overlap *)
Theorem index_at_unique : forall cs t i j c c', wfs cs ->
  nth_error cs i = Some c -> nth_error cs j = Some c' ->
  dsum (firstn i cs) <= t < dsum (firstn i cs) + dur c ->
  dsum (firstn j cs) <= t < dsum (firstn j cs) + dur c' -> i = j.
Proof.
  intros cs t i j c c' Hwf Hi Hj Ri Rj.
  pose proof (dsum_firstn_S cs i c Hi) as Si. pose proof (dsum_firstn_S cs j c' Hj) as Sj.
  destruct (Nat.lt_trichotomy i j) as [L|[L|L]]; [|exact L|].
  - assert (L' : (S i <= j)%nat) by lia. pose proof (dsum_firstn_mono cs (S i) j Hwf L'). lia.
  - assert (L' : (S j <= i)%nat) by lia. pose proof (dsum_firstn_mono cs (S j) i Hwf L'). lia.
Qed.

Lemma range_inside cs t i c : wfs cs -> nth_error cs i = Some c ->
  dsum (firstn i cs) <= t < dsum (firstn i cs) + dur c -> 0 <= t < dsum cs.
Proof.
  intros Hwf Hi R. pose proof (dsum_firstn_nonneg cs i Hwf). pose proof (dsum_firstn_S cs i c Hi).
  pose proof (dsum_firstn_le cs (S i) Hwf). lia.
Qed.

(* the lookup returns exactly the child whose half-open range contains t *)
Theorem index_at_spec : forall cs t i, wfs cs ->
  (index_at cs t = Some i <->
   exists c, nth_error cs i = Some c /\ dsum (firstn i cs) <= t < dsum (firstn i cs) + dur c).
Proof.
  intros cs t i Hwf. unfold index_at, index_at_from, starts. split.
  - intros H. destruct ((t <? dsum cs) && (0 <=? t)) eqn:E; [|discriminate].
    assert (Ht : 0 <= t < 0 + dsum cs) by lia.
    destruct (bisect_starts_from cs 0 t Hwf Ht) as (k & c & Hb & Hn & Hr).
    rewrite Hb in H. cbn [Nat.pred] in H. inversion H; subst k. exists c. split; [exact Hn|lia].
  - intros (c & Hn & Hr). pose proof (range_inside cs t i c Hwf Hn Hr) as Hin.
    assert (Ht : 0 <= t < 0 + dsum cs) by lia.
    destruct (bisect_starts_from cs 0 t Hwf Ht) as (k & c' & Hb & Hn' & Hr').
    assert (Hr'' : dsum (firstn k cs) <= t < dsum (firstn k cs) + dur c') by lia.
    pose proof (index_at_unique cs t i k c c' Hwf Hn Hn' Hr Hr'') as ->.
    destruct ((t <? dsum cs) && (0 <=? t)) eqn:E; [|lia]. rewrite Hb. reflexivity.
Qed.

Theorem index_at_none_outside : forall cs t, wfs cs -> (t < 0 \/ dsum cs <= t) -> index_at cs t = None.
Proof.
  intros cs t _ Ht. unfold index_at, index_at_from.
  destruct ((t <? dsum cs) && (0 <=? t)) eqn:E; [lia|reflexivity].
Qed.

Theorem index_at_some_inside : forall cs t, wfs cs -> 0 <= t < dsum cs -> exists i, index_at cs t = Some i.
Proof.
  intros cs t _ Ht. unfold index_at, index_at_from.
  destruct ((t <? dsum cs) && (0 <=? t)) eqn:E; [|lia]. eexists. reflexivity.
Qed.

Theorem index_at_never_zero_length : forall cs t i c, wfs cs ->
  index_at cs t = Some i -> nth_error cs i = Some c -> 0 < dur c.
Proof.
  intros cs t i c Hwf H Hn. apply (index_at_spec cs t i Hwf) in H. destruct H as (c0 & Hn0 & Hr).
  rewrite Hn in Hn0. inversion Hn0; subst c0. lia.
Qed.

(* ---------------------------------------------------------------- link with the denotation *)
Lemma at_seq_nth : forall cs t i c, wfs cs -> nth_error cs i = Some c ->
  dsum (firstn i cs) <= t < dsum (firstn i cs) + dur c ->
  at_seq cs t = at_ c (t - dsum (firstn i cs)).
Proof.
  induction cs as [|x r IH]; intros t i c Hwf Hn Hr.
  - destruct i; discriminate.
  - destruct Hwf as [Hx Hwr]. rewrite at_seq_cons. destruct i as [|i].
    + cbn [nth_error] in Hn. inversion Hn; subst x. cbn [firstn] in *. rewrite dsum_nil in *.
      destruct ((0 <=? t) && (t <? dur c)) eqn:E; [|lia]. f_equal. lia.
    + cbn [nth_error] in Hn. rewrite firstn_cons_S, dsum_cons in *.
      pose proof (dsum_firstn_nonneg r i Hwr) as Hnn. pose proof (dur_nonneg x Hx) as Hd.
      destruct ((0 <=? t) && (t <? dur x)) eqn:E; [lia|].
      assert (Hr' : dsum (firstn i r) <= t - dur x < dsum (firstn i r) + dur c) by lia.
      rewrite (IH (t - dur x) i c Hwr Hn Hr'). f_equal. lia.
Qed.

Theorem at_seq_index : forall cs t, wfs cs ->
  at_seq cs t = match index_at cs t with
                | Some i => match nth_error cs i with
                            | Some c => at_ c (t - dsum (firstn i cs))
                            | None => None
                            end
                | None => None
                end.
Proof.
  intros cs t Hwf. destruct (index_at cs t) as [i|] eqn:E.
  - apply (index_at_spec cs t i Hwf) in E. destruct E as (c & Hn & Hr). rewrite Hn.
    apply at_seq_nth; assumption.
  - apply at_seq_outside; [assumption|]. unfold index_at, index_at_from in E.
    destruct ((t <? dsum cs) && (0 <=? t)) eqn:E1; [discriminate|lia].
Qed.

(* ---------------------------------------------------------------- example *)
(* nested children with durations 2, 0, 3, 0, 1: starts 0, 2, 2, 5, 5; duration 6 *)
Definition ex_cs : list ev :=
  [ Leaf 2 1;
    Seq meta0 [];
    Sim meta0 [Leaf 3 2; Seq meta0 [Leaf 1 3; Leaf 0 7; Leaf 1 4]];
    Leaf 0 5;
    Leaf 1 6 ].

Example ex_cs_wfs : wfs ex_cs.
Proof. apply (wfb_wf (Seq meta0 ex_cs)). vm_compute. reflexivity. Qed.

Example ex_starts_ranges :
  starts ex_cs = [0; 2; 2; 5; 5] /\ ranges ex_cs = [(0, 2); (2, 2); (2, 5); (5, 5); (5, 6)] /\ dsum ex_cs = 6.
Proof. vm_compute. repeat split. Qed.

(* at t = 2 (start of the zero-length child 1) the following non-zero child 2 is returned;
   at t = 5 (start of the zero-length child 3) child 4 is returned *)
Example ex_index_at :
  map (index_at ex_cs) [-1; 0; 1; 2; 3; 4; 5; 6; 7] =
  [None; Some 0%nat; Some 0%nat; Some 2%nat; Some 2%nat; Some 2%nat; Some 4%nat; None; None].
Proof. vm_compute. reflexivity. Qed.

Example ex_at_seq_index :
  map (at_seq ex_cs) [0; 2; 3; 5; 6] =
  [Some (SL 1); Some (SN [SL 2; SL 3]); Some (SN [SL 2; SL 4]); Some (SL 6); None].
Proof. vm_compute. reflexivity. Qed.

Print Assumptions index_at_spec.
Print Assumptions at_seq_index.
