(* The step model is independent of the subdivision: the seconds of the beats [x, b) are those of [x, m) plus those of
   [m, b) for every m in between - whatever tempo changes of whatever level lie inside.  (The clause of C07 for nested
   step trajectories; the seeded change C13-5 broke exactly this.) *)
From Coquelicot Require Import Coquelicot.
From Coq Require Import ZArith List Bool Reals Lra Lia ZifyBool.
From MV Require Import Base.Res Model.EventTree Model.TreeOps Model.Num Model.Envelope Model.Convert Model.MetrizeSteps
  Proofs.RNum Proofs.Resample Proofs.ConvertP Proofs.MetrizeStepsP.
Import ListNotations.
Local Open Scope Z_scope.

(* ---------------------------------------------------------------- the next tempo change, abstractly *)
Definition nxt (L : list Z) (x b : Z) : Z :=
  fold_left (fun acc y => if (x <? y) && (y <? acc) then y else acc) L b.
Definition bps (c : sctxR) : list Z := flat_map (fun es => map (Z.add (snd es)) (pstarts R (fst es))) c.

Lemma nxt_app L1 L2 x b : nxt (L1 ++ L2) x b = nxt L2 x (nxt L1 x b).
Proof. unfold nxt. apply fold_left_app. Qed.

Lemma next_in_nxt (e : envR) s x : forall b, next_in R e s x b = nxt (map (Z.add s) (pstarts R e)) x b.
Proof.
  unfold next_in, nxt. generalize (pstarts R e). intro l. induction l as [|t r IH]; intro b; [reflexivity|].
  cbn [map fold_left]. apply IH.
Qed.
Lemma next_bp_nxt (c : sctxR) x : forall b, next_bp R c x b = nxt (bps c) x b.
Proof.
  induction c as [|[e s] r IH]; intro b; [reflexivity|].
  unfold next_bp. cbn [fold_left fst snd bps flat_map]. rewrite nxt_app, <- next_in_nxt. apply IH.
Qed.

Lemma nxt_spec L x : forall b, x < b ->
  x < nxt L x b <= b /\ (nxt L x b = b \/ In (nxt L x b) L) /\ (forall y, In y L -> x < y -> y < b -> nxt L x b <= y).
Proof.
  induction L as [|y0 L IH]; intros b Hb; cbn [nxt fold_left].
  - split; [lia|]. split; [left; reflexivity|]. intros y [].
  - fold (nxt L x (if (x <? y0) && (y0 <? b) then y0 else b)).
    set (b' := if (x <? y0) && (y0 <? b) then y0 else b).
    assert (Hb' : x < b' <= b) by (unfold b'; destruct (Z.ltb_spec x y0), (Z.ltb_spec y0 b); cbn [andb]; lia).
    destruct (IH b' ltac:(lia)) as (H1 & H2 & H3).
    split; [lia|]. split.
    + destruct H2 as [H2|H2]; [|right; right; exact H2]. rewrite H2. unfold b'.
      destruct (Z.ltb_spec x y0), (Z.ltb_spec y0 b); cbn [andb]; auto. right. left. reflexivity.
    + intros y [<-|Hy] Hxy Hyb.
      * assert (b' = y0) by (unfold b'; destruct (Z.ltb_spec x y0), (Z.ltb_spec y0 b); cbn [andb]; lia). lia.
      * destruct (Z.lt_ge_cases y b') as [Hlt|Hge]; [apply H3; assumption|lia].
Qed.

Lemma nxt_unique L x b r : x < b -> x < r <= b -> (r = b \/ In r L) ->
  (forall y, In y L -> x < y -> y < b -> r <= y) -> r = nxt L x b.
Proof.
  intros Hb Hr Hin Hmin. destruct (nxt_spec L x b Hb) as (H1 & H2 & H3).
  assert (A : nxt L x b <= r).
  { destruct Hin as [->|Hin]; [lia|]. destruct (Z.eq_dec r b) as [->|N]; [lia|]. apply H3; [exact Hin|lia|lia]. }
  assert (B : r <= nxt L x b).
  { destruct H2 as [H2|H2]; [lia|]. destruct (Z.eq_dec (nxt L x b) b) as [E|N]; [lia|]. apply Hmin; [exact H2|lia|lia]. }
  lia.
Qed.

(* ---------------------------------------------------------------- step curves between two changes *)
Lemma step_value_go_const (e : envR) t t' : forall t0 cur, t <= t' ->
  (forall ti, In ti (pstarts_from R t0 e) -> t < ti -> ti <= t' -> False) ->
  step_value_go R t0 cur e t' = step_value_go R t0 cur e t.
Proof.
  induction e as [|p r IH]; intros t0 cur Ht H; [reflexivity|].
  cbn [step_value_go]. cbn [pstarts_from] in H.
  destruct (Z.leb_spec t0 t) as [A|A].
  - destruct (Z.leb_spec t0 t'); [|lia]. apply IH; [exact Ht|]. intros ti Hi. apply H. right. exact Hi.
  - destruct (Z.leb_spec t0 t') as [B|B]; [|reflexivity]. exfalso. apply (H t0); [left; reflexivity|lia|lia].
Qed.
Lemma step_value_const (e : envR) t t' : t <= t' ->
  (forall ti, In ti (pstarts R e) -> t < ti -> ti <= t' -> False) -> step_value R RNum e t' = step_value R RNum e t.
Proof. intros Ht H. destruct e as [|p r]; [reflexivity|]. unfold step_value. apply step_value_go_const; assumption. Qed.

Lemma in_bps (c : sctxR) e s ti : In (e, s) c -> In ti (pstarts R e) -> In (s + ti) (bps c).
Proof.
  intros Hc Hi. unfold bps. apply in_flat_map. exists (e, s). split; [exact Hc|]. cbn [fst snd]. apply in_map. exact Hi.
Qed.

Lemma prod_at_const (c : sctxR) x x' : x <= x' ->
  (forall y, In y (bps c) -> x < y -> y <= x' -> False) -> prod_at R RNum c x' = prod_at R RNum c x.
Proof.
  intros Hx H. induction c as [|[e s] r IH]; [reflexivity|].
  rewrite !prod_at_cons. rewrite IH.
  - f_equal. apply step_value_const; [lia|]. intros ti Hi A B.
    apply (H (s + ti)); [apply (in_bps ((e, s) :: r) e s ti); [left; reflexivity|exact Hi]|lia|lia].
  - intros y Hy. apply H. unfold bps in *. cbn [flat_map]. apply in_or_app. right. exact Hy.
Qed.

(* ---------------------------------------------------------------- fuel *)
Definition cnt (L : list Z) (x b : Z) : nat := length (filter (fun y => (x <? y) && (y <? b)) L).

Lemma filter_le {A} (p q : A -> bool) l : (forall a, In a l -> p a = true -> q a = true) ->
  (length (filter p l) <= length (filter q l))%nat.
Proof.
  induction l as [|a l IH]; intro H; [reflexivity|]. cbn [filter].
  assert (IH' := IH (fun a0 Ha => H a0 (or_intror Ha))).
  destruct (p a) eqn:P; [rewrite (H a (or_introl eq_refl) P); cbn [length]; lia|].
  destruct (q a); cbn [length]; lia.
Qed.
Lemma filter_lt {A} (p q : A -> bool) l a0 : (forall a, In a l -> p a = true -> q a = true) ->
  In a0 l -> p a0 = false -> q a0 = true -> (length (filter p l) < length (filter q l))%nat.
Proof.
  induction l as [|a l IH]; intros H Hin P0 Q0; [destruct Hin|]. cbn [filter].
  destruct Hin as [->|Hin].
  - rewrite P0, Q0. cbn [length]. pose proof (filter_le p q l (fun a Ha => H a (or_intror Ha))). lia.
  - assert (IH' := IH (fun a1 Ha => H a1 (or_intror Ha)) Hin P0 Q0).
    destruct (p a) eqn:P; [rewrite (H a (or_introl eq_refl) P); cbn [length]; lia|].
    destruct (q a); cbn [length]; lia.
Qed.

Lemma btw x y b : (x <? y) && (y <? b) = true <-> x < y < b.
Proof. rewrite andb_true_iff, !Z.ltb_lt. reflexivity. Qed.
Lemma nbtw x y b : (x <? y) && (y <? b) = false <-> ~ (x < y < b).
Proof. rewrite <- btw. destruct ((x <? y) && (y <? b)); split; congruence. Qed.

Lemma cnt_mono L x x' b b' : x <= x' -> b' <= b -> (cnt L x' b' <= cnt L x b)%nat.
Proof. intros Hx Hb. unfold cnt. apply filter_le. intros a _ H. cbv beta in *. apply btw. apply btw in H. lia. Qed.
Lemma cnt_next L x b : x < b -> nxt L x b < b -> (cnt L (nxt L x b) b < cnt L x b)%nat.
Proof.
  intros Hb Hn. destruct (nxt_spec L x b Hb) as (H1 & H2 & _). destruct H2 as [H2|H2]; [lia|].
  unfold cnt. apply (filter_lt _ _ L (nxt L x b)); [intros a _ H; cbv beta in *; apply btw; apply btw in H; lia|exact H2|cbv beta; apply nbtw; lia|cbv beta; apply btw; lia].
Qed.

Lemma integ_fuel_mono (c : sctxR) b : forall f x, (cnt (bps c) x b < f)%nat ->
  integ_steps R RNum (S f) c x b = integ_steps R RNum f c x b.
Proof.
  induction f as [|f IH]; intros x H; [lia|].
  destruct (Z.le_gt_cases b x) as [Hx|Hx]; [rewrite !integ_zero by lia; reflexivity|].
  rewrite (integ_steps_first_piece (S f) c x b) by lia. rewrite (integ_steps_first_piece f c x b) by lia. f_equal.
  rewrite next_bp_nxt. destruct (Z.eq_dec (nxt (bps c) x b) b) as [E|N].
  - rewrite E, !integ_zero by lia. reflexivity.
  - apply IH. destruct (nxt_spec (bps c) x b ltac:(lia)) as (H1 & _). pose proof (cnt_next (bps c) x b ltac:(lia) ltac:(lia)). lia.
Qed.

(* ---------------------------------------------------------------- additivity *)
Lemma integ_additive_fuel (c : sctxR) m b : forall f x, (cnt (bps c) x b < f)%nat -> x <= m <= b ->
  integ_steps R RNum f c x b = (integ_steps R RNum f c x m + integ_steps R RNum f c m b)%R.
Proof.
  set (L := bps c).
  induction f as [|f IH]; intros x Hf Hm; [lia|].
  destruct (Z.le_gt_cases b x) as [Hx|Hx].
  { rewrite !integ_zero by lia. ring. }
  destruct (Z.eq_dec m x) as [->|Nm].
  { rewrite (integ_zero _ c x x) by lia. ring. }
  assert (Hxm : x < m) by lia.
  destruct (nxt_spec L x b ltac:(lia)) as (H1 & H2 & H3).
  rewrite (integ_steps_first_piece f c x b) by lia. rewrite (integ_steps_first_piece f c x m) by lia.
  rewrite !next_bp_nxt. fold L.
  destruct (Z.le_gt_cases m (nxt L x b)) as [Hle|Hgt].
  - (* m lies in the first stretch *)
    assert (E1 : nxt L x m = m).
    { symmetry. apply nxt_unique; [lia|lia|left; reflexivity|].
      intros y Hy A B. pose proof (H3 y Hy A ltac:(lia)). lia. }
    rewrite E1, (integ_zero f c m m) by lia.
    destruct (Z.eq_dec m b) as [->|Nb].
    + assert (nxt L x b = b) by lia. rewrite H, !integ_zero by lia. ring.
    + destruct (Z.eq_dec m (nxt L x b)) as [Em|Nn].
      * rewrite <- Em. rewrite (integ_fuel_mono c b f m).
        -- ring.
        -- rewrite Em. pose proof (cnt_next L x b ltac:(lia) ltac:(lia)). fold L. lia.
      * rewrite (integ_steps_first_piece f c m b) by lia. rewrite next_bp_nxt. fold L.
        assert (E2 : nxt L m b = nxt L x b).
        { symmetry. apply nxt_unique; [lia|lia|exact H2|]. intros y Hy A B. apply H3; [exact Hy|lia|exact B]. }
        rewrite E2.
        rewrite (prod_at_const c x m) by (try lia; intros y Hy A B; pose proof (H3 y Hy A ltac:(lia)); lia).
        replace (nxt L x b - x) with ((m - x) + (nxt L x b - m)) by lia. rewrite tofR_plus. ring.
  - (* the first change lies before m *)
    assert (E1 : nxt L x m = nxt L x b).
    { symmetry. apply nxt_unique; [lia|lia| |].
      - right. destruct H2 as [H2|H2]; [lia|exact H2].
      - intros y Hy A B. apply H3; [exact Hy|exact A|lia]. }
    rewrite E1.
    assert (Hc : (cnt L (nxt L x b) b < f)%nat) by (pose proof (cnt_next L x b ltac:(lia) ltac:(lia)); lia).
    rewrite (IH (nxt L x b) Hc ltac:(lia)).
    rewrite (integ_fuel_mono c b f m).
    + ring.
    + pose proof (cnt_mono L (nxt L x b) m b b ltac:(lia) ltac:(lia)). fold L. lia.
Qed.

(* the fuel the model gives itself is enough for every stretch *)
Lemma bps_length (c : sctxR) : length (bps c) = fold_left (fun acc es => (acc + length (fst es))%nat) c 0%nat.
Proof.
  assert (G : forall c n, fold_left (fun acc es => (acc + length (fst es))%nat) c n = (n + length (bps c))%nat).
  { induction c0 as [|[e s] r IH]; intro n; cbn [fold_left bps flat_map fst snd]; [cbn [length]; lia|].
    rewrite IH. fold (bps r). rewrite app_length, map_length. unfold pstarts.
    assert (P : forall (l : envR) t0, length (pstarts_from R t0 l) = length l) by (induction l; intro; cbn; auto).
    rewrite P. lia. }
  rewrite G. reflexivity.
Qed.
Lemma fuel_enough (c : sctxR) x b : (cnt (bps c) x b < fuel_of R c)%nat.
Proof.
  unfold fuel_of. rewrite <- bps_length. unfold cnt.
  assert (H : forall (p : Z -> bool) l, (length (filter p l) <= length l)%nat).
  { intros p l. induction l as [|a l IH]; cbn [filter length]; [lia|]. destruct (p a); cbn [length]; lia. }
  pose proof (H (fun y => (x <? y) && (y <? b)) (bps c)). lia.
Qed.

(* a leaf divided at any time m lasts what its two parts last together *)
Theorem integ_steps_additive (c : sctxR) x m b : x <= m <= b ->
  integ_steps R RNum (fuel_of R c) c x b =
  (integ_steps R RNum (fuel_of R c) c x m + integ_steps R RNum (fuel_of R c) c m b)%R.
Proof. intro H. apply integ_additive_fuel; [apply fuel_enough|exact H]. Qed.

Print Assumptions integ_steps_additive.

(* at the level of events: under any stack of step trajectories, a leaf of d1 + d2 beats lasts what a sequence of a leaf of
   d1 beats and a leaf of d2 beats at the same place lasts in total (all three carrying the neutral tempo) *)
Theorem leaf_subdivision (fac : R) (c : sctxR) t d1 d2 : 0 <= d1 -> 0 <= d2 ->
  exists a b whole,
    metrize_steps_go R RNum fac c t (TSeq (TConst 60%R) [TLeaf d1 (TConst 60%R); TLeaf d2 (TConst 60%R)]) = Ok [a; b] /\
    metrize_steps_go R RNum fac c t (TLeaf (d1 + d2) (TConst 60%R)) = Ok [whole] /\ whole = (a + b)%R.
Proof.
  intros H1 H2. cbn [metrize_steps_go enter_s bind app tdur].
  change (nmul RNum) with Rmult. change (ndiv RNum) with Rdiv. change (n60 R RNum) with 60%R.
  do 3 eexists. split; [reflexivity|]. split; [reflexivity|].
  rewrite (integ_steps_additive c t (t + d1) (t + (d1 + d2))) by lia.
  replace (t + d1 + d2) with (t + (d1 + d2)) by lia. field.
Qed.
Print Assumptions leaf_subdivision.
