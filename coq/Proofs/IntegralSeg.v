(* Per-segment facts behind Envelope.integrate_interval over the reals:
   - the splitting law of the (exponential / linear) segment curve,
   - the model's `scale` is the documented segment curve `segR`,
   - the closed form `seg_area` is the Riemann integral of the segment curve,
   - the segment curve stays between its end values. *)
From Coq Require Import ZArith List Bool Reals Lra Lia.
From Coquelicot Require Import Coquelicot.
From MV Require Import Base.Res Model.EventTree Model.TreeOps Model.Num Model.Envelope Proofs.RNum.
Import ListNotations.
Open Scope R_scope.

(* ------------------------------------------------------------ exponentials *)
Lemma exp_m1_pos c : 0 < c -> 0 < exp c - 1.
Proof. intros H. generalize (exp_increasing 0 c H). rewrite exp_0. lra. Qed.
Lemma exp_m1_neg c : c < 0 -> exp c - 1 < 0.
Proof. intros H. generalize (exp_increasing c 0 H). rewrite exp_0. lra. Qed.
Lemma exp_m1_neq c : c <> 0 -> exp c - 1 <> 0.
Proof.
  intros Hc. destruct (Rlt_dec 0 c) as [H|H].
  - generalize (exp_m1_pos c H); lra.
  - assert (H' : c < 0) by lra. generalize (exp_m1_neg c H'); lra.
Qed.

(* ------------------------------------------------------------ the segment curve *)
Lemma segR_0 v0 v1 c : segR v0 v1 c 0 = v0.
Proof.
  unfold segR. destruct (Req_EM_T c 0) as [E|E]; [ring|].
  rewrite Rmult_0_r, exp_0. unfold Rminus at 3. rewrite Rplus_opp_r. ring.
Qed.

Lemma segR_1 v0 v1 c : segR v0 v1 c 1 = v1.
Proof.
  unfold segR. destruct (Req_EM_T c 0) as [E|E]; [ring|].
  rewrite Rmult_1_r. pose proof (exp_m1_neq c E). field. assumption.
Qed.

(* a constant piece: any shape *)
Lemma segR_const v c p : segR v v c p = v.
Proof.
  unfold segR. destruct (Req_EM_T c 0) as [E|E]; [ring|].
  unfold Rminus at 1. rewrite Rplus_opp_r. unfold Rdiv. rewrite !Rmult_0_l. ring.
Qed.

(* the splitting law: the piece of a segment between the normalised times a and b is the segment
   between the values there whose shape is the share c * (b - a) *)
Lemma segR_split v0 v1 c a b u : a <> b ->
  segR v0 v1 c (a + (b - a) * u) = segR (segR v0 v1 c a) (segR v0 v1 c b) (c * (b - a)) u.
Proof.
  intros Hab. unfold segR.
  destruct (Req_EM_T c 0) as [E|E].
  - subst c. destruct (Req_EM_T (0 * (b - a)) 0) as [E'|E']; [ring|exfalso; apply E'; ring].
  - destruct (Req_EM_T (c * (b - a)) 0) as [E'|E'].
    + exfalso. apply Rmult_integral in E'. destruct E'; [tauto|lra].
    + pose proof (exp_m1_neq c E) as H1. pose proof (exp_m1_neq _ E') as H2.
      replace (c * (a + (b - a) * u)) with (c * a + c * (b - a) * u) by ring.
      replace (c * b) with (c * a + c * (b - a)) by ring.
      rewrite !exp_plus.
      set (X := exp (c * a)) in *. set (Y := exp (c * (b - a))) in *.
      set (W := exp (c * (b - a) * u)) in *. set (K := exp c) in *.
      field. split; assumption.
Qed.

Lemma segR_split_left v0 v1 c q u : q <> 0 ->
  segR v0 v1 c (q * u) = segR v0 (segR v0 v1 c q) (c * q) u.
Proof.
  intros Hq. pose proof (segR_split v0 v1 c 0 q u) as H.
  rewrite segR_0 in H. replace (0 + (q - 0) * u) with (q * u) in H by ring.
  replace (c * (q - 0)) with (c * q) in H by ring. apply H. lra.
Qed.

Lemma segR_split_right v0 v1 c q u : q <> 1 ->
  segR v0 v1 c (q + (1 - q) * u) = segR (segR v0 v1 c q) v1 (c * (1 - q)) u.
Proof.
  intros Hq. pose proof (segR_split v0 v1 c q 1 u Hq) as H.
  rewrite segR_1 in H. exact H.
Qed.

(* ------------------------------------------------------------ bounds *)
Lemma ratio_bounds c p : c <> 0 -> 0 <= p <= 1 ->
  0 <= (exp (c*p) - 1) / (exp c - 1) <= 1.
Proof.
  intros Hc [Hp0 Hp1].
  destruct (Rlt_dec 0 c) as [Hpos|Hneg].
  - assert (0 < exp c - 1) by now apply exp_m1_pos.
    assert (exp (c*p) <= exp c).
    { destruct (Req_dec p 1) as [->|]. rewrite Rmult_1_r; lra.
      left; apply exp_increasing. nra. }
    assert (1 <= exp (c*p)).
    { destruct (Req_dec p 0) as [->|]. rewrite Rmult_0_r, exp_0; lra.
      left. rewrite <- exp_0. apply exp_increasing. nra. }
    split.
    + apply Rdiv_le_0_compat; lra.
    + apply (Rmult_le_reg_r (exp c - 1)); [lra|]. unfold Rdiv. rewrite Rmult_assoc, Rinv_l; lra.
  - assert (c < 0) by lra.
    assert (exp c - 1 < 0) by now apply exp_m1_neg.
    assert (exp c <= exp (c*p)).
    { destruct (Req_dec p 1) as [->|]. rewrite Rmult_1_r; lra.
      left; apply exp_increasing. nra. }
    assert (exp (c*p) <= 1).
    { destruct (Req_dec p 0) as [->|]. rewrite Rmult_0_r, exp_0; lra.
      left. rewrite <- exp_0. apply exp_increasing. nra. }
    replace ((exp (c*p) - 1) / (exp c - 1)) with ((1 - exp (c*p)) / (1 - exp c)) by (field; lra).
    split.
    + apply Rdiv_le_0_compat; lra.
    + apply (Rmult_le_reg_r (1 - exp c)); [lra|]. unfold Rdiv. rewrite Rmult_assoc, Rinv_l; lra.
Qed.

Theorem segR_between v0 v1 c p : 0 <= p <= 1 ->
  Rmin v0 v1 <= segR v0 v1 c p <= Rmax v0 v1.
Proof.
  intros Hp. unfold segR. destruct (Req_EM_T c 0) as [->|Hc].
  - unfold Rmin, Rmax; destruct (Rle_dec v0 v1); nra.
  - pose proof (ratio_bounds c p Hc Hp) as [H0 H1].
    replace (v0 + (v1 - v0) / (exp c - 1) * (exp (c * p) - 1))
      with (v0 + (v1 - v0) * ((exp (c * p) - 1) / (exp c - 1))).
    2:{ field. apply exp_m1_neq; assumption. }
    set (r := (exp (c * p) - 1) / (exp c - 1)) in *.
    unfold Rmin, Rmax; destruct (Rle_dec v0 v1); nra.
Qed.

(* ------------------------------------------------------------ the model's scale is segR *)
Lemma scale_segR x a b v0 v1 c :
  scale R RNum x a b v0 v1 c = segR v0 v1 c ((x - a) / (b - a)).
Proof.
  unfold scale, segR. simpl. destruct (Req_EM_T c 0) as [E|E]; ring.
Qed.

(* ------------------------------------------------------------ the closed-form area *)
(* over the reals the straight-line branch is the trapezoid *)
Lemma seg_area_lin d v0 v1 : seg_area R RNum d v0 v1 0 = d * (v0 + v1) / 2.
Proof.
  unfold seg_area, half. simpl.
  destruct (Req_EM_T 0 0) as [_|N]; [|exfalso; apply N; reflexivity].
  destruct (Rlt_dec v0 v1) as [H1|H1]; destruct (Rlt_dec v1 v0) as [H2|H2]; try lra; try field.
  assert (v0 = v1) by lra. subst. field.
Qed.

Lemma seg_area_exp d v0 v1 c : c <> 0 ->
  seg_area R RNum d v0 v1 c =
  d * (((v0 - (v1 - v0) / (exp c - 1)) * 1 + (v1 - v0) / (c * (exp c - 1)) * exp (c * 1))
       - ((v0 - (v1 - v0) / (exp c - 1)) * 0 + (v1 - v0) / (c * (exp c - 1)) * exp (c * 0))).
Proof.
  intros Hc. unfold seg_area. simpl. destruct (Req_EM_T c 0) as [E|E]; [contradiction|reflexivity].
Qed.

(* a constant piece has area d * v whatever its shape *)
Lemma seg_area_const d v c : seg_area R RNum d v v c = d * v.
Proof.
  destruct (Req_EM_T c 0) as [E|E].
  - subst. rewrite seg_area_lin. field.
  - rewrite seg_area_exp by assumption. unfold Rminus at 2 5 7. rewrite Rplus_opp_r.
    unfold Rdiv. rewrite !Rmult_0_l. ring.
Qed.

Theorem seg_area_correct a d v0 v1 c : 0 <= d ->
  is_RInt (fun x => segR v0 v1 c ((x - a) / d)) a (a + d) (seg_area R RNum d v0 v1 c).
Proof.
  intros Hd0. destruct (Req_dec d 0) as [Ed|Hd].
  { subst d. rewrite Rplus_0_r.
    replace (seg_area R RNum 0 v0 v1 c) with (@zero R_NormedModule).
    - apply (@is_RInt_point R_NormedModule).
    - destruct (Req_EM_T c 0) as [E|E].
      + subst. rewrite seg_area_lin. simpl. unfold Rdiv. rewrite !Rmult_0_l. reflexivity.
      + rewrite seg_area_exp by assumption. simpl. rewrite Rmult_0_l. reflexivity. }
  destruct (Req_EM_T c 0) as [E|E].
  - subst c. rewrite seg_area_lin.
    apply (is_RInt_ext (fun x => v0 + (v1 - v0) * ((x - a) / d))).
    { intros x _. unfold segR. destruct (Req_EM_T 0 0) as [_|N]; [reflexivity|exfalso; apply N; reflexivity]. }
    evar_last.
    apply (is_RInt_derive (fun x => v0 * x + (v1 - v0) * ((x - a) * (x - a) / (2 * d)))).
    + intros x _. auto_derive; [solve [trivial|assumption]|]. field. assumption.
    + intros x _. apply (ex_derive_continuous (fun x => v0 + (v1 - v0) * ((x - a) / d))).
      auto_derive. solve [trivial|assumption].
    + simpl. unfold minus, plus, opp; simpl. field. assumption.
  - rewrite seg_area_exp by assumption.
    pose proof (exp_m1_neq c E) as He.
    set (A := v0 - (v1 - v0) / (exp c - 1)).
    set (B := (v1 - v0) / (c * (exp c - 1))).
    apply (is_RInt_ext (fun x => A + B * (c * exp (c * ((x - a) / d))))).
    { intros x _. unfold segR. destruct (Req_EM_T c 0) as [N|_]; [contradiction|].
      unfold A, B. simpl. field. repeat split; assumption. }
    evar_last.
    apply (is_RInt_derive (fun x => A * x + B * d * exp (c * ((x - a) / d)))).
    + intros x _. auto_derive; [solve [trivial|assumption]|]. unfold Rdiv, Rminus. field. assumption.
    + intros x _. apply (ex_derive_continuous (fun x => A + B * (c * exp (c * ((x - a) / d))))).
      auto_derive. solve [trivial|assumption].
    + simpl. unfold minus, plus, opp; simpl.
      replace (c * ((a + d - a) / d)) with (c * 1) by (field; assumption).
      replace (c * ((a - a) / d)) with (c * 0) by (field; assumption).
      ring.
Qed.

Print Assumptions segR_split.
Print Assumptions segR_between.
Print Assumptions seg_area_correct.
