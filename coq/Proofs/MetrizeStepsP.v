(* The step-trajectory extension of metrize over the reals:
   - it is conservative: wherever the one-trajectory model decides, metrize2 is that model;
   - on trees with constant tempi only it gives the products of section B5 (so the two models agree there);
   - the clause it adds: a stretch of beats inside which no tempo of any level changes lasts its length times the
     product of 60 / bpm of all levels ("locally constant tempi multiply"), and consecutive stretches add up. *)
From Coquelicot Require Import Coquelicot.
From Coq Require Import ZArith List Bool Reals Lra Lia.
From MV Require Import Base.Res Model.EventTree Model.TreeOps Model.Num Model.Envelope Model.Convert Model.MetrizeSteps
  Proofs.RNum Proofs.Resample Proofs.ConvertP.
Import ListNotations.
Local Open Scope Z_scope.

Notation msgo := (metrize_steps_go R RNum).
Notation sctxR := (sctx R).

(* ---------------------------------------------------------------- conservative *)
Theorem metrize2_conservative (e : tevR) l : metrize R RNum e = Ok l -> metrize2 R RNum e = Ok l.
Proof. intro H. unfold metrize2. rewrite H. reflexivity. Qed.

Theorem metrize2_only_adds (e : tevR) k : metrize R RNum e = Err k -> k <> EValueError -> metrize2 R RNum e = Err k.
Proof. intros H Hk. unfold metrize2. rewrite H. destruct k; try reflexivity. congruence. Qed.

(* ---------------------------------------------------------------- one stretch without a tempo change *)
Lemma integ_zero f (c : sctxR) x b : b <= x -> integ_steps R RNum f c x b = 0%R.
Proof. intro H. destruct f; [reflexivity|]. cbn [integ_steps]. destruct (Z.leb_spec b x); [reflexivity|lia]. Qed.

Theorem integ_steps_one_piece f (c : sctxR) x b : x < b -> next_bp R c x b = b ->
  integ_steps R RNum (S f) c x b = (tofR (b - x) * prod_at R RNum c x)%R.
Proof.
  intros Hx Hn. cbn [integ_steps]. destruct (Z.leb_spec b x); [lia|]. cbv zeta. rewrite Hn.
  rewrite integ_zero by lia. change (nadd RNum) with Rplus. change (nmul RNum) with Rmult. change (n0 RNum) with 0%R.
  change (tof R RNum) with tofR. ring.
Qed.

(* the first stretch and the rest: the seconds of [x, b) are those of [x, first change) plus those of the rest *)
Theorem integ_steps_first_piece f (c : sctxR) x b : x < b ->
  integ_steps R RNum (S f) c x b =
  (tofR (next_bp R c x b - x) * prod_at R RNum c x + integ_steps R RNum f c (next_bp R c x b) b)%R.
Proof. intros Hx. cbn [integ_steps]. destruct (Z.leb_spec b x); [lia|]. reflexivity. Qed.

(* the product over the levels: one factor per trajectory on the path *)
Lemma prod_at_nil x : prod_at R RNum [] x = 1%R. Proof. reflexivity. Qed.
Lemma prod_at_app (c1 c2 : sctxR) x : prod_at R RNum (c1 ++ c2) x = (prod_at R RNum c1 x * prod_at R RNum c2 x)%R.
Proof.
  unfold prod_at. rewrite fold_left_app.
  change (nmul RNum) with Rmult. change (n1 RNum) with 1%R.
  generalize (fold_left (fun acc es => (acc * step_value R RNum (fst es) (x - snd es))%R) c1 1%R). intro a.
  revert a. induction c2 as [|p r IH]; intro a; cbn [fold_left]; [ring|].
  rewrite IH. rewrite (IH (1 * step_value R RNum (fst p) (x - snd p))%R). ring.
Qed.
Lemma prod_at_cons (e : envR) s (c : sctxR) x :
  prod_at R RNum ((e, s) :: c) x = (step_value R RNum e (x - s) * prod_at R RNum c x)%R.
Proof. change ((e, s) :: c) with ([(e, s)] ++ c). rewrite prod_at_app. unfold prod_at at 1. cbn. ring. Qed.

(* ---------------------------------------------------------------- constant tempi only *)
Definition ms_seq (fac : R) (c : sctxR) := fix go (t : Z) (l : list tevR) : res (list R) :=
  match l with
  | [] => Ok []
  | k :: r => a <- msgo fac c t k ; b <- go (t + tdur R k)%Z r ; Ok (a ++ b)
  end.
Definition ms_sim (fac : R) (c : sctxR) (t : Z) := fix go (l : list tevR) : res (list R) :=
  match l with
  | [] => Ok []
  | k :: r => a <- msgo fac c t k ; b <- go r ; Ok (a ++ b)
  end.
Lemma msgo_seq_const fac c t b cs : msgo fac c t (TSeq (TConst b) cs) = ms_seq (fac * (60 / b)) c t cs.
Proof. reflexivity. Qed.
Lemma msgo_sim_const fac c t b cs : msgo fac c t (TSim (TConst b) cs) = ms_sim (fac * (60 / b)) c t cs.
Proof. reflexivity. Qed.

Definition nonneg_leaves (e : tevR) : Prop := Forall (fun d => 0 <= d) (tleaf_durs e).

Lemma msgo_leaf_const fac t d b : 0 <= d -> msgo fac [] t (TLeaf d (TConst b)) = Ok [(fac * (60 / b) * tofR d)%R].
Proof.
  intro Hd. cbn [metrize_steps_go enter_s bind fuel_of fold_left].
  destruct (Z.eq_dec d 0) as [->|Hn].
  - rewrite integ_zero by lia. change (nmul RNum) with Rmult. change (ndiv RNum) with Rdiv. change (n60 R RNum) with 60%R.
    rewrite tofR_0. apply f_equal, (f_equal (fun x => [x])). ring.
  - unfold fuel_of. cbn [fold_left]. rewrite integ_steps_one_piece; [|lia|reflexivity].
    change (nmul RNum) with Rmult. change (ndiv RNum) with Rdiv. change (n60 R RNum) with 60%R.
    rewrite prod_at_nil. replace (t + d - t) with d by lia. apply f_equal, (f_equal (fun x => [x])). ring.
Qed.

Lemma ms_seq_lp fac cs :
  Forall (fun k => all_const k -> nonneg_leaves k -> forall fac t, msgo fac [] t k = Ok (lp fac k)) cs ->
  all_tps tp_const cs -> Forall (fun d => 0 <= d) (tleaf_durs_l cs) -> forall t, ms_seq fac [] t cs = Ok (lp_l fac cs).
Proof.
  induction 1 as [|k r Hk _ IHr]; intros A Nn t; [reflexivity|]. destruct A as [Ak Ar].
  change (tleaf_durs_l (k :: r)) with (tleaf_durs k ++ tleaf_durs_l r) in Nn. apply Forall_app in Nn. destruct Nn as [N1 N2].
  cbn [ms_seq]. rewrite (Hk Ak N1). cbn [bind]. fold (ms_seq fac []). rewrite (IHr Ar N2). reflexivity.
Qed.
Lemma ms_sim_lp fac t cs :
  Forall (fun k => all_const k -> nonneg_leaves k -> forall fac t, msgo fac [] t k = Ok (lp fac k)) cs ->
  all_tps tp_const cs -> Forall (fun d => 0 <= d) (tleaf_durs_l cs) -> ms_sim fac [] t cs = Ok (lp_l fac cs).
Proof.
  induction 1 as [|k r Hk _ IHr]; intros A Nn; [reflexivity|]. destruct A as [Ak Ar].
  change (tleaf_durs_l (k :: r)) with (tleaf_durs k ++ tleaf_durs_l r) in Nn. apply Forall_app in Nn. destruct Nn as [N1 N2].
  cbn [ms_sim]. rewrite (Hk Ak N1). cbn [bind]. fold (ms_sim fac [] t). rewrite (IHr Ar N2). reflexivity.
Qed.

Lemma metrize_steps_go_const e : all_const e -> nonneg_leaves e -> forall fac t, msgo fac [] t e = Ok (lp fac e).
Proof.
  induction e as [d tp|tp cs IH|tp cs IH] using tev_ind'; intros A Nn fac t.
  - destruct tp as [b|tr]; [|destruct A]. inversion Nn; subst. apply msgo_leaf_const. assumption.
  - unfold all_const in A. rewrite all_tp_seq in A. destruct A as [Ap Ac].
    destruct tp as [b|tr]; [|destruct Ap]. rewrite msgo_seq_const. apply ms_seq_lp; assumption.
  - unfold all_const in A. rewrite all_tp_sim in A. destruct A as [Ap Ac].
    destruct tp as [b|tr]; [|destruct Ap]. rewrite msgo_sim_const. apply ms_sim_lp; assumption.
Qed.

(* on trees with constant tempi only the step model gives the products: it agrees with the one-trajectory model *)
Theorem metrize_steps_constant e : all_const e -> nonneg_leaves e -> metrize_steps R RNum e = metrize R RNum e.
Proof.
  intros A Nn. rewrite (metrize_constant_acc e A). unfold metrize_steps. change (n1 RNum) with 1%R.
  apply metrize_steps_go_const; assumption.
Qed.

(* a trajectory that is not a step curve is outside the step model *)
Theorem metrize_steps_rejects_curves fac (c : sctxR) t d (tr : envR) :
  is_step R RNum tr = false -> msgo fac c t (TLeaf d (TTraj tr)) = Err EValueError.
Proof. intro H. cbn [metrize_steps_go enter_s]. rewrite H. reflexivity. Qed.

(* non-vacuity: a leaf of 2 beats under an outer step curve 240 | 120 (change after 1 beat) and an inner one 60 | 30
   (change after 1.5 beats): 1 * 1/4 * 1 + 1/2 * 1/2 * 1 + 1/2 * 1/2 * 2 = 1 second (the second example of the demo of the
   seeded change C13-5) *)
Definition outer_s : envR := [mkPt 10000000000 (1/4) 0; mkPt 0 (1/4) 0; mkPt 10000000000 (1/2) 0; mkPt 0 (1/2) 0]%R.
Definition inner_s : envR := [mkPt 15000000000 1 0; mkPt 0 1 0; mkPt 5000000000 2 0; mkPt 0 2 0]%R.
Example nested_steps_example :
  integ_steps R RNum 5 [(inner_s, 0); (outer_s, 0)] 0 20000000000 = 1%R.
Proof.
  unfold integ_steps, next_bp, next_in, prod_at, step_value, outer_s, inner_s.
  cbn -[Rmult Rplus Rdiv tof IZR]. unfold tof. cbn -[Rmult Rplus Rdiv IZR]. 
  change (nint RNum) with IZR. unfold ticks_per_beat. change (ndiv RNum) with Rdiv. lra.
Qed.

Print Assumptions integ_steps_one_piece.
Print Assumptions integ_steps_first_piece.
Print Assumptions metrize_steps_constant.
Print Assumptions metrize2_conservative.
