(* The history argument of C01 extended to the operations modelled later: list-like edits (integer set / delete,
   Model/ListOps.v), the container duration setter and the unrestricted tie (Model/TieAll.v).  Every one of them keeps
   the tree well formed, so the C01 theorems (durations, start times, ranges, lookup) hold in every state reached by
   any mixture of the old and the new edits. *)
From Coq Require Import ZArith List Bool Lia.
From MV Require Import Base.Res Model.EventTree Model.TreeOps Model.Numbers Model.TieAll Model.ListOps
  Proofs.TreeLemmas Proofs.Lookup Proofs.History Proofs.TieAllP Proofs.ListOpsP.
Import ListNotations.
Open Scope Z_scope.

Inductive edit2 :=
| EOld (ed : edit)
| ESetInt (i : Z) (x : ev)
| EDelInt (i : Z)
| ESetDur (d : Z)
| ETieAll (cond : ev -> ev -> bool) (rm : bool).

Definition apply_edit2 (ed : edit2) (e : ev) : res ev :=
  match ed with
  | EOld ed' => apply_edit ed' e
  | ESetInt i x => match e with Leaf _ _ => Err ETypeError | _ => set_int e i x end
  | EDelInt i => match e with Leaf _ _ => Err ETypeError | _ => del_int e i end
  | ESetDur d => set_dur e d
  | ETieAll cond rm => tie_all cond rm e
  end.
Definition edit2_ok (ed : edit2) (e : ev) : Prop :=
  match ed with
  | EOld ed' => edit_ok ed' e
  | ESetInt _ x => wf x
  | ESetDur d => 0 <= d
  | _ => True
  end.

Lemma wfs_firstn_skipn k cs : wfs cs -> wfs (firstn k cs ++ skipn (S k) cs).
Proof.
  intro H. apply wfs_forall. intros c Hc. apply (wfs_In cs c H).
  apply in_app_or in Hc. destruct Hc as [Hc|Hc]; [exact (in_firstn _ _ _ Hc)|exact (in_skipn _ _ _ Hc)].
Qed.

Lemma merge_all_wf rm a b s : wf a -> wf b -> merge_all rm a b = Ok s -> wf s.
Proof.
  intros Wa Wb H. unfold merge_all in H. pose proof (dur_nonneg a Wa). pose proof (dur_nonneg b Wb).
  destruct rm; [apply (set_dur_wf a _ s Wa) in H|apply (set_dur_wf b _ s Wb) in H]; try exact H; lia.
Qed.

Lemma tie_all_flat_wfs cond rm : forall r a res, wf a -> wfs r -> tie_all_flat cond rm a r = Ok res -> wfs res.
Proof.
  induction r as [|b r IH]; intros a res Wa Wr H; cbn [tie_all_flat] in H.
  - injection H as <-. rewrite wfs_cons. split; [exact Wa|exact I].
  - rewrite wfs_cons in Wr. destruct Wr as [Wb Wr]. destruct (cond a b).
    + destruct (merge_all rm a b) as [s|k] eqn:M; cbn [bind] in H; [|discriminate].
      exact (IH s res (merge_all_wf rm a b s Wa Wb M) Wr H).
    + destruct (tie_all_flat cond rm b r) as [t|k] eqn:T; cbn [bind] in H; [|discriminate].
      injection H as <-. rewrite wfs_cons. split; [exact Wa|exact (IH b t Wb Wr T)].
Qed.

Theorem tie_all_wf cond rm e e' : wf e -> tie_all cond rm e = Ok e' -> wf e'.
Proof.
  destruct e as [d l|m [|a r]|m [|a r]]; cbn [tie_all]; intros W H; try discriminate;
    try (injection H as <-; exact W).
  - rewrite wf_seq, wfs_cons in W. destruct W as [Wa Wr].
    destruct (tie_all_flat cond rm a r) as [cs|k] eqn:T; cbn [bind] in H; [|discriminate].
    injection H as <-. rewrite wf_seq. exact (tie_all_flat_wfs cond rm r a cs Wa Wr T).
  - rewrite wf_sim, wfs_cons in W. destruct W as [Wa Wr].
    destruct (tie_all_flat cond rm a r) as [cs|k] eqn:T; cbn [bind] in H; [|discriminate].
    injection H as <-. rewrite wf_sim. exact (tie_all_flat_wfs cond rm r a cs Wa Wr T).
Qed.

Theorem edit2_preserves_wf : forall ed e e', wf e -> edit2_ok ed e -> apply_edit2 ed e = Ok e' -> wf e'.
Proof.
  intros [ed|i x|i|d|cond rm] e e' W Hok H; cbn [apply_edit2 edit2_ok] in *.
  - exact (edit_preserves_wf ed e e' W Hok H).
  - destruct e as [d l|m cs|m cs]; [discriminate| |]; unfold set_int in H; cbn [children] in H;
      destruct (norm_index _ i) as [k|]; try discriminate; injection H as <-; cbn [with_children];
      [rewrite wf_seq in *|rewrite wf_sim in *]; apply wfs_replace_at; assumption.
  - destruct e as [d l|m cs|m cs]; [discriminate| |]; unfold del_int in H; cbn [children] in H;
      destruct (norm_index _ i) as [k|]; try discriminate; injection H as <-; cbn [with_children];
      [rewrite wf_seq in *|rewrite wf_sim in *]; apply wfs_firstn_skipn; exact W.
  - exact (set_dur_wf e d e' W Hok H).
  - exact (tie_all_wf cond rm e e' W H).
Qed.

Inductive reaches2 : ev -> list edit2 -> ev -> Prop :=
| reaches2_nil e : reaches2 e [] e
| reaches2_cons e ed e1 r e2 : edit2_ok ed e -> apply_edit2 ed e = Ok e1 -> reaches2 e1 r e2 -> reaches2 e (ed :: r) e2.

Theorem history2_preserves_wf : forall e eds e', wf e -> reaches2 e eds e' -> wf e'.
Proof.
  intros e eds e' Hwf H. induction H as [e|e ed e1 r e2 Hok Happ _ IH]; [exact Hwf|].
  apply IH. eapply edit2_preserves_wf; eassumption.
Qed.

Theorem history2_lookup : forall e eds m cs t i, wf e -> reaches2 e eds (Seq m cs) ->
  (index_at cs t = Some i <->
   exists c, nth_error cs i = Some c /\ dsum (firstn i cs) <= t < dsum (firstn i cs) + dur c).
Proof.
  intros e eds m cs t i Hwf H. apply index_at_spec. pose proof (history2_preserves_wf _ _ _ Hwf H) as Hw.
  rewrite wf_seq in Hw. exact Hw.
Qed.
Print Assumptions history2_preserves_wf.
Print Assumptions history2_lookup.
