(* Theorems about Model/TieAll.v: the duration setter on value trees (set_dur) and the unrestricted
   tie (tie_all: Compound.tie_by with event_type_to_examine = Event).
   (a) set_dur: leaves exact; containers: shape kept, every leaf rescaled, total within half a tick per leaf
   (b) tie_all with an always-true condition: one survivor, its shape, duration bounds, leaves exact and = tie_by
   (c) tie_all with a key condition: one child per maximal run (runs of Proofs/Access.v), never fails on
       well-formed children that are leaves or non-empty containers
   (d) examples *)
From Coq Require Import ZArith QArith Qabs List Bool Lia ZifyBool Lqa.
From MV Require Import Base.Res Model.EventTree Model.TreeOps Model.Numbers Model.TieAll
  Proofs.TreeLemmas Proofs.NumbersP Proofs.Access.
Import ListNotations.
Open Scope Z_scope.

(* ================================================================ 0. vocabulary *)
Fixpoint leaf_count (e : ev) : nat :=
  match e with
  | Leaf _ _ => 1%nat
  | Seq _ cs | Sim _ cs => (fix go l := match l with [] => 0%nat | c :: r => (leaf_count c + go r)%nat end) cs
  end.
Definition leaf_count_list := fix go (l : list ev) : nat :=
  match l with [] => 0%nat | c :: r => (leaf_count c + go r)%nat end.

(* no simultaneity anywhere below *)
Fixpoint seq_only (e : ev) : bool :=
  match e with
  | Leaf _ _ => true
  | Seq _ cs => (fix go l := match l with [] => true | c :: r => seq_only c && go r end) cs
  | Sim _ _ => false
  end.
Definition seq_only_list := fix go (l : list ev) : bool :=
  match l with [] => true | c :: r => seq_only c && go r end.

(* the shape of a tree: kinds, labels, side attributes and nesting; durations erased *)
Inductive sh := ShL (l : Z) | ShSeq (m : meta) (cs : list sh) | ShSim (m : meta) (cs : list sh).
Fixpoint shape (e : ev) : sh :=
  match e with
  | Leaf _ l => ShL l
  | Seq m cs => ShSeq m ((fix go l := match l with [] => [] | c :: r => shape c :: go r end) cs)
  | Sim m cs => ShSim m ((fix go l := match l with [] => [] | c :: r => shape c :: go r end) cs)
  end.
Definition shape_list := fix go (l : list ev) : list sh :=
  match l with [] => [] | c :: r => shape c :: go r end.

(* the leaf durations in depth-first order *)
Fixpoint leaf_durs (e : ev) : list Z :=
  match e with
  | Leaf d _ => [d]
  | Seq _ cs | Sim _ cs => (fix go l := match l with [] => [] | c :: r => leaf_durs c ++ go r end) cs
  end.
Definition leaf_durs_list := fix go (l : list ev) : list Z :=
  match l with [] => [] | c :: r => leaf_durs c ++ go r end.

(* a leaf, or a container with at least one child: the events whose duration can be set *)
Definition settable (e : ev) : bool :=
  match e with Leaf _ _ => true | Seq _ cs | Sim _ cs => match cs with [] => false | _ => true end end.

(* unfolding equations *)
Lemma leaf_count_seq m cs : leaf_count (Seq m cs) = leaf_count_list cs. Proof. reflexivity. Qed.
Lemma leaf_count_sim m cs : leaf_count (Sim m cs) = leaf_count_list cs. Proof. reflexivity. Qed.
Lemma leaf_count_list_cons c r : leaf_count_list (c :: r) = (leaf_count c + leaf_count_list r)%nat. Proof. reflexivity. Qed.
Lemma seq_only_seq m cs : seq_only (Seq m cs) = seq_only_list cs. Proof. reflexivity. Qed.
Lemma seq_only_list_cons c r : seq_only_list (c :: r) = seq_only c && seq_only_list r. Proof. reflexivity. Qed.
Lemma shape_seq m cs : shape (Seq m cs) = ShSeq m (shape_list cs). Proof. reflexivity. Qed.
Lemma shape_sim m cs : shape (Sim m cs) = ShSim m (shape_list cs). Proof. reflexivity. Qed.
Lemma shape_list_cons c r : shape_list (c :: r) = shape c :: shape_list r. Proof. reflexivity. Qed.
Lemma leaf_durs_seq m cs : leaf_durs (Seq m cs) = leaf_durs_list cs. Proof. reflexivity. Qed.
Lemma leaf_durs_sim m cs : leaf_durs (Sim m cs) = leaf_durs_list cs. Proof. reflexivity. Qed.
Lemma leaf_durs_list_cons c r : leaf_durs_list (c :: r) = leaf_durs c ++ leaf_durs_list r. Proof. reflexivity. Qed.
Lemma map_leaves_leaf f d l : map_leaves f (Leaf d l) = Leaf (f d) l. Proof. reflexivity. Qed.
Lemma map_leaves_seq f m cs : map_leaves f (Seq m cs) = Seq m (map_leaves_list f cs). Proof. reflexivity. Qed.
Lemma map_leaves_sim f m cs : map_leaves f (Sim m cs) = Sim m (map_leaves_list f cs). Proof. reflexivity. Qed.
Lemma map_leaves_list_cons f c r : map_leaves_list f (c :: r) = map_leaves f c :: map_leaves_list f r. Proof. reflexivity. Qed.
Lemma all_leaf_durs_seq p m cs : all_leaf_durs p (Seq m cs) = all_leaf_durs_list p cs. Proof. reflexivity. Qed.
Lemma all_leaf_durs_sim p m cs : all_leaf_durs p (Sim m cs) = all_leaf_durs_list p cs. Proof. reflexivity. Qed.
Lemma all_leaf_durs_list_cons p c r : all_leaf_durs_list p (c :: r) = all_leaf_durs p c && all_leaf_durs_list p r. Proof. reflexivity. Qed.

Lemma map_leaves_list_map f cs : map_leaves_list f cs = map (map_leaves f) cs.
Proof. induction cs as [|c r IH]; [reflexivity|]. rewrite map_leaves_list_cons, IH. reflexivity. Qed.
Lemma map_leaves_list_length f cs : length (map_leaves_list f cs) = length cs.
Proof. rewrite map_leaves_list_map. apply map_length. Qed.

(* ================================================================ 1. map_leaves keeps everything but the leaf durations *)
Theorem map_leaves_shape f : forall e, shape (map_leaves f e) = shape e.
Proof.
  induction e as [d l|m cs IH|m cs IH] using ev_ind'; [reflexivity| |].
  - rewrite map_leaves_seq, !shape_seq. f_equal.
    induction cs as [|c r IHr]; [reflexivity|]. inversion IH as [|? ? Hc Hr]; subst.
    rewrite map_leaves_list_cons, !shape_list_cons, Hc, (IHr Hr). reflexivity.
  - rewrite map_leaves_sim, !shape_sim. f_equal.
    induction cs as [|c r IHr]; [reflexivity|]. inversion IH as [|? ? Hc Hr]; subst.
    rewrite map_leaves_list_cons, !shape_list_cons, Hc, (IHr Hr). reflexivity.
Qed.

Theorem map_leaves_leaf_durs f : forall e, leaf_durs (map_leaves f e) = map f (leaf_durs e).
Proof.
  induction e as [d l|m cs IH|m cs IH] using ev_ind'; [reflexivity| |].
  - rewrite map_leaves_seq, !leaf_durs_seq.
    induction cs as [|c r IHr]; [reflexivity|]. inversion IH as [|? ? Hc Hr]; subst.
    rewrite map_leaves_list_cons, !leaf_durs_list_cons, map_app, Hc, (IHr Hr). reflexivity.
  - rewrite map_leaves_sim, !leaf_durs_sim.
    induction cs as [|c r IHr]; [reflexivity|]. inversion IH as [|? ? Hc Hr]; subst.
    rewrite map_leaves_list_cons, !leaf_durs_list_cons, map_app, Hc, (IHr Hr). reflexivity.
Qed.

(* shape and leaf durations together determine the tree *)
Lemma leaf_durs_length : forall e, length (leaf_durs e) = leaf_count e.
Proof.
  induction e as [d l|m cs IH|m cs IH] using ev_ind'; [reflexivity| |].
  - rewrite leaf_durs_seq, leaf_count_seq.
    induction cs as [|c r IHr]; [reflexivity|]. inversion IH as [|? ? Hc Hr]; subst.
    rewrite leaf_durs_list_cons, leaf_count_list_cons, app_length, Hc, (IHr Hr). reflexivity.
  - rewrite leaf_durs_sim, leaf_count_sim.
    induction cs as [|c r IHr]; [reflexivity|]. inversion IH as [|? ? Hc Hr]; subst.
    rewrite leaf_durs_list_cons, leaf_count_list_cons, app_length, Hc, (IHr Hr). reflexivity.
Qed.

Lemma shape_leaf_count : forall e e', shape e = shape e' -> leaf_count e = leaf_count e'.
Proof.
  induction e as [d l|m cs IH|m cs IH] using ev_ind'; intros [d' l'|m' cs'|m' cs'] H; try discriminate; [reflexivity| |].
  - rewrite !shape_seq in H. injection H as _ H. rewrite !leaf_count_seq.
    revert cs' H. induction cs as [|c r IHr]; intros [|c' r'] H; try discriminate; [reflexivity|].
    inversion IH as [|? ? Hc Hr]; subst. rewrite !shape_list_cons in H. injection H as H1 H2.
    rewrite !leaf_count_list_cons, (Hc c' H1), (IHr Hr r' H2). reflexivity.
  - rewrite !shape_sim in H. injection H as _ H. rewrite !leaf_count_sim.
    revert cs' H. induction cs as [|c r IHr]; intros [|c' r'] H; try discriminate; [reflexivity|].
    inversion IH as [|? ? Hc Hr]; subst. rewrite !shape_list_cons in H. injection H as H1 H2.
    rewrite !leaf_count_list_cons, (Hc c' H1), (IHr Hr r' H2). reflexivity.
Qed.

Theorem shape_leaf_durs_inj : forall e e', shape e = shape e' -> leaf_durs e = leaf_durs e' -> e = e'.
Proof.
  induction e as [d l|m cs IH|m cs IH] using ev_ind'; intros [d' l'|m' cs'|m' cs'] H HD; try discriminate.
  - simpl in H, HD. congruence.
  - rewrite !shape_seq in H. injection H as Hm H. rewrite !leaf_durs_seq in HD. subst m'. f_equal.
    revert cs' H HD. induction cs as [|c r IHr]; intros [|c' r'] H HD; try discriminate; [reflexivity|].
    inversion IH as [|? ? Hc Hr]; subst. rewrite !shape_list_cons in H. injection H as H1 H2.
    rewrite !leaf_durs_list_cons in HD.
    assert (L : length (leaf_durs c) = length (leaf_durs c')) by (rewrite !leaf_durs_length; apply shape_leaf_count; exact H1).
    assert (HD1 : leaf_durs c = leaf_durs c' /\ leaf_durs_list r = leaf_durs_list r').
    { clear - HD L. revert L HD. generalize (leaf_durs c') as y. generalize (leaf_durs c) as x.
      induction x as [|a x IHx]; intros [|b y] L HD; try discriminate; [split; [reflexivity|exact HD]|].
      simpl in L, HD. injection HD as -> HD. injection L as L. destruct (IHx y L HD) as [-> ->]. split; reflexivity. }
    destruct HD1 as [D1 D2]. rewrite (Hc c' H1 D1), (IHr Hr r' H2 D2). reflexivity.
  - rewrite !shape_sim in H. injection H as Hm H. rewrite !leaf_durs_sim in HD. subst m'. f_equal.
    revert cs' H HD. induction cs as [|c r IHr]; intros [|c' r'] H HD; try discriminate; [reflexivity|].
    inversion IH as [|? ? Hc Hr]; subst. rewrite !shape_list_cons in H. injection H as H1 H2.
    rewrite !leaf_durs_list_cons in HD.
    assert (L : length (leaf_durs c) = length (leaf_durs c')) by (rewrite !leaf_durs_length; apply shape_leaf_count; exact H1).
    assert (HD1 : leaf_durs c = leaf_durs c' /\ leaf_durs_list r = leaf_durs_list r').
    { clear - HD L. revert L HD. generalize (leaf_durs c') as y. generalize (leaf_durs c) as x.
      induction x as [|a x IHx]; intros [|b y] L HD; try discriminate; [split; [reflexivity|exact HD]|].
      simpl in L, HD. injection HD as -> HD. injection L as L. destruct (IHx y L HD) as [-> ->]. split; reflexivity. }
    destruct HD1 as [D1 D2]. rewrite (Hc c' H1 D1), (IHr Hr r' H2 D2). reflexivity.
Qed.

Lemma shape_seq_only : forall e e', shape e = shape e' -> seq_only e = seq_only e'.
Proof.
  induction e as [d l|m cs IH|m cs IH] using ev_ind'; intros [d' l'|m' cs'|m' cs'] H; try discriminate; try reflexivity.
  rewrite !shape_seq in H. injection H as _ H. rewrite !seq_only_seq.
  revert cs' H. induction cs as [|c r IHr]; intros [|c' r'] H; try discriminate; [reflexivity|].
  inversion IH as [|? ? Hc Hr]; subst. rewrite !shape_list_cons in H. injection H as H1 H2.
  rewrite !seq_only_list_cons, (Hc c' H1), (IHr Hr r' H2). reflexivity.
Qed.

Lemma shape_settable e e' : shape e = shape e' -> settable e = settable e'.
Proof.
  destruct e as [d l|m [|c r]|m [|c r]], e' as [d' l'|m' [|c' r']|m' [|c' r']]; intros H; try discriminate; reflexivity.
Qed.

Lemma shape_is_leaf e e' : shape e = shape e' -> is_leaf e = is_leaf e'.
Proof. destruct e, e'; intros H; try discriminate; reflexivity. Qed.

(* ================================================================ 2. rounding facts *)
(* rescale is the exact quotient up to half a tick *)
Lemma rescale_t_near old new x : 0 < old -> Z.abs (2 * old * rescale_t old new x - 2 * new * x) <= old.
Proof.
  intros Hold. unfold rescale_t.
  set (q := ((x # 1) * (new # 1) / (old # 1))%Q).
  pose proof (rhe_near q) as H. apply Qabs_Qle_condition in H. destruct H as [H1 H2].
  set (r := rhe q) in *.
  assert (E : (q * (old # 1) == (x * new # 1))%Q).
  { unfold q. destruct old as [|p|p]; try lia. unfold Qeq, Qdiv, Qmult, Qinv; simpl. lia. }
  assert (Ho : (0 < (old # 1))%Q) by (unfold Qlt; simpl; lia).
  assert (G1 : (- (1 # 2) * (old # 1) <= (q - (r # 1)) * (old # 1))%Q) by (apply Qmult_le_compat_r; lra).
  assert (G2 : ((q - (r # 1)) * (old # 1) <= (1 # 2) * (old # 1))%Q) by (apply Qmult_le_compat_r; lra).
  assert (E2 : ((q - (r # 1)) * (old # 1) == (x * new - r * old # 1))%Q).
  { assert (E3 : ((x * new - r * old # 1) == (x * new # 1) - (r # 1) * (old # 1))%Q) by (unfold Qeq; simpl; lia).
    rewrite E3, <- E. ring. }
  rewrite E2 in G1, G2. unfold Qle, Qmult, Qopp in G1, G2; cbn [Qnum Qden] in G1, G2. lia.
Qed.

(* a zero-length leaf stays zero-length, whatever the old and new durations (by computation) *)
Lemma rescale_t_zero old new : rescale_t old new 0 = 0.
Proof. reflexivity. Qed.

Lemma rescale_t_nonneg old new d : 0 < old -> 0 <= new -> 0 <= d -> 0 <= rescale_t old new d.
Proof.
  intros H Hn Hd. pose proof (rescale_t_near old new d H) as A. set (r := rescale_t old new d) in *.
  assert (0 <= new * d) by (apply Z.mul_nonneg_nonneg; lia).
  destruct (Z_lt_le_dec r 0) as [N|N]; [|exact N].
  assert (old * r <= old * (-1)) by (apply Z.mul_le_mono_nonneg_l; lia). lia.
Qed.

(* lengthening never shortens a leaf *)
Lemma rescale_t_ge old new d : 0 < old -> old <= new -> 0 <= d -> d <= rescale_t old new d.
Proof.
  intros H Hn Hd. pose proof (rescale_t_near old new d H) as A. set (r := rescale_t old new d) in *.
  assert (old * d <= new * d) by (apply Z.mul_le_mono_nonneg_r; lia).
  destruct (Z_lt_le_dec r d) as [N|N]; [|exact N].
  assert (old * r <= old * (d - 1)) by (apply Z.mul_le_mono_nonneg_l; lia). lia.
Qed.

(* setting the old duration again changes nothing *)
Lemma rescale_t_same old d : 0 < old -> rescale_t old old d = d.
Proof.
  intros H. pose proof (rescale_t_near old old d H) as A. set (r := rescale_t old old d) in *.
  destruct (Z_lt_le_dec r d) as [N|N].
  - assert (old * r <= old * (d - 1)) by (apply Z.mul_le_mono_nonneg_l; lia). lia.
  - destruct (Z_lt_le_dec d r) as [M|M]; [|lia].
    assert (old * (d + 1) <= old * r) by (apply Z.mul_le_mono_nonneg_l; lia). lia.
Qed.

Lemma rhe_nonneg q : (0 <= q)%Q -> 0 <= rhe q.
Proof.
  intros H. pose proof (rhe_near q) as A. apply Qabs_Qle_condition in A. destruct A as [_ A].
  assert (B : (- (1 # 2) <= (rhe q # 1))%Q) by lra. unfold Qle in B. simpl in B. lia.
Qed.

Lemma share_t_nonneg new n : 0 <= new -> 0 <= share_t new n.
Proof.
  intros H. unfold share_t. apply rhe_nonneg. unfold Qdiv. apply Qmult_le_0_compat; [unfold Qle; simpl; lia|].
  apply Qinv_le_0_compat. unfold Qle; simpl; lia.
Qed.

(* ================================================================ 3. (a) the duration setter *)
Definition in_range (old d : Z) : bool := (0 <=? d) && (d <=? old).
Definition set_dur_body (e : ev) (new : Z) : res ev :=
  if dur e =? 0 then Ok (map_leaves (fun _ => share_t new (length (children e))) e)
  else if all_leaf_durs (in_range (dur e)) e then Ok (map_leaves (rescale_t (dur e) new) e)
       else Err EValueError.

Theorem set_dur_leaf : forall d l new, set_dur (Leaf d l) new = Ok (Leaf new l).
Proof. reflexivity. Qed.
Theorem set_dur_leaf_dur : forall d l new e', set_dur (Leaf d l) new = Ok e' -> dur e' = new /\ shape e' = shape (Leaf d l).
Proof. intros d l new e' H. inversion H; subst. split; reflexivity. Qed.
Theorem set_dur_empty_seq : forall m new, set_dur (Seq m []) new = Err ECannotSetDurationOfEmpty.
Proof. reflexivity. Qed.
Theorem set_dur_empty_sim : forall m new, set_dur (Sim m []) new = Err ECannotSetDurationOfEmpty.
Proof. reflexivity. Qed.
Lemma set_dur_node e new : is_leaf e = false -> settable e = true -> set_dur e new = set_dur_body e new.
Proof. destruct e as [d l|m [|c r]|m [|c r]]; intros H1 H2; try discriminate; reflexivity. Qed.

(* exactly when the setter fails with the empty-container error *)
Theorem set_dur_empty_iff : forall e new, set_dur e new = Err ECannotSetDurationOfEmpty <-> settable e = false.
Proof.
  intros e new. destruct e as [d l|m [|c r]|m [|c r]]; split; intros H; try discriminate; try reflexivity.
  all: rewrite set_dur_node in H by reflexivity; unfold set_dur_body in H;
       repeat match type of H with context [if ?c then _ else _] => destruct c end; discriminate.
Qed.

(* well-formed trees pass the range assertion of core_utilities.scale: every leaf lies in [0, duration] *)
Lemma wf_in_range : forall e hi, wf e -> dur e <= hi -> all_leaf_durs (in_range hi) e = true.
Proof.
  induction e as [d l|m cs IH|m cs IH] using ev_ind'; intros hi W H.
  - simpl in *. unfold in_range. lia.
  - rewrite all_leaf_durs_seq. rewrite wf_seq in W. rewrite dur_seq in H.
    revert hi W H. induction cs as [|c r IHr]; intros hi W H; [reflexivity|]. inversion IH as [|? ? Hc Hr]; subst.
    rewrite wfs_cons in W. destruct W as [Wc Wr]. rewrite dsum_cons in H.
    pose proof (dur_nonneg c Wc). pose proof (dsum_nonneg r Wr).
    rewrite all_leaf_durs_list_cons, (Hc hi Wc), (IHr Hr hi Wr) by lia. reflexivity.
  - rewrite all_leaf_durs_sim. rewrite wf_sim in W. rewrite dur_sim in H.
    revert hi W H. induction cs as [|c r IHr]; intros hi W H; [reflexivity|]. inversion IH as [|? ? Hc Hr]; subst.
    rewrite wfs_cons in W. destruct W as [Wc Wr]. rewrite dmax_cons in H.
    rewrite all_leaf_durs_list_cons, (Hc hi Wc), (IHr Hr hi Wr) by lia. reflexivity.
Qed.

(* a container of non-zero duration: every leaf is rescaled *)
Theorem set_dur_nonzero : forall e new, is_leaf e = false -> settable e = true -> wf e -> dur e <> 0 ->
  set_dur e new = Ok (map_leaves (rescale_t (dur e) new) e).
Proof.
  intros e new H1 H2 W H0. rewrite set_dur_node by assumption. unfold set_dur_body.
  destruct (dur e =? 0) eqn:E; [lia|]. rewrite wf_in_range by (auto; lia). reflexivity.
Qed.

(* a container of duration zero: every leaf gets new / (number of direct children) *)
Theorem set_dur_zero : forall e new, is_leaf e = false -> settable e = true -> dur e = 0 ->
  set_dur e new = Ok (map_leaves (fun _ => share_t new (length (children e))) e).
Proof.
  intros e new H1 H2 H0. rewrite set_dur_node by assumption. unfold set_dur_body. rewrite H0. reflexivity.
Qed.

(* whatever the branch, the result is the old tree with new leaf durations *)
Lemma set_dur_map_leaves e new e' : set_dur e new = Ok e' -> exists f, e' = map_leaves f e.
Proof.
  intros H. destruct (is_leaf e) eqn:L.
  - destruct e; try discriminate. inversion H; subst. exists (fun _ => new). reflexivity.
  - destruct (settable e) eqn:S; [|apply set_dur_empty_iff with (new := new) in S; congruence].
    rewrite set_dur_node in H by assumption. unfold set_dur_body in H.
    destruct (dur e =? 0); [inversion H; eauto|].
    destruct (all_leaf_durs (in_range (dur e)) e); [inversion H; eauto|discriminate].
Qed.

(* structure unchanged *)
Theorem set_dur_shape : forall e new e', set_dur e new = Ok e' -> shape e' = shape e.
Proof. intros e new e' H. destruct (set_dur_map_leaves e new e' H) as [f ->]. apply map_leaves_shape. Qed.

Corollary set_dur_leaf_count e new e' : set_dur e new = Ok e' -> leaf_count e' = leaf_count e.
Proof. intros H. apply shape_leaf_count, (set_dur_shape e new e' H). Qed.

(* every leaf d becomes rhe (d * new / old), in order *)
Theorem set_dur_leaf_durs : forall e new e', is_leaf e = false -> wf e -> dur e <> 0 ->
  set_dur e new = Ok e' -> leaf_durs e' = map (rescale_t (dur e) new) (leaf_durs e).
Proof.
  intros e new e' L W H0 H.
  assert (S : settable e = true).
  { destruct (settable e) eqn:S; [reflexivity|]. apply set_dur_empty_iff with (new := new) in S. congruence. }
  rewrite set_dur_nonzero in H by assumption. inversion H; subst. apply map_leaves_leaf_durs.
Qed.

(* zero-length leaves stay zero-length *)
Theorem set_dur_zero_leaves_stay : forall e new e' i, is_leaf e = false -> wf e -> dur e <> 0 ->
  set_dur e new = Ok e' -> nth_error (leaf_durs e) i = Some 0 -> nth_error (leaf_durs e') i = Some 0.
Proof.
  intros e new e' i L W H0 H Hi. rewrite (set_dur_leaf_durs e new e' L W H0 H).
  rewrite nth_error_map, Hi. reflexivity.
Qed.

(* the duration after rescaling: within half a tick per leaf of the exact proportion;
   trees with simultaneities need 0 <= new (a maximum is only monotone for non-negative factors) *)
Lemma dur_approx old new f : 0 < old ->
  (forall d, Z.abs (2 * old * f d - 2 * new * d) <= old) ->
  forall e, seq_only e = true \/ 0 <= new ->
  Z.abs (2 * old * dur (map_leaves f e) - 2 * new * dur e) <= old * Z.of_nat (leaf_count e).
Proof.
  intros Hold Hf.
  induction e as [d l|m cs IH|m cs IH] using ev_ind'; intros HS.
  - simpl. rewrite Z.mul_1_r. apply Hf.
  - rewrite map_leaves_seq, !dur_seq, leaf_count_seq.
    assert (HS' : seq_only_list cs = true \/ 0 <= new) by (destruct HS as [HS|HS]; [left; exact HS|right; exact HS]).
    clear HS. induction cs as [|c r IHr]; [simpl; lia|].
    inversion IH as [|? ? Hc Hr]; subst.
    rewrite map_leaves_list_cons, !dsum_cons, leaf_count_list_cons, Nat2Z.inj_add.
    rewrite seq_only_list_cons in HS'.
    assert (A1 : Z.abs (2 * old * dur (map_leaves f c) - 2 * new * dur c) <= old * Z.of_nat (leaf_count c)).
    { apply Hc. destruct HS' as [HS'|HS']; [left; lia|right; exact HS']. }
    assert (A2 : Z.abs (2 * old * dsum (map_leaves_list f r) - 2 * new * dsum r) <= old * Z.of_nat (leaf_count_list r)).
    { apply (IHr Hr). destruct HS' as [HS'|HS']; [left; lia|right; exact HS']. }
    lia.
  - destruct HS as [HS|Hnew]; [discriminate|].
    rewrite map_leaves_sim, !dur_sim, leaf_count_sim.
    induction cs as [|c r IHr]; [simpl; lia|].
    inversion IH as [|? ? Hc Hr]; subst.
    rewrite map_leaves_list_cons, !dmax_cons, leaf_count_list_cons, Nat2Z.inj_add.
    assert (A1 := Hc (or_intror Hnew)). assert (A2 := IHr Hr).
    set (a' := dur (map_leaves f c)) in *. set (a := dur c) in *.
    set (s' := dmax (map_leaves_list f r)) in *. set (s := dmax r) in *.
    set (na := Z.of_nat (leaf_count c)) in *. set (ns := Z.of_nat (leaf_count_list r)) in *.
    assert (0 <= na) by (unfold na; lia). assert (0 <= ns) by (unfold ns; lia).
    assert (M1 : a' <= s' -> old * a' <= old * s') by (intros; apply Z.mul_le_mono_nonneg_l; lia).
    assert (M2 : s' <= a' -> old * s' <= old * a') by (intros; apply Z.mul_le_mono_nonneg_l; lia).
    assert (M3 : a <= s -> new * a <= new * s) by (intros; apply Z.mul_le_mono_nonneg_l; lia).
    assert (M4 : s <= a -> new * s <= new * a) by (intros; apply Z.mul_le_mono_nonneg_l; lia).
    destruct (Z.max_spec a' s') as [[? ->]|[? ->]]; destruct (Z.max_spec a s) as [[? ->]|[? ->]]; lia.
Qed.

(* (a) main: the new duration is the requested one up to half a tick per leaf *)
Theorem set_dur_total_gen : forall e new e', is_leaf e = false -> wf e -> dur e <> 0 ->
  seq_only e = true \/ 0 <= new ->
  set_dur e new = Ok e' ->
  2 * Z.abs (dur e' - new) <= Z.of_nat (leaf_count e).
Proof.
  intros e new e' L W H0 HS H.
  assert (S : settable e = true).
  { destruct (settable e) eqn:S; [reflexivity|]. apply set_dur_empty_iff with (new := new) in S. congruence. }
  rewrite set_dur_nonzero in H by assumption. inversion H; subst e'. clear H.
  assert (Hold : 0 < dur e) by (pose proof (dur_nonneg e W); lia).
  pose proof (dur_approx (dur e) new (rescale_t (dur e) new) Hold (fun d => rescale_t_near (dur e) new d Hold) e HS) as A.
  set (old := dur e) in *. set (X := dur (map_leaves (rescale_t old new) e)) in *. set (n := Z.of_nat (leaf_count e)) in *.
  replace (2 * old * X - 2 * new * old) with (old * (2 * (X - new))) in A by ring.
  rewrite Z.abs_mul, (Z.abs_eq old) in A by lia.
  apply Z.mul_le_mono_pos_l in A; lia.
Qed.

Theorem set_dur_total : forall e new e', is_leaf e = false -> seq_only e = true -> wf e -> dur e <> 0 ->
  set_dur e new = Ok e' ->
  2 * Z.abs (dur e' - new) <= Z.of_nat (leaf_count e).
Proof. intros e new e' L S W H0 H. apply (set_dur_total_gen e new e' L W H0 (or_introl S) H). Qed.

(* everything (a) asks for in one statement *)
Theorem set_dur_seq_only : forall e new, is_leaf e = false -> seq_only e = true -> wf e -> dur e <> 0 ->
  exists e', set_dur e new = Ok e' /\
    shape e' = shape e /\
    leaf_durs e' = map (rescale_t (dur e) new) (leaf_durs e) /\
    (forall i, nth_error (leaf_durs e) i = Some 0 -> nth_error (leaf_durs e') i = Some 0) /\
    2 * Z.abs (dur e' - new) <= Z.of_nat (leaf_count e).
Proof.
  intros e new L S W H0.
  assert (St : settable e = true).
  { destruct e as [d l|m [|c r]|m [|c r]]; try discriminate; try reflexivity. simpl in H0. lia. }
  exists (map_leaves (rescale_t (dur e) new) e).
  pose proof (set_dur_nonzero e new L St W H0) as E.
  split; [exact E|]. split; [apply (set_dur_shape e new _ E)|]. split; [apply (set_dur_leaf_durs e new _ L W H0 E)|].
  split; [intros i; apply (set_dur_zero_leaves_stay e new _ i L W H0 E)|apply (set_dur_total e new _ L S W H0 E)].
Qed.

(* the bound of (a) is attained: two leaves of one tick, new duration 3 ticks: both round 3/2 up to 2 *)
Example set_dur_bound_tight :
  let e := Seq meta0 [Leaf 1 1; Leaf 1 2] in
  set_dur e 3 = Ok (Seq meta0 [Leaf 2 1; Leaf 2 2]) /\ seq_only e = true /\ wf e /\
  2 * Z.abs (dur (Seq meta0 [Leaf 2 1; Leaf 2 2]) - 3) = Z.of_nat (leaf_count e).
Proof. split; [vm_compute; reflexivity|]. split; [reflexivity|]. split; [simpl; lia|reflexivity]. Qed.

(* well-formedness is kept when the new duration is not negative *)
Lemma map_leaves_wf f : (forall d, 0 <= d -> 0 <= f d) -> forall e, wf e -> wf (map_leaves f e).
Proof.
  intros Hf. induction e as [d l|m cs IH|m cs IH] using ev_ind'; intros W.
  - simpl in *. auto.
  - rewrite map_leaves_seq, wf_seq. rewrite wf_seq in W.
    induction cs as [|c r IHr]; [exact I|]. inversion IH as [|? ? Hc Hr]; subst.
    rewrite wfs_cons in W. rewrite map_leaves_list_cons, wfs_cons. destruct W; split; auto.
  - rewrite map_leaves_sim, wf_sim. rewrite wf_sim in W.
    induction cs as [|c r IHr]; [exact I|]. inversion IH as [|? ? Hc Hr]; subst.
    rewrite wfs_cons in W. rewrite map_leaves_list_cons, wfs_cons. destruct W; split; auto.
Qed.

Theorem set_dur_wf : forall e new e', wf e -> 0 <= new -> set_dur e new = Ok e' -> wf e'.
Proof.
  intros e new e' W Hn H. destruct (is_leaf e) eqn:L.
  - destruct e; try discriminate. inversion H; subst. exact Hn.
  - destruct (settable e) eqn:S; [|apply set_dur_empty_iff with (new := new) in S; congruence].
    rewrite set_dur_node in H by assumption. unfold set_dur_body in H.
    destruct (dur e =? 0) eqn:E.
    + inversion H; subst. apply map_leaves_wf; [|exact W]. intros d _. apply share_t_nonneg; exact Hn.
    + destruct (all_leaf_durs (in_range (dur e)) e); [|discriminate]. inversion H; subst.
      apply map_leaves_wf; [|exact W]. intros d Hd. apply rescale_t_nonneg; auto.
      pose proof (dur_nonneg e W). lia.
Qed.

(* on well-formed settable events the setter is total *)
Theorem set_dur_ok : forall e new, wf e -> settable e = true -> exists e', set_dur e new = Ok e'.
Proof.
  intros e new W S. destruct (is_leaf e) eqn:L.
  - destruct e; try discriminate. eexists; reflexivity.
  - destruct (Z.eq_dec (dur e) 0) as [E|E].
    + rewrite set_dur_zero by assumption. eauto.
    + rewrite set_dur_nonzero by assumption. eauto.
Qed.

(* lengthening a sequence-only tree never shortens it *)
Lemma map_leaves_dur_ge f : (forall d, 0 <= d -> d <= f d) -> forall e, seq_only e = true -> wf e -> dur e <= dur (map_leaves f e).
Proof.
  intros Hf. induction e as [d l|m cs IH|m cs IH] using ev_ind'; intros S W.
  - simpl in *. auto.
  - rewrite map_leaves_seq, !dur_seq. rewrite wf_seq in W. rewrite seq_only_seq in S.
    induction cs as [|c r IHr]; [simpl; lia|]. inversion IH as [|? ? Hc Hr]; subst.
    rewrite wfs_cons in W. rewrite seq_only_list_cons in S. rewrite map_leaves_list_cons, !dsum_cons. destruct W as [Wc Wr].
    assert (A1 : dur c <= dur (map_leaves f c)) by (apply Hc; [lia|exact Wc]).
    assert (A2 : dsum r <= dsum (map_leaves_list f r)) by (apply (IHr Hr); [lia|exact Wr]).
    lia.
  - discriminate.
Qed.

Lemma set_dur_grow e new e' : is_leaf e = false -> seq_only e = true -> wf e -> 0 < dur e -> dur e <= new ->
  set_dur e new = Ok e' -> dur e <= dur e'.
Proof.
  intros L S W H0 Hn H.
  assert (St : settable e = true).
  { destruct (settable e) eqn:St; [reflexivity|]. apply set_dur_empty_iff with (new := new) in St. congruence. }
  rewrite set_dur_nonzero in H by (auto; lia). inversion H; subst.
  apply map_leaves_dur_ge; auto. intros d Hd. apply rescale_t_ge; auto.
Qed.

(* ================================================================ 4. the loop of the unrestricted tie *)
Lemma tie_all_flat_nil cond rm a : tie_all_flat cond rm a [] = Ok [a].
Proof. reflexivity. Qed.
Lemma tie_all_flat_cons cond rm a b r : tie_all_flat cond rm a (b :: r) =
  if cond a b then (s <- merge_all rm a b ; tie_all_flat cond rm s r)
  else (t <- tie_all_flat cond rm b r ; Ok (a :: t)).
Proof. reflexivity. Qed.
Lemma tie_all_seq_cons cond rm m a r :
  tie_all cond rm (Seq m (a :: r)) = (cs <- tie_all_flat cond rm a r ; Ok (Seq m cs)).
Proof. reflexivity. Qed.
Lemma tie_all_sim_cons cond rm m a r :
  tie_all cond rm (Sim m (a :: r)) = (cs <- tie_all_flat cond rm a r ; Ok (Sim m cs)).
Proof. reflexivity. Qed.

Lemma tie_all_flat_ext cond cond' rm : (forall a b, cond a b = cond' a b) ->
  forall r a, tie_all_flat cond rm a r = tie_all_flat cond' rm a r.
Proof.
  intros H. induction r as [|b r IH]; intros a; [reflexivity|]. rewrite !tie_all_flat_cons, H.
  destruct (cond' a b).
  - destruct (merge_all rm a b) as [s|k]; simpl; [apply IH|reflexivity].
  - rewrite IH. reflexivity.
Qed.

(* one merge step seen from the survivor x: the other event contributes y >= 0 *)
Lemma set_dur_step x y : seq_only x = true -> wf x -> 0 < dur x -> 0 <= y ->
  exists s, set_dur x (y + dur x) = Ok s /\ shape s = shape x /\ seq_only s = true /\ wf s /\ dur x <= dur s /\
            2 * Z.abs (dur s - (y + dur x)) <= Z.of_nat (leaf_count x) /\
            (is_leaf x = true -> dur s = y + dur x).
Proof.
  intros S W Hx Hy. destruct (is_leaf x) eqn:L.
  - destruct x as [d l| |]; try discriminate. cbn [dur wf] in *. exists (Leaf (y + d) l).
    repeat split; try reflexivity; cbn [dur leaf_count wf]; lia.
  - assert (St : settable x = true).
    { destruct x as [d l|m [|c r]|m [|c r]]; try discriminate; try reflexivity; try (simpl in Hx; lia). }
    destruct (set_dur_ok x (y + dur x) W St) as [s E]. exists s.
    pose proof (set_dur_shape _ _ _ E) as Sh.
    split; [exact E|]. split; [exact Sh|]. split; [rewrite (shape_seq_only s x Sh); exact S|].
    split; [apply (set_dur_wf x (y + dur x) s W); [lia|exact E]|].
    split; [apply (set_dur_grow x (y + dur x) s L S W Hx); [lia|exact E]|].
    split; [apply (set_dur_total x (y + dur x) s L S W); [lia|exact E]|discriminate].
Qed.

(* ================================================================ 5. (b) always-true condition *)
Definition good (x : ev) : Prop := seq_only x = true /\ wf x /\ 0 < dur x.

(* event_to_remove = True: the first child survives and absorbs the others one by one *)
Theorem tie_all_flat_true_first cond : (forall a b, cond a b = true) ->
  forall r a, seq_only a = true -> wf a -> 0 < dur a -> Forall (fun c => 0 <= dur c) r ->
  exists s, tie_all_flat cond true a r = Ok [s] /\ shape s = shape a /\ seq_only s = true /\ wf s /\
            2 * Z.abs (dur s - dsum (a :: r)) <= Z.of_nat (length r) * Z.of_nat (leaf_count a) /\
            (is_leaf a = true -> dur s = dsum (a :: r)).
Proof.
  intros Hc. induction r as [|b r IH]; intros a S W Ha Hr.
  - exists a. rewrite tie_all_flat_nil, dsum_cons. cbn [dsum length Z.of_nat]. repeat split; auto; lia.
  - inversion Hr as [|? ? Hb Hr']; subst.
    destruct (set_dur_step a (dur b) S W Ha Hb) as (s1 & E1 & Sh1 & S1 & W1 & G1 & B1 & X1).
    destruct (IH s1 S1 W1 ltac:(lia) Hr') as (s & E & Sh & S' & W' & B & X).
    exists s. rewrite tie_all_flat_cons, Hc. unfold merge_all. rewrite E1. simpl bind.
    split; [exact E|]. split; [congruence|]. split; [exact S'|]. split; [exact W'|].
    rewrite (shape_leaf_count s1 a Sh1) in B. rewrite (shape_is_leaf s1 a Sh1) in X.
    rewrite !dsum_cons in *. cbn [length]. rewrite Nat2Z.inj_succ.
    set (L := Z.of_nat (leaf_count a)) in *. set (n := Z.of_nat (length r)) in *.
    split; [|intros HL; rewrite (X HL), (X1 HL); lia].
    replace (Z.succ n * L) with (n * L + L) by ring. lia.
Qed.

Lemma last_nonempty_default {A} (l : list A) x d d' : last (x :: l) d = last (x :: l) d'.
Proof. revert x. induction l as [|y l IH]; intros x; [reflexivity|]. change (last (y :: l) d = last (y :: l) d'). apply IH. Qed.

(* event_to_remove = False: the second member of every pair survives: the last child absorbs everything before it *)
Theorem tie_all_flat_true_last cond : (forall a b, cond a b = true) ->
  forall r a, 0 <= dur a -> Forall good r ->
  exists s, tie_all_flat cond false a r = Ok [s] /\ shape s = shape (last r a) /\
            2 * Z.abs (dur s - dsum (a :: r)) <= Z.of_nat (leaf_count_list r) /\
            (Forall (fun c => is_leaf c = true) r -> dur s = dsum (a :: r)).
Proof.
  intros Hc. induction r as [|b r IH]; intros a Ha Hr.
  - exists a. rewrite tie_all_flat_nil, dsum_cons. cbn [dsum last leaf_count_list Z.of_nat]. repeat split; auto; lia.
  - inversion Hr as [|? ? Hb Hr']; subst. destruct Hb as (Sb & Wb & Db).
    destruct (set_dur_step b (dur a) Sb Wb Db Ha) as (s1 & E1 & Sh1 & S1 & W1 & G1 & B1 & X1).
    destruct (IH s1 ltac:(lia) Hr') as (s & E & Sh & B & X).
    exists s. rewrite tie_all_flat_cons, Hc. unfold merge_all. rewrite E1. simpl bind.
    split; [exact E|]. split.
    { rewrite Sh. destruct r as [|c r']; [exact Sh1|]. f_equal. change (last (b :: c :: r') a) with (last (c :: r') a). apply last_nonempty_default. }
    rewrite !dsum_cons in *. rewrite leaf_count_list_cons, Nat2Z.inj_add.
    split; [lia|]. intros HL. inversion HL as [|? ? Lb Lr]; subst. rewrite (X Lr), (X1 Lb). lia.
Qed.

Lemma leaf_count_list_le_total cs c : In c cs -> (leaf_count c <= leaf_count_list cs)%nat.
Proof.
  induction cs as [|x r IH]; [intros []|]. rewrite leaf_count_list_cons. intros [->|H]; [lia|]. specialize (IH H). lia.
Qed.

(* (b) main statement on the container.
   What is proved about the duration: with n children and event_to_remove = True the first child is rescaled
   n-1 times, each time within half a tick per leaf OF THE FIRST CHILD; with event_to_remove = False each child
   from the second on is rescaled once, so the error is at most half a tick per leaf of the children 2..n.
   Both are below the coarse bound (n-1) * (all leaves)/2. *)
Theorem tie_all_true : forall cond rm m c cs, (forall a b, cond a b = true) -> Forall good (c :: cs) ->
  exists s, tie_all cond rm (Seq m (c :: cs)) = Ok (Seq m [s]) /\
    shape s = shape (if rm then c else last cs c) /\
    2 * Z.abs (dur (Seq m [s]) - dur (Seq m (c :: cs)))
      <= (if rm then Z.of_nat (length cs) * Z.of_nat (leaf_count c) else Z.of_nat (leaf_count_list cs)) /\
    2 * Z.abs (dur (Seq m [s]) - dur (Seq m (c :: cs)))
      <= Z.of_nat (length cs) * Z.of_nat (leaf_count (Seq m (c :: cs))).
Proof.
  intros cond rm m c cs Hc HG. inversion HG as [|? ? Gc Gcs]; subst. destruct Gc as (Sc & Wc & Dc).
  rewrite tie_all_seq_cons, !dur_seq, leaf_count_seq, leaf_count_list_cons, Nat2Z.inj_add.
  set (Lc := Z.of_nat (leaf_count c)). set (Lr := Z.of_nat (leaf_count_list cs)). set (n := Z.of_nat (length cs)).
  assert (0 <= Lc) by (unfold Lc; lia). assert (0 <= Lr) by (unfold Lr; lia). assert (0 <= n) by (unfold n; lia).
  destruct rm.
  - assert (Hr : Forall (fun x => 0 <= dur x) cs).
    { eapply Forall_impl; [|exact Gcs]. intros x (_ & _ & Hx). lia. }
    destruct (tie_all_flat_true_first cond Hc cs c Sc Wc Dc Hr) as (s & E & Sh & _ & _ & B & _).
    exists s. rewrite E. simpl bind. split; [reflexivity|]. split; [exact Sh|].
    change (dur (Seq m [s])) with (dur s + 0). fold Lc n in B. rewrite Z.add_0_r.
    split; [exact B|]. assert (n * Lc <= n * (Lc + Lr)) by (apply Z.mul_le_mono_nonneg_l; lia). lia.
  - destruct (tie_all_flat_true_last cond Hc cs c ltac:(lia) Gcs) as (s & E & Sh & B & _).
    exists s. rewrite E. simpl bind. split; [reflexivity|]. split; [exact Sh|].
    change (dur (Seq m [s])) with (dur s + 0). fold Lr in B. rewrite Z.add_0_r.
    split; [exact B|].
    destruct cs as [|c2 cs2]; [unfold Lr, n in *; simpl in *; lia|].
    assert (1 <= n) by (unfold n; cbn [length]; lia).
    assert (1 * (Lc + Lr) <= n * (Lc + Lr)) by (apply Z.mul_le_mono_nonneg_r; lia). lia.
Qed.

(* ---- children that are all leaves: no rounding, and the unrestricted tie IS the leaf-restricted one,
        for every condition and both values of event_to_remove *)
Theorem tie_all_flat_leaves : forall cond rm r a, all_leaves (a :: r) ->
  tie_all_flat cond rm a r = Ok (tie_flat cond rm a r).
Proof.
  intros cond rm. induction r as [|b r IH]; intros a H; [reflexivity|].
  inversion H as [|? ? La Hr]; subst. inversion Hr as [|? ? Lb Hr']; subst.
  rewrite tie_all_flat_cons, tie_flat_cons, La, Lb. cbn [andb].
  destruct (cond a b).
  - assert (E : merge_all rm a b = Ok (merge_leaf rm a b)).
    { destruct a as [d1 l1| |], b as [d2 l2| |]; try discriminate. destruct rm; reflexivity. }
    rewrite E. simpl bind. apply IH. constructor; [|exact Hr'].
    apply merge_leaf_is_leaf; assumption.
  - rewrite (IH b Hr). reflexivity.
Qed.

Lemma tie_by_leaves_id cond rm ls : all_leaves ls -> map (tie_by cond rm) ls = ls.
Proof. induction 1 as [|x l Hx Hl IH]; [reflexivity|]. cbn [map]. rewrite IH. destruct x; try discriminate. reflexivity. Qed.

Theorem tie_all_leaves_agree : forall cond rm m ls, all_leaves ls ->
  tie_all cond rm (Seq m ls) = Ok (tie_by cond rm (Seq m ls)).
Proof.
  intros cond rm m ls H. rewrite tie_by_nested_seq, (tie_by_leaves_id cond rm ls H).
  destruct ls as [|a r]; [reflexivity|]. rewrite tie_all_seq_cons, (tie_all_flat_leaves cond rm r a H). reflexivity.
Qed.

(* hence the total is unchanged exactly (tie_flat_dsum of Access.v) *)
Corollary tie_all_leaves_dur : forall cond rm m ls e', all_leaves ls ->
  tie_all cond rm (Seq m ls) = Ok e' -> dur e' = dur (Seq m ls).
Proof.
  intros cond rm m ls e' H E. rewrite (tie_all_leaves_agree cond rm m ls H) in E.
  assert (E' : e' = tie_by cond rm (Seq m ls)) by congruence. rewrite E'. clear E E'.
  apply tie_by_dur. rewrite no_sim_seq. induction H as [|x l Hx Hl IH]; [exact I|].
  split; [destruct x; try discriminate; exact I|exact IH].
Qed.

(* always-true condition on leaves: one leaf, the exact sum, the label of the first / last *)
Theorem tie_all_true_leaves : forall cond rm m c cs, (forall a b, cond a b = true) -> all_leaves (c :: cs) ->
  tie_all cond rm (Seq m (c :: cs)) =
  Ok (Seq m [Leaf (dsum (c :: cs)) (label_of (if rm then c else last cs c))]).
Proof.
  intros cond rm m c cs Hc H. rewrite tie_all_seq_cons, (tie_all_flat_leaves cond rm cs c H). simpl bind. do 2 f_equal.
  revert c H. induction cs as [|b r IH]; intros a H.
  - rewrite tie_flat_nil. inversion H as [|? ? La _]; subst. destruct a; try discriminate. rewrite dsum_cons. cbn [dsum dur last label_of].
    rewrite Z.add_0_r. destruct rm; reflexivity.
  - inversion H as [|? ? La Hr]; subst. inversion Hr as [|? ? Lb Hr']; subst.
    rewrite tie_flat_cons, La, Lb, Hc. cbn [andb].
    rewrite IH by (constructor; [apply merge_leaf_is_leaf; assumption|exact Hr']).
    destruct a as [d1 l1| |], b as [d2 l2| |]; try discriminate.
    rewrite !dsum_cons. cbn [dur]. destruct rm; cbn [merge_leaf dur label_of].
    + replace (d2 + d1 + dsum r) with (d1 + (d2 + dsum r)) by lia. reflexivity.
    + replace (d1 + d2 + dsum r) with (d1 + (d2 + dsum r)) by lia. do 2 f_equal. destruct r as [|x r']; [reflexivity|]. f_equal.
      change (last (Leaf d2 l2 :: x :: r') (Leaf d1 l1)) with (last (x :: r') (Leaf d1 l1)). apply last_nonempty_default.
Qed.

(* ================================================================ 6. (c) key conditions: one child per maximal run *)
(* the unrestricted tie never fails on well-formed children that are leaves or non-empty containers,
   whatever the condition *)
Definition tieable (c : ev) : Prop := wf c /\ settable c = true.

Lemma merge_all_ok rm a b : tieable a -> tieable b ->
  exists s, merge_all rm a b = Ok s /\ tieable s /\ shape s = shape (if rm then a else b).
Proof.
  intros [Wa Sa] [Wb Sb]. pose proof (dur_nonneg a Wa). pose proof (dur_nonneg b Wb).
  unfold merge_all. destruct rm.
  - destruct (set_dur_ok a (dur b + dur a) Wa Sa) as [s E]. exists s. pose proof (set_dur_shape _ _ _ E) as Sh.
    split; [exact E|]. split; [|exact Sh]. split; [apply (set_dur_wf a (dur b + dur a) s Wa); [lia|exact E]|].
    rewrite (shape_settable s a Sh). exact Sa.
  - destruct (set_dur_ok b (dur a + dur b) Wb Sb) as [s E]. exists s. pose proof (set_dur_shape _ _ _ E) as Sh.
    split; [exact E|]. split; [|exact Sh]. split; [apply (set_dur_wf b (dur a + dur b) s Wb); [lia|exact E]|].
    rewrite (shape_settable s b Sh). exact Sb.
Qed.

Theorem tie_all_flat_ok : forall cond rm r a, Forall tieable (a :: r) ->
  exists res, tie_all_flat cond rm a r = Ok res /\ Forall tieable res.
Proof.
  intros cond rm. induction r as [|b r IH]; intros a H.
  - exists (a :: nil). split; [reflexivity|exact H].
  - inversion H as [|? ? Ta Hr]; subst. inversion Hr as [|? ? Tb Hr']; subst.
    rewrite tie_all_flat_cons. destruct (cond a b).
    + destruct (merge_all_ok rm a b Ta Tb) as (s & E & Ts & _). rewrite E. simpl bind.
      apply IH. constructor; assumption.
    + destruct (IH b Hr) as (t & E & Tt). rewrite E. simpl bind. exists (a :: t). split; [reflexivity|].
      constructor; assumption.
Qed.

(* conversely an empty container that has to survive a merge stops the whole operation *)
Theorem tie_all_flat_empty_survivor : forall cond (rm : bool) (a b : ev) r,
  cond a b = true -> settable (if rm then a else b) = false ->
  tie_all_flat cond rm a (b :: r) = Err ECannotSetDurationOfEmpty.
Proof.
  intros cond rm a b r Hc Hs. rewrite tie_all_flat_cons, Hc. unfold merge_all. destruct rm.
  - apply (set_dur_empty_iff a (dur b + dur a)) in Hs. rewrite Hs. reflexivity.
  - apply (set_dur_empty_iff b (dur a + dur b)) in Hs. rewrite Hs. reflexivity.
Qed.

(* any condition: between 1 and all children remain *)
Theorem tie_all_flat_length_partial : forall cond rm r a res, tie_all_flat cond rm a r = Ok res ->
  (1 <= length res <= S (length r))%nat.
Proof.
  intros cond rm. induction r as [|b r IH]; intros a res H.
  - inversion H; subst. simpl. lia.
  - rewrite tie_all_flat_cons in H. destruct (cond a b).
    + destruct (merge_all rm a b) as [s|k]; simpl in H; [|discriminate]. specialize (IH s res H). simpl. lia.
    + destruct (tie_all_flat cond rm b r) as [t|k] eqn:E; simpl in H; [|discriminate]. inversion H; subst.
      specialize (IH b t E). simpl. lia.
Qed.

Lemma Forall2_len {A B} (R : A -> B -> Prop) l l' : Forall2 R l l' -> length l = length l'.
Proof. induction 1; simpl; congruence. Qed.

Section KeyRunsAll.
  Variable key : ev -> Z.
  (* the key does not look at durations that the setter changes (e.g. it is a function of the shape) *)
  Definition key_stable : Prop := forall e new e', set_dur e new = Ok e' -> key e' = key e.
  Hypothesis Hkey : key_stable.

  Definition dflt : ev := Leaf 0 0.
  Definition pick (rm : bool) (run : list ev) : ev := if rm then hd dflt run else last run dflt.
  (* child x of the result stands for the run: same key, and the shape of the run's first / last member *)
  Definition stands_for (rm : bool) (x : ev) (run : list ev) : Prop :=
    key x = key (hd dflt run) /\ shape x = shape (pick rm run).

  Lemma merge_all_key rm a b s : key a = key b -> merge_all rm a b = Ok s ->
    key s = key b /\ shape s = shape (if rm then a else b).
  Proof.
    intros K E. unfold merge_all in E. destruct rm.
    - split; [rewrite (Hkey _ _ _ E); exact K|apply (set_dur_shape _ _ _ E)].
    - split; [apply (Hkey _ _ _ E)|apply (set_dur_shape _ _ _ E)].
  Qed.

  (* (c) main: the children of the result correspond one to one, in order, to the maximal runs of equal keys
     (runs = Proofs/Access.v, characterised there independently by runs_unique) *)
  Theorem tie_all_flat_runs rm : forall r a res,
    tie_all_flat (key_cond key) rm a r = Ok res ->
    Forall2 (stands_for rm) res (runs key (a :: r)).
  Proof.
    induction r as [|b r IH]; intros a res H.
    - inversion H; subst. cbn [runs]. constructor; [|constructor]. split; [reflexivity|]. destruct rm; reflexivity.
    - destruct (runs_head key b r) as (run & rs & Hrun).
      rewrite tie_all_flat_cons in H. rewrite (runs_cons2 key a b r run rs Hrun).
      unfold key_cond at 1 in H. destruct (key a =? key b) eqn:K.
      + destruct (merge_all rm a b) as [s|k] eqn:M; simpl in H; [|discriminate].
        destruct (merge_all_key rm a b s ltac:(lia) M) as [Ks Shs].
        specialize (IH s res H). rewrite (runs_swap_head key s b r run rs Ks Hrun) in IH.
        inversion IH as [|x ? res' ? [Kx Shx] Hrest]; subst. constructor; [|exact Hrest].
        split.
        * cbn [hd] in *. lia.
        * rewrite Shx. unfold pick. destruct rm; cbn [hd].
          -- exact Shs.
          -- destruct run as [|y run'].
             ++ exact Shs.
             ++ reflexivity.
      + destruct (tie_all_flat (key_cond key) rm b r) as [t|k] eqn:E; simpl in H; [|discriminate].
        inversion H; subst. specialize (IH b t E). rewrite Hrun in IH.
        constructor; [|exact IH]. split; [reflexivity|]. destruct rm; reflexivity.
  Qed.

  Corollary tie_all_flat_runs_length rm r a res :
    tie_all_flat (key_cond key) rm a r = Ok res -> length res = length (runs key (a :: r)).
  Proof. intros H. apply (Forall2_len _ _ _ (tie_all_flat_runs rm r a res H)). Qed.

  (* the tie is complete: no two neighbouring children of the result have the same key *)
  Lemma stands_for_adj rm : forall res rs, Forall2 (stands_for rm) res rs ->
    Forall (fun run => run <> []) rs -> adj (keys_differ key) rs -> adj (fun x y => key x <> key y) res.
  Proof.
    induction 1 as [|x run res' rs [Kx _] F IH]; intros Hne Hadj; [exact I|].
    inversion Hne as [|? ? N1 Hne']; subst. destruct Hadj as [A1 Hadj'].
    split; [|apply IH; assumption].
    destruct F as [|y run2 res'' rs' [Ky _] F']; [exact I|].
    inversion Hne' as [|? ? N2 _]; subst.
    destruct run as [|u run]; [congruence|]. destruct run2 as [|v run2]; [congruence|].
    cbn [hd] in *. rewrite Kx, Ky. apply A1; left; reflexivity.
  Qed.
  Corollary tie_all_flat_no_adjacent rm r a res :
    tie_all_flat (key_cond key) rm a r = Ok res -> adj (fun x y => key x <> key y) res.
  Proof.
    intros H. apply (stands_for_adj rm res (runs key (a :: r)) (tie_all_flat_runs rm r a res H)).
    - apply runs_nonempty.
    - apply runs_maximal.
  Qed.

  (* on the container, with totality: tieable children, any nesting and kinds *)
  Theorem tie_all_runs rm m cs : Forall tieable cs ->
    exists res, tie_all (key_cond key) rm (Seq m cs) = Ok (Seq m res) /\
      length res = length (runs key cs) /\
      Forall2 (stands_for rm) res (runs key cs) /\
      adj (fun x y => key x <> key y) res.
  Proof.
    intros H. destruct cs as [|a r].
    - exists (@nil ev). split; [reflexivity|]. split; [reflexivity|]. split; [constructor|exact I].
    - destruct (tie_all_flat_ok (key_cond key) rm r a H) as (res & E & _). exists res.
      rewrite tie_all_seq_cons, E. split; [reflexivity|].
      split; [apply (tie_all_flat_runs_length rm r a res E)|].
      split; [apply (tie_all_flat_runs rm r a res E)|apply (tie_all_flat_no_adjacent rm r a res E)].
  Qed.
End KeyRunsAll.

(* keys computed from the shape (labels, tags, kinds, nesting) are stable *)
Theorem key_of_shape_stable : forall g : sh -> Z, key_stable (fun e => g (shape e)).
Proof. intros g e new e' H. cbv beta. rewrite (set_dur_shape e new e' H). reflexivity. Qed.

(* a condition on durations is NOT covered by the run theorem: the survivor's duration changes, and with it
   later comparisons; with  cond a b := dur a <=? dur b  three leaves 1 2 2 give one child, although the pairs
   (1,2) and (2,2) satisfy it and a pairwise grouping by the ORIGINAL durations 2 <= 2 would not
   distinguish it from 1 3 2, where the merged 4 is no longer <= 2 *)
Example cond_on_durations_not_runs :
  tie_all (fun a b => dur a <=? dur b) true (Seq meta0 [Leaf 1 1; Leaf 3 2; Leaf 2 3]) = Ok (Seq meta0 [Leaf 4 1; Leaf 2 3]) /\
  tie_all (fun a b => dur a <=? dur b) false (Seq meta0 [Leaf 1 1; Leaf 3 2; Leaf 2 3]) = Ok (Seq meta0 [Leaf 4 2; Leaf 2 3]) /\
  tie_all (fun a b => dur a <=? dur b) true (Seq meta0 [Leaf 1 1; Leaf 1 2; Leaf 2 3]) = Ok (Seq meta0 [Leaf 4 1]).
Proof. vm_compute. repeat split; reflexivity. Qed.

(* ================================================================ 7. (d) examples *)
Definition t1 : meta := mkMeta 1 0.
Definition t2 : meta := mkMeta 2 0.
Definition t3 : meta := mkMeta 3 0.
Definition always (a b : ev) : bool := true.

(* three children: a nested sequence, a leaf, a sequence ending in a zero-length leaf *)
Definition ex3 : ev := Seq meta0 [Seq t1 [Leaf 1 1; Seq t2 [Leaf 2 2]]; Leaf 1 3; Seq t3 [Leaf 3 4; Leaf 0 5]].
(* event_to_remove = True: the first child is rescaled 3 -> 4 (1, 2 become 1, 3), then 4 -> 7 (2, 5) *)
Example ex3_first : tie_all always true ex3 = Ok (Seq meta0 [Seq t1 [Leaf 2 1; Seq t2 [Leaf 5 2]]]).
Proof. vm_compute. reflexivity. Qed.
(* event_to_remove = False: the leaf takes 3 + 1 = 4, then the last child is rescaled 3 -> 7; its zero-length leaf stays *)
Example ex3_last : tie_all always false ex3 = Ok (Seq meta0 [Seq t3 [Leaf 7 4; Leaf 0 5]]).
Proof. vm_compute. reflexivity. Qed.
Example ex3_good : Forall good (children ex3).
Proof. repeat constructor; simpl; lia. Qed.

(* an empty container that has to survive stops the operation; as the removed member it is harmless *)
Example ex_empty_survivor : tie_all always false (Seq meta0 [Leaf 1 1; Seq t1 []]) = Err ECannotSetDurationOfEmpty.
Proof. vm_compute. reflexivity. Qed.
Example ex_empty_removed : tie_all always true (Seq meta0 [Leaf 1 1; Seq t1 []]) = Ok (Seq meta0 [Leaf 1 1]).
Proof. vm_compute. reflexivity. Qed.
Example ex_leaf_has_no_tie : tie_all always true (Leaf 1 1) = Err EAttributeError.
Proof. reflexivity. Qed.
(* a negative leaf trips the range assertion of core_utilities.scale *)
Example ex_value_error : set_dur (Seq t1 [Leaf 3 1; Leaf (-1) 2]) 7 = Err EValueError.
Proof. vm_compute. reflexivity. Qed.

(* the setter on a tree with a simultaneity (hypotheses of set_dur_total_gen) *)
Definition ex_sim : ev := Sim t1 [Seq t2 [Leaf 2 1; Leaf 1 2]; Leaf 2 3].
Example ex_sim_set : set_dur ex_sim 7 = Ok (Sim t1 [Seq t2 [Leaf 5 1; Leaf 2 2]; Leaf 5 3]).
Proof. vm_compute. reflexivity. Qed.
Example ex_sim_hyp : is_leaf ex_sim = false /\ wf ex_sim /\ dur ex_sim <> 0 /\ (seq_only ex_sim = true \/ 0 <= 7).
Proof. split; [reflexivity|]. split; [simpl; lia|]. split; [discriminate|right; lia]. Qed.

(* a key condition on mixed children: keys = tag / label mod 2 (a function of the shape) *)
Definition keyt (e : ev) : Z :=
  match shape e with ShL l => l mod 2 | ShSeq m _ | ShSim m _ => tag m mod 2 end.
Definition ex5 : ev :=
  Seq meta0 [Seq t1 [Leaf 1 1; Sim t2 [Leaf 2 2; Leaf 1 7]]; Leaf 1 3; Seq t2 [Leaf 3 4; Leaf 0 5]; Sim t2 [Leaf 2 6]; Leaf 5 9].
Example ex5_runs : map (map keyt) (runs keyt (children ex5)) = [[1; 1]; [0; 0]; [1]].
Proof. vm_compute. reflexivity. Qed.
Example ex5_first : tie_all (key_cond keyt) true ex5 =
  Ok (Seq meta0 [Seq t1 [Leaf 1 1; Sim t2 [Leaf 3 2; Leaf 1 7]]; Seq t2 [Leaf 5 4; Leaf 0 5]; Leaf 5 9]).
Proof. vm_compute. reflexivity. Qed.
Example ex5_last : tie_all (key_cond keyt) false ex5 = Ok (Seq meta0 [Leaf 4 3; Sim t2 [Leaf 5 6]; Leaf 5 9]).
Proof. vm_compute. reflexivity. Qed.
Example ex5_hyp : key_stable keyt /\ Forall tieable (children ex5).
Proof.
  split; [exact (key_of_shape_stable (fun s => match s with ShL l => l mod 2 | ShSeq m _ | ShSim m _ => tag m mod 2 end))|].
  repeat constructor; simpl; lia.
Qed.

(* ---- observations about the coded behaviour outside the hypotheses of (b) (both reproduced on the Python code) *)
(* a survivor of duration zero takes the branch "new / number of direct children" for EVERY leaf below it:
   the sequence of total 10 lasts 20 afterwards *)
Theorem tie_all_zero_survivor_refuted : exists e e',
  wf e /\ seq_only e = true /\ tie_all always true e = Ok e' /\ dur e = 10 /\ dur e' = 20.
Proof.
  exists (Seq meta0 [Seq t1 [Seq t2 [Leaf 0 1; Leaf 0 2]]; Leaf 10 9]). eexists.
  split; [simpl; lia|]. split; [reflexivity|]. split; [vm_compute; reflexivity|]. split; reflexivity.
Qed.
(* a non-empty survivor without any leaf swallows the removed duration silently *)
Theorem tie_all_leafless_survivor_refuted : exists e e',
  wf e /\ seq_only e = true /\ tie_all always true e = Ok e' /\ dur e = 10 /\ dur e' = 0.
Proof.
  exists (Seq meta0 [Seq t1 [Seq t2 []]; Leaf 10 9]). eexists.
  split; [simpl; lia|]. split; [reflexivity|]. split; [vm_compute; reflexivity|]. split; reflexivity.
Qed.
(* the setter itself on a zero-length container: 7 requested, 12 obtained *)
Example set_dur_zero_overshoots :
  set_dur (Seq t1 [Seq t2 [Leaf 0 1; Leaf 0 2]; Leaf 0 3]) 7 = Ok (Seq t1 [Seq t2 [Leaf 4 1; Leaf 4 2]; Leaf 4 3]).
Proof. vm_compute. reflexivity. Qed.

Print Assumptions set_dur_leaf.
Print Assumptions set_dur_seq_only.
Print Assumptions set_dur_total_gen.
Print Assumptions set_dur_shape.
Print Assumptions set_dur_wf.
Print Assumptions shape_leaf_durs_inj.
Print Assumptions tie_all_flat_true_first.
Print Assumptions tie_all_flat_true_last.
Print Assumptions tie_all_true.
Print Assumptions tie_all_leaves_agree.
Print Assumptions tie_all_true_leaves.
Print Assumptions tie_all_flat_ok.
Print Assumptions tie_all_flat_empty_survivor.
Print Assumptions tie_all_flat_runs.
Print Assumptions tie_all_runs.
Print Assumptions key_of_shape_stable.
Print Assumptions tie_all_zero_survivor_refuted.
Print Assumptions tie_all_leafless_survivor_refuted.
