(* C01, last sentence: "This stays true after any sequence of edits to the tree or to its children."
   Durations, start times, ranges and the lookup are DERIVED from the leaves (they are functions of the
   current tree), so the C01 theorems hold for every tree, in particular for every tree reached by
   edits.  What an edit history has to preserve for them to apply is well-formedness (no negative
   leaf); that is proved here for every editing operation of the model, at the root or at any nested
   child, and lifted to histories by induction. *)
From Coq Require Import ZArith List Bool Lia.
From MV Require Import Base.Res Model.EventTree Model.TreeOps Proofs.TreeLemmas Proofs.CutOut Proofs.CutOff
  Proofs.SplitBase Proofs.Squash Proofs.Slide Proofs.Extend Proofs.Refine Proofs.Access Proofs.Lookup.
Import ListNotations.
Open Scope Z_scope.

Inductive edit :=
| ECutOut (s en : Z)
| ECutOff (s en : Z)
| ESquash (start : Z) (new : ev)
| ESlide (start : Z) (new : ev)
| ESplitChild (t : Z)
| EExtend (d : Z)
| ETie (cond : ev -> ev -> bool) (rm : bool)
| ERemove (keep : ev -> bool)
| ESetLeaf (d : Z)                       (* assign a duration to a leaf *)
| EChild (i : nat) (e : edit).           (* apply an edit to the i-th child *)

Fixpoint apply_edit (ed : edit) (e : ev) : res ev :=
  match ed with
  | ECutOut s en => cut_out e s en
  | ECutOff s en => cut_off e s en
  | ESquash start new => squash_in e start new
  | ESlide start new => slide_in e start new
  | ESplitChild t => split_child_at e t
  | EExtend d => extend_until true e d
  | ETie cond rm => Ok (tie_by cond rm e)
  | ERemove keep => Ok (remove_by keep e)
  | ESetLeaf d => match e with Leaf _ l => Ok (Leaf d l) | _ => Err EAttributeError end
  | EChild i ed' =>
      match nth_error (children e) i with
      | None => Err EIndexError
      | Some c => c' <- apply_edit ed' c ; Ok (with_children e (replace_at i c' (children e)))
      end
  end.

(* the arguments the documented API accepts *)
Fixpoint edit_ok (ed : edit) (e : ev) : Prop :=
  match ed with
  | ECutOut s en | ECutOff s en => 0 <= s /\ s <= en
  | ESquash start new | ESlide start new => wf new /\ 0 <= start /\ sq_ok start e
  | ESplitChild t => 0 <= t
  | ESetLeaf d => 0 <= d
  | EChild i ed' => match nth_error (children e) i with Some c => edit_ok ed' c | None => True end
  | _ => True
  end.

Lemma wfs_In cs c : wfs cs -> In c cs -> wf c.
Proof. induction cs as [|x r IH]; simpl; [tauto|]. intros [H1 H2] [<-|Hc]; auto. Qed.
Lemma wfs_forall cs : (forall c, In c cs -> wf c) -> wfs cs.
Proof. induction cs as [|x r IH]; simpl; intros H; [exact I|]. split; [apply H; left; reflexivity|apply IH; intros; apply H; right; assumption]. Qed.
Lemma wf_children e : wf e -> wfs (children e).
Proof. destruct e; simpl; auto. Qed.
Lemma wf_with_children e cs : wf e -> wfs cs -> wf (with_children e cs).
Proof. destruct e; simpl; auto. Qed.
Lemma in_firstn {A} (x : A) n l : In x (firstn n l) -> In x l.
Proof. revert l. induction n as [|n IH]; intros [|y l]; simpl; try tauto. intros [->|H]; auto. Qed.
Lemma in_skipn {A} (x : A) n l : In x (skipn n l) -> In x l.
Proof. revert l. induction n as [|n IH]; intros [|y l]; simpl; try tauto. intros H. right. apply IH. exact H. Qed.
Lemma wfs_replace_at cs i c : wfs cs -> wf c -> wfs (replace_at i c cs).
Proof.
  intros H Hc. unfold replace_at. apply wfs_app. split.
  - apply wfs_forall. intros x Hx. apply (wfs_In cs); auto. eapply in_firstn; exact Hx.
  - rewrite wfs_cons. split; [exact Hc|]. apply wfs_forall. intros x Hx. apply (wfs_In cs); auto. apply (in_skipn x (S i)); exact Hx.
Qed.
Lemma wfs_filter keep cs : wfs cs -> wfs (filter keep cs).
Proof.
  intros H. apply wfs_forall. intros c Hc. apply filter_In in Hc. destruct Hc as [Hc _]. apply (wfs_In cs); auto.
Qed.

Theorem edit_preserves_wf : forall ed e e', wf e -> edit_ok ed e -> apply_edit ed e = Ok e' -> wf e'.
Proof.
  induction ed as [s en|s en|start new|start new|t|d|cond rm|keep|d|i ed' IH]; intros e e' Hwf Hok H; cbn [apply_edit edit_ok] in *.
  - destruct Hok as [H0 H1]. exact (proj2 (cutout_dur e s en e' Hwf H0 H1 H)).
  - destruct Hok as [H0 H1]. exact (proj2 (cutoff_dur e s en e' Hwf H0 H1 H)).
  - destruct Hok as (Hn & H0 & Hsq). destruct (squash_in_spec new start Hn H0 e Hwf Hsq) as (e2 & E2 & P).
    rewrite E2 in H. inversion H; subst. exact (proj1 (proj2 P)).
  - destruct Hok as (Hn & H0 & Hsq). destruct (slide_in_spec new start Hn H0 e Hwf Hsq) as (e2 & E2 & P).
    rewrite E2 in H. inversion H; subst. exact (proj1 (proj2 P)).
  - exact (proj1 (split_child_at_same e t e' Hwf Hok H)).
  - exact (proj2 (extend_dur d e e' H Hwf)).
  - inversion H; subst. apply tie_by_wf. exact Hwf.
  - inversion H; subst. unfold remove_by. apply wf_with_children; [exact Hwf|]. apply wfs_filter. apply wf_children. exact Hwf.
  - destruct e as [d0 l|m cs|m cs]; try discriminate. inversion H; subst. simpl. exact Hok.
  - destruct (nth_error (children e) i) as [c|] eqn:E; [|discriminate].
    destruct (apply_edit ed' c) as [c'|k] eqn:Ec; simpl in H; [|discriminate]. inversion H; subst.
    apply wf_with_children; [exact Hwf|]. apply wfs_replace_at; [apply wf_children; exact Hwf|].
    apply (IH c c'); auto. apply (wfs_In (children e)); [apply wf_children; exact Hwf|]. eapply nth_error_In; eassumption.
Qed.

(* histories: every edit gets valid arguments for the tree it is applied to *)
Inductive reaches : ev -> list edit -> ev -> Prop :=
| reaches_nil e : reaches e [] e
| reaches_cons e ed e1 r e2 : edit_ok ed e -> apply_edit ed e = Ok e1 -> reaches e1 r e2 -> reaches e (ed :: r) e2.

Theorem history_preserves_wf : forall e eds e', wf e -> reaches e eds e' -> wf e'.
Proof.
  intros e eds e' Hwf H. induction H as [e|e ed e1 r e2 Hok Happ _ IH]; [exact Hwf|].
  apply IH. eapply edit_preserves_wf; eassumption.
Qed.

(* hence everything C01 states holds in every state reached by edits; spelled out for the lookup *)
Theorem history_lookup : forall e eds m cs t i, wf e -> reaches e eds (Seq m cs) ->
  (index_at cs t = Some i <->
   exists c, nth_error cs i = Some c /\ dsum (firstn i cs) <= t < dsum (firstn i cs) + dur c).
Proof.
  intros e eds m cs t i Hwf H. apply index_at_spec. pose proof (history_preserves_wf _ _ _ Hwf H) as Hw.
  rewrite wf_seq in Hw. exact Hw.
Qed.

Example history_example :
  let e := Seq meta0 [Leaf 30 1; Seq meta0 [Leaf 7 3; Leaf 5 6]; Leaf 20 2] in
  reaches e [EChild 1 (ECutOff 2 4); EChild 0 (ESetLeaf 11); ECutOut 5 40]
          (Seq meta0 [Leaf 6 1; Seq meta0 [Leaf 5 3; Leaf 5 6]; Leaf 19 2]).
Proof.
  cbv zeta. eapply reaches_cons; [cbn; lia|vm_compute; reflexivity|].
  eapply reaches_cons; [cbn; lia|vm_compute; reflexivity|].
  eapply reaches_cons; [cbn; lia|vm_compute; reflexivity|]. apply reaches_nil.
Qed.
Print Assumptions history_preserves_wf.
