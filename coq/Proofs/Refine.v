(* Structure-refining operations, part 1: split_child_at
   (Consecution.split_child_at / Concurrence.split_child_at).
   Dividing the child under a time changes only the nesting: duration and denotation stay the same,
   and afterwards a child boundary exists at the time.  (sequentialize: Proofs/RefineSeq.v) *)
From Coq Require Import ZArith List Bool Lia ZifyBool Arith.
From MV Require Import Base.Res Model.EventTree Model.TreeOps Proofs.TreeLemmas Proofs.CutOut
  Proofs.SplitBase Proofs.SplitSingle.
Import ListNotations.
Open Scope Z_scope.

(* ------------------------------------------------------------ unfolding equations *)
Definition sca_sim (t : Z) := fix go (l : list ev) : res (list ev) :=
         match l with
         | [] => Ok []
         | Leaf d l0 :: r => ps <- leaf_split d l0 [t] false ; r' <- go r ; Ok (Seq meta0 ps :: r')
         | c :: r => c' <- split_child_at c t ; r' <- go r ; Ok (c' :: r')
         end.
Lemma split_child_at_seq_unfold m cs t : split_child_at (Seq m cs) t =
  ('(c, _) <- split_child_core (split_at_f (hmax cs)) cs t (starts cs) (dsum cs) ; Ok (Seq m c)).
Proof. reflexivity. Qed.
Lemma split_child_at_sim_unfold m cs t : split_child_at (Sim m cs) t = (r <- sca_sim t cs ; Ok (Sim m r)).
Proof. reflexivity. Qed.
Lemma sca_sim_nil t : sca_sim t [] = Ok []. Proof. reflexivity. Qed.
Lemma sca_sim_cons t c r : sca_sim t (c :: r) =
  match c with
  | Leaf d l0 => ps <- leaf_split d l0 [t] false ; r' <- sca_sim t r ; Ok (Seq meta0 ps :: r')
  | _ => c' <- split_child_at c t ; r' <- sca_sim t r ; Ok (c' :: r')
  end.
Proof. destruct c; reflexivity. Qed.

(* ------------------------------------------------------------ a leaf voice *)
(* Chronon.split_at with one time and ignore_invalid_split_point = False *)
Definition leaf_parts (d l t : Z) : list ev :=
  if (0 <? t) && (t <? d) then [Leaf t l; Leaf (d - t) l] else if 0 <? d then [Leaf d l] else [].

Lemma leaf_split_voice d l t : 0 <= d -> 0 <= t ->
  leaf_split d l [t] false = if d <? t then Err ESplitError else Ok (leaf_parts d l t).
Proof.
  intros Hd Ht. rewrite leaf_split_unfold by congruence. rewrite sortZ_single. cbv zeta. cbn [hd].
  rewrite check_time_ok by lia. cbn [bind memZ]. unfold leaf_parts.
  destruct (0 =? t) eqn:E0.
  - assert (t = 0) by lia. subst t. cbn [orb]. change (lastZ [0]) with 0.
    destruct (d <? 0) eqn:E1; [lia|]. destruct (0 <? d) eqn:E2.
    + cbn [bind app pairs andb]. rewrite leaf_go_cons, leaf_go_nil, leaf_cut_out_ok by lia. cbn [bind].
      replace (Z.min d d - 0) with d by lia. reflexivity.
    + cbn [andb negb bind pairs]. reflexivity.
  - cbn [orb]. change (lastZ [0; t]) with t. destruct (0 <? t) eqn:E3; [|lia]. cbn [andb].
    destruct (t <? d) eqn:E1.
    + destruct (d <? t) eqn:E2; [lia|]. cbn [bind app pairs]. rewrite !leaf_go_cons, leaf_go_nil.
      rewrite !leaf_cut_out_ok by lia. cbn [bind]. do 2 f_equal; [f_equal; lia|]. do 2 f_equal. lia.
    + destruct (d <? t) eqn:E2; [reflexivity|]. cbn [andb negb bind pairs].
      assert (t = d) by lia. subst t. destruct (0 <? d) eqn:E4; [|lia].
      rewrite leaf_go_cons, leaf_go_nil, leaf_cut_out_ok by lia. cbn [bind]. do 3 f_equal. lia.
Qed.

Lemma leaf_parts_sem d l t : 0 <= d -> 0 <= t -> t <= d ->
  wfs (leaf_parts d l t) /\ dsum (leaf_parts d l t) = d /\
  (forall x, at_seq (leaf_parts d l t) x = at_ (Leaf d l) x) /\
  (In t (starts (leaf_parts d l t)) \/ t = d).
Proof.
  intros Hd Ht Htd. unfold leaf_parts. destruct ((0 <? t) && (t <? d)) eqn:E; [|destruct (0 <? d) eqn:E2].
  - split; [simpl; lia|]. split; [simpl; lia|]. split; [|left; simpl; right; left; lia].
    intros x. rewrite !at_seq_cons, at_seq_nil. simpl.
    repeat match goal with |- context [if ?c then _ else _] => destruct c eqn:? end; try reflexivity; lia.
  - split; [simpl; lia|]. split; [simpl; lia|]. split; [|simpl; lia].
    intros x. rewrite at_seq_single by (simpl; lia). reflexivity.
  - split; [exact I|]. split; [simpl; lia|]. split; [|right; lia].
    intros x. rewrite at_seq_nil. simpl. destruct ((0 <=? x) && (x <? d)) eqn:E3; [lia|reflexivity].
Qed.

(* ------------------------------------------------------------ 1. a sequence *)
Theorem split_child_at_seq m cs t : wfs cs -> 0 <= t < dsum cs ->
  exists cs', split_child_at (Seq m cs) t = Ok (Seq m cs') /\ wfs cs' /\ dsum cs' = dsum cs /\
    (forall x, at_seq cs' x = at_seq cs x) /\ In t (starts cs').
Proof.
  intros Hw Ht. destruct (split_child_core_ok (hmax cs) cs t (le_n _) Hw ltac:(lia)) as [_ H2].
  destruct (H2 ltac:(lia)) as (cs' & i & E & G1 & G2 & G3 & _ & G5 & _).
  exists cs'. rewrite split_child_at_seq_unfold, E. cbn [bind].
  split; [reflexivity|]. split; [assumption|]. split; [assumption|]. split; [assumption|].
  eapply nth_error_In; eauto.
Qed.

Theorem split_child_at_seq_beyond m cs t : wfs cs -> dsum cs <= t ->
  split_child_at (Seq m cs) t = Err ESplitUnavailableChild.
Proof.
  intros Hw Ht. pose proof (dsum_nonneg cs Hw).
  destruct (split_child_core_ok (hmax cs) cs t (le_n _) Hw ltac:(lia)) as [H1 _].
  rewrite split_child_at_seq_unfold, (H1 Ht). reflexivity.
Qed.

Theorem split_child_at_negative m cs t : t < 0 -> split_child_at (Seq m cs) t = Err EInvalidAbsoluteTime.
Proof.
  intros Ht. rewrite split_child_at_seq_unfold. unfold split_child_core. rewrite check_time_err by assumption. reflexivity.
Qed.

(* a simultaneity and a negative time: the error of the first voice that is a leaf or a sequence;
   a simultaneity without such a voice (empty, or only empty simultaneities inside) is returned unchanged *)
Fixpoint hollow (e : ev) : bool :=
  match e with
  | Sim _ cs => (fix go l := match l with [] => true | c :: r => hollow c && go r end) cs
  | _ => false
  end.
Definition hollows := fix go (l : list ev) : bool := match l with [] => true | c :: r => hollow c && go r end.
Lemma hollow_sim m cs : hollow (Sim m cs) = hollows cs. Proof. reflexivity. Qed.
Lemma hollows_cons c r : hollows (c :: r) = hollow c && hollows r. Proof. reflexivity. Qed.

Lemma leaf_split_negative d l t ign : t < 0 -> leaf_split d l [t] ign = Err EInvalidAbsoluteTime.
Proof. intros Ht. rewrite leaf_split_unfold by congruence. rewrite sortZ_single. cbv zeta. cbn [hd]. rewrite check_time_err by assumption. reflexivity. Qed.

Lemma split_child_at_negative_gen t : t < 0 -> forall e,
  match e with
  | Leaf _ _ => True
  | _ => split_child_at e t = if hollow e then Ok e else Err EInvalidAbsoluteTime
  end.
Proof.
  intros Ht. induction e as [d l|m cs IH|m cs IH] using ev_ind'; [exact I| |].
  - apply split_child_at_negative. assumption.
  - rewrite split_child_at_sim_unfold, hollow_sim.
    assert (G : sca_sim t cs = if hollows cs then Ok cs else Err EInvalidAbsoluteTime).
    { induction cs as [|c r IHr]; [reflexivity|]. inversion IH as [|? ? Hc Hr]; subst. specialize (IHr Hr).
      rewrite sca_sim_cons, hollows_cons. destruct c as [d l|m' cs'|m' cs'].
      - rewrite leaf_split_negative by assumption. reflexivity.
      - rewrite Hc. reflexivity.
      - rewrite Hc. destruct (hollow (Sim m' cs')); [|reflexivity]. cbn [bind andb]. rewrite IHr.
        destruct (hollows r); reflexivity. }
    rewrite G. destruct (hollows cs); reflexivity.
Qed.

Theorem split_child_at_negative_sim m cs t : t < 0 ->
  split_child_at (Sim m cs) t = if hollow (Sim m cs) then Ok (Sim m cs) else Err EInvalidAbsoluteTime.
Proof. intros Ht. exact (split_child_at_negative_gen t Ht (Sim m cs)). Qed.

(* ------------------------------------------------------------ 2. the result, voice by voice *)
(* `divided t e e'`: e' is e with the child under t divided, in every voice.
   - a leaf voice of length d becomes a sequence of its two halves (one element if t = 0 or t = d,
     none if d = 0);
   - a sequence keeps its children if a boundary exists at t, otherwise the child ch under t is replaced
     by the two parts of ch.split_at(t - start of ch);
   - a simultaneity: every voice. *)
Inductive divided (t : Z) : ev -> ev -> Prop :=
| div_leaf d l : 0 <= d -> t <= d -> divided t (Leaf d l) (Seq meta0 (leaf_parts d l t))
| div_seq_same m cs : t < dsum cs -> In t (starts cs) -> divided t (Seq m cs) (Seq m cs)
| div_seq_cut m A ch B p0 p1 : dsum A < t < dsum A + dur ch ->
    split_at ch [t - dsum A] false = Ok [p0; p1] -> inside_spec ch (t - dsum A) p0 p1 ->
    divided t (Seq m (A ++ ch :: B)) (Seq m (A ++ p0 :: p1 :: B))
| div_sim m cs cs' : Forall2 (divided t) cs cs' -> divided t (Sim m cs) (Sim m cs').

(* the structural form of Consecution._split_child_at, with the recursive call made explicit *)
Lemma split_child_core_exact n cs t : (hmax cs <= n)%nat -> wfs cs -> 0 <= t -> t < dsum cs ->
  exists cs' i, split_child_core (split_at_f n) cs t (starts cs) (dsum cs) = Ok (cs', i) /\
    ((cs' = cs /\ nth_error (starts cs) i = Some t) \/
     (exists A ch B p0 p1, cs = A ++ ch :: B /\ cs' = A ++ p0 :: p1 :: B /\ i = S (length A) /\
         dsum A < t < dsum A + dur ch /\ split_at ch [t - dsum A] false = Ok [p0; p1] /\
         inside_spec ch (t - dsum A) p0 p1)).
Proof.
  intros Hh Hwf Ht Hd. unfold split_child_core. rewrite check_time_ok by lia. cbn [bind]. unfold index_at_from.
  destruct ((t <? dsum cs) && (0 <=? t)) eqn:E; [|lia].
  destruct (bisect_starts cs 0 t Hwf ltac:(lia)) as (i & ch & Hb & Hn & Hr).
  fold (starts cs) in Hb. rewrite Hb. cbn [Nat.pred].
  assert (Hi : (i < length cs)%nat) by (apply nth_error_Some; congruence).
  rewrite (nth_error_nth (starts cs) i 0 (starts_nth cs i Hi)).
  destruct (t =? dsum (firstn i cs)) eqn:Et.
  - exists cs, i. split; [reflexivity|]. left. split; auto. rewrite starts_nth by auto. f_equal. lia.
  - rewrite Hn.
    destruct (nth_error_split cs i Hn) as (A & B & HAB & HlenA). subst cs i.
    rewrite firstn_length_app in *.
    assert (Hhc : (height ch <= n)%nat).
    { assert (height ch <= hmax (A ++ ch :: B))%nat by (apply hmax_In, in_elt). lia. }
    assert (Hwc : wf ch) by (eapply wfs_In; [exact Hwf|apply in_elt]).
    destruct (split_single_inside n ch (t - dsum A) false Hhc Hwc ltac:(lia)) as (p0 & p1 & Erec & Hins).
    rewrite Erec. cbn [bind]. rewrite skipn_S_length_app.
    eexists _, _. split; [reflexivity|]. right. exists A, ch, B, p0, p1.
    split; [reflexivity|]. split; [reflexivity|]. split; [reflexivity|]. split; [lia|].
    split; [rewrite <- (split_at_f_single_fuel n) by assumption; exact Erec|exact Hins].
Qed.

Theorem split_child_at_divided t : 0 <= t -> forall e e', wf e -> split_child_at e t = Ok e' -> divided t e e'.
Proof.
  intros Ht. induction e as [d l|m cs IH|m cs IH] using ev_ind'; intros e' Hw H.
  - discriminate.
  - rewrite wf_seq in Hw. rewrite split_child_at_seq_unfold in H.
    destruct (Z_lt_le_dec t (dsum cs)) as [Hlt|Hle].
    2:{ rewrite <- split_child_at_seq_unfold in H. rewrite split_child_at_seq_beyond in H by assumption. discriminate. }
    destruct (split_child_core_exact (hmax cs) cs t (le_n _) Hw Ht Hlt) as (cs' & i & E & Hst).
    rewrite E in H. cbn [bind] in H. inversion H; subst e'; clear H.
    destruct Hst as [[-> Hn]|(A & ch & B & p0 & p1 & -> & -> & -> & Hr & Esp & Hins)].
    + apply div_seq_same; [assumption|]. eapply nth_error_In; eauto.
    + apply div_seq_cut; assumption.
  - rewrite wf_sim in Hw. rewrite split_child_at_sim_unfold in H.
    destruct (sca_sim t cs) as [r|k] eqn:E; [|discriminate]. cbn [bind] in H. inversion H; subst e'; clear H.
    apply div_sim. revert r E. induction cs as [|c rest IHr]; intros r E.
    + rewrite sca_sim_nil in E. inversion E. constructor.
    + inversion IH as [|? ? Hc Hrest]; subst. destruct Hw as [Wc Wr]. specialize (IHr Hrest Wr).
      rewrite sca_sim_cons in E. destruct c as [d l|m' cs'|m' cs'].
      * simpl in Wc. rewrite leaf_split_voice in E by assumption. destruct (d <? t) eqn:Edt; [discriminate|].
        cbn [bind] in E. destruct (sca_sim t rest) as [r'|k] eqn:E'; [|discriminate]. cbn [bind] in E.
        inversion E; subst r. constructor; [apply div_leaf; lia|apply IHr; reflexivity].
      * destruct (split_child_at (Seq m' cs') t) as [c'|k] eqn:Ec; [|discriminate]. cbn [bind] in E.
        destruct (sca_sim t rest) as [r'|k] eqn:E'; [|discriminate]. cbn [bind] in E.
        inversion E; subst r. constructor; [apply Hc; auto|apply IHr; reflexivity].
      * destruct (split_child_at (Sim m' cs') t) as [c'|k] eqn:Ec; [|discriminate]. cbn [bind] in E.
        destruct (sca_sim t rest) as [r'|k] eqn:E'; [|discriminate]. cbn [bind] in E.
        inversion E; subst r. constructor; [apply Hc; auto|apply IHr; reflexivity].
Qed.

(* dividing changes only the nesting *)
Theorem divided_same t : 0 <= t -> forall e e', wf e -> divided t e e' ->
  wf e' /\ dur e' = dur e /\ forall x, at_ e' x = at_ e x.
Proof.
  intros Ht. induction e as [d l|m cs IH|m cs IH] using ev_ind'; intros e' Hw H.
  - inversion H; subst. destruct (leaf_parts_sem d l t) as (P1 & P2 & P3 & _); try lia.
    rewrite wf_seq, dur_seq. split; [assumption|]. split; [assumption|]. intros x. rewrite at_seq_eq. apply P3.
  - rewrite wf_seq in Hw. inversion H as [| |? A ch B p0 p1 Hr Esp Hins|]; subst.
    + split; [assumption|]. split; reflexivity.
    + destruct (replace_parts A ch B p0 p1 (t - dsum A) Hw Hins ltac:(lia)) as (R1 & R2 & R3 & _).
      rewrite wf_seq, !dur_seq. split; [assumption|]. split; [assumption|]. intros x. rewrite !at_seq_eq. apply R3.
  - rewrite wf_sim in Hw. inversion H as [| | |? ? cs' HF]; subst. rewrite wf_sim, !dur_sim.
    assert (G : wfs cs' /\ dmax cs' = dmax cs /\ forall x, at_sim x cs' = at_sim x cs).
    { clear H. induction HF as [|c c' r r' Hcc HF IHF].
      - split; [exact I|]. split; reflexivity.
      - inversion IH as [|? ? Hc Hr]; subst. destruct Hw as [Wc Wr].
        destruct (Hc c' Wc Hcc) as (C1 & C2 & C3). destruct (IHF Hr Wr) as (I1 & I2 & I3).
        split; [exact (conj C1 I1)|]. split; [rewrite !dmax_cons; lia|].
        intros x. rewrite !at_sim_cons, C3, I3. reflexivity. }
    destruct G as (G1 & G2 & G3). split; [assumption|]. split; [assumption|].
    intros x. rewrite !at_sim_eq, G3. reflexivity.
Qed.

Theorem split_child_at_same e t e' : wf e -> 0 <= t -> split_child_at e t = Ok e' ->
  wf e' /\ dur e' = dur e /\ forall x, at_ e' x = at_ e x.
Proof. intros Hw Ht H. apply (divided_same t Ht e e' Hw). apply split_child_at_divided; assumption. Qed.

(* afterwards a child boundary exists at t in every voice, recursively through simultaneities;
   every voice is a container (leaf voices were replaced by sequences).
   The alternative `t = dsum cs` is needed only for a replaced leaf voice of length t:
   split_child_at (Sim [Leaf 5]) 5 = Sim [Seq [Leaf 5]]  (see ex_boundary_end). *)
Fixpoint has_boundary (t : Z) (e : ev) : Prop :=
  match e with
  | Leaf _ _ => False
  | Seq _ cs => In t (starts cs) \/ t = dsum cs
  | Sim _ cs => (fix go l := match l with [] => True | c :: r => has_boundary t c /\ go r end) cs
  end.
Definition have_boundary (t : Z) := fix go (l : list ev) : Prop :=
  match l with [] => True | c :: r => has_boundary t c /\ go r end.
Lemma has_boundary_sim t m cs : has_boundary t (Sim m cs) = have_boundary t cs. Proof. reflexivity. Qed.

(* the strict form: a boundary strictly inside or at the start, never only at the end *)
Fixpoint has_boundary_strict (t : Z) (e : ev) : Prop :=
  match e with
  | Leaf _ _ => False
  | Seq _ cs => In t (starts cs)
  | Sim _ cs => (fix go l := match l with [] => True | c :: r => has_boundary_strict t c /\ go r end) cs
  end.
Definition have_boundary_strict (t : Z) := fix go (l : list ev) : Prop :=
  match l with [] => True | c :: r => has_boundary_strict t c /\ go r end.

(* no leaf voice ends exactly at t *)
Fixpoint no_leaf_end (t : Z) (e : ev) : Prop :=
  match e with
  | Leaf d _ => d <> t
  | Seq _ _ => True
  | Sim _ cs => (fix go l := match l with [] => True | c :: r => no_leaf_end t c /\ go r end) cs
  end.
Definition no_leaf_ends (t : Z) := fix go (l : list ev) : Prop :=
  match l with [] => True | c :: r => no_leaf_end t c /\ go r end.

Lemma starts_app_in t A p0 p1 B : dur p0 = t - dsum A -> In t (starts (A ++ p0 :: p1 :: B)).
Proof.
  intros H. unfold starts. rewrite starts_from_app. apply in_or_app. right. cbn [starts_from]. right. left. lia.
Qed.

Theorem divided_boundary t : 0 <= t -> forall e e', wf e -> divided t e e' ->
  has_boundary t e' /\ (no_leaf_end t e -> has_boundary_strict t e').
Proof.
  intros Ht. induction e as [d l|m cs IH|m cs IH] using ev_ind'; intros e' Hw H.
  - inversion H; subst. destruct (leaf_parts_sem d l t) as (_ & P2 & _ & P4); try lia.
    split; [simpl; rewrite P2; exact P4|]. simpl. intros Hne. destruct P4 as [P4|P4]; [exact P4|congruence].
  - inversion H as [| |? A ch B p0 p1 Hr Esp Hins|]; subst.
    + split; [left; assumption|intros _; assumption].
    + destruct Hins as (D0 & _). pose proof (starts_app_in t A p0 p1 B D0). split; [left; assumption|intros _; assumption].
  - rewrite wf_sim in Hw. inversion H as [| | |? ? cs' HF]; subst. clear H.
    change (have_boundary t cs' /\ (no_leaf_ends t cs -> have_boundary_strict t cs')).
    induction HF as [|c c' r r' Hcc HF IHF]; [split; [exact I|intros _; exact I]|].
    inversion IH as [|? ? Hc Hr]; subst. destruct Hw as [Wc Wr].
    destruct (Hc c' Wc Hcc) as [C1 C2]. destruct (IHF Hr Wr) as [I1 I2].
    split; [exact (conj C1 I1)|]. intros [N1 N2]. exact (conj (C2 N1) (I2 N2)).
Qed.

Theorem split_child_at_boundary e t e' : wf e -> 0 <= t -> split_child_at e t = Ok e' ->
  has_boundary t e' /\ (no_leaf_end t e -> has_boundary_strict t e').
Proof. intros Hw Ht H. apply (divided_boundary t Ht e e' Hw). apply split_child_at_divided; assumption. Qed.

(* ------------------------------------------------------------ 3. failure on a simultaneity *)
(* a sequence voice that has ended at t *)
Theorem split_child_at_sim_short_voice m m' cs r t : wfs cs -> dsum cs <= t ->
  split_child_at (Sim m (Seq m' cs :: r)) t = Err ESplitUnavailableChild.
Proof.
  intros Hw Ht. rewrite split_child_at_sim_unfold, sca_sim_cons, split_child_at_seq_beyond by assumption. reflexivity.
Qed.
(* a leaf voice shorter than t *)
Theorem split_child_at_sim_short_leaf m d l r t : 0 <= t -> d < t ->
  split_child_at (Sim m (Leaf d l :: r)) t = Err ESplitError.
Proof.
  intros Ht Hd. rewrite split_child_at_sim_unfold, sca_sim_cons.
  assert (leaf_split d l [t] false = Err ESplitError) as ->; [|reflexivity].
  rewrite leaf_split_unfold by congruence. rewrite sortZ_single. cbv zeta. cbn [hd].
  rewrite check_time_ok by lia. cbn [bind memZ].
  destruct (0 =? t) eqn:E0; cbn [orb].
  - assert (t = 0) by lia. subst t. change (lastZ [0]) with 0.
    destruct (0 <? d) eqn:E1; [lia|]. destruct (d <? 0) eqn:E2; [reflexivity|lia].
  - change (lastZ [0; t]) with t. destruct (t <? d) eqn:E1; [lia|]. destruct (d <? t) eqn:E2; [reflexivity|lia].
Qed.
(* the same behind voices that can be divided *)
Lemma sca_sim_app t a b : sca_sim t (a ++ b) = (a' <- sca_sim t a ; b' <- sca_sim t b ; Ok (a' ++ b')).
Proof.
  induction a as [|c a IH]; simpl app.
  - rewrite sca_sim_nil. cbn [bind]. destruct (sca_sim t b); reflexivity.
  - rewrite !sca_sim_cons, IH. destruct c as [d l|m cs|m cs].
    + destruct (leaf_split d l [t] false); [|reflexivity]. cbn [bind].
      destruct (sca_sim t a); [|reflexivity]. cbn [bind]. destruct (sca_sim t b); reflexivity.
    + destruct (split_child_at (Seq m cs) t); [|reflexivity]. cbn [bind].
      destruct (sca_sim t a); [|reflexivity]. cbn [bind]. destruct (sca_sim t b); reflexivity.
    + destruct (split_child_at (Sim m cs) t); [|reflexivity]. cbn [bind].
      destruct (sca_sim t a); [|reflexivity]. cbn [bind]. destruct (sca_sim t b); reflexivity.
Qed.
Theorem split_child_at_sim_short_voice_later m a a' m' cs r t : wfs cs -> dsum cs <= t ->
  split_child_at (Sim m a) t = Ok a' ->
  split_child_at (Sim m (a ++ Seq m' cs :: r)) t = Err ESplitUnavailableChild.
Proof.
  intros Hw Ht H. rewrite split_child_at_sim_unfold in *. rewrite sca_sim_app.
  destruct (sca_sim t a); [|discriminate]. cbn [bind].
  rewrite sca_sim_cons, split_child_at_seq_beyond by assumption. reflexivity.
Qed.

(* when it succeeds: every sequence voice is still running at t and no leaf voice is shorter than t *)
Fixpoint splittable (t : Z) (e : ev) : Prop :=
  match e with
  | Leaf d _ => t <= d
  | Seq _ cs => t < dsum cs
  | Sim _ cs => (fix go l := match l with [] => True | c :: r => splittable t c /\ go r end) cs
  end.
Definition splittables (t : Z) := fix go (l : list ev) : Prop :=
  match l with [] => True | c :: r => splittable t c /\ go r end.

Theorem split_child_at_ok_iff t : 0 <= t -> forall e, wf e -> is_leaf e = false ->
  ((exists e', split_child_at e t = Ok e') <-> splittable t e).
Proof.
  intros Ht. induction e as [d l|m cs IH|m cs IH] using ev_ind'; intros Hw Hl; [discriminate| |].
  - rewrite wf_seq in Hw. change (splittable t (Seq m cs)) with (t < dsum cs). split.
    + intros [e' H]. destruct (Z_lt_le_dec t (dsum cs)) as [Hlt|Hle]; [assumption|].
      rewrite split_child_at_seq_beyond in H by assumption. discriminate.
    + intros Hlt. destruct (split_child_at_seq m cs t Hw ltac:(lia)) as (cs' & E & _). eauto.
  - rewrite wf_sim in Hw. change (splittable t (Sim m cs)) with (splittables t cs).
    assert (G : (exists r, sca_sim t cs = Ok r) <-> splittables t cs).
    { clear Hl. induction cs as [|c r IHr]; [split; [intros _; exact I|intros _; exists []; reflexivity]|].
      inversion IH as [|? ? Hc Hr]; subst. destruct Hw as [Wc Wr]. specialize (IHr Hr Wr).
      rewrite sca_sim_cons. change (splittables t (c :: r)) with (splittable t c /\ splittables t r).
      destruct c as [d l|m' cs'|m' cs'].
      - simpl in Wc. rewrite leaf_split_voice by assumption. simpl splittable. destruct (d <? t) eqn:E.
        + split; [intros [r' H]; discriminate|intros [H _]; lia].
        + cbn [bind]. rewrite <- IHr. split.
          * intros [r' H]. destruct (sca_sim t r); [|discriminate]. split; [lia|eauto].
          * intros [_ [r' ->]]. cbn [bind]. eauto.
      - rewrite <- (Hc Wc eq_refl), <- IHr. split.
        + intros [r' H]. destruct (split_child_at (Seq m' cs') t); [|discriminate]. cbn [bind] in H.
          destruct (sca_sim t r); [|discriminate]. eauto.
        + intros [[c' ->] [r' ->]]. cbn [bind]. eauto.
      - rewrite <- (Hc Wc eq_refl), <- IHr. split.
        + intros [r' H]. destruct (split_child_at (Sim m' cs') t); [|discriminate]. cbn [bind] in H.
          destruct (sca_sim t r); [|discriminate]. eauto.
        + intros [[c' ->] [r' ->]]. cbn [bind]. eauto. }
    rewrite <- G, split_child_at_sim_unfold. split.
    + intros [e' H]. destruct (sca_sim t cs); [eauto|discriminate].
    + intros [r ->]. cbn [bind]. eauto.
Qed.

(* ------------------------------------------------------------ examples *)
Definition ex_sim : ev :=
  Sim meta0 [Leaf 5 1; Seq meta0 [Leaf 2 2; Leaf 4 3]; Sim meta0 [Leaf 4 1; Seq meta0 [Leaf 3 1; Leaf 3 1]]].
Example ex_sim_wf : wf ex_sim /\ 0 <= 3.
Proof. split; [apply wfb_wf; vm_compute; reflexivity|lia]. Qed.
Example ex_divide_3 : split_child_at ex_sim 3 =
  Ok (Sim meta0 [Seq meta0 [Leaf 3 1; Leaf 2 1]; Seq meta0 [Leaf 2 2; Leaf 1 3; Leaf 3 3];
                 Sim meta0 [Seq meta0 [Leaf 3 1; Leaf 1 1]; Seq meta0 [Leaf 3 1; Leaf 3 1]]]).
Proof. vm_compute. reflexivity. Qed.
Example ex_divide_seq : split_child_at (Seq meta0 [Leaf 2 1; ex_sim; Leaf 1 9]) 5 =
  Ok (Seq meta0 [Leaf 2 1;
        Sim meta0 [Leaf 3 1; Seq meta0 [Leaf 2 2; Leaf 1 3]; Sim meta0 [Leaf 3 1; Seq meta0 [Leaf 3 1]]];
        Sim meta0 [Leaf 2 1; Seq meta0 [Leaf 3 3]; Sim meta0 [Leaf 1 1; Seq meta0 [Leaf 3 1]]];
        Leaf 1 9]).
Proof. vm_compute. reflexivity. Qed.
Example ex_leaf_voice : leaf_split 5 1 [3] false = Ok [Leaf 3 1; Leaf 2 1] /\ leaf_split 5 1 [5] false = Ok [Leaf 5 1] /\
  leaf_split 5 1 [0] false = Ok [Leaf 5 1] /\ leaf_split 0 1 [0] false = Ok [] /\ leaf_split 5 1 [6] false = Err ESplitError.
Proof. vm_compute. repeat split. Qed.
(* the boundary may be the end of a replaced leaf voice *)
Example ex_boundary_end : split_child_at (Sim meta0 [Leaf 5 1; Seq meta0 [Leaf 2 2; Leaf 4 3]]) 5 =
  Ok (Sim meta0 [Seq meta0 [Leaf 5 1]; Seq meta0 [Leaf 2 2; Leaf 3 3; Leaf 1 3]]).
Proof. vm_compute. reflexivity. Qed.
Example ex_short_voices :
  split_child_at (Sim meta0 [Leaf 5 1; Seq meta0 [Leaf 2 2; Leaf 3 3]]) 5 = Err ESplitUnavailableChild /\
  split_child_at (Sim meta0 [Leaf 4 1; Seq meta0 [Leaf 2 2; Leaf 4 3]]) 5 = Err ESplitError /\
  split_child_at (Sim meta0 [Seq meta0 []]) 0 = Err ESplitUnavailableChild.
Proof. vm_compute. repeat split. Qed.
Example ex_negative :
  split_child_at (Sim meta0 [Leaf 5 1]) (-1) = Err EInvalidAbsoluteTime /\
  split_child_at (Sim meta0 [Sim meta0 []; Seq meta0 []]) (-1) = Err EInvalidAbsoluteTime /\
  split_child_at (Sim meta0 []) (-1) = Ok (Sim meta0 []) /\
  split_child_at (Sim meta0 [Sim meta0 []]) (-1) = Ok (Sim meta0 [Sim meta0 []]).
Proof. vm_compute. repeat split. Qed.

Print Assumptions split_child_at_seq.
Print Assumptions split_child_at_seq_beyond.
Print Assumptions split_child_at_negative_sim.
Print Assumptions split_child_at_divided.
Print Assumptions split_child_at_same.
Print Assumptions split_child_at_boundary.
Print Assumptions split_child_at_sim_short_voice.
Print Assumptions split_child_at_sim_short_leaf.
Print Assumptions split_child_at_ok_iff.
