(* Structure-refining operations, part 1: split_child_at
   (Consecution.split_child_at / Concurrence.split_child_at).
   Dividing the child under a time changes only the nesting: duration and denotation stay the same,
   and afterwards a child boundary exists at the time.  (sequentialize: Proofs/RefineSeq.v) *)
From Coq Require Import ZArith List Bool Lia ZifyBool Arith.
From MV Require Import Base.Res Model.EventTree Model.TreeOps Proofs.TreeLemmas Proofs.CutOut
  Proofs.SplitBase Proofs.SplitSingle.
Import ListNotations.
Open Scope Z_scope.

(* ------------------------------------------------------------ unfolding equations *)
Definition sca_sim (t : Z) := fix go (l : list ev) : res (list ev) :=
         match l with
         | [] => Ok []
         | Leaf d l0 :: r => ps <- leaf_split d l0 [t] false ; r' <- go r ; Ok (Seq meta0 ps :: r')
         | c :: r => c' <- split_child_at c t ; r' <- go r ; Ok (c' :: r')
         end.
Lemma split_child_at_seq_unfold m cs t : split_child_at (Seq m cs) t =
  ('(c, _) <- split_child_core (split_at_f (hmax cs)) cs t (starts cs) (dsum cs) ; Ok (Seq m c)).
Proof. reflexivity. Qed.
Lemma split_child_at_sim_unfold m cs t : split_child_at (Sim m cs) t = (r <- sca_sim t cs ; Ok (Sim m r)).
Proof. reflexivity. Qed.
Lemma sca_sim_nil t : sca_sim t [] = Ok []. Proof. reflexivity. Qed.
Lemma sca_sim_cons t c r : sca_sim t (c :: r) =
  match c with
  | Leaf d l0 => ps <- leaf_split d l0 [t] false ; r' <- sca_sim t r ; Ok (Seq meta0 ps :: r')
  | _ => c' <- split_child_at c t ; r' <- sca_sim t r ; Ok (c' :: r')
  end.
Proof. destruct c; reflexivity. Qed.

(* ------------------------------------------------------------ a leaf voice *)
(* Chronon.split_at with one time and ignore_invalid_split_point = False *)
Definition leaf_parts (d l t : Z) : list ev :=
  if (0 <? t) && (t <? d) then [Leaf t l; Leaf (d - t) l] else if 0 <? d then [Leaf d l] else [].

Lemma leaf_split_voice d l t : 0 <= d -> 0 <= t ->
  leaf_split d l [t] false = if d <? t then Err ESplitError else Ok (leaf_parts d l t).
Proof.
  intros Hd Ht. rewrite leaf_split_unfold by congruence. rewrite sortZ_single. cbv zeta. cbn [hd].
  rewrite check_time_ok by lia. cbn [bind memZ]. unfold leaf_parts.
  destruct (0 =? t) eqn:E0.
  - assert (t = 0) by lia. subst t. cbn [orb]. change (lastZ [0]) with 0.
    destruct (d <? 0) eqn:E1; [lia|]. destruct (0 <? d) eqn:E2.
    + cbn [bind app pairs andb]. rewrite leaf_go_cons, leaf_go_nil, leaf_cut_out_ok by lia. cbn [bind].
      do 3 f_equal. lia.
    + cbn [andb negb bind pairs]. reflexivity.
  - cbn [orb]. change (lastZ [0; t]) with t. destruct (0 <? t) eqn:E3; [|lia]. cbn [andb].
    destruct (t <? d) eqn:E1.
    + destruct (d <? t) eqn:E2; [lia|]. cbn [bind app pairs]. rewrite !leaf_go_cons, leaf_go_nil.
      rewrite !leaf_cut_out_ok by lia. cbn [bind]. do 2 f_equal; [f_equal; lia|]. do 2 f_equal. lia.
    + destruct (d <? t) eqn:E2; [reflexivity|]. cbn [andb negb bind pairs].
      assert (t = d) by lia. subst t. destruct (0 <? d) eqn:E4; [|lia].
      rewrite leaf_go_cons, leaf_go_nil, leaf_cut_out_ok by lia. cbn [bind]. do 3 f_equal. lia.
Qed.

Lemma leaf_parts_sem d l t : 0 <= d -> 0 <= t -> t <= d ->
  wfs (leaf_parts d l t) /\ dsum (leaf_parts d l t) = d /\
  (forall x, at_seq (leaf_parts d l t) x = at_ (Leaf d l) x) /\
  (In t (starts (leaf_parts d l t)) \/ t = d).
Proof.
  intros Hd Ht Htd. unfold leaf_parts. destruct ((0 <? t) && (t <? d)) eqn:E; [|destruct (0 <? d) eqn:E2].
  - split; [simpl; lia|]. split; [simpl; lia|]. split; [|left; simpl; right; left; lia].
    intros x. rewrite !at_seq_cons, at_seq_nil. simpl.
    repeat match goal with |- context [if ?c then _ else _] => destruct c eqn:? end; try reflexivity; lia.
  - split; [simpl; lia|]. split; [simpl; lia|]. split; [|simpl; lia].
    intros x. rewrite at_seq_single by (simpl; lia). reflexivity.
  - split; [exact I|]. split; [simpl; lia|]. split; [|right; lia].
    intros x. rewrite at_seq_nil. simpl. destruct ((0 <=? x) && (x <? d)) eqn:E3; [lia|reflexivity].
Qed.

(* ------------------------------------------------------------ 1. a sequence *)
Theorem split_child_at_seq m cs t : wfs cs -> 0 <= t < dsum cs ->
  exists cs', split_child_at (Seq m cs) t = Ok (Seq m cs') /\ wfs cs' /\ dsum cs' = dsum cs /\
    (forall x, at_seq cs' x = at_seq cs x) /\ In t (starts cs').
Proof.
  intros Hw Ht. destruct (split_child_core_ok (hmax cs) cs t (le_n _) Hw ltac:(lia)) as [_ H2].
  destruct (H2 ltac:(lia)) as (cs' & i & E & G1 & G2 & G3 & _ & G5 & _).
  exists cs'. rewrite split_child_at_seq_unfold, E. cbn [bind].
  split; [reflexivity|]. split; [assumption|]. split; [assumption|]. split; [assumption|].
  eapply nth_error_In; eauto.
Qed.

Theorem split_child_at_seq_beyond m cs t : wfs cs -> dsum cs <= t ->
  split_child_at (Seq m cs) t = Err ESplitUnavailableChild.
Proof.
  intros Hw Ht. pose proof (dsum_nonneg cs Hw).
  destruct (split_child_core_ok (hmax cs) cs t (le_n _) Hw ltac:(lia)) as [H1 _].
  rewrite split_child_at_seq_unfold, (H1 Ht). reflexivity.
Qed.

Theorem split_child_at_negative m cs t : t < 0 -> split_child_at (Seq m cs) t = Err EInvalidAbsoluteTime.
Proof.
  intros Ht. rewrite split_child_at_seq_unfold. unfold split_child_core. rewrite check_time_err by assumption. reflexivity.
Qed.

(* a simultaneity and a negative time: the error of the first voice that is a leaf or a sequence;
   a simultaneity without such a voice (empty, or only empty simultaneities inside) is returned unchanged *)
Fixpoint hollow (e : ev) : bool :=
  match e with
  | Sim _ cs => (fix go l := match l with [] => true | c :: r => hollow c && go r end) cs
  | _ => false
  end.
Definition hollows := fix go (l : list ev) : bool := match l with [] => true | c :: r => hollow c && go r end.
Lemma hollow_sim m cs : hollow (Sim m cs) = hollows cs. Proof. reflexivity. Qed.
Lemma hollows_cons c r : hollows (c :: r) = hollow c && hollows r. Proof. reflexivity. Qed.

Lemma leaf_split_negative d l t ign : t < 0 -> leaf_split d l [t] ign = Err EInvalidAbsoluteTime.
Proof. intros Ht. rewrite leaf_split_unfold by congruence. rewrite sortZ_single. cbv zeta. cbn [hd]. rewrite check_time_err by assumption. reflexivity. Qed.

Lemma split_child_at_negative_gen t : t < 0 -> forall e,
  match e with
  | Leaf _ _ => True
  | _ => split_child_at e t = if hollow e then Ok e else Err EInvalidAbsoluteTime
  end.
Proof.
  intros Ht. induction e as [d l|m cs IH|m cs IH] using ev_ind'; [exact I| |].
  - apply split_child_at_negative. assumption.
  - rewrite split_child_at_sim_unfold, hollow_sim.
    assert (G : sca_sim t cs = if hollows cs then Ok cs else Err EInvalidAbsoluteTime).
    { induction cs as [|c r IHr]; [reflexivity|]. inversion IH as [|? ? Hc Hr]; subst. specialize (IHr Hr).
      rewrite sca_sim_cons, hollows_cons. destruct c as [d l|m' cs'|m' cs'].
      - rewrite leaf_split_negative by assumption. reflexivity.
      - rewrite Hc. reflexivity.
      - rewrite Hc. destruct (hollow (Sim m' cs')); [|reflexivity]. cbn [bind andb]. rewrite IHr.
        destruct (hollows r); reflexivity. }
    rewrite G. destruct (hollows cs); reflexivity.
Qed.

Theorem split_child_at_negative_sim m cs t : t < 0 ->
  split_child_at (Sim m cs) t = if hollow (Sim m cs) then Ok (Sim m cs) else Err EInvalidAbsoluteTime.
Proof. intros Ht. exact (split_child_at_negative_gen t Ht (Sim m cs)). Qed.

(* ------------------------------------------------------------ 2. the result, voice by voice *)
(* `divided t e e'`: e' is e with the child under t divided, in every voice.
   - a leaf voice of length d becomes a sequence of its two halves (one element if t = 0 or t = d,
     none if d = 0);
   - a sequence keeps its children if a boundary exists at t, otherwise the child ch under t is replaced
     by the two parts of ch.split_at(t - start of ch);
   - a simultaneity: every voice. *)
Inductive divided (t : Z) : ev -> ev -> Prop :=
| div_leaf d l : 0 <= d -> t <= d -> divided t (Leaf d l) (Seq meta0 (leaf_parts d l t))
| div_seq_same m cs : t < dsum cs -> In t (starts cs) -> divided t (Seq m cs) (Seq m cs)
| div_seq_cut m A ch B p0 p1 : dsum A < t < dsum A + dur ch ->
    split_at ch [t - dsum A] false = Ok [p0; p1] -> inside_spec ch (t - dsum A) p0 p1 ->
    divided t (Seq m (A ++ ch :: B)) (Seq m (A ++ p0 :: p1 :: B))
| div_sim m cs cs' : Forall2 (divided t) cs cs' -> divided t (Sim m cs) (Sim m cs').

Theorem split_child_at_divided t : 0 <= t -> forall e e', wf e -> split_child_at e t = Ok e' -> divided t e e'.
Proof.
  intros Ht. induction e as [d l|m cs IH|m cs IH] using ev_ind'; intros e' Hw H.
  - discriminate.
  - rewrite wf_seq in Hw. rewrite split_child_at_seq_unfold in H.
    destruct (split_child_core_struct (split_at_f (hmax cs)) (hmax cs) (split_single_gen _) cs t (le_n _) Hw Ht) as [H1 H2].
    destruct (Z_lt_le_dec t (dsum cs)) as [Hlt|Hle]; [|rewrite (H1 Hle) in H; discriminate].
    destruct (H2 Hlt) as (cs' & i & E & Hst). rewrite E in H. cbn [bind] in H. inversion H; subst e'; clear H.
    destruct Hst as [[-> Hn]|(A & ch & B & p0 & p1 & -> & -> & -> & Hr & Hins)].
    + apply div_seq_same; [assumption|]. eapply nth_error_In; eauto.
    + apply div_seq_cut; [assumption| |assumption].
      unfold split_child_core in E. rewrite check_time_ok in E by assumption. cbn [bind] in E.
      (* recover the recursive call from the structural form *)
      assert (Hh : (height ch <= hmax (A ++ ch :: B))%nat) by (apply hmax_In, in_elt).
      assert (Hwc : wf ch) by (eapply wfs_In; [exact Hw|apply in_elt]).
      destruct (split_single_inside (hmax (A ++ ch :: B)) ch (t - dsum A) false Hh Hwc ltac:(lia))
        as (q0 & q1 & Eq & Hq).
      rewrite <- (split_at_f_single_fuel (hmax (A ++ ch :: B))) by assumption.
      rewrite Eq. clear Hq.
      (* the same call is the one made by split_child_core *)
      unfold index_at_from in E. destruct ((t <? dsum (A ++ ch :: B)) && (0 <=? t)) eqn:Eb; [|discriminate].
      destruct (bisect_starts (A ++ ch :: B) 0 t Hw ltac:(lia)) as (k & ch' & Hb & Hn & Hrange).
      fold (starts (A ++ ch :: B)) in Hb. rewrite Hb in E. cbn [Nat.pred] in E.
      assert (Hk : (k < length (A ++ ch :: B))%nat) by (apply nth_error_Some; congruence).
      rewrite (nth_error_nth (starts (A ++ ch :: B)) k 0 (starts_nth _ k Hk)) in E.
      assert (k = length A).
      { assert (HnA : nth_error (A ++ ch :: B) (length A) = Some ch) by apply nth_error_length_app.
        pose proof (firstn_length_app A (ch :: B)) as HfA.
        destruct (Nat.lt_trichotomy k (length A)) as [L|[L|L]]; [|exact L|]; exfalso.
        - pose proof (dsum_firstn_S _ _ _ Hn). rewrite <- HfA in Hr at 1 2.
          pose proof (Lookup.dsum_firstn_mono (A ++ ch :: B) (S k) (length A) Hw ltac:(lia)). lia.
        - pose proof (dsum_firstn_S _ _ _ HnA). rewrite HfA in *.
          pose proof (Lookup.dsum_firstn_mono (A ++ ch :: B) (S (length A)) k Hw ltac:(lia)). lia. }
      subst k. rewrite nth_error_length_app in Hn. inversion Hn; subst ch'. rewrite firstn_length_app in *.
      destruct (t =? dsum A) eqn:Et; [lia|]. rewrite nth_error_length_app in E. rewrite Eq in E. cbn [bind] in E.
      rewrite skipn_S_length_app in E. inversion E as [E1].
      apply app_inv_head in E1. inversion E1; subst. reflexivity.
  - rewrite wf_sim in Hw. rewrite split_child_at_sim_unfold in H.
    destruct (sca_sim t cs) as [r|k] eqn:E; [|discriminate]. cbn [bind] in H. inversion H; subst e'; clear H.
    apply div_sim. revert r E. induction cs as [|c rest IHr]; intros r E.
    + rewrite sca_sim_nil in E. inversion E. constructor.
    + inversion IH as [|? ? Hc Hrest]; subst. destruct Hw as [Wc Wr]. specialize (IHr Hrest Wr).
      rewrite sca_sim_cons in E. destruct c as [d l|m' cs'|m' cs'].
      * simpl in Wc. rewrite leaf_split_voice in E by assumption. destruct (d <? t) eqn:Edt; [discriminate|].
        cbn [bind] in E. destruct (sca_sim t rest) as [r'|k] eqn:E'; [|discriminate]. cbn [bind] in E.
        inversion E; subst r. constructor; [apply div_leaf; lia|apply IHr; reflexivity].
      * destruct (split_child_at (Seq m' cs') t) as [c'|k] eqn:Ec; [|discriminate]. cbn [bind] in E.
        destruct (sca_sim t rest) as [r'|k] eqn:E'; [|discriminate]. cbn [bind] in E.
        inversion E; subst r. constructor; [apply Hc; auto|apply IHr; reflexivity].
      * destruct (split_child_at (Sim m' cs') t) as [c'|k] eqn:Ec; [|discriminate]. cbn [bind] in E.
        destruct (sca_sim t rest) as [r'|k] eqn:E'; [|discriminate]. cbn [bind] in E.
        inversion E; subst r. constructor; [apply Hc; auto|apply IHr; reflexivity].
Qed.
