(* slide_in: the new event is inserted at start; everything before start keeps its time,
   everything from start onwards is moved later by dur new, nothing is shortened. *)
From Coq Require Import ZArith List Bool Lia ZifyBool Arith.
From MV Require Import Base.Res Model.EventTree Model.TreeOps Proofs.TreeLemmas Proofs.CutOut
  Proofs.SplitBase Proofs.SplitSingle Proofs.Squash.
Import ListNotations.
Open Scope Z_scope.

(* ---------------------------------------------------------------- unfolding *)
Lemma seq_slide_unfold m cs start new : seq_slide m cs start new =
  (_ <- check_time start ;
   if start =? 0 then Ok (new :: cs) else
   if dsum cs <? start then Err EInvalidStartValue else
   parts <- split_at (Seq m cs) [start] false ;
   match parts with
   | [a; b] => Ok (children a ++ new :: children b)
   | _ => Ok (cs ++ [new])
   end).
Proof. reflexivity. Qed.

Definition sl_sim (start : Z) (new : ev) := fix go (l : list ev) : res (list ev) :=
         match l with
         | [] => Ok []
         | Leaf _ _ :: _ => Err EImpossibleToSlideIn
         | c :: r => c' <- slide_in c start new ; r' <- go r ; Ok (c' :: r')
         end.
Lemma slide_in_seq_unfold m cs start new : slide_in (Seq m cs) start new =
  (r <- seq_slide m cs start new ; Ok (Seq m r)).
Proof. reflexivity. Qed.
Lemma slide_in_sim_unfold m cs start new : slide_in (Sim m cs) start new =
  (_ <- check_time start ;
   if dmax cs <? start then Err EInvalidStartValue else
   r <- sl_sim start new cs ; Ok (Sim m r)).
Proof. reflexivity. Qed.
Lemma sl_sim_cons start new c r : is_leaf c = false ->
  sl_sim start new (c :: r) = (c' <- slide_in c start new ; r' <- sl_sim start new r ; Ok (c' :: r')).
Proof. destruct c; [discriminate|reflexivity|reflexivity]. Qed.

(* ---------------------------------------------------------------- where the new event is put *)
(* the result is A ++ new :: B with A of duration start and A ++ B denoting the same as the input *)
Lemma seq_slide_shape m cs start new : wfs cs -> 0 <= start <= dsum cs ->
  exists A B, seq_slide m cs start new = Ok (A ++ new :: B) /\ wfs A /\ wfs B /\ dsum A = start /\
    dsum (A ++ B) = dsum cs /\ forall x, at_seq (A ++ B) x = at_seq cs x.
Proof.
  intros Hwf Hst. rewrite seq_slide_unfold, check_time_ok by lia. cbn [bind].
  destruct (start =? 0) eqn:E0.
  - exists [], cs. cbn [app]. split; [reflexivity|]. split; [exact I|]. split; [assumption|].
    split; [simpl; lia|]. split; reflexivity.
  - destruct (dsum cs <? start) eqn:Ed; [lia|].
    assert (Hwe : wf (Seq m cs)) by (rewrite wf_seq; exact Hwf).
    assert (Hpos : 0 < start) by lia.
    assert (Hle : false = true \/ start <= dur (Seq m cs)) by (right; rewrite dur_seq; lia).
    unfold split_at.
    destruct (split_single_general (height (Seq m cs)) (Seq m cs) start false (le_n _) Hwe Hpos Hle)
      as (ps & E & Hs & _).
    rewrite E. cbn [bind].
    destruct Hs as (H1 & H2 & H3 & H4 & H5 & H6 & H7 & H8 & H9 & H10). rewrite dur_seq in *.
    assert (Hwhole : (length ps <> 2)%nat -> start = dsum cs) by lia.
    destruct ps as [|p0 [|p1 [|p2 ps]]].
    + specialize (Hwhole ltac:(simpl; lia)).
      exists cs, []. rewrite app_nil_r. split; [reflexivity|]. split; [assumption|]. split; [exact I|].
      split; [lia|]. split; reflexivity.
    + specialize (Hwhole ltac:(simpl; lia)).
      exists cs, []. rewrite app_nil_r. split; [reflexivity|]. split; [assumption|]. split; [exact I|].
      split; [lia|]. split; reflexivity.
    + inversion H4 as [|? ? S0 H4']; subst. inversion H4' as [|? ? S1 _]; subst.
      destruct p0 as [?|m0 l0|?]; simpl in S0; try contradiction.
      destruct p1 as [?|m1 l1|?]; simpl in S1; try contradiction.
      cbn [children]. cbn [nth_error at_opt dur_opt] in H5, H6, H7, H8. rewrite dur_seq in H7, H8.
      destruct H2 as (W0 & W1 & _). rewrite wf_seq in W0, W1.
      exists l0, l1. split; [reflexivity|]. split; [assumption|]. split; [assumption|].
      split; [lia|]. split; [rewrite dsum_app; lia|].
      intros x. rewrite at_seq_app by assumption.
      pose proof (H5 x) as A0. pose proof (H6 (x - dsum l0)) as A1. rewrite !at_seq_eq in A0, A1.
      rewrite A0, A1.
      repeat match goal with |- context [if ?c then _ else _] => destruct c eqn:? end;
        try reflexivity; try lia; try (f_equal; lia).
    + simpl in H1. lia.
Qed.

Section Slide.
  Variable new : ev.
  Variable start : Z.
  Hypothesis Hnew : wf new.
  Let d := dur new.

  Lemma seq_slide_full m cs : wfs cs -> 0 <= start <= dsum cs ->
    exists A B, seq_slide m cs start new = Ok (A ++ new :: B) /\ wfs (A ++ new :: B) /\ dsum A = start /\
      dsum (A ++ new :: B) = dsum cs + d /\
      forall x, at_seq (A ++ new :: B) x =
        if x <? start then at_seq cs x else if x <? start + d then at_ new (x - start) else at_seq cs (x - d).
  Proof.
    intros Hw Hst.
    destruct (seq_slide_shape m cs start new Hw Hst) as (A & B & E & WA & WB & DA & DAB & AAB).
    destruct (ins_shape A B new start WA WB Hnew DA) as (S1 & S2 & S3 & _ & _).
    exists A, B. split; [exact E|]. split; [exact S1|]. split; [exact DA|]. split; [unfold d; lia|].
    intros x. rewrite S3, !AAB. reflexivity.
  Qed.

  (* 1. before start unchanged, the new event at [start, start + d), the rest later by d *)
  Theorem seq_slide_spec m cs : wfs cs -> 0 <= start <= dsum cs ->
    exists r, seq_slide m cs start new = Ok r /\ wfs r /\ dsum r = dsum cs + d /\
      forall x, at_seq r x =
        if x <? start then at_seq cs x else if x <? start + d then at_ new (x - start) else at_seq cs (x - d).
  Proof.
    intros Hw Hst. destruct (seq_slide_full m cs Hw Hst) as (A & B & E & W & _ & D & H).
    exists (A ++ new :: B). repeat split; assumption.
  Qed.

  (* the new event itself is a child of the result and begins exactly at start *)
  Theorem seq_slide_new_at_start m cs r : wfs cs -> 0 <= start <= dsum cs ->
    seq_slide m cs start new = Ok r ->
    exists i, nth_error r i = Some new /\ dsum (firstn i r) = start.
  Proof.
    intros Hw Hst Er. destruct (seq_slide_full m cs Hw Hst) as (A & B & E & _ & DA & _).
    rewrite E in Er. inversion Er; subst r. exists (length A).
    split; [apply nth_error_length_app|]. rewrite firstn_length_app. exact DA.
  Qed.

  (* 2. the method on a Consecution: same container attributes *)
  Theorem slide_in_seq m cs : wfs cs -> 0 <= start <= dsum cs ->
    exists r, slide_in (Seq m cs) start new = Ok (Seq m r) /\ wfs r /\ dsum r = dsum cs + d /\
      (forall x, at_seq r x =
         if x <? start then at_seq cs x else if x <? start + d then at_ new (x - start) else at_seq cs (x - d)) /\
      exists i, nth_error r i = Some new /\ dsum (firstn i r) = start.
  Proof.
    intros Hw Hst. destruct (seq_slide_full m cs Hw Hst) as (A & B & E & W & DA & D & H).
    exists (A ++ new :: B). rewrite slide_in_seq_unfold, E. cbn [bind].
    split; [reflexivity|]. split; [exact W|]. split; [exact D|]. split; [exact H|].
    exists (length A). split; [apply nth_error_length_app|]. rewrite firstn_length_app. exact DA.
  Qed.

  (* ---------------------------------------------------------------- Concurrence.slide_in *)
  (* the accepted events are those of squash_in (Squash.sq_ok): no leaf as a voice, every innermost
     Consecution reaches start, no empty Concurrence; `emb` as in Squash.v *)
  Definition sl_post (e e' : ev) : Prop :=
    dur e' = dur e + d /\ wf e' /\ same_shape e e' /\
    forall x, at_ e' x =
      if x <? start then at_ e x else if x <? start + d then emb e (at_ new (x - start)) else at_ e (x - d).

  Hypothesis Hstart : 0 <= start.

  Lemma sl_post_voices cs r : wfs cs -> Forall2 sl_post cs r ->
    wfs r /\ dmax r = match cs with [] => 0 | _ => dmax cs + d end /\
    forall x, at_sim x r =
      if x <? start then at_sim x cs else if x <? start + d then emb_list (at_ new (x - start)) cs else at_sim (x - d) cs.
  Proof.
    pose proof (dur_nonneg new Hnew) as Hd. fold d in Hd.
    intros Hw HF. induction HF as [|c c' cs r (P1 & P2 & P3 & P4) HF IH].
    - split; [exact I|]. split; [reflexivity|]. intros x. destruct (x <? start); [|destruct (x <? start + d)]; reflexivity.
    - destruct Hw as [Hwc Hwr]. destruct (IH Hwr) as (I1 & I2 & I3). pose proof (dur_nonneg c Hwc) as Hdc.
      split; [split; assumption|]. split.
      + rewrite dmax_cons, P1, I2. destruct cs as [|c2 cs]; [cbn [dmax]|]; rewrite ?dmax_cons; lia.
      + intros x. rewrite !at_sim_cons, emb_list_cons, P4, I3.
        destruct (x <? start); [|destruct (x <? start + d)]; reflexivity.
  Qed.

  Lemma sl_sim_spec cs :
    Forall (fun e => wf e -> sq_ok start e -> exists e', slide_in e start new = Ok e' /\ sl_post e e') cs ->
    wfs cs -> sq_oks start cs -> exists r, sl_sim start new cs = Ok r /\ Forall2 sl_post cs r.
  Proof.
    induction cs as [|c rest IHrest]; intros IH Hw Hok.
    - exists []. split; [reflexivity|constructor].
    - inversion IH as [|? ? Hc Hrest]; subst. destruct Hw as [Hwc Hwr]. destruct Hok as [Hokc Hokr].
      destruct (Hc Hwc Hokc) as (c' & Ec & Pc). destruct (IHrest Hrest Hwr Hokr) as (r' & Er & Pr).
      rewrite sl_sim_cons by (apply (sq_ok_not_leaf start); assumption). rewrite Ec, Er. cbn [bind].
      exists (c' :: r'). split; [reflexivity|constructor; assumption].
  Qed.

  (* the general statement, at every nesting depth *)
  Theorem slide_in_spec : forall e, wf e -> sq_ok start e -> exists e', slide_in e start new = Ok e' /\ sl_post e e'.
  Proof.
    induction e as [dl l|m cs IH|m cs IH] using ev_ind'; intros Hw Hok.
    - destruct Hok.
    - rewrite wf_seq in Hw. simpl in Hok.
      assert (Hst : 0 <= start <= dsum cs) by lia.
      destruct (slide_in_seq m cs Hw Hst) as (r & E & W & D & H & _).
      exists (Seq m r). split; [exact E|]. unfold sl_post. rewrite !dur_seq, wf_seq.
      split; [exact D|]. split; [exact W|]. split; [reflexivity|].
      intros x. rewrite !at_seq_eq, emb_seq. apply H.
    - pose proof (sq_ok_dur start _ Hok) as Hdur. rewrite dur_sim in Hdur.
      rewrite wf_sim in Hw. rewrite sq_ok_sim in Hok. destruct Hok as [Hne Hoks].
      destruct (sl_sim_spec cs IH Hw Hoks) as (r & Er & HF).
      rewrite slide_in_sim_unfold, check_time_ok by lia. cbn [bind].
      destruct (dmax cs <? start) eqn:E; [lia|]. rewrite Er. cbn [bind].
      exists (Sim m r). split; [reflexivity|].
      destruct (sl_post_voices cs r Hw HF) as (V1 & V2 & V3).
      unfold sl_post. rewrite !dur_sim, wf_sim.
      split; [destruct cs; [congruence|exact V2]|]. split; [exact V1|]. split; [reflexivity|].
      intros x. rewrite !at_sim_eq, emb_sim, V3.
      destruct (x <? start); [|destruct (x <? start + d)]; reflexivity.
  Qed.

  (* the method on a Concurrence: the new event is slid into every voice *)
  Theorem slide_in_sim_spec m cs : wfs cs -> (forall c, In c cs -> sq_ok start c) -> start <= dmax cs ->
    exists r, slide_in (Sim m cs) start new = Ok (Sim m r) /\ Forall2 sl_post cs r.
  Proof.
    intros Hw Hok Hdur. apply sq_oks_In in Hok.
    assert (IH : Forall (fun e => wf e -> sq_ok start e -> exists e', slide_in e start new = Ok e' /\ sl_post e e') cs).
    { apply Forall_forall. intros e _. apply slide_in_spec. }
    destruct (sl_sim_spec cs IH Hw Hok) as (r & Er & HF).
    rewrite slide_in_sim_unfold, check_time_ok by lia. cbn [bind].
    destruct (dmax cs <? start) eqn:E; [lia|]. rewrite Er. cbn [bind].
    exists r. split; [reflexivity|exact HF].
  Qed.

  (* the usual case: the voices are Consecutions *)
  Theorem slide_in_sim_seq_voices m cs : wfs cs -> cs <> [] ->
    (forall c, In c cs -> is_seq c = true /\ start <= dur c) ->
    exists r, slide_in (Sim m cs) start new = Ok (Sim m r) /\
      Forall2 (fun c c' => dur c' = dur c + d /\ wf c' /\ same_shape c c' /\
                 forall x, at_ c' x =
                   if x <? start then at_ c x else if x <? start + d then at_ new (x - start) else at_ c (x - d)) cs r.
  Proof.
    intros Hw Hne Hv.
    assert (Hok : forall c, In c cs -> sq_ok start c).
    { intros c Hc. destruct (Hv c Hc) as [Hs Hd]. destruct c; try discriminate. exact Hd. }
    assert (Hdur : start <= dmax cs).
    { destruct cs as [|c r]; [congruence|]. destruct (Hv c (or_introl eq_refl)) as [_ Hd]. rewrite dmax_cons. lia. }
    destruct (slide_in_sim_spec m cs Hw Hok Hdur) as (r & E & HF).
    exists r. split; [exact E|]. apply (Forall2_impl_In _ _ _ _ HF).
    intros c c' Hc (P1 & P2 & P3 & P4). destruct (Hv c Hc) as [Hs _]. destruct c; try discriminate.
    repeat split; assumption.
  Qed.

  (* ---------------------------------------------------------------- rejections *)
  (* a leaf as a voice (the voices before it being acceptable) *)
  Theorem slide_in_leaf_voice m A dl l B : wfs A -> (forall c, In c A -> sq_ok start c) ->
    start <= dmax (A ++ Leaf dl l :: B) ->
    slide_in (Sim m (A ++ Leaf dl l :: B)) start new = Err EImpossibleToSlideIn.
  Proof.
    intros Hw Hok Hdur. rewrite slide_in_sim_unfold, check_time_ok by lia. cbn [bind].
    destruct (dmax (A ++ Leaf dl l :: B) <? start) eqn:E; [lia|].
    assert (G : sl_sim start new (A ++ Leaf dl l :: B) = Err EImpossibleToSlideIn).
    { clear E Hdur. induction A as [|c A IHA]; [reflexivity|]. destruct Hw as [Hwc HwA].
      assert (Hokc : sq_ok start c) by (apply Hok; left; reflexivity).
      destruct (slide_in_spec c Hwc Hokc) as (c' & Ec & _).
      simpl app. rewrite sl_sim_cons by (apply (sq_ok_not_leaf start); assumption). rewrite Ec. cbn [bind].
      rewrite IHA; [reflexivity|assumption|]. intros x Hx. apply Hok. right. exact Hx. }
    rewrite G. reflexivity.
  Qed.

  Corollary slide_in_leaf_first m dl l r : start <= Z.max dl (dmax r) ->
    slide_in (Sim m (Leaf dl l :: r)) start new = Err EImpossibleToSlideIn.
  Proof. intros H. apply (slide_in_leaf_voice m [] dl l r); [exact I|intros c []|exact H]. Qed.
End Slide.

Theorem slide_in_negative e start new : is_leaf e = false -> start < 0 ->
  slide_in e start new = Err EInvalidAbsoluteTime.
Proof.
  intros Hl Hs. destruct e as [dl l|m cs|m cs]; [discriminate| |].
  - rewrite slide_in_seq_unfold, seq_slide_unfold, check_time_err by lia. reflexivity.
  - rewrite slide_in_sim_unfold, check_time_err by lia. reflexivity.
Qed.

(* wf e makes dur e >= 0, hence start > 0: the front insertion (start = 0), which has no range check,
   is not concerned *)
Theorem slide_in_beyond e start new : wf e -> is_leaf e = false -> dur e < start ->
  slide_in e start new = Err EInvalidStartValue.
Proof.
  intros Hw Hl Hd. pose proof (dur_nonneg e Hw) as Hnn. destruct e as [dl l|m cs|m cs]; [discriminate| |].
  - rewrite slide_in_seq_unfold, seq_slide_unfold, check_time_ok by lia. cbn [bind].
    rewrite dur_seq in *. destruct (start =? 0) eqn:E0; [lia|]. destruct (dsum cs <? start) eqn:E; [reflexivity|lia].
  - rewrite slide_in_sim_unfold, check_time_ok by lia. cbn [bind].
    rewrite dur_sim in *. destruct (dmax cs <? start) eqn:E; [reflexivity|lia].
Qed.

Theorem slide_in_leaf e start new : is_leaf e = true -> slide_in e start new = Err EAttributeError.
Proof. destruct e; [reflexivity|discriminate|discriminate]. Qed.

(* ---------------------------------------------------------------- examples *)
(* tree and new event of Squash.v *)
Example slide_example :
  (* 12 falls inside the nested Concurrence of the first voice: it is split, nothing is removed *)
  slide_in squash_ex 12 squash_new =
    Ok (Sim meta0
         [Seq meta0 [Leaf 10 1; Sim meta0 [Leaf 2 2; Seq meta0 [Leaf 2 3]]; squash_new;
                     Sim meta0 [Leaf 3 2; Seq meta0 [Leaf 1 3; Leaf 4 4]]; Leaf 0 5; Leaf 6 6];
          Sim (mkMeta 7 0) [Seq meta0 [Leaf 12 7; squash_new; Leaf 18 7];
                            Seq meta0 [Leaf 12 8; squash_new; Leaf 12 9]]]) /\
  (* at the end of the first voice: appended there *)
  slide_in squash_ex 23 squash_new =
    Ok (Sim meta0
         [Seq meta0 [Leaf 10 1; Sim meta0 [Leaf 5 2; Seq meta0 [Leaf 3 3; Leaf 4 4]]; Leaf 0 5; Leaf 6 6; squash_new];
          Sim (mkMeta 7 0) [Seq meta0 [Leaf 23 7; squash_new; Leaf 7 7];
                            Seq meta0 [Leaf 12 8; Leaf 11 9; squash_new; Leaf 1 9]]]) /\
  (* at 0: prepended *)
  slide_in squash_ex 0 squash_new =
    Ok (Sim meta0
         [Seq meta0 [squash_new; Leaf 10 1; Sim meta0 [Leaf 5 2; Seq meta0 [Leaf 3 3; Leaf 4 4]]; Leaf 0 5; Leaf 6 6];
          Sim (mkMeta 7 0) [Seq meta0 [squash_new; Leaf 30 7];
                            Seq meta0 [squash_new; Leaf 12 8; Leaf 12 9]]]) /\
  (* at the end of a sequence with a trailing zero-length child the split returns two parts:
     the new event goes before the zero-length child *)
  split_at (Seq meta0 [Leaf 10 1; Leaf 0 2]) [10] false = Ok [Seq meta0 [Leaf 10 1]; Seq meta0 [Leaf 0 2]] /\
  slide_in (Seq meta0 [Leaf 10 1; Leaf 0 2]) 10 squash_new = Ok (Seq meta0 [Leaf 10 1; squash_new; Leaf 0 2]) /\
  slide_in (Seq meta0 [Leaf 10 1]) 10 squash_new = Ok (Seq meta0 [Leaf 10 1; squash_new]) /\
  slide_in squash_ex 24 squash_new = Err EInvalidStartValue /\
  slide_in squash_ex 31 squash_new = Err EInvalidStartValue /\
  slide_in squash_ex (-1) squash_new = Err EInvalidAbsoluteTime /\
  slide_in (Sim meta0 [Seq meta0 [Leaf 4 1]; Leaf 4 2]) 2 squash_new = Err EImpossibleToSlideIn /\
  (* the cases excluded by sq_ok *)
  slide_in (Sim meta0 []) 1 squash_new = Err EInvalidStartValue /\
  slide_in (Sim meta0 [Sim meta0 []]) 0 squash_new = Ok (Sim meta0 [Sim meta0 []]) /\
  slide_in (Sim meta0 [Sim meta0 [Leaf 5 1]]) 1 squash_new = Err EImpossibleToSlideIn.
Proof. vm_compute. repeat split; reflexivity. Qed.

(* the theorem instantiated on the example *)
Example slide_example_spec : exists e', slide_in squash_ex 12 squash_new = Ok e' /\
  dur e' = 33 /\ wf e' /\ at_ e' 11 = at_ squash_ex 11 /\ at_ e' 15 = at_ squash_ex 12 /\
  at_ e' 13 = Some (SN [SL 10; SN [SL 10; SL 10]]).
Proof.
  destruct squash_example_hyps as (Hw & Hn & _ & Hok & _).
  destruct (slide_in_spec squash_new 12 Hn ltac:(lia) squash_ex Hw Hok) as (e' & E & D & W & _ & A).
  exists e'. split; [exact E|]. split; [rewrite D; vm_compute; reflexivity|]. split; [exact W|].
  rewrite !A. vm_compute. repeat split; reflexivity.
Qed.

Print Assumptions seq_slide_spec.
Print Assumptions seq_slide_new_at_start.
Print Assumptions slide_in_seq.
Print Assumptions slide_in_spec.
Print Assumptions slide_in_sim_spec.
Print Assumptions slide_in_sim_seq_voices.
Print Assumptions slide_in_negative.
Print Assumptions slide_in_beyond.
Print Assumptions slide_in_leaf_voice.
