(* Support lemmas for the split_at proofs: lists, heights, start times, bisect, index_of. *)
From Coq Require Import ZArith List Bool Lia ZifyBool Arith.
From MV Require Import Base.Res Model.EventTree Model.TreeOps Proofs.TreeLemmas Proofs.CutOut.
Import ListNotations.
Open Scope Z_scope.

(* ------------------------------------------------------------ shapes *)
Definition same_shape (a b : ev) : Prop :=
  match a, b with
  | Leaf _ l, Leaf _ l' => l = l'
  | Seq m _, Seq m' _ => m = m'
  | Sim m _, Sim m' _ => m = m'
  | _, _ => False
  end.

Lemma same_shape_refl e : same_shape e e.
Proof. destruct e; simpl; reflexivity. Qed.

Definition at_opt (o : option ev) (x : Z) : option slice := match o with Some p => at_ p x | None => None end.
Definition dur_opt (o : option ev) : Z := match o with Some p => dur p | None => 0 end.

(* ------------------------------------------------------------ generic list facts *)
Lemma firstn_length_app {A} (a x : list A) : firstn (length a) (a ++ x) = a.
Proof. induction a as [|y a IH]; simpl; [destruct x; reflexivity|]. rewrite IH. reflexivity. Qed.
Lemma firstn_S_length_app {A} (a : list A) y x : firstn (S (length a)) (a ++ y :: x) = a ++ [y].
Proof. induction a as [|z a IH]; [destruct x; reflexivity|]. change (S (length (z :: a))) with (S (S (length a))).
  simpl app. rewrite firstn_cons. rewrite IH. reflexivity. Qed.
Lemma skipn_length_app {A} (a x : list A) : skipn (length a) (a ++ x) = x.
Proof. induction a as [|y a IH]; simpl; [reflexivity|]. exact IH. Qed.
Lemma skipn_S_length_app {A} (a : list A) y x : skipn (S (length a)) (a ++ y :: x) = x.
Proof. induction a as [|z a IH]; simpl; [reflexivity|]. exact IH. Qed.
Lemma nth_error_length_app {A} (a : list A) y x : nth_error (a ++ y :: x) (length a) = Some y.
Proof. induction a as [|z a IH]; simpl; [reflexivity|]. exact IH. Qed.

(* ------------------------------------------------------------ heights, wfs *)
Lemma height_seq m cs : height (Seq m cs) = S (hmax cs). Proof. reflexivity. Qed.
Lemma height_sim m cs : height (Sim m cs) = S (hmax cs). Proof. reflexivity. Qed.
Lemma height_leaf d l : height (Leaf d l) = 1%nat. Proof. reflexivity. Qed.
Lemma hmax_cons c r : hmax (c :: r) = Nat.max (height c) (hmax r). Proof. reflexivity. Qed.
Lemma hmax_app a b : hmax (a ++ b) = Nat.max (hmax a) (hmax b).
Proof. induction a as [|x a IH]; [reflexivity|]. simpl app. rewrite !hmax_cons, IH. lia. Qed.
Lemma hmax_firstn i l : (hmax (firstn i l) <= hmax l)%nat.
Proof. rewrite <- (firstn_skipn i l) at 2. rewrite hmax_app. lia. Qed.
Lemma hmax_skipn i l : (hmax (skipn i l) <= hmax l)%nat.
Proof. rewrite <- (firstn_skipn i l) at 2. rewrite hmax_app. lia. Qed.
Lemma hmax_In l c : In c l -> (height c <= hmax l)%nat.
Proof. induction l as [|x l IH]; simpl; [tauto|]. intros [->|H]; [lia|]. specialize (IH H). lia. Qed.
Lemma hmax_nth l i c : nth_error l i = Some c -> (height c <= hmax l)%nat.
Proof. intros H. apply hmax_In. eapply nth_error_In; eauto. Qed.
Lemma height_pos e : (1 <= height e)%nat.
Proof. destruct e; simpl; lia. Qed.

Lemma wfs_Forall l : wfs l <-> Forall wf l.
Proof. induction l as [|x l IH]; simpl; [split; auto|]. rewrite IH. split; [intros [? ?]; constructor; auto|intros H; inversion H; auto]. Qed.
Lemma wfs_In l c : wfs l -> In c l -> wf c.
Proof. rewrite wfs_Forall, Forall_forall. auto. Qed.
Lemma wfs_nth l i c : wfs l -> nth_error l i = Some c -> wf c.
Proof. intros H E. eapply wfs_In; eauto. eapply nth_error_In; eauto. Qed.
Lemma wfs_firstn i l : wfs l -> wfs (firstn i l).
Proof. intros H. rewrite <- (firstn_skipn i l) in H. apply wfs_app in H. tauto. Qed.
Lemma wfs_skipn i l : wfs l -> wfs (skipn i l).
Proof. intros H. rewrite <- (firstn_skipn i l) in H. apply wfs_app in H. tauto. Qed.
Lemma wfs_filter f l : wfs l -> wfs (filter f l).
Proof. induction l as [|x l IH]; simpl; [auto|]. intros [H1 H2]. destruct (f x); simpl; auto. Qed.
Lemma hmax_filter f l : (hmax (filter f l) <= hmax l)%nat.
Proof. induction l as [|x l IH]; simpl; [lia|]. destruct (f x); simpl; lia. Qed.

Lemma dsum_firstn_le i l : wfs l -> dsum (firstn i l) <= dsum l.
Proof. intros H. rewrite <- (firstn_skipn i l) at 2. rewrite dsum_app. pose proof (dsum_nonneg _ (wfs_skipn i l H)). lia. Qed.
Lemma dsum_firstn_skipn i l : dsum (firstn i l) + dsum (skipn i l) = dsum l.
Proof. rewrite <- (firstn_skipn i l) at 3. rewrite dsum_app. reflexivity. Qed.

(* ------------------------------------------------------------ denotation of prefixes and suffixes *)
Lemma at_seq_firstn i cs x : wfs cs ->
  at_seq (firstn i cs) x = if x <? dsum (firstn i cs) then at_seq cs x else None.
Proof.
  intros H. rewrite <- (firstn_skipn i cs) at 3. rewrite at_seq_app by auto using wfs_firstn, wfs_skipn.
  destruct (x <? dsum (firstn i cs)) eqn:E; [reflexivity|]. apply at_seq_outside; [auto using wfs_firstn|lia].
Qed.
Lemma at_seq_skipn i cs x : wfs cs ->
  at_seq (skipn i cs) x = if 0 <=? x then at_seq cs (dsum (firstn i cs) + x) else None.
Proof.
  intros H. rewrite <- (firstn_skipn i cs) at 2. rewrite at_seq_app by auto using wfs_firstn, wfs_skipn.
  destruct (0 <=? x) eqn:E.
  - destruct (dsum (firstn i cs) + x <? dsum (firstn i cs)) eqn:E2; [lia|]. f_equal. lia.
  - apply at_seq_outside; [auto using wfs_skipn|lia].
Qed.

(* a sequence with a single element *)
Lemma at_seq_single p x : wf p -> at_seq [p] x = at_ p x.
Proof.
  intros H. rewrite at_seq_cons, at_seq_nil. destruct ((0 <=? x) && (x <? dur p)) eqn:E; [reflexivity|].
  symmetry. apply at_outside; [assumption|lia].
Qed.

(* ------------------------------------------------------------ start times *)
Lemma starts_from_nth t0 cs i : (i < length cs)%nat ->
  nth_error (starts_from t0 cs) i = Some (t0 + dsum (firstn i cs)).
Proof.
  revert t0 i. induction cs as [|c r IH]; intros t0 i Hi; simpl in Hi; [lia|].
  destruct i as [|i]; simpl starts_from; simpl nth_error.
  - simpl. f_equal. lia.
  - rewrite IH by lia. rewrite firstn_cons, dsum_cons. f_equal. lia.
Qed.
Lemma starts_from_nth_inv t0 cs i t : nth_error (starts_from t0 cs) i = Some t ->
  (i < length cs)%nat /\ t = t0 + dsum (firstn i cs).
Proof.
  intros H. assert (Hi : (i < length cs)%nat).
  { rewrite <- (starts_from_length t0). apply nth_error_Some. congruence. }
  split; [assumption|]. rewrite starts_from_nth in H by assumption. congruence.
Qed.
Lemma starts_nth cs i : (i < length cs)%nat -> nth_error (starts cs) i = Some (dsum (firstn i cs)).
Proof. intros H. unfold starts. rewrite starts_from_nth by assumption. f_equal. Qed.
Lemma starts_nth_inv cs i t : nth_error (starts cs) i = Some t -> (i < length cs)%nat /\ t = dsum (firstn i cs).
Proof. intros H. apply starts_from_nth_inv in H. destruct H as [H1 H2]. split; [assumption|lia]. Qed.
Lemma starts_length cs : length (starts cs) = length cs.
Proof. apply starts_from_length. Qed.

(* ------------------------------------------------------------ index_of, memZ *)
Lemma index_of_some x l i : index_of x l = Some i -> nth_error l i = Some x.
Proof.
  revert i. induction l as [|y l IH]; intros i H; simpl in H; [discriminate|].
  destruct (x =? y) eqn:E.
  - inversion H; subst. simpl. f_equal. lia.
  - destruct (index_of x l) as [j|]; simpl in H; [|discriminate]. inversion H; subst. simpl. apply IH. reflexivity.
Qed.
Lemma index_of_none x l : index_of x l = None -> ~ In x l.
Proof.
  induction l as [|y l IH]; simpl; intros H; [tauto|].
  destruct (x =? y) eqn:E; [discriminate|]. destruct (index_of x l); simpl in H; [discriminate|].
  intros [->|Hin]; [lia|]. apply IH; auto.
Qed.
Lemma index_of_in x l : In x l -> exists i, index_of x l = Some i.
Proof.
  induction l as [|y l IH]; simpl; [tauto|]. intros H. destruct (x =? y) eqn:E; [eauto|].
  destruct H as [->|H]; [lia|]. destruct (IH H) as [i ->]. simpl. eauto.
Qed.
Lemma memZ_In x l : memZ x l = true <-> In x l.
Proof.
  induction l as [|y l IH]; simpl; [split; [discriminate|tauto]|].
  rewrite orb_true_iff, IH. split; (intros [H|H]; [left; lia|right; exact H]).
Qed.
Lemma memN_In x l : memN x l = true <-> In x l.
Proof.
  induction l as [|y l IH]; simpl; [split; [discriminate|tauto]|].
  rewrite orb_true_iff, IH, Nat.eqb_eq. split; (intros [H|H]; [left; congruence|right; exact H]).
Qed.

(* ------------------------------------------------------------ bisect_right on the start-time list *)
Lemma bisect_right_lt_all l t : (forall x, In x l -> t < x) -> bisect_right l t = 0%nat.
Proof. destruct l as [|x l]; simpl; [reflexivity|]. intros H. specialize (H x (or_introl eq_refl)). destruct (x <=? t) eqn:E; [lia|reflexivity]. Qed.

Lemma starts_from_ge t0 cs x : wfs cs -> In x (starts_from t0 cs) -> t0 <= x.
Proof.
  revert t0. induction cs as [|c r IH]; intros t0 H Hin; simpl in Hin; [tauto|]. destruct H as [Hc Hr].
  destruct Hin as [<-|Hin]; [lia|]. pose proof (dur_nonneg c Hc). specialize (IH _ Hr Hin). lia.
Qed.
Lemma starts_from_le t0 cs x : wfs cs -> In x (starts_from t0 cs) -> x <= t0 + dsum cs.
Proof.
  revert t0. induction cs as [|c r IH]; intros t0 H Hin; simpl in Hin; [tauto|]. destruct H as [Hc Hr].
  rewrite dsum_cons. pose proof (dur_nonneg c Hc). pose proof (dsum_nonneg r Hr).
  destruct Hin as [<-|Hin]; [lia|]. specialize (IH _ Hr Hin). lia.
Qed.

Lemma bisect_starts cs : forall t0 t, wfs cs -> t0 <= t < t0 + dsum cs ->
  exists i ch, bisect_right (starts_from t0 cs) t = S i /\ nth_error cs i = Some ch /\
               t0 + dsum (firstn i cs) <= t < t0 + dsum (firstn i cs) + dur ch.
Proof.
  induction cs as [|c r IH]; intros t0 t Hwf Ht; [simpl in Ht; lia|].
  destruct Hwf as [Hc Hr]. rewrite dsum_cons in Ht. simpl starts_from. simpl bisect_right.
  destruct (t0 <=? t) eqn:E0; [|lia].
  destruct (t <? t0 + dur c) eqn:E1.
  - exists 0%nat, c. rewrite bisect_right_lt_all.
    + simpl. repeat split; lia.
    + intros x Hx. apply starts_from_ge in Hx; [lia|assumption].
  - destruct (IH (t0 + dur c) t Hr ltac:(lia)) as (i & ch & Hb & Hn & Hrange).
    exists (S i), ch. rewrite Hb. simpl nth_error. rewrite firstn_cons, dsum_cons. repeat split; try assumption; lia.
Qed.

(* ------------------------------------------------------------ monad helpers *)
Lemma sortZ_single t : sortZ [t] = [t]. Proof. reflexivity. Qed.
