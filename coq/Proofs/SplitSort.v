(* sortZ (Python's sorted): permutation invariance, sortedness, extremal elements. *)
From Coq Require Import ZArith List Bool Lia ZifyBool Arith Permutation.
From MV Require Import Base.Res Model.EventTree Model.TreeOps.
Import ListNotations.
Open Scope Z_scope.

Lemma insert_sorted_comm x y l : insert_sorted x (insert_sorted y l) = insert_sorted y (insert_sorted x l).
Proof.
  induction l as [|z l IH]; simpl.
  - destruct (x <? y) eqn:E1, (y <? x) eqn:E2; try reflexivity; try lia.
    assert (x = y) by lia. subst. reflexivity.
  - destruct (y <? z) eqn:Eyz, (x <? z) eqn:Exz; simpl; rewrite ?Eyz, ?Exz.
    + destruct (x <? y) eqn:E1, (y <? x) eqn:E2; try reflexivity; try lia.
      assert (x = y) by lia. subst. reflexivity.
    + destruct (x <? y) eqn:E1; [lia|]. reflexivity.
    + destruct (y <? x) eqn:E1; [lia|]. reflexivity.
    + rewrite IH. reflexivity.
Qed.

Theorem sortZ_perm l l' : Permutation l l' -> sortZ l = sortZ l'.
Proof.
  induction 1 as [|x l l' H IH|x y l|l l' l'' H1 IH1 H2 IH2]; simpl.
  - reflexivity.
  - rewrite IH. reflexivity.
  - apply insert_sorted_comm.
  - congruence.
Qed.

Lemma insert_sorted_permutation x l : Permutation (x :: l) (insert_sorted x l).
Proof.
  induction l as [|y l IH]; simpl; [reflexivity|]. destruct (x <? y); [reflexivity|].
  rewrite perm_swap. apply perm_skip. exact IH.
Qed.
Lemma sortZ_permutation l : Permutation l (sortZ l).
Proof. induction l as [|x l IH]; simpl; [reflexivity|]. rewrite <- insert_sorted_permutation. apply perm_skip. exact IH. Qed.
Lemma sortZ_In l x : In x (sortZ l) <-> In x l.
Proof. split; apply Permutation_in; [symmetry|]; apply sortZ_permutation. Qed.
Lemma sortZ_nil_iff l : sortZ l = [] <-> l = [].
Proof.
  split; [|intros ->; reflexivity]. intros H. pose proof (sortZ_permutation l) as P. rewrite H in P.
  apply Permutation_sym, Permutation_nil in P. exact P.
Qed.
Lemma sortZ_length l : length (sortZ l) = length l.
Proof. symmetry. apply Permutation_length, sortZ_permutation. Qed.

(* ascending lists; `ssorted` is the strict version *)
Fixpoint sorted (l : list Z) : Prop := match l with [] => True | x :: r => (forall y, In y r -> x <= y) /\ sorted r end.
Fixpoint ssorted (l : list Z) : Prop := match l with [] => True | x :: r => (forall y, In y r -> x < y) /\ ssorted r end.

Lemma insert_sorted_In x y l : In y (insert_sorted x l) <-> y = x \/ In y l.
Proof.
  split; intros H.
  - apply (Permutation_in _ (Permutation_sym (insert_sorted_permutation x l))) in H. simpl in H. intuition.
  - apply (Permutation_in _ (insert_sorted_permutation x l)). simpl. intuition.
Qed.
Lemma insert_sorted_sorted x l : sorted l -> sorted (insert_sorted x l).
Proof.
  induction l as [|y l IH]; simpl; intros H; [tauto|]. destruct H as [H1 H2].
  destruct (x <? y) eqn:E; simpl.
  - split; [|split; assumption]. intros z [<-|Hz]; [lia|]. specialize (H1 z Hz). lia.
  - split; [|apply IH; assumption]. intros z Hz. apply insert_sorted_In in Hz. destruct Hz as [->|Hz]; [lia|auto].
Qed.
Lemma sortZ_sorted l : sorted (sortZ l).
Proof. induction l as [|x l IH]; simpl; [exact I|]. apply insert_sorted_sorted. exact IH. Qed.

Lemma sorted_NoDup_ssorted l : sorted l -> NoDup l -> ssorted l.
Proof.
  induction l as [|x l IH]; simpl; intros H N; [exact I|]. destruct H as [H1 H2]. inversion N as [|? ? Nx Nl]; subst.
  split; [|apply IH; assumption]. intros y Hy. specialize (H1 y Hy). assert (x <> y) by (intros ->; contradiction). lia.
Qed.
Lemma sortZ_ssorted l : NoDup l -> ssorted (sortZ l).
Proof.
  intros N. apply sorted_NoDup_ssorted; [apply sortZ_sorted|].
  eapply Permutation_NoDup; [apply sortZ_permutation|exact N].
Qed.
Lemma ssorted_sorted l : ssorted l -> sorted l.
Proof. induction l as [|x l IH]; simpl; [auto|]. intros [H1 H2]. split; [|auto]. intros y Hy. specialize (H1 y Hy). lia. Qed.
Lemma ssorted_NoDup l : ssorted l -> NoDup l.
Proof.
  induction l as [|x l IH]; simpl; intros H; [constructor|]. destruct H as [H1 H2]. constructor; [|auto].
  intros Hx. specialize (H1 x Hx). lia.
Qed.

(* head = minimum, last = maximum *)
Lemma sorted_hd_le l x : sorted l -> In x l -> hd 0 l <= x.
Proof. destruct l as [|y l]; simpl; [tauto|]. intros [H _] [<-|Hx]; [lia|auto]. Qed.
Lemma sorted_le_last l x : sorted l -> In x l -> x <= last l 0.
Proof.
  revert x. induction l as [|y l IH]; intros x; [simpl; tauto|]. intros [H1 H2] Hx. destruct l as [|z l]; [simpl in *; lia|].
  change (last (y :: z :: l) 0) with (last (z :: l) 0).
  destruct Hx as [<-|Hx]; [|apply IH; assumption].
  assert (y <= z) by (apply H1; left; reflexivity). assert (z <= last (z :: l) 0) by (apply IH; [assumption|left; reflexivity]). lia.
Qed.
Lemma last_In (l : list Z) : l <> [] -> In (last l 0) l.
Proof.
  induction l as [|y l IH]; [congruence|]. intros _. destruct l as [|z l]; [left; reflexivity|].
  right. change (last (y :: z :: l) 0) with (last (z :: l) 0). apply IH. congruence.
Qed.
Lemma hd_In (l : list Z) : l <> [] -> In (hd 0 l) l.
Proof. destruct l; [congruence|]. intros _. left. reflexivity. Qed.

Lemma sortZ_hd_min ts t : In t ts -> hd 0 (sortZ ts) <= t.
Proof. intros H. apply sorted_hd_le; [apply sortZ_sorted|apply sortZ_In; assumption]. Qed.
Lemma sortZ_last_max ts t : In t ts -> t <= lastZ (sortZ ts).
Proof. intros H. apply sorted_le_last; [apply sortZ_sorted|apply sortZ_In; assumption]. Qed.
Lemma sortZ_hd_In ts : ts <> [] -> In (hd 0 (sortZ ts)) ts.
Proof. intros H. apply sortZ_In, hd_In. rewrite sortZ_nil_iff. assumption. Qed.
Lemma sortZ_last_In ts : ts <> [] -> In (lastZ (sortZ ts)) ts.
Proof. intros H. apply sortZ_In, last_In. rewrite sortZ_nil_iff. assumption. Qed.

Lemma insert_sorted_front t l : (forall y, In y l -> t < y) -> insert_sorted t l = t :: l.
Proof. destruct l as [|y l]; simpl; [reflexivity|]. intros H. specialize (H y (or_introl eq_refl)). destruct (t <? y) eqn:E; [reflexivity|lia]. Qed.

Print Assumptions sortZ_perm.
