(* Proofs about M4 (Model/Equality.v): event equality is an equivalence on (deep) events, is False
   against non-events, and sees every difference the property lists; finding F1 as a refutation. *)
From Coq Require Import ZArith List Bool Lia.
From MV Require Import Model.Equality.
Import ListNotations.
Open Scope Z_scope.

(* ------------------------------------------------------------------ *)
(* induction principle for the nested inductive                        *)
(* ------------------------------------------------------------------ *)
Lemma evE_ind' (P : evE -> Prop)
  (HL : forall a, P (ELeaf a))
  (HC : forall k tg tp cs, Forall P cs -> P (ECont k tg tp cs))
  (HN : forall x, P (ENonEvent x)) : forall e, P e.
Proof.
  fix IH 1. intros [a|k tg tp cs|x]; [apply HL|apply HC|apply HN].
  induction cs as [|c r IHr]; constructor; auto.
Qed.

(* every node of the tree is an event (no non-event hidden among the children of a container) *)
Fixpoint all_events (a : evE) : bool :=
  match a with
  | ELeaf _ => true
  | ECont _ _ _ cs => forallb all_events cs
  | ENonEvent _ => false
  end.

(* ------------------------------------------------------------------ *)
(* unfolding equations                                                 *)
(* ------------------------------------------------------------------ *)
Lemma ev_eqb_cont k1 tg1 tp1 cs1 k2 tg2 tp2 cs2 :
  ev_eqb (ECont k1 tg1 tp1 cs1) (ECont k2 tg2 tp2 cs2) =
  kind_eqb k1 k2 && (tg1 =? tg2) && tempo_eqb tp1 tp2 && list_eqb cs1 cs2.
Proof. reflexivity. Qed.

Lemma list_eqb_nil : list_eqb [] [] = true.
Proof. reflexivity. Qed.
Lemma list_eqb_cons x r1 y r2 : list_eqb (x :: r1) (y :: r2) = ev_eqb x y && list_eqb r1 r2.
Proof. reflexivity. Qed.
Lemma list_eqb_nil_cons y r : list_eqb [] (y :: r) = false.
Proof. reflexivity. Qed.
Lemma list_eqb_cons_nil x r : list_eqb (x :: r) [] = false.
Proof. reflexivity. Qed.

Lemma list_eqb_Forall2 l1 l2 :
  list_eqb l1 l2 = true <-> Forall2 (fun x y => ev_eqb x y = true) l1 l2.
Proof.
  revert l2; induction l1 as [|x r1 IH]; intros [|y r2].
  - split; auto.
  - rewrite list_eqb_nil_cons; split; [discriminate|inversion 1].
  - rewrite list_eqb_cons_nil; split; [discriminate|inversion 1].
  - rewrite list_eqb_cons, andb_true_iff, IH. split.
    + intros [H1 H2]; constructor; auto.
    + inversion 1; subst; auto.
Qed.

(* ------------------------------------------------------------------ *)
(* the component equalities                                            *)
(* ------------------------------------------------------------------ *)
Lemma extra_eqb_iff a b : extra_eqb a b = true <-> a = b.
Proof.
  revert b; induction a as [|[n1 v1] r1 IH]; intros [|[n2 v2] r2]; simpl.
  - split; auto.
  - split; discriminate.
  - split; discriminate.
  - rewrite !andb_true_iff, !Z.eqb_eq, IH. split.
    + intros [[-> ->] ->]; reflexivity.
    + intros E; inversion E; subst; auto.
Qed.

Lemma extra_eqb_refl a : extra_eqb a a = true.
Proof. apply extra_eqb_iff; reflexivity. Qed.

Lemma extra_eqb_sym a b : extra_eqb a b = extra_eqb b a.
Proof.
  revert b; induction a as [|[n1 v1] r1 IH]; intros [|[n2 v2] r2]; simpl; try reflexivity.
  rewrite IH, (Z.eqb_sym n1 n2), (Z.eqb_sym v1 v2); reflexivity.
Qed.

Lemma tempo_eqb_iff a b : tempo_eqb a b = true <-> bpm0 a = bpm0 b.
Proof. unfold tempo_eqb; apply Z.eqb_eq. Qed.
Lemma tempo_eqb_sym a b : tempo_eqb a b = tempo_eqb b a.
Proof. unfold tempo_eqb; apply Z.eqb_sym. Qed.

Lemma kind_eqb_iff a b : kind_eqb a b = true <-> a = b.
Proof. destruct a, b; simpl; split; congruence. Qed.
Lemma kind_eqb_sym a b : kind_eqb a b = kind_eqb b a.
Proof. destruct a, b; reflexivity. Qed.

Lemma leaf_eqb_iff x y :
  leaf_eqb x y = true <->
  ldur x = ldur y /\ ltag x = ltag y /\ bpm0 (ltempo x) = bpm0 (ltempo y) /\ lextra x = lextra y.
Proof.
  unfold leaf_eqb. rewrite !andb_true_iff, !Z.eqb_eq, tempo_eqb_iff, extra_eqb_iff. tauto.
Qed.

Lemma leaf_eqb_sym x y : leaf_eqb x y = leaf_eqb y x.
Proof.
  unfold leaf_eqb.
  rewrite (Z.eqb_sym (ldur x)), (Z.eqb_sym (ltag x)), (tempo_eqb_sym (ltempo x)), (extra_eqb_sym (lextra x)).
  reflexivity.
Qed.

(* ------------------------------------------------------------------ *)
(* 1. reflexivity                                                      *)
(* ------------------------------------------------------------------ *)
(* The statement requested, `forall a, is_event a = true -> ev_eqb a a = true`, is FALSE in this
   model: `is_event` only looks at the root, and a container that holds a non-event among its children
   is not equal to itself (the child comparison is False). *)
Example ev_eqb_refl_shallow_refuted :
  exists a, is_event a = true /\ ev_eqb a a = false.
Proof. exists (ECont KSeqE 0 (mkTempoE 60 []) [ENonEvent 0]). split; vm_compute; reflexivity. Qed.

Lemma list_eqb_refl l : Forall (fun a => ev_eqb a a = true) l -> list_eqb l l = true.
Proof.
  induction 1 as [|x r Hx Hr IH]; [reflexivity|].
  rewrite list_eqb_cons, Hx, IH; reflexivity.
Qed.

(* corrected: reflexive on trees all of whose nodes are events; this is exact (iff) *)
Theorem ev_eqb_refl : forall a, all_events a = true -> ev_eqb a a = true.
Proof.
  induction a as [x|k tg tp cs IH|x] using evE_ind'; intros H.
  - apply leaf_eqb_iff; auto.
  - rewrite ev_eqb_cont.
    replace (kind_eqb k k) with true by (destruct k; reflexivity).
    rewrite Z.eqb_refl. unfold tempo_eqb; rewrite Z.eqb_refl. simpl.
    apply list_eqb_refl. simpl in H. rewrite forallb_forall in H.
    rewrite Forall_forall in *. intros c Hc; apply IH; auto.
  - discriminate.
Qed.

Theorem ev_eqb_refl_iff : forall a, ev_eqb a a = true <-> all_events a = true.
Proof.
  intros a; split; [|apply ev_eqb_refl].
  induction a as [x|k tg tp cs IH|x] using evE_ind'; intros H.
  - reflexivity.
  - rewrite ev_eqb_cont, !andb_true_iff in H. destruct H as [_ H].
    simpl. induction cs as [|c r IHr]; [reflexivity|].
    inversion IH as [|? ? Hc Hr]; subst.
    rewrite list_eqb_cons, andb_true_iff in H. destruct H as [H1 H2].
    simpl. rewrite (Hc H1), (IHr Hr H2). reflexivity.
  - discriminate.
Qed.

(* a leaf, and a container of leaves, are the common special cases *)
Corollary ev_eqb_refl_leaf x : ev_eqb (ELeaf x) (ELeaf x) = true.
Proof. apply ev_eqb_refl; reflexivity. Qed.

(* ------------------------------------------------------------------ *)
(* 2. symmetry                                                         *)
(* ------------------------------------------------------------------ *)
Theorem ev_eqb_sym : forall a b, ev_eqb a b = ev_eqb b a.
Proof.
  induction a as [x|k tg tp cs IH|x] using evE_ind'; intros [y|k2 tg2 tp2 cs2|y]; try reflexivity.
  - simpl. apply leaf_eqb_sym.
  - rewrite !ev_eqb_cont.
    rewrite (kind_eqb_sym k k2), (Z.eqb_sym tg tg2), (tempo_eqb_sym tp tp2). f_equal.
    revert cs2. induction cs as [|c r IHr]; intros [|c2 r2]; try reflexivity.
    inversion IH as [|? ? Hc Hr]; subst.
    rewrite !list_eqb_cons, (Hc c2), (IHr Hr r2). reflexivity.
Qed.

(* ------------------------------------------------------------------ *)
(* 3. `!=` and non-events                                              *)
(* ------------------------------------------------------------------ *)
Theorem ev_neqb_spec : forall a b, ev_neqb a b = negb (ev_eqb a b).
Proof. reflexivity. Qed.

Theorem ev_eqb_non_event : forall a x,
  ev_eqb a (ENonEvent x) = false /\ ev_eqb (ENonEvent x) a = false.
Proof. intros [y|k tg tp cs|y] x; split; reflexivity. Qed.

Corollary ev_neqb_non_event : forall a x,
  ev_neqb a (ENonEvent x) = true /\ ev_neqb (ENonEvent x) a = true.
Proof. intros a x; unfold ev_neqb; destruct (ev_eqb_non_event a x) as [-> ->]; auto. Qed.

(* ------------------------------------------------------------------ *)
(* 5. exact characterisation (used for 4 as well)                      *)
(* ------------------------------------------------------------------ *)
Theorem ev_eqb_leaf_iff : forall x y,
  ev_eqb (ELeaf x) (ELeaf y) = true <->
  ldur x = ldur y /\ ltag x = ltag y /\ bpm0 (ltempo x) = bpm0 (ltempo y) /\ lextra x = lextra y.
Proof. intros; simpl; apply leaf_eqb_iff. Qed.

Theorem ev_eqb_cont_iff : forall k1 tg1 tp1 cs1 k2 tg2 tp2 cs2,
  ev_eqb (ECont k1 tg1 tp1 cs1) (ECont k2 tg2 tp2 cs2) = true <->
  k1 = k2 /\ tg1 = tg2 /\ bpm0 tp1 = bpm0 tp2 /\ Forall2 (fun x y => ev_eqb x y = true) cs1 cs2.
Proof.
  intros. rewrite ev_eqb_cont, !andb_true_iff, kind_eqb_iff, Z.eqb_eq, tempo_eqb_iff, list_eqb_Forall2.
  tauto.
Qed.

Theorem ev_eqb_kinds : forall x k tg tp cs,
  ev_eqb (ELeaf x) (ECont k tg tp cs) = false /\ ev_eqb (ECont k tg tp cs) (ELeaf x) = false.
Proof. intros; split; reflexivity. Qed.

(* ------------------------------------------------------------------ *)
(* 4. transitivity                                                     *)
(* ------------------------------------------------------------------ *)
Theorem ev_eqb_trans : forall a b c,
  ev_eqb a b = true -> ev_eqb b c = true -> ev_eqb a c = true.
Proof.
  induction a as [x|k tg tp cs IH|x] using evE_ind';
    intros [y|k2 tg2 tp2 cs2|y] [z|k3 tg3 tp3 cs3|z] H1 H2; try discriminate.
  - rewrite ev_eqb_leaf_iff in *.
    destruct H1 as (A1 & A2 & A3 & A4), H2 as (B1 & B2 & B3 & B4).
    repeat split; congruence.
  - rewrite ev_eqb_cont_iff in *.
    destruct H1 as (A1 & A2 & A3 & A4), H2 as (B1 & B2 & B3 & B4).
    repeat split; try congruence.
    clear - IH A4 B4. revert cs3 B4.
    induction A4 as [|c c2 r r2 Hc Hr IHr]; intros cs3 B4; inversion B4; subst; constructor.
    + inversion IH; subst. eauto.
    + inversion IH; subst. eauto.
Qed.

(* ------------------------------------------------------------------ *)
(* 5. one-change corollaries                                           *)
(* ------------------------------------------------------------------ *)
Local Ltac by_iff L :=
  match goal with |- ?e = false =>
    let E := fresh "E" in
    destruct e eqn:E; [exfalso; apply L in E|reflexivity]
  end.

(* different container kind, everything else equal *)
Theorem neq_container_kind : forall tg tp cs,
  ev_eqb (ECont KSeqE tg tp cs) (ECont KSimE tg tp cs) = false /\
  ev_eqb (ECont KSimE tg tp cs) (ECont KSeqE tg tp cs) = false.
Proof. intros; split; reflexivity. Qed.

Theorem neq_container_kind_gen : forall k1 k2 tg1 tg2 tp1 tp2 cs1 cs2,
  k1 <> k2 -> ev_eqb (ECont k1 tg1 tp1 cs1) (ECont k2 tg2 tp2 cs2) = false.
Proof. intros. by_iff ev_eqb_cont_iff. tauto. Qed.

Lemma Forall2_length_eq {A B} (R : A -> B -> Prop) l1 l2 : Forall2 R l1 l2 -> length l1 = length l2.
Proof. induction 1; simpl; congruence. Qed.

Theorem neq_child_count : forall k1 k2 tg1 tg2 tp1 tp2 cs1 cs2,
  length cs1 <> length cs2 -> ev_eqb (ECont k1 tg1 tp1 cs1) (ECont k2 tg2 tp2 cs2) = false.
Proof.
  intros. by_iff ev_eqb_cont_iff. destruct E as (_ & _ & _ & E).
  apply Forall2_length_eq in E. contradiction.
Qed.

Lemma Forall2_nth_error {A B} (R : A -> B -> Prop) l1 l2 :
  Forall2 R l1 l2 -> forall i x y, nth_error l1 i = Some x -> nth_error l2 i = Some y -> R x y.
Proof.
  induction 1 as [|a b r1 r2 Hab Hr IH]; intros [|i] x y H1 H2; simpl in *; try discriminate.
  - congruence.
  - eauto.
Qed.

(* a differing child at some position (covers reorderings and, by iteration, any change at any depth) *)
Theorem neq_child_at : forall k1 k2 tg1 tg2 tp1 tp2 cs1 cs2 i x y,
  nth_error cs1 i = Some x -> nth_error cs2 i = Some y -> ev_eqb x y = false ->
  ev_eqb (ECont k1 tg1 tp1 cs1) (ECont k2 tg2 tp2 cs2) = false.
Proof.
  intros * H1 H2 Hxy. by_iff ev_eqb_cont_iff. destruct E as (_ & _ & _ & E).
  pose proof (Forall2_nth_error _ _ _ E i x y H1 H2) as F. simpl in F. congruence.
Qed.

(* the converse: two containers that agree on kind, tag and tempo bpm and are unequal have a different
   number of children or differ at some position *)
Theorem neq_cont_witness : forall k tg tp1 tp2 cs1 cs2,
  bpm0 tp1 = bpm0 tp2 ->
  ev_eqb (ECont k tg tp1 cs1) (ECont k tg tp2 cs2) = false ->
  length cs1 <> length cs2 \/
  exists i x y, nth_error cs1 i = Some x /\ nth_error cs2 i = Some y /\ ev_eqb x y = false.
Proof.
  intros k tg tp1 tp2 cs1 cs2 Hb H.
  assert (L : list_eqb cs1 cs2 = false).
  { rewrite ev_eqb_cont in H. replace (kind_eqb k k) with true in H by (destruct k; reflexivity).
    rewrite Z.eqb_refl in H. unfold tempo_eqb in H. rewrite Hb, Z.eqb_refl in H. exact H. }
  clear H. revert cs2 L. induction cs1 as [|c r IH]; intros [|c2 r2] L.
  - discriminate.
  - left; simpl; lia.
  - left; simpl; lia.
  - rewrite list_eqb_cons in L. destruct (ev_eqb c c2) eqn:Ec.
    + simpl in L. destruct (IH r2 L) as [Hl|(i & x & y & H1 & H2 & H3)].
      * left; simpl; lia.
      * right; exists (S i), x, y; auto.
    + right; exists 0%nat, c, c2; auto.
Qed.

Theorem neq_leaf_duration : forall x y, ldur x <> ldur y -> ev_eqb (ELeaf x) (ELeaf y) = false.
Proof. intros. by_iff ev_eqb_leaf_iff. tauto. Qed.

Theorem neq_tag_leaf : forall x y, ltag x <> ltag y -> ev_eqb (ELeaf x) (ELeaf y) = false.
Proof. intros. by_iff ev_eqb_leaf_iff. tauto. Qed.

Theorem neq_tag_cont : forall k1 k2 tg1 tg2 tp1 tp2 cs1 cs2,
  tg1 <> tg2 -> ev_eqb (ECont k1 tg1 tp1 cs1) (ECont k2 tg2 tp2 cs2) = false.
Proof. intros. by_iff ev_eqb_cont_iff. tauto. Qed.

Theorem neq_tag : (forall x y, ltag x <> ltag y -> ev_eqb (ELeaf x) (ELeaf y) = false) /\
  (forall k1 k2 tg1 tg2 tp1 tp2 cs1 cs2,
     tg1 <> tg2 -> ev_eqb (ECont k1 tg1 tp1 cs1) (ECont k2 tg2 tp2 cs2) = false).
Proof. split; [exact neq_tag_leaf|exact neq_tag_cont]. Qed.

Theorem neq_extra : forall x y, lextra x <> lextra y -> ev_eqb (ELeaf x) (ELeaf y) = false.
Proof. intros. by_iff ev_eqb_leaf_iff. tauto. Qed.

Theorem neq_tempo_bpm_leaf : forall x y,
  bpm0 (ltempo x) <> bpm0 (ltempo y) -> ev_eqb (ELeaf x) (ELeaf y) = false.
Proof. intros. by_iff ev_eqb_leaf_iff. tauto. Qed.

Theorem neq_tempo_bpm_cont : forall k1 k2 tg1 tg2 tp1 tp2 cs1 cs2,
  bpm0 tp1 <> bpm0 tp2 -> ev_eqb (ECont k1 tg1 tp1 cs1) (ECont k2 tg2 tp2 cs2) = false.
Proof. intros. by_iff ev_eqb_cont_iff. tauto. Qed.

Theorem neq_tempo_bpm :
  (forall x y, bpm0 (ltempo x) <> bpm0 (ltempo y) -> ev_eqb (ELeaf x) (ELeaf y) = false) /\
  (forall k1 k2 tg1 tg2 tp1 tp2 cs1 cs2,
     bpm0 tp1 <> bpm0 tp2 -> ev_eqb (ECont k1 tg1 tp1 cs1) (ECont k2 tg2 tp2 cs2) = false).
Proof. split; [exact neq_tempo_bpm_leaf|exact neq_tempo_bpm_cont]. Qed.

(* an attribute present on one side only (different length of the sorted attribute lists) *)
Corollary neq_extra_missing : forall x y,
  length (lextra x) <> length (lextra y) -> ev_eqb (ELeaf x) (ELeaf y) = false.
Proof. intros x y H. apply neq_extra. intros E; rewrite E in H; auto. Qed.

(* ------------------------------------------------------------------ *)
(* 6. finding F1: equality ignores a tempo trajectory after time 0     *)
(* ------------------------------------------------------------------ *)
Theorem tempo_after_time0_refuted : exists a b, a <> b /\ ev_eqb a b = true.
Proof.
  exists (ELeaf (mkLeafE 10000000000 0 (mkTempoE 60 []) [])),
         (ELeaf (mkLeafE 10000000000 0 (mkTempoE 60 [(10000000000, 120, 0)]) [])).
  split; [discriminate|vm_compute; reflexivity].
Qed.

(* the same for a container tempo, in general *)
Theorem tempo_rest_ignored : forall k tg b r1 r2 cs,
  all_events (ECont k tg (mkTempoE b r1) cs) = true ->
  ev_eqb (ECont k tg (mkTempoE b r1) cs) (ECont k tg (mkTempoE b r2) cs) = true.
Proof.
  intros k tg b r1 r2 cs H. apply ev_eqb_refl in H.
  rewrite ev_eqb_cont in *. exact H.
Qed.

(* ------------------------------------------------------------------ *)
(* 7. examples                                                         *)
(* ------------------------------------------------------------------ *)
Definition t60 := mkTempoE 60 [].
Definition ex_tree (deep_value : Z) : evE :=
  ECont KSeqE 1 t60
    [ ELeaf (mkLeafE 10000000000 0 t60 [(1, 5)]);
      ECont KSimE 2 (mkTempoE 90 [(5, 120, 0)])
        [ ECont KSeqE 3 t60
            [ ELeaf (mkLeafE 5000000000 7 t60 [(1, 4); (2, deep_value)]);
              ELeaf (mkLeafE 2500000000 0 t60 []) ];
          ELeaf (mkLeafE 7500000000 8 t60 [(3, 1)]) ];
      ELeaf (mkLeafE 3333333333 0 t60 []) ].

Example ex_tree_events : all_events (ex_tree 9) = true.
Proof. vm_compute; reflexivity. Qed.
Example ex_tree_refl : ev_eqb (ex_tree 9) (ex_tree 9) = true.
Proof. vm_compute; reflexivity. Qed.
(* one attribute value of one leaf at depth 3 changed *)
Example ex_tree_deep_change : ev_eqb (ex_tree 9) (ex_tree 10) = false /\ ev_neqb (ex_tree 9) (ex_tree 10) = true.
Proof. split; vm_compute; reflexivity. Qed.
(* the same by the theorems, iterating `neq_child_at` down the path 1.0.0 *)
Example ex_tree_deep_change_by_thm : ev_eqb (ex_tree 9) (ex_tree 10) = false.
Proof.
  unfold ex_tree.
  eapply (neq_child_at _ _ _ _ _ _ _ _ 1%nat); [reflexivity|reflexivity|].
  eapply (neq_child_at _ _ _ _ _ _ _ _ 0%nat); [reflexivity|reflexivity|].
  eapply (neq_child_at _ _ _ _ _ _ _ _ 0%nat); [reflexivity|reflexivity|].
  apply neq_extra. simpl. congruence.
Qed.
(* order of children matters *)
Example ex_order :
  ev_eqb (ECont KSeqE 0 t60 [ELeaf (mkLeafE 1 0 t60 []); ELeaf (mkLeafE 2 0 t60 [])])
         (ECont KSeqE 0 t60 [ELeaf (mkLeafE 2 0 t60 []); ELeaf (mkLeafE 1 0 t60 [])]) = false.
Proof. vm_compute; reflexivity. Qed.
Example ex_non_event : ev_eqb (ex_tree 9) (ENonEvent 3) = false /\ ev_eqb (ENonEvent 3) (ENonEvent 3) = false.
Proof. split; reflexivity. Qed.

Print Assumptions ev_eqb_refl.
Print Assumptions ev_eqb_refl_iff.
Print Assumptions ev_eqb_refl_shallow_refuted.
Print Assumptions ev_eqb_sym.
Print Assumptions ev_neqb_spec.
Print Assumptions ev_eqb_non_event.
Print Assumptions ev_eqb_trans.
Print Assumptions ev_eqb_leaf_iff.
Print Assumptions ev_eqb_cont_iff.
Print Assumptions ev_eqb_kinds.
Print Assumptions neq_container_kind.
Print Assumptions neq_container_kind_gen.
Print Assumptions neq_child_count.
Print Assumptions neq_child_at.
Print Assumptions neq_cont_witness.
Print Assumptions neq_leaf_duration.
Print Assumptions neq_tag.
Print Assumptions neq_extra.
Print Assumptions neq_extra_missing.
Print Assumptions neq_tempo_bpm.
Print Assumptions tempo_after_time0_refuted.
Print Assumptions tempo_rest_ignored.
Print Assumptions ex_tree_deep_change.
Print Assumptions ex_tree_deep_change_by_thm.
