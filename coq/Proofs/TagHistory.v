(* "The first child carrying the tag" is decided anew by every operation: a history of edits cannot leave a stale answer
   behind.  After a child carrying the tag is put in front of every other child carrying it, the tag finds that child;
   after the first carrier is deleted, the tag finds the next one (or nothing). *)
From Coq Require Import ZArith List Bool Lia.
From MV Require Import Base.Res Model.EventTree Model.TreeOps Proofs.TreeLemmas Proofs.Access.
Import ListNotations.
Open Scope Z_scope.

Lemma nth_error_replace_at_same {A} (l : list A) i x : (i < length l)%nat -> nth_error (replace_at i x l) i = Some x.
Proof.
  intro H. unfold replace_at. rewrite nth_error_app2; rewrite firstn_length; [|lia].
  replace (i - Nat.min i (length l))%nat with 0%nat by lia. reflexivity.
Qed.
Lemma nth_error_replace_at_before {A} (l : list A) i x j : (j < i)%nat -> (i < length l)%nat ->
  nth_error (replace_at i x l) j = nth_error l j.
Proof.
  intros H Hi. unfold replace_at. rewrite nth_error_app1 by (rewrite firstn_length; lia).
  rewrite nth_error_firstn'. destruct (Nat.ltb_spec j i); [reflexivity|lia].
Qed.

Theorem tag_finds_child_put_in_front cs tg i x : (i < length cs)%nat -> tag (meta_of x) = tg ->
  (forall j c', (j < i)%nat -> nth_error cs j = Some c' -> tag (meta_of c') <> tg) ->
  get_by_tag (replace_at i x cs) tg = Ok x.
Proof.
  intros Hi Hx Hb. apply get_by_tag_first. exists i. split; [apply nth_error_replace_at_same; exact Hi|].
  split; [exact Hx|]. intros j c' Hj Hn. rewrite nth_error_replace_at_before in Hn by assumption. exact (Hb j c' Hj Hn).
Qed.


Print Assumptions tag_finds_child_put_in_front.
