(* Histories of joins: concatenating any number of simultaneities of sequences by index, one after the other on the
   same receiver, always succeeds, keeps the invariant (well-formed voices that are sequences) and makes the total
   duration the sum of all operands' durations. *)
From Coq Require Import ZArith List Bool Lia.
From MV Require Import Base.Res Model.EventTree Model.TreeOps Proofs.TreeLemmas Proofs.Extend Proofs.Join.
Import ListNotations.
Open Scope Z_scope.

Definition seqs (l : list ev) : Prop := Forall (fun e => is_seq e = true) l.

Lemma wf_padv d e : wf e -> wf (padv d e).
Proof.
  destruct e as [x l|m cs|m cs]; cbn [padv]; intro H; try exact H.
  rewrite wf_seq in *. apply padded_wfs. exact H.
Qed.
Lemma wfs_map_padv d cs : wfs cs -> wfs (map (padv d) cs).
Proof. induction cs as [|c r IH]; cbn [map]; [trivial|]. rewrite !wfs_cons. intros [H1 H2]. split; [apply wf_padv; exact H1|apply IH; exact H2]. Qed.

Lemma wf_children e : wf e -> wfs (children e).
Proof. destruct e as [x l|m cs|m cs]; cbn [children]; intro H; [exact I|exact H|exact H]. Qed.

Lemma wf_joinv c o : wf c -> wf o -> wf (joinv c o).
Proof.
  destruct c as [x l|m cs|m cs]; cbn [joinv]; intros Hc Ho; try exact Hc.
  rewrite wf_seq in *. apply wfs_app. split; [exact Hc|apply wf_children; exact Ho].
Qed.
Lemma wf_newv d o : 0 <= d -> wf o -> wf (newv d o).
Proof.
  destruct o as [x l|m cs|m cs]; cbn [newv]; intros Hd Ho; try exact Ho.
  destruct (0 <? d); [|exact Ho]. rewrite wf_seq in *. rewrite wfs_cons. split; [exact Hd|exact Ho].
Qed.

Lemma zipjoin_inv d : 0 <= d -> forall os cs, wfs cs -> wfs os -> seqs cs -> seqs os ->
  wfs (zipjoin d cs os) /\ seqs (zipjoin d cs os).
Proof.
  intros Hd. induction os as [|o or IH]; intros cs Hc Ho Sc So; cbn [zipjoin]; [split; assumption|].
  rewrite wfs_cons in Ho. destruct Ho as [Ho1 Ho2]. inversion So as [|? ? So1 So2]; subst.
  destruct cs as [|c cr].
  - destruct (IH [] I Ho2 (Forall_nil _) So2) as [W S]. split.
    + rewrite wfs_cons. split; [apply wf_newv; assumption|exact W].
    + constructor; [apply is_seq_newv; exact So1|exact S].
  - rewrite wfs_cons in Hc. destruct Hc as [Hc1 Hc2]. inversion Sc as [|? ? Sc1 Sc2]; subst.
    destruct (IH cr Hc2 Ho2 Sc2 So2) as [W S]. split.
    + rewrite wfs_cons. split; [apply wf_joinv; assumption|exact W].
    + constructor; [apply is_seq_joinv; exact Sc1|exact S].
Qed.

(* one join keeps the invariant *)
Theorem concat_index_inv m cs m2 os : wfs cs -> wfs os -> seqs cs -> seqs os ->
  exists cs', concatenate false (Sim m cs) (Sim m2 os) = Ok (Sim m cs') /\ wfs cs' /\ seqs cs' /\
              dur (Sim m cs') = dur (Sim m cs) + dur (Sim m2 os).
Proof.
  intros Hc Ho Sc So. pose proof (concat_index_list m cs m2 os Hc Sc So) as E.
  eexists. split; [exact E|].
  destruct (zipjoin_inv (dmax cs) (dmax_nonneg cs) os (map (padv (dmax cs)) cs)
              (wfs_map_padv _ _ Hc) Ho (padv_is_seq _ _ Sc) So) as [W S].
  split; [exact W|]. split; [exact S|].
  exact (concat_index_dur m cs m2 os _ Hc Ho Sc So E).
Qed.

(* a history of joins on one receiver *)
Fixpoint join_all (e : ev) (ops : list ev) : res ev :=
  match ops with
  | [] => Ok e
  | o :: r => match concatenate false e o with Ok e' => join_all e' r | Err k => Err k end
  end.
Definition operand_ok (o : ev) : Prop := exists m os, o = Sim m os /\ wfs os /\ seqs os.
Fixpoint dur_sum (ops : list ev) : Z := match ops with [] => 0 | o :: r => dur o + dur_sum r end.

Theorem join_history : forall ops m cs, wfs cs -> seqs cs -> Forall operand_ok ops ->
  exists cs', join_all (Sim m cs) ops = Ok (Sim m cs') /\ wfs cs' /\ seqs cs' /\
              dur (Sim m cs') = dur (Sim m cs) + dur_sum ops.
Proof.
  induction ops as [|o r IH]; intros m cs Hc Sc Hops; cbn [join_all dur_sum].
  - exists cs. repeat split; try assumption. lia.
  - inversion Hops as [|? ? Ho Hr]; subst. destruct Ho as (m2 & os & -> & Wo & So).
    destruct (concat_index_inv m cs m2 os Hc Wo Sc So) as (cs1 & E & W1 & S1 & D1).
    rewrite E. destruct (IH m cs1 W1 S1 Hr) as (cs' & E' & W' & S' & D').
    exists cs'. split; [exact E'|]. split; [exact W'|]. split; [exact S'|]. rewrite D', D1. lia.
Qed.
Print Assumptions join_history.
