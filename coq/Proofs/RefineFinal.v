(* sequentialize, hypothesis-free: the section hypothesis `split_multi` of Proofs/RefineSeq.v is
   discharged from Proofs/SplitMulti.v (`split_multi_gen`), and the section theorems are instantiated. *)
From Coq Require Import ZArith List Bool Lia ZifyBool Arith Sorted.
From MV Require Import Base.Res Model.EventTree Model.TreeOps Proofs.TreeLemmas Proofs.CutOut
  Proofs.Split Proofs.RefineSeq.
Import ListNotations.
Open Scope Z_scope.

(* ------------------------------------------------------------ from `aligned` to `mspec` *)
(* nothing of e is left from lo on: every remaining window is empty, no part is needed *)
Lemma mspec_beyond e : wf e -> forall bs lo, dur e <= lo -> sorted (lo :: bs) -> mspec e (lo :: bs) [].
Proof.
  intros We. induction bs as [|b bs IH]; intros lo Hlo Hs.
  - split; [|reflexivity]. split.
    + intros y. simpl. unfold in_win. destruct ((0 <=? y) && true) eqn:E; [|reflexivity].
      symmetry. apply at_outside; [assumption|lia].
    + simpl. unfold win_len. lia.
  - destruct Hs as [Hs1 Hs2]. assert (lo <= b) by (apply Hs1; left; reflexivity).
    split; [|apply IH; [lia|assumption]]. split.
    + intros y. simpl. destruct (in_win lo (Some b) y) eqn:E; [|reflexivity]. unfold in_win in E.
      symmetry. apply at_outside; [assumption|lia].
    + simpl. unfold win_len. lia.
Qed.

Lemma aligned_mspec e : wf e -> forall ps lo bs, sorted (lo :: bs) -> aligned e lo bs ps ->
  wfs ps /\ mspec e (lo :: bs) ps.
Proof.
  intros We. induction ps as [|p ps IH]; intros lo bs Hs H.
  - simpl in H. split; [exact I|]. apply mspec_beyond; assumption.
  - destruct bs as [|b bs]; cbn [aligned] in H.
    + destruct H as [-> (W & _ & _ & D & A)]. split; [exact (conj W I)|]. split; [|reflexivity].
      split; [exact A|exact D].
    + destruct H as [(W & _ & _ & D & A) H]. destruct Hs as [Hs1 Hs2]. destruct (IH b bs Hs2 H) as [I1 I2].
      split; [exact (conj W I1)|]. split; [|exact I2]. split; [exact A|exact D].
Qed.

Lemma StronglySorted_ssorted l : StronglySorted Z.lt l -> ssorted l.
Proof. induction 1 as [|x l H IH HF]; [exact I|]. split; [apply Forall_forall; exact HF|exact IH]. Qed.

(* ------------------------------------------------------------ the hypothesis of Section Sequentialize *)
Theorem split_multi_for_sequentialize : forall n e sl, (height e <= n)%nat -> wf e -> sl <> [] ->
  StronglySorted Z.lt sl -> (forall t, In t sl -> 0 <= t) ->
  exists ps, split_at_f n e sl true = Ok ps /\ multi_spec e sl ps.
Proof.
  intros n e sl Hh We Hne Hs Hnn. apply StronglySorted_ssorted in Hs.
  destruct (times_decompose sl Hs Hnn) as (z & bs & -> & Hp & _).
  destruct (split_multi_gen n e z bs true Hh We Hp Hne (or_introl eq_refl)) as (ps & E & Ha).
  exists ps. split; [exact E|]. unfold multi_spec, cuts. rewrite times_sl1 by assumption.
  apply aligned_mspec; [assumption| |assumption]. apply ssorted_sorted, pos_sorted_cons0. assumption.
Qed.

(* ------------------------------------------------------------ the theorems *)
(* sequentialize never fails on a well-formed simultaneity; the rows tile it *)
Theorem sequentialize_ok_final m cs : wfs cs ->
  exists rs, sequentialize (Sim m cs) = Ok (Seq (mkMeta (tag m) 0) rs) /\
    wfs rs /\ dsum rs = dmax cs /\ (forall x, at_seq rs x = at_ (Sim m cs) x) /\
    Forall rect_row rs /\ (0 < dmax cs -> Forall (fun r => 0 < dur r) rs).
Proof. exact (sequentialize_ok split_multi_for_sequentialize m cs). Qed.

(* the result is well-formed, has the same duration and the same denotation *)
Theorem sequentialize_at_final m cs e' : wfs cs -> sequentialize (Sim m cs) = Ok e' ->
  wf e' /\ dur e' = dmax cs /\ forall x, at_ e' x = at_ (Sim m cs) x.
Proof. exact (sequentialize_at split_multi_for_sequentialize m cs e'). Qed.

Theorem sequentialize_dur_final m cs m' rs : wfs cs -> sequentialize (Sim m cs) = Ok (Seq m' rs) ->
  dsum rs = dmax cs.
Proof. exact (sequentialize_dur split_multi_for_sequentialize m cs m' rs). Qed.

(* every voice of every row has the duration of the row, or the duration 0;
   if the simultaneity has a positive duration, so has every row *)
Theorem sequentialize_rectangular_final m cs m' rs : wfs cs -> sequentialize (Sim m cs) = Ok (Seq m' rs) ->
  Forall (fun r => exists vs, r = Sim meta0 vs /\ vs <> [] /\ Forall (fun v => dur v = dur r \/ dur v = 0) vs) rs /\
  (0 < dmax cs -> Forall (fun r => 0 < dur r) rs).
Proof. exact (sequentialize_rectangular split_multi_for_sequentialize m cs m' rs). Qed.

(* the hypotheses are satisfiable on a nested example with voices of unequal length *)
Example ex_final : wfs ex_voices /\
  exists e', sequentialize (Sim (mkMeta 7 3) ex_voices) = Ok e' /\ dur e' = 5 /\
             forall x, at_ e' x = at_ (Sim (mkMeta 7 3) ex_voices) x.
Proof.
  split; [exact ex_voices_wfs|]. eexists. split; [exact ex_unequal|].
  destruct (sequentialize_at_final _ _ _ ex_voices_wfs ex_unequal) as (_ & Hd & Ha). split; [exact Hd|exact Ha].
Qed.

Print Assumptions split_multi_for_sequentialize.
Print Assumptions sequentialize_ok_final.
Print Assumptions sequentialize_at_final.
Print Assumptions sequentialize_dur_final.
Print Assumptions sequentialize_rectangular_final.
