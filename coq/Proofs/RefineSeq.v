(* Structure-refining operations, part 2: Concurrence.sequentialize.
   A simultaneity becomes a sequence of simultaneous slices; duration and denotation stay the same.
   The behaviour of split_at with several times (ignore_invalid_split_point = true) enters as the
   section hypothesis `split_multi` (to be discharged from Proofs/SplitMulti.v). *)
From Coq Require Import ZArith List Bool Lia ZifyBool Arith Sorted.
From MV Require Import Base.Res Model.EventTree Model.TreeOps Proofs.TreeLemmas Proofs.CutOut
  Proofs.SplitBase Proofs.SplitSingle Proofs.SplitSort.
Import ListNotations.
Open Scope Z_scope.

(* ------------------------------------------------------------ what the parts of a multi-cut denote *)
(* the window [lo, hi) (hi = None: no upper bound), in coordinates relative to lo *)
Definition in_win (lo : Z) (hi : option Z) (y : Z) : bool :=
  (0 <=? y) && match hi with Some h => lo + y <? h | None => true end.
Definition win_len (e : ev) (lo : Z) (hi : option Z) : Z :=
  Z.max 0 (match hi with Some h => Z.min h (dur e) | None => dur e end - lo).
(* o is the window [lo, hi) of e; a missing part stands for an empty window *)
Definition win (e : ev) (lo : Z) (hi : option Z) (o : option ev) : Prop :=
  (forall y, at_opt o y = if in_win lo hi y then at_ e (lo + y) else None) /\ dur_opt o = win_len e lo hi.
(* part j is the window between the j-th cut and the next one (the last window is unbounded);
   the list of parts may be shorter than the list of cuts (missing parts are empty windows) but not longer *)
Fixpoint mspec (e : ev) (cs : list Z) (ps : list ev) {struct cs} : Prop :=
  match cs with
  | [] => ps = []
  | c :: r => win e c (hd_error r) (hd_error ps) /\ mspec e r (tl ps)
  end.
(* Event.split_at adds the cut 0 when it is not among the times *)
Definition cuts (sl : list Z) : list Z := if memZ 0 sl then sl else 0 :: sl.
Definition multi_spec (e : ev) (sl : list Z) (ps : list ev) : Prop := wfs ps /\ mspec e (cuts sl) ps.

Lemma mspec_length e : forall cs ps, mspec e cs ps -> (length ps <= length cs)%nat.
Proof.
  induction cs as [|c r IH]; intros ps H; [simpl in H; subst; simpl; lia|].
  destruct H as [_ H]. apply IH in H. destruct ps; simpl in *; lia.
Qed.

(* ------------------------------------------------------------ list helpers *)
Lemma nth_error_tl {A} (ps : list A) j : nth_error ps (S j) = nth_error (tl ps) j.
Proof. destruct ps; [destruct j; reflexivity|reflexivity]. Qed.
Lemma hd_error_nth {A} (ps : list A) : nth_error ps 0 = hd_error ps.
Proof. destruct ps; reflexivity. Qed.
Lemma wfs_tl ps : wfs ps -> wfs (tl ps).
Proof. destruct ps; simpl; tauto. Qed.

Lemma Forall2_map_r {A B C} (P : A -> C -> Prop) (f : B -> C) l l' :
  Forall2 (fun a b => P a (f b)) l l' -> Forall2 P l (map f l').
Proof. induction 1; simpl; constructor; auto. Qed.
Lemma Forall2_imp {A B} (P Q : A -> B -> Prop) l l' :
  (forall a b, P a b -> Q a b) -> Forall2 P l l' -> Forall2 Q l l'.
Proof. intros H. induction 1; constructor; auto. Qed.
Lemma Forall_Forall2_map {A B} (P : A -> B -> Prop) (f : A -> B) l :
  Forall (fun a => P a (f a)) l -> Forall2 P l (map f l).
Proof. induction 1; simpl; constructor; auto. Qed.
Lemma Forall2_right {A B} (P : A -> B -> Prop) (Q : B -> Prop) l l' :
  Forall2 P l l' -> (forall a b, P a b -> Q b) -> Forall Q l'.
Proof. induction 1; intros H'; constructor; eauto. Qed.

Lemma row_S pss j : row pss (S j) = row (map (@tl ev) pss) j.
Proof. induction pss as [|ps pss IH]; [reflexivity|]. cbn [map]. rewrite !row_cons, IH, nth_error_tl. reflexivity. Qed.
Lemma rowsN_S pss N : map (row pss) (seq 0 (S N)) = row pss 0 :: map (row (map (@tl ev) pss)) (seq 0 N).
Proof. cbn [seq map]. f_equal. rewrite <- seq_shift, map_map. apply map_ext. intros j. apply row_S. Qed.

Lemma nonempty_nil {A} (r : list A) : nonempty r = false -> r = [].
Proof. destruct r; [reflexivity|discriminate]. Qed.

(* ------------------------------------------------------------ one row *)
Lemma row0_sem cs pss lo hi : 0 <= lo ->
  Forall2 (fun c ps => wfs ps /\ win c lo hi (hd_error ps)) cs pss ->
  (forall y, at_sim y (row pss 0) = if in_win lo hi y then at_sim (lo + y) cs else []) /\
  dmax (row pss 0) = Z.max 0 (match hi with Some h => Z.min h (dmax cs) | None => dmax cs end - lo) /\
  wfs (row pss 0).
Proof.
  intros Hlo HF. induction HF as [|c ps cs pss [Wps [Ha Hd]] HF IH].
  - rewrite row_nil. split; [intros y; destruct (in_win lo hi y); reflexivity|]. split; [|exact I].
    simpl. destruct hi; lia.
  - destruct IH as (I1 & I2 & I3). rewrite <- (hd_error_nth ps) in Ha, Hd.
    assert (Hw : forall p, nth_error ps 0 = Some p -> wf p) by (intros p E; exact (wfs_nth ps 0 p Wps E)).
    rewrite row_cons. split; [|split].
    + intros y. rewrite at_sim_app, elem_at, Ha, I1, at_sim_cons. destruct (in_win lo hi y); [|reflexivity].
      destruct (at_ c (lo + y)); reflexivity.
    + rewrite dmax_app, elem_dmax by assumption. rewrite Hd, I2, dmax_cons. unfold win_len.
      pose proof (dmax_nonneg cs). destruct hi; lia.
    + apply wfs_app. split; [apply elem_wfs; assumption|assumption].
Qed.

Lemma row0_forall (P : ev -> Prop) pss :
  Forall (fun ps => forall p, hd_error ps = Some p -> P p) pss -> Forall P (row pss 0).
Proof.
  induction 1 as [|ps pss Hps HF IH]; [rewrite row_nil; constructor|].
  rewrite row_cons. apply Forall_app. split; [|assumption]. rewrite hd_error_nth.
  destruct (hd_error ps) as [p|]; [|constructor]. unfold elem. destruct (truthy p); constructor; auto.
Qed.

(* ------------------------------------------------------------ the rows tile the simultaneity *)
(* a voice c and its parts ps for the cuts lo :: sl; D is the common end;
   the duration of the voice is one of the cuts, or D *)
Definition vrel (D lo : Z) (sl : list Z) (c : ev) (ps : list ev) : Prop :=
  wf c /\ wfs ps /\ mspec c (lo :: sl) ps /\ (dur c <= lo \/ In (dur c) (sl ++ [D])).

Lemma vrel_max_len D lo sl cs pss : Forall2 (vrel D lo sl) cs pss -> (max_len pss <= S (length sl))%nat.
Proof.
  induction 1 as [|c ps cs pss Hc HF IH]; [simpl; lia|]. rewrite max_len_cons.
  destruct Hc as (_ & _ & Hm & _). apply mspec_length in Hm. cbn [length] in Hm. lia.
Qed.

Definition rect_row (r : ev) : Prop :=
  exists vs, r = Sim meta0 vs /\ vs <> [] /\ Forall (fun v => dur v = dmax vs \/ dur v = 0) vs.

Lemma rows_tile m cs D : wfs cs -> D = dmax cs ->
  forall sl lo pss, 0 <= lo -> ssorted (lo :: sl) -> (forall t, In t (lo :: sl) -> t <= D) ->
  Forall2 (vrel D lo sl) cs pss ->
  let R := map (fun r => Sim meta0 r) (filter nonempty (map (row pss) (seq 0 (S (length sl))))) in
  wfs R /\ dsum R = D - lo /\
  (forall y, at_seq R y = if 0 <=? y then at_ (Sim m cs) (lo + y) else None) /\
  Forall rect_row R /\
  ((forall t, In t (lo :: sl) -> t < D) -> Forall (fun r => 0 < dur r) R).
Proof.
  intros Hwf HD. induction sl as [|hi r IH]; intros lo pss Hlo Hs Hle HF; cbv zeta.
  - cbn [length seq map filter].
    assert (HloD : lo <= D) by (apply Hle; left; reflexivity).
    assert (F1 : Forall2 (fun c ps => wfs ps /\ win c lo None (hd_error ps)) cs pss).
    { eapply Forall2_imp; [|exact HF]. intros c ps (Wc & Wps & (Hw & _) & _). split; assumption. }
    destruct (row0_sem cs pss lo None Hlo F1) as (A1 & A2 & A3). rewrite <- HD in A2.
    assert (Hrect : Forall (fun v => dur v = D - lo \/ dur v = 0) (row pss 0)).
    { apply row0_forall. eapply Forall2_right; [exact HF|]. intros c ps (Wc & Wps & (Hw & _) & Hal) p Ep.
      destruct Hw as [_ Hd]. rewrite Ep in Hd. cbn [dur_opt hd_error] in Hd. unfold win_len in Hd.
      destruct Hal as [H|[H|[]]]; lia. }
    set (R0 := row pss 0) in *. destruct (nonempty R0) eqn:En; cbn [map].
    + assert (W0 : wf (Sim meta0 R0)) by (rewrite wf_sim; assumption).
      split; [exact (conj A3 I)|]. split; [rewrite dsum_cons, dur_sim; simpl; lia|].
      split; [|split].
      * intros y. rewrite at_seq_single, !at_sim_eq, A1 by assumption. unfold in_win.
        destruct (0 <=? y); reflexivity.
      * constructor; [|constructor]. exists R0. split; [reflexivity|]. split; [destruct R0; [discriminate|congruence]|].
        rewrite A2. replace (Z.max 0 (D - lo)) with (D - lo) by lia. exact Hrect.
      * intros Hlt. specialize (Hlt lo (or_introl eq_refl)). constructor; [|constructor]. rewrite dur_sim. lia.
    + apply nonempty_nil in En. rewrite En in A2. simpl in A2.
      split; [exact I|]. split; [simpl; lia|]. split; [|split; [constructor|]].
      * intros y. rewrite at_seq_nil. destruct (0 <=? y) eqn:E; [|reflexivity]. symmetry.
        apply at_outside; [rewrite wf_sim; assumption|right; rewrite dur_sim; lia].
      * intros Hlt. specialize (Hlt lo (or_introl eq_refl)). lia.
  - change (length (hi :: r)) with (S (length r)). rewrite rowsN_S. cbn [filter].
    destruct Hs as [Hs1 Hs2]. assert (Hlh : lo < hi) by (apply Hs1; left; reflexivity).
    assert (HhD : hi <= D) by (apply Hle; right; left; reflexivity).
    assert (F1 : Forall2 (fun c ps => wfs ps /\ win c lo (Some hi) (hd_error ps)) cs pss).
    { eapply Forall2_imp; [|exact HF]. intros c ps (Wc & Wps & (Hw & _) & _). split; assumption. }
    destruct (row0_sem cs pss lo (Some hi) Hlo F1) as (A1 & A2 & A3). rewrite <- HD in A2.
    replace (Z.max 0 (Z.min hi D - lo)) with (hi - lo) in A2 by lia.
    assert (Hrect : Forall (fun v => dur v = hi - lo \/ dur v = 0) (row pss 0)).
    { apply row0_forall. eapply Forall2_right; [exact HF|]. intros c ps (Wc & Wps & (Hw & _) & Hal) p Ep.
      destruct Hw as [_ Hd]. rewrite Ep in Hd. cbn [dur_opt hd_error] in Hd. unfold win_len in Hd.
      destruct Hal as [H|H]; [lia|]. assert (hi <= dur c); [|lia].
      cbn [app] in H. destruct H as [H|H]; [lia|]. apply in_app_or in H. destruct H as [H|[H|[]]]; [|lia].
      destruct Hs2 as [Hs2 _]. specialize (Hs2 _ H). lia. }
    assert (F2 : Forall2 (vrel D hi r) cs (map (@tl ev) pss)).
    { apply Forall2_map_r. eapply Forall2_imp; [|exact HF]. intros c ps (Wc & Wps & (_ & Hm) & Hal).
      split; [assumption|]. split; [apply wfs_tl; assumption|]. split; [exact Hm|].
      destruct Hal as [H|H]; [left; lia|]. cbn [app] in H. destruct H as [H|H]; [left; lia|right; assumption]. }
    destruct (IH hi (map (@tl ev) pss) ltac:(lia) Hs2 (fun t Ht => Hle t (or_intror Ht)) F2) as (B1 & B2 & B3 & B4 & B5).
    set (R0 := row pss 0) in *.
    set (R' := map (fun r0 => Sim meta0 r0) (filter nonempty (map (row (map (@tl ev) pss)) (seq 0 (S (length r)))))) in *.
    destruct (nonempty R0) eqn:En; [|apply nonempty_nil in En; rewrite En in A2; simpl in A2; lia].
    cbn [map]. fold R'.
    assert (W0 : wf (Sim meta0 R0)) by (rewrite wf_sim; assumption).
    split; [exact (conj W0 B1)|]. split; [rewrite dsum_cons, dur_sim; lia|]. split; [|split].
    + intros y. rewrite at_seq_cons, dur_sim, A2, B3, !at_sim_eq, A1. unfold in_win.
      destruct (0 <=? y) eqn:E0; cbn [andb].
      * destruct (y <? hi - lo) eqn:E1.
        -- destruct (lo + y <? hi) eqn:E2; [reflexivity|lia].
        -- destruct (0 <=? y - (hi - lo)) eqn:E2; [|lia]. replace (hi + (y - (hi - lo))) with (lo + y) by lia.
           reflexivity.
      * destruct (0 <=? y - (hi - lo)) eqn:E2; [lia|reflexivity].
    + constructor; [|exact B4]. exists R0. split; [reflexivity|]. split; [destruct R0; [discriminate|congruence]|].
      rewrite A2. exact Hrect.
    + intros Hlt. constructor; [rewrite dur_sim; lia|]. apply B5. intros t Ht. apply Hlt. right. assumption.
Qed.

(* ------------------------------------------------------------ the split times of sequentialize *)
Lemma dedup_cons2 x y r : dedup (x :: y :: r) = if x =? y then dedup (y :: r) else x :: dedup (y :: r).
Proof. reflexivity. Qed.
Lemma dedup_In l x : In x (dedup l) <-> In x l.
Proof.
  induction l as [|a l IH]; [reflexivity|]. destruct l as [|b l]; [reflexivity|]. rewrite dedup_cons2.
  destruct (a =? b) eqn:E.
  - rewrite IH. assert (a = b) by lia. subst. simpl. tauto.
  - simpl In at 1. rewrite IH. simpl. tauto.
Qed.
Lemma dedup_ssorted l : sorted l -> ssorted (dedup l).
Proof.
  induction l as [|a l IH]; intros H; [exact I|]. destruct l as [|b l]; [simpl; split; [intros ? []|exact I]|].
  destruct H as [H1 H2]. rewrite dedup_cons2. destruct (a =? b) eqn:E; [apply IH; assumption|].
  split; [|apply IH; assumption]. intros z Hz. apply (proj1 (dedup_In _ _)) in Hz.
  assert (a <= b) by (apply H1; left; reflexivity).
  destruct Hz as [<-|Hz]; [lia|]. cbn [sorted] in H2. destruct H2 as [H2 _]. specialize (H2 z Hz). lia.
Qed.
Lemma ssorted_app_last a z : ssorted (a ++ [z]) -> forall x, In x a -> x < z.
Proof.
  induction a as [|y a IH]; intros H x Hx; [destruct Hx|]. destruct H as [H1 H2].
  destruct Hx as [<-|Hx]; [apply H1, in_or_app; right; left; reflexivity|apply IH; assumption].
Qed.
Lemma ssorted_StronglySorted l : ssorted l -> StronglySorted Z.lt l.
Proof.
  induction l as [|x l IH]; intros H; [constructor|]. destruct H as [H1 H2].
  constructor; [apply IH; assumption|]. apply Forall_forall. exact H1.
Qed.
Lemma ssorted_app_l a b : ssorted (a ++ b) -> ssorted a.
Proof.
  induction a as [|y a IH]; intros H; [exact I|]. destruct H as [H1 H2].
  split; [intros z Hz; apply H1, in_or_app; left; assumption|apply IH; assumption].
Qed.

Lemma dmax_In cs c : In c cs -> dur c <= dmax cs.
Proof. induction cs as [|x cs IH]; intros H; [destruct H|]. rewrite dmax_cons. destruct H as [->|H]; [lia|]. specialize (IH H). lia. Qed.
Lemma dmax_attained cs : cs <> [] -> wfs cs -> exists c, In c cs /\ dur c = dmax cs.
Proof.
  induction cs as [|x cs IH]; intros Hne Hw; [congruence|]. destruct Hw as [Wx Wcs]. rewrite dmax_cons.
  destruct cs as [|y cs'].
  - exists x. split; [left; reflexivity|]. pose proof (dur_nonneg x Wx). simpl. lia.
  - destruct (IH ltac:(congruence) Wcs) as (c & Hc & Ec). destruct (Z_le_gt_dec (dmax (y :: cs')) (dur x)).
    + exists x. split; [left; reflexivity|lia].
    + exists c. split; [right; assumption|lia].
Qed.

Lemma seq_times_range c t : wf c -> In t (seq_times c) -> 0 <= t <= dur c.
Proof.
  intros Wc H. pose proof (dur_nonneg c Wc) as Hnn. destruct c as [d l|m cs|m cs]; cbn [seq_times] in H.
  - simpl in *. destruct H as [<-|[<-|[]]]; lia.
  - rewrite dur_seq in *. rewrite wf_seq in Wc. apply in_app_or in H. destruct H as [H|[<-|[]]]; [|lia].
    pose proof (starts_from_ge 0 cs t Wc H). pose proof (starts_from_le 0 cs t Wc H). lia.
  - destruct H as [<-|[<-|[]]]; lia.
Qed.
Lemma seq_times_dur c : In (dur c) (seq_times c).
Proof.
  destruct c as [d l|m cs|m cs]; cbn [seq_times].
  - right. left. reflexivity.
  - apply in_or_app. right. left. reflexivity.
  - right. left. reflexivity.
Qed.
Lemma seq_times_zero c : In 0 (seq_times c).
Proof.
  destruct c as [d l|m cs|m cs]; cbn [seq_times]; [left; reflexivity| |left; reflexivity].
  destruct cs as [|x cs]; left; reflexivity.
Qed.

(* the times handed to split_at: either none (all voices have length 0), or 0 followed by the ascending
   inner boundaries; the end dmax cs is dropped; every voice ends at one of the times or at dmax cs *)
Lemma seq_cuts cs : wfs cs -> cs <> [] ->
  let sl := removelast (dedup (sortZ (flat_map seq_times cs))) in
  ssorted (sl ++ [dmax cs]) /\ (forall t, In t sl -> 0 <= t < dmax cs) /\
  (forall c, In c cs -> In (dur c) (sl ++ [dmax cs])) /\
  ((sl = [] /\ dmax cs = 0) \/ exists bs, sl = 0 :: bs).
Proof.
  intros Hw Hne. cbv zeta. set (L := flat_map seq_times cs). set (S := dedup (sortZ L)). set (D := dmax cs).
  assert (HL : forall t, In t L -> 0 <= t <= D).
  { intros t Ht. apply in_flat_map in Ht. destruct Ht as (c & Hc & Ht).
    pose proof (seq_times_range c t (wfs_In cs c Hw Hc) Ht). pose proof (dmax_In cs c Hc). unfold D. lia. }
  assert (HS : forall t, In t S <-> In t L) by (intros t; unfold S; rewrite dedup_In, sortZ_In; reflexivity).
  assert (Hss : ssorted S) by (apply dedup_ssorted, sortZ_sorted).
  assert (H0 : In 0 S).
  { apply HS. destruct cs as [|c cs']; [congruence|]. apply in_flat_map. exists c. split; [left; reflexivity|apply seq_times_zero]. }
  assert (HD : In D S).
  { apply HS. destruct (dmax_attained cs Hne Hw) as (c & Hc & Ec). apply in_flat_map. exists c. split; [assumption|].
    unfold D. rewrite <- Ec. apply seq_times_dur. }
  assert (HSne : S <> []) by (intros E; rewrite E in H0; destruct H0).
  assert (Hlast : last S 0 = D).
  { pose proof (sorted_le_last S D (ssorted_sorted S Hss) HD). pose proof (last_In S HSne) as Hl.
    apply HS, HL in Hl. lia. }
  pose proof (app_removelast_last 0 HSne) as Happ. rewrite Hlast in Happ. set (sl := removelast S) in *.
  rewrite Happ in Hss. pose proof (ssorted_app_last sl D Hss) as Hlt.
  split; [exact Hss|]. split; [|split].
  - intros t Ht. split; [|apply Hlt; assumption]. apply (HL t), HS. rewrite Happ. apply in_or_app. left. assumption.
  - intros c Hc. rewrite <- Happ. apply HS, in_flat_map. exists c. split; [assumption|apply seq_times_dur].
  - destruct sl as [|h bs] eqn:Esl.
    + left. split; [reflexivity|]. rewrite Happ in H0. destruct H0 as [H0|[]]. lia.
    + right. exists bs. f_equal. rewrite Happ in H0. destruct Hss as [Hs1 _].
      assert (0 <= h) by (apply (HL h), HS; rewrite Happ; left; reflexivity).
      destruct H0 as [H0|H0]; [lia|]. specialize (Hs1 0 H0). lia.
Qed.

(* ------------------------------------------------------------ statements that need no hypothesis *)
Lemma sequentialize_unfold m cs : sequentialize (Sim m cs) =
  (pss <- slices_of (split_at_f (hmax cs)) cs (removelast (dedup (sortZ (flat_map seq_times cs)))) ;
   Ok (Seq (mkMeta (tag m) 0) (map (fun r => Sim meta0 r) (rows pss)))).
Proof. reflexivity. Qed.

Theorem sequentialize_shape m cs m' rs : sequentialize (Sim m cs) = Ok (Seq m' rs) ->
  tag m' = tag m /\ tempo m' = 0 /\ Forall (fun r => exists vs, r = Sim meta0 vs /\ vs <> []) rs.
Proof.
  rewrite sequentialize_unfold. intros H. destruct (slices_of _ _ _) as [pss|k]; [|discriminate].
  cbn [bind] in H. inversion H; subst. split; [reflexivity|]. split; [reflexivity|].
  apply Forall_forall. intros r Hr. apply in_map_iff in Hr. destruct Hr as (vs & <- & Hvs).
  exists vs. split; [reflexivity|]. unfold rows in Hvs. apply filter_In in Hvs. destruct Hvs as [_ Hvs].
  destruct vs; [discriminate|congruence].
Qed.

Theorem sequentialize_empty m : sequentialize (Sim m []) = Ok (Seq (mkMeta (tag m) 0) []).
Proof. reflexivity. Qed.

Theorem sequentialize_not_sim_leaf d l : sequentialize (Leaf d l) = Err EAttributeError.
Proof. reflexivity. Qed.
Theorem sequentialize_not_sim_seq m cs : sequentialize (Seq m cs) = Err EAttributeError.
Proof. reflexivity. Qed.

Lemma mapM_pure {A B} (f : A -> B) l : mapM (fun a => Ok (f a)) l = Ok (map f l).
Proof. induction l as [|a l IH]; [reflexivity|]. simpl. rewrite IH. reflexivity. Qed.

Lemma win_whole c : wf c -> win c 0 None (Some c).
Proof.
  intros Wc. pose proof (dur_nonneg c Wc). split.
  - intros y. unfold in_win. cbn [at_opt]. rewrite andb_true_r. destruct (0 <=? y) eqn:E; [reflexivity|].
    apply at_outside; [assumption|lia].
  - cbn [dur_opt]. unfold win_len. lia.
Qed.

(* ------------------------------------------------------------ the theorems, from the multi-cut behaviour *)
Section Sequentialize.
  Hypothesis split_multi : forall n e sl, (height e <= n)%nat -> wf e -> sl <> [] ->
    StronglySorted Z.lt sl -> (forall t, In t sl -> 0 <= t) ->
    exists ps, split_at_f n e sl true = Ok ps /\ multi_spec e sl ps.

  (* sequentialize never fails on a simultaneity; the rows tile it *)
  Theorem sequentialize_ok m cs : wfs cs ->
    exists rs, sequentialize (Sim m cs) = Ok (Seq (mkMeta (tag m) 0) rs) /\
      wfs rs /\ dsum rs = dmax cs /\ (forall x, at_seq rs x = at_ (Sim m cs) x) /\
      Forall rect_row rs /\ (0 < dmax cs -> Forall (fun r => 0 < dur r) rs).
  Proof.
    intros Hw. destruct cs as [|c0 cs0].
    { exists []. split; [reflexivity|]. split; [exact I|]. split; [reflexivity|]. split; [reflexivity|].
      split; [constructor|intros _; constructor]. }
    set (cs := c0 :: cs0) in *. assert (Hne : cs <> []) by (unfold cs; congruence).
    destruct (seq_cuts cs Hw Hne) as (Hss & Hrange & Hdur & Hform). rewrite sequentialize_unfold.
    set (sl := removelast (dedup (sortZ (flat_map seq_times cs)))) in *. set (D := dmax cs) in *.
    (* the common form: cuts 0 :: bs with 0 :: bs = sl, or sl = [] and bs = [] *)
    assert (G : exists bs pss, slices_of (split_at_f (hmax cs)) cs sl = Ok pss /\ Forall2 (vrel D 0 bs) cs pss /\
                  ssorted (0 :: bs) /\ (forall t, In t (0 :: bs) -> t <= D) /\ (0 < D -> forall t, In t (0 :: bs) -> t < D)).
    { destruct Hform as [[Esl ED]|[bs Esl]].
      - exists [], (map (fun c => [c]) cs). rewrite Esl. split; [apply mapM_pure|]. split; [|split; [|split]].
        + apply Forall_Forall2_map. apply Forall_forall. intros c Hc. pose proof (wfs_In cs c Hw Hc) as Wc.
          split; [assumption|]. split; [exact (conj Wc I)|]. split; [split; [apply win_whole; assumption|reflexivity]|].
          right. specialize (Hdur c Hc). rewrite Esl in Hdur. exact Hdur.
        + split; [intros ? []|exact I].
        + intros t [<-|[]]. lia.
        + lia.
      - rewrite Esl in *.
        assert (Hs0 : ssorted (0 :: bs)) by (apply (ssorted_app_l _ [D]); exact Hss).
        destruct (mapM_spec (fun c => split_at_f (hmax cs) c (0 :: bs) true) (vrel D 0 bs) cs) as (pss & E & HF).
        { intros c Hc. pose proof (wfs_In cs c Hw Hc) as Wc.
          destruct (split_multi (hmax cs) c (0 :: bs) (hmax_In cs c Hc) Wc ltac:(congruence)
                      (ssorted_StronglySorted _ Hs0) (fun t Ht => proj1 (Hrange t Ht))) as (ps & Eps & Wps & Hm).
          exists ps. split; [exact Eps|]. split; [assumption|]. split; [assumption|]. split; [exact Hm|].
          specialize (Hdur c Hc). cbn [app] in Hdur. destruct Hdur as [H|H]; [left; lia|right; assumption]. }
        exists bs, pss. split; [exact E|]. split; [exact HF|]. split; [exact Hs0|]. split.
        + intros t Ht. specialize (Hrange t Ht). lia.
        + intros _ t Ht. specialize (Hrange t Ht). lia. }
    destruct G as (bs & pss & E & HF & Hs0 & Hle & Hlt). rewrite E. cbn [bind].
    eexists; split; [reflexivity|].
    rewrite (rows_eq pss (S (length bs))).
    2:{ exact (vrel_max_len D 0 bs cs pss HF). }
    destruct (rows_tile m cs D Hw eq_refl bs 0 pss ltac:(lia) Hs0 Hle HF) as (T1 & T2 & T3 & T4 & T5).
    split; [exact T1|]. split; [lia|]. split; [|split; [exact T4|]].
    - intros x. rewrite T3. destruct (0 <=? x) eqn:Ex; [reflexivity|]. symmetry.
      apply at_outside; [rewrite wf_sim; assumption|lia].
    - intros HD. apply T5. apply Hlt. assumption.
  Qed.

  Theorem sequentialize_at m cs e' : wfs cs -> sequentialize (Sim m cs) = Ok e' ->
    wf e' /\ dur e' = dmax cs /\ forall x, at_ e' x = at_ (Sim m cs) x.
  Proof.
    intros Hw H. destruct (sequentialize_ok m cs Hw) as (rs & E & R1 & R2 & R3 & _).
    rewrite E in H. inversion H; subst e'. rewrite wf_seq, dur_seq. split; [assumption|]. split; [assumption|].
    intros x. rewrite at_seq_eq. apply R3.
  Qed.

  Theorem sequentialize_dur m cs m' rs : wfs cs -> sequentialize (Sim m cs) = Ok (Seq m' rs) -> dsum rs = dmax cs.
  Proof. intros Hw H. destruct (sequentialize_at m cs _ Hw H) as (_ & Hd & _). exact Hd. Qed.

  (* every voice of every row has the duration of the row, or the duration 0
     (zero-length entries come from voices that end with zero-length children: ex_offlength);
     if the simultaneity has a positive duration, so has every row *)
  Theorem sequentialize_rectangular m cs m' rs : wfs cs -> sequentialize (Sim m cs) = Ok (Seq m' rs) ->
    Forall (fun r => exists vs, r = Sim meta0 vs /\ vs <> [] /\ Forall (fun v => dur v = dur r \/ dur v = 0) vs) rs /\
    (0 < dmax cs -> Forall (fun r => 0 < dur r) rs).
  Proof.
    intros Hw H. destruct (sequentialize_ok m cs Hw) as (rs' & E & _ & _ & _ & R4 & R5).
    rewrite E in H. inversion H; subst. split; [|exact R5].
    eapply Forall_impl; [|exact R4]. intros r (vs & -> & Hne & Hv). exists vs. rewrite dur_sim. auto.
  Qed.
End Sequentialize.

(* ------------------------------------------------------------ examples *)
(* the example of the docstring *)
Example ex_doc : sequentialize (Sim meta0 [Seq meta0 [Leaf 2 1; Leaf 1 2]; Seq meta0 [Leaf 3 3]]) =
  Ok (Seq meta0 [Sim meta0 [Seq meta0 [Leaf 2 1]; Seq meta0 [Leaf 2 3]];
                 Sim meta0 [Seq meta0 [Leaf 1 2]; Seq meta0 [Leaf 1 3]]]).
Proof. vm_compute. reflexivity. Qed.
(* voices of unequal length, a nested simultaneity *)
Definition ex_voices : list ev := [Leaf 2 1; Leaf 5 3; Sim meta0 [Leaf 3 1; Seq meta0 [Leaf 1 4; Leaf 3 5]]].
Example ex_voices_wfs : wfs ex_voices.
Proof. apply (wfb_wf (Sim meta0 ex_voices)). vm_compute. reflexivity. Qed.
Example ex_unequal : sequentialize (Sim (mkMeta 7 3) ex_voices) =
  Ok (Seq (mkMeta 7 0)
        [Sim meta0 [Leaf 2 1; Leaf 2 3; Sim meta0 [Leaf 2 1; Seq meta0 [Leaf 1 4; Leaf 1 5]]];
         Sim meta0 [Leaf 2 3; Sim meta0 [Leaf 1 1; Seq meta0 [Leaf 2 5]]];
         Sim meta0 [Leaf 1 3]]).
Proof. vm_compute. reflexivity. Qed.
(* a voice ending with a zero-length child leaves an entry of duration 0 in the next row *)
Example ex_offlength : sequentialize (Sim meta0 [Seq meta0 [Leaf 2 1; Leaf 0 2]; Leaf 5 3]) =
  Ok (Seq meta0 [Sim meta0 [Seq meta0 [Leaf 2 1]; Leaf 2 3]; Sim meta0 [Seq meta0 [Leaf 0 2]; Leaf 3 3]]).
Proof. vm_compute. reflexivity. Qed.
(* only zero-length voices: one row, or none *)
Example ex_zero : sequentialize (Sim meta0 [Leaf 0 1; Seq meta0 []]) = Ok (Seq meta0 [Sim meta0 [Leaf 0 1]]) /\
  sequentialize (Sim meta0 [Seq meta0 []]) = Ok (Seq meta0 []) /\
  sequentialize (Sim meta0 [Leaf 0 1; Leaf 3 2]) = Ok (Seq meta0 [Sim meta0 [Leaf 3 2]]).
Proof. vm_compute. repeat split. Qed.
(* the times handed to split_at *)
Example ex_times : removelast (dedup (sortZ (flat_map seq_times ex_voices))) = [0; 2; 4].
Proof. vm_compute. reflexivity. Qed.

(* the conclusions of sequentialize_at / sequentialize_rectangular checked by computation on the example
   (independent of the section hypothesis) *)
Fixpoint slice_eqb (a b : slice) : bool :=
  match a, b with
  | SL x, SL y => x =? y
  | SN u, SN v => (fix go u v := match u, v with
                                 | [], [] => true
                                 | x :: u', y :: v' => slice_eqb x y && go u' v'
                                 | _, _ => false
                                 end) u v
  | _, _ => false
  end.
Definition oslice_eqb (a b : option slice) : bool :=
  match a, b with None, None => true | Some x, Some y => slice_eqb x y | _, _ => false end.
Example ex_unequal_same :
  match sequentialize (Sim (mkMeta 7 3) ex_voices) with
  | Ok e' => (dur e' =? dmax ex_voices) &&
             forallb (fun x => oslice_eqb (at_ e' x) (at_ (Sim (mkMeta 7 3) ex_voices) x))
                     (map (fun i => Z.of_nat i - 2) (seq 0 10)) &&
             forallb (fun r => forallb (fun v => (dur v =? dur r) || (dur v =? 0)) (children r)) (children e')
  | Err _ => false
  end = true.
Proof. vm_compute. reflexivity. Qed.

(* How to discharge the section hypothesis once Proofs/SplitMulti.v provides
     split_multi_all : forall n, multi_ok n (split_at_f n)
   (checked against the current SplitMulti.vo):
     Lemma mspec_beyond e : wf e -> forall bs lo, dur e <= lo -> sorted (lo :: bs) -> mspec e (lo :: bs) [].
       (induction bs; both components of `win` by at_outside / lia)
     Lemma aligned_mspec e : wf e -> forall ps lo bs, sorted (lo :: bs) -> aligned e lo bs ps ->
       wfs ps /\ mspec e (lo :: bs) ps.
       (induction ps; `is_win` gives wf, `dur p = win_dur` (= win_len) and `at_ p x = win_at` (= the in_win form)
        by conversion; the empty case is mspec_beyond)
     then, for sl strictly ascending and non-negative: times_decompose gives sl = times z bs, multi_ok gives
     aligned e 0 bs ps, and `cuts (times z bs) = 0 :: bs` is times_sl1. *)

Print Assumptions sequentialize_shape.
Print Assumptions sequentialize_ok.
Print Assumptions sequentialize_at.
Print Assumptions sequentialize_dur.
Print Assumptions sequentialize_rectangular.
