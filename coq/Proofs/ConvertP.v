(* Tempo conversion (TempoConverter) and metrize (EventToMetrizedEvent) over the reals:
   B1 the seconds-per-beat envelope, B2 every leaf gets the integral of its curve over the beats the
   leaf occupied, B3 independence of the subdivision, B4 constant tempo, B5 metrize. *)
From Coquelicot Require Import Coquelicot.
From Coq Require Import ZArith List Bool Reals Lra Lia.
From MV Require Import Base.Res Model.EventTree Model.TreeOps Model.Num Model.Envelope Model.Convert
  Proofs.TreeLemmas Proofs.RNum Proofs.Interp Proofs.IntegralSeg Proofs.Integral Proofs.ConvertCache.
Import ListNotations.
Local Open Scope R_scope.

Notation senvR := (seconds_env R RNum).
Notation convR := (convert R RNum).

(* ================================================================ generic list facts *)
Definition rsum (l : list R) : R := fold_right Rplus 0 l.

Lemma rsum_app a b : rsum (a ++ b) = rsum a + rsum b.
Proof. unfold rsum. induction a as [|x a IH]; cbn [app fold_right]; [ring|rewrite IH; ring]. Qed.

Lemma Forall2_eq_map {A B} (f : A -> B) : forall l vs, Forall2 (fun x v => v = f x) l vs -> vs = map f l.
Proof. induction 1 as [|x v l vs E _ IH]; [reflexivity|]. cbn [map]. rewrite E, IH. reflexivity. Qed.

Lemma Forall2_len {A B} (P : A -> B -> Prop) : forall l l', Forall2 P l l' -> length l = length l'.
Proof. induction 1; [reflexivity|]. cbn [length]. congruence. Qed.

Lemma Forall2_imp {A B} (P Q : A -> B -> Prop) : (forall a b, P a b -> Q a b) ->
  forall l l', Forall2 P l l' -> Forall2 Q l l'.
Proof. intros H. induction 1; constructor; auto. Qed.

(* ================================================================ B1. the seconds-per-beat envelope *)

Theorem seconds_env_points (tempo : envR) :
  to_points R (senvR tempo) = map (fun '(t, v, c) => (t, 60 / v, c)) (to_points R tempo).
Proof.
  unfold seconds_env. apply points_roundtrip.
  destruct tempo as [|p r]; [exact I|]. reflexivity.
Qed.

(* the same point with value 60 / bpm; the constructor gives the last event duration 0 *)
Definition gpt (p : ptR) : ptR := mkPt (pd p) (60 / pv p) (pc p).
Definition glast (p : ptR) (r : envR) : ptR :=
  mkPt (match r with [] => 0%Z | _ => pd p end) (60 / pv p) (pc p).
Fixpoint sec_go (e : envR) : envR :=
  match e with [] => [] | p :: r => glast p r :: sec_go r end.

Lemma of_points_cons2 (t0 : Z) (v c : R) (t1 : Z) (v1 c1 : R) (r : list (point R)) :
  of_points R ((t0, v, c) :: (t1, v1, c1) :: r) = mkPt (t1 - t0)%Z v c :: of_points R ((t1, v1, c1) :: r).
Proof. reflexivity. Qed.

Lemma seconds_env_from : forall (e : envR) t0,
  of_points R (map (fun '(t, v, c) => (t, 60 / v, c)) (zip_points R (pstarts_from R t0 e) e)) = sec_go e.
Proof.
  induction e as [|p r IH]; intros t0; [reflexivity|].
  destruct r as [|q r'].
  - reflexivity.
  - specialize (IH (t0 + pd p)%Z).
    change (zip_points R (pstarts_from R t0 (p :: q :: r')) (p :: q :: r'))
      with ((t0, pv p, pc p) :: (t0 + pd p, pv q, pc q)%Z
              :: zip_points R (pstarts_from R (t0 + pd p + pd q) r') r').
    change (zip_points R (pstarts_from R (t0 + pd p) (q :: r')) (q :: r'))
      with ((t0 + pd p, pv q, pc q)%Z :: zip_points R (pstarts_from R (t0 + pd p + pd q) r') r') in IH.
    cbn [map] in *. rewrite of_points_cons2, IH.
    cbn [sec_go]. f_equal. unfold glast. f_equal. lia.
Qed.

(* what is true about the shape of the envelope: the last duration becomes 0 *)
Theorem seconds_env_struct (tempo : envR) : senvR tempo = sec_go tempo.
Proof. unfold seconds_env, to_points, pstarts. apply seconds_env_from. Qed.

Lemma sec_go_app front p back : sec_go (front ++ p :: back) = map gpt front ++ sec_go (p :: back).
Proof.
  induction front as [|f fr IH]; [reflexivity|].
  cbn [app map sec_go] in *. rewrite IH. f_equal.
  unfold glast, gpt. destruct (fr ++ p :: back) eqn:E; [destruct fr; discriminate E|reflexivity].
Qed.

(* seconds_env_map_refuted: the literal `map` statement fails because of the last duration *)
Theorem seconds_env_not_map : exists tempo : envR, pwf tempo /\ senvR tempo <> map gpt tempo.
Proof.
  exists [mkPt 5%Z 60 0]. split; [repeat constructor; cbn [pd]; lia|].
  intros H. apply (f_equal (fun l : envR => match l with p :: _ => pd p | [] => 0%Z end)) in H.
  cbv in H. discriminate H.
Qed.

(* ... but everything except the last duration is the map *)
Theorem seconds_env_removelast (tempo : envR) :
  removelast (senvR tempo) = map gpt (removelast tempo) /\
  map (@pv R) (senvR tempo) = map (fun p => 60 / pv p) tempo /\
  map (@pc R) (senvR tempo) = map (@pc R) tempo /\
  pstarts R (senvR tempo) = pstarts R tempo.
Proof.
  rewrite seconds_env_struct. unfold pstarts. generalize 0%Z as t0.
  induction tempo as [|p r IH]; intros t0; [repeat split; reflexivity|].
  destruct (IH (t0 + pd p)%Z) as (I1 & I2 & I3 & I4). repeat split.
  - destruct r as [|q r']; [reflexivity|].
    change (removelast (sec_go (p :: q :: r'))) with (glast p (q :: r') :: removelast (sec_go (q :: r'))).
    change (removelast (p :: q :: r')) with (p :: removelast (q :: r')). cbn [map]. rewrite I1. reflexivity.
  - cbn [sec_go map]. rewrite I2. reflexivity.
  - cbn [sec_go map]. rewrite I3. reflexivity.
  - cbn [sec_go pstarts_from]. f_equal. destruct r as [|q r']; [reflexivity|]. exact I4.
Qed.

Corollary seconds_env_pstarts (tempo : envR) : pstarts R (senvR tempo) = pstarts R tempo.
Proof. apply seconds_env_removelast. Qed.

Theorem seconds_env_pwf (tempo : envR) : pwf tempo -> pwf (senvR tempo).
Proof.
  rewrite seconds_env_struct. unfold pwf. induction 1 as [|p r Hp _ IH]; [constructor|].
  cbn [sec_go]. constructor; [|exact IH]. unfold glast. cbn [pd]. destruct r; [lia|exact Hp].
Qed.

Theorem seconds_env_nonempty (tempo : envR) : tempo <> [] -> senvR tempo <> [].
Proof. rewrite seconds_env_struct. destruct tempo; [congruence|discriminate]. Qed.

Lemma seconds_env_length (tempo : envR) : length (senvR tempo) = length tempo.
Proof. rewrite seconds_env_struct. induction tempo as [|p r IH]; [reflexivity|]. cbn [sec_go length]. rewrite IH. reflexivity. Qed.

(* the curve does not read the last duration: it is the curve of the mapped envelope *)
Lemma curve_go_sec : forall rest p t0 x,
  curve_go t0 (glast p rest) (sec_go rest) x = curve_go t0 (gpt p) (map gpt rest) x.
Proof.
  induction rest as [|q rest IH]; intros p t0 x; [reflexivity|].
  cbn [sec_go map]. rewrite !curve_go_cons.
  change (pd (glast p (q :: rest))) with (pd p). change (pd (gpt p)) with (pd p).
  rewrite IH. reflexivity.
Qed.

Theorem seconds_env_curve (tempo : envR) x : curve (senvR tempo) x = curve (map gpt tempo) x.
Proof.
  rewrite seconds_env_struct. destruct tempo as [|p rest]; [reflexivity|].
  cbn [sec_go map curve]. rewrite curve_go_sec. reflexivity.
Qed.

Lemma startR_map_gpt front : startR (map gpt front) = startR front.
Proof. induction front as [|f fr IH]; [reflexivity|]. cbn [map]. rewrite !startR_cons, IH. reflexivity. Qed.

(* the curve takes the value 60 / bpm at every tempo point (at a doubled point: the later value) *)
Theorem seconds_env_at_point front (p : ptR) back : pwf (front ++ p :: back) ->
  (front = [] \/ 0 < startR front) -> (back = [] \/ (0 < pd p)%Z) ->
  curve (senvR (front ++ p :: back)) (startR front) = 60 / pv p.
Proof.
  intros W Hf Hb. destruct Hf as [->|Hf].
  - rewrite startR_nil, seconds_env_struct. cbn [app sec_go]. apply curve_at_first.
  - pose proof (seconds_env_pwf _ W) as W'. rewrite seconds_env_struct in *.
    rewrite sec_go_app in *. cbn [sec_go] in *. rewrite <- startR_map_gpt.
    rewrite curve_at_point; [reflexivity|exact W'|rewrite startR_map_gpt; exact Hf|].
    destruct back as [|q back']; [left; reflexivity|right].
    destruct Hb as [Hb|Hb]; [discriminate Hb|exact Hb].
Qed.

(* ================================================================ B2. every leaf gets its integral *)

(* absolute start and end (in ticks, before the conversion) of every leaf, DFS order *)
Fixpoint spans (t0 : Z) (e : ev) : list (Z * Z) :=
  match e with
  | Leaf d _ => [(t0, (t0 + d)%Z)]
  | Seq _ cs => (fix go (t : Z) (l : list ev) : list (Z * Z) :=
                   match l with [] => [] | c :: r => spans t c ++ go (t + dur c)%Z r end) t0 cs
  | Sim _ cs => (fix go (l : list ev) : list (Z * Z) :=
                   match l with [] => [] | c :: r => spans t0 c ++ go r end) cs
  end.
Definition spans_seq := fix go (t : Z) (l : list ev) : list (Z * Z) :=
  match l with [] => [] | c :: r => spans t c ++ go (t + dur c)%Z r end.
Definition spans_sim (t0 : Z) := fix go (l : list ev) : list (Z * Z) :=
  match l with [] => [] | c :: r => spans t0 c ++ go r end.

Lemma spans_leaf t0 d l : spans t0 (Leaf d l) = [(t0, (t0 + d)%Z)]. Proof. reflexivity. Qed.
Lemma spans_seq_eq t0 m cs : spans t0 (Seq m cs) = spans_seq t0 cs. Proof. reflexivity. Qed.
Lemma spans_sim_eq t0 m cs : spans t0 (Sim m cs) = spans_sim t0 cs. Proof. reflexivity. Qed.
Lemma spans_seq_cons t c r : spans_seq t (c :: r) = spans t c ++ spans_seq (t + dur c)%Z r.
Proof. reflexivity. Qed.
Lemma spans_sim_cons t0 c r : spans_sim t0 (c :: r) = spans t0 c ++ spans_sim t0 r.
Proof. reflexivity. Qed.

(* the leaf durations before the conversion, DFS order *)
Fixpoint leaf_durs (e : ev) : list Z :=
  match e with
  | Leaf d _ => [d]
  | Seq _ cs | Sim _ cs => (fix go (l : list ev) : list Z := match l with [] => [] | c :: r => leaf_durs c ++ go r end) cs
  end.
Definition leaf_durs_l := fix go (l : list ev) : list Z := match l with [] => [] | c :: r => leaf_durs c ++ go r end.

Lemma spans_durs e : forall t0, map (fun '(a, b) => (b - a)%Z) (spans t0 e) = leaf_durs e.
Proof.
  induction e as [d l|m cs IH|m cs IH] using ev_ind'; intros t0.
  - cbn [spans leaf_durs map]. f_equal. lia.
  - rewrite spans_seq_eq. change (leaf_durs (Seq m cs)) with (leaf_durs_l cs). revert t0.
    induction IH as [|c r Hc _ IHr]; intros t0; [reflexivity|].
    rewrite spans_seq_cons, map_app, Hc, IHr. reflexivity.
  - rewrite spans_sim_eq. change (leaf_durs (Sim m cs)) with (leaf_durs_l cs).
    induction IH as [|c r Hc _ IHr]; [reflexivity|].
    rewrite spans_sim_cons, map_app, Hc, IHr. reflexivity.
Qed.

Section ConvEnv.
  Variable senv : envR.
  Hypothesis Ne : senv <> [].
  Hypothesis Wp : pwf senv.

  Definition leaf_int (ab : Z * Z) (v : R) : Prop :=
    let '(a, b) := ab in is_RInt (curve senv) (tofR a) (tofR b) v.

  Lemma convert_env_integrals e : wf e -> forall t0 vs, convR senv t0 e = Ok vs ->
    Forall2 leaf_int (spans t0 e) vs.
  Proof.
    induction e as [d l|m cs IH|m cs IH] using ev_ind'; intros W t0 vs E.
    - rewrite convert_leaf in E.
      destruct (integrate R RNum senv t0 (t0 + d)) as [v|k] eqn:I; cbn [bind] in E; [|discriminate].
      inversion E; subst. rewrite spans_leaf. constructor; [|constructor].
      cbn [wf] in W. unfold leaf_int. apply integrate_is_RInt; [exact Ne|exact Wp|lia|exact I].
    - rewrite convert_seq in E. rewrite spans_seq_eq. rewrite wf_seq in W. revert t0 vs W E.
      induction IH as [|c r Hc _ IHr]; intros t0 vs W E.
      + rewrite conv_seq_nil in E. inversion E; subst. constructor.
      + destruct W as [Wc Wr]. rewrite conv_seq_cons in E.
        destruct (convR senv t0 c) as [a|k] eqn:Ec; cbn [bind] in E; [|discriminate].
        destruct (conv_seq R RNum senv (t0 + dur c) r) as [b|k] eqn:Er; cbn [bind] in E; [|discriminate].
        inversion E; subst. rewrite spans_seq_cons. apply Forall2_app.
        * exact (Hc Wc t0 a Ec).
        * exact (IHr (t0 + dur c)%Z b Wr Er).
    - rewrite convert_sim in E. rewrite spans_sim_eq. rewrite wf_sim in W. revert vs W E.
      induction IH as [|c r Hc _ IHr]; intros vs W E.
      + rewrite conv_sim_nil in E. inversion E; subst. constructor.
      + destruct W as [Wc Wr]. rewrite conv_sim_cons in E.
        destruct (convR senv t0 c) as [a|k] eqn:Ec; cbn [bind] in E; [|discriminate].
        destruct (conv_sim R RNum senv t0 r) as [b|k] eqn:Er; cbn [bind] in E; [|discriminate].
        inversion E; subst. rewrite spans_sim_cons. apply Forall2_app.
        * exact (Hc Wc t0 a Ec).
        * exact (IHr b Wr eq_refl).
  Qed.

  Lemma convert_env_total e : wf e -> forall t0, exists vs, convR senv t0 e = Ok vs.
  Proof.
    induction e as [d l|m cs IH|m cs IH] using ev_ind'; intros W t0.
    - cbn [wf] in W. destruct (integrate_total senv t0 (t0 + d) Ne ltac:(lia)) as [v I].
      exists [v]. rewrite convert_leaf, I. reflexivity.
    - rewrite wf_seq in W. revert t0 W.
      induction IH as [|c r Hc _ IHr]; intros t0 W; [exists []; reflexivity|].
      destruct W as [Wc Wr]. destruct (Hc Wc t0) as [a Ea].
      destruct (IHr (t0 + dur c)%Z Wr) as [b Eb]. rewrite convert_seq in Eb.
      exists (a ++ b). rewrite convert_seq, conv_seq_cons, Ea. cbn [bind]. rewrite Eb. reflexivity.
    - rewrite wf_sim in W. revert W.
      induction IH as [|c r Hc _ IHr]; intros W; [exists []; reflexivity|].
      destruct W as [Wc Wr]. destruct (Hc Wc t0) as [a Ea].
      destruct (IHr Wr) as [b Eb]. rewrite convert_sim in Eb.
      exists (a ++ b). rewrite convert_sim, conv_sim_cons, Ea. cbn [bind]. rewrite Eb. reflexivity.
  Qed.

End ConvEnv.

Theorem convert_leaf_integrals (tempo : envR) e t0 vs : tempo <> [] -> pwf tempo -> wf e ->
  convR (senvR tempo) t0 e = Ok vs ->
  Forall2 (fun '(a, b) v => is_RInt (curve (senvR tempo)) (tofR a) (tofR b) v) (spans t0 e) vs.
Proof.
  intros Ne W We E.
  pose proof (convert_env_integrals (senvR tempo) (seconds_env_nonempty _ Ne) (seconds_env_pwf _ W) e We t0 vs E) as A.
  revert A. apply Forall2_imp. intros [a b] v H. exact H.
Qed.

Theorem convert_total (tempo : envR) e t0 : tempo <> [] -> wf e ->
  exists vs, convR (senvR tempo) t0 e = Ok vs.
Proof. intros Ne We. exact (convert_env_total (senvR tempo) (seconds_env_nonempty _ Ne) e We t0). Qed.

(* identical structure: as many new durations as leaves, in the same order *)
Corollary convert_length (tempo : envR) e t0 vs : tempo <> [] -> pwf tempo -> wf e ->
  convR (senvR tempo) t0 e = Ok vs -> length vs = length (leaf_durs e).
Proof.
  intros Ne W We E. pose proof (convert_leaf_integrals tempo e t0 vs Ne W We E) as A.
  apply Forall2_len in A. transitivity (length (spans t0 e)); [symmetry; exact A|].
  rewrite <- (spans_durs e t0), map_length. reflexivity.
Qed.

(* ================================================================ B3. subdivision independence *)

Fixpoint no_sim (e : ev) : Prop :=
  match e with
  | Leaf _ _ => True
  | Seq _ cs => (fix go (l : list ev) : Prop := match l with [] => True | c :: r => no_sim c /\ go r end) cs
  | Sim _ _ => False
  end.
Definition no_sims := fix go (l : list ev) : Prop := match l with [] => True | c :: r => no_sim c /\ go r end.
Lemma no_sim_seq m cs : no_sim (Seq m cs) = no_sims cs. Proof. reflexivity. Qed.

Section Chasles.
  Variable senv : envR.
  Hypothesis Ne : senv <> [].
  Hypothesis Wp : pwf senv.

  Lemma convert_env_chasles e : wf e -> no_sim e -> forall t0 vs, convR senv t0 e = Ok vs ->
    is_RInt (curve senv) (tofR t0) (tofR (t0 + dur e)) (rsum vs).
  Proof.
    induction e as [d l|m cs IH|m cs IH] using ev_ind'; intros W S t0 vs E.
    - rewrite convert_leaf in E.
      destruct (integrate R RNum senv t0 (t0 + d)) as [v|k] eqn:I; cbn [bind] in E; [|discriminate].
      inversion E; subst. cbn [wf] in W. cbn [dur]. unfold rsum. cbn [fold_right]. rewrite Rplus_0_r.
      apply integrate_is_RInt; [exact Ne|exact Wp|lia|exact I].
    - rewrite convert_seq in E. rewrite dur_seq. rewrite wf_seq in W. rewrite no_sim_seq in S.
      revert t0 vs W S E.
      induction IH as [|c r Hc _ IHr]; intros t0 vs W S E.
      + rewrite conv_seq_nil in E. inversion E; subst. cbn [dsum]. rewrite Z.add_0_r.
        apply (@is_RInt_point R_NormedModule).
      + destruct W as [Wc Wr]. destruct S as [Sc Sr]. rewrite conv_seq_cons in E.
        destruct (convR senv t0 c) as [a|k] eqn:Ec; cbn [bind] in E; [|discriminate].
        destruct (conv_seq R RNum senv (t0 + dur c) r) as [b|k] eqn:Er; cbn [bind] in E; [|discriminate].
        inversion E; subst. rewrite rsum_app, dsum_cons.
        replace (t0 + (dur c + dsum r))%Z with (t0 + dur c + dsum r)%Z by lia.
        apply (is_RInt_Chasles (curve senv) (tofR t0) (tofR (t0 + dur c))).
        * exact (Hc Wc Sc t0 a Ec).
        * exact (IHr (t0 + dur c)%Z b Wr Sr Er).
    - destruct S.
  Qed.
End Chasles.

(* a simultaneity-free tree: the new leaf durations add up to the integral over the whole span *)
Theorem convert_subdivision_independent (tempo : envR) e t0 vs : tempo <> [] -> pwf tempo -> wf e ->
  no_sim e -> convR (senvR tempo) t0 e = Ok vs ->
  is_RInt (curve (senvR tempo)) (tofR t0) (tofR (t0 + dur e)) (fold_right Rplus 0 vs).
Proof.
  intros Ne W We S E.
  exact (convert_env_chasles (senvR tempo) (seconds_env_nonempty _ Ne) (seconds_env_pwf _ W) e We S t0 vs E).
Qed.

(* hence: however a span is subdivided, the total converted duration is the same *)
Corollary convert_subdivision_total (tempo : envR) e1 e2 t0 vs1 vs2 : tempo <> [] -> pwf tempo ->
  wf e1 -> wf e2 -> no_sim e1 -> no_sim e2 -> dur e1 = dur e2 ->
  convR (senvR tempo) t0 e1 = Ok vs1 -> convR (senvR tempo) t0 e2 = Ok vs2 ->
  fold_right Rplus 0 vs1 = fold_right Rplus 0 vs2.
Proof.
  intros Ne W W1 W2 S1 S2 D E1 E2.
  pose proof (convert_subdivision_independent tempo e1 t0 vs1 Ne W W1 S1 E1) as H1.
  pose proof (convert_subdivision_independent tempo e2 t0 vs2 Ne W W2 S2 E2) as H2.
  rewrite D in H1.
  pose proof (@is_RInt_unique R_CompleteNormedModule _ _ _ _ H1) as U1.
  pose proof (@is_RInt_unique R_CompleteNormedModule _ _ _ _ H2) as U2.
  rewrite U1 in U2. exact U2.
Qed.

(* in particular the total equals the single integral computed for one leaf of the same length *)
Corollary convert_subdivision_leaf (tempo : envR) e t0 vs I : tempo <> [] -> pwf tempo -> wf e ->
  no_sim e -> convR (senvR tempo) t0 e = Ok vs ->
  integrate R RNum (senvR tempo) t0 (t0 + dur e) = Ok I -> fold_right Rplus 0 vs = I.
Proof.
  intros Ne W We S E HI.
  assert (W2 : wf (Leaf (dur e) 0)) by (cbn [wf]; apply dur_nonneg; exact We).
  assert (E2 : convR (senvR tempo) t0 (Leaf (dur e) 0) = Ok [I]) by (rewrite convert_leaf, HI; reflexivity).
  rewrite (convert_subdivision_total tempo e (Leaf (dur e) 0) t0 vs [I] Ne W We W2 S Logic.I eq_refl E E2).
  cbn [fold_right]. ring.
Qed.

(* ================================================================ B4. constant tempo *)

Lemma seconds_env_single d0 b c0 : senvR [mkPt d0 b c0] = [mkPt 0%Z (60 / b) c0].
Proof. reflexivity. Qed.

Lemma curve_single d v c x : curve [mkPt d v c] x = v.
Proof. unfold curve. destruct (Rle_dec x 0); reflexivity. Qed.

(* division is total over the reals, so the computation does not need b <> 0; the theorems below
   carry the hypothesis because 60 / b means nothing otherwise (Python raises ZeroDivisionError) *)
Lemma convert_constant_core d0 b c0 e t0 vs : wf e ->
  convR (senvR [mkPt d0 b c0]) t0 e = Ok vs ->
  Forall2 (fun '(a, b') v => v = tofR (b' - a) * (60 / b)) (spans t0 e) vs.
Proof.
  intros We E. rewrite seconds_env_single in E.
  assert (Ne : [mkPt 0%Z (60 / b) c0] <> []) by discriminate.
  assert (Wp : pwf [mkPt 0%Z (60 / b) c0]) by (repeat constructor; cbn [pd]; lia).
  pose proof (convert_env_integrals _ Ne Wp e We t0 vs E) as A. revert A.
  apply Forall2_imp. intros [a b'] v H. unfold leaf_int in H.
  apply (is_RInt_ext _ (fun _ => 60 / b)) in H; [|intros x _; apply curve_single].
  pose proof (@is_RInt_const R_NormedModule (tofR a) (tofR b') (60 / b)) as Hc.
  pose proof (@is_RInt_unique R_CompleteNormedModule _ _ _ _ H) as U.
  pose proof (@is_RInt_unique R_CompleteNormedModule _ _ _ _ Hc) as Uc.
  rewrite U in Uc. rewrite Uc, tofR_minus. reflexivity.
Qed.

Lemma convert_constant_core_durs d0 b c0 e t0 vs : wf e ->
  convR (senvR [mkPt d0 b c0]) t0 e = Ok vs -> vs = map (fun d => tofR d * (60 / b)) (leaf_durs e).
Proof.
  intros We E. pose proof (convert_constant_core d0 b c0 e t0 vs We E) as A.
  rewrite <- (spans_durs e t0), map_map.
  apply (Forall2_imp _ (fun (ab : Z * Z) v => v = let '(a, b') := ab in tofR (b' - a) * (60 / b))) in A.
  - apply Forall2_eq_map in A. rewrite A. apply map_ext. intros [a b']. reflexivity.
  - intros [a b'] v H. exact H.
Qed.

(* one tempo point (any duration, any shape): every span is scaled by 60 / bpm *)
Theorem convert_constant d0 b c0 e t0 vs : b <> 0 -> wf e ->
  convR (senvR [mkPt d0 b c0]) t0 e = Ok vs ->
  Forall2 (fun '(a, b') v => v = tofR (b' - a) * (60 / b)) (spans t0 e) vs.
Proof. intros _. apply convert_constant_core. Qed.

(* the same, leaf by leaf: every duration is scaled by 60 / bpm *)
Corollary convert_constant_durs d0 b c0 e t0 vs : b <> 0 -> wf e ->
  convR (senvR [mkPt d0 b c0]) t0 e = Ok vs -> vs = map (fun d => tofR d * (60 / b)) (leaf_durs e).
Proof. intros _. apply convert_constant_core_durs. Qed.

(* tempo 60: nothing changes *)
Theorem convert_60_identity d0 c0 e t0 vs : wf e ->
  convR (senvR [mkPt d0 60 c0]) t0 e = Ok vs -> vs = map tofR (leaf_durs e).
Proof.
  intros We E. rewrite (convert_constant_core_durs d0 60 c0 e t0 vs We E).
  apply map_ext. intros d. field.
Qed.

(* with totality: the conversion succeeds and this is its result *)
Theorem convert_constant_total d0 b c0 e t0 : b <> 0 -> wf e ->
  convR (senvR [mkPt d0 b c0]) t0 e = Ok (map (fun d => tofR d * (60 / b)) (leaf_durs e)).
Proof.
  intros _ We. destruct (convert_total [mkPt d0 b c0] e t0 ltac:(discriminate) We) as [vs E].
  rewrite E. f_equal. exact (convert_constant_core_durs d0 b c0 e t0 vs We E).
Qed.

Theorem convert_60_total d0 c0 e t0 : wf e ->
  convR (senvR [mkPt d0 60 c0]) t0 e = Ok (map tofR (leaf_durs e)).
Proof.
  intros We. destruct (convert_total [mkPt d0 60 c0] e t0 ltac:(discriminate) We) as [vs E].
  rewrite E. f_equal. exact (convert_60_identity d0 c0 e t0 vs We E).
Qed.

(* ================================================================ B5. metrize *)
Notation tevR := (tev R).
Notation ntempoR := (ntempo R).
Notation mgo := (metrize_go R RNum).

Lemma tev_ind' (P : tevR -> Prop)
  (HL : forall d tp, P (TLeaf d tp))
  (HS : forall tp cs, Forall P cs -> P (TSeq tp cs))
  (HP : forall tp cs, Forall P cs -> P (TSim tp cs)) : forall e, P e.
Proof.
  fix IH 1. intros [d tp|tp cs|tp cs]; [apply HL|apply HS|apply HP];
  induction cs as [|c r IHr]; constructor; auto.
Qed.

(* ------------------------------------------------------------ unfolding equations *)
Definition mg_seq (fac : R) (ctx : option envR) := fix go (t : Z) (l : list tevR) : res (list R) :=
  match l with
  | [] => Ok []
  | c :: r => a <- mgo fac ctx t c ; b <- go (t + tdur R c)%Z r ; Ok (a ++ b)
  end.
Definition mg_sim (fac : R) (ctx : option envR) (t0 : Z) := fix go (l : list tevR) : res (list R) :=
  match l with
  | [] => Ok []
  | c :: r => a <- mgo fac ctx t0 c ; b <- go r ; Ok (a ++ b)
  end.

Lemma enter_const fac ctx t0 b : enter R RNum fac ctx t0 (TConst b) = Ok (fac * (60 / b), ctx, t0).
Proof. reflexivity. Qed.
Lemma enter_traj fac t0 t : enter R RNum fac None t0 (TTraj t) = Ok (fac, Some (senvR t), 0%Z).
Proof. reflexivity. Qed.
Lemma mgo_leaf_const fac t0 d b : mgo fac None t0 (TLeaf d (TConst b)) = Ok [fac * (60 / b) * tofR d].
Proof. reflexivity. Qed.
Lemma mgo_leaf_ctx fac senv t0 d b :
  mgo fac (Some senv) t0 (TLeaf d (TConst b)) =
  (v <- integrate R RNum senv t0 (t0 + d) ; Ok [fac * (60 / b) * v]).
Proof. reflexivity. Qed.
Lemma mgo_leaf_traj fac t0 d t :
  mgo fac None t0 (TLeaf d (TTraj t)) = (v <- integrate R RNum (senvR t) 0 (0 + d) ; Ok [fac * v]).
Proof. reflexivity. Qed.
Lemma mgo_seq_const fac ctx t0 b cs : mgo fac ctx t0 (TSeq (TConst b) cs) = mg_seq (fac * (60 / b)) ctx t0 cs.
Proof. reflexivity. Qed.
Lemma mgo_sim_const fac ctx t0 b cs : mgo fac ctx t0 (TSim (TConst b) cs) = mg_sim (fac * (60 / b)) ctx t0 cs.
Proof. reflexivity. Qed.
Lemma mgo_seq_traj fac t0 t cs : mgo fac None t0 (TSeq (TTraj t) cs) = mg_seq fac (Some (senvR t)) 0 cs.
Proof. reflexivity. Qed.
Lemma mgo_sim_traj fac t0 t cs : mgo fac None t0 (TSim (TTraj t) cs) = mg_sim fac (Some (senvR t)) 0 cs.
Proof. reflexivity. Qed.
Lemma mg_seq_nil fac ctx t : mg_seq fac ctx t [] = Ok []. Proof. reflexivity. Qed.
Lemma mg_seq_cons fac ctx t c r :
  mg_seq fac ctx t (c :: r) = (a <- mgo fac ctx t c ; b <- mg_seq fac ctx (t + tdur R c)%Z r ; Ok (a ++ b)).
Proof. reflexivity. Qed.
Lemma mg_sim_nil fac ctx t0 : mg_sim fac ctx t0 [] = Ok []. Proof. reflexivity. Qed.
Lemma mg_sim_cons fac ctx t0 c r :
  mg_sim fac ctx t0 (c :: r) = (a <- mgo fac ctx t0 c ; b <- mg_sim fac ctx t0 r ; Ok (a ++ b)).
Proof. reflexivity. Qed.

(* ------------------------------------------------------------ predicates and specifications *)
(* every node of the tree carries a tempo that satisfies P *)
Fixpoint all_tp (P : ntempoR -> Prop) (e : tevR) : Prop :=
  match e with
  | TLeaf _ tp => P tp
  | TSeq tp cs | TSim tp cs =>
      P tp /\ (fix go (l : list tevR) : Prop := match l with [] => True | c :: r => all_tp P c /\ go r end) cs
  end.
Definition all_tps (P : ntempoR -> Prop) := fix go (l : list tevR) : Prop :=
  match l with [] => True | c :: r => all_tp P c /\ go r end.
Lemma all_tp_seq P tp cs : all_tp P (TSeq tp cs) = (P tp /\ all_tps P cs). Proof. reflexivity. Qed.
Lemma all_tp_sim P tp cs : all_tp P (TSim tp cs) = (P tp /\ all_tps P cs). Proof. reflexivity. Qed.

Definition tp_const (tp : ntempoR) : Prop := match tp with TConst b => b <> 0 | TTraj _ => False end.
Definition tp_60 (tp : ntempoR) : Prop := tp = TConst 60.
(* every node tempo is a constant b <> 0 *)
Definition all_const : tevR -> Prop := all_tp tp_const.
(* every node tempo is the constant 60 *)
Definition all_60 : tevR -> Prop := all_tp tp_60.
Definition all_60s : list tevR -> Prop := all_tps tp_60.

Definition bof (tp : ntempoR) : R := match tp with TConst b => b | TTraj _ => 0 end.

(* every leaf with the tempi on its path from the root, its own included *)
Fixpoint lpaths (e : tevR) : list (Z * list R) :=
  match e with
  | TLeaf d tp => [(d, [bof tp])]
  | TSeq tp cs | TSim tp cs =>
      map (fun '(d, bs) => (d, bof tp :: bs))
        ((fix go (l : list tevR) : list (Z * list R) := match l with [] => [] | c :: r => lpaths c ++ go r end) cs)
  end.
Definition lpaths_l := fix go (l : list tevR) : list (Z * list R) :=
  match l with [] => [] | c :: r => lpaths c ++ go r end.

(* (60 / b1) * ... * (60 / bk) *)
Definition path_factor (bs : list R) : R := fold_right (fun b acc => 60 / b * acc) 1 bs.
Definition leaf_products (e : tevR) : list R := map (fun '(d, bs) => tofR d * path_factor bs) (lpaths e).

(* the same with the factor accumulated from the root downwards, in the order of the model *)
Fixpoint lp (fac : R) (e : tevR) : list R :=
  match e with
  | TLeaf d tp => [fac * (60 / bof tp) * tofR d]
  | TSeq tp cs | TSim tp cs =>
      (fix go (l : list tevR) : list R := match l with [] => [] | c :: r => lp (fac * (60 / bof tp)) c ++ go r end) cs
  end.
Definition lp_l (fac : R) := fix go (l : list tevR) : list R :=
  match l with [] => [] | c :: r => lp fac c ++ go r end.

Fixpoint tleaf_durs (e : tevR) : list Z :=
  match e with
  | TLeaf d _ => [d]
  | TSeq _ cs | TSim _ cs =>
      (fix go (l : list tevR) : list Z := match l with [] => [] | c :: r => tleaf_durs c ++ go r end) cs
  end.
Definition tleaf_durs_l := fix go (l : list tevR) : list Z :=
  match l with [] => [] | c :: r => tleaf_durs c ++ go r end.

(* forgetting the tempi *)
Fixpoint plain (e : tevR) : ev :=
  match e with
  | TLeaf d _ => Leaf d 0
  | TSeq _ cs => Seq meta0 ((fix go (l : list tevR) : list ev := match l with [] => [] | c :: r => plain c :: go r end) cs)
  | TSim _ cs => Sim meta0 ((fix go (l : list tevR) : list ev := match l with [] => [] | c :: r => plain c :: go r end) cs)
  end.
Definition plain_l := fix go (l : list tevR) : list ev := match l with [] => [] | c :: r => plain c :: go r end.

Lemma tdur_plain e : dur (plain e) = tdur R e.
Proof.
  induction e as [d tp|tp cs IH|tp cs IH] using tev_ind'; [reflexivity| |].
  - change (dur (plain (TSeq tp cs))) with (dsum (plain_l cs)).
    induction IH as [|c r Hc _ IHr]; [reflexivity|].
    change (plain_l (c :: r)) with (plain c :: plain_l r). rewrite dsum_cons, Hc, IHr. reflexivity.
  - change (dur (plain (TSim tp cs))) with (dmax (plain_l cs)).
    induction IH as [|c r Hc _ IHr]; [reflexivity|].
    change (plain_l (c :: r)) with (plain c :: plain_l r). rewrite dmax_cons, Hc, IHr. reflexivity.
Qed.

Lemma leaf_durs_plain e : leaf_durs (plain e) = tleaf_durs e.
Proof.
  induction e as [d tp|tp cs IH|tp cs IH] using tev_ind'; [reflexivity| |].
  - change (leaf_durs (plain (TSeq tp cs))) with (leaf_durs_l (plain_l cs)).
    change (tleaf_durs (TSeq tp cs)) with (tleaf_durs_l cs).
    induction IH as [|c r Hc _ IHr]; [reflexivity|].
    change (leaf_durs_l (plain_l (c :: r))) with (leaf_durs (plain c) ++ leaf_durs_l (plain_l r)).
    rewrite Hc, IHr. reflexivity.
  - change (leaf_durs (plain (TSim tp cs))) with (leaf_durs_l (plain_l cs)).
    change (tleaf_durs (TSim tp cs)) with (tleaf_durs_l cs).
    induction IH as [|c r Hc _ IHr]; [reflexivity|].
    change (leaf_durs_l (plain_l (c :: r))) with (leaf_durs (plain c) ++ leaf_durs_l (plain_l r)).
    rewrite Hc, IHr. reflexivity.
Qed.

(* ------------------------------------------------------------ constant tempi everywhere *)
Lemma mg_seq_lp fac cs : Forall (fun c => all_const c -> forall fac t0, mgo fac None t0 c = Ok (lp fac c)) cs ->
  all_tps tp_const cs -> forall t, mg_seq fac None t cs = Ok (lp_l fac cs).
Proof.
  induction 1 as [|c r Hc _ IHr]; intros A t; [reflexivity|]. destruct A as [Ac Ar].
  rewrite mg_seq_cons, (Hc Ac), (IHr Ar). reflexivity.
Qed.
Lemma mg_sim_lp fac t0 cs : Forall (fun c => all_const c -> forall fac t0, mgo fac None t0 c = Ok (lp fac c)) cs ->
  all_tps tp_const cs -> mg_sim fac None t0 cs = Ok (lp_l fac cs).
Proof.
  induction 1 as [|c r Hc _ IHr]; intros A; [reflexivity|]. destruct A as [Ac Ar].
  rewrite mg_sim_cons, (Hc Ac), (IHr Ar). reflexivity.
Qed.

Lemma metrize_go_const e : all_const e -> forall fac t0, mgo fac None t0 e = Ok (lp fac e).
Proof.
  induction e as [d tp|tp cs IH|tp cs IH] using tev_ind'; intros A fac t0.
  - destruct tp as [b|t]; [|destruct A]. reflexivity.
  - unfold all_const in A. rewrite all_tp_seq in A. destruct A as [Ap Ac].
    destruct tp as [b|t]; [|destruct Ap]. rewrite mgo_seq_const. apply mg_seq_lp; assumption.
  - unfold all_const in A. rewrite all_tp_sim in A. destruct A as [Ap Ac].
    destruct tp as [b|t]; [|destruct Ap]. rewrite mgo_sim_const. apply mg_sim_lp; assumption.
Qed.

Lemma lp_l_paths fac cs :
  Forall (fun c => forall fac, lp fac c = map (fun '(d, bs) => tofR d * (fac * path_factor bs)) (lpaths c)) cs ->
  lp_l fac cs = map (fun '(d, bs) => tofR d * (fac * path_factor bs)) (lpaths_l cs).
Proof.
  induction 1 as [|c r Hc _ IHr]; [reflexivity|].
  change (lp_l fac (c :: r)) with (lp fac c ++ lp_l fac r).
  change (lpaths_l (c :: r)) with (lpaths c ++ lpaths_l r). rewrite map_app, Hc, IHr. reflexivity.
Qed.

(* the accumulated factor is the product along the path, in any order *)
Lemma lp_paths e : forall fac,
  lp fac e = map (fun '(d, bs) => tofR d * (fac * path_factor bs)) (lpaths e).
Proof.
  assert (G : forall tp cs fac,
    Forall (fun c => forall fac, lp fac c = map (fun '(d, bs) => tofR d * (fac * path_factor bs)) (lpaths c)) cs ->
    lp_l (fac * (60 / bof tp)) cs =
    map (fun '(d, bs) => tofR d * (fac * path_factor bs))
      (map (fun '(d, bs) => (d, bof tp :: bs)) (lpaths_l cs))).
  { intros tp cs fac IH. rewrite (lp_l_paths _ cs IH), map_map. apply map_ext.
    intros [d bs]. unfold path_factor. cbn [fold_right]. ring. }
  induction e as [d tp|tp cs IH|tp cs IH] using tev_ind'; intros fac.
  - cbn [lp lpaths map]. unfold path_factor. cbn [fold_right]. f_equal. ring.
  - exact (G tp cs fac IH).
  - exact (G tp cs fac IH).
Qed.

Theorem metrize_constant e : all_const e -> metrize R RNum e = Ok (leaf_products e).
Proof.
  intros A. unfold metrize. change (n1 RNum) with 1. rewrite (metrize_go_const e A). f_equal.
  rewrite lp_paths. unfold leaf_products. apply map_ext. intros [d bs]. ring.
Qed.

(* in the order of the model: fac * (60 / b) from the root downwards *)
Theorem metrize_constant_acc e : all_const e -> metrize R RNum e = Ok (lp 1 e).
Proof. intros A. unfold metrize. exact (metrize_go_const e A 1 0%Z). Qed.

(* ------------------------------------------------------------ neutral tempo everywhere *)
Lemma fac_60 : 1 * (60 / 60) = 1.
Proof. field. Qed.

Lemma metrize_go_60 e : all_60 e -> forall t0, mgo 1 None t0 e = Ok (map tofR (tleaf_durs e)).
Proof.
  induction e as [d tp|tp cs IH|tp cs IH] using tev_ind'; intros A t0.
  - cbn [all_60 all_tp] in A. unfold all_60, all_tp, tp_60 in A. subst tp.
    rewrite mgo_leaf_const, fac_60. cbn [tleaf_durs map]. f_equal. f_equal. ring.
  - unfold all_60 in A. rewrite all_tp_seq in A. destruct A as [Ap Ac]. unfold tp_60 in Ap. subst tp.
    rewrite mgo_seq_const, fac_60. change (tleaf_durs (TSeq (TConst 60) cs)) with (tleaf_durs_l cs).
    revert t0 Ac. induction IH as [|c r Hc _ IHr]; intros t0 Ac; [reflexivity|]. destruct Ac as [Ac Ar].
    rewrite mg_seq_cons, (Hc Ac), (IHr _ Ar). cbn [bind].
    change (tleaf_durs_l (c :: r)) with (tleaf_durs c ++ tleaf_durs_l r). rewrite map_app. reflexivity.
  - unfold all_60 in A. rewrite all_tp_sim in A. destruct A as [Ap Ac]. unfold tp_60 in Ap. subst tp.
    rewrite mgo_sim_const, fac_60. change (tleaf_durs (TSim (TConst 60) cs)) with (tleaf_durs_l cs).
    revert Ac. induction IH as [|c r Hc _ IHr]; intros Ac; [reflexivity|]. destruct Ac as [Ac Ar].
    rewrite mg_sim_cons, (Hc Ac), (IHr Ar). cbn [bind].
    change (tleaf_durs_l (c :: r)) with (tleaf_durs c ++ tleaf_durs_l r). rewrite map_app. reflexivity.
Qed.

(* metrizing an already neutral event changes nothing *)
Theorem metrize_neutral_identity e : all_60 e -> metrize R RNum e = Ok (map tofR (tleaf_durs e)).
Proof. intros A. unfold metrize. exact (metrize_go_60 e A 0%Z). Qed.

(* ------------------------------------------------------------ one trajectory node *)
Section SingleNode.
  Variable senv : envR.
  Let Pc (c : tevR) : Prop := all_60 c -> forall t0, mgo 1 (Some senv) t0 c = convR senv t0 (plain c).

  Lemma mg_seq_ctx cs : Forall Pc cs -> all_60s cs ->
    forall t, mg_seq 1 (Some senv) t cs = conv_seq R RNum senv t (plain_l cs).
  Proof.
    induction 1 as [|c r Hc _ IHr]; intros A t; [reflexivity|]. destruct A as [Ac Ar].
    change (plain_l (c :: r)) with (plain c :: plain_l r).
    rewrite mg_seq_cons, conv_seq_cons, (Hc Ac), tdur_plain, (IHr Ar). reflexivity.
  Qed.
  Lemma mg_sim_ctx t0 cs : Forall Pc cs -> all_60s cs ->
    mg_sim 1 (Some senv) t0 cs = conv_sim R RNum senv t0 (plain_l cs).
  Proof.
    induction 1 as [|c r Hc _ IHr]; intros A; [reflexivity|]. destruct A as [Ac Ar].
    change (plain_l (c :: r)) with (plain c :: plain_l r).
    rewrite mg_sim_cons, conv_sim_cons, (Hc Ac), (IHr Ar). reflexivity.
  Qed.

  Lemma metrize_go_ctx e : Pc e.
  Proof.
    induction e as [d tp|tp cs IH|tp cs IH] using tev_ind'; intros A t0.
    - unfold all_60, all_tp, tp_60 in A. subst tp. rewrite mgo_leaf_ctx, fac_60.
      change (plain (TLeaf d (TConst 60))) with (Leaf d 0). rewrite convert_leaf.
      destruct (integrate R RNum senv t0 (t0 + d)) as [v|k]; cbn [bind]; [|reflexivity].
      f_equal. f_equal. ring.
    - unfold all_60 in A. rewrite all_tp_seq in A. destruct A as [Ap Ac]. unfold tp_60 in Ap. subst tp.
      rewrite mgo_seq_const, fac_60. change (plain (TSeq (TConst 60) cs)) with (Seq meta0 (plain_l cs)).
      rewrite convert_seq. apply mg_seq_ctx; assumption.
    - unfold all_60 in A. rewrite all_tp_sim in A. destruct A as [Ap Ac]. unfold tp_60 in Ap. subst tp.
      rewrite mgo_sim_const, fac_60. change (plain (TSim (TConst 60) cs)) with (Sim meta0 (plain_l cs)).
      rewrite convert_sim. apply mg_sim_ctx; assumption.
  Qed.

  Lemma metrize_go_ctx_all cs : Forall Pc cs.
  Proof. apply Forall_forall. intros c _. apply metrize_go_ctx. Qed.
End SingleNode.

(* a single node with a tempo trajectory, neutral tempo everywhere else: metrize is the tempo
   conversion with that node's tempo *)
Theorem metrize_single_node_seq t cs : all_60s cs ->
  metrize R RNum (TSeq (TTraj t) cs) = convR (senvR t) 0 (plain (TSeq (TTraj t) cs)).
Proof.
  intros A. unfold metrize. change (n1 RNum) with 1. rewrite mgo_seq_traj.
  change (plain (TSeq (TTraj t) cs)) with (Seq meta0 (plain_l cs)). rewrite convert_seq.
  apply mg_seq_ctx; [apply metrize_go_ctx_all|exact A].
Qed.

Theorem metrize_single_node_sim t cs : all_60s cs ->
  metrize R RNum (TSim (TTraj t) cs) = convR (senvR t) 0 (plain (TSim (TTraj t) cs)).
Proof.
  intros A. unfold metrize. change (n1 RNum) with 1. rewrite mgo_sim_traj.
  change (plain (TSim (TTraj t) cs)) with (Sim meta0 (plain_l cs)). rewrite convert_sim.
  apply mg_sim_ctx; [apply metrize_go_ctx_all|exact A].
Qed.

Theorem metrize_single_node_leaf t d :
  metrize R RNum (TLeaf d (TTraj t)) = convR (senvR t) 0 (plain (TLeaf d (TTraj t))).
Proof.
  unfold metrize. change (n1 RNum) with 1. rewrite mgo_leaf_traj.
  change (plain (TLeaf d (TTraj t))) with (Leaf d 0). rewrite convert_leaf.
  destruct (integrate R RNum (senvR t) 0 (0 + d)) as [v|k]; cbn [bind]; [|reflexivity].
  f_equal. f_equal. ring.
Qed.

(* the three cases in one statement *)
Definition single_traj (e : tevR) : Prop :=
  match e with
  | TLeaf _ (TTraj _) => True
  | TSeq (TTraj _) cs | TSim (TTraj _) cs => all_60s cs
  | _ => False
  end.
Definition traj_of (e : tevR) : envR :=
  match e with TLeaf _ (TTraj t) | TSeq (TTraj t) _ | TSim (TTraj t) _ => t | _ => [] end.

Theorem metrize_single_node e : single_traj e ->
  metrize R RNum e = convR (senvR (traj_of e)) 0 (plain e).
Proof.
  destruct e as [d [b|t]|[b|t] cs|[b|t] cs]; cbn [single_traj traj_of]; intros A; try destruct A.
  - apply metrize_single_node_leaf.
  - apply metrize_single_node_seq. exact A.
  - apply metrize_single_node_sim. exact A.
Qed.

(* a trajectory below a trajectory is outside the model: the model says so instead of guessing *)
Theorem metrize_nested_traj_rejected t1 t2 d :
  metrize R RNum (TSeq (TTraj t1) [TLeaf d (TTraj t2)]) = Err EValueError.
Proof. reflexivity. Qed.

(* with B2: under a single trajectory node every leaf gets the integral of that node's
   seconds-per-beat curve over the beats the leaf occupied, counted from the start of the node *)
Corollary metrize_single_node_integrals e vs : single_traj e -> traj_of e <> [] -> pwf (traj_of e) ->
  wf (plain e) -> metrize R RNum e = Ok vs ->
  Forall2 (fun '(a, b) v => is_RInt (curve (senvR (traj_of e))) (tofR a) (tofR b) v) (spans 0 (plain e)) vs.
Proof.
  intros S Ne W We E. rewrite (metrize_single_node e S) in E.
  exact (convert_leaf_integrals (traj_of e) (plain e) 0%Z vs Ne W We E).
Qed.

(* ================================================================ the hypotheses are satisfiable *)
Definition ex_tempo : envR := [mkPt 10000000000%Z 60 0; mkPt 20000000000%Z 120 1; mkPt 5%Z 30 0].
Definition ex_tree : ev :=
  Seq meta0 [Leaf 15000000000 1; Sim meta0 [Leaf 10000000000 2; Seq meta0 [Leaf 5000000000 3; Leaf 5000000000 4]]].

Lemma ex_tempo_pwf : pwf ex_tempo.
Proof. unfold pwf, ex_tempo. repeat constructor; cbn [pd]; lia. Qed.
Lemma ex_tree_wf : wf ex_tree.
Proof. unfold ex_tree. cbn [wf]. repeat split; lia. Qed.

Example convert_example :
  exists vs, convR (senvR ex_tempo) 0 ex_tree = Ok vs /\
    Forall2 (fun '(a, b) v => is_RInt (curve (senvR ex_tempo)) (tofR a) (tofR b) v) (spans 0 ex_tree) vs /\
    spans 0 ex_tree = [(0, 15000000000); (15000000000, 25000000000); (15000000000, 20000000000);
                       (20000000000, 25000000000)]%Z.
Proof.
  destruct (convert_total ex_tempo ex_tree 0%Z ltac:(discriminate) ex_tree_wf) as [vs E].
  exists vs. split; [exact E|]. split; [|reflexivity].
  apply convert_leaf_integrals; [discriminate|exact ex_tempo_pwf|exact ex_tree_wf|exact E].
Qed.

(* two subdivisions of three beats starting at beat 1/2 *)
Example subdivision_example :
  let e1 := Seq meta0 [Leaf 10000000000 1; Seq meta0 [Leaf 5000000000 2; Leaf 15000000000 3]] in
  let e2 := Seq meta0 [Leaf 30000000000 4] in
  exists vs1 vs2, convR (senvR ex_tempo) 5000000000 e1 = Ok vs1 /\ convR (senvR ex_tempo) 5000000000 e2 = Ok vs2 /\
    fold_right Rplus 0 vs1 = fold_right Rplus 0 vs2.
Proof.
  intros e1 e2.
  assert (W1 : wf e1) by (unfold e1; cbn [wf]; repeat split; lia).
  assert (W2 : wf e2) by (unfold e2; cbn [wf]; repeat split; lia).
  destruct (convert_total ex_tempo e1 5000000000%Z ltac:(discriminate) W1) as [vs1 E1].
  destruct (convert_total ex_tempo e2 5000000000%Z ltac:(discriminate) W2) as [vs2 E2].
  exists vs1, vs2. split; [exact E1|]. split; [exact E2|].
  apply (convert_subdivision_total ex_tempo e1 e2 5000000000%Z); try assumption.
  - discriminate.
  - exact ex_tempo_pwf.
  - unfold e1. cbn [no_sim]. tauto.
  - unfold e2. cbn [no_sim]. tauto.
  - reflexivity.
Qed.

Example constant_example :
  convR (senvR [mkPt 7%Z 120 3]) 5 ex_tree =
  Ok (map (fun d => tofR d * (60 / 120)) [15000000000; 10000000000; 5000000000; 5000000000]%Z).
Proof. apply (convert_constant_total 7%Z 120 3 ex_tree 5%Z); [lra|exact ex_tree_wf]. Qed.

Definition ex_ttree (top : ntempoR) (b1 b2 b3 : R) : tevR :=
  TSeq top [TLeaf 15000000000 (TConst b1);
            TSim (TConst b2) [TLeaf 10000000000 (TConst b3);
                              TSeq (TConst b2) [TLeaf 5000000000 (TConst b1); TLeaf 5000000000 (TConst b3)]]].

Example metrize_constant_example :
  metrize R RNum (ex_ttree (TConst 120) 60 30 90) =
  Ok [tofR 15000000000 * (60 / 120 * (60 / 60 * 1));
      tofR 10000000000 * (60 / 120 * (60 / 30 * (60 / 90 * 1)));
      tofR 5000000000 * (60 / 120 * (60 / 30 * (60 / 30 * (60 / 60 * 1))));
      tofR 5000000000 * (60 / 120 * (60 / 30 * (60 / 30 * (60 / 90 * 1))))].
Proof.
  rewrite metrize_constant; [reflexivity|].
  unfold ex_ttree, all_const. cbn [all_tp tp_const]. repeat split; lra.
Qed.

Example metrize_neutral_example :
  metrize R RNum (ex_ttree (TConst 60) 60 60 60) =
  Ok (map tofR [15000000000; 10000000000; 5000000000; 5000000000]%Z).
Proof.
  rewrite metrize_neutral_identity; [reflexivity|].
  unfold ex_ttree, all_60. cbn [all_tp tp_60]. unfold tp_60. repeat split; reflexivity.
Qed.

Example metrize_single_example :
  let e := ex_ttree (TTraj ex_tempo) 60 60 60 in
  single_traj e /\ wf (plain e) /\
  metrize R RNum e = convR (senvR ex_tempo) 0 (plain e) /\
  exists vs, metrize R RNum e = Ok vs /\
    Forall2 (fun '(a, b) v => is_RInt (curve (senvR ex_tempo)) (tofR a) (tofR b) v) (spans 0 (plain e)) vs.
Proof.
  intros e.
  assert (S : single_traj e).
  { unfold e, ex_ttree. cbn [single_traj]. unfold all_60s. cbn [all_tps all_tp]. unfold tp_60. repeat split; reflexivity. }
  assert (We : wf (plain e)).
  { unfold e, ex_ttree. cbn [plain wf]. repeat split; lia. }
  split; [exact S|]. split; [exact We|]. split; [exact (metrize_single_node e S)|].
  destruct (convert_total ex_tempo (plain e) 0%Z ltac:(discriminate) We) as [vs E].
  exists vs. pose proof (metrize_single_node e S) as M. change (traj_of e) with ex_tempo in M.
  split; [rewrite M; exact E|].
  apply (metrize_single_node_integrals e vs S); [discriminate|exact ex_tempo_pwf|exact We|rewrite M; exact E].
Qed.

Print Assumptions seconds_env_points.
Print Assumptions seconds_env_struct.
Print Assumptions seconds_env_pwf.
Print Assumptions seconds_env_curve.
Print Assumptions seconds_env_at_point.
Print Assumptions convert_leaf_integrals.
Print Assumptions convert_total.
Print Assumptions convert_subdivision_independent.
Print Assumptions convert_subdivision_total.
Print Assumptions convert_constant.
Print Assumptions convert_60_identity.
Print Assumptions convert_constant_total.
Print Assumptions metrize_constant.
Print Assumptions metrize_neutral_identity.
Print Assumptions metrize_single_node.
Print Assumptions metrize_single_node_integrals.
