(* Envelope.integrate_interval over the reals: the reported number is the Riemann integral of the
   envelope's own interpolated curve (`curve`, Proofs/RNum.v) between the two times, including the
   clamped parts before the first / after the last point and interval ends inside curved segments. *)
From Coq Require Import ZArith List Bool Reals Lra Lia.
From Coquelicot Require Import Coquelicot.
From MV Require Import Base.Res Model.EventTree Model.TreeOps Model.Num Model.Envelope
  Proofs.RNum Proofs.IntegralSeg.
Import ListNotations.
Open Scope R_scope.

Notation pointR := (point R).
Definition ptime (q : pointR) : Z := fst (fst q).
Definition pval (q : pointR) : R := snd (fst q).
Definition pshape (q : pointR) : R := snd q.

(* ------------------------------------------------------------ generic list facts *)
Lemma split_nth {A} : forall (l : list A) k q, nth_error l k = Some q ->
  firstn (S k) l = firstn k l ++ [q] /\ skipn k l = q :: skipn (S k) l.
Proof.
  induction l as [|a l IH]; intros [|k] q H; try discriminate.
  - inversion H; subst. split; reflexivity.
  - simpl in H. destruct (IH k q H) as [H1 H2]. split.
    + change (firstn (S (S k)) (a :: l)) with (a :: firstn (S k) l). rewrite H1. reflexivity.
    + exact H2.
Qed.

Lemma nth_map_inv {A B} (f : A -> B) l k y : nth_error (map f l) k = Some y ->
  exists q, nth_error l k = Some q /\ f q = y.
Proof.
  rewrite nth_error_map. destruct (nth_error l k) as [q|]; simpl; intros H; [|discriminate].
  inversion H. exists q. split; reflexivity.
Qed.

Lemma nth_lt_length {A} (l : list A) k q : nth_error l k = Some q -> (k < length l)%nat.
Proof. intros H. apply nth_error_Some. rewrite H. discriminate. Qed.

Lemma lslice_skip_first {A} (l : list A) i0 i1 : lslice i0 i1 l = skipn i0 (firstn i1 l).
Proof. unfold lslice. symmetry. apply skipn_firstn_comm. Qed.

Lemma slice_first {A} (l : list A) i0 i1 q0 r0 : skipn i0 l = q0 :: r0 -> (i0 < i1)%nat ->
  exists r, lslice i0 i1 l = q0 :: r.
Proof.
  intros H L. unfold lslice. rewrite H. destruct (i1 - i0)%nat as [|n] eqn:E; [lia|].
  simpl. eexists; reflexivity.
Qed.

Lemma slice_last {A} (l : list A) i0 i1 l1 qe : firstn i1 l = l1 ++ [qe] -> (i0 <= length l1)%nat ->
  lslice i0 i1 l = skipn i0 l1 ++ [qe].
Proof.
  intros H L. rewrite lslice_skip_first, H, skipn_app.
  replace (i0 - length l1)%nat with 0%nat by lia. reflexivity.
Qed.

(* ------------------------------------------------------------ index_of / bisect_left *)
Lemma index_of_some : forall l x k, index_of x l = Some k -> nth_error l k = Some x.
Proof.
  induction l as [|y l IH]; intros x k H; simpl in H; [discriminate|].
  destruct (x =? y)%Z eqn:E.
  - inversion H; subst. apply Z.eqb_eq in E. subst. reflexivity.
  - destruct (index_of x l) as [k'|] eqn:E'; simpl in H; [|discriminate].
    inversion H; subst. simpl. apply IH. exact E'.
Qed.

Lemma index_of_none : forall l x, index_of x l = None -> ~ In x l.
Proof.
  induction l as [|y l IH]; intros x H; simpl in *; [tauto|].
  destruct (x =? y)%Z eqn:E; [discriminate|].
  destruct (index_of x l) eqn:E'; simpl in H; [discriminate|].
  apply Z.eqb_neq in E. intros [G|G]; [congruence|]. exact (IH x E' G).
Qed.

Lemma bisect_left_cons x r t :
  bisect_left (x :: r) t = if (x <? t)%Z then S (bisect_left r t) else 0%nat.
Proof. reflexivity. Qed.

Lemma bl_prefix : forall l t j a, (j < bisect_left l t)%nat -> nth_error l j = Some a -> (a < t)%Z.
Proof.
  induction l as [|x l IH]; intros t j a H G; simpl in H; [lia|].
  destruct (x <? t)%Z eqn:E; [|lia]. destruct j as [|j].
  - simpl in G. inversion G; subst. apply Z.ltb_lt. exact E.
  - simpl in G. apply (IH t j a); [lia|exact G].
Qed.

Lemma bl_le_len : forall l t, (bisect_left l t <= length l)%nat.
Proof. induction l as [|x l IH]; intros t; simpl; [lia|]. destruct (x <? t)%Z; simpl; [specialize (IH t)|]; lia. Qed.

Lemma bl_mono : forall l t t', (t <= t')%Z -> (bisect_left l t <= bisect_left l t')%nat.
Proof.
  induction l as [|x l IH]; intros t t' H; simpl; [lia|].
  destruct (x <? t)%Z eqn:E; [|lia].
  assert (E' : (x <? t')%Z = true) by (apply Z.ltb_lt; apply Z.ltb_lt in E; lia).
  rewrite E'. specialize (IH t t' H). lia.
Qed.

Lemma bl_gt : forall l t k, (k < length l)%nat ->
  (forall j a, (j <= k)%nat -> nth_error l j = Some a -> (a < t)%Z) -> (k < bisect_left l t)%nat.
Proof.
  induction l as [|x l IH]; intros t k L H; simpl in L; [lia|].
  rewrite bisect_left_cons.
  assert (E : (x <? t)%Z = true) by (apply Z.ltb_lt; apply (H 0%nat x); [lia|reflexivity]).
  rewrite E. destruct k as [|k]; [lia|].
  assert ((k < bisect_left l t)%nat); [|lia].
  apply IH; [lia|]. intros j a Hj Hn. apply (H (S j) a); [lia|exact Hn].
Qed.

(* ------------------------------------------------------------ the control points with their times *)
Definition fullf (t0 : Z) (e : envR) : list pointR := zip_points R (pstarts_from R t0 e) e.

Lemma fullf_cons t0 p r : fullf t0 (p :: r) = (t0, pv p, pc p) :: fullf (t0 + pd p) r.
Proof. reflexivity. Qed.

Lemma fullf_times : forall e t0, map ptime (fullf t0 e) = pstarts_from R t0 e.
Proof. induction e as [|p r IH]; intros t0; [reflexivity|]. rewrite fullf_cons. simpl. rewrite IH. reflexivity. Qed.

Lemma fullf_length e t0 : length (fullf t0 e) = length (pstarts_from R t0 e).
Proof. rewrite <- fullf_times, map_length. reflexivity. Qed.

Lemma pstarts_lb : forall e t0 a, pwf e -> In a (pstarts_from R t0 e) -> (t0 <= a)%Z.
Proof.
  induction e as [|p r IH]; intros t0 a W H; simpl in H; [tauto|].
  inversion W as [|? ? Hp Hr]; subst. destruct H as [H|H]; [lia|].
  specialize (IH _ _ Hr H). lia.
Qed.

Lemma fullf_lb e t0 q : pwf e -> In q (fullf t0 e) -> (t0 <= ptime q)%Z.
Proof.
  intros W H. apply (pstarts_lb e t0 (ptime q) W). rewrite <- fullf_times. apply in_map. exact H.
Qed.

Lemma pstarts_sorted : forall e t0 j k a b, pwf e -> (j <= k)%nat ->
  nth_error (pstarts_from R t0 e) j = Some a -> nth_error (pstarts_from R t0 e) k = Some b -> (a <= b)%Z.
Proof.
  induction e as [|p r IH]; intros t0 j k a b W L Ha Hb.
  - destruct j; discriminate.
  - inversion W as [|? ? Hp Hr]; subst. simpl in Ha, Hb. destruct j as [|j], k as [|k]; simpl in Ha, Hb.
    + inversion Ha; inversion Hb; subst. lia.
    + inversion Ha; subst. apply nth_error_In in Hb. apply pstarts_lb in Hb; [lia|exact Hr].
    + lia.
    + apply (IH (t0 + pd p)%Z j k a b Hr); [lia|exact Ha|exact Hb].
Qed.

Lemma zip_skipn : forall n ts (e : envR), zip_points R (skipn n ts) (skipn n e) = skipn n (zip_points R ts e).
Proof.
  induction n as [|n IH]; intros ts e; [reflexivity|].
  destruct ts as [|t ts], e as [|p e]; simpl; try reflexivity.
  - destruct (skipn n ts); reflexivity.
  - apply IH.
Qed.

Lemma zip_firstn : forall n ts (e : envR), zip_points R (firstn n ts) (firstn n e) = firstn n (zip_points R ts e).
Proof.
  induction n as [|n IH]; intros ts e; [reflexivity|].
  destruct ts as [|t ts], e as [|p e]; simpl; try reflexivity. rewrite IH. reflexivity.
Qed.

Lemma zip_lslice i0 i1 ts (e : envR) :
  zip_points R (lslice i0 i1 ts) (lslice i0 i1 e) = lslice i0 i1 (zip_points R ts e).
Proof. unfold lslice. rewrite zip_firstn, zip_skipn. reflexivity. Qed.

(* ------------------------------------------------------------ point lists that follow a function *)
(* between q0 and q1 the function f is the segment curve from q0's value to q1's value with q0's shape *)
Definition link (f : R -> R) (q0 q1 : pointR) : Prop :=
  (ptime q0 <= ptime q1)%Z /\
  forall x, tofR (ptime q0) < x < tofR (ptime q1) ->
    f x = segR (pval q0) (pval q1) (pshape q0) ((x - tofR (ptime q0)) / (tofR (ptime q1) - tofR (ptime q0))).

Fixpoint good (f : R -> R) (pl : list pointR) : Prop :=
  match pl with
  | [] => True
  | q0 :: r => match r with [] => True | q1 :: _ => link f q0 q1 /\ good f r end
  end.

Lemma good_tail f q r : good f (q :: r) -> good f r.
Proof. destruct r as [|q1 r]; simpl; tauto. Qed.

Lemma good_skipn f : forall n l, good f l -> good f (skipn n l).
Proof.
  induction n as [|n IH]; intros l H; [exact H|]. destruct l as [|q l]; [exact H|].
  simpl. apply IH. eapply good_tail; exact H.
Qed.

Lemma good_firstn f : forall l n, good f l -> good f (firstn n l).
Proof.
  induction l as [|q0 l IH]; intros n H; [destruct n; exact H|].
  destruct n as [|n]; [exact I|]. destruct l as [|q1 l]; [destruct n; exact I|].
  destruct n as [|n]; [exact I|].
  destruct H as [H1 H2]. split; [exact H1|]. exact (IH (S n) H2).
Qed.

Lemma good_app f q : forall l1 l2, good f (l1 ++ [q]) -> good f (q :: l2) -> good f (l1 ++ q :: l2).
Proof.
  induction l1 as [|a l1 IH]; intros l2 H1 H2; [exact H2|].
  destruct l1 as [|b l1].
  - simpl in *. split; [tauto|exact H2].
  - destruct H1 as [H1 H1']. split; [exact H1|]. apply IH; assumption.
Qed.

Lemma good_snoc f l q q' : good f (l ++ [q]) -> link f q q' -> good f ((l ++ [q]) ++ [q']).
Proof.
  intros H L. rewrite <- app_assoc. simpl. apply good_app; [exact H|]. simpl. tauto.
Qed.

Lemma link_change_snd f q0 q1 q1' : ptime q1' = ptime q1 -> pval q1' = pval q1 ->
  link f q0 q1 -> link f q0 q1'.
Proof. intros Ht Hv [L1 L2]. unfold link. rewrite Ht, Hv. split; assumption. Qed.

Lemma good_change_last f q q' : ptime q' = ptime q -> pval q' = pval q ->
  forall l, good f (l ++ [q]) -> good f (l ++ [q']).
Proof.
  intros Ht Hv. induction l as [|a l IH]; intros H; [exact I|].
  destruct l as [|b l].
  - simpl in *. split; [|exact I]. eapply link_change_snd; [exact Ht|exact Hv|tauto].
  - destruct H as [H1 H2]. split; [exact H1|]. apply IH. exact H2.
Qed.

Lemma link_ext f g lo q0 q1 : (forall x, lo < x -> f x = g x) -> lo <= tofR (ptime q0) ->
  link f q0 q1 -> link g q0 q1.
Proof.
  intros E L [H1 H2]. split; [exact H1|]. intros x Hx. rewrite <- E by lra. apply H2. exact Hx.
Qed.

Lemma good_ext f g : forall pl lo, (forall x, tofR lo < x -> f x = g x) ->
  (forall q r, pl = q :: r -> (lo <= ptime q)%Z) -> good f pl -> good g pl.
Proof.
  induction pl as [|q0 pl IH]; intros lo E B H; [exact I|].
  destruct pl as [|q1 pl]; [exact I|]. destruct H as [H1 H2].
  assert (B0 : (lo <= ptime q0)%Z) by (eapply B; reflexivity).
  split.
  - apply (link_ext f g (tofR lo)); [exact E|apply tofR_le; exact B0|exact H1].
  - apply (IH lo); [exact E| |exact H2]. intros q r Hq. inversion Hq; subst. destruct H1 as [H1 _]. lia.
Qed.

(* ------------------------------------------------------------ summing the areas *)
Definition first_is (pl : list pointR) (s : Z) : Prop := exists q r, pl = q :: r /\ ptime q = s.
Definition last_is (pl : list pointR) (en : Z) : Prop := exists l q, pl = l ++ [q] /\ ptime q = en.

Fixpoint lastt (q : pointR) (r : list pointR) : Z :=
  match r with [] => ptime q | q' :: r' => lastt q' r' end.

Lemma lastt_snoc : forall l q r q', q :: r = l ++ [q'] -> lastt q r = ptime q'.
Proof.
  induction l as [|a l IH]; intros q r q' H.
  - inversion H; subst. reflexivity.
  - inversion H; subst. destruct l as [|b l]; simpl; [reflexivity|]. apply (IH b (l ++ [q'])). reflexivity.
Qed.

Lemma ip_cons2 acc t0 v0 c0 t1 v1 c1 r :
  integrate_points R RNum acc ((t0, v0, c0) :: (t1, v1, c1) :: r) =
  integrate_points R RNum (if (t0 <? t1)%Z then acc + seg_area R RNum (tofR (t1 - t0)) v0 v1 c0 else acc)
    ((t1, v1, c1) :: r).
Proof. reflexivity. Qed.

Lemma ip_acc : forall pl acc, integrate_points R RNum acc pl = acc + integrate_points R RNum 0 pl.
Proof.
  induction pl as [|[[t0 v0] c0] pl IH]; intros acc; [simpl; ring|].
  destruct pl as [|[[t1 v1] c1] r]; [simpl; ring|].
  rewrite !ip_cons2. rewrite (IH (if (t0 <? t1)%Z then _ else _)).
  rewrite (IH (if (t0 <? t1)%Z then 0 + _ else 0)).
  destruct (t0 <? t1)%Z; ring.
Qed.

Lemma good_RInt f : forall r q, good f (q :: r) ->
  is_RInt f (tofR (ptime q)) (tofR (lastt q r)) (integrate_points R RNum 0 (q :: r)).
Proof.
  induction r as [|q1 r IH]; intros q H.
  - destruct q as [[t0 v0] c0]. simpl. apply (@is_RInt_point R_NormedModule).
  - destruct q as [[t0 v0] c0], q1 as [[t1 v1] c1]. destruct H as [[L1 L2] H2].
    unfold ptime, pval, pshape in L1, L2; simpl in L1, L2.
    rewrite ip_cons2, ip_acc.
    change (lastt (t0, v0, c0) ((t1, v1, c1) :: r)) with (lastt (t1, v1, c1) r).
    change (ptime (t0, v0, c0)) with t0.
    apply (is_RInt_Chasles f (tofR t0) (tofR t1)); [|exact (IH _ H2)].
    destruct (t0 <? t1)%Z eqn:E.
    + apply Z.ltb_lt in E. apply tofR_lt in E.
      rewrite Rplus_0_l, tofR_minus.
      apply (is_RInt_ext (fun x => segR v0 v1 c0 ((x - tofR t0) / (tofR t1 - tofR t0)))).
      { intros x Hx. rewrite Rmin_left, Rmax_right in Hx by lra. symmetry. apply L2. exact Hx. }
      pose proof (seg_area_correct (tofR t0) (tofR t1 - tofR t0) v0 v1 c0) as S.
      replace (tofR t0 + (tofR t1 - tofR t0)) with (tofR t1) in S by ring. apply S. lra.
    + apply Z.ltb_ge in E. assert (t0 = t1) by lia. subst. apply (@is_RInt_point R_NormedModule).
Qed.

Lemma good_RInt' f pl a b : good f pl -> first_is pl a -> last_is pl b ->
  is_RInt f (tofR a) (tofR b) (integrate_points R RNum 0 pl).
Proof.
  intros G (q & r & E & Ha) (l & q' & E' & Hb). subst pl a b.
  rewrite <- (lastt_snoc l q r q' E'). apply good_RInt. exact G.
Qed.

(* ------------------------------------------------------------ unfolding equations *)
Lemma cs_go_cons t0 (p : ptR) rest t :
  cs_go R RNum t0 (p :: rest) t =
  if (t <? t0 + pd p)%Z then pc p - tofR (t - t0) / tofR (pd p) * pc p
  else cs_go R RNum (t0 + pd p) rest t.
Proof. reflexivity. Qed.

Lemma va_go_cons t0 (p q : ptR) rest t :
  va_go R RNum t0 p (q :: rest) t =
  if (t <? t0 + pd p)%Z then scale R RNum (tofR t) (tofR t0) (tofR (t0 + pd p)) (pv p) (pv q) (pc p)
  else va_go R RNum (t0 + pd p) q rest t.
Proof. reflexivity. Qed.

Lemma curve_go_cons T0 (p q : ptR) rest x :
  curve_go T0 p (q :: rest) x =
  if Rlt_dec x (T0 + tofR (pd p)) then segR (pv p) (pv q) (pc p) ((x - T0) / (T0 + tofR (pd p) - T0))
  else curve_go (T0 + tofR (pd p)) q rest x.
Proof. reflexivity. Qed.

Lemma curve_go_lt t0 (p q : ptR) rest x : x < tofR (t0 + pd p) ->
  curve_go (tofR t0) p (q :: rest) x =
  segR (pv p) (pv q) (pc p) ((x - tofR t0) / (tofR (t0 + pd p) - tofR t0)).
Proof.
  intros H. rewrite curve_go_cons. rewrite tofR_plus in *.
  destruct (Rlt_dec x (tofR t0 + tofR (pd p))); [reflexivity|lra].
Qed.

Lemma curve_go_ge t0 (p q : ptR) rest x : tofR (t0 + pd p) <= x ->
  curve_go (tofR t0) p (q :: rest) x = curve_go (tofR (t0 + pd p)) q rest x.
Proof.
  intros H. rewrite curve_go_cons. rewrite tofR_plus in *.
  destruct (Rlt_dec x (tofR t0 + tofR (pd p))); [lra|reflexivity].
Qed.

(* value and remaining shape of an ad-hoc point inside the segment that starts at t0 *)
Lemma va_go_in t0 (p q : ptR) rest t : (t < t0 + pd p)%Z ->
  va_go R RNum t0 p (q :: rest) t =
  segR (pv p) (pv q) (pc p) ((tofR t - tofR t0) / (tofR (t0 + pd p) - tofR t0)).
Proof.
  intros H. rewrite va_go_cons. apply Z.ltb_lt in H. rewrite H. apply scale_segR.
Qed.

Lemma cs_go_in t0 (p : ptR) rest t : (t0 < t0 + pd p)%Z -> (t < t0 + pd p)%Z ->
  cs_go R RNum t0 (p :: rest) t =
  pc p * (1 - (tofR t - tofR t0) / (tofR (t0 + pd p) - tofR t0)).
Proof.
  intros H0 H. rewrite cs_go_cons. apply Z.ltb_lt in H. rewrite H.
  apply tofR_lt in H0. rewrite tofR_minus. rewrite tofR_plus in *. field. lra.
Qed.

(* the piece between the real times A and B of the segment over [T0, T1] *)
Lemma seg_piece T0 T1 v0 v1 c A B x : T0 <> T1 -> A <> B ->
  segR v0 v1 c ((x - T0) / (T1 - T0)) =
  segR (segR v0 v1 c ((A - T0) / (T1 - T0))) (segR v0 v1 c ((B - T0) / (T1 - T0)))
       (c * (1 - (A - T0) / (T1 - T0)) - c * (1 - (B - T0) / (T1 - T0))) ((x - A) / (B - A)).
Proof.
  intros HT HAB.
  replace (c * (1 - (A - T0) / (T1 - T0)) - c * (1 - (B - T0) / (T1 - T0)))
    with (c * ((B - T0) / (T1 - T0) - (A - T0) / (T1 - T0))) by (field; lra).
  rewrite <- segR_split.
  - f_equal. field. split; lra.
  - intros E. apply HAB.
    assert (E' : (A - T0) / (T1 - T0) * (T1 - T0) = (B - T0) / (T1 - T0) * (T1 - T0)) by (rewrite E; reflexivity).
    unfold Rdiv in E'. rewrite !Rmult_assoc, Rinv_l in E' by lra. lra.
Qed.

(* ------------------------------------------------------------ the control points follow the curve *)
Lemma good_full_go : forall rest p t0, pwf (p :: rest) ->
  good (curve_go (tofR t0) p rest) (fullf t0 (p :: rest)).
Proof.
  induction rest as [|q rest IH]; intros p t0 W; [exact I|].
  inversion W as [|? ? Hp Wr]; subst.
  rewrite fullf_cons. rewrite fullf_cons. split.
  - split; unfold ptime, pval, pshape; simpl; [lia|].
    intros x Hx. apply curve_go_lt. lra.
  - rewrite <- fullf_cons.
    apply (good_ext (curve_go (tofR (t0 + pd p)) q rest) _ _ (t0 + pd p)%Z).
    + intros x Hx. symmetry. apply curve_go_ge. lra.
    + intros q0 r0 E. rewrite fullf_cons in E. inversion E; subst. unfold ptime; simpl. lia.
    + apply IH. exact Wr.
Qed.

Lemma curve_pos (p : ptR) rest x : 0 < x -> curve (p :: rest) x = curve_go (tofR 0) p rest x.
Proof. intros H. rewrite tofR_0. unfold curve. destruct (Rle_dec x 0); [lra|reflexivity]. Qed.

Lemma curve_neg (p : ptR) rest x : x <= 0 -> curve (p :: rest) x = pv p.
Proof. intros H. unfold curve. destruct (Rle_dec x 0); [reflexivity|lra]. Qed.

Lemma good_full (p : ptR) rest : pwf (p :: rest) -> good (curve (p :: rest)) (fullf 0 (p :: rest)).
Proof.
  intros W. apply (good_ext (curve_go (tofR 0) p rest) _ _ 0%Z).
  - intros x Hx. rewrite tofR_0 in Hx. symmetry. apply curve_pos. exact Hx.
  - intros q r E. rewrite fullf_cons in E. inversion E; subst. unfold ptime; simpl. lia.
  - apply good_full_go. exact W.
Qed.

(* ------------------------------------------------------------ ad-hoc points (running start t0) *)
Section AdHocGo.
  Local Notation sts t0 e := (pstarts_from R t0 e).
  Local Notation vaR := (va_go R RNum).
  Local Notation csR := (cs_go R RNum).

  (* towards the next control point *)
  Lemma adhoc_right : forall rest p t0 t, pwf (p :: rest) -> (t0 < t)%Z -> ~ In t (sts t0 (p :: rest)) ->
    match skipn (bisect_left (sts t0 (p :: rest)) t) (fullf t0 (p :: rest)) with
    | q :: _ => link (curve_go (tofR t0) p rest) (t, vaR t0 p rest t, csR t0 (p :: rest) t) q
    | [] => True
    end.
  Proof.
    induction rest as [|q rest IH]; intros p t0 t W L N.
    - simpl. apply Z.ltb_lt in L. rewrite L. exact I.
    - inversion W as [|? ? Hp Wr]; subst.
      change (sts t0 (p :: q :: rest)) with (t0 :: sts (t0 + pd p)%Z (q :: rest)) in *.
      rewrite bisect_left_cons. assert (L' := L). apply Z.ltb_lt in L'. rewrite L'.
      rewrite fullf_cons. change (skipn (S ?n) (?a :: ?l)) with (skipn n l).
      set (t1 := (t0 + pd p)%Z) in *.
      assert (N1 : t <> t1). { intros E. apply N. right. left. symmetry. exact E. }
      assert (N2 : ~ In t (sts t1 (q :: rest))). { intros E. apply N. right. exact E. }
      destruct (Z_lt_le_dec t t1) as [C|C].
      + (* inside the first segment *)
        change (sts t1 (q :: rest)) with (t1 :: sts (t1 + pd q)%Z rest).
        rewrite bisect_left_cons. assert (E : (t1 <? t)%Z = false) by (apply Z.ltb_ge; lia). rewrite E.
        rewrite fullf_cons. simpl skipn.
        split; cbv [ptime pval pshape fst snd]; [lia|].
        intros x Hx.
        assert (T01 : tofR t0 < tofR t1) by (apply tofR_lt; lia).
        assert (T0t : tofR t0 < tofR t) by (apply tofR_lt; lia).
        assert (Tt1 : tofR t < tofR t1) by (apply tofR_lt; lia).
        unfold t1 in *. rewrite curve_go_lt by lra. rewrite va_go_in by lia. rewrite cs_go_in by lia.
        rewrite (seg_piece (tofR t0) (tofR (t0 + pd p)) (pv p) (pv q) (pc p) (tofR t) (tofR (t0 + pd p)) x) by lra.
        replace ((tofR (t0 + pd p) - tofR t0) / (tofR (t0 + pd p) - tofR t0)) with 1 by (field; lra).
        rewrite segR_1. f_equal. ring.
      + assert (C' : (t1 < t)%Z) by lia.
        specialize (IH q t1 t Wr C' N2).
        destruct (skipn (bisect_left (sts t1 (q :: rest)) t) (fullf t1 (q :: rest))) as [|q' r']; [exact I|].
        unfold t1 in *. rewrite va_go_cons, cs_go_cons.
        assert (E : (t <? t0 + pd p)%Z = false) by (apply Z.ltb_ge; lia). rewrite E.
        apply (link_ext (curve_go (tofR (t0 + pd p)) q rest) _ (tofR (t0 + pd p))); [ | |exact IH].
        * intros x Hx. symmetry. apply curve_go_ge. lra.
        * unfold ptime; simpl. apply tofR_le. lia.
  Qed.

  (* from the previous control point: the segment that leads to the ad-hoc point keeps the share
     of the shape before it *)
  Lemma adhoc_left : forall rest p t0 t, pwf (p :: rest) -> (t0 < t)%Z -> ~ In t (sts t0 (p :: rest)) ->
    exists l q, firstn (bisect_left (sts t0 (p :: rest)) t) (fullf t0 (p :: rest)) = l ++ [q] /\
      (t0 <= ptime q)%Z /\
      link (curve_go (tofR t0) p rest)
        (ptime q, pval q, pshape q - csR t0 (p :: rest) t) (t, vaR t0 p rest t, csR t0 (p :: rest) t).
  Proof.
    induction rest as [|q rest IH]; intros p t0 t W L N.
    - exists [], (t0, pv p, pc p). simpl. assert (L' := L). apply Z.ltb_lt in L'. rewrite L'.
      split; [reflexivity|]. split; [unfold ptime; simpl; lia|].
      split; cbv [ptime pval pshape fst snd]; [lia|].
      intros x Hx. rewrite segR_const. reflexivity.
    - inversion W as [|? ? Hp Wr]; subst.
      change (sts t0 (p :: q :: rest)) with (t0 :: sts (t0 + pd p)%Z (q :: rest)) in *.
      rewrite bisect_left_cons. assert (L' := L). apply Z.ltb_lt in L'. rewrite L'.
      rewrite fullf_cons. change (firstn (S ?n) (?a :: ?l)) with (a :: firstn n l).
      set (t1 := (t0 + pd p)%Z) in *.
      assert (N1 : t <> t1). { intros E. apply N. right. left. symmetry. exact E. }
      assert (N2 : ~ In t (sts t1 (q :: rest))). { intros E. apply N. right. exact E. }
      destruct (Z_lt_le_dec t t1) as [C|C].
      + change (sts t1 (q :: rest)) with (t1 :: sts (t1 + pd q)%Z rest).
        rewrite bisect_left_cons. assert (E : (t1 <? t)%Z = false) by (apply Z.ltb_ge; lia). rewrite E.
        exists [], (t0, pv p, pc p). split; [reflexivity|]. split; [unfold ptime; simpl; lia|].
        split; cbv [ptime pval pshape fst snd]; [lia|].
        intros x Hx.
        assert (T01 : tofR t0 < tofR t1) by (apply tofR_lt; lia).
        assert (T0t : tofR t0 < tofR t) by (apply tofR_lt; lia).
        assert (Tt1 : tofR t < tofR t1) by (apply tofR_lt; lia).
        unfold t1 in *. rewrite curve_go_lt by lra. rewrite va_go_in by lia. rewrite cs_go_in by lia.
        rewrite (seg_piece (tofR t0) (tofR (t0 + pd p)) (pv p) (pv q) (pc p) (tofR t0) (tofR t) x) by lra.
        replace ((tofR t0 - tofR t0) / (tofR (t0 + pd p) - tofR t0)) with 0 by (field; lra).
        rewrite segR_0. f_equal. ring.
      + assert (C' : (t1 < t)%Z) by lia.
        destruct (IH q t1 t Wr C' N2) as (l & q' & E1 & E2 & E3).
        exists ((t0, pv p, pc p) :: l), q'. rewrite E1. split; [reflexivity|]. split; [lia|].
        unfold t1 in *. rewrite va_go_cons, cs_go_cons.
        assert (E : (t <? t0 + pd p)%Z = false) by (apply Z.ltb_ge; lia). rewrite E.
        apply (link_ext (curve_go (tofR (t0 + pd p)) q rest) _ (tofR (t0 + pd p))); [ | |exact E3].
        * intros x Hx. symmetry. apply curve_go_ge. lra.
        * apply tofR_le. exact E2.
  Qed.

  (* two ad-hoc points without a control point between them *)
  Lemma adhoc_mid : forall rest p t0 t t', pwf (p :: rest) -> (t0 < t)%Z -> (t < t')%Z ->
    ~ In t (sts t0 (p :: rest)) -> ~ In t' (sts t0 (p :: rest)) ->
    bisect_left (sts t0 (p :: rest)) t = bisect_left (sts t0 (p :: rest)) t' ->
    link (curve_go (tofR t0) p rest)
      (t, vaR t0 p rest t, csR t0 (p :: rest) t - csR t0 (p :: rest) t')
      (t', vaR t0 p rest t', csR t0 (p :: rest) t').
  Proof.
    induction rest as [|q rest IH]; intros p t0 t t' W L L2 N N' B.
    - split; cbv [ptime pval pshape fst snd]; [lia|].
      intros x Hx. rewrite segR_const. reflexivity.
    - inversion W as [|? ? Hp Wr]; subst.
      change (sts t0 (p :: q :: rest)) with (t0 :: sts (t0 + pd p)%Z (q :: rest)) in *.
      rewrite !bisect_left_cons in B.
      assert (L' : (t0 <? t)%Z = true) by (apply Z.ltb_lt; lia).
      assert (L'' : (t0 <? t')%Z = true) by (apply Z.ltb_lt; lia).
      rewrite L', L'' in B. apply eq_add_S in B.
      set (t1 := (t0 + pd p)%Z) in *.
      assert (N1 : t <> t1). { intros E. apply N. right. left. symmetry. exact E. }
      assert (N2 : ~ In t (sts t1 (q :: rest))). { intros E. apply N. right. exact E. }
      assert (N1' : t' <> t1). { intros E. apply N'. right. left. symmetry. exact E. }
      assert (N2' : ~ In t' (sts t1 (q :: rest))). { intros E. apply N'. right. exact E. }
      destruct (Z_lt_le_dec t t1) as [C|C].
      + change (sts t1 (q :: rest)) with (t1 :: sts (t1 + pd q)%Z rest) in B.
        rewrite !bisect_left_cons in B.
        assert (E : (t1 <? t)%Z = false) by (apply Z.ltb_ge; lia). rewrite E in B.
        destruct (t1 <? t')%Z eqn:E'; [discriminate|]. apply Z.ltb_ge in E'.
        split; cbv [ptime pval pshape fst snd]; [lia|].
        intros x Hx.
        assert (T01 : tofR t0 < tofR t1) by (apply tofR_lt; lia).
        assert (T0t : tofR t0 < tofR t) by (apply tofR_lt; lia).
        assert (Ttt : tofR t < tofR t') by (apply tofR_lt; lia).
        assert (Tt1 : tofR t' < tofR t1) by (apply tofR_lt; lia).
        unfold t1 in *. rewrite curve_go_lt by lra. rewrite !va_go_in by lia. rewrite !cs_go_in by lia.
        apply seg_piece; lra.
      + assert (C' : (t1 < t)%Z) by lia.
        specialize (IH q t1 t t' Wr C' L2 N2 N2' B).
        unfold t1 in *. rewrite !va_go_cons, !cs_go_cons.
        assert (E : (t <? t0 + pd p)%Z = false) by (apply Z.ltb_ge; lia).
        assert (E' : (t' <? t0 + pd p)%Z = false) by (apply Z.ltb_ge; lia). rewrite E, E'.
        apply (link_ext (curve_go (tofR (t0 + pd p)) q rest) _ (tofR (t0 + pd p))); [ | |exact IH].
        * intros x Hx. symmetry. apply curve_go_ge. lra.
        * unfold ptime; simpl. apply tofR_le. lia.
  Qed.
End AdHocGo.

(* ------------------------------------------------------------ ad-hoc points of the whole envelope *)
Definition adv (p : ptR) (rest : envR) (t : Z) : R :=
  if (t <=? 0)%Z then pv p else va_go R RNum 0 p rest t.
Definition adc (p : ptR) (rest : envR) (t : Z) : R :=
  if (0 <=? t)%Z then cs_go R RNum 0 (p :: rest) t else 0.
Definition adp (p : ptR) (rest : envR) (t : Z) : pointR := (t, adv p rest t, adc p rest t).

Lemma point_at_adhoc p rest t : index_of t (pstarts R (p :: rest)) = None ->
  point_at R RNum (p :: rest) t = Ok (adp p rest t).
Proof. intros H. unfold point_at. rewrite H. reflexivity. Qed.

Lemma pstarts_head (p : ptR) rest : pstarts R (p :: rest) = 0%Z :: pstarts_from R (0 + pd p) rest.
Proof. reflexivity. Qed.

Lemma not_in_nonzero (p : ptR) rest t : ~ In t (pstarts R (p :: rest)) -> t <> 0%Z.
Proof. intros N E. apply N. rewrite pstarts_head. left. symmetry. exact E. Qed.

Section AdHocTop.
  Variable p : ptR.
  Variable rest : envR.
  Hypothesis W : pwf (p :: rest).
  Let e := p :: rest.
  Let sts := pstarts R e.
  Let F := fullf 0 e.

  Lemma top_right t : ~ In t sts ->
    match skipn (bisect_left sts t) F with q :: _ => link (curve e) (adp p rest t) q | [] => True end.
  Proof.
    intros N. pose proof (not_in_nonzero p rest t N) as N0.
    destruct (Z_lt_le_dec t 0) as [C|C].
    - unfold sts, F, e. rewrite pstarts_head, bisect_left_cons, fullf_cons.
      assert (E : (0 <? t)%Z = false) by (apply Z.ltb_ge; lia). rewrite E. simpl skipn.
      unfold adp, adv, adc.
      assert (E1 : (t <=? 0)%Z = true) by (apply Z.leb_le; lia).
      assert (E2 : (0 <=? t)%Z = false) by (apply Z.leb_gt; lia). rewrite E1, E2.
      split; cbv [ptime pval pshape fst snd]; [lia|].
      intros x Hx. rewrite tofR_0 in Hx. rewrite segR_const. apply curve_neg. lra.
    - assert (C' : (0 < t)%Z) by lia.
      pose proof (adhoc_right rest p 0%Z t W C' N) as H.
      fold e in H. change (pstarts_from R 0 e) with sts in H. fold F in H.
      destruct (skipn (bisect_left sts t) F) as [|q r]; [exact I|].
      unfold adp, adv, adc.
      assert (E1 : (t <=? 0)%Z = false) by (apply Z.leb_gt; lia).
      assert (E2 : (0 <=? t)%Z = true) by (apply Z.leb_le; lia). rewrite E1, E2.
      apply (link_ext (curve_go (tofR 0) p rest) _ 0); [ | |exact H].
      + intros x Hx. symmetry. apply curve_pos. exact Hx.
      + cbv [ptime fst]. rewrite <- tofR_0. apply tofR_le. lia.
  Qed.

  Lemma top_left t : ~ In t sts -> (0 < t)%Z ->
    exists l q, firstn (bisect_left sts t) F = l ++ [q] /\
      link (curve e) (ptime q, pval q, pshape q - adc p rest t) (adp p rest t).
  Proof.
    intros N C.
    destruct (adhoc_left rest p 0%Z t W C N) as (l & q & E1 & E2 & E3).
    exists l, q. split; [exact E1|].
    unfold adp, adv, adc.
    assert (G1 : (t <=? 0)%Z = false) by (apply Z.leb_gt; lia).
    assert (G2 : (0 <=? t)%Z = true) by (apply Z.leb_le; lia). rewrite G1, G2.
    apply (link_ext (curve_go (tofR 0) p rest) _ 0); [ | |exact E3].
    - intros x Hx. symmetry. apply curve_pos. exact Hx.
    - rewrite <- tofR_0. apply tofR_le. exact E2.
  Qed.

  Lemma top_mid t t' : ~ In t sts -> ~ In t' sts -> (t < t')%Z ->
    bisect_left sts t = bisect_left sts t' ->
    link (curve e) (t, adv p rest t, adc p rest t - adc p rest t') (adp p rest t').
  Proof.
    intros N N' L B.
    pose proof (not_in_nonzero p rest t N) as N0. pose proof (not_in_nonzero p rest t' N') as N0'.
    unfold adp, adv, adc.
    destruct (Z_lt_le_dec t 0) as [C|C].
    - destruct (Z_lt_le_dec t' 0) as [C2|C2].
      + assert (E1 : (t <=? 0)%Z = true) by (apply Z.leb_le; lia).
        assert (E2 : (0 <=? t)%Z = false) by (apply Z.leb_gt; lia).
        assert (E1' : (t' <=? 0)%Z = true) by (apply Z.leb_le; lia).
        assert (E2' : (0 <=? t')%Z = false) by (apply Z.leb_gt; lia).
        rewrite E1, E2, E1', E2'.
        split; cbv [ptime pval pshape fst snd]; [lia|].
        intros x Hx. rewrite segR_const. apply curve_neg.
        assert (tofR t' < tofR 0) by (apply tofR_lt; lia). rewrite tofR_0 in *. lra.
      + exfalso. unfold sts, e in B. rewrite pstarts_head, !bisect_left_cons in B.
        assert (E : (0 <? t)%Z = false) by (apply Z.ltb_ge; lia).
        assert (E' : (0 <? t')%Z = true) by (apply Z.ltb_lt; lia).
        rewrite E, E' in B. discriminate.
    - assert (C' : (0 < t)%Z) by lia.
      assert (E1 : (t <=? 0)%Z = false) by (apply Z.leb_gt; lia).
      assert (E2 : (0 <=? t)%Z = true) by (apply Z.leb_le; lia).
      assert (E1' : (t' <=? 0)%Z = false) by (apply Z.leb_gt; lia).
      assert (E2' : (0 <=? t')%Z = true) by (apply Z.leb_le; lia).
      rewrite E1, E2, E1', E2'.
      pose proof (adhoc_mid rest p 0%Z t t' W C' L N N' B) as H.
      apply (link_ext (curve_go (tofR 0) p rest) _ 0); [ | |exact H].
      + intros x Hx. symmetry. apply curve_pos. exact Hx.
      + cbv [ptime fst]. rewrite <- tofR_0. apply tofR_le. lia.
  Qed.
End AdHocTop.

(* ------------------------------------------------------------ time_range_to_point_tuple, explicitly *)
Definition pir_pl (p : ptR) (rest : envR) (s en : Z) : list pointR :=
  let e := p :: rest in
  let sts := pstarts R e in
  let F := fullf 0 e in
  let pl0 := match index_of s sts with Some _ => [] | None => [adp p rest s] end in
  let i0 := match index_of s sts with Some k => k | None => bisect_left sts s end in
  let i1 := match index_of en sts with Some k => S k | None => bisect_left sts en end in
  let pl := pl0 ++ lslice i0 i1 F in
  match index_of en sts with
  | Some _ => pl
  | None => sub_shape_of_last R RNum pl (adc p rest en) ++ [adp p rest en]
  end.

Lemma pir_eq p rest s en : (s <= en)%Z ->
  points_in_range R RNum (p :: rest) s en = Ok (pir_pl p rest s en).
Proof.
  intros L. unfold points_in_range, pir_pl.
  assert (E : (en <? s)%Z = false) by (apply Z.ltb_ge; lia). rewrite E.
  destruct (index_of s (pstarts R (p :: rest))) as [k0|] eqn:E0;
  destruct (index_of en (pstarts R (p :: rest))) as [k1|] eqn:E1;
  rewrite ?(point_at_adhoc p rest s E0), ?(point_at_adhoc p rest en E1);
  cbn [bind]; unfold adp; rewrite zip_lslice; reflexivity.
Qed.

Lemma sub_last_snoc l (q : pointR) c :
  sub_shape_of_last R RNum (l ++ [q]) c = l ++ [(ptime q, pval q, pshape q - c)].
Proof.
  destruct q as [[t v] c0]. unfold sub_shape_of_last. rewrite rev_app_distr. simpl.
  rewrite rev_involutive. reflexivity.
Qed.

Lemma finish_adhoc f l (q : pointR) cen (pen : pointR) s :
  good f (l ++ [q]) -> first_is (l ++ [q]) s -> link f (ptime q, pval q, pshape q - cen) pen ->
  let pl := sub_shape_of_last R RNum (l ++ [q]) cen ++ [pen] in
  good f pl /\ first_is pl s /\ last_is pl (ptime pen).
Proof.
  intros G Fi Lk pl. unfold pl. rewrite sub_last_snoc. split; [|split].
  - apply good_snoc; [|exact Lk]. apply (good_change_last f q); [reflexivity|reflexivity|exact G].
  - destruct Fi as (q0 & r & E & Hq). destruct l as [|a l].
    + inversion E; subst. eexists _, _. split; [reflexivity|]. reflexivity.
    + inversion E; subst. eexists _, _. split; [reflexivity|]. reflexivity.
  - eexists _, _. split; reflexivity.
Qed.

Section Pir.
  Variable p : ptR.
  Variable rest : envR.
  Hypothesis W : pwf (p :: rest).
  Let e := p :: rest.
  Let sts := pstarts R e.
  Let F := fullf 0 e.

  Let sts_F : map ptime F = sts.
  Proof. apply fullf_times. Qed.
  Let len_F : length F = length sts.
  Proof. apply fullf_length. Qed.
  Let good_F : good (curve e) F.
  Proof. apply good_full. exact W. Qed.

  Lemma good_slice i0 i1 : good (curve e) (lslice i0 i1 F).
  Proof. unfold lslice. apply good_firstn, good_skipn, good_F. Qed.

  (* the start of the list *)
  Lemma start_ok s i1 :
    let pl0 := match index_of s sts with Some _ => [] | None => [adp p rest s] end in
    let i0 := match index_of s sts with Some k => k | None => bisect_left sts s end in
    (i0 < i1)%nat -> (i1 <= length F)%nat ->
    good (curve e) (pl0 ++ lslice i0 i1 F) /\ first_is (pl0 ++ lslice i0 i1 F) s.
  Proof.
    intros pl0 i0 L1 L2. unfold pl0, i0 in *. clear pl0 i0.
    destruct (index_of s sts) as [k0|] eqn:E0.
    - apply index_of_some in E0. rewrite <- sts_F in E0.
      destruct (nth_map_inv _ _ _ _ E0) as (q0 & Hq & Ht).
      destruct (split_nth _ _ _ Hq) as [_ Hs].
      destruct (slice_first F k0 i1 q0 _ Hs L1) as [r Hr].
      simpl app. split; [apply good_slice|]. rewrite Hr. exists q0, r. split; [reflexivity|exact Ht].
    - apply index_of_none in E0.
      pose proof (top_right p rest W s E0) as TR. fold e in TR. fold sts in TR. fold F in TR.
      destruct (nth_error F (bisect_left sts s)) as [q0|] eqn:Hq.
      2:{ apply nth_error_None in Hq. lia. }
      destruct (split_nth _ _ _ Hq) as [_ Hs]. rewrite Hs in TR.
      destruct (slice_first F _ i1 q0 _ Hs L1) as [r Hr].
      pose proof (good_slice (bisect_left sts s) i1) as G. rewrite Hr in *.
      split.
      + simpl. split; [exact TR|exact G].
      + exists (adp p rest s), (q0 :: r). split; reflexivity.
  Qed.

  Lemma sts_nonneg k a : nth_error sts k = Some a -> (0 <= a)%Z.
  Proof. intros H. apply nth_error_In in H. apply (pstarts_lb e 0 a W H). Qed.

  Lemma pir_spec s en : (s < en)%Z ->
    let pl := pir_pl p rest s en in
    good (curve e) pl /\ first_is pl s /\ last_is pl en.
  Proof.
    intros L pl. unfold pl, pir_pl. clear pl. fold e. fold sts. fold F.
    destruct (index_of en sts) as [k1|] eqn:E1.
    - (* the end is a control point *)
      assert (E1' := E1). apply index_of_some in E1'.
      assert (K1 : (S k1 <= length F)%nat) by (rewrite len_F; apply nth_lt_length in E1'; lia).
      assert (I0 : (match index_of s sts with Some k => k | None => bisect_left sts s end < S k1)%nat).
      { destruct (index_of s sts) as [k0|] eqn:E0.
        - apply index_of_some in E0. destruct (le_lt_dec k0 k1) as [C|C]; [lia|].
          assert (k1 <= k0)%nat by lia.
          pose proof (pstarts_sorted e 0 k1 k0 en s W H E1' E0). lia.
        - destruct (le_lt_dec (bisect_left sts s) k1) as [C|C]; [lia|].
          pose proof (bl_prefix sts s k1 en C E1'). lia. }
      destruct (start_ok s (S k1) I0 K1) as [G Fi]. split; [exact G|]. split; [exact Fi|].
      rewrite <- sts_F in E1'. destruct (nth_map_inv _ _ _ _ E1') as (q1 & Hq & Ht).
      destruct (split_nth _ _ _ Hq) as [Hf _].
      rewrite (slice_last F _ (S k1) (firstn k1 F) q1 Hf).
      2:{ rewrite firstn_length_le by lia. lia. }
      rewrite app_assoc. eexists _, q1. split; [reflexivity|exact Ht].
    - (* ad-hoc end point *)
      apply index_of_none in E1.
      set (pl0 := match index_of s sts with Some _ => [] | None => [adp p rest s] end).
      set (i0 := match index_of s sts with Some k => k | None => bisect_left sts s end).
      set (i1 := bisect_left sts en).
      assert (K1 : (i1 <= length F)%nat) by (rewrite len_F; apply bl_le_len).
      assert (I0 : (i0 < i1)%nat \/ (i0 = i1 /\ index_of s sts = None)).
      { unfold i0, i1. destruct (index_of s sts) as [k0|] eqn:E0.
        - left. apply index_of_some in E0. apply bl_gt; [eapply nth_lt_length; exact E0|].
          intros j a Hj Ha. pose proof (pstarts_sorted e 0 j k0 a s W Hj Ha E0). lia.
        - pose proof (bl_mono sts s en ltac:(lia)) as M.
          destruct (le_lt_eq_dec _ _ M) as [C|C]; [left; exact C|right; split; [exact C|reflexivity]]. }
      destruct I0 as [I0|[I0 E0]].
      + assert (P : (0 < en)%Z).
        { pose proof (not_in_nonzero p rest en E1). destruct (Z_lt_le_dec en 0) as [C|C]; [|lia].
          exfalso. unfold i1, sts, e in I0. rewrite pstarts_head, bisect_left_cons in I0.
          assert (E : (0 <? en)%Z = false) by (apply Z.ltb_ge; lia). rewrite E in I0. lia. }
        destruct (top_left p rest W en E1 P) as (l & q & Hf & Lk).
        fold e in Hf, Lk. fold sts in Hf. fold F in Hf. fold i1 in Hf.
        assert (Ll : S (length l) = i1).
        { rewrite <- (firstn_length_le F K1), Hf, app_length. simpl. lia. }
        destruct (start_ok s i1 I0 K1) as [G Fi]. fold pl0 in G, Fi. fold i0 in G, Fi.
        rewrite (slice_last F i0 i1 l q Hf) in * by lia.
        rewrite app_assoc in *.
        apply (finish_adhoc (curve e) _ q (adc p rest en) (adp p rest en) s G Fi Lk).
      + unfold pl0. rewrite E0. rewrite I0. unfold lslice. rewrite Nat.sub_diag. simpl firstn.
        change ([adp p rest s] ++ []) with ([] ++ [adp p rest s]).
        apply (finish_adhoc (curve e) [] (adp p rest s) (adc p rest en) (adp p rest en) s).
        * exact I.
        * exists (adp p rest s), []. split; reflexivity.
        * unfold i0 in I0. rewrite E0 in I0. apply index_of_none in E0.
          apply (top_mid p rest W s en E0 E1 L). exact I0.
  Qed.
End Pir.

(* ------------------------------------------------------------ the theorem *)
Theorem integrate_is_RInt : forall (e : envR) s en I, e <> [] -> pwf e -> (s <= en)%Z ->
  integrate R RNum e s en = Ok I -> is_RInt (curve e) (tofR s) (tofR en) I.
Proof.
  intros e s en I Ne W L H. destruct e as [|p rest]; [contradiction|].
  unfold integrate in H. destruct (s =? en)%Z eqn:E.
  - apply Z.eqb_eq in E. subst en. inversion H; subst. apply (@is_RInt_point R_NormedModule).
  - apply Z.eqb_neq in E. rewrite pir_eq in H by exact L. cbn [bind] in H. inversion H; subst.
    destruct (pir_spec p rest W s en ltac:(lia)) as (G & Fi & La).
    apply good_RInt'; assumption.
Qed.

Print Assumptions integrate_is_RInt.

(* ------------------------------------------------------------ corollaries *)
Theorem integrate_same (e : envR) s : integrate R RNum e s s = Ok 0.
Proof. unfold integrate. rewrite Z.eqb_refl. reflexivity. Qed.

Theorem integrate_total (e : envR) s en : e <> [] -> (s <= en)%Z ->
  exists I, integrate R RNum e s en = Ok I.
Proof.
  intros Ne L. destruct e as [|p rest]; [contradiction|]. unfold integrate.
  destruct (s =? en)%Z; [eexists; reflexivity|]. rewrite pir_eq by exact L. eexists; reflexivity.
Qed.

Lemma integrate_nil s en I : integrate R RNum [] s en = Ok I -> s = en /\ I = 0.
Proof.
  unfold integrate. destruct (s =? en)%Z eqn:E.
  - intros H. inversion H. split; [apply Z.eqb_eq; exact E|reflexivity].
  - unfold points_in_range. destruct (en <? s)%Z; simpl; discriminate.
Qed.

Theorem integrate_additive (e : envR) s m en I1 I2 I : pwf e -> (s <= m <= en)%Z ->
  integrate R RNum e s m = Ok I1 -> integrate R RNum e m en = Ok I2 -> integrate R RNum e s en = Ok I ->
  I = I1 + I2.
Proof.
  intros W [L1 L2] H1 H2 H.
  destruct e as [|p0 rest0].
  { apply integrate_nil in H1, H2, H. destruct H1, H2, H. subst. lra. }
  assert (Ne : p0 :: rest0 <> []) by discriminate.
  apply integrate_is_RInt in H1; [|assumption|assumption|lia].
  apply integrate_is_RInt in H2; [|assumption|assumption|lia].
  apply integrate_is_RInt in H; [|assumption|assumption|lia].
  pose proof (is_RInt_Chasles _ _ _ _ _ _ H1 H2) as H12.
  pose proof (@is_RInt_unique R_CompleteNormedModule _ _ _ _ H) as U.
  pose proof (@is_RInt_unique R_CompleteNormedModule _ _ _ _ H12) as U12.
  rewrite U in U12. exact U12.
Qed.

(* smallest and largest control value *)
Definition vmin (e : envR) : R :=
  match e with [] => 0 | p :: r => fold_right (fun q m => Rmin (pv q) m) (pv p) r end.
Definition vmax (e : envR) : R :=
  match e with [] => 0 | p :: r => fold_right (fun q m => Rmax (pv q) m) (pv p) r end.

Lemma fold_min_le : forall (r : envR) b,
  fold_right (fun q m => Rmin (pv q) m) b r <= b /\
  forall q, In q r -> fold_right (fun q m => Rmin (pv q) m) b r <= pv q.
Proof.
  induction r as [|a r IH]; intros b; simpl; [split; [lra|tauto]|].
  destruct (IH b) as [H1 H2]. split.
  - eapply Rle_trans; [apply Rmin_r|exact H1].
  - intros q [E|E]; [subst; apply Rmin_l|]. eapply Rle_trans; [apply Rmin_r|exact (H2 q E)].
Qed.

Lemma fold_max_ge : forall (r : envR) b,
  b <= fold_right (fun q m => Rmax (pv q) m) b r /\
  forall q, In q r -> pv q <= fold_right (fun q m => Rmax (pv q) m) b r.
Proof.
  induction r as [|a r IH]; intros b; simpl; [split; [lra|tauto]|].
  destruct (IH b) as [H1 H2]. split.
  - eapply Rle_trans; [exact H1|apply Rmax_r].
  - intros q [E|E]; [subst; apply Rmax_l|]. eapply Rle_trans; [exact (H2 q E)|apply Rmax_r].
Qed.

Lemma vmin_vmax_spec (e : envR) q : In q e -> vmin e <= pv q <= vmax e.
Proof.
  destruct e as [|p r]; [intros []|]. intros [E|E]; unfold vmin, vmax.
  - subst. split; [exact (proj1 (fold_min_le r (pv q)))|exact (proj1 (fold_max_ge r (pv q)))].
  - split; [exact (proj2 (fold_min_le r (pv p)) q E)|exact (proj2 (fold_max_ge r (pv p)) q E)].
Qed.

Lemma curve_go_range lo hi : forall rest p T0 x,
  (forall q, In q (p :: rest) -> lo <= pv q <= hi) -> T0 <= x ->
  lo <= curve_go T0 p rest x <= hi.
Proof.
  induction rest as [|q rest IH]; intros p T0 x B L.
  - simpl. apply B. left. reflexivity.
  - rewrite curve_go_cons. destruct (Rlt_dec x (T0 + tofR (pd p))) as [C|C].
    + assert (Hp : lo <= pv p <= hi) by (apply B; left; reflexivity).
      assert (Hq : lo <= pv q <= hi) by (apply B; right; left; reflexivity).
      set (den := T0 + tofR (pd p) - T0). assert (Hd : 0 < den) by (unfold den; lra).
      assert (Hr : 0 <= (x - T0) / den <= 1).
      { split; [apply Rdiv_le_0_compat; lra|].
        apply (Rmult_le_reg_r den); [lra|]. unfold Rdiv. rewrite Rmult_assoc, Rinv_l; unfold den; lra. }
      pose proof (segR_between (pv p) (pv q) (pc p) _ Hr) as [S1 S2].
      split.
      * eapply Rle_trans; [|exact S1]. apply Rmin_glb; tauto.
      * eapply Rle_trans; [exact S2|]. apply Rmax_lub; tauto.
    + apply IH; [|lra]. intros q' Hq'. apply B. right. exact Hq'.
Qed.

Lemma curve_range (e : envR) x : e <> [] -> vmin e <= curve e x <= vmax e.
Proof.
  intros Ne. destruct e as [|p rest]; [contradiction|].
  unfold curve. destruct (Rle_dec x 0) as [C|C].
  - apply vmin_vmax_spec. left. reflexivity.
  - apply curve_go_range; [|lra]. intros q Hq. apply vmin_vmax_spec. exact Hq.
Qed.

Theorem integrate_bounds (e : envR) s en I : e <> [] -> pwf e -> (s <= en)%Z ->
  integrate R RNum e s en = Ok I ->
  (tofR en - tofR s) * vmin e <= I <= (tofR en - tofR s) * vmax e.
Proof.
  intros Ne W L H. apply integrate_is_RInt in H; [|assumption|assumption|assumption].
  pose proof (tofR_le s en L) as Lr.
  pose proof (@is_RInt_const R_NormedModule (tofR s) (tofR en) (vmin e)) as Hmin.
  pose proof (@is_RInt_const R_NormedModule (tofR s) (tofR en) (vmax e)) as Hmax.
  split.
  - apply (is_RInt_le _ _ _ _ _ _ Lr Hmin H). intros x _. apply curve_range. exact Ne.
  - apply (is_RInt_le _ _ _ _ _ _ Lr H Hmax). intros x _. apply curve_range. exact Ne.
Qed.

Theorem average_spec (e : envR) s en A I : (s < en)%Z ->
  average R RNum e s en = Ok A -> integrate R RNum e s en = Ok I -> A = I / (tofR en - tofR s).
Proof.
  intros L HA HI. unfold average in HA.
  assert (E : (en - s =? 0)%Z = false) by (apply Z.eqb_neq; lia). rewrite E, HI in HA.
  cbn [bind] in HA. inversion HA. rewrite <- tofR_minus. reflexivity.
Qed.

(* the average value over a proper interval is the mean of the curve and lies between the
   smallest and the largest control value *)
Corollary average_is_mean (e : envR) s en A : e <> [] -> pwf e -> (s < en)%Z ->
  average R RNum e s en = Ok A ->
  is_RInt (curve e) (tofR s) (tofR en) (A * (tofR en - tofR s)) /\ vmin e <= A <= vmax e.
Proof.
  intros Ne W L HA.
  destruct (integrate_total e s en Ne ltac:(lia)) as [I HI].
  pose proof (average_spec e s en A I L HA HI) as EA.
  pose proof (tofR_lt s en L) as Lr.
  pose proof (integrate_bounds e s en I Ne W ltac:(lia) HI) as [B1 B2].
  assert (EI : A * (tofR en - tofR s) = I) by (rewrite EA; field; lra).
  split.
  - rewrite EI. apply integrate_is_RInt; [assumption|assumption|lia|assumption].
  - rewrite <- EI in B1, B2. split; apply (Rmult_le_reg_r (tofR en - tofR s)); lra.
Qed.

(* the hypotheses are satisfiable; both interval ends lie strictly inside segments (the first one
   curved), the envelope contains a zero-length event (a jump) *)
Example integral_example :
  let e : envR := [mkPt 10000000000%Z 0 1; mkPt 0%Z 2 0; mkPt 20000000000%Z 3 (-2); mkPt 0%Z 1 0] in
  e <> [] /\ pwf e /\
  exists I, integrate R RNum e 5000000000%Z 25000000000%Z = Ok I /\
            is_RInt (curve e) (tofR 5000000000) (tofR 25000000000) I /\
            (tofR 25000000000 - tofR 5000000000) * 0 <= I <= (tofR 25000000000 - tofR 5000000000) * 3.
Proof.
  intros e.
  assert (Ne : e <> []) by discriminate.
  assert (W : pwf e) by (unfold e, pwf; repeat (apply Forall_cons; [simpl; lia|]); apply Forall_nil).
  split; [exact Ne|]. split; [exact W|].
  destruct (integrate_total e 5000000000%Z 25000000000%Z Ne ltac:(lia)) as [I HI].
  exists I. split; [exact HI|]. split.
  - apply integrate_is_RInt; [exact Ne|exact W|lia|exact HI].
  - pose proof (integrate_bounds e 5000000000%Z 25000000000%Z I Ne W ltac:(lia) HI) as B.
    assert (Emin : vmin e = 0).
    { unfold e, vmin. simpl. unfold Rmin. repeat (destruct (Rle_dec _ _); try lra). }
    assert (Emax : vmax e = 3).
    { unfold e, vmax. simpl. unfold Rmax. repeat (destruct (Rle_dec _ _); try lra). }
    rewrite Emin, Emax in B. exact B.
Qed.

Print Assumptions integrate_additive.
Print Assumptions integrate_bounds.
Print Assumptions average_is_mean.
Print Assumptions integrate_total.
