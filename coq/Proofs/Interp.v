(* Envelope interpolation over the reals: the executable model computes the documented real-time
   curve (A), facts about the segment curve (B) and about the curve of an envelope (C: clamping,
   segments, values at control points, bounds, continuity away from doubled points), the round trip
   of the point constructor over any number type (D), a concrete instance (E). *)
From Coquelicot Require Import Coquelicot.
From Coq Require Import ZArith List Bool Reals Lra Lia.
From MV Require Import Base.Res Model.EventTree Model.TreeOps Model.Num Model.Envelope Proofs.RNum.
Import ListNotations.
Local Open Scope R_scope.

(* ================================================================ A. value_at computes the curve *)

Lemma scale_segR x a b v0 v1 c :
  scale R RNum x a b v0 v1 c = segR v0 v1 c ((x - a) / (b - a)).
Proof.
  unfold scale, segR. cbn [neqb nadd nsub nmul ndiv nexp n0 n1 RNum].
  destruct (Req_EM_T c 0); ring.
Qed.

Lemma va_go_curve : forall rest p t0 t,
  va_go R RNum t0 p rest t = curve_go (tofR t0) p rest (tofR t).
Proof.
  induction rest as [|q rest IH]; intros p t0 t; [reflexivity|].
  cbn [va_go curve_go].
  destruct (Z.ltb_spec t (t0 + pd p)) as [L|L];
    destruct (Rlt_dec (tofR t) (tofR t0 + tofR (pd p))) as [L'|L'].
  - rewrite scale_segR. rewrite !tof_RNum, tofR_plus. reflexivity.
  - exfalso; apply L'. rewrite <- tofR_plus. apply tofR_lt; exact L.
  - exfalso. rewrite <- tofR_plus in L'. apply tofR_lt_inv in L'. lia.
  - rewrite IH, tofR_plus. reflexivity.
Qed.

Theorem value_at_curve : forall (e : envR) t, e <> [] ->
  value_at R RNum e t = Ok (curve e (tofR t)).
Proof.
  intros [|p rest] t H; [congruence|]. unfold value_at, curve. f_equal.
  destruct (Z.leb_spec t 0) as [L|L]; destruct (Rle_dec (tofR t) 0) as [L'|L'].
  - reflexivity.
  - exfalso; apply L'. rewrite <- tofR_0. apply tofR_le; exact L.
  - exfalso. rewrite <- tofR_0 in L'. apply tofR_le_inv in L'. lia.
  - rewrite va_go_curve, tofR_0. reflexivity.
Qed.

(* ================================================================ B. the segment curve *)

Lemma exp_m1_pos c : 0 < c -> 0 < exp c - 1.
Proof. intros H. generalize (exp_increasing 0 c H). rewrite exp_0. lra. Qed.
Lemma exp_m1_neg c : c < 0 -> exp c - 1 < 0.
Proof. intros H. generalize (exp_increasing c 0 H). rewrite exp_0. lra. Qed.
Lemma exp_m1_nz c : c <> 0 -> exp c - 1 <> 0.
Proof.
  intros Hc. destruct (Rlt_dec 0 c) as [H|H].
  - generalize (exp_m1_pos c H); lra.
  - assert (H' : c < 0) by lra. generalize (exp_m1_neg c H'); lra.
Qed.
Lemma exp_le a b : a <= b -> exp a <= exp b.
Proof. intros [H|H]; [left; apply exp_increasing; exact H|rewrite H; lra]. Qed.

Lemma segR_0 v0 v1 c : segR v0 v1 c 0 = v0.
Proof.
  unfold segR. destruct (Req_EM_T c 0); [ring|]. rewrite Rmult_0_r, exp_0. ring.
Qed.

Lemma segR_1 v0 v1 c : segR v0 v1 c 1 = v1.
Proof.
  unfold segR. destruct (Req_EM_T c 0) as [|Hc]; [ring|]. rewrite Rmult_1_r.
  field. apply exp_m1_nz; exact Hc.
Qed.

(* the curved segment as an affine function of the eased ratio *)
Lemma segR_ratio v0 v1 c p : c <> 0 ->
  segR v0 v1 c p = v0 + (v1 - v0) * ((exp (c * p) - 1) / (exp c - 1)).
Proof.
  intros Hc. unfold segR. destruct (Req_EM_T c 0); [contradiction|].
  field. apply exp_m1_nz; exact Hc.
Qed.

Lemma ratio_mono c p1 p2 : c <> 0 -> p1 <= p2 ->
  (exp (c * p1) - 1) / (exp c - 1) <= (exp (c * p2) - 1) / (exp c - 1).
Proof.
  intros Hc Hp. destruct (Rlt_dec 0 c) as [Hpos|Hneg].
  - pose proof (exp_m1_pos c Hpos) as He.
    assert (exp (c * p1) <= exp (c * p2)) by (apply exp_le; nra).
    unfold Rdiv. apply Rmult_le_compat_r; [left; apply Rinv_0_lt_compat; exact He|lra].
  - assert (Hc' : c < 0) by lra. pose proof (exp_m1_neg c Hc') as He.
    assert (exp (c * p2) <= exp (c * p1)) by (apply exp_le; nra).
    replace ((exp (c * p1) - 1) / (exp c - 1)) with ((1 - exp (c * p1)) / (1 - exp c)) by (field; lra).
    replace ((exp (c * p2) - 1) / (exp c - 1)) with ((1 - exp (c * p2)) / (1 - exp c)) by (field; lra).
    unfold Rdiv. apply Rmult_le_compat_r; [left; apply Rinv_0_lt_compat; lra|lra].
Qed.

Lemma ratio_bounds c p : c <> 0 -> 0 <= p <= 1 ->
  0 <= (exp (c * p) - 1) / (exp c - 1) <= 1.
Proof.
  intros Hc [H0 H1]. pose proof (exp_m1_nz c Hc) as He. split.
  - replace 0 with ((exp (c * 0) - 1) / (exp c - 1)).
    + apply ratio_mono; assumption.
    + rewrite Rmult_0_r, exp_0. unfold Rdiv. ring.
  - apply Rle_trans with ((exp (c * 1) - 1) / (exp c - 1)).
    + apply ratio_mono; assumption.
    + rewrite Rmult_1_r. right. field. exact He.
Qed.

Theorem segR_between v0 v1 c p : 0 <= p <= 1 ->
  Rmin v0 v1 <= segR v0 v1 c p <= Rmax v0 v1.
Proof.
  intros Hp. destruct (Req_EM_T c 0) as [Hc|Hc].
  - unfold segR. destruct (Req_EM_T c 0); [|contradiction].
    unfold Rmin, Rmax; destruct (Rle_dec v0 v1); nra.
  - rewrite segR_ratio by exact Hc.
    pose proof (ratio_bounds c p Hc Hp) as [H0 H1].
    set (r := (exp (c * p) - 1) / (exp c - 1)) in *.
    unfold Rmin, Rmax; destruct (Rle_dec v0 v1); nra.
Qed.

Theorem segR_monotone_up v0 v1 c p1 p2 : v0 <= v1 -> 0 <= p1 <= p2 -> p2 <= 1 ->
  segR v0 v1 c p1 <= segR v0 v1 c p2.
Proof.
  intros Hv [_ Hp] _. destruct (Req_EM_T c 0) as [Hc|Hc].
  - unfold segR. destruct (Req_EM_T c 0); [|contradiction]. nra.
  - rewrite !segR_ratio by exact Hc. pose proof (ratio_mono c p1 p2 Hc Hp) as Hr.
    set (r1 := (exp (c * p1) - 1) / (exp c - 1)) in *.
    set (r2 := (exp (c * p2) - 1) / (exp c - 1)) in *. nra.
Qed.

Theorem segR_monotone_down v0 v1 c p1 p2 : v1 <= v0 -> 0 <= p1 <= p2 -> p2 <= 1 ->
  segR v0 v1 c p1 >= segR v0 v1 c p2.
Proof.
  intros Hv [_ Hp] _. apply Rle_ge. destruct (Req_EM_T c 0) as [Hc|Hc].
  - unfold segR. destruct (Req_EM_T c 0); [|contradiction]. nra.
  - rewrite !segR_ratio by exact Hc. pose proof (ratio_mono c p1 p2 Hc Hp) as Hr.
    set (r1 := (exp (c * p1) - 1) / (exp c - 1)) in *.
    set (r2 := (exp (c * p2) - 1) / (exp c - 1)) in *. nra.
Qed.

Theorem segR_continuous : forall v0 v1 c p, continuous (segR v0 v1 c) p.
Proof.
  intros v0 v1 c p. unfold segR. destruct (Req_EM_T c 0).
  - apply (ex_derive_continuous (fun p => v0 + (v1 - v0) * p)). auto_derive. trivial.
  - set (k := (v1 - v0) / (exp c - 1)).
    apply (ex_derive_continuous (fun p => v0 + k * (exp (c * p) - 1))). auto_derive. trivial.
Qed.

(* ================================================================ C. the curve of an envelope *)

(* start time (in beats) of the point that follows the prefix `front` *)
Definition startR (front : envR) : R := tofR (pdur R front).

Lemma startR_nil : startR [] = 0.
Proof. unfold startR. cbn [pdur]. apply tofR_0. Qed.
Lemma startR_cons p r : startR (p :: r) = tofR (pd p) + startR r.
Proof. unfold startR. cbn [pdur]. apply tofR_plus. Qed.
Lemma startR_app a b : startR (a ++ b) = startR a + startR b.
Proof.
  induction a as [|p a IH]; cbn [app].
  - rewrite startR_nil. ring.
  - rewrite !startR_cons, IH. ring.
Qed.
Lemma tofR_nonneg z : (0 <= z)%Z -> 0 <= tofR z.
Proof. intros H. rewrite <- tofR_0. apply tofR_le; exact H. Qed.
Lemma tofR_pos z : (0 < z)%Z -> 0 < tofR z.
Proof. intros H. rewrite <- tofR_0. apply tofR_lt; exact H. Qed.
Lemma tofR_eq0 z : tofR z = 0 -> z = 0%Z.
Proof.
  intros H. rewrite <- tofR_0 in H.
  assert (z <= 0)%Z by (apply tofR_le_inv; lra).
  assert (0 <= z)%Z by (apply tofR_le_inv; lra). lia.
Qed.
Lemma pwf_app a b : pwf (a ++ b) -> pwf a /\ pwf b.
Proof. unfold pwf. intros H. apply Forall_app in H. exact H. Qed.
Lemma pwf_cons p r : pwf (p :: r) -> (0 <= pd p)%Z /\ pwf r.
Proof. unfold pwf. intros H. inversion H; subst. split; assumption. Qed.
Lemma startR_nonneg front : pwf front -> 0 <= startR front.
Proof.
  induction front as [|p r IH]; intros W.
  - rewrite startR_nil. lra.
  - apply pwf_cons in W as [Hp Wr]. rewrite startR_cons.
    pose proof (tofR_nonneg _ Hp). specialize (IH Wr). lra.
Qed.

(* skipping a prefix whose total duration is <= x *)
Lemma curve_go_skip : forall fr f t0 p back x, pwf (f :: fr) -> t0 + startR (f :: fr) <= x ->
  curve_go t0 f (fr ++ p :: back) x = curve_go (t0 + startR (f :: fr)) p back x.
Proof.
  induction fr as [|g fr IH]; intros f t0 p back x W Hx.
  - rewrite startR_cons, startR_nil in *. cbn [app curve_go].
    destruct (Rlt_dec x (t0 + tofR (pd f))); [lra|].
    replace (t0 + (tofR (pd f) + 0)) with (t0 + tofR (pd f)) by ring. reflexivity.
  - apply pwf_cons in W as [Hf W]. pose proof (tofR_nonneg _ Hf) as Hf'.
    pose proof (startR_nonneg _ W) as Hs. rewrite (startR_cons f) in *.
    cbn [app curve_go].
    destruct (Rlt_dec x (t0 + tofR (pd f))); [lra|].
    rewrite IH; [|exact W|lra].
    replace (t0 + tofR (pd f) + startR (g :: fr)) with (t0 + (tofR (pd f) + startR (g :: fr))) by ring.
    reflexivity.
Qed.

Lemma curve_skip front p back x : pwf front -> 0 < x -> startR front <= x ->
  curve (front ++ p :: back) x = curve_go (startR front) p back x.
Proof.
  intros W Hx Hs. destruct front as [|f fr]; cbn [app curve]; (destruct (Rle_dec x 0); [lra|]).
  - rewrite startR_nil. reflexivity.
  - rewrite curve_go_skip; [|exact W|lra]. rewrite Rplus_0_l. reflexivity.
Qed.

Lemma curve_go_at_start rest p t0 : (rest = [] \/ (0 < pd p)%Z) -> curve_go t0 p rest t0 = pv p.
Proof.
  intros H. destruct rest as [|q rest]; [reflexivity|].
  destruct H as [H|H]; [discriminate|]. apply tofR_pos in H. cbn [curve_go].
  destruct (Rlt_dec t0 (t0 + tofR (pd p))); [|lra].
  replace ((t0 - t0) / (t0 + tofR (pd p) - t0)) with 0 by (unfold Rdiv; ring).
  apply segR_0.
Qed.

(* C1 *)
Theorem curve_clamped_left : forall (p : ptR) r x, x <= 0 -> curve (p :: r) x = pv p.
Proof. intros p r x H. cbn [curve]. destruct (Rle_dec x 0); [reflexivity|lra]. Qed.

(* C2 *)
Theorem curve_clamped_right : forall front (l : ptR) x, pwf (front ++ [l]) -> 0 < x ->
  startR front <= x -> curve (front ++ [l]) x = pv l.
Proof.
  intros front l x W Hx Hs. apply pwf_app in W as [W _].
  rewrite curve_skip by assumption. reflexivity.
Qed.

(* C3 *)
Theorem curve_segment : forall front (p q : ptR) back x, pwf (front ++ p :: q :: back) ->
  (0 < pd p)%Z -> 0 < x -> startR front <= x < startR front + tofR (pd p) ->
  curve (front ++ p :: q :: back) x
  = segR (pv p) (pv q) (pc p) ((x - startR front) / tofR (pd p)).
Proof.
  intros front p q back x W Hp Hx [Hs He]. apply pwf_app in W as [W _].
  rewrite curve_skip by assumption. cbn [curve_go].
  destruct (Rlt_dec x (startR front + tofR (pd p))); [|lra].
  replace (startR front + tofR (pd p) - startR front) with (tofR (pd p)) by ring.
  reflexivity.
Qed.

(* C4 *)
Theorem curve_at_point : forall front (p : ptR) back, pwf (front ++ p :: back) -> 0 < startR front ->
  (back = [] \/ (0 < pd p)%Z) -> curve (front ++ p :: back) (startR front) = pv p.
Proof.
  intros front p back W Hs H. apply pwf_app in W as [W _].
  rewrite curve_skip; [|exact W|exact Hs|lra]. apply curve_go_at_start; exact H.
Qed.

Theorem curve_at_first : forall (p : ptR) r, curve (p :: r) 0 = pv p.
Proof. intros p r. apply curve_clamped_left. lra. Qed.

(* C5 *)
Lemma frac_bounds a d x : a <= x < a + d -> 0 <= (x - a) / d <= 1.
Proof.
  intros [H0 H1]. assert (Hd : 0 < d) by lra. split.
  - unfold Rdiv. apply Rmult_le_pos; [lra|left; apply Rinv_0_lt_compat; exact Hd].
  - apply (Rmult_le_reg_r d); [exact Hd|]. unfold Rdiv. rewrite Rmult_assoc, Rinv_l; lra.
Qed.

Theorem curve_between : forall front (p q : ptR) back x, pwf (front ++ p :: q :: back) ->
  (0 < pd p)%Z -> 0 < x -> startR front <= x < startR front + tofR (pd p) ->
  Rmin (pv p) (pv q) <= curve (front ++ p :: q :: back) x <= Rmax (pv p) (pv q).
Proof.
  intros front p q back x W Hp Hx Hs. rewrite curve_segment by assumption.
  apply segR_between. apply frac_bounds. exact Hs.
Qed.

Definition vmin (e : envR) : R :=
  match e with [] => 0 | p :: r => fold_right (fun (q : ptR) m => Rmin (pv q) m) (pv p) r end.
Definition vmax (e : envR) : R :=
  match e with [] => 0 | p :: r => fold_right (fun (q : ptR) m => Rmax (pv q) m) (pv p) r end.

Lemma fold_min_le b (r : envR) :
  fold_right (fun (q : ptR) m => Rmin (pv q) m) b r <= b
  /\ forall q, In q r -> fold_right (fun (q : ptR) m => Rmin (pv q) m) b r <= pv q.
Proof.
  induction r as [|a r [I1 I2]]; cbn [fold_right].
  - split; [lra|intros q []].
  - split.
    + eapply Rle_trans; [apply Rmin_r|exact I1].
    + intros q [<-|Hq]; [apply Rmin_l|]. eapply Rle_trans; [apply Rmin_r|apply I2; exact Hq].
Qed.
Lemma fold_max_ge b (r : envR) :
  b <= fold_right (fun (q : ptR) m => Rmax (pv q) m) b r
  /\ forall q, In q r -> pv q <= fold_right (fun (q : ptR) m => Rmax (pv q) m) b r.
Proof.
  induction r as [|a r [I1 I2]]; cbn [fold_right].
  - split; [lra|intros q []].
  - split.
    + eapply Rle_trans; [exact I1|apply Rmax_r].
    + intros q [<-|Hq]; [apply Rmax_l|]. eapply Rle_trans; [apply I2; exact Hq|apply Rmax_r].
Qed.
Lemma vmin_vmax_in (e : envR) q : In q e -> vmin e <= pv q <= vmax e.
Proof.
  destruct e as [|p r]; [intros []|]. unfold vmin, vmax.
  destruct (fold_min_le (pv p) r) as [A1 A2]. destruct (fold_max_ge (pv p) r) as [B1 B2].
  intros [<-|H]; split; auto.
Qed.

Lemma curve_go_bounds lo hi : forall rest (p : ptR) t0 x, t0 <= x ->
  (forall q, In q (p :: rest) -> lo <= pv q <= hi) -> lo <= curve_go t0 p rest x <= hi.
Proof.
  induction rest as [|q rest IH]; intros p t0 x Hx H.
  - cbn [curve_go]. apply H. left; reflexivity.
  - cbn [curve_go]. destruct (Rlt_dec x (t0 + tofR (pd p))) as [L|L].
    + pose proof (H p (or_introl eq_refl)) as Hp.
      pose proof (H q (or_intror (or_introl eq_refl))) as Hq.
      assert (Hf : 0 <= (x - t0) / (t0 + tofR (pd p) - t0) <= 1) by (apply frac_bounds; lra).
      pose proof (segR_between (pv p) (pv q) (pc p) _ Hf) as Hb.
      revert Hb. unfold Rmin, Rmax. destruct (Rle_dec (pv p) (pv q)); lra.
    + apply IH; [lra|]. intros q' Hq'. apply H. right; exact Hq'.
Qed.

(* the hypothesis pwf is not needed for the bound; it is kept to match the other statements *)
Theorem curve_bounds : forall e : envR, pwf e -> e <> [] -> forall x, vmin e <= curve e x <= vmax e.
Proof.
  intros [|p rest] _ Hne x; [congruence|]. cbn [curve]. destruct (Rle_dec x 0).
  - apply vmin_vmax_in. left; reflexivity.
  - apply curve_go_bounds; [lra|]. intros q Hq. apply vmin_vmax_in. exact Hq.
Qed.

(* C6: continuity away from doubled points *)
Definition jump (e : envR) (x : R) : Prop :=
  exists front p back, e = front ++ p :: back /\ back <> [] /\ pd p = 0%Z /\ x = startR front.

Lemma glue_left (f g : R -> R) a x :
  (forall y, y < a -> f y = g y) -> x < a -> continuous g x -> continuous f x.
Proof.
  intros Hfg Hx Hg. apply (continuous_ext_loc f g x); [|exact Hg].
  generalize (open_lt a x Hx). apply filter_imp. intros y Hy. symmetry. apply Hfg. exact Hy.
Qed.
Lemma glue_right (f h : R -> R) a x :
  (forall y, a < y -> f y = h y) -> a < x -> continuous h x -> continuous f x.
Proof.
  intros Hfh Hx Hh. apply (continuous_ext_loc f h x); [|exact Hh].
  generalize (open_gt a x Hx). apply filter_imp. intros y Hy. symmetry. apply Hfh. exact Hy.
Qed.
Lemma cont_iff (f : R -> R) x :
  continuous f x <-> forall eps : posreal, locally x (fun u => Rabs (f u - f x) < eps).
Proof.
  split; intro H.
  - apply continuity_pt_locally, continuity_pt_filterlim. exact H.
  - apply continuity_pt_filterlim, continuity_pt_locally. exact H.
Qed.
Lemma glue_at (f g h : R -> R) a :
  (forall y, y < a -> f y = g y) -> (forall y, a < y -> f y = h y) -> f a = g a -> g a = h a ->
  continuous g a -> continuous h a -> continuous f a.
Proof.
  intros Hfg Hfh Ha Hgh Hg Hh. apply cont_iff. intros eps.
  pose proof (proj1 (cont_iff g a) Hg eps) as Lg. pose proof (proj1 (cont_iff h a) Hh eps) as Lh.
  generalize (filter_and _ _ Lg Lh). apply filter_imp. intros u [Hu1 Hu2].
  destruct (Rtotal_order u a) as [L|[E|G]].
  - rewrite (Hfg u L), Ha. exact Hu1.
  - subst u. rewrite Rminus_eq_0, Rabs_R0. apply cond_pos.
  - rewrite (Hfh u G), Ha, Hgh. exact Hu2.
Qed.

Lemma curve_go_continuous : forall rest (p : ptR) t0 x, pwf (p :: rest) ->
  (forall front q back, p :: rest = front ++ q :: back -> back <> [] -> pd q = 0%Z ->
     x <> t0 + startR front) ->
  continuous (curve_go t0 p rest) x.
Proof.
  induction rest as [|q rest IH]; intros p t0 x W Hnj.
  - cbn [curve_go]. apply continuous_const.
  - apply pwf_cons in W as [Hp W].
    set (t1 := t0 + tofR (pd p)).
    set (g := fun y : R => segR (pv p) (pv q) (pc p) ((y - t0) / (t1 - t0))).
    assert (Hg : forall y, continuous g y).
    { intros y. unfold g, Rdiv. set (k := / (t1 - t0)).
      apply (continuous_comp (fun y => (y - t0) * k) (segR (pv p) (pv q) (pc p))).
      - apply (ex_derive_continuous (fun y => (y - t0) * k)). auto_derive. trivial.
      - apply segR_continuous. }
    assert (Hl : forall y, y < t1 -> curve_go t0 p (q :: rest) y = g y).
    { intros y Hy. cbn [curve_go]. fold t1. destruct (Rlt_dec y t1); [reflexivity|lra]. }
    assert (Hr : forall y, ~ y < t1 -> curve_go t0 p (q :: rest) y = curve_go t1 q rest y).
    { intros y Hy. cbn [curve_go]. fold t1. destruct (Rlt_dec y t1); [lra|reflexivity]. }
    assert (Hnj' : forall front q0 back, q :: rest = front ++ q0 :: back -> back <> [] ->
                     pd q0 = 0%Z -> x <> t1 + startR front).
    { intros front q0 back E Hb Hz Hx. apply (Hnj (p :: front) q0 back); [|exact Hb|exact Hz|].
      - cbn [app]. rewrite E. reflexivity.
      - rewrite startR_cons, Hx. unfold t1. ring. }
    destruct (Rtotal_order x t1) as [L|[E|G]].
    + apply (glue_left _ g t1); [exact Hl|exact L|apply Hg].
    + subst x.
      assert (Hpp : (0 < pd p)%Z).
      { destruct (Z.eq_dec (pd p) 0) as [Z|NZ]; [|lia]. exfalso.
        apply (Hnj [] p (q :: rest) eq_refl); [discriminate|exact Z|].
        unfold t1. rewrite Z, tofR_0, startR_nil. reflexivity. }
      assert (Hqq : rest = [] \/ (0 < pd q)%Z).
      { destruct rest as [|r rest']; [left; reflexivity|right].
        apply pwf_cons in W as [Hq _].
        destruct (Z.eq_dec (pd q) 0) as [Z|NZ]; [|lia]. exfalso.
        apply (Hnj' [] q (r :: rest') eq_refl); [discriminate|exact Z|].
        rewrite startR_nil. ring. }
      apply (glue_at _ g (curve_go t1 q rest) t1).
      * exact Hl.
      * intros y Hy. apply Hr. lra.
      * rewrite Hr by lra. rewrite curve_go_at_start by exact Hqq.
        unfold g. apply tofR_pos in Hpp.
        replace ((t1 - t0) / (t1 - t0)) with 1 by (unfold t1; field; lra).
        symmetry. apply segR_1.
      * rewrite curve_go_at_start by exact Hqq.
        unfold g. apply tofR_pos in Hpp.
        replace ((t1 - t0) / (t1 - t0)) with 1 by (unfold t1; field; lra).
        apply segR_1.
      * apply Hg.
      * apply IH; [exact W|exact Hnj'].
    + apply (glue_right _ (curve_go t1 q rest) t1).
      * intros y Hy. apply Hr. lra.
      * exact G.
      * apply IH; [exact W|exact Hnj'].
Qed.

Theorem curve_continuous : forall e : envR, pwf e -> e <> [] ->
  forall x, ~ jump e x -> continuous (curve e) x.
Proof.
  intros [|p rest] W Hne x Hj; [congruence|].
  assert (Hnj : forall front q back, p :: rest = front ++ q :: back -> back <> [] -> pd q = 0%Z ->
                  x <> 0 + startR front).
  { intros front q back E Hb Hz Hx. apply Hj. exists front, q, back.
    repeat split; try assumption. rewrite Hx. ring. }
  assert (Hl : forall y, y < 0 -> curve (p :: rest) y = (fun _ => pv p) y).
  { intros y Hy. apply curve_clamped_left. lra. }
  assert (Hr : forall y, 0 < y -> curve (p :: rest) y = curve_go 0 p rest y).
  { intros y Hy. cbn [curve]. destruct (Rle_dec y 0); [lra|reflexivity]. }
  destruct (Rtotal_order x 0) as [L|[E|G]].
  - apply (glue_left _ (fun _ => pv p) 0); [exact Hl|exact L|apply continuous_const].
  - subst x.
    assert (Hpp : rest = [] \/ (0 < pd p)%Z).
    { destruct rest as [|q rest']; [left; reflexivity|right].
      pose proof W as W'. apply pwf_cons in W' as [Hp _].
      destruct (Z.eq_dec (pd p) 0) as [Z|NZ]; [|lia]. exfalso.
      apply (Hnj [] p (q :: rest') eq_refl); [discriminate|exact Z|].
      rewrite startR_nil. ring. }
    apply (glue_at _ (fun _ => pv p) (curve_go 0 p rest) 0).
    + exact Hl.
    + exact Hr.
    + apply curve_at_first.
    + rewrite curve_go_at_start by exact Hpp. reflexivity.
    + apply continuous_const.
    + apply curve_go_continuous; [exact W|exact Hnj].
  - apply (glue_right _ (curve_go 0 p rest) 0); [exact Hr|exact G|].
    apply curve_go_continuous; [exact W|exact Hnj].
Qed.

(* ================================================================ D. round trip of the constructor *)

Section RoundTrip.
  Variable F : Type.

  Lemma points_roundtrip_from : forall (pl : list (point F)) t0,
    (match pl with [] => True | (t, _, _) :: _ => t = t0 end) ->
    zip_points F (pstarts_from F t0 (of_points F pl)) (of_points F pl) = pl.
  Proof.
    induction pl as [|[[t v] c] r IH]; intros t0 H; [reflexivity|]. subst t.
    destruct r as [|[[t1 v1] c1] r'].
    - reflexivity.
    - change (of_points F ((t0, v, c) :: (t1, v1, c1) :: r'))
        with (mkPt (t1 - t0)%Z v c :: of_points F ((t1, v1, c1) :: r')).
      pose proof (IH t1 eq_refl) as IH'.
      set (tl := of_points F ((t1, v1, c1) :: r')) in *.
      cbn [pstarts_from zip_points pd pv pc].
      replace (t0 + (t1 - t0))%Z with t1 by lia.
      f_equal. exact IH'.
  Qed.

  Theorem points_roundtrip : forall (pl : list (point F)),
    (match pl with [] => True | (t0, _, _) :: _ => t0 = 0%Z end) ->
    to_points F (of_points F pl) = pl.
  Proof. intros pl H. unfold to_points, pstarts. apply points_roundtrip_from. exact H. Qed.
End RoundTrip.

(* the first point's time is dropped by the constructor: no round trip when it is not 0 *)
Theorem points_roundtrip_refuted : exists pl : list (point R), to_points R (of_points R pl) <> pl.
Proof.
  exists [(1%Z, 0, 0); (2%Z, 1, 0)]. intros H.
  apply (f_equal (fun l : list (point R) => match l with (t, _, _) :: _ => t | [] => 0%Z end)) in H.
  cbv in H. discriminate H.
Qed.

(* ================================================================ E. a concrete envelope *)

(* three points at beats 0, 1, 3 with values 0, 1, 3; the second segment is curved (shape -3) *)
Definition ex_p1 : ptR := mkPt 10000000000%Z 0 0.
Definition ex_p2 : ptR := mkPt 20000000000%Z 1 (-3).
Definition ex_p3 : ptR := mkPt 0%Z 3 0.
Definition ex_env : envR := [ex_p1; ex_p2; ex_p3].

Lemma ex_pwf : pwf ex_env.
Proof. unfold pwf, ex_env. repeat constructor; cbn [pd ex_p1 ex_p2 ex_p3]; lia. Qed.
Lemma ex_start1 : startR [ex_p1] = 1.
Proof.
  rewrite startR_cons, startR_nil. cbn [pd ex_p1]. unfold tofR, ticks_per_beat. field.
Qed.
Lemma ex_dur2 : tofR (pd ex_p2) = 2.
Proof. cbn [pd ex_p2]. unfold tofR, ticks_per_beat. field. Qed.

(* C3 at beat 2, the middle of the curved segment *)
Example ex_segment : curve ex_env 2 = segR 1 3 (-3) ((2 - 1) / 2).
Proof.
  pose proof (curve_segment [ex_p1] ex_p2 ex_p3 [] 2 ex_pwf) as H.
  rewrite ex_start1, ex_dur2 in H. apply H.
  - cbn [pd ex_p2]. lia.
  - lra.
  - lra.
Qed.

(* C4 at beat 1, the second control point, and at beat 3, the last one *)
Example ex_at_point : curve ex_env 1 = 1.
Proof.
  pose proof (curve_at_point [ex_p1] ex_p2 [ex_p3] ex_pwf) as H.
  rewrite ex_start1 in H. apply H; [lra|right; cbn [pd ex_p2]; lia].
Qed.
Example ex_at_last : curve ex_env (startR [ex_p1; ex_p2]) = 3.
Proof.
  apply (curve_at_point [ex_p1; ex_p2] ex_p3 [] ex_pwf); [|left; reflexivity].
  rewrite !startR_cons, startR_nil.
  assert (0 < tofR (pd ex_p1)) by (apply tofR_pos; cbn [pd ex_p1]; lia).
  assert (0 < tofR (pd ex_p2)) by (apply tofR_pos; cbn [pd ex_p2]; lia). lra.
Qed.
(* no point of ex_env is doubled, so its curve is continuous everywhere except possibly at the
   jump positions, of which there are none *)
Example ex_no_jump : forall x, ~ jump ex_env x.
Proof.
  intros x (front & p & back & E & Hb & Hz & _). unfold ex_env in E.
  destruct front as [|f1 [|f2 [|f3 [|f4 front]]]]; cbn [app] in E; inversion E; subst;
    try (cbn in Hz; discriminate Hz); try (apply Hb; reflexivity).
Qed.
Example ex_continuous : forall x, continuous (curve ex_env) x.
Proof.
  intros x. apply curve_continuous; [exact ex_pwf|discriminate|apply ex_no_jump].
Qed.

Print Assumptions value_at_curve.
Print Assumptions curve_segment.
Print Assumptions segR_monotone_up.
Print Assumptions curve_continuous.
Print Assumptions points_roundtrip.
