(* Stage B: the documented errors of split_at, and invariance under permutation of the times. *)
From Coq Require Import ZArith List Bool Lia ZifyBool Arith Permutation.
From MV Require Import Base.Res Model.EventTree Model.TreeOps Proofs.TreeLemmas Proofs.CutOut
  Proofs.SplitBase Proofs.SplitSingle Proofs.SplitSort Proofs.SplitLoop.
Import ListNotations.
Open Scope Z_scope.

Lemma sim_split_unfold rec m cs ts ign : ts <> [] -> sim_split rec m cs ts ign =
      (let sl := sortZ ts in
      _ <- check_time (hd 0 sl) ;
      if (dmax cs <? lastZ sl) && negb ign then Err ESplitError
      else pss <- slices_of rec cs sl ; Ok (map (fun r => Sim m r) (rows pss))).
Proof. destruct ts; [congruence|reflexivity]. Qed.

Lemma split_at_unfold e ts ign : split_at e ts ign =
  match e with
  | Leaf d l => leaf_split d l ts ign
  | Seq m cs => seq_split (split_at_f (hmax cs)) m cs ts ign
  | Sim m cs => sim_split (split_at_f (hmax cs)) m cs ts ign
  end.
Proof. destruct e; reflexivity. Qed.

Theorem split_no_time e ign : split_at e [] ign = Err ENoSplitTime.
Proof. rewrite split_at_unfold. destruct e; reflexivity. Qed.

Theorem split_negative e ts ign : ts <> [] -> (exists t, In t ts /\ t < 0) ->
  split_at e ts ign = Err EInvalidAbsoluteTime.
Proof.
  intros Hne (t & Hin & Ht). pose proof (sortZ_hd_min ts t Hin) as Hmin.
  rewrite split_at_unfold. destruct e as [d l|m cs|m cs].
  - rewrite leaf_split_unfold by assumption. cbv zeta. rewrite check_time_err by lia. reflexivity.
  - rewrite seq_split_unfold by assumption. destruct (sortZ ts) as [|t0 r] eqn:E; [exfalso; exact (Hne (proj1 (sortZ_nil_iff ts) E))|].
    simpl hd in Hmin. rewrite seq_loop_cons. rewrite check_time_err by lia. reflexivity.
  - rewrite sim_split_unfold by assumption. cbv zeta. rewrite check_time_err by lia. reflexivity.
Qed.

Lemma lastZ_cons0 sl : sl <> [] -> lastZ (0 :: sl) = lastZ sl.
Proof. destruct sl; [congruence|reflexivity]. Qed.

Theorem split_beyond e ts : wf e -> (forall t, In t ts -> 0 <= t) -> (exists t, In t ts /\ dur e < t) ->
  split_at e ts false = Err ESplitError.
Proof.
  intros Hwf Hnn (t & Hin & Ht). assert (Hne : ts <> []) by (destruct ts; [destruct Hin|congruence]).
  pose proof (sortZ_last_max ts t Hin) as Hmax.
  pose proof (Hnn _ (sortZ_hd_In ts Hne)) as Hhd.
  rewrite split_at_unfold. destruct e as [d l|m cs|m cs].
  - rewrite leaf_split_unfold by assumption. cbv zeta. rewrite check_time_ok by assumption. cbn [bind].
    assert (Hl : lastZ (if memZ 0 (sortZ ts) then sortZ ts else 0 :: sortZ ts) = lastZ (sortZ ts)).
    { destruct (memZ 0 (sortZ ts)); [reflexivity|]. apply lastZ_cons0. rewrite sortZ_nil_iff. assumption. }
    rewrite Hl. simpl dur in Ht.
    destruct (lastZ (sortZ ts) <? d) eqn:E1; [lia|].
    destruct (d <? lastZ (sortZ ts)) eqn:E2; [|lia]. reflexivity.
  - apply (seq_beyond _ (hmax cs) (split_single_gen (hmax cs))); auto. exists t. auto.
  - rewrite sim_split_unfold by assumption. cbv zeta. rewrite check_time_ok by assumption. cbn [bind].
    rewrite dur_sim in Ht. destruct (dmax cs <? lastZ (sortZ ts)) eqn:E; [reflexivity|lia].
Qed.

Theorem split_f_perm n e ts ts' ign : Permutation ts ts' -> split_at_f n e ts ign = split_at_f n e ts' ign.
Proof.
  intros P. destruct ts as [|t0 ts0].
  - apply Permutation_nil in P. subst. reflexivity.
  - assert (ts' <> []) by (intros ->; apply Permutation_sym, Permutation_nil in P; discriminate).
    pose proof (sortZ_perm _ _ P) as Es.
    destruct n as [|n]; [reflexivity|]. destruct e as [d l|m cs|m cs]; cbn [split_at_f].
    + rewrite !leaf_split_unfold by (assumption || congruence). rewrite Es. reflexivity.
    + rewrite !seq_split_unfold by (assumption || congruence). rewrite Es. reflexivity.
    + rewrite !sim_split_unfold by (assumption || congruence). rewrite Es. reflexivity.
Qed.
Theorem split_perm e ts ts' ign : Permutation ts ts' -> split_at e ts ign = split_at e ts' ign.
Proof. apply split_f_perm. Qed.

(* the hypotheses are satisfiable *)
Example ex_err_no_time : split_at ex_tree [] false = Err ENoSplitTime. Proof. reflexivity. Qed.
Example ex_err_negative : split_at ex_tree [10; -1] true = Err EInvalidAbsoluteTime. Proof. vm_compute. reflexivity. Qed.
Example ex_err_beyond : split_at ex_tree [10; 56] false = Err ESplitError. Proof. vm_compute. reflexivity. Qed.
Example ex_beyond_ignored : exists ps, split_at ex_tree [10; 56] true = Ok ps /\ length ps = 2%nat.
Proof. eexists. split; [vm_compute; reflexivity|reflexivity]. Qed.
Example ex_perm : split_at ex_tree [50; 5; 35] false = split_at ex_tree [5; 35; 50] false.
Proof. apply split_perm. apply Permutation_cons_append with (l := [5; 35]) (x := 50). Qed.

Print Assumptions split_no_time.
Print Assumptions split_negative.
Print Assumptions split_beyond.
Print Assumptions split_perm.
