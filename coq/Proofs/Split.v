(* split_at: umbrella file.  Stage A (single cut) is in SplitSingle, stage B (errors, permutation
   invariance) in SplitErrors, stage C (several cuts) in SplitMulti; SplitBase / SplitSort / SplitLoop
   hold the supporting lemmas. *)
From MV Require Export Proofs.SplitBase Proofs.SplitSingle Proofs.SplitSort Proofs.SplitLoop
  Proofs.SplitErrors Proofs.SplitMulti.

(* Stage A *)
Print Assumptions split_single_inside.
Print Assumptions split_single_beyond.
Print Assumptions split_single_zero.
Print Assumptions split_at_single.
Print Assumptions split_child_core_ok.
Print Assumptions split_at_f_fuel.
(* Stage B *)
Print Assumptions split_no_time.
Print Assumptions split_negative.
Print Assumptions split_beyond.
Print Assumptions split_perm.
(* Stage C *)
Print Assumptions split_total.
Print Assumptions split_tiles.
Print Assumptions split_tiles_ignore.
Print Assumptions split_boundaries.
Print Assumptions split_durations.
Print Assumptions split_windows.
